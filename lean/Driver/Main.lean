import TpmVerif.Base.Trace
import TpmVerif.Check.C16
import TpmVerif.Check.C17
import TpmVerif.Check.C11
import TpmVerif.Check.C08
import TpmVerif.Check.C02
import TpmVerif.Check.Persist
import TpmVerif.Check.C06
import TpmVerif.Check.C01
import TpmVerif.Check.C13
import TpmVerif.Check.C04
import TpmVerif.Check.C10
import TpmVerif.Check.C09
import TpmVerif.Check.C15
import TpmVerif.Check.C14
import TpmVerif.Check.C12
import TpmVerif.Check.C18
import TpmVerif.Check.C19
import TpmVerif.Check.C20
/-! Line-protocol driver: `tpmmodel <Cxx> <trace file>`; prints one `MISMATCH` line per disagreement and a summary. -/
open TpmVerif

def checkers : List (String × (List Line → Report)) :=
  [ ("C16", Check.C16.check), ("C17", Check.C17.check), ("C11", Check.C11.check), ("C08", Check.C08.check), ("C02", Check.C02.check), ("C03", Check.Persist.checkC03), ("C05", Check.Persist.checkC05), ("C07", Check.Persist.checkC07), ("C06", Check.C06.check), ("C01", Check.C01.check), ("C13", Check.C13.check), ("C04", Check.C04.check), ("C10", Check.C10.check), ("C09", Check.C09.check), ("C15", Check.C15.check), ("C14", Check.C14.check), ("C12", Check.C12.check),
    ("C18", Check.C18.check), ("C19", Check.C19.check), ("C20", Check.C20.check) ]

def main (args : List String) : IO UInt32 := do
  match args with
  | [prop, file] =>
    match checkers.find? (·.1 == prop) with
    | none => IO.eprintln s!"no checker for {prop}"; return 2
    | some (_, chk) =>
      let text ← IO.FS.readFile file
      let lines := (text.splitOn "\n").filter (· ≠ "") |>.map Line.parse
      let rep := chk lines
      for m in rep.mismatches.take 50 do IO.println s!"MISMATCH {m}"
      for n in rep.notes.take 50 do IO.println s!"NOTE {n}"
      for b in rep.branches do IO.println s!"BRANCH {b}"
      IO.println s!"SUMMARY events={rep.events} mismatches={rep.mismatches.length} branches={rep.branches.length}"
      return (if rep.mismatches.isEmpty then 0 else 1)
  | _ => IO.eprintln "usage: tpmmodel <Cxx> <trace>"; return 2
