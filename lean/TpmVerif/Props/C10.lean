import TpmVerif.Model.Pcr
/-!
  C10 — PCR values follow the extend / reset / locality rules in every bank. All theorems hold for EVERY hash function
  `H` (the checker instantiates the Lean SHA-1/256/384/512) and every state.
-/
namespace TpmVerif.Props.C10
open TpmVerif TpmVerif.Model.Pcr

variable (H : HashFn)

/-! ### Extend -/

theorem setVal_same (f : Nat → Nat → Bytes) (a p : Nat) (v : Bytes) : setVal f a p v a p = v := by simp [setVal]
theorem setVal_other (f : Nat → Nat → Bytes) (a p a' p' : Nat) (v : Bytes) (h : ¬ (a' = a ∧ p' = p)) :
    setVal f a p v a' p' = f a' p' := by simp [setVal, h]

/-- one bank: an allocated PCR becomes H(old ‖ digest) -/
theorem extendBank_value (s : St) (pcr alg : Nat) (d : Bytes) (h : allocated s.active alg pcr = true) :
    (extendBank H s pcr alg d).val alg pcr = H alg (s.val alg pcr ++ d) := by
  simp [extendBank, h, setVal]

/-- an unallocated bank ignores the digest -/
theorem extendBank_unallocated (s : St) (pcr alg : Nat) (d : Bytes) (h : allocated s.active alg pcr = false) :
    extendBank H s pcr alg d = s := by simp [extendBank, h]

/-- nothing else moves -/
theorem extendBank_frame (s : St) (pcr alg : Nat) (d : Bytes) (a p : Nat) (h : ¬ (a = alg ∧ p = pcr)) :
    (extendBank H s pcr alg d).val a p = s.val a p := by
  unfold extendBank
  split
  · simp [setVal, h]
  · rfl

theorem extendBank_active (s : St) (pcr alg : Nat) (d : Bytes) : (extendBank H s pcr alg d).active = s.active := by
  unfold extendBank; split <;> rfl

/-- **TPM2_PCR_Extend with one digest for a bank: the value is H(old ‖ digest)** when the locality may extend the PCR -/
theorem extend_value (s : St) (pcr loc alg : Nat) (d : Bytes) (hl : extendAllowed pcr loc = true)
    (ha : allocated s.active alg pcr = true) :
    (extend H s pcr loc [(alg, d)]).2 = 0 ∧ (extend H s pcr loc [(alg, d)]).1.val alg pcr = H alg (s.val alg pcr ++ d) := by
  have hc : (clearOrderly s pcr).val = s.val ∧ (clearOrderly s pcr).active = s.active := by
    unfold clearOrderly; split <;> simp
  simp only [extend, hl, Bool.not_true, Bool.false_eq_true, if_false, List.foldl]
  refine ⟨trivial, ?_⟩
  rw [extendBank_value H _ pcr alg d (by rw [hc.2]; exact ha), hc.1]

/-- **an extend from a locality that may not extend the PCR is refused and changes nothing** -/
theorem extend_refused (s : St) (pcr loc : Nat) (ds : List (Nat × Bytes)) (hl : extendAllowed pcr loc = false) :
    extend H s pcr loc ds = (s, Gen.TPM_RC_LOCALITY) := by simp [extend, hl]

theorem foldl_extendBank_frame (pcr : Nat) (a p : Nat) (hp : p ≠ pcr) : ∀ (ds : List (Nat × Bytes)) (s : St),
    (ds.foldl (fun s (ad : Nat × Bytes) => extendBank H s pcr ad.1 ad.2) s).val a p = s.val a p := by
  intro ds
  induction ds with
  | nil => intro s; rfl
  | cons x xs ih =>
    intro s
    simp only [List.foldl]
    rw [ih, extendBank_frame H s pcr x.1 x.2 a p (by intro h; exact hp h.2)]

/-- **an extend never touches another PCR** (any digest list, any bank) -/
theorem extend_frame (s : St) (pcr loc : Nat) (ds : List (Nat × Bytes)) (a p : Nat) (hp : p ≠ pcr) :
    (extend H s pcr loc ds).1.val a p = s.val a p := by
  unfold extend
  split
  · rfl
  · simp only
    rw [foldl_extendBank_frame H pcr a p hp]
    unfold clearOrderly; split <;> rfl

/-- **the extend chain**: extending one bank of an allocated PCR by d₁ … dₙ gives H(…H(H(old‖d₁)‖d₂)…‖dₙ) -/
theorem extend_chain (pcr loc alg : Nat) (hl : extendAllowed pcr loc = true) : ∀ (ds : List Bytes) (s : St),
    allocated s.active alg pcr = true →
    (ds.foldl (fun s d => (extend H s pcr loc [(alg, d)]).1) s).val alg pcr =
      ds.foldl (fun v d => H alg (v ++ d)) (s.val alg pcr) := by
  intro ds
  induction ds with
  | nil => intro s _; rfl
  | cons d ds ih =>
    intro s ha
    simp only [List.foldl]
    have hv := (extend_value H s pcr loc alg d hl ha).2
    have hact : (extend H s pcr loc [(alg, d)]).1.active = s.active := by
      simp only [extend, hl, Bool.not_true, Bool.false_eq_true, if_false, List.foldl]
      rw [extendBank_active]; unfold clearOrderly; split <;> rfl
    rw [ih _ (by rw [hact]; exact ha), hv]

/-- the update counter moves by one per bank actually extended, and not at all for the no-increment PCRs -/
theorem extendBank_counter (s : St) (pcr alg : Nat) (d : Bytes) :
    (extendBank H s pcr alg d).counter =
      s.counter + (if allocated s.active alg pcr = true ∧ counts pcr = true then 1 else 0) := by
  unfold extendBank bump
  by_cases ha : allocated s.active alg pcr = true
  · by_cases hc : counts pcr = true <;> simp [ha, hc]
  · simp [ha]

/-! ### Event -/

/-- **PCR_Event / EventSequenceComplete extend every allocated bank with that bank's digest of the data** and return
    the digest for every implemented bank -/
theorem event_value (s : St) (pcr loc alg : Nat) (data : Bytes) (hl : extendAllowed pcr loc = true)
    (hb : bankAlgs.contains alg = true) (ha : allocated s.active alg pcr = true) :
    (event H s pcr loc data).2.1 = 0 ∧
    (event H s pcr loc data).1.val alg pcr = H alg (s.val alg pcr ++ H alg data) ∧
    (event H s pcr loc data).2.2 = bankAlgs.map (fun a => (a, H a data)) := by
  have hb' : alg ∈ bankAlgs := by simpa using hb
  simp [event, hl, hb', ha]

theorem event_frame (s : St) (pcr loc : Nat) (data : Bytes) (a p : Nat) (hp : p ≠ pcr) :
    (event H s pcr loc data).1.val a p = s.val a p := by
  unfold event
  split
  · rfl
  · simp [hp]

theorem event_refused (s : St) (pcr loc : Nat) (data : Bytes) (hl : extendAllowed pcr loc = false) :
    event H s pcr loc data = (s, Gen.TPM_RC_LOCALITY, []) := by simp [event, hl]

/-! ### Reset -/

/-- **PCR_Reset zeroes the PCR in every allocated bank, touches no other PCR, and is refused (no change) from a
    locality that may not reset it** -/
theorem reset_value (s : St) (pcr loc alg : Nat) (hl : resetAllowed pcr loc = true) (ha : allocated s.active alg pcr = true) :
    (reset s pcr loc).2 = 0 ∧ (reset s pcr loc).1.val alg pcr = zeros alg := by
  have hc : (clearOrderly s pcr).active = s.active := by unfold clearOrderly; split <;> rfl
  simp [reset, hl, hc, ha]

theorem reset_frame (s : St) (pcr loc : Nat) (a p : Nat) (hp : p ≠ pcr) : (reset s pcr loc).1.val a p = s.val a p := by
  unfold reset
  split
  · rfl
  · simp only [hp, false_and, if_false]
    unfold clearOrderly; split <;> rfl

theorem reset_refused (s : St) (pcr loc : Nat) (hl : resetAllowed pcr loc = false) :
    reset s pcr loc = (s, Gen.TPM_RC_LOCALITY) := by simp [reset, hl]

/-! ### The locality table (TCG PC Client): decided over the table regenerated from PlatformPCR.c -/

/-- per PCR: localities that may reset it by command, localities that may extend it -/
def pcClient : List (List Nat × List Nat) :=
  List.replicate 16 ([], [0, 1, 2, 3, 4]) ++
  [ ([0, 1, 2, 3], [0, 1, 2, 3, 4]),   -- 16 debug
    ([], [2, 3, 4]),                   -- 17 DRTM: reset only by the DRTM event (locality 4 hardware interface)
    ([], [2, 3, 4]),                   -- 18
    ([], [2, 3]),                      -- 19
    ([2, 3], [1, 2, 3]),               -- 20
    ([2, 3], [2]),                     -- 21
    ([2, 3], [2]),                     -- 22
    ([0, 1, 2, 3], [0, 1, 2, 3, 4]) ]  -- 23 application

theorem locality_table : ∀ pcr, pcr < 24 → ∀ loc, loc < 5 →
    resetAllowed pcr loc = ((pcClient.getD pcr ([], [])).1.contains loc) ∧
    extendAllowed pcr loc = ((pcClient.getD pcr ([], [])).2.contains loc) := by decide

/-- PCR 0–15 can never be reset by a command; they are exactly the state-saved PCRs -/
theorem static_pcrs : ∀ pcr, pcr < 24 → ((attrOf pcr).save = true ↔ pcr < 16) ∧ (pcr < 16 → ∀ loc, loc < 5 → resetAllowed pcr loc = false) := by decide

/-- the PCRs the DRTM event resets are 17–22 -/
theorem dynamic_pcrs : ∀ pcr, pcr < 24 → (dynamic pcr = true ↔ 17 ≤ pcr ∧ pcr ≤ 22) := by decide

/-- the PCRs that do not move the update counter are 16, 21, 22, 23 (PCR 0 always counts) -/
theorem counting_pcrs : ∀ pcr, pcr < 24 → (counts pcr = false ↔ pcr = 16 ∨ pcr = 21 ∨ pcr = 22 ∨ pcr = 23) := by decide

/-! ### Read -/

/-- PCR_Read changes nothing (it is a function of the state) and depends only on the values and the active allocation -/
theorem read_depends (s s' : St) (sels : List (Nat × Nat × Nat)) (hv : s.val = s'.val) (ha : s.active = s'.active) :
    read s sels = read s' sels := by unfold TpmVerif.Model.Pcr.read; rw [hv, ha]

/-! ### Allocation takes effect at the next _TPM_Init only -/

/-- **PCR_Allocate changes neither the active allocation nor any PCR value nor the counter**: reads, extends and
    resets behave as before until the TPM is re-initialised -/
theorem allocate_inert (s : St) (req : List (Nat × Nat)) :
    (allocate s req).1.active = s.active ∧ (allocate s req).1.val = s.val ∧ (allocate s req).1.counter = s.counter := by
  unfold allocate
  split <;> simp

theorem allocate_read (s : St) (req : List (Nat × Nat)) (sels : List (Nat × Nat × Nat)) :
    read (allocate s req).1 sels = read s sels :=
  read_depends _ _ _ (allocate_inert s req).2.1 (allocate_inert s req).1

/-- the requested layout: a bank listed in the request gets the requested selection, the others keep the ACTIVE one -/
theorem newAlloc_listed (s : St) (req : List (Nat × Nat)) (alg m : Nat) (h : req.find? (·.1 == alg) = some (alg, m)) :
    newAlloc s req alg = m := by simp [newAlloc, h]
theorem newAlloc_unlisted (s : St) (req : List (Nat × Nat)) (alg : Nat) (h : req.find? (·.1 == alg) = none) :
    newAlloc s req alg = s.active alg := by simp [newAlloc, h]

/-- a successful PCR_Allocate stores the requested banks over the ACTIVE layout; the power cycle makes it active -/
theorem allocate_then_powercycle (s : St) (req : List (Nat × Nat)) (h : (allocate s req).2.1 = 0) (alg : Nat) :
    (powerCycle (allocate s req).1).active alg = newAlloc s req alg := by
  unfold allocate at h ⊢
  by_cases hc : allocOk s req = true
  · simp [hc, powerCycle]
  · simp [hc, Gen.TPM_RC_PCR] at h

/-- an allocation without PCR 0 or without PCR 17 in any bank is refused and changes nothing -/
theorem allocate_refused (s : St) (req : List (Nat × Nat)) (h : (allocate s req).2.1 ≠ 0) : (allocate s req).1 = s := by
  unfold allocate at h ⊢
  by_cases hc : allocOk s req = true
  · simp [hc] at h
  · simp [hc]

/-- suspend/resume with a pending allocation: nothing in the model moves (the blobs carry the active layout) -/
theorem shutdown_state_refused_after_allocate (s : St) (h : s.reconfig = true) :
    shutdown s true = (s, Gen.TPM_RC_TYPE + 0x140) := by simp [shutdown, h]

/-! ### Startup values -/

/-- **Startup(CLEAR) after a reset: every allocated PCR has its reset value** — zero, all-ones for the dynamic PCRs,
    the startup locality in the last byte of PCR 0 — unless an H-CRTM sequence already measured into PCR 0 -/
theorem startup_reset_values (s : St) (loc alg pcr : Nat) (ha : allocated s.active alg pcr = true)
    (hs : ¬ (pcr = Gen.HCRTM_PCR ∧ s.drtmPre = true)) :
    (pcrStartup s .reset loc).val alg pcr = initValue pcr alg loc := by
  unfold pcrStartup
  simp only [ha, true_and]
  have : ¬ ((pcr == Gen.HCRTM_PCR && Kind.reset != Kind.resume && s.drtmPre) = true) := by
    intro h; simp at h; exact hs h
  simp [this]

/-- after an H-CRTM sequence, Startup leaves PCR 0 alone -/
theorem startup_keeps_hcrtm (s : St) (loc alg : Nat) (k : Kind) (hk : k ≠ .resume) (hp : s.drtmPre = true) :
    (pcrStartup s k loc).val alg Gen.HCRTM_PCR = s.val alg Gen.HCRTM_PCR := by
  unfold pcrStartup
  have : (k != Kind.resume) = true := by simpa using hk
  simp [hp, this]

/-- the update counter after a reset is the number of counting PCRs -/
theorem startup_reset_counter (s : St) (loc : Nat) : (pcrStartup s .reset loc).counter = 20 := by
  unfold pcrStartup
  simp only [show (Kind.reset == Kind.reset) = true from rfl, if_true]
  decide

/-! ### State-saved PCRs survive Shutdown(STATE) / Startup(STATE) -/

/-- the save index is injective on the state-saved PCRs -/
theorem saveIdx_inj : ∀ p, p < 24 → ∀ q, q < 24 → (attrOf p).save = true → (attrOf q).save = true → saveIdx p = saveIdx q → p = q := by decide

theorem savedPcr_saveIdx : ∀ p, p < 24 → (attrOf p).save = true → savedPcr (saveIdx p) = some p := by decide

/-- **Shutdown(STATE), power cycle, Startup(STATE): every state-saved PCR of every allocated bank has the value it had** -/
theorem state_saved_survive (s : St) (loc alg pcr : Nat) (hp : pcr < 24) (hs : (attrOf pcr).save = true)
    (ha : allocated s.active alg pcr = true) (hr : s.reconfig = false) (hn : s.nvAlloc = s.active) :
    let s1 := (shutdown s true).1
    let s2 := powerCycle s1
    let s3 := { s2 with saved := s2.nvSaved, counter := s2.nvCounter }
    (pcrStartup s3 .resume loc).val alg pcr = s.val alg pcr := by
  simp only [shutdown, hr, Bool.false_and, Bool.false_eq_true, if_false, Bool.not_true, powerCycle, hn]
  unfold pcrStartup
  simp only [ha, true_and]
  have hskip : ¬ ((pcr == Gen.HCRTM_PCR && Kind.resume != Kind.resume && false) = true) := by simp
  have hres : (Kind.resume == Kind.resume && (attrOf pcr).save) = true := by simp [hs]
  simp [hs, savedPcr_saveIdx pcr hp hs, ha]

/-! ### DRTM and H-CRTM -/

/-- **DRTM (TPM_IO_Hash_Start/Data/End after Startup)**: PCR 17 of every allocated bank is H(0…0 ‖ H(data)), the other
    dynamic PCRs (18–22) are zero, every other PCR keeps its value -/
theorem drtm_values (s : St) (data : Bytes) (hst : s.started = true) (hseq : s.seq = some data) (alg p : Nat)
    (hb : bankAlgs.contains alg = true) (ha : allocated s.active alg p = true) :
    (hashEnd H s).val alg p =
      if p = Gen.DRTM_PCR then H alg (zeros alg ++ H alg data)
      else if dynamic p then zeros alg else s.val alg p := by
  unfold hashEnd
  simp only [hseq, hst, if_true]
  have hb' : alg ∈ bankAlgs := by simpa using hb
  by_cases hp : p = Gen.DRTM_PCR
  · subst hp
    simp [hb', ha, drtmBase]
  · simp [hp, resetDynamics, ha]

/-- **H-CRTM (the same interface before Startup)**: PCR 0 of every allocated bank is H(0…04 ‖ H(data)), nothing else moves,
    and the following Startup must not re-initialise PCR 0 (`startup_keeps_hcrtm`) -/
theorem hcrtm_values (s : St) (data : Bytes) (hst : s.started = false) (hseq : s.seq = some data) (alg : Nat)
    (hb : bankAlgs.contains alg = true) (ha : allocated s.active alg Gen.HCRTM_PCR = true) :
    (hashEnd H s).val alg Gen.HCRTM_PCR = H alg (List.replicate (digestSize alg - 1) 0 ++ [4] ++ H alg data) ∧
    (hashEnd H s).drtmPre = true ∧
    ∀ a p, p ≠ Gen.HCRTM_PCR → (hashEnd H s).val a p = s.val a p := by
  unfold hashEnd
  simp only [hseq, hst, Bool.false_eq_true, if_false]
  have hb' : alg ∈ bankAlgs := by simpa using hb
  refine ⟨by simp [hb', ha, drtmBase], by simp, ?_⟩
  intro a p hp
  simp [hp]

/-- a command between Hash_Start and Hash_End ends the sequence: Hash_End then changes nothing -/
theorem interrupted_sequence (s : St) : hashEnd H (anyCommand s) = anyCommand s := by
  simp [hashEnd, anyCommand]

/-! ### Non-vacuity -/
example : allocated manufactured.active 11 17 = true ∧ extendAllowed 17 2 = true ∧ extendAllowed 17 0 = false ∧
    resetAllowed 16 0 = true ∧ resetAllowed 0 0 = false ∧ (attrOf 7).save = true := by decide

end TpmVerif.Props.C10
