import TpmVerif.Model.Profile
/-!
  C14 — the profile fixes and enforces the command/algorithm surface. Theorems about `Model.Profile`; the tables they
  quantify over are regenerated from the source on every run.
-/
namespace TpmVerif.Props.C14
open TpmVerif TpmVerif.Model.Profile TpmVerif.Gen.Profile

/-! ### Commands -/

/-- the codes of an accepted range: each is in the table, implemented, allowed at the StateFormatLevel, and inside the range -/
theorem expandRange_sound (lo hi m : Nat) (l : List Nat) (h : expandRange lo hi m = some l) :
    ∀ cc ∈ l, lo ≤ cc ∧ cc ≤ hi ∧ ∃ p, cmdProp cc = some p ∧ p.impl = true ∧ p.sfl ≤ m := by
  unfold expandRange at h
  by_cases hc : (inTable lo && inTable hi && (rangeCodes lo hi).all (codeOk m)) = true
  · simp only [hc, if_true, Option.some.injEq] at h
    subst h
    simp only [Bool.and_eq_true] at hc
    intro cc hcc
    have hok := List.all_eq_true.mp hc.2 cc hcc
    obtain ⟨k, hk, rfl⟩ := List.mem_map.mp hcc
    have hk' : k < hi + 1 - lo := by simpa using hk
    refine ⟨by omega, by omega, ?_⟩
    unfold codeOk at hok
    cases hp : cmdProp (k + lo) with
    | none => simp [hp] at hok
    | some p =>
      simp only [hp, Bool.and_eq_true, decide_eq_true_eq] at hok
      exact ⟨p, rfl, hok.1, hok.2⟩
  · simp [hc] at h

/-- and every code of the range is there: a range enables all of its codes or is refused as a whole -/
theorem expandRange_complete (lo hi m : Nat) (l : List Nat) (h : expandRange lo hi m = some l) (cc : Nat)
    (h1 : lo ≤ cc) (h2 : cc ≤ hi) : cc ∈ l := by
  unfold expandRange at h
  by_cases hc : (inTable lo && inTable hi && (rangeCodes lo hi).all (codeOk m)) = true
  · simp only [hc, if_true, Option.some.injEq] at h
    subst h
    exact List.mem_map.mpr ⟨cc - lo, by simp; omega, by omega⟩
  · simp [hc] at h

/-- **every command an accepted profile enables is named by one of its ranges, is implemented and fits the StateFormatLevel** -/
theorem expandAll_sound (m : Nat) : ∀ (toks : List (List Char)) (en : List Nat), expandAll m toks = some en →
    ∀ cc ∈ en, ∃ tok ∈ toks, ∃ lo hi, parseRange tok = some (lo, hi) ∧ lo ≤ cc ∧ cc ≤ hi ∧
      ∃ p, cmdProp cc = some p ∧ p.impl = true ∧ p.sfl ≤ m := by
  intro toks
  induction toks with
  | nil => intro en h cc hcc; simp [expandAll] at h; subst h; simp at hcc
  | cons t ts ih =>
    intro en h cc hcc
    unfold expandAll at h
    cases ht : expandTok m t with
    | none => simp [ht] at h
    | some a =>
      cases hts : expandAll m ts with
      | none => simp [ht, hts] at h
      | some b =>
        simp only [ht, hts, Option.some.injEq] at h
        subst h
        rcases List.mem_append.mp hcc with ha | hb
        · unfold expandTok at ht
          cases hp : parseRange t with
          | none => simp [hp] at ht
          | some r =>
            obtain ⟨lo, hi⟩ := r
            simp only [hp] at ht
            obtain ⟨h1, h2, h3⟩ := expandRange_sound lo hi m a ht cc ha
            exact ⟨t, by simp, lo, hi, hp, h1, h2, h3⟩
        · obtain ⟨tok, htok, rest⟩ := ih b hts cc hb
          exact ⟨tok, by simp [htok], rest⟩

/-- **a command code inside a range of an accepted profile is enabled** -/
theorem expandAll_complete (m : Nat) : ∀ (toks : List (List Char)) (en : List Nat), expandAll m toks = some en →
    ∀ tok ∈ toks, ∀ lo hi, parseRange tok = some (lo, hi) → ∀ cc, lo ≤ cc → cc ≤ hi → cc ∈ en := by
  intro toks
  induction toks with
  | nil => intro en _ tok htok; simp at htok
  | cons t ts ih =>
    intro en h tok htok lo hi hp cc h1 h2
    unfold expandAll at h
    cases ht : expandTok m t with
    | none => simp [ht] at h
    | some a =>
      cases hts : expandAll m ts with
      | none => simp [ht, hts] at h
      | some b =>
        simp only [ht, hts, Option.some.injEq] at h
        subst h
        rcases List.mem_cons.mp htok with e | e
        · subst e
          unfold expandTok at ht
          simp only [hp] at ht
          exact List.mem_append.mpr (Or.inl (expandRange_complete lo hi m a ht cc h1 h2))
        · exact List.mem_append.mpr (Or.inr (ih b hts tok e lo hi hp cc h1 h2))

/-- the whole verdict: accepted ⇒ (sound, complete, required commands present) -/
theorem setCommands_sound (profile : List Char) (m : Nat) (en : List Nat) (s : Nat) (h : setCommands profile m = some (en, s)) :
    (∀ cc ∈ en, ∃ p, cmdProp cc = some p ∧ p.impl = true ∧ p.sfl ≤ m) ∧ requiredPresent en = true ∧ s = levelOf en := by
  unfold setCommands at h
  cases he : expandAll m (splitOn ',' profile) with
  | none => simp [he] at h
  | some e =>
    simp only [he] at h
    split at h
    · rename_i hr
      simp only [Option.some.injEq, Prod.mk.injEq] at h
      obtain ⟨e1, e2⟩ := h
      subst e1
      refine ⟨?_, hr, e2.symm⟩
      intro cc hcc
      obtain ⟨_, _, _, _, _, _, _, hp⟩ := expandAll_sound m _ e he cc hcc
      exact hp
    · simp at h

/-- **a command that cannot be disabled is enabled in every accepted profile** -/
theorem required_present (en : List Nat) (h : requiredPresent en = true) (cc : Nat) (impl canDis : Bool) (sfl : Nat)
    (hm : (cc, impl, canDis, sfl) ∈ cmdProps) (hi : impl = true) (hd : canDis = false) : cc ∈ en := by
  unfold requiredPresent at h
  have := List.all_eq_true.mp h (cc, impl, canDis, sfl) hm
  simp [hi, hd] at this
  exact this

/-- the StateFormatLevel an accepted command list needs never exceeds the maximum it was checked against -/
theorem foldl_max_le (l : List Nat) (m a : Nat) (ha : a ≤ m) (h : ∀ x ∈ l, x ≤ m) : l.foldl max a ≤ m := by
  induction l generalizing a with
  | nil => exact ha
  | cons x xs ih =>
    simp only [List.foldl]
    apply ih
    · exact Nat.max_le.mpr ⟨ha, h x (by simp)⟩
    · intro y hy; exact h y (by simp [hy])

theorem level_bounded (profile : List Char) (m : Nat) (en : List Nat) (s : Nat) (h : setCommands profile m = some (en, s)) : s ≤ m := by
  obtain ⟨h1, _, h3⟩ := setCommands_sound profile m en s h
  subst h3
  unfold levelOf
  apply foldl_max_le _ m 0 (Nat.zero_le _)
  intro x hx
  obtain ⟨cc, hcc, rfl⟩ := List.mem_map.mp hx
  obtain ⟨p, hp, _, hs⟩ := h1 cc hcc
  simp [hp, hs]

/-! ### The built-in command lists: parse, enable, print — decided on the generated table -/

def nullCommands : String := "0x11f-0x122,0x124-0x12e,0x130-0x140,0x142-0x159,0x15b-0x15e,0x160-0x165,0x167-0x174,0x176-0x178,0x17a-0x193,0x197"

set_option maxRecDepth 100000 in
/-- the 'null' profile's command list is accepted at StateFormatLevel 1, and printing what it enables gives the list back -/
theorem null_profile_roundtrip :
    (setCommands nullCommands.toList 1).map (fun r => String.ofList (printCommands r.1)) = some nullCommands := by decide +kernel

set_option maxRecDepth 100000 in
/-- a list that leaves out a command that cannot be disabled (0x120 EvictControl) is refused -/
theorem missing_required_refused :
    setCommands "0x11f,0x121-0x122,0x124-0x12e,0x130-0x140,0x142-0x159,0x15b-0x15e,0x160-0x165,0x167-0x174,0x176-0x178,0x17a-0x193,0x197".toList 7 = none := by decide +kernel

set_option maxRecDepth 100000 in
/-- a command that needs a newer StateFormatLevel (0x199 needs 3) is refused under level 2 -/
theorem level_refused :
    setCommands (nullCommands ++ ",0x199").toList 2 = none ∧ (setCommands (nullCommands ++ ",0x199").toList 3).isSome = true := by decide +kernel

/-! ### Numbers -/

example : parseRange "0x11f-0x122".toList = some (287, 290) := by decide
example : parseRange "287".toList = some (287, 287) := by decide
example : parseRange "0437".toList = some (287, 287) := by decide      -- octal, as strtoul(…, 0) reads it
example : parseRange "0x17a-".toList = none := by decide
example : parseRange "abc".toList = none := by decide

/-! ### Algorithms: minimum sizes -/

/-- **a key size below the configured minimum is refused** -/
theorem rsa_below_min (a : Algs) (bits sfl : Nat) (h : bits < minSizeOf a 1) : rsaOk a bits sfl = false := by
  unfold rsaOk
  have : decide (bits ≥ minSizeOf a 1) = false := by simp; omega
  simp [this]

/-- a curve that is not listed (by name or shortcut) is not usable, whatever the minimum -/
theorem curve_not_listed (a : Algs) (curve : Nat) (h : a.curves.contains curve = false) : curveOk a curve = false := by
  unfold curveOk; rw [h]; rfl

/-- an RSA size is usable only if `rsa` itself is enabled -/
theorem rsa_needs_alg (a : Algs) (bits sfl : Nat) (h : a.enabled.contains 1 = false) : rsaOk a bits sfl = false := by
  unfold rsaOk; rw [h]; rfl

/-! ### StateFormatLevel of custom profiles -/

theorem custom_level (l : Nat) : customLevelOk (some l) = true ↔ 2 ≤ l ∧ l ≤ STATE_FORMAT_LEVEL_CURRENT := by
  simp [customLevelOk]

end TpmVerif.Props.C14
