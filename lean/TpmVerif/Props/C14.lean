import TpmVerif.Model.Profile
/-!
  C14 — the profile fixes and enforces the command/algorithm surface. Theorems about `Model.Profile`; the tables they
  quantify over are regenerated from the source on every run.
-/
namespace TpmVerif.Props.C14
open TpmVerif TpmVerif.Model.Profile TpmVerif.Gen.Profile

/-! ### Commands -/

/-- the codes of an accepted range: each is in the table, implemented, allowed at the StateFormatLevel, and inside the range -/
theorem expandRange_sound (lo hi m : Nat) (l : List Nat) (h : expandRange lo hi m = some l) :
    ∀ cc ∈ l, lo ≤ cc ∧ cc ≤ hi ∧ ∃ p, cmdProp cc = some p ∧ p.impl = true ∧ p.sfl ≤ m := by
  unfold expandRange at h
  by_cases hc : (inTable lo && inTable hi && (rangeCodes lo hi).all (codeOk m)) = true
  · simp only [hc, if_true, Option.some.injEq] at h
    subst h
    simp only [Bool.and_eq_true] at hc
    intro cc hcc
    have hok := List.all_eq_true.mp hc.2 cc hcc
    obtain ⟨k, hk, rfl⟩ := List.mem_map.mp hcc
    have hk' : k < hi + 1 - lo := by simpa using hk
    refine ⟨by omega, by omega, ?_⟩
    unfold codeOk at hok
    cases hp : cmdProp (k + lo) with
    | none => simp [hp] at hok
    | some p =>
      simp only [hp, Bool.and_eq_true, decide_eq_true_eq] at hok
      exact ⟨p, rfl, hok.1, hok.2⟩
  · simp [hc] at h

/-- and every code of the range is there: a range enables all of its codes or is refused as a whole -/
theorem expandRange_complete (lo hi m : Nat) (l : List Nat) (h : expandRange lo hi m = some l) (cc : Nat)
    (h1 : lo ≤ cc) (h2 : cc ≤ hi) : cc ∈ l := by
  unfold expandRange at h
  by_cases hc : (inTable lo && inTable hi && (rangeCodes lo hi).all (codeOk m)) = true
  · simp only [hc, if_true, Option.some.injEq] at h
    subst h
    exact List.mem_map.mpr ⟨cc - lo, by simp; omega, by omega⟩
  · simp [hc] at h

/-- **every command an accepted profile enables is named by one of its ranges, is implemented and fits the StateFormatLevel** -/
theorem expandAll_sound (m : Nat) : ∀ (toks : List (List Char)) (en : List Nat), expandAll m toks = some en →
    ∀ cc ∈ en, ∃ tok ∈ toks, ∃ lo hi, parseRange tok = some (lo, hi) ∧ lo ≤ cc ∧ cc ≤ hi ∧
      ∃ p, cmdProp cc = some p ∧ p.impl = true ∧ p.sfl ≤ m := by
  intro toks
  induction toks with
  | nil => intro en h cc hcc; simp [expandAll] at h; subst h; simp at hcc
  | cons t ts ih =>
    intro en h cc hcc
    unfold expandAll at h
    cases ht : expandTok m t with
    | none => simp [ht] at h
    | some a =>
      cases hts : expandAll m ts with
      | none => simp [ht, hts] at h
      | some b =>
        simp only [ht, hts, Option.some.injEq] at h
        subst h
        rcases List.mem_append.mp hcc with ha | hb
        · unfold expandTok at ht
          cases hp : parseRange t with
          | none => simp [hp] at ht
          | some r =>
            obtain ⟨lo, hi⟩ := r
            simp only [hp] at ht
            obtain ⟨h1, h2, h3⟩ := expandRange_sound lo hi m a ht cc ha
            exact ⟨t, by simp, lo, hi, hp, h1, h2, h3⟩
        · obtain ⟨tok, htok, rest⟩ := ih b hts cc hb
          exact ⟨tok, by simp [htok], rest⟩

/-- **a command code inside a range of an accepted profile is enabled** -/
theorem expandAll_complete (m : Nat) : ∀ (toks : List (List Char)) (en : List Nat), expandAll m toks = some en →
    ∀ tok ∈ toks, ∀ lo hi, parseRange tok = some (lo, hi) → ∀ cc, lo ≤ cc → cc ≤ hi → cc ∈ en := by
  intro toks
  induction toks with
  | nil => intro en _ tok htok; simp at htok
  | cons t ts ih =>
    intro en h tok htok lo hi hp cc h1 h2
    unfold expandAll at h
    cases ht : expandTok m t with
    | none => simp [ht] at h
    | some a =>
      cases hts : expandAll m ts with
      | none => simp [ht, hts] at h
      | some b =>
        simp only [ht, hts, Option.some.injEq] at h
        subst h
        rcases List.mem_cons.mp htok with e | e
        · subst e
          unfold expandTok at ht
          simp only [hp] at ht
          exact List.mem_append.mpr (Or.inl (expandRange_complete lo hi m a ht cc h1 h2))
        · exact List.mem_append.mpr (Or.inr (ih b hts tok e lo hi hp cc h1 h2))

/-- the whole verdict: accepted ⇒ (sound, complete, required commands present) -/
theorem setCommands_sound (profile : List Char) (m : Nat) (en : List Nat) (s : Nat) (h : setCommands profile m = some (en, s)) :
    (∀ cc ∈ en, ∃ p, cmdProp cc = some p ∧ p.impl = true ∧ p.sfl ≤ m) ∧ requiredPresent en = true ∧ s = levelOf en := by
  unfold setCommands at h
  cases he : expandAll m (splitOn ',' profile) with
  | none => simp [he] at h
  | some e =>
    simp only [he] at h
    split at h
    · rename_i hr
      simp only [Option.some.injEq, Prod.mk.injEq] at h
      obtain ⟨e1, e2⟩ := h
      subst e1
      refine ⟨?_, hr, e2.symm⟩
      intro cc hcc
      obtain ⟨_, _, _, _, _, _, _, hp⟩ := expandAll_sound m _ e he cc hcc
      exact hp
    · simp at h

/-- **a command that cannot be disabled is enabled in every accepted profile** -/
theorem required_present (en : List Nat) (h : requiredPresent en = true) (cc : Nat) (impl canDis : Bool) (sfl : Nat)
    (hm : (cc, impl, canDis, sfl) ∈ cmdProps) (hi : impl = true) (hd : canDis = false) : cc ∈ en := by
  unfold requiredPresent at h
  have := List.all_eq_true.mp h (cc, impl, canDis, sfl) hm
  simp [hi, hd] at this
  exact this

/-- the StateFormatLevel an accepted command list needs never exceeds the maximum it was checked against -/
theorem foldl_max_le (l : List Nat) (m a : Nat) (ha : a ≤ m) (h : ∀ x ∈ l, x ≤ m) : l.foldl max a ≤ m := by
  induction l generalizing a with
  | nil => exact ha
  | cons x xs ih =>
    simp only [List.foldl]
    apply ih
    · exact Nat.max_le.mpr ⟨ha, h x (by simp)⟩
    · intro y hy; exact h y (by simp [hy])

theorem level_bounded (profile : List Char) (m : Nat) (en : List Nat) (s : Nat) (h : setCommands profile m = some (en, s)) : s ≤ m := by
  obtain ⟨h1, _, h3⟩ := setCommands_sound profile m en s h
  subst h3
  unfold levelOf
  apply foldl_max_le _ m 0 (Nat.zero_le _)
  intro x hx
  obtain ⟨cc, hcc, rfl⟩ := List.mem_map.mp hx
  obtain ⟨p, hp, _, hs⟩ := h1 cc hcc
  simp [hp, hs]

/-! ### The built-in command lists: parse, enable, print — decided on the generated table -/

def nullCommands : String := "0x11f-0x122,0x124-0x12e,0x130-0x140,0x142-0x159,0x15b-0x15e,0x160-0x165,0x167-0x174,0x176-0x178,0x17a-0x193,0x197"

set_option maxRecDepth 100000 in
/-- the 'null' profile's command list is accepted at StateFormatLevel 1, and printing what it enables gives the list back -/
theorem null_profile_roundtrip :
    (setCommands nullCommands.toList 1).map (fun r => String.ofList (printCommands r.1)) = some nullCommands := by decide +kernel

set_option maxRecDepth 100000 in
/-- a list that leaves out a command that cannot be disabled (0x120 EvictControl) is refused -/
theorem missing_required_refused :
    setCommands "0x11f,0x121-0x122,0x124-0x12e,0x130-0x140,0x142-0x159,0x15b-0x15e,0x160-0x165,0x167-0x174,0x176-0x178,0x17a-0x193,0x197".toList 7 = none := by decide +kernel

set_option maxRecDepth 100000 in
/-- a command that needs a newer StateFormatLevel (0x199 needs 3) is refused under level 2 -/
theorem level_refused :
    setCommands (nullCommands ++ ",0x199").toList 2 = none ∧ (setCommands (nullCommands ++ ",0x199").toList 3).isSome = true := by decide +kernel

/-! ### Numbers -/

example : parseRange "0x11f-0x122".toList = some (287, 290) := by decide
example : parseRange "287".toList = some (287, 287) := by decide
example : parseRange "0437".toList = some (287, 287) := by decide      -- octal, as strtoul(…, 0) reads it
example : parseRange "0x17a-".toList = none := by decide
example : parseRange "abc".toList = none := by decide

/-! ### Algorithms: minimum sizes -/

/-- **a key size below the configured minimum is refused** -/
theorem rsa_below_min (a : Algs) (bits sfl : Nat) (h : bits < minSizeOf a 1) : rsaOk a bits sfl = false := by
  unfold rsaOk
  have : decide (bits ≥ minSizeOf a 1) = false := by simp; omega
  simp [this]

/-- a curve that is not listed (by name or shortcut) is not usable, whatever the minimum -/
theorem curve_not_listed (a : Algs) (curve : Nat) (h : a.curves.contains curve = false) : curveOk a curve = false := by
  unfold curveOk; rw [h]; rfl

/-- an RSA size is usable only if `rsa` itself is enabled -/
theorem rsa_needs_alg (a : Algs) (bits sfl : Nat) (h : a.enabled.contains 1 = false) : rsaOk a bits sfl = false := by
  unfold rsaOk; rw [h]; rfl

/-! ### StateFormatLevel of custom profiles -/

theorem custom_level (l : Nat) : customLevelOk (some l) = true ↔ 2 ≤ l ∧ l ≤ STATE_FORMAT_LEVEL_CURRENT := by
  simp [customLevelOk]

/-! ### Attributes -/

/-- an unknown attribute name is refused -/
theorem attr_unknown_refused (acc : Nat × Nat) (tok : String) (m : Nat) (h : attrProps.find? (·.1 == tok) = none) :
    attrToken acc tok m = none := by simp [attrToken, h]

/-- an attribute is refused below the StateFormatLevel it needs -/
theorem attr_level_refused (acc : Nat × Nat) (tok : String) (m : Nat) (e : String × Nat × Nat)
    (h : attrProps.find? (·.1 == tok) = some e) (hl : m < e.2.2) : attrToken acc tok m = none := by
  obtain ⟨n, f, sfl⟩ := e
  simp only [attrToken, h]
  have : ¬ sfl ≤ m := by simpa using hl
  simp [this]

/-- once one item is refused the whole list is -/
theorem attr_fold_none (m : Nat) : ∀ (toks : List String),
    toks.foldl (fun (acc : Option (Nat × Nat)) tok => acc.bind (fun a => attrToken a tok m)) none = none := by
  intro toks; induction toks with
  | nil => rfl
  | cons t ts ih => simpa [List.foldl] using ih

/-- **a list with an item that is unknown (or needs a higher StateFormatLevel) is refused as a whole**, wherever the item stands -/
theorem attr_list_refused (m : Nat) (pre post : List String) (bad : String)
    (hbad : ∀ acc, attrToken acc bad m = none) (start : Option (Nat × Nat)) :
    (pre ++ bad :: post).foldl (fun (acc : Option (Nat × Nat)) tok => acc.bind (fun a => attrToken a tok m)) start = none := by
  rw [List.foldl_append]
  simp only [List.foldl]
  have : (Option.bind (List.foldl (fun (acc : Option (Nat × Nat)) tok => acc.bind (fun a => attrToken a tok m)) start pre) fun a => attrToken a bad m) = none := by
    cases List.foldl (fun (acc : Option (Nat × Nat)) tok => acc.bind (fun a => attrToken a tok m)) start pre with
    | none => rfl
    | some a => simp [hbad a]
  rw [this]
  exact attr_fold_none m post

theorem attr_listL_refused (m : Nat) (pre post : List String) (bad : String) (hbad : ∀ acc, attrToken acc bad m = none) :
    setAttributesL (pre ++ bad :: post) m = none := attr_list_refused m pre post bad hbad (some (0, 0))

/-- an accepted item only adds flags and never lowers the level -/
theorem attr_token_mono (acc r : Nat × Nat) (tok : String) (m : Nat) (h : attrToken acc tok m = some r) :
    (∀ f, hasFlag acc.1 f = true → hasFlag r.1 f = true) ∧ acc.2 ≤ r.2 := by
  unfold attrToken at h
  cases hf : attrProps.find? (·.1 == tok) with
  | none => simp [hf] at h
  | some e =>
    obtain ⟨n, fl, sfl⟩ := e
    simp only [hf] at h
    by_cases hl : sfl ≤ m
    · simp only [hl, if_true, Option.some.injEq] at h
      subst h
      refine ⟨fun f hacc => ?_, Nat.le_max_left _ _⟩
      simp only [hasFlag, ne_eq, decide_eq_true_eq] at hacc ⊢
      intro hz
      apply hacc
      apply Nat.eq_of_testBit_eq
      intro i
      have := congrArg (fun x => x.testBit i) hz
      simp only [Nat.testBit_and, Nat.testBit_or, Nat.zero_testBit] at this ⊢
      cases h1 : acc.1.testBit i <;> cases h2 : f.testBit i <;> simp_all
    · simp [hl] at h

/-- every attribute of this library needs StateFormatLevel 7 (the table is regenerated from the source) -/
theorem attr_levels : attrProps.all (fun e => e.2.2 == 7) = true := by decide

/-- `fips-host` switches on exactly: no unpadded encryption, no SHA-1 signing, no SHA-1 verification -/
theorem fips_host_flags : setAttributesL ["fips-host"] 7 = some (ATTR_NO_UNPADDED_ENCRYPTION ||| ATTR_NO_SHA1_SIGNING ||| ATTR_NO_SHA1_VERIFICATION, 7) := by decide
theorem no_sha1_hmac_flags : setAttributesL ["no-sha1-hmac"] 7 = some (ATTR_NO_SHA1_HMAC_CREATION ||| ATTR_NO_SHA1_HMAC_VERIFICATION, 7) := by decide

/-- **enforcement**: with the flag set the probe is refused (with the code the C source returns), without it the probe is not -/
theorem attr_enforced (flags : Nat) :
    (hasFlag flags ATTR_NO_UNPADDED_ENCRYPTION = true → attrProbe flags 1 = 0x92) ∧
    (hasFlag flags ATTR_NO_SHA1_SIGNING = true → attrProbe flags 2 = 0x83) ∧
    (hasFlag flags ATTR_NO_SHA1_VERIFICATION = true → attrProbe flags 3 = 0x83) ∧
    (hasFlag flags ATTR_NO_SHA1_HMAC_CREATION = true → attrProbe flags 4 = 0x83) ∧
    (hasFlag flags ATTR_NO_SHA1_HMAC_VERIFICATION = true → attrProbe flags 5 = 0x83) ∧
    (hasFlag flags ATTR_NO_ECC_KEY_DERIVATION = true → attrProbe flags 6 = 0x8A) := by
  refine ⟨?_, ?_, ?_, ?_, ?_, ?_⟩ <;> intro h <;> simp [attrProbe, h]

theorem attr_not_overreaching (flags : Nat) :
    (hasFlag flags ATTR_NO_UNPADDED_ENCRYPTION = false → attrProbe flags 1 = 0) ∧
    (hasFlag flags ATTR_NO_SHA1_SIGNING = false → attrProbe flags 2 = 0) ∧
    (hasFlag flags ATTR_NO_SHA1_HMAC_CREATION = false → attrProbe flags 4 = 0) ∧
    (hasFlag flags ATTR_NO_ECC_KEY_DERIVATION = false → attrProbe flags 6 = 0) := by
  refine ⟨?_, ?_, ?_, ?_⟩ <;> intro h <;> simp [attrProbe, h]

example : setAttributesL ["pct", "no-such-attribute"] 7 = none := by decide
example : setAttributesL ["no-sha1-signing"] 6 = none := by decide
example : setAttributesL ["no-sha1-signing", "", "pct"] 7 = none := by decide
example : setAttributes "" 2 = some (0, 0) := by simp [setAttributes]


/-! ### The StateFormatLevel the Algorithms list needs -/

theorem minSizeLevel_le (id v m : Nat) : minSizeLevel id v m ≤ m := by
  unfold minSizeLevel
  apply foldl_max_le _ _ _ (Nat.zero_le _)
  intro x hx
  simp only [List.mem_map, List.mem_filter] at hx
  obtain ⟨⟨b, s⟩, ⟨_, hc⟩, rfl⟩ := hx
  simp only [Bool.and_eq_true, decide_eq_true_eq] at hc
  exact hc.2

theorem addCurves_level_le (a : Algs) (ids : List Nat) (m : Nat) (ha : a.level ≤ m) : (addCurves a ids m).level ≤ m := by
  unfold addCurves
  simp only
  apply foldl_max_le _ _ _ ha
  intro x hx
  simp only [List.mem_map, List.mem_filter] at hx
  obtain ⟨id, ⟨_, hc⟩, rfl⟩ := hx
  simpa using hc

/-- **no item of the Algorithms list raises the StateFormatLevel past the allowed maximum**: an accepted token leaves the
    required level within `maxSfl` (what `RuntimeProfileSet` asserts after the lists are parsed; fix 490e24a) -/
theorem algToken_level_le (a a' : Algs) (tok : String) (m : Nat) (h : algToken a tok m = some a') (ha : a.level ≤ m) :
    a'.level ≤ m := by
  unfold algToken at h
  split at h
  · split at h
    · simp only [Option.some.injEq] at h; subst h
      exact Nat.max_le.mpr ⟨ha, by assumption⟩
    · simp at h
  · split at h
    · split at h
      · split at h
        · simp only [Option.some.injEq] at h; subst h
          exact Nat.max_le.mpr ⟨ha, minSizeLevel_le _ _ _⟩
        · simp at h
      · simp at h
    · split at h
      · split at h
        · rename_i hc
          simp only [Option.some.injEq] at h; subst h
          exact Nat.max_le.mpr ⟨ha, hc.2⟩
        · simp at h
      · split at h
        · simp only [Option.some.injEq] at h; subst h; exact addCurves_level_le _ _ _ ha
        · split at h
          · simp only [Option.some.injEq] at h; subst h; exact addCurves_level_le _ _ _ ha
          · split at h
            · split at h
              · simp only [Option.some.injEq] at h; subst h; exact addCurves_level_le _ _ _ ha
              · simp at h
            · simp at h

theorem foldl_algToken_level_le (toks : List String) (m : Nat) : ∀ (acc : Option Algs) (r : Algs),
    (∀ a, acc = some a → a.level ≤ m) →
    toks.foldl (fun (acc : Option Algs) tok => acc.bind (fun a => algToken a tok m)) acc = some r → r.level ≤ m := by
  induction toks with
  | nil => intro acc r hacc h; simp only [List.foldl_nil] at h; exact hacc r h
  | cons t ts ih =>
    intro acc r hacc h
    simp only [List.foldl_cons] at h
    apply ih _ r _ h
    intro a' ha'
    cases acc with
    | none => simp at ha'
    | some a => simp only [Option.bind] at ha'; exact algToken_level_le a a' t m ha' (hacc a rfl)

/-- the whole Algorithms list: an accepted list needs at most the allowed StateFormatLevel -/
theorem setAlgorithms_level_le (profile : String) (m : Nat) (a : Algs) (h : setAlgorithms profile m = some a) : a.level ≤ m := by
  unfold setAlgorithms at h
  split at h
  · simp at h
  · rename_i a0 hf
    split at h
    · simp only [Option.some.injEq] at h; subst h
      exact foldl_algToken_level_le _ m (some {}) _ (by intro a ha; simp only [Option.some.injEq] at ha; subst ha; exact Nat.zero_le _) hf
    · simp at h

/-- aes-min-size=128 reaches AES-192 and with it level 4 (when the allowed maximum admits it); a minimum of 256 leaves level 1;
    hmac-min-key-size needs level 7 (the input of fix 490e24a named level 3) -/
example : minSizeLevel 6 128 7 = 4 ∧ minSizeLevel 6 256 7 = 1 ∧ minSizeLevel 6 128 3 = 1 ∧ minSizeLevel 38 128 7 = 4 ∧ hmacMinKeySfl = 7 := by decide

end TpmVerif.Props.C14
