import TpmVerif.Model.Persist
import TpmVerif.Props.C03
/-!
  C07 — storage failures never turn into false success (commit protocol level).
-/
namespace TpmVerif.Props.C07
open TpmVerif.Model.Persist

variable {ι κ : Type}

/-- **no false success at command end**: if a commit was due and storage refused it the TPM is in failure mode
    (the command is answered TPM_RC_FAILURE, see C17), storage keeps its previous content -/
theorem store_fail_is_failure_mode (s : St ι) (ws : List (Write ι)) (hf : s.failure = false) (hw : hasNvWrite ws = true) :
    (command s ws false).failure = true ∧ (command s ws false).disk = s.disk ∧ (command s ws false).stores = s.stores := by
  obtain ⟨h1, h2⟩ := Props.C03.store_refused_is_failure s ws hf hw
  refine ⟨h1, h2, ?_⟩
  obtain ⟨b1, _, _, b4⟩ := Props.C03.body_spec s ws
  unfold command
  simp only [hf, Bool.false_eq_true, if_false]
  generalize body s ws = s1 at *
  rw [hw] at b1; simp [b1, b4]

/-- **failure mode stays until re-initialised**: later commands neither change the image nor write storage -/
theorem failure_blocks (s : St ι) (ws : List (Write ι)) (ok : Bool) (h : s.failure = true) : command s ws ok = s := by
  unfold command; simp [h]

/-- **storage only ever holds images the TPM had at a command boundary**: a command either leaves storage alone or
    replaces it by exactly its final image -/
theorem disk_is_boundary_image (s : St ι) (ws : List (Write ι)) (ok : Bool) :
    (command s ws ok).disk = s.disk ∨ (command s ws ok).disk = some (command s ws ok).nv := by
  obtain ⟨_, b2, _, _⟩ := Props.C03.body_spec s ws
  unfold command
  by_cases hf : s.failure
  · simp [hf]
  · simp only [hf, Bool.false_eq_true, if_false]
    generalize body s ws = s1 at *
    by_cases hu : s1.updateNV
    · cases ok <;> simp [hu, b2]
    · simp [hu, b2]

/-- a TPM restarted after a refused commit comes up from the last accepted image -/
theorem restart_after_fault (s : St ι) (ws : List (Write ι)) (hf : s.failure = false) (hw : hasNvWrite ws = true) :
    restart (command s ws false) = restart s := by
  have h := (store_fail_is_failure_mode s ws hf hw).2.1
  unfold restart; rw [h]

/-- a whole history after the failure: nothing moves, whatever the commands and whatever storage would answer -/
theorem failure_sticky_history (s : St ι) (hist : List (List (Write ι) × Bool)) (h : s.failure = true) :
    hist.foldl (fun s (c : List (Write ι) × Bool) => command s c.1 c.2) s = s := by
  induction hist with
  | nil => rfl
  | cons c rest ih => simp only [List.foldl]; rw [failure_blocks s c.1 c.2 h]; exact ih

/-- **the first refused commit decides the rest of the power cycle**: after a prefix of commands, a command with a
    persistent write whose commit is refused leaves storage exactly as the prefix left it, and no later command —
    whatever it writes, whatever storage answers — changes storage again before a re-initialisation -/
theorem first_refusal_freezes_storage (s : St ι) (ws : List (Write ι)) (later : List (List (Write ι) × Bool))
    (hf : s.failure = false) (hw : hasNvWrite ws = true) :
    (later.foldl (fun s (c : List (Write ι) × Bool) => command s c.1 c.2) (command s ws false)).disk = s.disk ∧
    (later.foldl (fun s (c : List (Write ι) × Bool) => command s c.1 c.2) (command s ws false)).failure = true := by
  obtain ⟨h1, h2, _⟩ := store_fail_is_failure_mode s ws hf hw
  rw [failure_sticky_history _ later h1]
  exact ⟨h2, h1⟩

/-- and the restart that follows comes up from what storage held before the refused commit -/
theorem restart_after_frozen_history (s : St ι) (ws : List (Write ι)) (later : List (List (Write ι) × Bool))
    (hf : s.failure = false) (hw : hasNvWrite ws = true) :
    restart (later.foldl (fun s (c : List (Write ι) × Bool) => command s c.1 c.2) (command s ws false)) = restart s := by
  have h := (first_refusal_freezes_storage s ws later hf hw).1
  unfold restart; rw [h]

end TpmVerif.Props.C07
