import TpmVerif.Model.Persist
import TpmVerif.Props.C03
/-!
  C07 — storage failures never turn into false success (commit protocol level).
-/
namespace TpmVerif.Props.C07
open TpmVerif.Model.Persist

variable {ι κ : Type}

/-- **no false success at command end**: if a commit was due and storage refused it the TPM is in failure mode
    (the command is answered TPM_RC_FAILURE, see C17), storage keeps its previous content -/
theorem store_fail_is_failure_mode (s : St ι) (ws : List (Write ι)) (hf : s.failure = false) (hw : hasNvWrite ws = true) :
    (command s ws false).failure = true ∧ (command s ws false).disk = s.disk ∧ (command s ws false).stores = s.stores := by
  obtain ⟨h1, h2⟩ := Props.C03.store_refused_is_failure s ws hf hw
  refine ⟨h1, h2, ?_⟩
  obtain ⟨b1, _, _, b4⟩ := Props.C03.body_spec s ws
  unfold command
  simp only [hf, Bool.false_eq_true, if_false]
  generalize body s ws = s1 at *
  rw [hw] at b1; simp [b1, b4]

/-- **failure mode stays until re-initialised**: later commands neither change the image nor write storage -/
theorem failure_blocks (s : St ι) (ws : List (Write ι)) (ok : Bool) (h : s.failure = true) : command s ws ok = s := by
  unfold command; simp [h]

/-- **storage only ever holds images the TPM had at a command boundary**: a command either leaves storage alone or
    replaces it by exactly its final image -/
theorem disk_is_boundary_image (s : St ι) (ws : List (Write ι)) (ok : Bool) :
    (command s ws ok).disk = s.disk ∨ (command s ws ok).disk = some (command s ws ok).nv := by
  obtain ⟨_, b2, _, _⟩ := Props.C03.body_spec s ws
  unfold command
  by_cases hf : s.failure
  · simp [hf]
  · simp only [hf, Bool.false_eq_true, if_false]
    generalize body s ws = s1 at *
    by_cases hu : s1.updateNV
    · cases ok <;> simp [hu, b2]
    · simp [hu, b2]

/-- a TPM restarted after a refused commit comes up from the last accepted image -/
theorem restart_after_fault (s : St ι) (ws : List (Write ι)) (hf : s.failure = false) (hw : hasNvWrite ws = true) :
    restart (command s ws false) = restart s := by
  have h := (store_fail_is_failure_mode s ws hf hw).2.1
  unfold restart; rw [h]

/-- a whole history after the failure: nothing moves, whatever the commands and whatever storage would answer -/
theorem failure_sticky_history (s : St ι) (hist : List (List (Write ι) × Bool)) (h : s.failure = true) :
    hist.foldl (fun s (c : List (Write ι) × Bool) => command s c.1 c.2) s = s := by
  induction hist with
  | nil => rfl
  | cons c rest ih => simp only [List.foldl]; rw [failure_blocks s c.1 c.2 h]; exact ih

/-- **the first refused commit decides the rest of the power cycle**: after a prefix of commands, a command with a
    persistent write whose commit is refused leaves storage exactly as the prefix left it, and no later command —
    whatever it writes, whatever storage answers — changes storage again before a re-initialisation -/
theorem first_refusal_freezes_storage (s : St ι) (ws : List (Write ι)) (later : List (List (Write ι) × Bool))
    (hf : s.failure = false) (hw : hasNvWrite ws = true) :
    (later.foldl (fun s (c : List (Write ι) × Bool) => command s c.1 c.2) (command s ws false)).disk = s.disk ∧
    (later.foldl (fun s (c : List (Write ι) × Bool) => command s c.1 c.2) (command s ws false)).failure = true := by
  obtain ⟨h1, h2, _⟩ := store_fail_is_failure_mode s ws hf hw
  rw [failure_sticky_history _ later h1]
  exact ⟨h2, h1⟩

/-- and the restart that follows comes up from what storage held before the refused commit -/
theorem restart_after_frozen_history (s : St ι) (ws : List (Write ι)) (later : List (List (Write ι) × Bool))
    (hf : s.failure = false) (hw : hasNvWrite ws = true) :
    restart (later.foldl (fun s (c : List (Write ι) × Bool) => command s c.1 c.2) (command s ws false)) = restart s := by
  have h := (first_refusal_freezes_storage s ws later hf hw).1
  unfold restart; rw [h]

/-! ### whole histories with arbitrary storage answers -/

/-- a history: each command with its writes and the storage callback's answer -/
abbrev runH (s : St ι) (hist : List (List (Write ι) × Bool)) : St ι :=
  hist.foldl (fun s (c : List (Write ι) × Bool) => command s c.1 c.2) s

/-- an accepted commit is the only thing that counts as a store, and it is the only way storage changes -/
theorem disk_changes_only_with_store (s : St ι) (ws : List (Write ι)) (ok : Bool)
    (h : (command s ws ok).stores = s.stores) : (command s ws ok).disk = s.disk := by
  obtain ⟨_, b2, _, b4⟩ := Props.C03.body_spec s ws
  unfold command at *
  by_cases hf : s.failure
  · simp [hf]
  · simp only [hf, Bool.false_eq_true, if_false] at *
    generalize body s ws = s1 at *
    by_cases hu : s1.updateNV
    · cases ok
      · simp [hu, b2]
      · simp [hu, b4] at h
    · simp [hu, b2]

/-- a store happens only for a command with a real persistent change, outside failure mode, with storage accepting -/
theorem store_needs_write_and_ok (s : St ι) (ws : List (Write ι)) (ok : Bool)
    (h : (command s ws ok).stores ≠ s.stores) : hasNvWrite ws = true ∧ ok = true ∧ s.failure = false := by
  obtain ⟨b1, _, _, b4⟩ := Props.C03.body_spec s ws
  unfold command at h
  by_cases hf : s.failure
  · simp [hf] at h
  · simp only [hf, Bool.false_eq_true, if_false] at h
    generalize body s ws = s1 at *
    by_cases hu : s1.updateNV
    · cases ok
      · simp [hu, b4] at h
      · exact ⟨by rw [← b1, hu], rfl, by simpa using hf⟩
    · simp [hu, b4] at h

/-- a command with a persistent change that storage accepts is durable at its end and the TPM is not in failure mode -/
theorem accepted_commit_is_durable (s : St ι) (ws : List (Write ι)) (hf : s.failure = false) (hw : hasNvWrite ws = true) :
    (command s ws true).disk = some (command s ws true).nv ∧ (command s ws true).failure = false := by
  obtain ⟨b1, _, b3, _⟩ := Props.C03.body_spec s ws
  unfold command
  simp only [hf, Bool.false_eq_true, if_false]
  generalize body s ws = s1 at *
  rw [hw] at b1
  simp [b1, b3, hf]

/-- once storage holds an image it always holds one: a later restart never finds storage empty -/
theorem disk_stays_some (hist : List (List (Write ι) × Bool)) (s : St ι) (h : s.disk.isSome = true) :
    (runH s hist).disk.isSome = true := by
  induction hist generalizing s with
  | nil => exact h
  | cons c rest ih =>
    refine ih (command s c.1 c.2) ?_
    rcases disk_is_boundary_image s c.1 c.2 with hd | hd
    · rw [hd]; exact h
    · rw [hd]; rfl

/-- **storage holds a consistent earlier state after ANY history and ANY pattern of storage refusals**: what storage
    holds is either what it held at the start or the TPM's image at the end of some prefix of the history (a command
    boundary) — never an image from the middle of a command, never a mixture -/
theorem disk_is_prefix_image (hist : List (List (Write ι) × Bool)) (s : St ι) :
    (runH s hist).disk = s.disk ∨ ∃ k, k ≤ hist.length ∧ (runH s hist).disk = some (runH s (hist.take k)).nv := by
  induction hist generalizing s with
  | nil => left; rfl
  | cons c rest ih =>
    rcases ih (command s c.1 c.2) with h | ⟨k, hk, h⟩
    · rcases disk_is_boundary_image s c.1 c.2 with hd | hd
      · left; simp only [runH, List.foldl] at h ⊢; rw [h, hd]
      · right; refine ⟨1, by simp, ?_⟩
        simp only [runH, List.foldl, List.take_succ_cons, List.take_zero] at h ⊢
        rw [h, hd]
    · right; refine ⟨k + 1, by simp; omega, ?_⟩
      simp only [runH, List.foldl, List.take_succ_cons] at h ⊢
      exact h

/-- the number of accepted stores never decreases -/
theorem stores_monotone (s : St ι) (ws : List (Write ι)) (ok : Bool) : s.stores ≤ (command s ws ok).stores := by
  obtain ⟨_, _, _, b4⟩ := Props.C03.body_spec s ws
  unfold command
  by_cases hf : s.failure
  · simp [hf]
  · simp only [hf, Bool.false_eq_true, if_false]
    generalize body s ws = s1 at *
    by_cases hu : s1.updateNV
    · cases ok <;> simp [hu, b4]
    · simp [hu, b4]

/-! non-vacuity -/
example : (runH ({ nv := 0, disk := some 0 } : St Nat) [([.nvWrite (· + 1)], true), ([.nvWrite (· + 5)], false), ([.nvWrite (· + 7)], true)]).disk = some 1 := by
  decide
example : (runH ({ nv := 0, disk := some 0 } : St Nat) [([.clockWrite (· + 1)], true)]).disk = some 0 := by decide

end TpmVerif.Props.C07
