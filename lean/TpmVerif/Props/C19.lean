import TpmVerif.Model.Tpm12Persist
/-!
  C19 — TPM 1.2 write-through, rollback and storage-fault clauses, as theorems about `Model.Tpm12.Persist`
  (for every abstract permanent state, every ordinal outcome, every storage behaviour).
-/
namespace TpmVerif.Props.C19
open TpmVerif TpmVerif.Gen.Tpm12 TpmVerif.Model.Tpm12.Persist

variable {α : Type}

theorem fail_ne_zero : TPM_FAIL ≠ 0 := by decide
theorem auditfail_ne_zero : TPM_AUDITFAIL_SUCCESSFUL ≠ 0 := by decide
theorem auditfail_ne_fail : TPM_AUDITFAIL_SUCCESSFUL ≠ TPM_FAIL := by decide

/-- case analysis over everything an event can be -/
macro "ev_cases" e:ident : tactic =>
  `(tactic| (
    have hF := fail_ne_zero
    have hA := auditfail_ne_zero
    have hAF := auditfail_ne_fail
    cases ha : ($e).altered <;>
    by_cases h0 : ($e).rcIn = 0 <;> by_cases hs : ($e).storeOk = true <;> by_cases hl : ($e).loadOk = true <;>
    by_cases hau : ($e).auditOk = true <;> by_cases hfl : ($e).rcIn = TPM_FAIL <;> simp_all))

/-- the invariant "not failed ⇒ memory = storage" is preserved by every command, whatever the ordinal did and
    however the storage callbacks behaved -/
theorem sync_respond (s : St α) (e : Ev α) (h : Sync s) : Sync (respond s e).1 := by
  unfold respond step Sync at *
  rcases h with h | h <;> ev_cases e

theorem sync_run (es : List (Ev α)) (s : St α) (h : Sync s) : Sync (run s es) := by
  induction es generalizing s with
  | nil => exact h
  | cons e es ih => exact ih _ (sync_respond s e h)

theorem sync_restart (s : St α) : Sync (restart s) := Or.inr rfl

/-- **acknowledged ⇒ durable**: a command answered with success leaves storage equal to memory, and if it
    changed the permanent state, the changed state is what the storage callback last received -/
theorem tpm12_ack_durable (s : St α) (e : Ev α) (h : s.live = s.stored) (hrc : (respond s e).2 = 0) :
    (respond s e).1.live = (respond s e).1.stored ∧
    (∀ l, e.altered = some l → (respond s e).1.stored = l) := by
  unfold respond step at *
  ev_cases e

/-- **rollback**: a command answered with an error (other than the specified "succeeded, but the audit record
    could not be made") never changes what is in storage; and unless the TPM went into its failed state, memory is
    back to what it was -/
theorem tpm12_rollback (s : St α) (e : Ev α) (h : s.live = s.stored) (hrc : (respond s e).2 ≠ 0)
    (haud : (respond s e).2 ≠ TPM_AUDITFAIL_SUCCESSFUL ∨ e.auditOk = true) (hin : e.rcIn ≠ TPM_AUDITFAIL_SUCCESSFUL) :
    (respond s e).1.stored = s.stored ∧
    ((respond s e).1.failed = false → (respond s e).1.live = s.live) := by
  unfold respond step at *
  rcases haud with haud | haud <;> ev_cases e

/-- the audit exception, exactly: when only the audit store fails, the answer is `TPM_AUDITFAIL_SUCCESSFUL`, the
    command's own change IS in storage, and the TPM is in its failed state -/
theorem audit_fault (s : St α) (e : Ev α) (l : α) (ha : e.altered = some l) (h0 : e.rcIn = 0) (hs : e.storeOk = true)
    (hau : e.auditOk = false) :
    (respond s e).2 = TPM_AUDITFAIL_SUCCESSFUL ∧ (respond s e).1.stored = l ∧ (respond s e).1.failed = true := by
  unfold respond step
  simp [ha, h0, hs, hau]

/-- **a failing storage callback never yields success**: whichever of the command's storage accesses fails — the
    store of its change, the reload of a rollback, or the store of the audit step — the answer is an error code and
    the TPM is in its failed state -/
theorem tpm12_store_fault_not_success (s : St α) (e : Ev α) (l : α) (ha : e.altered = some l)
    (hfault : (e.rcIn = 0 ∧ e.storeOk = false) ∨ (e.rcIn ≠ 0 ∧ e.loadOk = false) ∨ (e.rcIn = 0 ∧ e.auditOk = false)) :
    (respond s e).2 ≠ 0 ∧ (respond s e).1.failed = true := by
  have hF := fail_ne_zero
  have hA := auditfail_ne_zero
  unfold respond step
  simp only [ha]
  rcases hfault with ⟨h0, hs⟩ | ⟨h0, hl⟩ | ⟨h0, hau⟩
  · simp [h0, hs, hF]
  · simp [h0, hl, hF]
  · by_cases hs : e.storeOk = true <;> simp [h0, hs, hau, hF, hA]

/-- the failed state is sticky until a restart, and a restart recovers exactly the last stored state -/
theorem failed_sticky (s : St α) (e : Ev α) (h : s.failed = true) : (respond s e).1.failed = true := by
  unfold respond step
  ev_cases e

theorem restart_recovers (s : St α) : (restart s).live = s.stored ∧ (restart s).stored = s.stored ∧ (restart s).failed = false :=
  ⟨rfl, rfl, rfl⟩

/-- over whole histories: after ANY sequence of commands with ANY storage faults, storage holds either what it held
    at the start or a state that some command produced with its own store succeeding -/
theorem stored_is_acknowledged (es : List (Ev α)) (s : St α) :
    (run s es).stored = s.stored ∨ ∃ e ∈ es, e.altered = some (run s es).stored ∧ e.rcIn = 0 ∧ e.storeOk = true := by
  induction es generalizing s with
  | nil => left; rfl
  | cons e es ih =>
    have hstep : (respond s e).1.stored = s.stored ∨ (e.altered = some (respond s e).1.stored ∧ e.rcIn = 0 ∧ e.storeOk = true) := by
      unfold respond step
      ev_cases e
    have := ih (respond s e).1
    simp only [run, List.foldl_cons] at this ⊢
    rcases this with h | ⟨e', he', h'⟩
    · rcases hstep with h2 | h2
      · left; rw [h, h2]
      · right; exact ⟨e, by simp, by rw [h]; exact h2⟩
    · right; exact ⟨e', by simp [he'], h'⟩

/-! ### whole histories: resume / restart equivalence, read-only commands, fault-free runs -/

theorem run_append (s : St α) (es fs : List (Ev α)) : run s (es ++ fs) = run (run s es) fs := by
  simp [run, List.foldl_append]

/-- a command that does not touch permanent memory changes neither memory nor storage, whatever it answers and
    however the callbacks would have behaved (no store is issued at all) -/
theorem readonly_untouched (s : St α) (e : Ev α) (ha : e.altered = none) :
    (respond s e).1.live = s.live ∧ (respond s e).1.stored = s.stored := by
  unfold respond step
  ev_cases e

/-- **re-creation from the blobs**: at any point of any history at which the TPM is not in its failed state, a
    TPM restarted from what storage holds is in exactly the state of the uninterrupted one — so it answers every
    later history identically -/
theorem tpm12_restart_equiv (es fs : List (Ev α)) (s : St α) (h : Sync s) (hnf : (run s es).failed = false) :
    run (restart (run s es)) fs = run (run s es) fs := by
  have hs := sync_run es s h
  have : restart (run s es) = run s es := by
    rcases hs with hf | hl
    · rw [hnf] at hf; cases hf
    · cases hr : run s es with
      | mk live stored failed =>
        rw [hr] at hl hnf
        simp only at hl hnf
        simp [restart, hl, hnf]
  rw [this]

/-- when the TPM IS in its failed state, a restart still comes back with what storage holds, and that is a state
    some command was acknowledged with (or the initial one): nothing unacknowledged survives a power cycle -/
theorem restart_after_any_history (es : List (Ev α)) (s : St α) :
    (restart (run s es)).live = s.stored ∨
      ∃ e ∈ es, e.altered = some (restart (run s es)).live ∧ e.rcIn = 0 ∧ e.storeOk = true :=
  stored_is_acknowledged es s

/-- the failed state is sticky over whole histories -/
theorem failed_sticky_run (es : List (Ev α)) (s : St α) (h : s.failed = true) : (run s es).failed = true := by
  induction es generalizing s with
  | nil => exact h
  | cons e es ih => exact ih _ (failed_sticky s e h)

/-- without storage faults and without an ordinal returning `TPM_FAIL` itself, the TPM never enters the failed
    state and memory equals storage after every history -/
theorem faultfree_run (es : List (Ev α)) (s : St α) (hnf : s.failed = false) (hl : s.live = s.stored)
    (hok : ∀ e ∈ es, e.storeOk = true ∧ e.loadOk = true ∧ e.auditOk = true ∧ e.rcIn ≠ TPM_FAIL) :
    (run s es).failed = false ∧ (run s es).live = (run s es).stored := by
  induction es generalizing s with
  | nil => exact ⟨hnf, hl⟩
  | cons e es ih =>
    obtain ⟨h1, h2, h3, h4⟩ := hok e (by simp)
    have hstep : (respond s e).1.failed = false ∧ (respond s e).1.live = (respond s e).1.stored := by
      unfold respond step
      ev_cases e
    exact ih _ hstep.1 hstep.2 (fun e' he' => hok e' (by simp [he']))

/-- a response code of success is only ever given by a TPM whose storage holds its memory (the converse direction
    of the storage-fault clause, over any history from a synchronized start) -/
theorem success_implies_synced (es : List (Ev α)) (s : St α) (e : Ev α) (h : Sync s)
    (hnf : (run s es).failed = false) (hrc : (respond (run s es) e).2 = 0) :
    (respond (run s es) e).1.live = (respond (run s es) e).1.stored := by
  have hs := sync_run es s h
  rcases hs with hf | hl
  · rw [hnf] at hf; cases hf
  · exact (tpm12_ack_durable _ e hl hrc).1

/-! non-vacuity: concrete histories that meet the hypotheses above -/
example : (run ({ live := 1, stored := 1 } : St Nat) [{ altered := some 2, rcIn := 0 }, { altered := some 3, rcIn := 5 }]) =
    { live := 2, stored := 2, failed := false } := by decide
example : (run ({ live := 1, stored := 1 } : St Nat) [{ altered := some 2, rcIn := 0, storeOk := false }]).failed = true := by decide
example : (restart (run ({ live := 1, stored := 1 } : St Nat) [{ altered := some 2, rcIn := 0, storeOk := false }])).live = 1 := by decide

end TpmVerif.Props.C19
