import TpmVerif.Model.Tpm12Persist
/-!
  C19 — TPM 1.2 write-through, rollback and storage-fault clauses, as theorems about `Model.Tpm12.Persist`
  (for every abstract permanent state, every ordinal outcome, every storage behaviour).
-/
namespace TpmVerif.Props.C19
open TpmVerif TpmVerif.Gen.Tpm12 TpmVerif.Model.Tpm12.Persist

variable {α : Type}

theorem fail_ne_zero : TPM_FAIL ≠ 0 := by decide
theorem auditfail_ne_zero : TPM_AUDITFAIL_SUCCESSFUL ≠ 0 := by decide
theorem auditfail_ne_fail : TPM_AUDITFAIL_SUCCESSFUL ≠ TPM_FAIL := by decide

/-- case analysis over everything an event can be -/
macro "ev_cases" e:ident : tactic =>
  `(tactic| (
    have hF := fail_ne_zero
    have hA := auditfail_ne_zero
    have hAF := auditfail_ne_fail
    cases ha : ($e).altered <;>
    by_cases h0 : ($e).rcIn = 0 <;> by_cases hs : ($e).storeOk = true <;> by_cases hl : ($e).loadOk = true <;>
    by_cases hau : ($e).auditOk = true <;> by_cases hfl : ($e).rcIn = TPM_FAIL <;> simp_all))

/-- the invariant "not failed ⇒ memory = storage" is preserved by every command, whatever the ordinal did and
    however the storage callbacks behaved -/
theorem sync_respond (s : St α) (e : Ev α) (h : Sync s) : Sync (respond s e).1 := by
  unfold respond step Sync at *
  rcases h with h | h <;> ev_cases e

theorem sync_run (es : List (Ev α)) (s : St α) (h : Sync s) : Sync (run s es) := by
  induction es generalizing s with
  | nil => exact h
  | cons e es ih => exact ih _ (sync_respond s e h)

theorem sync_restart (s : St α) : Sync (restart s) := Or.inr rfl

/-- **acknowledged ⇒ durable**: a command answered with success leaves storage equal to memory, and if it
    changed the permanent state, the changed state is what the storage callback last received -/
theorem tpm12_ack_durable (s : St α) (e : Ev α) (h : s.live = s.stored) (hrc : (respond s e).2 = 0) :
    (respond s e).1.live = (respond s e).1.stored ∧
    (∀ l, e.altered = some l → (respond s e).1.stored = l) := by
  unfold respond step at *
  ev_cases e

/-- **rollback**: a command answered with an error (other than the specified "succeeded, but the audit record
    could not be made") never changes what is in storage; and unless the TPM went into its failed state, memory is
    back to what it was -/
theorem tpm12_rollback (s : St α) (e : Ev α) (h : s.live = s.stored) (hrc : (respond s e).2 ≠ 0)
    (haud : (respond s e).2 ≠ TPM_AUDITFAIL_SUCCESSFUL ∨ e.auditOk = true) (hin : e.rcIn ≠ TPM_AUDITFAIL_SUCCESSFUL) :
    (respond s e).1.stored = s.stored ∧
    ((respond s e).1.failed = false → (respond s e).1.live = s.live) := by
  unfold respond step at *
  rcases haud with haud | haud <;> ev_cases e

/-- the audit exception, exactly: when only the audit store fails, the answer is `TPM_AUDITFAIL_SUCCESSFUL`, the
    command's own change IS in storage, and the TPM is in its failed state -/
theorem audit_fault (s : St α) (e : Ev α) (l : α) (ha : e.altered = some l) (h0 : e.rcIn = 0) (hs : e.storeOk = true)
    (hau : e.auditOk = false) :
    (respond s e).2 = TPM_AUDITFAIL_SUCCESSFUL ∧ (respond s e).1.stored = l ∧ (respond s e).1.failed = true := by
  unfold respond step
  simp [ha, h0, hs, hau]

/-- **a failing storage callback never yields success**: whichever of the command's storage accesses fails — the
    store of its change, the reload of a rollback, or the store of the audit step — the answer is an error code and
    the TPM is in its failed state -/
theorem tpm12_store_fault_not_success (s : St α) (e : Ev α) (l : α) (ha : e.altered = some l)
    (hfault : (e.rcIn = 0 ∧ e.storeOk = false) ∨ (e.rcIn ≠ 0 ∧ e.loadOk = false) ∨ (e.rcIn = 0 ∧ e.auditOk = false)) :
    (respond s e).2 ≠ 0 ∧ (respond s e).1.failed = true := by
  have hF := fail_ne_zero
  have hA := auditfail_ne_zero
  unfold respond step
  simp only [ha]
  rcases hfault with ⟨h0, hs⟩ | ⟨h0, hl⟩ | ⟨h0, hau⟩
  · simp [h0, hs, hF]
  · simp [h0, hl, hF]
  · by_cases hs : e.storeOk = true <;> simp [h0, hs, hau, hF, hA]

/-- the failed state is sticky until a restart, and a restart recovers exactly the last stored state -/
theorem failed_sticky (s : St α) (e : Ev α) (h : s.failed = true) : (respond s e).1.failed = true := by
  unfold respond step
  ev_cases e

theorem restart_recovers (s : St α) : (restart s).live = s.stored ∧ (restart s).stored = s.stored ∧ (restart s).failed = false :=
  ⟨rfl, rfl, rfl⟩

/-- over whole histories: after ANY sequence of commands with ANY storage faults, storage holds either what it held
    at the start or a state that some command produced with its own store succeeding -/
theorem stored_is_acknowledged (es : List (Ev α)) (s : St α) :
    (run s es).stored = s.stored ∨ ∃ e ∈ es, e.altered = some (run s es).stored ∧ e.rcIn = 0 ∧ e.storeOk = true := by
  induction es generalizing s with
  | nil => left; rfl
  | cons e es ih =>
    have hstep : (respond s e).1.stored = s.stored ∨ (e.altered = some (respond s e).1.stored ∧ e.rcIn = 0 ∧ e.storeOk = true) := by
      unfold respond step
      ev_cases e
    have := ih (respond s e).1
    simp only [run, List.foldl_cons] at this ⊢
    rcases this with h | ⟨e', he', h'⟩
    · rcases hstep with h2 | h2
      · left; rw [h, h2]
      · right; exact ⟨e, by simp, by rw [h]; exact h2⟩
    · right; exact ⟨e', by simp [he'], h'⟩

end TpmVerif.Props.C19
