import TpmVerif.Model.Auth
import TpmVerif.Props.C13
/-!
  C04 — authorization is enforced. Theorems about `Model.Auth` (the decision of `SessionProcess.c` on the wire level).
  What cannot be a theorem: that HMAC-SHA256 has no collisions/forgeries. The theorems therefore state (a) the decision
  logic outright — a command runs only if EVERY required authorization verifies against the entity's current secret or
  policy, the current nonceTPM, and a cpHash over exactly the bytes received — and (b) that the HMAC *input* is injective
  in every protected field, so any single-field change changes what is HMACed.
-/
namespace TpmVerif.Props.C04
open TpmVerif TpmVerif.Crypto TpmVerif.Model.Auth

/-! ### Decision logic -/

/-- **a command is authorized only if every handle that needs an authorization has one that passes** -/
theorem checkFrom_ok (st : St) (cc attr : Nat) (cph : Bytes) : ∀ (hs : List Nat) (as : List AuthIn) (i : Nat),
    checkFrom st cc attr cph hs as i = .ok →
    hs.length ≤ as.length ∧ ∀ k, k < hs.length →
      ∃ e a, st.ent (hs.getD k 0) = some e ∧ as[k]? = some a ∧ checkOne st e cc (roleOf attr (i + k)) cph a = .pass := by
  intro hs
  induction hs with
  | nil => intro as i _; exact ⟨Nat.zero_le _, fun k hk => absurd hk (Nat.not_lt_zero _)⟩
  | cons h hs ih =>
    intro as i hok
    cases as with
    | nil => simp [checkFrom] at hok
    | cons a as =>
      simp only [checkFrom] at hok
      cases he : st.ent h with
      | none => simp [he] at hok
      | some e =>
        simp only [he] at hok
        cases hc : checkOne st e cc (roleOf attr i) cph a with
        | pass =>
          simp only [hc] at hok
          obtain ⟨hl, hall⟩ := ih as (i + 1) hok
          refine ⟨by simp; omega, ?_⟩
          intro k hk
          cases k with
          | zero => exact ⟨e, a, by simpa using he, by simp, by simpa using hc⟩
          | succ k =>
            obtain ⟨e', a', h1, h2, h3⟩ := hall k (by simpa using hk)
            refine ⟨e', a', by simpa using h1, by simpa using h2, ?_⟩
            have : i + (k + 1) = i + 1 + k := by omega
            rw [this]; exact h3
        | failAuth => simp [hc] at hok
        | failPolicy => simp [hc] at hok
        | failPolicyCC => simp [hc] at hok
        | unavailable => simp [hc] at hok
        | authType => simp [hc] at hok
        | badAttributes => simp [hc] at hok
        | pcrChanged => simp [hc] at hok
        | failLocality => simp [hc] at hok
        | failPP => simp [hc] at hok
        | noSession => simp [hc] at hok

/-- the whole decision: `ok` implies enough sessions, and every required one passes against the cpHash of the bytes received -/
theorem authorize_ok (st : St) (c : Cmd) (attr : Nat) (h : authorize st c attr = .ok) :
    requiredAuths attr ≤ c.auths.length ∧
    ∀ k, k < (c.handles.take (requiredAuths attr)).length →
      ∃ e a, st.ent ((c.handles.take (requiredAuths attr)).getD k 0) = some e ∧ c.auths[k]? = some a ∧
        checkOne st e c.cc (roleOf attr k)
          (cpHash c.cc (c.handles.map (fun h => ((st.ent h).map (·.name)).getD (be32 h))) c.params) a = .pass := by
  unfold authorize at h
  simp only at h
  by_cases hl : c.auths.length < requiredAuths attr
  · simp [hl] at h
  · simp only [hl, if_false] at h
    refine ⟨Nat.le_of_not_lt hl, ?_⟩
    intro k hk
    obtain ⟨e, a, h1, h2, h3⟩ := (checkFrom_ok st _ _ _ _ _ 0 h).2 k hk
    exact ⟨e, a, h1, h2, by simpa using h3⟩

/-- **a missing session is an authorization error**, whatever the sessions that are present contain -/
theorem missing_session (st : St) (c : Cmd) (attr : Nat) (h : c.auths.length < requiredAuths attr) :
    authorize st c attr = .authMissing := by
  unfold authorize; simp [h]

/-- a failing first authorization stops the command, whatever follows -/
theorem first_fail (st : St) (cc attr : Nat) (cph : Bytes) (h : Nat) (hs : List Nat) (a : AuthIn) (as : List AuthIn) (e : Entity)
    (w : Check) (he : st.ent h = some e) (hc : checkOne st e cc (roleOf attr 0) cph a = w) (hw : w ≠ .pass) :
    checkFrom st cc attr cph (h :: hs) (a :: as) 0 = .authFail 0 w := by
  cases w <;> simp_all [checkFrom]

/-- HMAC check: passes iff the key and the HMAC field are both empty, or the field equals the reference HMAC -/
theorem hmacCheck_pass_iff (s : Session) (key cph : Bytes) (a : AuthIn) :
    hmacCheck s key cph a = .pass ↔
      (key = [] ∧ a.hmac = []) ∨ a.hmac = hmac sha256 key (cph ++ a.nonce ++ s.nonceTPM ++ [UInt8.ofNat a.attrs]) := by
  unfold hmacCheck authMsg
  by_cases h1 : key = [] ∧ a.hmac = []
  · simp [h1]
  · by_cases h2 : a.hmac = hmac sha256 key (cph ++ a.nonce ++ s.nonceTPM ++ [UInt8.ofNat a.attrs])
    · simp [h2]
    · simp [h1]

/-- **HMAC session (not a policy session): passes only if** no policy is required for the role, the authValue may be
    used, and the HMAC equals the reference over cpHash, the caller's nonce, the session's CURRENT nonceTPM and the
    attributes, keyed with sessionKey ‖ authValue (authValue left out iff the session is bound to this entity now) -/
theorem checkOne_hmac (st : St) (e : Entity) (cc : Nat) (r : Role) (cph : Bytes) (a : AuthIn) (s : Session)
    (hpw : a.sh ≠ TPM_RS_PW) (hs : st.session a.sh = some s) (hp : s.policy = false)
    (h : checkOne st e cc r cph a = .pass) :
    policyRequired r e = false ∧ authAvail e cc r = true ∧
    ((hmacKey s e = [] ∧ a.hmac = []) ∨
      a.hmac = hmac sha256 (s.key ++ (if boundTo s e then [] else e.auth)) (cph ++ a.nonce ++ s.nonceTPM ++ [UInt8.ofNat a.attrs])) := by
  unfold checkOne at h
  simp only [hpw, if_false, hs, hp, Bool.false_and, Bool.false_eq_true, Bool.not_false, if_true] at h
  by_cases h1 : policyRequired r e = true
  · simp [h1] at h
  · by_cases h2 : authAvail e cc r = true
    · simp only [h1, h2, Bool.not_true] at h
      exact ⟨by simpa using h1, h2, (hmacCheck_pass_iff s (hmacKey s e) cph a).mp h⟩
    · simp [h1, h2] at h

/-- and conversely a correct HMAC on an available authValue passes -/
theorem checkOne_hmac_correct (st : St) (e : Entity) (cc : Nat) (r : Role) (cph : Bytes) (a : AuthIn) (s : Session)
    (hpw : a.sh ≠ TPM_RS_PW) (hs : st.session a.sh = some s) (hp : s.policy = false)
    (h1 : policyRequired r e = false) (h2 : authAvail e cc r = true)
    (hm : a.hmac = hmac sha256 (hmacKey s e) (cph ++ a.nonce ++ s.nonceTPM ++ [UInt8.ofNat a.attrs])) :
    checkOne st e cc r cph a = .pass := by
  unfold checkOne
  simp only [hpw, if_false, hs, hp, Bool.false_and, Bool.false_eq_true, Bool.not_false, if_true, h1, h2, Bool.not_true]
  exact (hmacCheck_pass_iff s (hmacKey s e) cph a).mpr (Or.inr hm)

/-- a session handle the TPM does not know never authorizes -/
theorem checkOne_unknown_session (st : St) (e : Entity) (cc : Nat) (r : Role) (cph : Bytes) (a : AuthIn)
    (hpw : a.sh ≠ TPM_RS_PW) (hs : st.session a.sh = none) : checkOne st e cc r cph a = .noSession := by
  simp [checkOne, hpw, hs]

/-- **password: passes only if equal to the stored value after removing trailing zeros**, no policy is required and the
    entity allows its authValue for this command -/
theorem checkOne_pw (st : St) (e : Entity) (cc : Nat) (r : Role) (cph : Bytes) (a : AuthIn) (hpw : a.sh = TPM_RS_PW)
    (h : checkOne st e cc r cph a = .pass) :
    stripZeros a.hmac = e.auth ∧ policyRequired r e = false ∧ authAvail e cc r = true := by
  unfold checkOne pwCheck at h
  simp only [hpw, if_true] at h
  by_cases h0 : a.attrs &&& 0xE6 ≠ 0
  · simp [h0] at h
  · by_cases h1 : policyRequired r e = true
    · simp [h0, h1] at h
    · by_cases h2 : authAvail e cc r = true
      · by_cases h3 : stripZeros a.hmac = e.auth
        · exact ⟨h3, by simpa using h1, h2⟩
        · simp [h0, h1, h2, h3] at h
      · simp [h0, h1, h2] at h

/-- the policy part: digest equal, command code (if fixed) is this command, ADMIN/DUP need a fixed command code -/
theorem policyCheck_pass (s : Session) (e : Entity) (cc : Nat) (r : Role) (h : policyCheck s e cc r = .pass) :
    s.pDigest = e.policy ∧ (s.pcc = 0 ∨ s.pcc = cc) ∧ (s.pcc = 0 → r = .user) := by
  unfold policyCheck at h
  split at h
  · exact Check.noConfusion h
  · rename_i h2
    have h2' : s.pDigest = e.policy := by simpa using h2
    split at h
    · rename_i h3
      split at h
      · exact Check.noConfusion h
      · rename_i h4
        exact ⟨h2', Or.inr (by simpa using h4), fun h0 => absurd h0 h3⟩
    · rename_i h3
      have h3' : s.pcc = 0 := by simpa using h3
      split at h
      · exact Check.noConfusion h
      · rename_i h4
        exact ⟨h2', Or.inl h3', fun _ => by simpa using h4⟩

/-- **policy session: passes only if the session's policyDigest IS the entity's authPolicy**, the command code fixed by
    the policy (if any) is this command, ADMIN/DUP roles have a command code fixed, and the authValue proof the policy
    demanded (PolicyPassword: the password; PolicyAuthValue: an HMAC keyed with the authValue) is correct -/
theorem checkOne_policy (st : St) (e : Entity) (cc : Nat) (r : Role) (cph : Bytes) (a : AuthIn) (s : Session)
    (hpw : a.sh ≠ TPM_RS_PW) (hs : st.session a.sh = some s) (hp : s.policy = true)
    (h : checkOne st e cc r cph a = .pass) :
    s.pDigest = e.policy ∧ policyAvail e cc r = true ∧ pcrCurrent st.pcrCounter s = true ∧ (s.pcc = 0 ∨ s.pcc = cc) ∧ (s.pcc = 0 → r = .user) ∧
    restrictions st s cph = .pass ∧
    (if s.needPw then stripZeros a.hmac = e.auth
     else (s.key ++ (if s.needAuth then e.auth else []) = [] ∧ a.hmac = []) ∨
       a.hmac = hmac sha256 (s.key ++ (if s.needAuth then e.auth else [])) (cph ++ a.nonce ++ s.nonceTPM ++ [UInt8.ofNat a.attrs])) := by
  unfold checkOne at h
  simp only [hpw, if_false, hs, hp, Bool.true_and, Bool.not_true, Bool.false_eq_true] at h
  by_cases h0 : decide (a.attrs &&& 128 ≠ 0) = true
  · simp only [h0, if_true] at h; exact Check.noConfusion h
  · simp only [h0] at h
    by_cases h1 : policyAvail e cc r = true
    · simp only [h1, Bool.not_true, Bool.false_eq_true, if_false] at h
      by_cases hcur : pcrCurrent st.pcrCounter s = true
      case neg => simp [hcur] at h
      simp only [hcur, Bool.not_true, Bool.false_eq_true, if_false] at h
      cases hpc : policyCheck s e cc r with
      | pass =>
        obtain ⟨p1, p2, p3⟩ := policyCheck_pass s e cc r hpc
        simp only [hpc] at h
        have hres : restrictions st s cph = .pass := by
          cases hr : restrictions st s cph <;> simp [hr] at h <;> rfl
        simp only [hres] at h
        refine ⟨p1, h1, hcur, p2, p3, hres, ?_⟩
        by_cases h5 : s.needPw = true
        · simp only [h5, if_true] at h ⊢
          unfold pwCheck at h
          by_cases h6 : stripZeros a.hmac = e.auth
          · exact h6
          · simp [h6] at h
        · simp only [h5, Bool.false_eq_true, if_false] at h ⊢
          exact (hmacCheck_pass_iff s _ cph a).mp h
      | failAuth => simp [hpc] at h
      | failPolicy => simp [hpc] at h
      | failPolicyCC => simp [hpc] at h
      | unavailable => simp [hpc] at h
      | authType => simp [hpc] at h
      | badAttributes => simp [hpc] at h
      | pcrChanged => simp [hpc] at h
      | failLocality => simp [hpc] at h
      | failPP => simp [hpc] at h
      | noSession => simp [hpc] at h
    · have : policyAvail e cc r = false := by simpa using h1
      simp [this] at h

/-- **a PCR update after PolicyPCR invalidates the session**: a policy session that recorded the PCR update counter
    (PolicyPCR ran) authorizes nothing once the TPM's counter has moved on -/
theorem pcr_changed_refused (st : St) (e : Entity) (cc : Nat) (r : Role) (cph : Bytes) (a : AuthIn) (s : Session)
    (hpw : a.sh ≠ TPM_RS_PW) (hs : st.session a.sh = some s) (hp : s.policy = true)
    (h0 : s.pcrCtr ≠ 0) (h1 : s.pcrCtr ≠ st.pcrCounter) :
    checkOne st e cc r cph a ≠ .pass := by
  intro h
  have := (checkOne_policy st e cc r cph a s hpw hs hp h).2.2.1
  simp [pcrCurrent, h0, h1] at this

/-- **ADMIN role on an NV index (NV_ChangeAuth, NV_UndefineSpaceSpecial) is never authorized by a password or an HMAC session** -/
theorem admin_nv_needs_policy (st : St) (e : Entity) (cc : Nat) (cph : Bytes) (a : AuthIn)
    (hnv : e.isObject = false) (hs : a.sh = TPM_RS_PW ∨ ∃ s, st.session a.sh = some s ∧ s.policy = false) :
    checkOne st e cc .admin cph a ≠ .pass := by
  have hreq : policyRequired .admin e = true := by simp [policyRequired, hnv]
  intro h
  rcases hs with hpw | ⟨s, hs, hp⟩
  · have := (checkOne_pw st e cc .admin cph a hpw h).2.1
    rw [hreq] at this; exact Bool.noConfusion this
  · by_cases hpw : a.sh = TPM_RS_PW
    · have := (checkOne_pw st e cc .admin cph a hpw h).2.1
      rw [hreq] at this; exact Bool.noConfusion this
    · have := (checkOne_hmac st e cc .admin cph a s hpw hs hp h).1
      rw [hreq] at this; exact Bool.noConfusion this

/-! ### Policy digests -/

/-- PolicyOR on a real (non-trial) session is accepted only if the current digest is one of the listed digests -/
theorem policyOR_accepts (s : Session) (ds : List Bytes) (ht : s.trial = false) (h : (policyStep s (.or ds)).2 = 0) :
    s.pDigest ∈ ds := by
  by_cases hc : orOk s ds = true
  · simpa [orOk, ht] using hc
  · simp [policyStep, hc, RC_VALUE] at h

/-- a refused policy command changes nothing -/
theorem policyStep_refused (s : Session) (op : PolicyOp) (h : (policyStep s op).2 ≠ 0) : (policyStep s op).1 = s := by
  cases op with
  | authValue => simp [policyStep] at h
  | password => simp [policyStep] at h
  | restart => simp [policyStep] at h
  | assert cc args => simp [policyStep] at h
  | update cc name ref => simp [policyStep] at h
  | physicalPresence => simp [policyStep] at h
  | locality loc =>
    cases hm : localityMerge s.locality loc with
    | none => simp [policyStep, hm]
    | some m => simp [policyStep, hm] at h
  | cpHash hh =>
    by_cases hc : s.cpHash ≠ [] ∧ s.cpHash ≠ hh
    · simp [policyStep, hc]
    · simp [policyStep, hc] at h
  | pcr sel values given g =>
    by_cases ht : s.trial = true
    · simp [policyStep, ht] at h
    · by_cases hc : pcrCurrent g s = true
      · by_cases hg : pcrGivenBad values given = true
        · simp [policyStep, ht, hc, hg]
        · simp [policyStep, ht, hc, hg] at h
      · simp [policyStep, ht, hc]
  | commandCode code =>
    by_cases hc : ccConflict s code = true
    · simp [policyStep, hc]
    · simp [policyStep, hc] at h
  | or ds =>
    by_cases hc : orOk s ds = true
    · simp [policyStep, hc] at h
    · simp [policyStep, hc]

/-- a second PolicyCommandCode with a different code is refused: the command code of a policy cannot be changed -/
theorem policyCC_fixed (s : Session) (code : Nat) (h0 : s.pcc ≠ 0) (hne : s.pcc ≠ code) :
    (policyStep s (.commandCode code)).2 = RC_VALUE := by
  have : ccConflict s code = true := by simp [ccConflict, h0, hne]
  simp [policyStep, this]

/-- policy commands never touch the nonce, the session key or the binding -/
theorem policyStep_frame (s : Session) (op : PolicyOp) :
    (policyStep s op).1.nonceTPM = s.nonceTPM ∧ (policyStep s op).1.key = s.key ∧ (policyStep s op).1.handle = s.handle ∧
    (policyStep s op).1.policy = s.policy := by
  cases op with
  | authValue => simp [policyStep]
  | password => simp [policyStep]
  | restart => simp [policyStep]
  | assert cc args => simp [policyStep]
  | update cc name ref => simp [policyStep]
  | physicalPresence => simp [policyStep]
  | locality loc => cases hm : localityMerge s.locality loc <;> simp [policyStep, hm]
  | cpHash hh => by_cases hc : s.cpHash ≠ [] ∧ s.cpHash ≠ hh <;> simp [policyStep, hc]
  | pcr sel values given g =>
    by_cases ht : s.trial = true
    · simp [policyStep, ht]
    · by_cases hc : pcrCurrent g s = true
      · by_cases hg : pcrGivenBad values given = true <;> simp [policyStep, ht, hc, hg]
      · simp [policyStep, ht, hc]
  | commandCode code => by_cases hc : ccConflict s code = true <;> simp [policyStep, hc]
  | or ds => by_cases hc : orOk s ds = true <;> simp [policyStep, hc]

/-- **PolicyPCR binds the session to the PCR values of now**: on a real session it succeeds only if no PCR changed since an
    earlier PolicyPCR and a digest supplied by the caller is the digest of the current values; the new policyDigest is
    H(old ‖ TPM_CC_PolicyPCR ‖ selection ‖ H(current values)) and the session records the PCR update counter -/
theorem policyPCR_binds (s : Session) (sel values given : Bytes) (g : Nat) (ht : s.trial = false)
    (h : (policyStep s (.pcr sel values given g)).2 = 0) :
    pcrCurrent g s = true ∧ (given = [] ∨ given = hash sha256 values) ∧
    (policyStep s (.pcr sel values given g)).1.pDigest = pcrExtend s.pDigest sel (hash sha256 values) ∧
    (policyStep s (.pcr sel values given g)).1.pcrCtr = g := by
  by_cases hc : pcrCurrent g s = true
  · by_cases hg : pcrGivenBad values given = true
    · simp [policyStep, ht, hc, hg, RC_VALUE] at h
    · refine ⟨hc, ?_, by simp [policyStep, ht, hc, hg], by simp [policyStep, ht, hc, hg]⟩
      simp only [pcrGivenBad, Bool.and_eq_true, bne_iff_ne, ne_eq, not_and, Decidable.not_not] at hg
      by_cases hge : given = []
      · exact Or.inl hge
      · exact Or.inr (hg hge)
  · simp [policyStep, ht, hc, RC_PCR_CHANGED] at h

/-- different PCR values give a different digest input: the step is a function of the values only through their hash, and
    the recorded counter makes any later counted PCR update visible (`pcr_changed_refused`) -/
theorem policyPCR_then_update_refuses (st : St) (s : Session) (sel values given : Bytes) (g : Nat) (ht : s.trial = false)
    (h : (policyStep s (.pcr sel values given g)).2 = 0) (hg : g ≠ 0) (hmoved : st.pcrCounter ≠ g) :
    pcrCurrent st.pcrCounter (policyStep s (.pcr sel values given g)).1 = false := by
  have := (policyPCR_binds s sel values given g ht h).2.2.2
  simp [pcrCurrent, this, hg]
  exact fun h' => hmoved h'.symm

/-- after use, a policy session's digest is gone: it authorizes nothing whose policy is non-trivial until the policy is re-run -/
theorem resetPolicy_digest (s : Session) (hp : s.policy = true) : (resetPolicy s).pDigest = List.replicate 32 0 ∧ (resetPolicy s).pcc = 0 := by
  simp [resetPolicy, hp]

/-! ### What the HMAC covers: injectivity of the HMAC input -/

theorem be32_inj (n m : Nat) (h : be32 n = be32 m) : n % 4294967296 = m % 4294967296 := by
  simp only [be32, List.cons.injEq, and_true] at h
  obtain ⟨h1, h2, h3, h4⟩ := h
  have e1 := congrArg UInt8.toNat h1
  have e2 := congrArg UInt8.toNat h2
  have e3 := congrArg UInt8.toNat h3
  have e4 := congrArg UInt8.toNat h4
  simp only [UInt8.toNat_ofNat', Nat.reducePow] at e1 e2 e3 e4
  omega

/-- the cpHash input determines the command code and every byte of the names and parameters -/
theorem cpInput_inj (cc cc' : Nat) (names names' : List Bytes) (p p' : Bytes)
    (h : cpInput cc names p = cpInput cc' names' p') :
    cc % 4294967296 = cc' % 4294967296 ∧ names.flatten ++ p = names'.flatten ++ p' := by
  unfold cpInput at h
  rw [List.append_assoc, List.append_assoc] at h
  have := List.append_inj h (by simp [be32_length])
  exact ⟨be32_inj _ _ this.1, this.2⟩

/-- with names of the same lengths (names of the same kind of entity), a changed name or parameter changes the cpHash input -/
theorem cpInput_inj_names (cc : Nat) (n1 n1' : Bytes) (p p' : Bytes) (hl : n1.length = n1'.length)
    (h : cpInput cc [n1] p = cpInput cc [n1'] p') : n1 = n1' ∧ p = p' := by
  have := (cpInput_inj cc cc [n1] [n1'] p p' h).2
  simp only [List.flatten_cons, List.flatten_nil, List.append_nil] at this
  exact List.append_inj this hl

/-- the HMAC input determines cpHash, both nonces and the attribute byte (fixed digest/nonce sizes) -/
theorem authMsg_inj (c c' n n' t t' : Bytes) (a a' : Nat) (hc : c.length = c'.length) (hn : n.length = n'.length)
    (h : authMsg c n t a = authMsg c' n' t' a') : c = c' ∧ n = n' ∧ t = t' ∧ a % 256 = a' % 256 := by
  unfold authMsg at h
  rw [List.append_assoc, List.append_assoc, List.append_assoc, List.append_assoc] at h
  obtain ⟨h1, h2⟩ := List.append_inj h hc
  obtain ⟨h3, h4⟩ := List.append_inj h2 hn
  have h5 := List.append_inj' h4 rfl
  refine ⟨h1, h3, h5.1, ?_⟩
  have := congrArg UInt8.toNat (List.cons.inj h5.2).1
  simpa [UInt8.toNat_ofNat'] using this

/-- **replay**: once the session's nonceTPM has changed, the HMAC input of an old authorization differs from the
    input the TPM now uses — for every cpHash, caller nonce and attributes -/
theorem stale_nonce_input_ne (cph nc old new : Bytes) (attrs : Nat) (hne : old ≠ new) :
    authMsg cph nc old attrs ≠ authMsg cph nc new attrs := by
  intro h
  exact hne (authMsg_inj cph cph nc nc old new attrs attrs rfl rfl h).2.2.1

/-! ### Bound sessions and auth-value changes -/

/-- a session is bound to an entity only through the authValue the entity had when the session started -/
theorem boundTo_auth (s : Session) (e : Entity) (h : boundTo s e = true) : s.bindAuth = e.auth ∧ s.bindName = e.name := by
  simp [boundTo] at h
  exact ⟨h.2, h.1.2⟩

/-- **after the authValue changes, a session bound under the old value is not bound any more**: the HMAC key contains the NEW authValue -/
theorem hmacKey_after_change (s : Session) (e : Entity) (newAuth : Bytes) (hne : s.bindAuth ≠ newAuth) :
    hmacKey s { e with auth := newAuth } = s.key ++ newAuth := by
  have : boundTo s { e with auth := newAuth } = false := by
    simp [boundTo]; intro _ _; exact hne
  simp [hmacKey, this]

theorem hmacKey_bound (s : Session) (e : Entity) (h : boundTo s e = true) : hmacKey s e = s.key := by
  simp [hmacKey, h]

theorem hmacKey_unbound (s : Session) (e : Entity) (h : s.bound = false) : hmacKey s e = s.key ++ e.auth := by
  simp [hmacKey, boundTo, h]

/-! ### Password normalisation -/

theorem dropWhile_zero_replicate (n : Nat) (l : Bytes) :
    (List.replicate n (0 : UInt8) ++ l).dropWhile (· == 0) = l.dropWhile (· == 0) := by
  induction n with
  | zero => simp
  | succ k ih => simp [List.replicate_succ, ih]

/-- trailing zeros never matter -/
theorem stripZeros_append_zeros (a : Bytes) (n : Nat) : stripZeros (a ++ List.replicate n 0) = stripZeros a := by
  unfold stripZeros
  rw [List.reverse_append, List.reverse_replicate, dropWhile_zero_replicate]

theorem stripZeros_idem (a : Bytes) : stripZeros (stripZeros a) = stripZeros a := by
  unfold stripZeros
  rw [List.reverse_reverse]
  congr 1
  generalize a.reverse = r
  induction r with
  | nil => rfl
  | cons x xs ih =>
    by_cases hx : (x == 0) = true
    · simp [hx, ih]
    · simp [hx]

/-! ### Parameter encryption -/

theorem xor_twice (x m : UInt8) : (x ^^^ m) ^^^ m = x := TpmVerif.Props.C13.xor_twice x m

/-- XOR obfuscation is its own inverse for every mask at least as long as the data -/
theorem xor_mask_involution : ∀ (d m : Bytes), d.length ≤ m.length →
    List.zipWith (· ^^^ ·) (List.zipWith (· ^^^ ·) d m) m = d := by
  intro d
  induction d with
  | nil => intro m _; simp
  | cons x xs ih =>
    intro m hl
    cases m with
    | nil => simp at hl
    | cons y ys =>
      simp only [List.zipWith_cons_cons, List.cons.injEq]
      exact ⟨xor_twice x y, ih ys (by simpa using hl)⟩

/-- hence decrypting what was XOR-encrypted under the same key and nonces gives the parameter back, whenever the KDFa
    mask covers the data (it is asked for data.length * 8 bits) -/
theorem paramCrypt_xor_roundtrip (key n1 n2 data : Bytes)
    (hm : data.length ≤ (kdfa sha256 key "XOR" n1 n2 (data.length * 8)).length) :
    paramCrypt 1 key n1 n2 (paramCrypt 1 key n1 n2 data true) false = data := by
  unfold paramCrypt
  simp only [if_true]
  have hl : (List.zipWith (· ^^^ ·) data (kdfa sha256 key "XOR" n1 n2 (data.length * 8))).length = data.length := by
    simp [List.length_zipWith]; omega
  rw [hl]
  exact xor_mask_involution data _ hm

/-- AES-CFB parameter encryption is inverted by decryption under the same key and nonces — for every block function
    with 16-byte output in place of AES (C13's `cfb_roundtrip`), every parameter length incl. partial blocks -/
theorem paramCrypt_cfb_roundtrip (key n1 n2 data : Bytes)
    (hE : ∀ x, (aesEncryptBlock ((kdfa sha256 key "CFB" n1 n2 256).take 16) x).length = 16) :
    paramCrypt 2 key n1 n2 (paramCrypt 2 key n1 n2 data true) false = data := by
  unfold paramCrypt
  simp only [show (2 : Nat) ≠ 1 from by decide, if_false, if_true]
  exact TpmVerif.Props.C13.cfb_roundtrip _ hE _ data

/-- without a symmetric algorithm the parameters pass unchanged -/
theorem paramCrypt_none (key n1 n2 data : Bytes) (e : Bool) : paramCrypt 0 key n1 n2 data e = data := by
  simp [paramCrypt]

/-- a session key exists only with a bind or a salt -/
theorem sessionKey_empty (nt nc : Bytes) : sessionKeyWith [] [] nt nc = [] := by simp [sessionKeyWith]

/-! ### Non-vacuity: a concrete state in which an authorization verifies, and corrupted variants do not -/
section example_state
def exEnt : Entity := { handle := 1, name := be32 0x40000001, auth := [0x6f, 0x77] }
def exSess : Session := { handle := 2, nonceTPM := List.replicate 32 7, key := [], bound := false, bindName := [], bindAuth := [] }
def exSt : St := { ents := [exEnt], sess := [exSess] }
def exCph : Bytes := cpHash 0x130 [exEnt.name] [0]
def exAuth : AuthIn := { sh := 2, nonce := List.replicate 32 9, attrs := 1, hmac := hmac sha256 (hmacKey exSess exEnt) (exCph ++ List.replicate 32 9 ++ exSess.nonceTPM ++ [UInt8.ofNat 1]) }
theorem ex_session : exSt.session exAuth.sh = some exSess := by simp [exSt, St.session, exSess, exAuth]
theorem ex_not_pw : exAuth.sh ≠ TPM_RS_PW := by simp [exAuth, TPM_RS_PW]
/-- the hypotheses of the theorems above are satisfiable: this authorization passes … -/
theorem ex_verifies : checkOne exSt exEnt 0x130 .user exCph exAuth = .pass :=
  checkOne_hmac_correct exSt exEnt 0x130 .user exCph exAuth exSess ex_not_pw ex_session rfl rfl rfl (by simp [exAuth])
/-- … and without a session the command is refused -/
example : authorize exSt { tag := 0x8001, cc := 0x130, handles := [1], auths := [], params := [0] } 0x210 = .authMissing :=
  missing_session _ _ _ (by decide)
end example_state

/-! ### Histories that change authorization values (HierarchyChangeAuth, ObjectChangeAuth, NV_ChangeAuth) -/

theorem find_map_setAuth (es : List Entity) (h k : Nat) (a : Bytes) :
    (es.map (fun e => if e.handle == h then { e with auth := stripZeros a } else e)).find? (·.handle == k) =
    (es.find? (·.handle == k)).map (fun e => if e.handle == h then { e with auth := stripZeros a } else e) := by
  rw [List.find?_map]
  have hp : ((fun (x : Entity) => x.handle == k) ∘ fun e => if e.handle == h then { e with auth := stripZeros a } else e) = (fun (x : Entity) => x.handle == k) := by
    funext e; simp only [Function.comp]; split <;> rfl
  rw [hp]

/-- **the changed entity carries the new value (trailing zeros removed), every other entity is untouched** -/
theorem setAuth_ent (st : St) (h : Nat) (a : Bytes) (k : Nat) :
    (st.setAuth h a).ent k = (st.ent k).map (fun e => if e.handle == h then { e with auth := stripZeros a } else e) := by
  unfold St.setAuth St.ent; exact find_map_setAuth st.ents h k a

theorem setAuth_other (st : St) (h k : Nat) (a : Bytes) (e : Entity) (hk : st.ent k = some e) (hne : k ≠ h) :
    (st.setAuth h a).ent k = some e := by
  have hh : e.handle = k := by
    unfold St.ent at hk; have := List.find?_some hk; simpa using this
  rw [setAuth_ent, hk]; simp [hh, hne]

theorem setAuth_changed (st : St) (h : Nat) (a : Bytes) (e : Entity) (hk : st.ent h = some e) :
    (st.setAuth h a).ent h = some { e with auth := stripZeros a } := by
  have hh : e.handle = h := by
    unfold St.ent at hk; have := List.find?_some hk; simpa using this
  rw [setAuth_ent, hk]; simp [hh]

/-- sessions are not touched by a change of an authorization value -/
theorem setAuth_sessions (st : St) (h : Nat) (a : Bytes) (sh : Nat) : (st.setAuth h a).session sh = st.session sh := rfl

/-- **after the change a password authorization passes only with the new value**: whatever else is in the authorization,
    a password that differs from the new value (modulo trailing zeros) — in particular the old value — is refused -/
theorem old_password_refused (st : St) (h : Nat) (newAuth : Bytes) (e : Entity) (cc : Nat) (r : Role) (cph : Bytes) (a : AuthIn)
    (hk : st.ent h = some e) (hpw : a.sh = TPM_RS_PW) (hne : stripZeros a.hmac ≠ stripZeros newAuth) :
    ∃ e', (st.setAuth h newAuth).ent h = some e' ∧ checkOne (st.setAuth h newAuth) e' cc r cph a ≠ .pass := by
  refine ⟨{ e with auth := stripZeros newAuth }, setAuth_changed st h newAuth e hk, ?_⟩
  intro hp
  exact hne (checkOne_pw _ _ cc r cph a hpw hp).1

/-- **an unbound HMAC session authorizes the changed entity under the new value**: the HMAC key is sessionKey ‖ newAuth -/
theorem hmacKey_after_setAuth (st : St) (h : Nat) (newAuth : Bytes) (e : Entity) (s : Session) (hk : st.ent h = some e)
    (hb : s.bound = false) :
    ∃ e', (st.setAuth h newAuth).ent h = some e' ∧ hmacKey s e' = s.key ++ stripZeros newAuth := by
  refine ⟨{ e with auth := stripZeros newAuth }, setAuth_changed st h newAuth e hk, ?_⟩
  exact hmacKey_unbound s _ hb

/-- non-vacuity: an entity with value "k1" changed to "c7": the old password no longer passes, the new one does -/
example :
    let st : St := { ents := [{ handle := 0x80000001, name := [0, 11], auth := [0x6b, 0x31], isObject := true }] }
    let st' := st.setAuth 0x80000001 [0x63, 0x37]
    (st'.ent 0x80000001).map (fun e => (checkOne st' e 0x155 .user [] { sh := TPM_RS_PW, nonce := [], attrs := 0, hmac := [0x6b, 0x31] },
                                        checkOne st' e 0x155 .user [] { sh := TPM_RS_PW, nonce := [], attrs := 0, hmac := [0x63, 0x37] }))
      = some (.failAuth, .pass) := by decide

/-! ### The assertions that only extend the policy digest -/

/-- what a digest-extending assertion does: policyDigest' = H(policyDigest ‖ commandCode ‖ args), always accepted, nothing else
    of the session moves (not the demanded authValue proof, not the fixed command code, not the PCR binding) -/
theorem policyAssert_effect (s : Session) (cc : Nat) (args : Bytes) :
    (policyStep s (.assert cc args)).2 = 0 ∧
    (policyStep s (.assert cc args)).1 = { s with pDigest := hash sha256 (s.pDigest ++ be32 cc ++ args) } := by
  simp [policyStep]

/-- `PolicyContextUpdate` (PolicySecret, PolicySigned): two hashes, the entity's Name in the first, the policyRef in the second -/
theorem policyUpdate_effect (s : Session) (cc : Nat) (name ref : Bytes) :
    (policyStep s (.update cc name ref)).2 = 0 ∧
    (policyStep s (.update cc name ref)).1.pDigest = hash sha256 (hash sha256 (s.pDigest ++ be32 cc ++ name) ++ ref) := by
  simp [policyStep]

theorem be32_length' (n : Nat) : (be32 n).length = 4 := rfl

/-- **the hashed input separates its parts**: for digests of equal length (they are all 32 bytes) the input
    policyDigest ‖ commandCode ‖ args determines the old digest, the command code (mod 2³²) and the arguments — two different
    assertions, or the same assertion on different digests, never feed the hash the same bytes -/
theorem policyInput_inj (old old' : Bytes) (cc cc' : Nat) (args args' : Bytes) (hl : old.length = old'.length)
    (h : old ++ be32 cc ++ args = old' ++ be32 cc' ++ args') : old = old' ∧ be32 cc = be32 cc' ∧ args = args' := by
  rw [List.append_assoc, List.append_assoc] at h
  have h1 := List.append_inj h hl
  have h2 := List.append_inj h1.2 (by simp [be32_length'])
  exact ⟨h1.1, h2.1, h2.2⟩

/-- a chain of assertions is the left fold of the single steps; every step succeeds (the digest after the chain is therefore
    a function of the start digest and the list of (commandCode, args) alone, in that order) -/
theorem policyChain_ok (s : Session) (ops : List (Nat × Bytes)) :
    (ops.foldl (fun st o => (policyStep st (.assert o.1 o.2)).1) s).pDigest =
      ops.foldl (fun d o => hash sha256 (d ++ be32 o.1 ++ o.2)) s.pDigest := by
  induction ops generalizing s with
  | nil => rfl
  | cons o os ih => simp only [List.foldl_cons]; rw [ih]; simp [policyStep]

example : (policyStep exSess (.assert 0x16F [1])).1.pDigest = hash sha256 (exSess.pDigest ++ be32 0x16F ++ [1]) := by simp [policyStep]

/-! ### What a policy restricts about the command it authorizes -/

/-- **PolicyLocality is enforced**: a policy session that carries a locality setting authorizes a command only when the
    command arrives at a locality the setting admits -/
theorem policy_locality_enforced (st : St) (e : Entity) (cc : Nat) (r : Role) (cph : Bytes) (a : AuthIn) (s : Session)
    (hpw : a.sh ≠ TPM_RS_PW) (hs : st.session a.sh = some s) (hp : s.policy = true) (hl : s.locality ≠ 0)
    (h : checkOne st e cc r cph a = .pass) : localityOk s.locality st.cmdLocality = true := by
  have hr := (checkOne_policy st e cc r cph a s hpw hs hp h).2.2.2.2.2.1
  unfold restrictions at hr
  by_cases hk : localityOk s.locality st.cmdLocality = true
  · exact hk
  · simp [hl, hk] at hr

/-- **PolicyPhysicalPresence is enforced** -/
theorem policy_pp_enforced (st : St) (e : Entity) (cc : Nat) (r : Role) (cph : Bytes) (a : AuthIn) (s : Session)
    (hpw : a.sh ≠ TPM_RS_PW) (hs : st.session a.sh = some s) (hp : s.policy = true) (hpp : s.ppRequired = true)
    (h : checkOne st e cc r cph a = .pass) : st.pp = true := by
  have hr := (checkOne_policy st e cc r cph a s hpw hs hp h).2.2.2.2.2.1
  unfold restrictions at hr
  by_cases hk : st.pp = true
  · exact hk
  · split at hr
    · exact Check.noConfusion hr
    · simp [hpp, hk] at hr

/-- **PolicyCpHash is enforced**: the session authorizes exactly the command (code, handle names, parameters) whose cpHash it carries -/
theorem policy_cpHash_enforced (st : St) (e : Entity) (cc : Nat) (r : Role) (cph : Bytes) (a : AuthIn) (s : Session)
    (hpw : a.sh ≠ TPM_RS_PW) (hs : st.session a.sh = some s) (hp : s.policy = true) (hc : s.cpHash ≠ [])
    (h : checkOne st e cc r cph a = .pass) : s.cpHash = cph := by
  have hr := (checkOne_policy st e cc r cph a s hpw hs hp h).2.2.2.2.2.1
  unfold restrictions at hr
  by_cases hk : s.cpHash = cph
  · exact hk
  · split at hr
    · exact Check.noConfusion hr
    · split at hr
      · exact Check.noConfusion hr
      · simp [hc, hk] at hr

/-- PolicyLocality only narrows: whatever an accepted PolicyLocality leaves admitted at the localities 0–4 was admitted by the
    setting before it and is admitted by the new argument (checked for every bit-map setting and every argument below 64, which includes the extended localities 32…63) -/
theorem localityMerge_narrows : ∀ prev, prev < 32 → ∀ loc, loc < 64 → ∀ l, l < 5 →
    (localityMerge prev loc).all (fun m => !localityOk m l || ((prev == 0 || localityOk prev l) && localityOk loc l)) = true := by
  decide +kernel

/-- a refused PolicyLocality (zero, no locality left, bit map against extended) and an accepted one, concretely -/
example : localityMerge 0 0 = none ∧ localityMerge 0b00110 0b01000 = none ∧ localityMerge 0b00110 40 = none ∧
    localityMerge 0b00110 0b00011 = some 0b00010 ∧ localityMerge 0 40 = some 40 ∧ localityMerge 40 41 = none := by decide

end TpmVerif.Props.C04
