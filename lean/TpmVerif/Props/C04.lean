import TpmVerif.Model.Auth
/-!
  C04 — authorization is enforced. Theorems about `Model.Auth` (the decision of `SessionProcess.c` on the wire level).
  What cannot be a theorem: that HMAC-SHA256 has no collisions/forgeries. The theorems therefore state (a) the decision
  logic outright — a command runs only if EVERY required authorization verifies against the entity's current secret,
  the current nonceTPM, and a cpHash over exactly the bytes received — and (b) that the HMAC *input* is injective in
  every protected field, so any single-field change changes what is HMACed.
-/
namespace TpmVerif.Props.C04
open TpmVerif TpmVerif.Crypto TpmVerif.Model.Auth

/-! ### Decision logic -/

/-- **a command is authorized only if every handle that needs an authorization has one that verifies** -/
theorem checkFrom_ok (st : St) (cph : Bytes) : ∀ (hs : List Nat) (as : List AuthIn) (i : Nat),
    checkFrom st cph hs as i = .ok →
    hs.length ≤ as.length ∧ ∀ k, k < hs.length → ∃ e a, st.ent (hs.getD k 0) = some e ∧ as[k]? = some a ∧ checkOne st e cph a = true := by
  intro hs
  induction hs with
  | nil => intro as i _; exact ⟨Nat.zero_le _, fun k hk => absurd hk (Nat.not_lt_zero _)⟩
  | cons h hs ih =>
    intro as i hok
    cases as with
    | nil => simp [checkFrom] at hok
    | cons a as =>
      simp only [checkFrom] at hok
      cases he : st.ent h with
      | none => simp [he] at hok
      | some e =>
        simp only [he] at hok
        by_cases hc : checkOne st e cph a = true
        · simp only [hc, if_true] at hok
          obtain ⟨hl, hall⟩ := ih as (i + 1) hok
          refine ⟨by simp; omega, ?_⟩
          intro k hk
          cases k with
          | zero => exact ⟨e, a, by simpa using he, by simp, hc⟩
          | succ k =>
            obtain ⟨e', a', h1, h2, h3⟩ := hall k (by simpa using hk)
            exact ⟨e', a', by simpa using h1, by simpa using h2, h3⟩
        · simp [hc] at hok

/-- the whole decision: `ok` implies enough sessions and every required one verifies against the cpHash of the bytes received -/
theorem authorize_ok (st : St) (c : Cmd) (attr : Nat) (h : authorize st c attr = .ok) :
    requiredAuths attr ≤ c.auths.length ∧
    ∀ k, k < (c.handles.take (requiredAuths attr)).length →
      ∃ e a, st.ent ((c.handles.take (requiredAuths attr)).getD k 0) = some e ∧ c.auths[k]? = some a ∧
        checkOne st e (cpHash c.cc (c.handles.map (fun h => ((st.ent h).map (·.name)).getD (be32 h))) c.params) a = true := by
  unfold authorize at h
  simp only at h
  by_cases hl : c.auths.length < requiredAuths attr
  · simp [hl] at h
  · simp only [hl, if_false] at h
    exact ⟨Nat.le_of_not_lt hl, (checkFrom_ok st _ _ _ 0 h).2⟩

/-- **a missing session is an authorization error**, whatever the sessions that are present contain -/
theorem missing_session (st : St) (c : Cmd) (attr : Nat) (h : c.auths.length < requiredAuths attr) :
    authorize st c attr = .authMissing := by
  unfold authorize; simp [h]

/-- a failing first authorization stops the command, whatever follows -/
theorem first_fail (st : St) (cph : Bytes) (h : Nat) (hs : List Nat) (a : AuthIn) (as : List AuthIn) (e : Entity)
    (he : st.ent h = some e) (hc : checkOne st e cph a = false) : checkFrom st cph (h :: hs) (a :: as) 0 = .authFail 0 := by
  simp [checkFrom, he, hc]

/-- **HMAC session: accepted iff the HMAC equals the reference value** over cpHash, the caller's nonce, the session's
    CURRENT nonceTPM and the attributes, keyed with sessionKey ‖ authValue (authValue left out iff bound to this entity now) -/
theorem checkOne_hmac_iff (st : St) (e : Entity) (cph : Bytes) (a : AuthIn) (s : Session)
    (hpw : a.sh ≠ TPM_RS_PW) (hs : st.session a.sh = some s) :
    checkOne st e cph a = true ↔
      a.hmac = hmac sha256 (s.key ++ (if boundTo s e then [] else e.auth)) (cph ++ a.nonce ++ s.nonceTPM ++ [UInt8.ofNat a.attrs]) := by
  simp [checkOne, hpw, hs, expectedHmac, hmacKey, authMsg]

/-- a session handle the TPM does not know never authorizes -/
theorem checkOne_unknown_session (st : St) (e : Entity) (cph : Bytes) (a : AuthIn)
    (hpw : a.sh ≠ TPM_RS_PW) (hs : st.session a.sh = none) : checkOne st e cph a = false := by
  simp [checkOne, hpw, hs]

/-- **password: accepted iff equal to the stored value after removing trailing zeros** -/
theorem checkOne_pw_iff (st : St) (e : Entity) (cph : Bytes) (a : AuthIn) (hpw : a.sh = TPM_RS_PW) :
    checkOne st e cph a = true ↔ stripZeros a.hmac = e.auth := by
  simp [checkOne, hpw]

/-! ### What the HMAC covers: injectivity of the HMAC input -/

theorem be32_inj (n m : Nat) (h : be32 n = be32 m) : n % 4294967296 = m % 4294967296 := by
  simp only [be32, List.cons.injEq, and_true] at h
  obtain ⟨h1, h2, h3, h4⟩ := h
  have e1 := congrArg UInt8.toNat h1
  have e2 := congrArg UInt8.toNat h2
  have e3 := congrArg UInt8.toNat h3
  have e4 := congrArg UInt8.toNat h4
  simp only [UInt8.toNat_ofNat', Nat.reducePow] at e1 e2 e3 e4
  omega

/-- the cpHash input determines the command code and every byte of the names and parameters -/
theorem cpInput_inj (cc cc' : Nat) (names names' : List Bytes) (p p' : Bytes)
    (h : cpInput cc names p = cpInput cc' names' p') :
    cc % 4294967296 = cc' % 4294967296 ∧ names.flatten ++ p = names'.flatten ++ p' := by
  unfold cpInput at h
  rw [List.append_assoc, List.append_assoc] at h
  have := List.append_inj h (by simp [be32_length])
  exact ⟨be32_inj _ _ this.1, this.2⟩

/-- with names of the same lengths (names of the same kind of entity), a changed name or parameter changes the cpHash input -/
theorem cpInput_inj_names (cc : Nat) (n1 n1' : Bytes) (p p' : Bytes) (hl : n1.length = n1'.length)
    (h : cpInput cc [n1] p = cpInput cc [n1'] p') : n1 = n1' ∧ p = p' := by
  have := (cpInput_inj cc cc [n1] [n1'] p p' h).2
  simp only [List.flatten_cons, List.flatten_nil, List.append_nil] at this
  exact List.append_inj this hl

/-- the HMAC input determines cpHash, both nonces and the attribute byte (fixed digest/nonce sizes) -/
theorem authMsg_inj (c c' n n' t t' : Bytes) (a a' : Nat) (hc : c.length = c'.length) (hn : n.length = n'.length)
    (h : authMsg c n t a = authMsg c' n' t' a') : c = c' ∧ n = n' ∧ t = t' ∧ a % 256 = a' % 256 := by
  unfold authMsg at h
  rw [List.append_assoc, List.append_assoc, List.append_assoc, List.append_assoc] at h
  obtain ⟨h1, h2⟩ := List.append_inj h hc
  obtain ⟨h3, h4⟩ := List.append_inj h2 hn
  have h5 := List.append_inj' h4 rfl
  refine ⟨h1, h3, h5.1, ?_⟩
  have := congrArg UInt8.toNat (List.cons.inj h5.2).1
  simpa [UInt8.toNat_ofNat'] using this

/-- **replay**: once the session's nonceTPM has changed, the HMAC input of an old authorization differs from the
    input the TPM now uses — for every cpHash, caller nonce and attributes -/
theorem stale_nonce_input_ne (cph nc old new : Bytes) (attrs : Nat) (hne : old ≠ new) :
    authMsg cph nc old attrs ≠ authMsg cph nc new attrs := by
  intro h
  exact hne (authMsg_inj cph cph nc nc old new attrs attrs rfl rfl h).2.2.1

/-! ### Bound sessions and auth-value changes -/

/-- a session is bound to an entity only through the authValue the entity had when the session started -/
theorem boundTo_auth (s : Session) (e : Entity) (h : boundTo s e = true) : s.bindAuth = e.auth ∧ s.bindName = e.name := by
  simp [boundTo] at h
  exact ⟨h.2, h.1.2⟩

/-- **after the authValue changes, a session bound under the old value is not bound any more**: the HMAC key contains the NEW authValue -/
theorem hmacKey_after_change (s : Session) (e : Entity) (newAuth : Bytes) (hne : s.bindAuth ≠ newAuth) :
    hmacKey s { e with auth := newAuth } = s.key ++ newAuth := by
  have : boundTo s { e with auth := newAuth } = false := by
    simp [boundTo]; intro _ _; exact hne
  simp [hmacKey, this]

theorem hmacKey_bound (s : Session) (e : Entity) (h : boundTo s e = true) : hmacKey s e = s.key := by
  simp [hmacKey, h]

theorem hmacKey_unbound (s : Session) (e : Entity) (h : s.bound = false) : hmacKey s e = s.key ++ e.auth := by
  simp [hmacKey, boundTo, h]

/-! ### Password normalisation -/

theorem dropWhile_zero_replicate (n : Nat) (l : Bytes) :
    (List.replicate n (0 : UInt8) ++ l).dropWhile (· == 0) = l.dropWhile (· == 0) := by
  induction n with
  | zero => simp
  | succ k ih => simp [List.replicate_succ, ih]

/-- trailing zeros never matter -/
theorem stripZeros_append_zeros (a : Bytes) (n : Nat) : stripZeros (a ++ List.replicate n 0) = stripZeros a := by
  unfold stripZeros
  rw [List.reverse_append, List.reverse_replicate, dropWhile_zero_replicate]

theorem stripZeros_idem (a : Bytes) : stripZeros (stripZeros a) = stripZeros a := by
  unfold stripZeros
  rw [List.reverse_reverse]
  congr 1
  generalize a.reverse = r
  induction r with
  | nil => rfl
  | cons x xs ih =>
    by_cases hx : (x == 0) = true
    · simp [hx, ih]
    · simp [hx]

/-! ### Non-vacuity: a concrete state in which an authorization verifies, and corrupted variants do not -/
section example_state
def exEnt : Entity := { handle := 1, name := be32 0x40000001, auth := [0x6f, 0x77] }
def exSess : Session := { handle := 2, nonceTPM := List.replicate 32 7, key := [], bound := false, bindName := [], bindAuth := [] }
def exSt : St := { ents := [exEnt], sess := [exSess] }
def exCph : Bytes := cpHash 0x130 [exEnt.name] [0]
def exAuth : AuthIn := { sh := 2, nonce := List.replicate 32 9, attrs := 1, hmac := expectedHmac exSess exEnt exCph { sh := 2, nonce := List.replicate 32 9, attrs := 1, hmac := [] } }
theorem ex_session : exSt.session exAuth.sh = some exSess := by simp [exSt, St.session, exSess, exAuth]
theorem ex_not_pw : exAuth.sh ≠ TPM_RS_PW := by simp [exAuth, TPM_RS_PW]
/-- the hypotheses of the theorems above are satisfiable: this authorization verifies … -/
theorem ex_verifies : checkOne exSt exEnt exCph exAuth = true :=
  (checkOne_hmac_iff exSt exEnt exCph exAuth exSess ex_not_pw ex_session).mpr (by simp [exAuth, expectedHmac, hmacKey, authMsg])
/-- … the command it authorizes is accepted … -/
example : checkFrom exSt exCph [exEnt.handle] [exAuth] 0 = .ok := by
  have he : exSt.ent exEnt.handle = some exEnt := by simp [exSt, St.ent, exEnt]
  simp [checkFrom, he, ex_verifies]
/-- … and without a session it is refused -/
example : authorize exSt { tag := 0x8001, cc := 0x130, handles := [1], auths := [], params := [0] } 0x210 = .authMissing :=
  missing_session _ _ _ (by decide)
end example_state

end TpmVerif.Props.C04
