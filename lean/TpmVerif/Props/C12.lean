import TpmVerif.Model.Objects
/-!
  C12 — keys derive only from seed and template; objects stay bound and reclaimable. Theorems about the seed/slot/
  persistence bookkeeping of `Model.Objects`; the derivation function itself is exercised by the correspondence
  (same key ⇒ same Name and public area, different seed generation ⇒ different ones; Names recomputed in Lean).
-/
namespace TpmVerif.Props.C12
open TpmVerif TpmVerif.Model.Objects

/-- an event that does not replace a hierarchy's seed leaves the identity of every primary of that hierarchy alone -/
theorem key_stable (s : St) (op : Op) (h : Hier) (y : Bool) (t : Bytes) (hr : replaces op h y = false) : keyOf (step s op) h y t = keyOf s h y t := by
  simp [keyOf, step, hr]

/-- **the same template in the same hierarchy is the same primary over any history that does not replace that seed** -/
theorem same_until_replaced (h : Hier) (y : Bool) (t : Bytes) : ∀ (ops : List Op) (s : St), (∀ op ∈ ops, replaces op h y = false) →
    keyOf (ops.foldl step s) h y t = keyOf s h y t := by
  intro ops
  induction ops with
  | nil => intro s _; rfl
  | cons op rest ih =>
    intro s hall
    simp only [List.foldl]
    rw [ih (step s op) (fun o ho => hall o (by simp [ho])), key_stable s op h y t (hall op (by simp))]

/-- **replacing the seed makes it a different primary**, and it never becomes the old one again -/
theorem replaced_differs (s : St) (op : Op) (h : Hier) (y : Bool) (t : Bytes) (hr : replaces op h y = true) : keyOf (step s op) h y t ≠ keyOf s h y t := by
  intro he
  have : (keyOf (step s op) h y t).gen = (keyOf s h y t).gen := by rw [he]
  simp [keyOf, step, hr] at this

theorem gen_monotone (s : St) (op : Op) (h : Hier) (y : Bool) : s.gen h y ≤ (step s op).gen h y := by
  simp only [step]; split <;> omega

theorem gen_monotone_history (h : Hier) (y : Bool) : ∀ (ops : List Op) (s : St), s.gen h y ≤ (ops.foldl step s).gen h y := by
  intro ops
  induction ops with
  | nil => intro s; exact Nat.le_refl _
  | cons op rest ih => intro s; exact Nat.le_trans (gen_monotone s op h y) (ih (step s op))

/-- once replaced, never again the same: after a replacing event followed by any history the key differs from before -/
theorem never_returns (s : St) (op : Op) (h : Hier) (y : Bool) (t : Bytes) (ops : List Op) (hr : replaces op h y = true) :
    keyOf (ops.foldl step (step s op)) h y t ≠ keyOf s h y t := by
  intro he
  have h1 : (keyOf (ops.foldl step (step s op)) h y t).gen = s.gen h y := by rw [he]; rfl
  have h2 := gen_monotone_history h y ops (step s op)
  have h3 : (step s op).gen h y = s.gen h y + 1 := by simp [step, hr]
  simp only [keyOf] at h1
  omega

/-- which events replace what a primary derives from — exactly these: TPM2_Clear for the owner hierarchy and (through
    the proofs) for symmetric endorsement primaries, ChangeEPS, ChangePPS, and a TPM Reset for the null hierarchy -/
theorem replaces_table (op : Op) (h : Hier) (y : Bool) : replaces op h y = true ↔
    (op = .clear ∧ h = .owner) ∨ (op = .clear ∧ h = .endorsement ∧ y = true) ∨ (op = .changeEPS ∧ h = .endorsement) ∨
    (op = .changePPS ∧ h = .platform) ∨ (op = .startupReset ∧ h = .null) := by
  cases op <;> cases h <;> cases y <;> simp [replaces]

/-- restarts other than TPM Reset, and suspend/resume, replace nothing; an asymmetric endorsement primary (the EK) survives TPM2_Clear -/
theorem restarts_keep_seeds (h : Hier) (y : Bool) :
    replaces .startupRestart h y = false ∧ replaces .startupResume h y = false ∧ replaces .suspendResume h y = false ∧ replaces .other h y = false := by
  cases h <;> cases y <;> simp [replaces]
theorem ek_survives_clear : replaces .clear .endorsement false = false := rfl

/-- primaries of different hierarchies or templates are different objects -/
theorem key_inj (s : St) (h h' : Hier) (y y' : Bool) (t t' : Bytes) (he : keyOf s h y t = keyOf s h' y' t') : h = h' ∧ t = t' := by
  simp [keyOf] at he; exact ⟨he.1, he.2.2.2⟩

/-! ### Transient slots -/

/-- **every slot is reclaimable**: after flushing as many objects as were loaded, the full number can be loaded again -/
theorem flush_load (s : St) (h : 0 < s.used) (hm : s.used ≤ Gen.MAX_LOADED_OBJECTS) : (load (flush s)).2 = true := by
  simp only [load, flush]
  have : s.used - 1 < Gen.MAX_LOADED_OBJECTS := by omega
  simp [this]

theorem load_used (s : St) (h : s.used < Gen.MAX_LOADED_OBJECTS) : (load s).1.used = s.used + 1 ∧ (load s).2 = true := by
  simp [load, h]

theorem loads_until_full : ∀ (n : Nat) (s : St), s.used + n ≤ Gen.MAX_LOADED_OBJECTS →
    ((List.range n).foldl (fun s _ => (load s).1) s).used = s.used + n := by
  intro n
  induction n with
  | zero => intro s _; simp
  | succ k ih =>
    intro s hk
    rw [List.range_succ, List.foldl_append]
    simp only [List.foldl]
    generalize hs' : (List.range k).foldl (fun s _ => (load s).1) s = s'
    have hu : s'.used = s.used + k := by rw [← hs']; exact ih s (by omega)
    rw [(load_used s' (by omega)).1, hu]; omega

theorem full_refuses (s : St) (h : s.used = Gen.MAX_LOADED_OBJECTS) : (load s).2 = false := by simp [load, h]

/-- a Startup empties the transient slots -/
theorem startup_frees (s : St) : (step s .startupReset).used = 0 ∧ (step s .startupRestart).used = 0 ∧ (step s .startupResume).used = 0 := by
  simp [step]

/-! ### Persistent objects -/

/-- **a persistent object stays until it is evicted or its hierarchy is cleared** -/
theorem persistent_survives (s : St) (op : Op) (handle : Nat) (h : Hier) (name : Bytes)
    (hm : (handle, h, name) ∈ s.persistent) (hf : flushes op h = false) : (handle, h, name) ∈ (step s op).persistent := by
  simp only [step]
  exact List.mem_filter.mpr ⟨hm, by simp [hf]⟩

theorem persistent_cleared (s : St) (op : Op) (handle : Nat) (h : Hier) (name : Bytes) (hf : flushes op h = true) :
    (handle, h, name) ∉ (step s op).persistent := by
  simp only [step]
  intro hm
  have := (List.mem_filter.mp hm).2
  simp [hf] at this

/-- restarts of every kind and suspend/resume remove no persistent object -/
theorem restarts_keep_persistent (h : Hier) :
    flushes .startupReset h = false ∧ flushes .startupRestart h = false ∧ flushes .startupResume h = false ∧ flushes .suspendResume h = false := by
  cases h <;> simp [flushes]

theorem evict_off_gone (s : St) (handle : Nat) : persistentName (evictOff s handle) handle = none := by
  simp only [persistentName, evictOff]
  have : (s.persistent.filter (·.1 ≠ handle)).find? (·.1 == handle) = none := by
    rw [List.find?_eq_none]
    intro x hx
    have := (List.mem_filter.mp hx).2
    simpa using this
  rw [this]; rfl

theorem evict_on_found (s : St) (handle : Nat) (h : Hier) (name : Bytes) : persistentName (evictOn s handle h name) handle = some name := by
  simp [persistentName, evictOn]

/-! ### whole histories -/

/-- a persistent object stays over ANY history in which no event clears its hierarchy -/
theorem persistent_survives_history (handle : Nat) (h : Hier) (name : Bytes) : ∀ (ops : List Op) (s : St),
    (handle, h, name) ∈ s.persistent → (∀ op ∈ ops, flushes op h = false) → (handle, h, name) ∈ (ops.foldl step s).persistent := by
  intro ops
  induction ops with
  | nil => intro s hm _; exact hm
  | cons op rest ih =>
    intro s hm hall
    simp only [List.foldl]
    exact ih (step s op) (persistent_survives s op handle h name hm (hall op (by simp))) (fun o ho => hall o (by simp [ho]))

/-- once its hierarchy was cleared, no later history brings the object back (only EvictControl adds) -/
theorem persistent_cleared_history (handle : Nat) (h : Hier) (name : Bytes) : ∀ (ops : List Op) (s : St),
    (handle, h, name) ∉ s.persistent → (handle, h, name) ∉ (ops.foldl step s).persistent := by
  intro ops
  induction ops with
  | nil => intro s hm; exact hm
  | cons op rest ih =>
    intro s hm
    simp only [List.foldl]
    refine ih (step s op) ?_
    intro hmem
    simp only [step] at hmem
    exact hm (List.mem_filter.mp hmem).1

/-- the slot counter never exceeds the advertised number, whatever is loaded, flushed or happens otherwise -/
theorem used_bounded_load (s : St) (h : s.used ≤ Gen.MAX_LOADED_OBJECTS) : (load s).1.used ≤ Gen.MAX_LOADED_OBJECTS := by
  simp only [load]; split <;> simp <;> omega
theorem used_bounded_flush (s : St) (h : s.used ≤ Gen.MAX_LOADED_OBJECTS) : (flush s).used ≤ Gen.MAX_LOADED_OBJECTS := by
  simp only [flush]; omega
theorem used_bounded_step (s : St) (op : Op) (h : s.used ≤ Gen.MAX_LOADED_OBJECTS) : (step s op).used ≤ Gen.MAX_LOADED_OBJECTS := by
  cases op <;> simp [step] <;> omega

theorem flushes_empty : ∀ (n : Nat) (s : St), ((List.range n).foldl (fun s _ => flush s) s).used = s.used - n := by
  intro n
  induction n with
  | zero => intro s; simp
  | succ k ih =>
    intro s
    rw [List.range_succ, List.foldl_append]
    simp only [List.foldl]
    generalize hs' : (List.range k).foldl (fun s _ => flush s) s = s'
    have hu : s'.used = s.used - k := by rw [← hs']; exact ih s
    simp only [flush, hu]; omega

/-- **after flushing all handles the advertised number of objects can be loaded again**: from ANY occupancy, flushing
    every loaded object and then loading `MAX_LOADED_OBJECTS` times fills exactly all slots, and each of those loads
    succeeds (`load_used`), the next one is refused (`full_refuses`) -/
theorem flush_all_reload_all (s : St) :
    ((List.range Gen.MAX_LOADED_OBJECTS).foldl (fun s _ => (load s).1)
      ((List.range s.used).foldl (fun s _ => flush s) s)).used = Gen.MAX_LOADED_OBJECTS := by
  have h0 := flushes_empty s.used s
  have := loads_until_full Gen.MAX_LOADED_OBJECTS ((List.range s.used).foldl (fun s _ => flush s) s) (by rw [h0]; omega)
  rw [this, h0]; omega

/-- evicting one handle does not disturb another -/
theorem evict_off_other (s : St) (handle other : Nat) (hne : other ≠ handle) :
    persistentName (evictOff s handle) other = persistentName s other := by
  simp only [persistentName, evictOff]
  congr 1
  rw [List.find?_filter]
  congr 1
  funext x
  by_cases hxo : x.1 = other
  · simp [hxo, hne]
  · simp [hxo]

example : (load ((List.range 2).foldl (fun s _ => flush s) ({ used := 2 } : St))).2 = true := by decide
example : (step (evictOn {} 0x81000001 .platform [1]) .clear).persistent = [(0x81000001, .platform, [1])] := by decide

end TpmVerif.Props.C12
