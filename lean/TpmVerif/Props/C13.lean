import TpmVerif.Crypto.Sha
import TpmVerif.Crypto.Aes
import TpmVerif.Crypto.Asym
/-!
  C13 — digests of sequences equal the one-shot hash for every chunking; known-answer tests tie the Lean
  reference functions to the standards (labelled as tests: they are finite).
-/
namespace TpmVerif.Props.C13
open TpmVerif TpmVerif.Crypto

variable (a : Alg)

theorem absorb_succ (h : a.S) (bs : Bytes) (n : Nat) :
    absorb a h bs (n + 1) = if bs.length < a.block then (h, bs)
      else absorb a (a.compress h (bs.take a.block)) (bs.drop a.block) n := rfl

/-- with enough fuel, one more unit of fuel changes nothing -/
theorem absorb_fuel_succ (hb : 0 < a.block) : ∀ (fuel : Nat) (h : a.S) (bs : Bytes),
    bs.length / a.block < fuel → absorb a h bs (fuel + 1) = absorb a h bs fuel := by
  intro fuel
  induction fuel with
  | zero => intro h bs hlt; exact absurd hlt (Nat.not_lt_zero _)
  | succ n ih =>
    intro h bs hlt
    rw [absorb_succ a h bs (n + 1), absorb_succ a h bs n]
    by_cases hs : bs.length < a.block
    · simp [hs]
    · simp only [hs, if_false]
      apply ih
      have hge : a.block ≤ bs.length := Nat.le_of_not_lt hs
      rw [List.length_drop]
      have : (bs.length - a.block) / a.block = bs.length / a.block - 1 := by
        have := Nat.sub_mul_div bs.length a.block 1
        simpa using this
      have hpos : 0 < bs.length / a.block := Nat.div_pos hge hb
      omega

/-- any sufficient amount of fuel gives the same result -/
theorem absorb_fuel_irrel (hb : 0 < a.block) (h : a.S) (bs : Bytes) (k : Nat) :
    absorb a h bs (bs.length / a.block + 1 + k) = absorb a h bs (bs.length / a.block + 1) := by
  induction k with
  | zero => rfl
  | succ n ih =>
    rw [← ih, ← Nat.add_assoc]
    exact absorb_fuel_succ a hb _ h bs (by omega)

/-- absorbing with full fuel -/
def absorbFull (h : a.S) (bs : Bytes) : a.S × Bytes := absorb a h bs (bs.length / a.block + 1)

theorem absorb_ge (hb : 0 < a.block) (h : a.S) (bs : Bytes) (fuel : Nat) (hf : bs.length / a.block + 1 ≤ fuel) :
    absorb a h bs fuel = absorbFull a h bs := by
  obtain ⟨k, rfl⟩ := Nat.exists_eq_add_of_le hf
  exact absorb_fuel_irrel a hb h bs k

theorem absorbFull_short (h : a.S) (bs : Bytes) (hs : bs.length < a.block) : absorbFull a h bs = (h, bs) := by
  unfold absorbFull; rw [absorb_succ]; simp [hs]

theorem absorbFull_step (hb : 0 < a.block) (h : a.S) (bs : Bytes) (hs : ¬ bs.length < a.block) :
    absorbFull a h bs = absorbFull a (a.compress h (bs.take a.block)) (bs.drop a.block) := by
  unfold absorbFull
  rw [absorb_succ]
  simp only [hs, if_false]
  apply absorb_ge a hb
  rw [List.length_drop]
  have hge : a.block ≤ bs.length := Nat.le_of_not_lt hs
  have : (bs.length - a.block) / a.block = bs.length / a.block - 1 := by
    have := Nat.sub_mul_div bs.length a.block 1
    simpa using this
  have hpos : 0 < bs.length / a.block := Nat.div_pos hge hb
  omega

/-- **absorbing a concatenation = absorbing the first part, then the leftover followed by the second part** -/
theorem absorbFull_append (hb : 0 < a.block) : ∀ (n : Nat) (h : a.S) (xs ys : Bytes), xs.length ≤ n →
    absorbFull a h (xs ++ ys) = absorbFull a (absorbFull a h xs).1 ((absorbFull a h xs).2 ++ ys) := by
  intro n
  induction n with
  | zero =>
    intro h xs ys hl
    have : xs = [] := List.eq_nil_of_length_eq_zero (by omega)
    subst this
    rw [absorbFull_short a h [] (by simpa using hb)]
  | succ k ih =>
    intro h xs ys hl
    by_cases hs : xs.length < a.block
    · rw [absorbFull_short a h xs hs]
    · have hge : a.block ≤ xs.length := Nat.le_of_not_lt hs
      have hs2 : ¬ (xs ++ ys).length < a.block := by simp; omega
      rw [absorbFull_step a hb h (xs ++ ys) hs2, absorbFull_step a hb h xs hs]
      rw [List.take_append_of_le_length hge, List.drop_append_of_le_length hge]
      apply ih
      rw [List.length_drop]; omega

/-- after a full absorb less than one block is left over -/
theorem absorbFull_buf_short (hb : 0 < a.block) (h : a.S) (bs : Bytes) : (absorbFull a h bs).2.length < a.block := by
  suffices key : ∀ (n : Nat) (h : a.S) (bs : Bytes), bs.length ≤ n → (absorbFull a h bs).2.length < a.block from key _ h bs (Nat.le_refl _)
  intro n
  induction n with
  | zero =>
    intro h bs hl
    have : bs = [] := List.eq_nil_of_length_eq_zero (by omega)
    subst this
    rw [absorbFull_short a h [] (by simpa using hb)]; simpa using hb
  | succ k ih =>
    intro h bs hl
    by_cases hs : bs.length < a.block
    · rw [absorbFull_short a h bs hs]; exact hs
    · rw [absorbFull_step a hb h bs hs]
      apply ih
      rw [List.length_drop]; have := Nat.le_of_not_lt hs; omega

/-- **two updates = one update with the concatenation** (the heart of "every chunking gives the same digest") -/
theorem update_append (hb : 0 < a.block) (s : HState a) (m1 m2 : Bytes) :
    update a (update a s m1) m2 = update a s (m1 ++ m2) := by
  unfold update
  simp only
  have e1 : ∀ (h : a.S) (bs : Bytes), absorb a h bs (bs.length / a.block + 1) = absorbFull a h bs := fun _ _ => rfl
  rw [e1, e1, e1]
  have := absorbFull_append a hb _ s.h (s.buf ++ m1) m2 (Nat.le_refl _)
  rw [List.append_assoc] at this
  rw [this]
  simp [Nat.add_assoc]

/-- updating with nothing changes nothing that matters (buffer re-absorbed: it is shorter than a block) -/
theorem update_nil (_hb : 0 < a.block) (s : HState a) (hbuf : s.buf.length < a.block) : update a s [] = s := by
  unfold update
  simp only [List.append_nil]
  have e1 : absorb a s.h s.buf (s.buf.length / a.block + 1) = absorbFull a s.h s.buf := rfl
  rw [e1, absorbFull_short a s.h s.buf hbuf]
  simp

/-- **streaming = one-shot, for every message and every partition into updates** -/
theorem stream_eq_oneshot (hb : 0 < a.block) (chunks : List Bytes) :
    final a (chunks.foldl (update a) (hinit a)) = Crypto.hash a chunks.flatten := by
  unfold Crypto.hash
  congr 1
  have key : ∀ (cs : List Bytes) (s : HState a), s.buf.length < a.block → cs.foldl (update a) s = update a s cs.flatten := by
    intro cs
    induction cs with
    | nil => intro s hs; simp [update_nil a hb s hs]
    | cons c rest ih =>
      intro s hs
      simp only [List.foldl, List.flatten_cons]
      have hs' : (update a s c).buf.length < a.block := by
        unfold update
        simp only
        have e1 : absorb a s.h (s.buf ++ c) ((s.buf ++ c).length / a.block + 1) = absorbFull a s.h (s.buf ++ c) := rfl
        rw [e1]
        exact absorbFull_buf_short a hb _ _
      rw [ih _ hs', update_append a hb]
  exact key chunks (hinit a) (by simpa [hinit] using hb)

/-- ... in particular for the four TPM hash algorithms -/
theorem stream_eq_oneshot_sha1 (chunks : List Bytes) : final sha1 (chunks.foldl (update sha1) (hinit sha1)) = Crypto.hash sha1 chunks.flatten :=
  stream_eq_oneshot sha1 (by decide) chunks
theorem stream_eq_oneshot_sha256 (chunks : List Bytes) : final sha256 (chunks.foldl (update sha256) (hinit sha256)) = Crypto.hash sha256 chunks.flatten :=
  stream_eq_oneshot sha256 (by decide) chunks
theorem stream_eq_oneshot_sha384 (chunks : List Bytes) : final sha384 (chunks.foldl (update sha384) (hinit sha384)) = Crypto.hash sha384 chunks.flatten :=
  stream_eq_oneshot sha384 (by decide) chunks
theorem stream_eq_oneshot_sha512 (chunks : List Bytes) : final sha512 (chunks.foldl (update sha512) (hinit sha512)) = Crypto.hash sha512 chunks.flatten :=
  stream_eq_oneshot sha512 (by decide) chunks

/-- **a sequence may be split at any update boundary** (the state saved in a context or a state blob is the `HState`;
    restoring it and continuing gives the digest of the uninterrupted sequence) -/
theorem split_anywhere (hb : 0 < a.block) (before after : List Bytes) :
    final a (after.foldl (update a) (before.foldl (update a) (hinit a))) = Crypto.hash a (before ++ after).flatten := by
  rw [← List.foldl_append]; exact stream_eq_oneshot a hb (before ++ after)

/-- HMAC over a chunked message: inner hash streamed, same result (HMAC_Start / SequenceUpdate / SequenceComplete) -/
theorem hmac_stream (hb : 0 < a.block) (key : Bytes) (chunks : List Bytes) :
    let k := if key.length > a.block then Crypto.hash a key else key
    Crypto.hash a (xorPad k a.block 0x5c ++ final a (chunks.foldl (update a) (update a (hinit a) (xorPad k a.block 0x36)))) =
      hmac a key chunks.flatten := by
  simp only
  unfold hmac
  simp only
  congr 2
  have := stream_eq_oneshot a hb ((xorPad (if key.length > a.block then Crypto.hash a key else key) a.block 0x36) :: chunks)
  simpa [List.foldl] using this

/-! ### CFB mode: decryption inverts encryption, for every block function -/

def pad16 (c : Bytes) : Bytes := c ++ List.replicate (16 - c.length) 0

def encChunks (E : Bytes → Bytes) : Bytes → List Bytes → List Bytes
  | _, [] => []
  | iv, b :: bs => xorB b (E iv) :: encChunks E (pad16 (xorB b (E iv))) bs
def decChunks (E : Bytes → Bytes) : Bytes → List Bytes → List Bytes
  | _, [] => []
  | iv, c :: cs => xorB c (E iv) :: decChunks E (pad16 c) cs

theorem enc_fold (E : Bytes → Bytes) : ∀ (cs : List Bytes) (acc iv : Bytes),
    (cs.foldl (fun (st : Bytes × Bytes) blk => (st.1 ++ xorB blk (E st.2), pad16 (xorB blk (E st.2)))) (acc, iv)).1 = acc ++ (encChunks E iv cs).flatten := by
  intro cs
  induction cs with
  | nil => intro acc iv; simp [encChunks]
  | cons b bs ih => intro acc iv; simp only [List.foldl, encChunks, List.flatten_cons]; rw [ih]; simp [List.append_assoc]

theorem dec_fold (E : Bytes → Bytes) : ∀ (cs : List Bytes) (acc iv : Bytes),
    (cs.foldl (fun (st : Bytes × Bytes) blk => (st.1 ++ xorB blk (E st.2), pad16 blk)) (acc, iv)).1 = acc ++ (decChunks E iv cs).flatten := by
  intro cs
  induction cs with
  | nil => intro acc iv; simp [decChunks]
  | cons b bs ih => intro acc iv; simp only [List.foldl, decChunks, List.flatten_cons]; rw [ih]; simp [List.append_assoc]

theorem xor_twice (x m : UInt8) : (x ^^^ m) ^^^ m = x := by
  apply UInt8.eq_of_toBitVec_eq
  simp only [UInt8.toBitVec_xor]
  ext k hk
  simp only [BitVec.getElem_xor]
  cases x.toBitVec[k] <;> cases m.toBitVec[k] <;> rfl

theorem xorB_involution : ∀ (d m : Bytes), d.length ≤ m.length → xorB (xorB d m) m = d := by
  intro d
  induction d with
  | nil => intro m _; simp [xorB]
  | cons x xs ih =>
    intro m hl
    cases m with
    | nil => simp at hl
    | cons y ys =>
      simp only [xorB, List.zipWith_cons_cons, List.cons.injEq]
      exact ⟨xor_twice x y, ih ys (by simpa using hl)⟩

theorem dec_enc_chunks (E : Bytes → Bytes) (hE : ∀ x, (E x).length = 16) : ∀ (bs : List Bytes) (iv : Bytes),
    (∀ b ∈ bs, b.length ≤ 16) → decChunks E iv (encChunks E iv bs) = bs := by
  intro bs
  induction bs with
  | nil => intro iv _; rfl
  | cons b rest ih =>
    intro iv hb
    simp only [encChunks, decChunks, List.cons.injEq]
    exact ⟨xorB_involution b (E iv) (by rw [hE]; exact hb b (by simp)), ih _ (fun x hx => hb x (by simp [hx]))⟩

theorem xorB_length (a b : Bytes) : (xorB a b).length = min a.length b.length := by simp [xorB, List.length_zipWith]

theorem chunks16_le : ∀ (fuel : Nat) (bs : Bytes), ∀ b ∈ chunks16 bs fuel, b.length ≤ 16 := by
  intro fuel
  induction fuel with
  | zero => intro bs b hb; simp [chunks16] at hb
  | succ n ih =>
    intro bs b hb
    unfold chunks16 at hb
    by_cases he : bs.isEmpty = true
    · simp [he] at hb
    · simp only [he, Bool.false_eq_true, if_false, List.mem_cons] at hb
      rcases hb with h | h
      · subst h; simp [List.length_take]; omega
      · exact ih _ b h

theorem chunks16_flatten : ∀ (fuel : Nat) (bs : Bytes), bs.length ≤ fuel * 16 → (chunks16 bs fuel).flatten = bs := by
  intro fuel
  induction fuel with
  | zero => intro bs h; have : bs = [] := List.eq_nil_of_length_eq_zero (by omega); subst this; rfl
  | succ n ih =>
    intro bs h
    unfold chunks16
    by_cases he : bs.isEmpty = true
    · have : bs = [] := by simpa using he
      subst this; simp
    · simp only [he, Bool.false_eq_true, if_false, List.flatten_cons]
      rw [ih (bs.drop 16) (by rw [List.length_drop]; omega)]
      exact List.take_append_drop 16 bs

/-- re-chunking the ciphertext gives the ciphertext chunks -/
theorem rechunk (E : Bytes → Bytes) (hE : ∀ x, (E x).length = 16) : ∀ (fuel : Nat) (pt iv : Bytes),
    chunks16 ((encChunks E iv (chunks16 pt fuel)).flatten) fuel = encChunks E iv (chunks16 pt fuel) := by
  intro fuel
  induction fuel with
  | zero => intro pt iv; simp [chunks16, encChunks]
  | succ n ih =>
    intro pt iv
    by_cases he : pt.isEmpty = true
    · have : chunks16 pt (n + 1) = [] := by unfold chunks16; simp [he]
      rw [this]; simp [encChunks, chunks16]
    · have hne : pt ≠ [] := by simpa using he
      have hc : chunks16 pt (n + 1) = pt.take 16 :: chunks16 (pt.drop 16) n := by
        conv => lhs; unfold chunks16
        simp [he]
      rw [hc]
      simp only [encChunks, List.flatten_cons]
      generalize hc0 : xorB (pt.take 16) (E iv) = c0
      have hl0 : c0.length = min pt.length 16 := by rw [← hc0, xorB_length, hE, List.length_take]; omega
      have hpos : 0 < pt.length := List.length_pos_iff.mpr hne
      have hc0ne : (c0 ++ (encChunks E (pad16 c0) (chunks16 (pt.drop 16) n)).flatten).isEmpty = false := by
        have : c0 ≠ [] := by intro h; rw [h] at hl0; simp at hl0; omega
        cases c0 with
        | nil => exact absurd rfl this
        | cons x xs => rfl
      conv => lhs; unfold chunks16
      simp only [hc0ne, Bool.false_eq_true, if_false]
      by_cases hfull : 16 ≤ pt.length
      · have h16 : c0.length = 16 := by omega
        rw [List.take_append_of_le_length (by omega), List.drop_append_of_le_length (by omega)]
        rw [List.take_of_length_le (by omega), List.drop_of_length_le (by omega), List.nil_append]
        rw [ih]
      · have hshort : pt.length < 16 := by omega
        have hd : pt.drop 16 = [] := List.drop_of_length_le (by omega)
        have hrest : chunks16 (pt.drop 16) n = [] := by
          rw [hd]; cases n with
          | zero => rfl
          | succ k => unfold chunks16; rfl
        rw [hrest]
        simp only [encChunks, List.flatten_nil, List.append_nil]
        rw [List.take_of_length_le (by omega), List.drop_of_length_le (by omega)]
        cases n with
        | zero => rfl
        | succ k => unfold chunks16; rfl

theorem encChunks_flatten_length (E : Bytes → Bytes) (hE : ∀ x, (E x).length = 16) : ∀ (cs : List Bytes) (iv : Bytes),
    (∀ b ∈ cs, b.length ≤ 16) → (encChunks E iv cs).flatten.length = cs.flatten.length := by
  intro cs
  induction cs with
  | nil => intro iv _; rfl
  | cons b rest ih =>
    intro iv hb
    simp only [encChunks, List.flatten_cons, List.length_append]
    rw [ih _ (fun x hx => hb x (by simp [hx])), xorB_length, hE]
    have := hb b (by simp); omega

/-- **CFB decryption inverts CFB encryption for every block function with 16-byte output, every IV and every length
    (including a partial last block)** -/
theorem cfb_roundtrip (E : Bytes → Bytes) (hE : ∀ x, (E x).length = 16) (iv pt : Bytes) :
    (cfbDecrypt E iv (cfbEncrypt E iv pt).1).1 = pt := by
  have henc : (cfbEncrypt E iv pt).1 = (encChunks E iv (chunks16 pt (pt.length / 16 + 1))).flatten := by
    unfold cfbEncrypt
    have := enc_fold E (chunks16 pt (pt.length / 16 + 1)) [] iv
    simpa [pad16] using this
  have hfuel : pt.length ≤ (pt.length / 16 + 1) * 16 := by omega
  have hlen : (cfbEncrypt E iv pt).1.length = pt.length := by
    rw [henc, encChunks_flatten_length E hE _ iv (chunks16_le _ pt), chunks16_flatten _ pt hfuel]
  unfold cfbDecrypt
  rw [hlen, henc, rechunk E hE]
  have := dec_fold E (encChunks E iv (chunks16 pt (pt.length / 16 + 1))) [] iv
  have h2 : (List.foldl (fun (st : Bytes × Bytes) blk => (st.1 ++ xorB blk (E st.2), pad16 blk)) ([], iv)
      (encChunks E iv (chunks16 pt (pt.length / 16 + 1)))).1 = pt := by
    rw [this, dec_enc_chunks E hE _ iv (chunks16_le _ pt), chunks16_flatten _ pt hfuel]; simp
  simpa [pad16] using h2


/-! ### The same for every block size (TDES: 8 bytes, Camellia: 16 bytes) -/

def encChunksN (n : Nat) (E : Bytes → Bytes) : Bytes → List Bytes → List Bytes
  | _, [] => []
  | iv, b :: bs => xorB b (E iv) :: encChunksN n E (padN n (xorB b (E iv))) bs
def decChunksN (n : Nat) (E : Bytes → Bytes) : Bytes → List Bytes → List Bytes
  | _, [] => []
  | iv, c :: cs => xorB c (E iv) :: decChunksN n E (padN n c) cs

theorem enc_foldN (n : Nat) (E : Bytes → Bytes) : ∀ (cs : List Bytes) (acc iv : Bytes),
    (cs.foldl (fun (st : Bytes × Bytes) blk => (st.1 ++ xorB blk (E st.2), padN n (xorB blk (E st.2)))) (acc, iv)).1 = acc ++ (encChunksN n E iv cs).flatten := by
  intro cs
  induction cs with
  | nil => intro acc iv; simp [encChunksN]
  | cons b bs ih => intro acc iv; simp only [List.foldl, encChunksN, List.flatten_cons]; rw [ih]; simp [List.append_assoc]

theorem dec_foldN (n : Nat) (E : Bytes → Bytes) : ∀ (cs : List Bytes) (acc iv : Bytes),
    (cs.foldl (fun (st : Bytes × Bytes) blk => (st.1 ++ xorB blk (E st.2), padN n blk)) (acc, iv)).1 = acc ++ (decChunksN n E iv cs).flatten := by
  intro cs
  induction cs with
  | nil => intro acc iv; simp [decChunksN]
  | cons b bs ih => intro acc iv; simp only [List.foldl, decChunksN, List.flatten_cons]; rw [ih]; simp [List.append_assoc]

theorem dec_enc_chunksN (n : Nat) (E : Bytes → Bytes) (hE : ∀ x, (E x).length = n) : ∀ (bs : List Bytes) (iv : Bytes),
    (∀ b ∈ bs, b.length ≤ n) → decChunksN n E iv (encChunksN n E iv bs) = bs := by
  intro bs
  induction bs with
  | nil => intro iv _; rfl
  | cons b rest ih =>
    intro iv hb
    simp only [encChunksN, decChunksN, List.cons.injEq]
    exact ⟨xorB_involution b (E iv) (by rw [hE]; exact hb b (by simp)), ih _ (fun x hx => hb x (by simp [hx]))⟩

theorem chunksN_le (n : Nat) : ∀ (fuel : Nat) (bs : Bytes), ∀ b ∈ chunksN n bs fuel, b.length ≤ n := by
  intro fuel
  induction fuel with
  | zero => intro bs b hb; simp [chunksN] at hb
  | succ k ih =>
    intro bs b hb
    unfold chunksN at hb
    by_cases he : bs.isEmpty = true
    · simp [he] at hb
    · simp only [he, Bool.false_eq_true, if_false, List.mem_cons] at hb
      rcases hb with h | h
      · subst h; simp [List.length_take]; omega
      · exact ih _ b h

theorem chunksN_flatten (n : Nat) : ∀ (fuel : Nat) (bs : Bytes), bs.length ≤ fuel * n → (chunksN n bs fuel).flatten = bs := by
  intro fuel
  induction fuel with
  | zero => intro bs h; have : bs = [] := List.eq_nil_of_length_eq_zero (by omega); subst this; rfl
  | succ k ih =>
    intro bs h
    unfold chunksN
    by_cases he : bs.isEmpty = true
    · have : bs = [] := by simpa using he
      subst this; simp
    · simp only [he, Bool.false_eq_true, if_false, List.flatten_cons]
      rw [ih (bs.drop n) (by rw [List.length_drop]; rw [Nat.succ_mul] at h; omega)]
      exact List.take_append_drop n bs

theorem chunksN_nil (n : Nat) : ∀ (fuel : Nat), chunksN n [] fuel = [] := by
  intro fuel; cases fuel with
  | zero => rfl
  | succ k => unfold chunksN; rfl

theorem rechunkN (n : Nat) (hn : 0 < n) (E : Bytes → Bytes) (hE : ∀ x, (E x).length = n) : ∀ (fuel : Nat) (pt iv : Bytes),
    chunksN n ((encChunksN n E iv (chunksN n pt fuel)).flatten) fuel = encChunksN n E iv (chunksN n pt fuel) := by
  intro fuel
  induction fuel with
  | zero => intro pt iv; simp [chunksN, encChunksN]
  | succ k ih =>
    intro pt iv
    by_cases he : pt.isEmpty = true
    · have : chunksN n pt (k + 1) = [] := by unfold chunksN; simp [he]
      rw [this]; simp [encChunksN, chunksN]
    · have hne : pt ≠ [] := by simpa using he
      have hc : chunksN n pt (k + 1) = pt.take n :: chunksN n (pt.drop n) k := by
        conv => lhs; unfold chunksN
        simp [he]
      rw [hc]
      simp only [encChunksN, List.flatten_cons]
      generalize hc0 : xorB (pt.take n) (E iv) = c0
      have hl0 : c0.length = min pt.length n := by rw [← hc0, xorB_length, hE, List.length_take]; omega
      have hpos : 0 < pt.length := List.length_pos_iff.mpr hne
      have hc0ne : (c0 ++ (encChunksN n E (padN n c0) (chunksN n (pt.drop n) k)).flatten).isEmpty = false := by
        have : c0 ≠ [] := by intro h; rw [h] at hl0; simp at hl0; omega
        cases c0 with
        | nil => exact absurd rfl this
        | cons x xs => rfl
      conv => lhs; unfold chunksN
      simp only [hc0ne, Bool.false_eq_true, if_false]
      by_cases hfull : n ≤ pt.length
      · have h16 : c0.length = n := by omega
        rw [List.take_append_of_le_length (by omega), List.drop_append_of_le_length (by omega)]
        rw [List.take_of_length_le (by omega), List.drop_of_length_le (by omega), List.nil_append]
        rw [ih]
      · have hshort : pt.length < n := by omega
        have hd : pt.drop n = [] := List.drop_of_length_le (by omega)
        rw [hd, chunksN_nil]
        simp only [encChunksN, List.flatten_nil, List.append_nil]
        rw [List.take_of_length_le (by omega), List.drop_of_length_le (by omega), chunksN_nil]

theorem encChunksN_flatten_length (n : Nat) (E : Bytes → Bytes) (hE : ∀ x, (E x).length = n) : ∀ (cs : List Bytes) (iv : Bytes),
    (∀ b ∈ cs, b.length ≤ n) → (encChunksN n E iv cs).flatten.length = cs.flatten.length := by
  intro cs
  induction cs with
  | nil => intro iv _; rfl
  | cons b rest ih =>
    intro iv hb
    simp only [encChunksN, List.flatten_cons, List.length_append]
    rw [ih _ (fun x hx => hb x (by simp [hx])), xorB_length, hE]
    have := hb b (by simp); omega

/-- **CFB decryption inverts CFB encryption for every block size n > 0, every block function with n-byte output, every IV
    and every length** — the TDES (n = 8) and Camellia (n = 16) cases of EncryptDecrypt are instances -/
theorem cfb_roundtripN (n : Nat) (hn : 0 < n) (E : Bytes → Bytes) (hE : ∀ x, (E x).length = n) (iv pt : Bytes) :
    (cfbDecryptN n E iv (cfbEncryptN n E iv pt).1).1 = pt := by
  have henc : (cfbEncryptN n E iv pt).1 = (encChunksN n E iv (chunksN n pt (pt.length + 1))).flatten := by
    unfold cfbEncryptN
    have := enc_foldN n E (chunksN n pt (pt.length + 1)) [] iv
    simpa using this
  have hfuel : pt.length ≤ (pt.length + 1) * n := Nat.le_trans (Nat.le_succ _) (Nat.le_mul_of_pos_right _ hn)
  have hlen : (cfbEncryptN n E iv pt).1.length = pt.length := by
    rw [henc, encChunksN_flatten_length n E hE _ iv (chunksN_le n _ pt), chunksN_flatten n _ pt hfuel]
  unfold cfbDecryptN
  rw [hlen, henc, rechunkN n hn E hE]
  have := dec_foldN n E (encChunksN n E iv (chunksN n pt (pt.length + 1))) [] iv
  rw [this, dec_enc_chunksN n E hE _ iv (chunksN_le n _ pt), chunksN_flatten n _ pt hfuel]; simp

/-- the ciphertext has the length of the plaintext (no padding in CFB) -/
theorem cfbN_length (n : Nat) (hn : 0 < n) (E : Bytes → Bytes) (hE : ∀ x, (E x).length = n) (iv pt : Bytes) :
    (cfbEncryptN n E iv pt).1.length = pt.length := by
  have henc : (cfbEncryptN n E iv pt).1 = (encChunksN n E iv (chunksN n pt (pt.length + 1))).flatten := by
    unfold cfbEncryptN
    have := enc_foldN n E (chunksN n pt (pt.length + 1)) [] iv
    simpa using this
  have hfuel : pt.length ≤ (pt.length + 1) * n := Nat.le_trans (Nat.le_succ _) (Nat.le_mul_of_pos_right _ hn)
  rw [henc, encChunksN_flatten_length n E hE _ iv (chunksN_le n _ pt), chunksN_flatten n _ pt hfuel]

/-! ### PKCS #1 v1.5 encryption padding: decoding inverts encoding for every message and every admissible padding string -/

def rsaesEncode (ps m : Bytes) : Bytes := 0 :: 2 :: (ps ++ 0 :: m)

theorem takeWhile_nonzero_append (ps rest : Bytes) (hps : ∀ x ∈ ps, x ≠ 0) :
    (ps ++ 0 :: rest).takeWhile (· != 0) = ps := by
  induction ps with
  | nil => simp
  | cons x xs ih =>
    have hx : x ≠ 0 := hps x (by simp)
    have : (x != 0) = true := by simpa using hx
    simp only [List.cons_append, List.takeWhile_cons, this, if_true, List.cons.injEq, true_and]
    exact ih (fun y hy => hps y (by simp [hy]))

/-- **`rsaesDecode (rsaesEncode ps m) = some m`** for every message `m` and every padding string of at least eight
    nonzero bytes (what RSA_Encrypt(RSAES) must produce and RSA_Decrypt(RSAES) must accept) -/
theorem rsaes_decode_encode (ps m : Bytes) (hps : ∀ x ∈ ps, x ≠ 0) (h8 : 8 ≤ ps.length) :
    rsaesDecode (rsaesEncode ps m) = some m := by
  unfold rsaesEncode rsaesDecode
  simp only [takeWhile_nonzero_append ps m hps]
  have h1 : ¬ (ps.length < 8 ∨ ps.length = (ps ++ 0 :: m).length) := by
    simp only [List.length_append, List.length_cons]; omega
  simp only [h1, if_false]
  simp [List.drop_append]

/-- a padding string shorter than eight bytes is refused -/
theorem rsaes_short_padding_refused (ps m : Bytes) (hps : ∀ x ∈ ps, x ≠ 0) (h8 : ps.length < 8) :
    rsaesDecode (rsaesEncode ps m) = none := by
  unfold rsaesEncode rsaesDecode
  simp only [takeWhile_nonzero_append ps m hps]
  simp [h8]

/-- an encoded message that does not start with 00 02 is refused -/
theorem rsaes_bad_header_refused (x y : UInt8) (r : Bytes) (h : ¬ (x = 0 ∧ y = 2)) : rsaesDecode (x :: y :: r) = none := by
  unfold rsaesDecode
  split
  · rename_i r' heq
    simp only [List.cons.injEq] at heq
    exact absurd ⟨heq.1, heq.2.1⟩ h
  · rfl

example : rsaesDecode (rsaesEncode [1, 2, 3, 4, 5, 6, 7, 8] [0, 9, 0]) = some [0, 9, 0] := by decide

/-! ### Known-answer tests (finite: these are tests, not the unbounded claim) -/
-- The FIPS 180-4 "abc" vectors, the FIPS 197 appendix C vectors and a P-256 sanity check are evaluated by
-- `lake env lean --run`-free `#eval`s in the build of the driver; here as kernel-checked facts for the small ones:
example : (P256.mul P256.n (some (P256.gx, P256.gy))).isNone = true := by decide +kernel
example : P256.onCurve P256.gx P256.gy = true := by decide +kernel
example : modPow 4 13 497 = 445 := by decide +kernel
-- every named curve: the generator is on the curve
example : curves.all (fun c => c.onCurve c.gx c.gy) = true := by decide +kernel
-- the modular inverse really is one, at a few points of each field
example : curves.all (fun c => [2, 3, c.gx, c.gy, c.p - 1].all (fun x => x * Curve.inv x c.p % c.p == 1)) = true := by decide +kernel

end TpmVerif.Props.C13
