import TpmVerif.Model.Persist
import TpmVerif.Model.Cancel
import TpmVerif.Model.DA
import TpmVerif.Props.C03
/-!
  C05 — a failed or cancelled command leaves no trace (except DA accounting, the DA_USED marker, the end of a
  pending H-CRTM sequence, invalidation of the orderly state, clock/RNG progress).
-/
namespace TpmVerif.Props.C05
open TpmVerif.Model TpmVerif.Model.Persist TpmVerif.Model.Cancel

variable {ι κ σ : Type}

/-- **a command that made no persistent write does not touch storage and leaves the image unchanged** -/
theorem no_write_no_trace (s : St ι) (ok : Bool) :
    (command s [] ok).nv = s.nv ∧ (command s [] ok).disk = s.disk ∧ (command s [] ok).stores = s.stores := by
  unfold command body
  by_cases hf : s.failure <;> simp [hf]

/-- ... and with clock-only writes the image changes only inside the ORDERLY_DATA block -/
theorem clock_only_no_trace (mask : ι → κ) (s : St ι) (ws : List (Write ι)) (ok : Bool)
    (hs : C03.Synced mask s) (hc : ∀ w ∈ ws, C03.ClockOnly mask w) (hn : hasNvWrite ws = false) :
    (command s ws ok).disk = s.disk ∧ mask (command s ws ok).nv = mask s.nv := by
  have h := C03.clock_only_lags mask s ws ok hs hc hn
  refine ⟨h.1, ?_⟩
  obtain ⟨_, d, hd, hm⟩ := h.2.2
  obtain ⟨_, d0, hd0, hm0⟩ := hs
  rw [h.1, hd0] at hd
  have : d0 = d := Option.some.inj hd
  rw [← hm, ← this, hm0]

/-- **cancel is all-or-nothing**: for every schedule of the cancel request the command either completes with its
    full result or is answered CANCELED with the state it started from -/
theorem cancel_atomic (s result : σ) (succAt : Nat) (stale : Bool) (lands : Option Nat) :
    run s result succAt stale lands = .done result ∨ run s result succAt stale lands = .canceled s := by
  unfold run
  suffices h : ∀ fuel i, loop s result succAt lands i fuel = .done result ∨ loop s result succAt lands i fuel = .canceled s from h _ _
  intro fuel
  induction fuel with
  | zero => intro i; right; rfl
  | succ n ih =>
    intro i
    unfold loop
    by_cases hfl : flagSet lands i = true
    · right; simp [hfl]
    · by_cases he : i = succAt
      · left; subst he; simp [hfl]
      · simp only [hfl, Bool.false_eq_true, if_false, he]; exact ih (i + 1)

theorem loop_done (s result : σ) (succAt : Nat) (lands : Option Nat) (d : Nat) :
    ∀ i, i + d = succAt → (∀ j, j ≤ succAt → flagSet lands j = false) → loop s result succAt lands i (d + 1) = .done result := by
  induction d with
  | zero =>
    intro i h hfl
    unfold loop
    have : i = succAt := by omega
    subst this
    simp [hfl i (Nat.le_refl _)]
  | succ n ih =>
    intro i h hfl
    unfold loop
    have hne : i ≠ succAt := by omega
    simp only [hfl i (by omega), Bool.false_eq_true, if_false, hne]
    exact ih (i + 1) (by omega) hfl

/-- **a stale cancel request is cleared**: a request issued before the command was entered never affects it -/
theorem stale_cancel_cleared (s result : σ) (succAt : Nat) :
    run s result succAt true none = .done result := by
  unfold run
  exact loop_done s result succAt none succAt 0 (by omega) (fun _ _ => rfl)

/-- a request that lands before the first poll cancels the command without any effect -/
theorem cancel_at_first_poll (s result : σ) (succAt : Nat) (stale : Bool) :
    run s result succAt stale (some 0) = .canceled s := by
  unfold run loop; simp [flagSet]

/-- a request that lands after the successful attempt comes too late: the command completes -/
theorem cancel_too_late (s result : σ) (succAt : Nat) (stale : Bool) (k : Nat) (hk : succAt < k) :
    run s result succAt stale (some k) = .done result := by
  unfold run
  apply loop_done s result succAt (some k) succAt 0 (by omega)
  intro j hj
  simp [flagSet]; omega

/-! ### whole histories of failed commands, and the complete cancel schedule table -/

/-- **any number of failed commands in a row leave no trace**: a history of commands none of which made a real
    persistent write (each may have advanced the clock) never rewrites storage, never counts a store, and leaves
    the image unchanged outside the ORDERLY_DATA block — whatever the storage callback would have answered -/
theorem failed_history_no_trace (mask : ι → κ) (hist : List (List (Write ι) × Bool)) (s : St ι)
    (hs : C03.Synced mask s)
    (hall : ∀ c ∈ hist, (∀ w ∈ c.1, C03.ClockOnly mask w) ∧ hasNvWrite c.1 = false) :
    (hist.foldl (fun s (c : List (Write ι) × Bool) => command s c.1 c.2) s).disk = s.disk ∧
    (hist.foldl (fun s (c : List (Write ι) × Bool) => command s c.1 c.2) s).stores = s.stores ∧
    mask (hist.foldl (fun s (c : List (Write ι) × Bool) => command s c.1 c.2) s).nv = mask s.nv := by
  induction hist generalizing s with
  | nil => exact ⟨rfl, rfl, rfl⟩
  | cons c rest ih =>
    obtain ⟨hc, hn⟩ := hall c (by simp)
    have h1 := C03.clock_only_lags mask s c.1 c.2 hs hc hn
    have h2 := (clock_only_no_trace mask s c.1 c.2 hs hc hn).2
    obtain ⟨i1, i2, i3⟩ := ih (command s c.1 c.2) h1.2.2 (fun c' hc' => hall c' (by simp [hc']))
    simp only [List.foldl]
    exact ⟨by rw [i1, h1.1], by rw [i2, h1.2.1], by rw [i3, h2]⟩

/-- a command that made no write at all is the identity on the whole model state outside failure mode's flag
    handling: image, storage, store count AND failure flag -/
theorem no_write_identity (s : St ι) (ok : Bool) (hu : s.updateNV = false) : command s [] ok = s := by
  unfold command body
  by_cases hf : s.failure
  · simp [hf]
  · cases s; simp_all

/-- **the cancel schedule table, complete**: a request that lands before or at the poll of the successful attempt
    cancels the command with the state it started from ... -/
theorem cancel_in_time (s result : σ) (succAt : Nat) (stale : Bool) (k : Nat) (hk : k ≤ succAt) :
    run s result succAt stale (some k) = .canceled s := by
  unfold run
  suffices h : ∀ fuel i, i ≤ k → k < i + fuel → loop s result succAt (some k) i fuel = .canceled s from
    h (succAt + 1) 0 (Nat.zero_le _) (by omega)
  intro fuel
  induction fuel with
  | zero => intro i _ _; rfl
  | succ n ih =>
    intro i hik hkn
    unfold loop
    by_cases he : k ≤ i
    · simp [flagSet, he]
    · have hne : i ≠ succAt := by omega
      simp only [flagSet, he, decide_false, Bool.false_eq_true, if_false, hne]
      exact ih (i + 1) (by omega) (by omega)

/-- ... so the outcome is decided by the landing point alone: cancelled iff the request landed no later than the
    successful attempt's poll (`cancel_too_late` is the other half) -/
theorem cancel_iff (s result : σ) (succAt : Nat) (stale : Bool) (k : Nat) :
    run s result succAt stale (some k) = .canceled s ↔ k ≤ succAt := by
  by_cases hk : k ≤ succAt
  · exact ⟨fun _ => hk, fun _ => cancel_in_time s result succAt stale k hk⟩
  · refine ⟨fun h => ?_, fun h => absurd h hk⟩
    rw [cancel_too_late s result succAt stale k (by omega)] at h
    cases h

/-- the stale flag plays no part in any schedule -/
theorem stale_irrelevant (s result : σ) (succAt : Nat) (lands : Option Nat) :
    run s result succAt true lands = run s result succAt false lands := rfl

example : run (0 : Nat) 1 3 false (some 3) = .canceled 0 := by simp [run, loop, flagSet]
example : run (0 : Nat) 1 3 true (some 4) = .done 1 := by simp [run, loop, flagSet]

/-! ### The permitted effects of a failed authorization (from the DA model) -/
open TpmVerif.Model.DA in
/-- a failed authorization of a DA-protected entity changes only DA accounting (failedTries, its timer) and requests a commit -/
theorem auth_fail_only_da (s : DA.St) (hl : s.p.failedTries < s.p.maxTries) (hu : s.daUsed = true) :
    (authorize s .da false).1.p.maxTries = s.p.maxTries ∧ (authorize s .da false).1.p.recoveryTime = s.p.recoveryTime ∧
    (authorize s .da false).1.p.lockoutRecovery = s.p.lockoutRecovery ∧ (authorize s .da false).1.p.lockoutEnabled = s.p.lockoutEnabled ∧
    (authorize s .da false).1.daUsed = s.daUsed ∧ (authorize s .da false).1.clk.clock = s.clk.clock := by
  have h1 : ¬ (s.p.failedTries ≥ s.p.maxTries) := by omega
  simp only [authorize, checkLockedOut, h1, hu, incrementLockout]
  by_cases hr : s.p.recoveryTime ≠ 0 <;> simp [hr, hu]

end TpmVerif.Props.C05
