import TpmVerif.Model.Clock
/-!
  C16 — TPM 2 time and reset counters only move forward.  Property theorems about `Model.Clock`.

  `NoWrap`-style hypotheses state that a 64-bit millisecond quantity stays below 2^64
  (2^64 ms ≈ 584 million years); they are explicit so that nothing hides in totalised arithmetic.
-/
namespace TpmVerif.Props.C16
open TpmVerif TpmVerif.Model.Clock

theorem add64_eq {a b : Nat} (h : a + b < W) : add64 a b = a + b := by
  unfold add64; exact Nat.mod_eq_of_lt h

theorem add64_lt (a b : Nat) : add64 a b < W := by
  unfold add64 W; omega

theorem sub64_lt (a b : Nat) : sub64 a b < W := by
  unfold sub64 W; omega

theorem sub64_eq {a b : Nat} (ha : a < W) (hb : b ≤ a) : sub64 a b = a - b := by
  unfold sub64 W at *; omega

/-- sub64 undoes add64 for every pair of 64-bit values: this is what makes the host-reboot case work -/
theorem sub64_add64_cancel {a b : Nat} (ha : a < W) : add64 (sub64 a b) b = a := by
  unfold add64 sub64 W at *; omega

theorem add64_sub64_cancel {a b : Nat} (ha : a < W) : sub64 (add64 a b) b = a := by
  unfold add64 sub64 W at *; omega

/-! ### Rate adjustment stays inside the clamp (so the divisor is never 0 and the rate bound holds) -/

def RateOk (p : Plat) : Prop :=
  Gen.CLOCK_NOMINAL - Gen.CLOCK_ADJUST_LIMIT ≤ p.adjustRate ∧ p.adjustRate ≤ Gen.CLOCK_NOMINAL + Gen.CLOCK_ADJUST_LIMIT

theorem rateAdjust_clamped (p : Plat) (a : Int) : RateOk (p.rateAdjust a) := by
  unfold RateOk Plat.rateAdjust
  simp only [Gen.CLOCK_NOMINAL, Gen.CLOCK_ADJUST_LIMIT, Gen.CLOCK_ADJUST_COARSE, Gen.CLOCK_ADJUST_MEDIUM, Gen.CLOCK_ADJUST_FINE]
  constructor <;> (repeat' split) <;> omega

theorem reset_rateOk (p : Plat) : RateOk p.reset := by
  simp [RateOk, Plat.reset, Gen.CLOCK_NOMINAL, Gen.CLOCK_ADJUST_LIMIT]

/-! ### `_plat__TimerRead` -/

/-- the reported time never goes backwards, for ANY host reading (later, equal, earlier, rebooted host),
    as long as the previous system time was not ahead of the reading or the reading fell below the reported
    time (the two cases the C code distinguishes), and 64 bits do not overflow. -/
theorem report_mono (p : Plat) (m : Nat) (hls : p.lastSystem ≠ 0)
    (hnw : p.lastReported + p.realTime m < W)
    (hhost : p.lastSystem ≤ p.realTime m ∨ p.realTime m < p.lastReported) :
    p.lastReported ≤ (p.report m).lastReported := by
  unfold Plat.report
  simp only [hls, if_false]
  by_cases h : p.realTime m < p.lastReported
  · simp only [h, if_true]
    rw [add64_eq hnw, sub64_eq hnw (by omega)]
    omega
  · simp only [h, if_false]
    have hl : p.lastSystem ≤ p.realTime m := by
      cases hhost with
      | inl a => exact a
      | inr b => exact absurd b h
    rw [add64_eq hnw, sub64_eq hnw (by omega)]
    omega

/-- after `report`, the system time recorded is the host reading itself: the next reading of a
    non-decreasing host clock satisfies `report_mono`'s hypothesis -/
theorem report_lastSystem (p : Plat) (m : Nat) : (p.report m).lastSystem = p.realTime m := by
  unfold Plat.report; simp only

/-- the amount by which one TimerRead advances TPM time, as a function of the host-time difference -/
def advance (rate diff : Nat) : Nat := diff * Gen.CLOCK_NOMINAL / rate

/-- TPM time moves only forward in the rate-adjust half (no assumption except no 64-bit overflow),
    by exactly `advance rate diff` where `diff` is the reported time not yet accounted for. -/
theorem adjust_tpmTime (p : Plat) (hd : (p.lastReported - p.realPrev) * Gen.CLOCK_NOMINAL < W)
    (hnw : p.tpmTime + advance p.adjustRate (p.lastReported - p.realPrev) < W) :
    p.adjust.tpmTime = p.tpmTime + advance p.adjustRate (p.lastReported - p.realPrev) := by
  unfold Plat.adjust
  split
  · rename_i h
    have : p.lastReported - p.realPrev = 0 := by omega
    simp [this, advance]
  · simp only
    rw [Nat.mod_eq_of_lt hd]
    exact add64_eq hnw

theorem adjust_tpmTime_mono (p : Plat) (hd : (p.lastReported - p.realPrev) * Gen.CLOCK_NOMINAL < W)
    (hnw : p.tpmTime + advance p.adjustRate (p.lastReported - p.realPrev) < W) :
    p.tpmTime ≤ p.adjust.tpmTime := by
  rw [adjust_tpmTime p hd hnw]; omega

/-- The adjusted advance never exceeds the host difference at nominal-or-slower rate ("never ahead"). -/
theorem advance_le_host (rate diff : Nat) (h : Gen.CLOCK_NOMINAL ≤ rate) : advance rate diff ≤ diff := by
  unfold advance
  have hpos : 0 < rate := by simp [Gen.CLOCK_NOMINAL] at h; omega
  calc diff * Gen.CLOCK_NOMINAL / rate ≤ diff * rate / rate := Nat.div_le_div_right (Nat.mul_le_mul_left _ h)
    _ = diff := Nat.mul_div_cancel _ hpos

/-- ... and at any permitted rate never exceeds the host difference scaled by the fastest permitted rate -/
theorem advance_le_scaled (rate diff : Nat) (h : Gen.CLOCK_NOMINAL - Gen.CLOCK_ADJUST_LIMIT ≤ rate) :
    advance rate diff ≤ diff * Gen.CLOCK_NOMINAL / (Gen.CLOCK_NOMINAL - Gen.CLOCK_ADJUST_LIMIT) := by
  unfold advance
  apply Nat.div_le_div_left h
  simp [Gen.CLOCK_NOMINAL, Gen.CLOCK_ADJUST_LIMIT]

/-- the remainder carried in `s_realTimePrevious`: what is put back (rounded up) never exceeds what was taken,
    so accounted host time never runs ahead of reported host time -/
theorem readjust_le (rate diff : Nat) :
    (advance rate diff * rate + Gen.CLOCK_NOMINAL - 1) / Gen.CLOCK_NOMINAL ≤ diff := by
  unfold advance
  have h1 : diff * Gen.CLOCK_NOMINAL / rate * rate ≤ diff * Gen.CLOCK_NOMINAL := Nat.div_mul_le_self _ _
  simp only [Gen.CLOCK_NOMINAL] at h1 ⊢
  omega

/-- … and covers what was credited: TPM time gained × rate ≤ host time accounted for × nominal. This is what keeps the
    same host millisecond from being credited twice (the fix of known finding G: the accounted time was rounded down) -/
theorem readjust_covers (rate diff : Nat) :
    advance rate diff * rate ≤ (advance rate diff * rate + Gen.CLOCK_NOMINAL - 1) / Gen.CLOCK_NOMINAL * Gen.CLOCK_NOMINAL := by
  simp only [Gen.CLOCK_NOMINAL]
  omega

theorem adjust_realPrev_le (p : Plat)
    (hd : (p.lastReported - p.realPrev) * Gen.CLOCK_NOMINAL < W) (hlr : p.lastReported < W)
    (hm : advance p.adjustRate (p.lastReported - p.realPrev) * p.adjustRate + Gen.CLOCK_NOMINAL - 1 < W) :
    p.realPrev ≤ p.lastReported → p.adjust.realPrev ≤ p.lastReported := by
  intro hle
  unfold Plat.adjust
  split
  · exact hle
  · simp only
    rw [Nat.mod_eq_of_lt hd]
    have hr := readjust_le p.adjustRate (p.lastReported - p.realPrev)
    unfold advance at hr hm
    rw [Nat.mod_eq_of_lt hm]
    rw [add64_eq (by omega)]
    omega

/-! ### Time / Clock update -/

theorem orMask_val (a : Nat) : orMask a = a / 4096 * 4096 + 4095 := by
  simp [orMask, mask, Gen.NV_CLOCK_UPDATE_INTERVAL]

theorem orMask_mono {a b : Nat} (h : a ≤ b) : orMask a ≤ orMask b := by
  rw [orMask_val, orMask_val]; omega

theorem le_orMask (a : Nat) : a ≤ orMask a := by
  rw [orMask_val]; omega

/-- `TimeClockUpdate` sets Clock to exactly the requested value -/
theorem clockUpdate_clock (s : St) (t : Nat) : (s.clockUpdate t).clock = t := by
  unfold St.clockUpdate; split <;> rfl

/-- `TimeClockUpdate` never clears `safe`, and sets it exactly when a 2^NV_CLOCK_UPDATE_INTERVAL boundary is crossed -/
theorem clockUpdate_safe (s : St) (t : Nat) :
    (s.clockUpdate t).safe = (s.safe || decide (orMask t > orMask s.clock)) := by
  unfold St.clockUpdate
  by_cases h : orMask t > orMask s.clock
  · simp [h]
  · simp [h]

theorem clockUpdate_frame (s : St) (t : Nat) :
    (s.clockUpdate t).resetCount = s.resetCount ∧ (s.clockUpdate t).restartCount = s.restartCount ∧
    (s.clockUpdate t).clearCount = s.clearCount ∧
    (s.clockUpdate t).nv.resetCount = s.nv.resetCount ∧ (s.clockUpdate t).p = s.p ∧
    (s.clockUpdate t).gTime = s.gTime ∧ (s.clockUpdate t).started = s.started := by
  unfold St.clockUpdate; split <;> simp

/-- the invariant tying the TPM's `g_time` to the platform's `s_tpmTime` -/
def Inv (s : St) : Prop := s.gTime = s.p.tpmTime ∧ s.p.tpmTime < W

theorem timerRead_snd (p : Plat) (m : Nat) : (p.timerRead m).2 = (p.timerRead m).1.tpmTime := rfl

theorem timerRead_lt (p : Plat) (m : Nat) (h : p.tpmTime < W) : (p.timerRead m).2 < W := by
  unfold Plat.timerRead Plat.adjust
  simp only
  split
  · unfold Plat.report; simpa using h
  · exact add64_lt _ _

/-- One `TimeUpdate` for an ARBITRARY host reading: afterwards Time is the TimerRead value and Clock has
    advanced by exactly the amount Time advanced. -/
theorem timeUpdate_clock (s : St) (m : Nat) (hI : Inv s) :
    (s.timeUpdate m).clock = add64 s.clock (sub64 (s.p.timerRead m).2 s.gTime) ∧
    (s.timeUpdate m).gTime = (s.p.timerRead m).2 ∧ (s.timeUpdate m).p = (s.p.timerRead m).1 := by
  obtain ⟨hg, hw⟩ := hI
  have hlt := timerRead_lt s.p m hw
  unfold St.timeUpdate
  by_cases hs : s.timerStopped
  · simp only [hs, if_true, clockUpdate_clock, (clockUpdate_frame _ _).2.2.2.2.2.1, (clockUpdate_frame _ _).2.2.2.2.1]
    refine ⟨trivial, ?_, trivial⟩
    unfold add64 sub64 W at *; omega
  · simp only [hs, Bool.false_eq_true, if_false, clockUpdate_clock, (clockUpdate_frame _ _).2.2.2.2.2.1, (clockUpdate_frame _ _).2.2.2.2.1]
    refine ⟨trivial, ?_, trivial⟩
    unfold add64 sub64 W at *; omega

theorem timeUpdate_inv (s : St) (m : Nat) (hI : Inv s) : Inv (s.timeUpdate m) := by
  obtain ⟨_, h2, h3⟩ := timeUpdate_clock s m hI
  refine ⟨by rw [h2, h3]; rfl, ?_⟩
  rw [h3, ← timerRead_snd]; exact timerRead_lt _ _ hI.2

/-- **Clock never decreases in a time update**, whatever the host clock reads, provided TPM time
    itself did not decrease in the TimerRead (see `adjust_tpmTime_mono`: it never does) and 64 bits do not
    overflow. This is the step lemma of the monotonicity clause. -/
theorem timeUpdate_clock_mono (s : St) (m : Nat) (hI : Inv s)
    (ht : s.p.tpmTime ≤ (s.p.timerRead m).2)
    (hnw : s.clock + ((s.p.timerRead m).2 - s.p.tpmTime) < W) :
    s.clock ≤ (s.timeUpdate m).clock := by
  rw [(timeUpdate_clock s m hI).1]
  have htw := timerRead_lt s.p m hI.2
  obtain ⟨hg, _⟩ := hI
  rw [hg, sub64_eq htw ht, add64_eq hnw]; omega

/-- Clock and Time advance in lock step: Clock − Time is constant over a time update -/
theorem timeUpdate_lockstep (s : St) (m : Nat) (hI : Inv s)
    (ht : s.p.tpmTime ≤ (s.p.timerRead m).2)
    (hnw : s.clock + ((s.p.timerRead m).2 - s.p.tpmTime) < W) :
    (s.timeUpdate m).clock - s.clock = (s.timeUpdate m).gTime - s.gTime := by
  rw [(timeUpdate_clock s m hI).1, (timeUpdate_clock s m hI).2.1]
  have htw := timerRead_lt s.p m hI.2
  obtain ⟨hg, _⟩ := hI
  rw [hg, sub64_eq htw ht, add64_eq hnw]; omega

/-- TPM time never decreases in a full TimerRead (report + adjust), for any host reading -/
theorem timerRead_mono (p : Plat) (m : Nat)
    (hd : ((p.report m).lastReported - (p.report m).realPrev) * Gen.CLOCK_NOMINAL < W)
    (hnw : p.tpmTime + advance p.adjustRate ((p.report m).lastReported - (p.report m).realPrev) < W) :
    p.tpmTime ≤ (p.timerRead m).2 := by
  have h1 : (p.report m).tpmTime = p.tpmTime := by unfold Plat.report; simp only
  have h2 : (p.report m).adjustRate = p.adjustRate := by unfold Plat.report; simp only
  unfold Plat.timerRead
  simp only
  have := adjust_tpmTime_mono (p.report m) hd (by rw [h1, h2]; exact hnw)
  omega

/-! ### ClockSet can only move the clock forward -/

theorem clockSet_forward (s : St) (v : Nat) :
    ((s.clockSet v).2 = 0 → (s.clockSet v).1.clock = v ∧ s.clock ≤ v ∧ v ≤ 0xFFFF000000000000) ∧
    ((s.clockSet v).2 ≠ 0 → (s.clockSet v).1 = s) := by
  unfold St.clockSet
  by_cases hv : v > 0xFFFF000000000000 ∨ v < s.clock
  · simp [hv, RC_VALUE_P1]
  · simp only [hv, if_false, clockUpdate_clock]
    refine ⟨fun _ => ⟨trivial, by omega, by omega⟩, fun h => absurd rfl h⟩

/-- the commit at the end of a command changes only what storage holds -/
theorem finish_frame (s : St) :
    s.finish.1.clock = s.clock ∧ s.finish.1.safe = s.safe ∧ s.finish.1.gTime = s.gTime ∧ s.finish.1.p = s.p ∧
    s.finish.1.resetCount = s.resetCount ∧ s.finish.1.restartCount = s.restartCount ∧
    s.finish.1.clearCount = s.clearCount ∧ s.finish.1.nv = s.nv ∧ s.finish.1.started = s.started := by
  unfold St.finish; split <;> simp

/-- ... and when it happens, storage holds exactly the NV image -/
theorem finish_commits (s : St) (h : s.updateNV = true) : s.finish.1.disk = s.nv ∧ s.finish.2 = true := by
  unfold St.finish; simp [h]

/-! ### Counters -/

/-- Suspend/resume changes neither counter, for every behaviour of the host clocks -/
theorem resume_counters (s : St) (m r m' r' : Nat) (h : s.resetCount = s.nv.resetCount) :
    (resume (s.suspend m r) m' r').resetCount = s.resetCount ∧
    (resume (s.suspend m r) m' r').restartCount = s.restartCount ∧
    (resume (s.suspend m r) m' r').clearCount = s.clearCount := by
  simp [resume, St.suspend, h]

/-- Suspend/resume does not touch Clock, Time, safe, or the TPM-time accounting -/
theorem resume_clock (s : St) (m r m' r' : Nat) :
    (resume (s.suspend m r) m' r').clock = s.clock ∧ (resume (s.suspend m r) m' r').gTime = s.gTime ∧
    (resume (s.suspend m r) m' r').safe = s.safe ∧ (resume (s.suspend m r) m' r').p.tpmTime = s.p.tpmTime ∧
    (resume (s.suspend m r) m' r').p.lastReported = s.p.lastReported ∧
    (resume (s.suspend m r) m' r').p.lastSystem = s.p.lastSystem ∧
    (resume (s.suspend m r) m' r').p.realPrev = s.p.realPrev := by
  simp [resume, St.suspend]

theorem add64_comm_cancel {y m' : Nat} (hy : y < W) : add64 m' (sub64 y m') = y := by
  unfold add64 sub64 W at *; omega

theorem add64_assoc_mod (x a d : Nat) : add64 x (add64 a d) = add64 (add64 x a) d := by
  unfold add64 W; omega

/-- **Host-clock regression at resume is absorbed**: on ANY new host (monotonic clock restarted from zero,
    same, or far ahead) the platform's real time continues from where it was at suspend, plus the wall-clock
    time that passed (if the wall clock did not go backwards) — never earlier. -/
theorem resume_realTime (s : St) (m r m' r' : Nat)
    (hnw : s.p.realTime m + (r' - r) < W) :
    (resume (s.suspend m r) m' r').p.realTime m' = s.p.realTime m + (if r' ≥ r then r' - r else 0) := by
  simp only [resume, St.suspend, Plat.realTime]
  unfold Plat.realTime at hnw
  rw [add64_comm_cancel (add64_lt _ _)]
  by_cases h : r' ≥ r
  · simp only [h, if_true]
    rw [add64_assoc_mod, add64_eq hnw]
  · simp only [h, if_false]; rfl

theorem resume_inv (s : St) (m r m' r' : Nat) (h : Inv s) : Inv (resume (s.suspend m r) m' r') := by
  simpa [Inv, resume, St.suspend] using h


theorem timeUpdate_frame (s : St) (m : Nat) :
    (s.timeUpdate m).resetCount = s.resetCount ∧ (s.timeUpdate m).restartCount = s.restartCount ∧
    (s.timeUpdate m).clearCount = s.clearCount ∧ (s.timeUpdate m).nv.resetCount = s.nv.resetCount ∧
    (s.timeUpdate m).started = s.started := by
  unfold St.timeUpdate
  simp only
  split <;> simp [(clockUpdate_frame _ _)]

/-- `TimeUpdate` can set `safe` but never clears it -/
theorem timeUpdate_safe_mono (s : St) (m : Nat) (h : s.safe = true) : (s.timeUpdate m).safe = true := by
  unfold St.timeUpdate
  simp only
  split <;> simp [clockUpdate_safe, h]

theorem startup_ok_iff (s : St) (m su : Nat) :
    (s.startup m su).2 = 0 ↔ ¬ (su = 1 ∧ prevOrderly s.orderly ≠ 1) := by
  unfold St.startup
  by_cases h : su = 1 ∧ prevOrderly s.orderly ≠ 1
  · simp [h, RC_VALUE_P1]
  · simp [h]

theorem startup_ok_eq (s : St) (m su : Nat) (h : (s.startup m su).2 = 0) :
    (s.startup m su).1 = s.startupOk m su := by
  have := (startup_ok_iff s m su).1 h
  unfold St.startup; simp only [this, if_false]

theorem startupPrep_frame (s : St) (prev : Nat) :
    (s.startupPrep prev).resetCount = s.resetCount ∧ (s.startupPrep prev).nv = s.nv ∧
    (s.startupPrep prev).clock = s.clock ∧ (s.startupPrep prev).p = s.p ∧ (s.startupPrep prev).gTime = s.gTime ∧
    (s.startupPrep prev).restartCount = (if prev = 1 then s.nv.grRestart else s.restartCount) ∧
    (s.startupPrep prev).safe = (s.safe && isOrderly prev) := by
  unfold St.startupPrep
  simp only
  by_cases h1 : prev = 1 <;> by_cases h2 : isOrderly prev <;> simp [h1, h2] <;> (subst h1; simp [h2])

theorem bumpCounters_frame (s : St) (prev su : Nat) :
    (s.bumpCounters prev su).safe = s.safe ∧ (s.bumpCounters prev su).clock = s.clock ∧
    (s.bumpCounters prev su).p = s.p ∧ (s.bumpCounters prev su).gTime = s.gTime := by
  unfold St.bumpCounters; split <;> (try split) <;> simp

/-- **resetCount rises by exactly one on a TPM Reset and never otherwise; restartCount is zeroed by a Reset
    and rises by one on Restart and Resume** (successful Startup; `prevOrderly` is the recorded shutdown type). -/
theorem startup_counters (s : St) (m su : Nat) (hok : (s.startup m su).2 = 0) :
    (prevOrderly s.orderly ≠ 1 →
        (s.startup m su).1.resetCount = s.resetCount + 1 ∧ (s.startup m su).1.restartCount = 0 ∧
        (s.startup m su).1.nv.resetCount = s.resetCount + 1) ∧
    (prevOrderly s.orderly = 1 →
        (s.startup m su).1.resetCount = s.resetCount ∧
        (s.startup m su).1.restartCount = s.nv.grRestart + 1 ∧
        (s.startup m su).1.nv.resetCount = s.nv.resetCount) := by
  rw [startup_ok_eq s m su hok]
  unfold St.startupOk
  simp only
  constructor
  · intro hp
    simp [St.bumpCounters, hp, (timeUpdate_frame _ _), (startupPrep_frame _ _)]
  · intro hp
    by_cases hsu : su = 1
    · simp [St.bumpCounters, hp, hsu, (timeUpdate_frame _ _), (startupPrep_frame _ _)]
    · simp [St.bumpCounters, hp, hsu, (timeUpdate_frame _ _), (startupPrep_frame _ _)]

/-- a failed Startup changes no counter and not the clock -/
theorem startup_fail_counters (s : St) (m su : Nat) (h : (s.startup m su).2 ≠ 0) :
    (s.startup m su).1.resetCount = s.resetCount ∧ (s.startup m su).1.restartCount = s.restartCount ∧
    (s.startup m su).1.clock = s.clock := by
  have herr : su = 1 ∧ prevOrderly s.orderly ≠ 1 := by
    by_cases herr : su = 1 ∧ prevOrderly s.orderly ≠ 1
    · exact herr
    · exact absurd ((startup_ok_iff s m su).2 herr) h
  unfold St.startup
  simp [herr]

/-- **safe after an orderly restart stays YES**: Startup after an orderly shutdown never clears `safe`. -/
theorem startup_orderly_safe (s : St) (m su : Nat) (hok : (s.startup m su).2 = 0) (hsafe : s.safe = true)
    (hord : isOrderly (prevOrderly s.orderly) = true) : (s.startup m su).1.safe = true := by
  rw [startup_ok_eq s m su hok]
  unfold St.startupOk
  simp only [(bumpCounters_frame _ _ _).1]
  apply timeUpdate_safe_mono
  simp [(startupPrep_frame _ _), hsafe, hord]

/-- **safe after a non-orderly restart reads NO until the next NV clock update**: Startup clears it and the
    only thing that can set it again is a Clock value crossing a 2^NV_CLOCK_UPDATE_INTERVAL ms boundary. -/
theorem startup_nonorderly_safe (s : St) (m su : Nat) (hok : (s.startup m su).2 = 0)
    (hord : isOrderly (prevOrderly s.orderly) = false) :
    (s.startup m su).1.safe = decide (orMask (s.startup m su).1.clock > orMask s.clock) := by
  rw [startup_ok_eq s m su hok]
  unfold St.startupOk
  simp only [(bumpCounters_frame _ _ _).1, (bumpCounters_frame _ _ _).2.1]
  have hs : (s.startupPrep (prevOrderly s.orderly)).safe = false := by simp [(startupPrep_frame _ _), hord]
  have hc : (s.startupPrep (prevOrderly s.orderly)).clock = s.clock := (startupPrep_frame _ _).2.2.1
  generalize s.startupPrep (prevOrderly s.orderly) = s' at *
  unfold St.timeUpdate
  simp only
  split <;> simp [clockUpdate_safe, clockUpdate_clock, hs, hc]

/-- Stated in full, the property's wording is: after a non-orderly restart `safe` reads NO until Clock passes
    the value it had before the power cut (`preCut`).  This theorem is the part that holds for the code as it is:
    it needs the hypothesis that the Clock value in storage lags the live one by less than one update interval,
    which libtpms' "a clock update alone does not commit" does not guarantee (see `safe_until_passed_fails`). -/
theorem safe_until_passed_partial (s : St) (m su preCut : Nat) (hok : (s.startup m su).2 = 0)
    (hord : isOrderly (prevOrderly s.orderly) = false)
    (hlag : preCut ≤ orMask s.clock)
    (hsafe : (s.startup m su).1.safe = true) : preCut < (s.startup m su).1.clock := by
  rw [startup_nonorderly_safe s m su hok hord] at hsafe
  have h := of_decide_eq_true hsafe
  have h2 := le_orMask (s.startup m su).1.clock
  generalize (s.startup m su).1.clock = c at *
  rw [orMask_val] at h h2 hlag
  rw [orMask_val] at h
  omega

/-! ### Restart from storage -/

theorem restart_inv (s : St) (m : Nat) : Inv (s.restart m) := by
  unfold St.restart
  simp only
  refine ⟨rfl, ?_⟩
  rw [← timerRead_snd]
  exact timerRead_lt _ _ (by simp [Plat.reset, W])

/-- a restart takes Clock, safe and resetCount from what storage holds -/
theorem restart_from_disk (s : St) (m : Nat) :
    (s.restart m).clock = s.disk.clock ∧ (s.restart m).safe = s.disk.safe ∧
    (s.restart m).resetCount = s.disk.resetCount ∧ (s.restart m).orderly = s.disk.orderly ∧
    (s.restart m).started = false := by
  simp [St.restart]

/-- Shutdown records Clock, safe and (for STATE) the restart counters in the NV image and commits it:
    an orderly restart that follows immediately resumes from exactly the Clock value at Shutdown. -/
theorem shutdown_then_restart_clock (s : St) (su m : Nat) :
    let s1 := (s.shutdown su).1.finish.1
    (s1.restart m).clock = s.clock ∧ (s1.restart m).safe = s.safe ∧ (s1.restart m).orderly = su := by
  simp only [St.shutdown, St.finish, St.restart]
  by_cases h : su = 1 <;> simp [h]


/-! ### All histories -/

inductive Op where
  | cmd (mono : Nat) (c : Cmd)
  | restart (mono : Nat)
  | suspendResume (m r m' r' : Nat)
deriving Repr

def applyOp (s : St) : Op → St
  | .cmd m c => (s.exec m c).1
  | .restart m => s.restart m
  | .suspendResume m r m' r' => resume (s.suspend m r) m' r'

def run (s : St) (ops : List Op) : St := ops.foldl applyOp s

theorem inv_of_fields {s t : St} (h : Inv s) (hp : t.p.tpmTime = s.p.tpmTime) (hg : t.gTime = s.gTime) : Inv t := by
  unfold Inv at *; rw [hp, hg]; exact h

theorem entry_inv (s : St) (m : Nat) (h : Inv s) : Inv (s.entry m) := by
  unfold St.entry
  simp only
  split
  · exact inv_of_fields h rfl rfl
  · exact timeUpdate_inv _ m (inv_of_fields h rfl rfl)

theorem startupOk_inv (s : St) (m su : Nat) (h : Inv s) : Inv (s.startupOk m su) := by
  unfold St.startupOk
  simp only
  have h1 : Inv (s.startupPrep (prevOrderly s.orderly)) :=
    inv_of_fields h (by rw [(startupPrep_frame _ _).2.2.2.1]) (startupPrep_frame _ _).2.2.2.2.1
  have h2 := timeUpdate_inv _ m h1
  exact inv_of_fields h2 (by simp [(bumpCounters_frame _ _ _).2.2.1]) (by simp [(bumpCounters_frame _ _ _).2.2.2])

theorem clockUpdate_inv (s : St) (t : Nat) (h : Inv s) : Inv (s.clockUpdate t) :=
  inv_of_fields h (by rw [(clockUpdate_frame s t).2.2.2.2.1]) (clockUpdate_frame s t).2.2.2.2.2.1

theorem clockSet_inv (s : St) (v : Nat) (h : Inv s) : Inv (s.clockSet v).1 := by
  by_cases hv : v > 0xFFFF000000000000 ∨ v < s.clock
  · have : (s.clockSet v).1 = s := (clockSet_forward s v).2 (by unfold St.clockSet; simp [hv, RC_VALUE_P1])
    rw [this]; exact h
  · have : (s.clockSet v).1 = s.clockUpdate v := by unfold St.clockSet; simp only [hv, if_false]
    rw [this]; exact clockUpdate_inv s v h

theorem body_inv (s : St) (m : Nat) (c : Cmd) (he : Inv s) : Inv (s.body m c).1 := by
  cases c with
  | readClock => exact he
  | clockSet v =>
      exact clockSet_inv s v he
  | rateAdjust a => exact inv_of_fields he (by simp [St.body, Plat.rateAdjust]) rfl
  | startup su =>
      simp only [St.body]
      unfold St.startup
      split
      · exact inv_of_fields he rfl rfl
      · exact startupOk_inv _ _ _ he
  | shutdown su => exact inv_of_fields he (by simp [St.body, St.shutdown]) (by simp [St.body, St.shutdown])
  | commitCmd => exact inv_of_fields he rfl rfl
  | neutral => exact he

theorem exec_inv (s : St) (m : Nat) (c : Cmd) (h : Inv s) : Inv (s.exec m c).1 := by
  have he := entry_inv s m h
  have hf : ∀ t : St, Inv t → Inv t.finish.1 := fun t ht =>
    inv_of_fields ht (by rw [(finish_frame t).2.2.2.1]) (finish_frame t).2.2.1
  unfold St.exec
  simp only
  split
  · exact hf _ he
  · exact hf _ (body_inv _ m c he)

/-- the accounting invariant holds after EVERY history of commands, restarts (orderly or not) and
    suspend/resume cycles with arbitrary host-clock behaviour -/
theorem run_inv (s : St) (ops : List Op) (h : Inv s) : Inv (run s ops) := by
  unfold run
  induction ops generalizing s with
  | nil => exact h
  | cons op ops ih =>
    apply ih
    cases op with
    | cmd m c => exact exec_inv s m c h
    | restart m => exact restart_inv s m
    | suspendResume m r m' r' => exact resume_inv s m r m' r' h

/-! ### The clause that does NOT hold for the code as it is (known finding F) -/

/-- a concrete history on the model: ten minutes of running without any committing command, power cut,
    restart; `safe` is YES again at Clock = 5000 although Clock had reached 600000 before the cut. -/
def witnessF : St × Nat :=
  let s0 : St := { orderly := 0, nv := { orderly := 0 }, disk := { orderly := 0 }, gTime := 0,
                   p := (({} : Plat).timerRead 1000).1 }
  let s1 := (s0.exec 1000 (.startup 0)).1
  let s2 := (s1.exec 601000 .readClock).1          -- Clock = 600000, nothing committed
  let preCut := s2.clock
  let s3 := s2.restart 700000                       -- power cut, restart from storage
  let s4 := (s3.exec 705000 (.startup 0)).1         -- 5 s later
  (s4, preCut)



set_option maxRecDepth 100000 in
theorem safe_until_passed_fails :
    witnessF.1.safe = true ∧ witnessF.1.clock < witnessF.2 := by decide +kernel

/-! ### 'Never ahead of elapsed host time' under fine-grained polling (former known finding G, repaired by fix: … in Clock.c) -/

/-- poll the timer every millisecond, `n` times, starting at host time `m0` -/
def pollN (p : Plat) (m0 n : Nat) : Plat := (List.range n).foldl (fun p i => (p.timerRead (m0 + i + 1)).1) p

/-- the history that showed the defect — one COARSE_FASTER adjustment, then 300 polls one millisecond apart: with the accounted
    time rounded up the TPM time gained stays within 300·30000/25000 = 360 ms, the bound for the fastest permitted rate
    (a test of the repaired arithmetic on the witness; the general statement is `readjust_covers` per step) -/
theorem never_ahead_witness :
    let p0 := ((({} : Plat).timerRead 1000).1.rateAdjust 3)
    (pollN p0 1000 300).tpmTime - p0.tpmTime ≤ 300 * Gen.CLOCK_NOMINAL / (Gen.CLOCK_NOMINAL - Gen.CLOCK_ADJUST_LIMIT) := by
  decide +kernel

/-- **never ahead, cumulatively**: the TPM time credited so far, scaled by the fastest permitted rate, never exceeds the host
    time accounted for, which never exceeds the host time reported -/
def Covered (p : Plat) : Prop :=
  p.tpmTime * (Gen.CLOCK_NOMINAL - Gen.CLOCK_ADJUST_LIMIT) ≤ p.realPrev * Gen.CLOCK_NOMINAL ∧ p.realPrev ≤ p.lastReported

set_option maxRecDepth 100000 in
theorem adjust_covered (p : Plat) (hr : RateOk p) (hb : p.lastReported < 2 ^ 40) (h : Covered p) : Covered p.adjust := by
  obtain ⟨h1, h2⟩ := h
  obtain ⟨hr1, hr2⟩ := hr
  simp only [Gen.CLOCK_NOMINAL, Gen.CLOCK_ADJUST_LIMIT] at h1 hr1 hr2
  unfold Covered Plat.adjust
  split
  · exact ⟨h1, h2⟩
  · rename_i hlt
    simp only [Gen.CLOCK_NOMINAL, Gen.CLOCK_ADJUST_LIMIT]
    generalize hd : p.lastReported - p.realPrev = d
    have hdb : d < 2 ^ 40 := by omega
    have hdn : d * 30000 < W := by unfold W; omega
    rw [Nat.mod_eq_of_lt hdn]
    generalize hadj : d * 30000 / p.adjustRate = adj
    have hrpos : 0 < p.adjustRate := by omega
    have hadj1 : adj * p.adjustRate ≤ d * 30000 := by rw [← hadj]; exact Nat.div_mul_le_self _ _
    have hadjb : adj ≤ d * 30000 / 25000 := by rw [← hadj]; exact Nat.div_le_div_left hr1 (by omega)
    have hadjb2 : adj < 2 ^ 41 := by omega
    -- adj * rate as an atom
    generalize hx : adj * p.adjustRate = x at hadj1
    have hxl : adj * 25000 ≤ x := by rw [← hx]; exact Nat.mul_le_mul_left _ hr1
    have hxw : x + 30000 - 1 < W := by unfold W; omega
    rw [Nat.mod_eq_of_lt hxw]
    have htpm : p.tpmTime < 2 ^ 42 := by omega
    have ht : p.tpmTime + adj < W := by unfold W; omega
    have hrp : p.realPrev + (x + 30000 - 1) / 30000 < W := by unfold W; omega
    rw [add64_eq ht, add64_eq hrp]
    constructor
    · omega
    · omega

/-- a rate adjustment does not touch what was credited or accounted -/
theorem rateAdjust_covered (p : Plat) (a : Int) (h : Covered p) : Covered (p.rateAdjust a) := by
  unfold Covered Plat.rateAdjust at *
  exact h

/-- a later host reading only raises the reported time (hypotheses of `report_mono`) -/
theorem report_covered (p : Plat) (m : Nat) (hls : p.lastSystem ≠ 0) (hnw : p.lastReported + p.realTime m < W)
    (hhost : p.lastSystem ≤ p.realTime m ∨ p.realTime m < p.lastReported) (h : Covered p) : Covered (p.report m) := by
  have hm := report_mono p m hls hnw hhost
  obtain ⟨h1, h2⟩ := h
  have ht : (p.report m).tpmTime = p.tpmTime := by unfold Plat.report; simp
  have hrp : (p.report m).realPrev = p.realPrev := by unfold Plat.report; simp [hls]
  unfold Covered
  rw [ht, hrp]
  exact ⟨h1, by omega⟩

/-- the state after a reset followed by its first reading is covered -/
theorem reset_first_covered (p : Plat) (m : Nat) : Covered (p.reset.report m) := by
  unfold Covered Plat.report Plat.reset
  simp

/-- one `_plat__TimerRead` keeps the invariant -/
def StepOk (p : Plat) (m : Nat) : Prop :=
  p.lastSystem ≠ 0 ∧ p.lastReported + p.realTime m < W ∧ (p.lastSystem ≤ p.realTime m ∨ p.realTime m < p.lastReported) ∧
  (p.report m).lastReported < 2 ^ 40

theorem report_rate (p : Plat) (m : Nat) : (p.report m).adjustRate = p.adjustRate := by unfold Plat.report; simp
theorem adjust_rate (p : Plat) : p.adjust.adjustRate = p.adjustRate := by unfold Plat.adjust; split <;> simp

theorem timerRead_covered (p : Plat) (m : Nat) (hr : RateOk p) (hs : StepOk p m) (h : Covered p) :
    Covered (p.timerRead m).1 ∧ RateOk (p.timerRead m).1 := by
  obtain ⟨h1, h2, h3, h4⟩ := hs
  have hc := report_covered p m h1 h2 h3 h
  have hr' : RateOk (p.report m) := by unfold RateOk at *; rw [report_rate]; exact hr
  refine ⟨adjust_covered (p.report m) hr' h4 hc, ?_⟩
  unfold RateOk Plat.timerRead at *
  simp only
  rw [adjust_rate, report_rate]; exact hr

/-- every reading of a poll schedule meets the side conditions (no 64-bit overflow, host time below 2^40 ms ≈ 34 years,
    the host clock not behind the last reading unless it restarted below the reported time) -/
def AllOk : Plat → List Nat → Prop
  | _, [] => True
  | p, m :: ms => StepOk p m ∧ AllOk (p.timerRead m).1 ms

/-- **never ahead of elapsed host time, for EVERY poll schedule** (any number of readings, any spacing — also one
    millisecond apart — at any permitted rate): the TPM time credited, scaled by the fastest permitted rate, stays below
    the host time accounted for, which stays below the host time reported. Known finding G was the failure of exactly this
    statement for the unrepaired arithmetic. -/
theorem polls_covered : ∀ (ms : List Nat) (p : Plat), RateOk p → Covered p → AllOk p ms →
    Covered (ms.foldl (fun p m => (p.timerRead m).1) p) := by
  intro ms
  induction ms with
  | nil => intro p _ h _; exact h
  | cons m ms ih =>
    intro p hr h hall
    obtain ⟨hs, hrest⟩ := hall
    obtain ⟨hc', hr'⟩ := timerRead_covered p m hr hs h
    exact ih _ hr' hc' hrest

example : Covered ((({} : Plat).timerRead 1000).1.rateAdjust 3) ∧ StepOk ((({} : Plat).timerRead 1000).1.rateAdjust 3) 1001 := by
  unfold Covered StepOk; decide

/-! ### Non-vacuity: the hypotheses used above are met by reachable states -/

example : Inv ({ orderly := 0 } : St) := by simp [Inv, W]
example : (({ orderly := 0 } : St).startup 5 0).2 = 0 := by decide
example : isOrderly (prevOrderly Gen.SU_NONE_VALUE) = false := by decide
example : isOrderly (prevOrderly 1) = true ∧ prevOrderly (1 + Gen.STARTUP_LOCALITY_3) = 1 := by decide

end TpmVerif.Props.C16
