import TpmVerif.Model.Api
/-!
  C15 — the library API honours its documented contract in every call order. Theorems about `Model.Api`.
-/
namespace TpmVerif.Props.C15
open TpmVerif TpmVerif.Model.Api

/-! ### Version choice, MainInit, Terminate -/

/-- **ChooseTPMVersion fails once MainInit has run …** -/
theorem choose_refused_after_init (s : St) (ok : Bool) (v : Option Ver) :
    (choose (mainInit s ok) v).2 = TPM_FAIL ∧ (choose (mainInit s ok) v).1 = mainInit s ok := by
  simp [choose, mainInit]

/-- **… and works again after Terminate** -/
theorem choose_works_after_terminate (s : St) (v : Ver) : (choose (terminate s) (some v)).2 = 0 := by
  simp [choose, terminate]

/-- this holds after any number of MainInit/Terminate cycles -/
theorem cycles (s : St) (oks : List Bool) (v : Ver) :
    (choose (oks.foldl (fun s ok => terminate (mainInit s ok)) (terminate s)) (some v)).2 = 0 := by
  have : ∀ (l : List Bool) (s : St), s.locked = false → (l.foldl (fun s ok => terminate (mainInit s ok)) s).locked = false := by
    intro l
    induction l with
    | nil => intro s h; exact h
    | cons x xs ih => intro s _; exact ih _ rfl
  have hl := this oks (terminate s) rfl
  simp [choose, hl]

/-- **choosing another version discards all cached blobs**; choosing the same one keeps them -/
theorem choose_other_clears (s : St) (v : Ver) (hl : s.locked = false) (hv : v ≠ s.choice) (st : Nat) :
    (choose s (some v)).1.cache st = .none := by
  simp [choose, hl, hv, clearCache]

theorem choose_same_keeps (s : St) (hl : s.locked = false) : (choose s (some s.choice)).1 = s := by
  simp [choose, hl]

/-! ### SetState / GetState -/

/-- **SetState with a blob is refused while the TPM runs**, and changes nothing -/
theorem setState_refused_running (s : St) (st : Nat) (b : Bytes) (valid : Bool) (h : s.running = true) :
    setState s st (some b) valid = (s, TPM_INVALID_POSTINIT) := by
  simp [setState, h]

/-- **a failed SetState discards all cached blobs** -/
theorem setState_failed_clears (s : St) (st : Nat) (b : Bytes) (h : s.running = false) (t : Nat)
    : (setState s st (some b) false).1.cache t = .none := by
  unfold setState
  simp only [h, Bool.false_eq_true, if_false]
  split <;> simp [clearCache]

/-- **GetState before start returns exactly the blob previously set** -/
theorem getState_returns_set (s : St) (st : Nat) (b : Bytes) (h : s.running = false) (hv : ¬ (s.choice = .v2 ∧ st = 4)) :
    getStateOffline (setState s st (some b) true).1 st = (0, some b) := by
  simp [setState, h, hv, getStateOffline, setCache]

/-- … or, when nothing is cached, exactly what storage holds -/
theorem getState_returns_stored (s : St) (st : Nat) (b : Bytes) (hc : s.cache st = .none) (hs : s.store st = some b) :
    getStateOffline s st = (0, some b) := by
  simp [getStateOffline, hc, hs]

/-- setting one state type leaves the cache of the others alone -/
theorem setState_frame (s : St) (st t : Nat) (b : Bytes) (h : s.running = false) (hv : ¬ (s.choice = .v2 ∧ st = 4)) (hne : t ≠ st) :
    (setState s st (some b) true).1.cache t = s.cache t := by
  simp [setState, h, hv, setCache, hne]

/-- **a NULL buffer hides stored state: the next MainInit manufactures a fresh TPM** whatever storage holds -/
theorem null_hides_stored (s : St) : willManufacture (setState s 1 none true).1 = true := by
  simp [setState, willManufacture, setCache]

/-- a cached permanent blob is used instead of manufacturing; with nothing cached, storage decides -/
theorem blob_prevents_manufacture (s : St) (b : Bytes) (h : s.cache 1 = .blob b) : willManufacture s = false := by
  simp [willManufacture, h]
theorem storage_decides (s : St) (h : s.cache 1 = .none) : willManufacture s = (s.store 1).isNone := by
  simp [willManufacture, h]

/-- a successful MainInit consumes the cached permanent and volatile blobs; a cached save-state blob stays (a TPM 1.2 reads it
    at TPM_Startup(ST_STATE)) -/
theorem mainInit_consumes (s : St) (st : Nat) (h : st = 1 ∨ st = 2) : (mainInit s true).cache st = .none := by
  simp [mainInit, consumeStartBlobs, h]
theorem mainInit_keeps_saveState (s : St) (ok : Bool) : (mainInit s ok).cache 4 = s.cache 4 := by
  cases ok <;> simp [mainInit, consumeStartBlobs]
/-- the first TPM_Startup of a TPM 1.2 ends the life of a cached save-state blob -/
theorem startup_drops_saveState (s : St) (h : s.choice = .v12) : (startupDone s).cache 4 = .none := by
  simp [startupDone, h, setCache]

/-! ### SetBufferSize -/

/-- **the size is always inside [min, max]**, asking (0) changes nothing, the result is stable under repetition, and
    clamping is monotone -/
theorem clamp_cases (w mn mx : Nat) :
    (w > mx ∧ clamp w mn mx = mx) ∨ (¬ w > mx ∧ w < mn ∧ clamp w mn mx = mn) ∨ (¬ w > mx ∧ ¬ w < mn ∧ clamp w mn mx = w) := by
  unfold clamp
  by_cases h1 : w > mx
  · simp [h1]
  · by_cases h2 : w < mn
    · simp [h1, h2]
    · simp [h1, h2]
theorem clamp_range (w mn mx : Nat) (h : mn ≤ mx) : mn ≤ clamp w mn mx ∧ clamp w mn mx ≤ mx := by
  rcases clamp_cases w mn mx with ⟨_, e⟩ | ⟨_, _, e⟩ | ⟨_, _, e⟩ <;> rw [e] <;> omega
theorem clamp_inside (w mn mx : Nat) (h1 : mn ≤ w) (h2 : w ≤ mx) : clamp w mn mx = w := by
  rcases clamp_cases w mn mx with ⟨_, e⟩ | ⟨_, _, e⟩ | ⟨_, _, e⟩ <;> rw [e] <;> omega
theorem clamp_idem (w mn mx : Nat) (h : mn ≤ mx) : clamp (clamp w mn mx) mn mx = clamp w mn mx :=
  clamp_inside _ mn mx (clamp_range w mn mx h).1 (clamp_range w mn mx h).2
theorem clamp_mono (w w' mn mx : Nat) (h : mn ≤ mx) (hw : w ≤ w') : clamp w mn mx ≤ clamp w' mn mx := by
  rcases clamp_cases w mn mx with ⟨_, e⟩ | ⟨_, _, e⟩ | ⟨_, _, e⟩ <;>
  rcases clamp_cases w' mn mx with ⟨_, e'⟩ | ⟨_, _, e'⟩ | ⟨_, _, e'⟩ <;> rw [e, e'] <;> omega
theorem setBufferSize_query (cur mn mx : Nat) : setBufferSize cur 0 mn mx = cur := by simp [setBufferSize]
theorem setBufferSize_range (cur w mn mx : Nat) (h : mn ≤ mx) (hw : w ≠ 0) :
    mn ≤ setBufferSize cur w mn mx ∧ setBufferSize cur w mn mx ≤ mx := by
  simp only [setBufferSize, hw, if_false]; exact clamp_range w mn mx h

/-! ### DecodeBlob -/

set_option maxRecDepth 100000 in
theorem b64val_char : ∀ k, k < 64 → b64val (b64char k) = some k := by decide +kernel
set_option maxRecDepth 100000 in
theorem b64char_ne_pad : ∀ k, k < 64 → b64char k ≠ '=' := by decide +kernel
set_option maxRecDepth 100000 in
theorem b64char_letter : ∀ k, k < 64 → isB64Letter (b64char k) = true := by decide +kernel

theorem toSextets_lt : ∀ (bs : Bytes), ∀ k ∈ toSextets bs, k < 64 := by
  intro bs
  fun_induction toSextets bs with
  | case1 x y z rest ih =>
    intro k hk
    simp only [List.mem_cons] at hk
    have hx := x.toNat_lt; have hy := y.toNat_lt; have hz := z.toNat_lt
    rcases hk with h | h | h | h | h
    · omega
    · omega
    · omega
    · omega
    · exact ih k h
  | case2 x y =>
    intro k hk
    have hx := x.toNat_lt; have hy := y.toNat_lt
    simp at hk; rcases hk with h | h | h <;> omega
  | case3 x =>
    intro k hk
    have hx := x.toNat_lt
    simp at hk; rcases hk with h | h <;> omega
  | case4 => intro k hk; simp at hk

theorem byte_ofNat (x : UInt8) (n : Nat) (h : n = x.toNat) : UInt8.ofNat (n % 256) = x := by
  subst h
  have := x.toNat_lt
  rw [Nat.mod_eq_of_lt (by omega)]
  exact UInt8.ofNat_toNat

theorem decode_toSextets : ∀ (bs : Bytes), decodeSextets (toSextets bs) = bs := by
  intro bs
  fun_induction toSextets bs with
  | case1 x y z rest ih =>
    have hx := x.toNat_lt; have hy := y.toNat_lt; have hz := z.toNat_lt
    simp only [decodeSextets, ih]
    congr 1
    · exact byte_ofNat x _ (by omega)
    · congr 1
      · exact byte_ofNat y _ (by omega)
      · congr 1
        exact byte_ofNat z _ (by omega)
  | case2 x y =>
    have hx := x.toNat_lt; have hy := y.toNat_lt
    simp only [decodeSextets]
    congr 1
    · exact byte_ofNat x _ (by omega)
    · congr 1
      exact byte_ofNat y _ (by omega)
  | case3 x =>
    have hx := x.toNat_lt
    simp only [decodeSextets]
    congr 1
    exact byte_ofNat x _ (by omega)
  | case4 => rfl

theorem filter_letters (S : List Nat) (hS : ∀ k ∈ S, k < 64) (n : Nat) :
    (S.map b64char ++ List.replicate n '=').filter isB64Letter = S.map b64char ++ List.replicate n '=' := by
  rw [List.filter_eq_self]
  intro c hc
  rcases List.mem_append.mp hc with h | h
  · obtain ⟨k, hk, rfl⟩ := List.mem_map.mp h
    exact b64char_letter k (hS k hk)
  · have := List.eq_of_mem_replicate h
    subst this; decide

theorem takeWhile_letters : ∀ (S : List Nat), (∀ k ∈ S, k < 64) → ∀ (n : Nat),
    (S.map b64char ++ List.replicate n '=').takeWhile (· ≠ '=') = S.map b64char := by
  intro S
  induction S with
  | nil =>
    intro _ n
    cases n with
    | zero => rfl
    | succ m => simp [List.replicate_succ]
  | cons k ks ih =>
    intro hS n
    have hk : b64char k ≠ '=' := b64char_ne_pad k (hS k (by simp))
    simp only [List.map_cons, List.cons_append, List.takeWhile_cons, hk, ne_eq, not_false_eq_true, decide_true, if_true]
    rw [ih (fun j hj => hS j (by simp [hj])) n]

theorem filterMap_vals : ∀ (S : List Nat), (∀ k ∈ S, k < 64) → (S.map b64char).filterMap b64val = S := by
  intro S
  induction S with
  | nil => intro _; rfl
  | cons k ks ih =>
    intro hS
    simp only [List.map_cons, List.filterMap_cons, b64val_char k (hS k (by simp))]
    rw [ih (fun j hj => hS j (by simp [hj]))]

theorem toSextets_len (bs : Bytes) : (toSextets bs).length % 4 ≠ 1 := by
  fun_induction toSextets bs with
  | case1 x y z rest ih => simp only [List.length_cons]; omega
  | case2 x y => simp
  | case3 x => simp
  | case4 => simp

/-- **DecodeBlob returns exactly the encoded bytes**: decoding the standard base64 text of any byte string gives it back -/
theorem b64_roundtrip (bs : Bytes) : b64decode (b64encode bs) = some bs := by
  unfold b64decode b64encode
  simp only
  rw [filter_letters _ (toSextets_lt bs), takeWhile_letters _ (toSextets_lt bs), filterMap_vals _ (toSextets_lt bs)]
  simp [toSextets_len bs, decode_toSextets]

/-- characters that are not base64 letters (line breaks, blanks, anything else) never change the result -/
theorem b64_skips_junk (t1 t2 : List Char) (c : Char) (hc : isB64Letter c = false) :
    b64decode (t1 ++ c :: t2) = b64decode (t1 ++ t2) := by
  unfold b64decode
  simp [List.filter_append, hc]

end TpmVerif.Props.C15
