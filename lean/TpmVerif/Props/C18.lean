import TpmVerif.Model.Tpm12Frame
/-!
  C18 — TPM 1.2 command processing always answers well-formed.  Property theorems about `Model.Tpm12.Frame`,
  for every command byte string, every ordinal body (abstract) and every negotiated buffer size.
  The ordinal table and the constants are the ones regenerated from /repo (`Gen.Tpm12`).
-/
namespace TpmVerif.Props.C18
open TpmVerif TpmVerif.Gen.Tpm12 TpmVerif.Model.Tpm12.Frame

/-! ### big-endian helpers -/

theorem rd16_be16 (n : Nat) (h : n < 65536) (rest : Bytes) : rd16 (be16 n ++ rest) = some (n, rest) := by
  simp only [be16, rd16, List.cons_append, List.nil_append, UInt8.toNat_ofNat']
  congr 2; omega

theorem rd32_be32 (n : Nat) (h : n < 4294967296) (rest : Bytes) : rd32 (be32 n ++ rest) = some (n, rest) := by
  simp only [be32, rd32, List.cons_append, List.nil_append, UInt8.toNat_ofNat']
  congr 2; omega

theorem respTag_lt (t : Nat) : respTag t < 65536 := by
  unfold respTag
  split
  · decide
  · split
    · decide
    · split <;> decide

/-- the tag rule: for the three legal request tags the response tag chosen is request tag + 3 -/
theorem tag_rule (t : Nat) (h : legalTag t = true) : respTag t = t + 3 := by
  unfold legalTag at h; unfold respTag
  simp only [TPM_TAG_RQU_COMMAND, TPM_TAG_RQU_AUTH1_COMMAND, TPM_TAG_RQU_AUTH2_COMMAND,
    TPM_TAG_RSP_COMMAND, TPM_TAG_RSP_AUTH1_COMMAND, TPM_TAG_RSP_AUTH2_COMMAND, Bool.or_eq_true, beq_iff_eq] at *
  rcases h with (h | h) | h <;> subst h <;> simp

/-- an illegal request tag is answered with `TPM_TAG_RSP_COMMAND` -/
theorem tag_rule_illegal (t : Nat) (h : legalTag t = false) : respTag t = TPM_TAG_RSP_COMMAND := by
  unfold legalTag at h; unfold respTag
  simp only [Bool.or_eq_false_iff, beq_eq_false_iff_ne] at h
  simp [h.1.1, h.1.2, h.2]

/-! ### the two response constructors -/

theorem errorResponse_length (rc : Nat) : (errorResponse rc).length = 10 := by
  simp [errorResponse, be16, be32]

theorem storeInitial_length (t rc : Nat) : (storeInitial t rc).length = 10 := by
  simp [storeInitial, be16, be32]

/-- the bare error header is well-formed for every request tag, every nonzero 32-bit code -/
theorem errorResponse_wellFormed (bufMax t rc : Nat) (hb : 10 ≤ bufMax) (hrc : rc < 4294967296) (hne : rc ≠ 0) :
    wellFormed bufMax t (errorResponse rc) = true := by
  have hlen := errorResponse_length rc
  unfold wellFormed
  rw [show errorResponse rc = be16 TPM_TAG_RSP_COMMAND ++ (be32 10 ++ (be32 rc ++ [])) by simp [errorResponse]]
  rw [rd16_be16 _ (by simp [TPM_TAG_RSP_COMMAND])]
  simp only [rd32_be32 10 (by omega), rd32_be32 rc hrc]
  rw [show be16 TPM_TAG_RSP_COMMAND ++ (be32 10 ++ (be32 rc ++ [])) = errorResponse rc by simp [errorResponse]]
  simp [hlen, hne, hb]

/-- `TPM_Process_Unused`'s answer is well-formed (10 bytes, tag matching the request) -/
theorem storeInitial_wellFormed (bufMax t rc : Nat) (hb : 10 ≤ bufMax) (hrc : rc < 4294967296) (hne : rc ≠ 0) :
    wellFormed bufMax t (storeInitial t rc) = true := by
  have hlen := storeInitial_length t rc
  unfold wellFormed
  rw [show storeInitial t rc = be16 (respTag t) ++ (be32 10 ++ (be32 rc ++ [])) by simp [storeInitial]]
  rw [rd16_be16 _ (respTag_lt t)]
  simp only [rd32_be32 10 (by omega), rd32_be32 rc hrc]
  rw [show be16 (respTag t) ++ (be32 10 ++ (be32 rc ++ [])) = storeInitial t rc by simp [storeInitial]]
  simp [hlen, hne, hb]

/-- a success buffer after `TPM_Sbuffer_AdjustParamSize` is well-formed, whatever the body appended -/
theorem success_wellFormed (bufMax t : Nat) (out : Bytes) (hmax : bufMax < 4294967296)
    (hfit : (storeInitial t 0 ++ out).length ≤ bufMax) :
    wellFormed bufMax t (setParamSize (storeInitial t 0 ++ out)) = true := by
  have hlen : (storeInitial t 0 ++ out).length = 10 + out.length := by simp [storeInitial_length]
  have hsp : setParamSize (storeInitial t 0 ++ out)
      = be16 (respTag t) ++ (be32 (10 + out.length) ++ (be32 0 ++ out)) := by
    unfold setParamSize; rw [hlen]; simp [storeInitial, be16, be32]
  have hl2 : (be16 (respTag t) ++ (be32 (10 + out.length) ++ (be32 0 ++ out))).length = 10 + out.length := by
    simp [be16, be32]; omega
  rw [hlen] at hfit
  unfold wellFormed
  rw [hsp, rd16_be16 _ (respTag_lt t)]
  simp only [rd32_be32 (10 + out.length) (by omega), rd32_be32 0 (by omega)]
  simp [hl2, hfit]

/-! ### the headline theorem -/

/-- **C18, framing clause.**  For EVERY command byte string, every ordinal body, every state of the
    failure flag and every negotiated buffer size (≥ 10, < 2^32), the response `TPM_Process` produces is a
    well-formed TPM 1.2 response: paramSize = length ≤ buffer size, success tag = tag matching the request,
    error = bare 10-byte header.  Hypotheses: return codes are 32-bit values. -/
theorem tpm12_frame_wellformed (env : Env) (failed : Bool) (body : Hdr → BodyOut) (cmd : Bytes)
    (hb : 10 ≤ env.bufMax) (hmax : env.bufMax < 4294967296)
    (hpre : env.pre < 4294967296) (hbody : ∀ h, (body h).rc < 4294967296) :
    wellFormed env.bufMax (reqTag cmd) (process env failed body cmd).1 = true := by
  unfold process
  cases hp : parseHeader cmd with
  | none =>
    simp only
    exact errorResponse_wellFormed _ _ _ hb (by simp [TPM_BAD_PARAM_SIZE]) (by simp [TPM_BAD_PARAM_SIZE])
  | some h =>
    simp only
    -- the tag parsed is the tag `reqTag` reads
    have htag : reqTag cmd = h.tag := by
      unfold parseHeader at hp; unfold reqTag
      cases h16 : rd16 cmd with
      | none => simp [h16] at hp
      | some p =>
        obtain ⟨tag, r1⟩ := p
        simp only [h16] at hp ⊢
        cases h32 : rd32 r1 with
        | none => simp [h32] at hp
        | some q =>
          obtain ⟨ps, r2⟩ := q
          simp only [h32] at hp
          cases h32b : rd32 r2 with
          | none => simp [h32b] at hp
          | some q2 =>
            obtain ⟨ord, bd⟩ := q2
            simp only [h32b] at hp
            split at hp
            · simp at hp; rw [← hp]
            · simp at hp
    rw [htag]
    by_cases hpre0 : env.pre = 0
    · simp only [hpre0, ne_eq, not_true_eq_false, if_false]
      by_cases himp : implemented h.ord = true
      · simp only [himp, Bool.not_true, Bool.false_eq_true, if_false]
        have hrc := hbody h
        by_cases hio : initialOnly h.ord = true
        · simp only [hio, if_true]
          by_cases hrc0 : (body h).rc = 0
          · have := success_wellFormed env.bufMax h.tag [] hmax (by simp [storeInitial_length]; omega)
            rw [hrc0]
            have hsp : setParamSize (storeInitial h.tag 0 ++ []) = storeInitial h.tag 0 := by
              simp [setParamSize, storeInitial, be16, be32]
            rw [hsp] at this; exact this
          · exact storeInitial_wellFormed _ _ _ hb hrc hrc0
        have hio' : initialOnly h.ord = false := by simpa using hio
        simp only [hio', Bool.false_eq_true, if_false]
        unfold storeFinal
        by_cases hrc0 : (body h).rc = 0
        · simp only [hrc0, if_true]
          by_cases hbig : (storeInitial h.tag 0 ++ (body h).out).length > env.bufMax
          · simp only [hbig, if_true]
            have : TPM_SIZE ≠ 0 := by simp [TPM_SIZE]
            simp only [this, if_false]
            exact errorResponse_wellFormed _ _ _ hb (by simp [TPM_SIZE]) this
          · simp only [hbig, if_false, if_true]
            exact success_wellFormed _ _ _ hmax (by omega)
        · simp only [hrc0, if_false, List.append_nil]
          have hl : ¬ (storeInitial h.tag (body h).rc).length > env.bufMax := by
            rw [storeInitial_length]; omega
          simp only [hl, if_false, hrc0]
          exact errorResponse_wellFormed _ _ _ hb hrc hrc0
      · have himp' : implemented h.ord = false := by simpa using himp
        simp only [himp', Bool.not_false, if_true]
        exact storeInitial_wellFormed _ _ _ hb (by simp [TPM_BAD_ORDINAL]) (by simp [TPM_BAD_ORDINAL])
    · simp only [ne_eq, hpre0, not_false_eq_true, if_true]
      exact errorResponse_wellFormed _ _ _ hb hpre hpre0

/-- **exact acceptance condition of the header**: a command reaches ordinal lookup iff it has at least the
    10 header bytes and its paramSize field equals the number of bytes submitted -/
theorem header_accepted_iff (cmd : Bytes) :
    (parseHeader cmd).isSome = true ↔
      ∃ a b c d e f g h i j body, cmd = a :: b :: c :: d :: e :: f :: g :: h :: i :: j :: body ∧
        ((c.toNat * 256 + d.toNat) * 256 + e.toNat) * 256 + f.toNat = cmd.length := by
  constructor
  · intro hs
    match cmd, hs with
    | a :: b :: c :: d :: e :: f :: g :: h :: i :: j :: body, hs =>
      refine ⟨a, b, c, d, e, f, g, h, i, j, body, rfl, ?_⟩
      simp only [parseHeader, rd16, rd32] at hs
      split at hs
      · simp only [List.length_cons]; omega
      · simp at hs
    | [], hs => simp [parseHeader, rd16] at hs
    | [_], hs => simp [parseHeader, rd16] at hs
    | [_, _], hs => simp [parseHeader, rd16, rd32] at hs
    | [_, _, _], hs => simp [parseHeader, rd16, rd32] at hs
    | [_, _, _, _], hs => simp [parseHeader, rd16, rd32] at hs
    | [_, _, _, _, _], hs => simp [parseHeader, rd16, rd32] at hs
    | [_, _, _, _, _, _], hs => simp [parseHeader, rd16, rd32] at hs
    | [_, _, _, _, _, _, _], hs => simp [parseHeader, rd16, rd32] at hs
    | [_, _, _, _, _, _, _, _], hs => simp [parseHeader, rd16, rd32] at hs
    | [_, _, _, _, _, _, _, _, _], hs => simp [parseHeader, rd16, rd32] at hs
  · rintro ⟨a, b, c, d, e, f, g, h, i, j, body, rfl, hsz⟩
    simp only [List.length_cons] at hsz
    simp only [parseHeader, rd16, rd32]
    rw [if_pos (by omega)]; rfl

/-- every rejected header is answered with exactly the bare `TPM_BAD_PARAM_SIZE` header, tag `0x00C4` -/
theorem bad_header_response (env : Env) (failed : Bool) (body : Hdr → BodyOut) (cmd : Bytes)
    (h : parseHeader cmd = none) :
    (process env failed body cmd).1 = errorResponse TPM_BAD_PARAM_SIZE := by
  simp [process, h]

/-- an ordinal that is not in the table (or whose entry is `TPM_Process_Unused`) is answered with exactly a
    10-byte `TPM_BAD_ORDINAL` header — never reaching any body — provided preprocessing succeeded -/
theorem unknown_ordinal_response (env : Env) (failed : Bool) (body : Hdr → BodyOut) (cmd : Bytes) (h : Hdr)
    (hp : parseHeader cmd = some h) (hpre : env.pre = 0) (hu : implemented h.ord = false) :
    (process env failed body cmd).1 = storeInitial h.tag TPM_BAD_ORDINAL ∧
    (process env failed body cmd).1.length = 10 := by
  simp [process, hp, hpre, hu, storeInitial_length]

/-- **error ⇒ bare header.**  Whatever the body does, a response whose code is not 0 has exactly 10 bytes. -/
theorem error_is_bare (env : Env) (failed : Bool) (body : Hdr → BodyOut) (cmd : Bytes)
    (hb : 10 ≤ env.bufMax) (hmax : env.bufMax < 4294967296)
    (hpre : env.pre < 4294967296) (hbody : ∀ h, (body h).rc < 4294967296)
    (rc : Nat) (hrc : rspCode (process env failed body cmd).1 = some rc) (hne : rc ≠ 0) :
    (process env failed body cmd).1.length = 10 := by
  have hw := tpm12_frame_wellformed env failed body cmd hb hmax hpre hbody
  generalize (process env failed body cmd).1 = r at hw hrc
  unfold wellFormed at hw
  unfold rspCode at hrc
  match r, hw, hrc with
  | a :: b :: c :: d :: e :: f :: g :: h :: i :: j :: rest, hw, hrc =>
    simp only [rd16, rd32, List.drop, Option.map] at hw hrc
    simp only [Option.some.injEq] at hrc
    subst hrc
    simp only [hne, if_false, Bool.and_eq_true] at hw
    simpa using hw.2.1
  | [], hw, _ => simp [rd16] at hw
  | [_], hw, _ => simp [rd16] at hw
  | [_, _], hw, _ => simp [rd16, rd32] at hw
  | [_, _, _], hw, _ => simp [rd16, rd32] at hw
  | [_, _, _, _], hw, _ => simp [rd16, rd32] at hw
  | [_, _, _, _, _], hw, _ => simp [rd16, rd32] at hw
  | [_, _, _, _, _, _], hw, _ => simp [rd16, rd32] at hw
  | [_, _, _, _, _, _, _], hw, _ => simp [rd16, rd32] at hw
  | [_, _, _, _, _, _, _, _], hw, _ => simp [rd16, rd32] at hw
  | [_, _, _, _, _, _, _, _, _], hw, _ => simp [rd16, rd32] at hw

theorem storeFinal_rc (m : Nat) (buf : Bytes) (rc : Nat) :
    (storeFinal m buf rc).2 = if buf.length > m then TPM_SIZE else rc := by
  unfold storeFinal
  by_cases h : buf.length > m
  · simp [h, TPM_SIZE]
  · by_cases h0 : rc = 0 <;> simp [h, h0]

/-- **the framing layer never shuts the TPM down by itself**: the failure flag changes only when
    preprocessing or an ordinal body reports `TPM_FAIL`.  In particular no byte string that is rejected by the
    header check or by the ordinal lookup can set it. -/
theorem no_shutdown_from_input (env : Env) (failed : Bool) (body : Hdr → BodyOut) (cmd : Bytes)
    (hpre : env.pre ≠ TPM_FAIL) (hbody : ∀ h, (body h).rc ≠ TPM_FAIL) :
    (process env failed body cmd).2.1 = failed := by
  unfold process
  cases hp : parseHeader cmd with
  | none => simp [TPM_BAD_PARAM_SIZE, TPM_FAIL]
  | some h =>
    simp only
    by_cases hpre0 : env.pre = 0
    · simp only [hpre0, ne_eq, not_true_eq_false, if_false]
      by_cases himp : implemented h.ord = true
      · simp only [himp, Bool.not_true, Bool.false_eq_true, if_false]
        have hb := hbody h
        by_cases hio : initialOnly h.ord = true
        · simp [hio]
        have hio' : initialOnly h.ord = false := by simpa using hio
        simp only [hio', Bool.false_eq_true, if_false]
        have hne : (storeFinal env.bufMax (storeInitial h.tag (body h).rc ++ if (body h).rc = 0 then (body h).out else [])
            (body h).rc).2 ≠ TPM_FAIL := by
          rw [storeFinal_rc]
          generalize (storeInitial h.tag (body h).rc ++ if (body h).rc = 0 then (body h).out else []).length = L
          by_cases hL : L > env.bufMax
          · simp [hL, TPM_SIZE, TPM_FAIL]
          · simp only [hL, if_false]; exact hb
        simp [hne]
      · have himp' : implemented h.ord = false := by simpa using himp
        simp [himp']
    · simp [hpre0, hpre]

/-- the negotiated buffer size can never exceed the store-buffer growth limit, so the final
    `TPM_Sbuffer_AppendSBuffer` of `TPM_Process` cannot fail for size reasons -/
theorem buffer_max_le_alloc_max : TPM_BUFFER_MAX ≤ TPM_ALLOC_MAX ∧ 10 ≤ TPM_BUFFER_MIN ∧ TPM_BUFFER_MIN ≤ TPM_BUFFER_MAX := by
  decide

/-- the ordinals of the table are pairwise distinct, so "first match" lookup is the only match -/
theorem ordinal_table_nodup : (ordinalTable.map (·.1)).Nodup := by
  decide +kernel

/-! ### `TPM_SizedBuffer_Load` never reads past the stream -/

/-- **parse safety of sized buffers**: whenever `TPM_SizedBuffer_Load` succeeds, the bytes it took plus the
    4-byte length are exactly a prefix of the stream (nothing beyond `stream_size` is read), and the
    allocation it made is bounded by `TPM_ALLOC_MAX`. -/
theorem sizedbuffer_safe (stream buf rest : Bytes) (h : sizedBufferLoad stream = .ok (buf, rest)) :
    ∃ hd, hd.length = 4 ∧ stream = hd ++ buf ++ rest ∧ buf.length ≤ TPM_ALLOC_MAX := by
  unfold sizedBufferLoad at h
  match stream, h with
  | a :: b :: c :: d :: r, h =>
    simp only [rd32] at h
    split at h
    · simp only [Except.ok.injEq, Prod.mk.injEq] at h
      obtain ⟨rfl, rfl⟩ := h
      exact ⟨[a, b, c, d], rfl, by simp, by simp⟩
    · split at h
      · simp at h
      · split at h
        · simp at h
        · simp only [Except.ok.injEq, Prod.mk.injEq] at h
          obtain ⟨rfl, rfl⟩ := h
          refine ⟨[a, b, c, d], rfl, by simp [List.take_append_drop], ?_⟩
          rw [List.length_take]; omega
  | [], h => simp [rd32] at h
  | [_], h => simp [rd32] at h
  | [_, _], h => simp [rd32] at h
  | [_, _, _], h => simp [rd32] at h

/-! ### every sequence of byte strings -/

/-- `TPM_Process` over a sequence of commands: the responses (in order) and the final failure flag.  The ordinal
    bodies may differ from command to command (`bodies i` is what the ordinals would do at step `i`: they depend
    on the TPM state, which is opaque here). -/
def processAll (env : Env) : (failed : Bool) → List ((Hdr → BodyOut) × Bytes) → List Bytes × Bool
  | failed, [] => ([], failed)
  | failed, (body, cmd) :: rest =>
    let r := process env failed body cmd
    let (rs, f) := processAll env r.2.1 rest
    (r.1 :: rs, f)

/-- **for every sequence of byte strings** submitted as commands — whatever the ordinals do in between — each
    response is a well-formed TPM 1.2 response for its request -/
theorem history_wellformed (env : Env) (hb : 10 ≤ env.bufMax) (hmax : env.bufMax < 4294967296)
    (hpre : env.pre < 4294967296) (cmds : List ((Hdr → BodyOut) × Bytes)) :
    ∀ (failed : Bool), (∀ c ∈ cmds, ∀ h, (c.1 h).rc < 4294967296) →
    ∀ p ∈ cmds.zip (processAll env failed cmds).1, wellFormed env.bufMax (reqTag p.1.2) p.2 = true := by
  induction cmds with
  | nil => intro _ _ p hp; simp [processAll] at hp
  | cons c rest ih =>
    intro failed hall p hp
    obtain ⟨body, cmd⟩ := c
    simp only [processAll, List.zip_cons_cons, List.mem_cons] at hp
    rcases hp with hp | hp
    · subst hp
      exact tpm12_frame_wellformed env failed body cmd hb hmax hpre (hall (body, cmd) (by simp))
    · exact ih _ (fun c' hc' => hall c' (by simp [hc'])) p hp

/-- one response per command, in order -/
theorem history_length (env : Env) (cmds : List ((Hdr → BodyOut) × Bytes)) :
    ∀ (failed : Bool), (processAll env failed cmds).1.length = cmds.length := by
  induction cmds with
  | nil => intro _; rfl
  | cons c rest ih => intro failed; obtain ⟨body, cmd⟩ := c; simp [processAll, ih]

/-- **no sequence of byte strings drives the TPM into its self-test-failed shutdown state through the framing
    layer**: unless preprocessing or an ordinal body itself reports `TPM_FAIL`, the flag after the whole history is
    the flag before it -/
theorem history_no_shutdown (env : Env) (hpre : env.pre ≠ TPM_FAIL) (cmds : List ((Hdr → BodyOut) × Bytes)) :
    ∀ (failed : Bool), (∀ c ∈ cmds, ∀ h, (c.1 h).rc ≠ TPM_FAIL) → (processAll env failed cmds).2 = failed := by
  induction cmds with
  | nil => intro _ _; rfl
  | cons c rest ih =>
    intro failed hall
    obtain ⟨body, cmd⟩ := c
    simp only [processAll]
    rw [ih _ (fun c' hc' => hall c' (by simp [hc']))]
    exact no_shutdown_from_input env failed body cmd hpre (hall (body, cmd) (by simp))

/-- the failed state is never left by processing commands (only `TPM_MainInit` does) -/
theorem failed_stays (env : Env) (body : Hdr → BodyOut) (cmd : Bytes) : (process env true body cmd).2.1 = true := by
  unfold process
  cases parseHeader cmd with
  | none => simp
  | some h =>
    simp only
    split
    · simp
    · split
      · rfl
      · split
        · rfl
        · simp

example : (processAll { bufMax := 4096 } false [(fun _ => { rc := 0, out := [] }, [0, 0xC1, 0, 0])]).1 =
    [errorResponse TPM_BAD_PARAM_SIZE] := by
  simp [processAll, process, parseHeader, rd16, rd32]

end TpmVerif.Props.C18
