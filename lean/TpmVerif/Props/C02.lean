import TpmVerif.Model.Blob
import TpmVerif.Model.Clock
import TpmVerif.Props.C16
/-!
  C02 — suspend/resume through the state blobs.  (i) every format assembled from the codec combinators
  round-trips exactly and is a fixpoint (what is written after reading what was written is the same bytes);
  (ii) the clock part of resume is a bisimulation up to the host-clock anchors (re-uses C16's lemmas).
  The observational-equivalence clause for the whole TPM is decided on the implementation by the twin-run
  oracle (model-free), see DESIGN.md.
-/
namespace TpmVerif.Props.C02
open TpmVerif TpmVerif.Codec TpmVerif.Model.Blob

/-- **round trip**, generic: holds for every codec built from the combinators -/
theorem roundtrip {α} (c : Codec α) (a : α) (rest : Bytes) : c.dec (c.enc a ++ rest) = some (a, rest) := c.rt a rest

/-- **exact parse**: no missing and no trailing bytes -/
theorem exact_parse {α} (c : Codec α) (a : α) : c.dec (c.enc a) = some (a, []) := c.exact a

/-- **fixpoint**: if a blob decodes to `a'` and it was produced by encoding `a`, re-encoding gives the same bytes
    ("taking the blobs again immediately yields the same blobs") -/
theorem blob_fixpoint {α} (c : Codec α) (a a' : α) (h : c.dec (c.enc a) = some (a', [])) : c.enc a' = c.enc a := by
  rw [c.exact a] at h
  have : a = a' := (Prod.mk.inj (Option.some.inj h)).1
  rw [this]

/-- two different values never share a blob -/
theorem blob_injective {α} (c : Codec α) (a b : α) (h : c.enc a = c.enc b) : a = b := c.enc_injective a b h

theorem header_roundtrip (h : Header) (rest : Bytes) : header.dec (header.enc h ++ rest) = some (h, rest) := header.rt h rest
theorem orderlyHead_roundtrip (o : OrderlyHead) (rest : Bytes) : orderlyHead.dec (orderlyHead.enc o ++ rest) = some (o, rest) := orderlyHead.rt o rest
theorem daTimers_roundtrip (t : U64 × U64 × U64) (rest : Bytes) : daTimers.dec (daTimers.enc t ++ rest) = some (t, rest) := daTimers.rt t rest
theorem clockTailV4_roundtrip (t : U64 × U64 × U64 × U64) (rest : Bytes) :
    clockTailV4.dec (clockTailV4.enc t ++ rest) = some (t, rest) := clockTailV4.rt t rest

/-- a header with the wrong magic is not accepted as that blob type (a volatile blob offered as permanent fails here) -/
theorem cross_type_rejected (h : Header) (rest : Bytes) (magic maxV : Nat) (hm : h.magic.val ≠ magic) :
    headerOk (header.enc h ++ rest) magic maxV = false := by
  unfold headerOk
  rw [header.rt]
  simp [hm]

/-- the encoded header has a fixed size (8 bytes) -/
theorem header_length (h : Header) : (header.enc h).length = 8 := by
  simp [header, seq, u16, u32, be16_length, be32_length]

/-! ### Clock part of suspend/resume: bisimulation up to the host anchors -/
open TpmVerif.Model.Clock in
/-! ### unique decomposition: what the blob format guarantees for every codec built from the combinators -/

/-- **no blob is a prefix of another**: if two encodings, each followed by anything, give the same bytes, the values
    and the remainders are the same — a blob followed by further blocks can be split in only one way -/
theorem encodings_prefix_free {α} (c : Codec α) (a b : α) (r1 r2 : Bytes) (h : c.enc a ++ r1 = c.enc b ++ r2) :
    a = b ∧ r1 = r2 := by
  have ha := c.rt a r1
  rw [h, c.rt b r2] at ha
  have := Prod.mk.inj (Option.some.inj ha)
  exact ⟨this.1.symm, this.2.symm⟩

/-- an encoding that begins with another encoding IS that encoding -/
theorem no_proper_prefix {α} (c : Codec α) (a b : α) (r : Bytes) (h : c.enc a = c.enc b ++ r) : a = b ∧ r = [] := by
  have := encodings_prefix_free c a b [] r (by simpa using h)
  exact ⟨this.1, this.2.symm⟩

/-- decoding is determined by the encoded prefix alone: whatever follows a blob is handed on untouched -/
theorem dec_ignores_rest {α} (c : Codec α) (a : α) (r1 r2 : Bytes) :
    (c.dec (c.enc a ++ r1)).map (·.1) = (c.dec (c.enc a ++ r2)).map (·.1) := by
  rw [c.rt, c.rt]; rfl

/-- **a sequence of blobs parses in one way only**: two equally long lists of values whose concatenated encodings
    agree are the same list (the array blocks of the state blobs: PCR banks, session slots, object slots) -/
theorem concat_unique {α} (c : Codec α) : ∀ (xs ys : List α) (r1 r2 : Bytes), xs.length = ys.length →
    (xs.map c.enc).flatten ++ r1 = (ys.map c.enc).flatten ++ r2 → xs = ys ∧ r1 = r2 := by
  intro xs
  induction xs with
  | nil =>
    intro ys r1 r2 hl h
    cases ys with
    | nil => exact ⟨rfl, by simpa using h⟩
    | cons y ys => simp at hl
  | cons x xs ih =>
    intro ys r1 r2 hl h
    cases ys with
    | nil => simp at hl
    | cons y ys =>
      simp only [List.map_cons, List.flatten_cons, List.append_assoc] at h
      obtain ⟨hxy, hrest⟩ := encodings_prefix_free c x y _ _ h
      obtain ⟨i1, i2⟩ := ih ys r1 r2 (by simpa using hl) hrest
      exact ⟨by rw [hxy, i1], i2⟩

/-- decoding a list of `n` blobs one after the other returns exactly the values encoded, and the rest -/
def decN {α} (c : Codec α) : Nat → Bytes → Option (List α × Bytes)
  | 0, bs => some ([], bs)
  | n + 1, bs => match c.dec bs with
    | none => none
    | some (a, rest) => match decN c n rest with
      | none => none
      | some (as, rest') => some (a :: as, rest')

theorem decN_roundtrip {α} (c : Codec α) : ∀ (xs : List α) (rest : Bytes),
    decN c xs.length ((xs.map c.enc).flatten ++ rest) = some (xs, rest) := by
  intro xs
  induction xs with
  | nil => intro rest; simp [decN]
  | cons x xs ih =>
    intro rest
    simp only [List.length_cons, List.map_cons, List.flatten_cons, List.append_assoc, decN, c.rt, ih]

example : decN Codec.u16 2 (Codec.u16.enc 7 ++ Codec.u16.enc 9 ++ [1]) = some ([7, 9], [1]) := by
  have := decN_roundtrip Codec.u16 [7, 9] [1]
  simpa using this

/-- states that agree on everything the TPM can observe of time -/
def ClockEquiv (s t : Model.Clock.St) : Prop :=
  s.clock = t.clock ∧ s.gTime = t.gTime ∧ s.safe = t.safe ∧ s.resetCount = t.resetCount ∧
  s.restartCount = t.restartCount ∧ s.p.tpmTime = t.p.tpmTime ∧ s.p.lastReported = t.p.lastReported ∧
  s.p.realPrev = t.p.realPrev ∧ s.p.adjustRate = t.p.adjustRate

open TpmVerif.Model.Clock in
/-- **resume is equivalent to never having been interrupted**, for every behaviour of the host clocks -/
theorem resume_equiv (s : Model.Clock.St) (m r m' r' : Nat) (h : s.resetCount = s.nv.resetCount) :
    ClockEquiv s (resume (s.suspend m r) m' r') := by
  simp [ClockEquiv, resume, Model.Clock.St.suspend, h]

open TpmVerif.Model.Clock in
/-- ... and the platform's real time continues from where it was plus the wall-clock time that passed (C16) -/
theorem resume_time_continues (s : Model.Clock.St) (m r m' r' : Nat) (hnw : s.p.realTime m + (r' - r) < W) :
    (resume (s.suspend m r) m' r').p.realTime m' = s.p.realTime m + (if r' ≥ r then r' - r else 0) :=
  Props.C16.resume_realTime s m r m' r' hnw

/-! non-vacuity -/
example : headerOk (header.enc ⟨4, ⟨Gen.PERSISTENT_ALL_MAGIC, by decide⟩, 4⟩) Gen.PERSISTENT_ALL_MAGIC 4 = true := by decide

end TpmVerif.Props.C02
