import TpmVerif.Model.Cursor
import TpmVerif.Model.Blob
import TpmVerif.Props.C02
/-!
  C06 — any byte string offered as state is rejected or accepted safely: the cursor discipline.
-/
namespace TpmVerif.Props.C06
open TpmVerif TpmVerif.Model.Cursor

theorem asU32_of_nonneg (i : Int) (h0 : 0 ≤ i) (h1 : i < 4294967296) : asU32 i = i.toNat := by
  unfold asU32; rw [Int.emod_eq_of_lt h0 h1]

/-- **a primitive read never leaves the buffer and keeps the cursor safe** (sizes are < 2^31 as for every real blob) -/
theorem take_safe (c : Cur) (n : Nat) (hs : Safe c) (hb : c.size < 2147483648) (c' : Cur) (h : take c n = .ok c') :
    Safe c' ∧ readInBounds c n ∧ c'.pos = c.pos + n ∧ c'.len = c.len := by
  obtain ⟨h0, h1⟩ := hs
  unfold take at h
  rw [asU32_of_nonneg c.size h0 (by omega)] at h
  by_cases hlt : c.size.toNat < n
  · simp [hlt] at h
  · simp only [hlt, if_false, Res.ok.injEq] at h
    subst h
    unfold Safe readInBounds
    simp only
    refine ⟨⟨by omega, by omega⟩, by omega, trivial, trivial⟩

/-- a primitive read on a safe cursor is refused exactly when fewer than `n` bytes are left -/
theorem take_refuses_iff (c : Cur) (n : Nat) (hs : Safe c) (hb : c.size < 2147483648) :
    take c n = .insufficient ↔ c.len - c.pos < n := by
  obtain ⟨h0, h1⟩ := hs
  unfold take
  rw [asU32_of_nonneg c.size h0 (by omega)]
  by_cases hlt : c.size.toNat < n
  · simp [hlt]; omega
  · simp [hlt]; omega

/-- **the fixed `block_skip_read` keeps the cursor safe for every block size found in the data** -/
theorem skip_safe (c : Cur) (bs : Nat) (hs : Safe c) (hb : c.size < 2147483648) (c' : Cur) (h : skip c bs = .ok c') :
    Safe c' ∧ c'.pos ≤ c'.len := by
  obtain ⟨h0, h1⟩ := hs
  unfold skip at h
  rw [asU32_of_nonneg c.size h0 (by omega)] at h
  by_cases hlt : c.size < 0 ∨ c.size.toNat < bs
  · simp [hlt] at h
  · simp only [hlt, if_false, Res.ok.injEq] at h
    subst h
    unfold Safe
    simp only
    omega

/-- once a cursor is safe, any sequence of fixed skips and primitive reads that succeeds ends safe -/
inductive Step where | take (n : Nat) | skip (bs : Nat)

def run (c : Cur) : List Step → Res
  | [] => .ok c
  | .take n :: rest => match take c n with | .ok c' => run c' rest | .insufficient => .insufficient
  | .skip bs :: rest => match skip c bs with | .ok c' => run c' rest | .insufficient => .insufficient

theorem size_le_of_take (c c' : Cur) (n : Nat) (hs : Safe c) (hb : c.size < 2147483648) (h : take c n = .ok c') : c'.size ≤ c.size := by
  unfold take at h
  rw [asU32_of_nonneg c.size hs.1 (by omega)] at h
  by_cases hlt : c.size.toNat < n
  · simp [hlt] at h
  · simp only [hlt, if_false, Res.ok.injEq] at h; subst h; simp only; omega

theorem size_le_of_skip (c c' : Cur) (n : Nat) (h : skip c n = .ok c') : c'.size ≤ c.size := by
  unfold skip at h
  by_cases hlt : c.size < 0 ∨ asU32 c.size < n
  · simp [hlt] at h
  · simp only [hlt, if_false, Res.ok.injEq] at h; subst h; simp only; omega

/-- **the whole parse stays in bounds**: every successful run of reads and (fixed) skips from a safe cursor ends in a
    safe cursor — for every byte string, since block sizes and lengths are arbitrary here -/
theorem run_safe (steps : List Step) : ∀ (c : Cur), Safe c → c.size < 2147483648 → ∀ c', run c steps = .ok c' → Safe c' := by
  induction steps with
  | nil => intro c hs _ c' h; simp [run] at h; subst h; exact hs
  | cons st rest ih =>
    intro c hs hb c' h
    cases st with
    | take n =>
      simp only [run] at h
      cases ht : take c n with
      | insufficient => simp [ht] at h
      | ok c1 =>
        simp only [ht] at h
        have := take_safe c n hs hb c1 ht
        exact ih c1 this.1 (by have := size_le_of_take c c1 n hs hb ht; omega) c' h
    | skip bs =>
      simp only [run] at h
      cases ht : skip c bs with
      | insufficient => simp [ht] at h
      | ok c1 =>
        simp only [ht] at h
        have := skip_safe c bs hs hb c1 ht
        exact ih c1 this.1 (by have := size_le_of_skip c c1 bs ht; omega) c' h

/-- **the unfixed skip is NOT safe** (the defect found by this check, see known_findings.txt): a 6-byte remainder and a
    block size of 0xffff leave a negative size, which the next `(UINT32)size < 4` test lets through: a 4-byte read
    65 529 bytes past the end of the buffer -/
theorem skipUnchecked_unsafe :
    Safe { pos := 1844, size := 6, len := 1850 } ∧
    (skipUnchecked { pos := 1844, size := 6, len := 1850 } 0xffff).size < 0 ∧
    take (skipUnchecked { pos := 1844, size := 6, len := 1850 } 0xffff) 4 =
      .ok { pos := 1844 + 0xffff + 4, size := 6 - 0xffff - 4, len := 1850 } ∧
    ¬ readInBounds (skipUnchecked { pos := 1844, size := 6, len := 1850 } 0xffff) 4 := by
  refine ⟨⟨by decide, by decide⟩, by decide, by decide, ?_⟩
  unfold readInBounds skipUnchecked; decide

/-! ### the complete verdict of a parse: refused exactly when the bytes do not suffice -/

def Step.size : Step → Nat
  | .take n => n
  | .skip bs => bs

def need (steps : List Step) : Nat := (steps.map Step.size).sum

theorem skip_refuses_iff (c : Cur) (bs : Nat) (hs : Safe c) (hb : c.size < 2147483648) :
    skip c bs = .insufficient ↔ c.len - c.pos < bs := by
  obtain ⟨h0, h1⟩ := hs
  unfold skip
  rw [asU32_of_nonneg c.size h0 (by omega)]
  by_cases hlt : c.size < 0 ∨ c.size.toNat < bs
  · simp [hlt]; omega
  · simp [hlt]; omega

theorem skip_pos (c c' : Cur) (bs : Nat) (h : skip c bs = .ok c') : c'.pos = c.pos + bs ∧ c'.len = c.len := by
  unfold skip at h
  by_cases hlt : c.size < 0 ∨ asU32 c.size < bs
  · simp [hlt] at h
  · simp only [hlt, if_false, Res.ok.injEq] at h; subst h; exact ⟨rfl, rfl⟩

/-- one step, uniformly: refused iff its size exceeds the real remainder; otherwise the cursor advances by it -/
theorem step_verdict (c : Cur) (st : Step) (hs : Safe c) (hb : c.size < 2147483648) :
    (run c [st] = .insufficient ↔ c.len - c.pos < st.size) ∧
    (∀ c', run c [st] = .ok c' → c'.pos = c.pos + st.size ∧ c'.len = c.len ∧ Safe c' ∧ c'.size ≤ c.size) := by
  cases st with
  | take n =>
    refine ⟨?_, ?_⟩
    · show _ ↔ c.len - c.pos < n
      rw [← take_refuses_iff c n hs hb]
      simp only [run]; cases take c n <;> simp
    · intro c' h
      simp only [run] at h
      cases ht : take c n with
      | insufficient => simp [ht] at h
      | ok c1 =>
        simp only [ht, Res.ok.injEq] at h; subst h
        have := take_safe c n hs hb c1 ht
        exact ⟨this.2.2.1, this.2.2.2, this.1, size_le_of_take c c1 n hs hb ht⟩
  | skip bs =>
    refine ⟨?_, ?_⟩
    · show _ ↔ c.len - c.pos < bs
      rw [← skip_refuses_iff c bs hs hb]
      simp only [run]; cases skip c bs <;> simp
    · intro c' h
      simp only [run] at h
      cases ht : skip c bs with
      | insufficient => simp [ht] at h
      | ok c1 =>
        simp only [ht, Res.ok.injEq] at h; subst h
        have := skip_pos c c1 bs ht
        exact ⟨this.1, this.2, (skip_safe c bs hs hb c1 ht).1, size_le_of_skip c c1 bs ht⟩

theorem run_cons (c : Cur) (st : Step) (rest : List Step) :
    run c (st :: rest) = match run c [st] with | .ok c' => run c' rest | .insufficient => .insufficient := by
  cases st <;> simp only [run] <;> split <;> simp_all

/-- **the verdict of a whole parse, for every byte string**: a sequence of reads and skips (with sizes taken from
    the data, hence arbitrary) is accepted exactly when the buffer holds at least the bytes the steps need, and then
    the cursor has advanced by exactly that many bytes and is still inside the buffer -/
theorem run_verdict (steps : List Step) : ∀ (c : Cur), Safe c → c.size < 2147483648 →
    (run c steps = .insufficient ↔ c.len - c.pos < need steps) ∧
    (∀ c', run c steps = .ok c' → c'.pos = c.pos + need steps ∧ c'.len = c.len ∧ c'.pos ≤ c'.len) := by
  induction steps with
  | nil =>
    intro c hs _
    refine ⟨by simp [run, need], ?_⟩
    intro c' h
    simp only [run, Res.ok.injEq] at h; subst h
    have := hs.2
    exact ⟨by simp [need], rfl, by omega⟩
  | cons st rest ih =>
    intro c hs hb
    obtain ⟨hv1, hv2⟩ := step_verdict c st hs hb
    rw [run_cons]
    have hneed : need (st :: rest) = st.size + need rest := by simp [need]
    cases h1 : run c [st] with
    | insufficient =>
      have := hv1.mp h1
      refine ⟨⟨fun _ => by omega, fun _ => rfl⟩, ?_⟩
      intro c' h; simp at h
    | ok c1 =>
      obtain ⟨hp, hl, hsafe, hsz⟩ := hv2 c1 h1
      obtain ⟨i1, i2⟩ := ih c1 hsafe (by omega)
      have hnot : ¬ (c.len - c.pos < st.size) := fun hh => by have := hv1.mpr hh; rw [h1] at this; cases this
      simp only
      refine ⟨?_, ?_⟩
      · rw [i1, hp, hl, hneed]; omega
      · intro c' h
        obtain ⟨j1, j2, j3⟩ := i2 c' h
        exact ⟨by rw [j1, hp, hneed]; omega, by rw [j2, hl], j3⟩

/-- a parse never both accepts and runs short, and it always gives a verdict (totality is by construction: `run`
    is structurally recursive, there is no input on which it does not return) -/
theorem run_accepts_iff (steps : List Step) (c : Cur) (hs : Safe c) (hb : c.size < 2147483648) :
    (∃ c', run c steps = .ok c') ↔ need steps ≤ c.len - c.pos := by
  have h := (run_verdict steps c hs hb).1
  cases hr : run c steps with
  | insufficient =>
    rw [hr] at h; simp at h
    constructor
    · intro hh; obtain ⟨_, h'⟩ := hh; cases h'
    · intro hh; omega
  | ok c1 =>
    rw [hr] at h
    have : ¬ (c.len - c.pos < need steps) := fun hh => by have := h.mpr hh; cases this
    exact ⟨fun _ => by omega, fun _ => ⟨c1, rfl⟩⟩

example : run { pos := 0, size := 10, len := 10 } [.take 2, .skip 4, .take 4] = .ok { pos := 10, size := 0, len := 10 } := by decide
example : run { pos := 0, size := 10, len := 10 } [.take 2, .skip 0xffff, .take 4] = .insufficient := by decide

section Header
open TpmVerif.Model.Blob
/-! ### The outermost header of a blob -/

/-- **exactly when the header is accepted**: the blob holds version and magic, the magic is the expected one, and — from
    version 2 on — it also holds a min_version that is not above what this implementation writes. The version itself is not
    bounded: a newer writer's blob with an acceptable min_version is taken (its extra blocks are skipped). -/
theorem headerRefusal_none_iff (bs : Bytes) (magic cur : Nat) :
    headerRefusal bs magic cur = none ↔
      ∃ v m, rdBE bs 0 2 = some v ∧ rdBE bs 2 4 = some m ∧ m = magic ∧ (v ≥ 2 → ∃ mv, rdBE bs 6 2 = some mv ∧ mv ≤ cur) := by
  unfold headerRefusal
  constructor
  · intro h
    cases h0 : rdBE bs 0 2 with
    | none => simp [h0] at h
    | some v =>
      cases h2 : rdBE bs 2 4 with
      | none => simp [h0, h2] at h
      | some m =>
        simp only [h0, h2] at h
        by_cases hm : m ≠ magic
        · simp [hm] at h
        · have hm' : m = magic := by simpa using hm
          simp only [hm, if_false] at h
          refine ⟨v, m, rfl, rfl, hm', ?_⟩
          intro hv
          simp only [hv, if_true] at h
          cases h6 : rdBE bs 6 2 with
          | none => simp [h6] at h
          | some mv =>
            simp only [h6] at h
            by_cases hgt : mv > cur
            · simp [hgt] at h
            · exact ⟨mv, rfl, by omega⟩
  · rintro ⟨v, m, h0, h2, hm, hv⟩
    simp only [h0, h2]
    have : ¬ m ≠ magic := by simpa using hm
    simp only [this, if_false]
    by_cases hge : v ≥ 2
    · obtain ⟨mv, h6, hle⟩ := hv hge
      have : ¬ mv > cur := by omega
      simp [hge, h6, this]
    · simp [hge]

/-- a blob too short for version and magic is refused -/
theorem headerRefusal_short (bs : Bytes) (magic cur : Nat) (h : bs.length < 6) : headerRefusal bs magic cur = some .insufficient := by
  unfold headerRefusal
  have h2 : rdBE bs 2 4 = none := by unfold rdBE; simp; omega
  cases h0 : rdBE bs 0 2 <;> simp [h2]

/-- another magic is refused whatever else the blob says -/
theorem headerRefusal_magic (bs : Bytes) (magic cur v m : Nat) (h0 : rdBE bs 0 2 = some v) (h2 : rdBE bs 2 4 = some m) (hm : m ≠ magic) :
    headerRefusal bs magic cur = some .badTag := by
  unfold headerRefusal; simp [h0, h2, hm]

/-- the header this implementation writes for the permanent state is accepted; the same with another magic, or with a
    min_version one above, is not; a higher VERSION with the same min_version is -/
example : headerRefusal [0, 4, 0xab, 0x36, 0x47, 0x23, 0, 4] Gen.PERSISTENT_ALL_MAGIC Gen.PERSISTENT_ALL_VERSION = none ∧
    headerRefusal [0, 4, 0xab, 0x36, 0x47, 0x22, 0, 4] Gen.PERSISTENT_ALL_MAGIC Gen.PERSISTENT_ALL_VERSION = some .badTag ∧
    headerRefusal [0, 4, 0xab, 0x36, 0x47, 0x23, 0, 5] Gen.PERSISTENT_ALL_MAGIC Gen.PERSISTENT_ALL_VERSION = some .badVersion ∧
    headerRefusal [0, 9, 0xab, 0x36, 0x47, 0x23, 0, 4] Gen.PERSISTENT_ALL_MAGIC Gen.PERSISTENT_ALL_VERSION = none ∧
    headerRefusal [0, 4, 0xab, 0x36, 0x47, 0x23, 0] Gen.PERSISTENT_ALL_MAGIC Gen.PERSISTENT_ALL_VERSION = some .insufficient := by decide
end Header

end TpmVerif.Props.C06
