import TpmVerif.Model.Session
import TpmVerif.Model.Context
import TpmVerif.Model.ObjCtx
/-!
  C11 — session slots are accounted; a saved session context loads at most once, in order, and the
  truncated context counter is never reused ambiguously.  Theorems about `Model.Session`
  (which follows Session.c), for all states and all sequence numbers incl. the 8-bit and 16-bit wrap.
-/
namespace TpmVerif.Props.C11
open TpmVerif TpmVerif.Model.Session

theorem NLOAD_val : NLOAD = 3 := by decide
theorem NACT_val : NACT = 64 := by decide

def MaskOk (s : St) : Prop := s.mask = 0xff ∨ s.mask = 0xffff

theorem upd_same (f : Nat → Nat) (i v : Nat) : upd f i v i = v := by simp [upd]
theorem upd_other (f : Nat → Nat) (i v j : Nat) (h : j ≠ i) : upd f i v j = f j := by simp [upd, h]

theorem firstFreeSlot_spec (s : St) (slot : Nat) (h : firstFreeSlot s = some slot) :
    slot < NLOAD ∧ s.occ slot = false := by
  unfold firstFreeSlot at h
  have h1 := List.find?_some h
  have h2 := List.mem_of_find?_eq_some h
  simp at h1
  simp [List.mem_range] at h2
  exact ⟨h2, h1⟩

theorem firstFreeHandle_spec (s : St) (hd : Nat) (h : firstFreeHandle s = some hd) :
    hd < NACT ∧ s.arr hd = 0 := by
  unfold firstFreeHandle at h
  have h1 := List.find?_some h
  have h2 := List.mem_of_find?_eq_some h
  simp at h1
  simp [List.mem_range] at h2
  exact ⟨h2, h1⟩

theorem setOldest_arr (s : St) : (setOldest s).arr = s.arr ∧ (setOldest s).counter = s.counter ∧
    (setOldest s).mask = s.mask ∧ (setOldest s).free = s.free ∧ (setOldest s).occ = s.occ := by
  simp [setOldest]

/-! ### A context can be loaded at most once per save, and not after a flush or a TPM Reset -/

/-- a handle whose array entry is not a saved id validates for NO sequence number -/
theorem seqValid_false_of_not_saved (s : St) (h : Nat) (hs : s.arr h ≤ NLOAD) (seq : Nat) :
    seqValid s h seq = false := by
  unfold seqValid
  have : ¬ (s.arr h > NLOAD) := by omega
  simp [this]

/-- characterisation of a successful ContextLoad -/
theorem load_ok_spec (s : St) (h seq : Nat) (hok : (load s h seq).2 = .ok) :
    ∃ slot, firstFreeSlot s = some slot ∧ seqValid s h seq = true ∧ s.free ≠ 0 ∧ (load s h seq).1 = loadOk s h slot := by
  unfold load at *
  by_cases hv : seqValid s h seq = true
  · by_cases hf : s.free = 0
    · simp [hv, hf] at hok
    · cases hs : firstFreeSlot s with
      | none => simp [hv, hf, hs] at hok
      | some slot =>
        by_cases hg : (s.free = 1 && gapWithOldest s && h != s.oldest) = true
        · simp [hv, hf, hs, hg] at hok
        · exact ⟨slot, rfl, hv, hf, by simp [hv, hf, hg]⟩
  · simp [hv] at hok

theorem loadOk_fields (s : St) (h slot : Nat) :
    (loadOk s h slot).arr = upd s.arr h (slot + 1) ∧ (loadOk s h slot).free = s.free - 1 ∧
    (loadOk s h slot).counter = s.counter ∧ (loadOk s h slot).mask = s.mask := by
  unfold loadOk
  by_cases ho : h = s.oldest <;> simp [ho, (setOldest_arr _)]

/-- **load once**: after a successful ContextLoad of (h, seq) the same context — and every other sequence
    number for that handle — is refused until the session is saved again -/
theorem load_once (s : St) (h seq : Nat) (hok : (load s h seq).2 = .ok) (seq' : Nat) :
    seqValid (load s h seq).1 h seq' = false := by
  obtain ⟨slot, hs, _, _, heq⟩ := load_ok_spec s h seq hok
  apply seqValid_false_of_not_saved
  have := (firstFreeSlot_spec s slot hs).1
  rw [heq, (loadOk_fields s h slot).1, upd_same]; omega

/-- characterisation of a successful FlushContext -/
theorem flush_ok_spec (s : St) (h : Nat) (hok : (flush s h).2 = .ok) :
    (flush s h).1.arr = upd s.arr h 0 ∧
    (flush s h).1.free = (if s.arr h > NLOAD then s.free else s.free + 1) := by
  unfold flush at *
  by_cases hb : (!isLoaded s h && !isSaved s h) = true
  · simp [hb] at hok
  · simp only [hb, Bool.false_eq_true, if_false]
    unfold flushOk
    by_cases he : s.arr h > NLOAD
    · by_cases ho : h = s.oldest
      · subst ho; simp only [he, if_true, (setOldest_arr _)]; exact ⟨trivial, trivial⟩
      · simp [he, ho]
    · simp [he]

/-- **not after flush**: a flushed session's context validates for no sequence number -/
theorem flush_kills (s : St) (h : Nat) (hok : (flush s h).2 = .ok) (seq : Nat) :
    seqValid (flush s h).1 h seq = false := by
  apply seqValid_false_of_not_saved
  rw [(flush_ok_spec s h hok).1, upd_same]; omega

/-- **not after a TPM Reset**: Startup(Reset) leaves no saved context valid -/
theorem reset_kills (s : St) (h seq : Nat) : seqValid (startup s true) h seq = false := by
  apply seqValid_false_of_not_saved; simp [startup]

/-- Restart/Resume keep saved contexts but drop every loaded session -/
theorem restart_drops_loaded (s : St) (h : Nat) :
    (startup s false).arr h = 0 ∨ (startup s false).arr h > NLOAD := by
  simp only [startup, Bool.false_eq_true, if_false, (setOldest_arr _).1]
  by_cases hl : s.arr h ≤ NLOAD
  · left; simp [hl]
  · right; simp [hl]; omega

/-! ### Replay across the counter wrap -/

/-- **replay rejected**: if handle `h` is currently saved under sequence number `cur` (its array entry is the
    truncation of `cur`, and the counter has moved past it), then every OLDER sequence number ever issued for that
    handle is refused — also when 2^8 / 2^16 (or any multiple) saves lie in between, i.e. across the wrap of the
    truncated counter. This is where `counter - seq ≤ MAX_CONTEXT_GAP` is load-bearing. -/
theorem replay_rejected (s : St) (hm : MaskOk s) (h cur old : Nat)
    (hcur : s.arr h = masked s cur) (hpast : cur < s.counter) (hold : old < cur) :
    seqValid s h old = false := by
  unfold seqValid
  by_cases heq : s.arr h = masked s old
  · -- same truncation ⇒ at least mask+1 apart ⇒ the gap test fails
    have hgap : ¬ (s.counter - old ≤ s.mask + 1) := by
      unfold masked at *
      rw [hcur] at heq
      cases hm with
      | inl h8 => rw [h8] at heq ⊢; omega
      | inr h16 => rw [h16] at heq ⊢; omega
    simp [hgap]
  · simp [heq]

/-- characterisation of a successful ContextSave -/
theorem save_ok_spec (s : St) (h : Nat) (hok : (save s h).2.1 = .ok) :
    isLoaded s h = true ∧ gapWithOldest s = false ∧ (s.counter + 1) % W64 ≠ 0 ∧
    (save s h).2.2 = s.counter ∧ (save s h).1 = saveOk s h := by
  unfold save at *
  by_cases hl : isLoaded s h = true
  · by_cases hg : gapWithOldest s = true
    · simp [hl, hg] at hok
    · by_cases hc : (s.counter + 1) % W64 = 0
      · simp [hl, hg, hc] at hok
      · simp [hl, hg, hc]
  · simp [hl] at hok

theorem bumpCounter_val (s : St) (hnw : s.counter + NLOAD + 2 < W64) :
    bumpCounter s = (if (s.counter + 1) % (s.mask + 1) = 0 then s.counter + 1 + NLOAD + 1 else s.counter + 1) := by
  have hc1 : (s.counter + 1) % W64 = s.counter + 1 := Nat.mod_eq_of_lt (by omega)
  have hc2 : (s.counter + 1 + NLOAD + 1) % W64 = s.counter + 1 + NLOAD + 1 :=
    Nat.mod_eq_of_lt (by rw [NLOAD_val] at *; omega)
  unfold bumpCounter
  simp only [hc1, hc2]

/-- the sequence number handed out by a successful ContextSave is the current counter, the array entry is its
    truncation, and the counter moves strictly forward (so `replay_rejected` applies to all earlier saves) -/
theorem save_assigns (s : St) (h : Nat) (hok : (save s h).2.1 = .ok) (hnw : s.counter + NLOAD + 2 < W64) :
    (save s h).2.2 = s.counter ∧ (save s h).1.arr h = masked s s.counter ∧ s.counter < (save s h).1.counter ∧
    (save s h).1.mask = s.mask := by
  obtain ⟨_, _, _, h1, h2⟩ := save_ok_spec s h hok
  refine ⟨h1, by rw [h2]; simp [saveOk, upd_same], ?_, by rw [h2]; rfl⟩
  rw [h2]
  show s.counter < bumpCounter s
  rw [bumpCounter_val s hnw]; split <;> omega

/-- **no ambiguous reuse**: ContextSave reports TPM_RC_CONTEXT_GAP instead of assigning an id equal to the
    oldest saved context's id; when it succeeds, the id it assigned differs from that of the oldest saved context -/
theorem save_gap_or_distinct (s : St) (h : Nat) (hl : isLoaded s h = true) :
    (gapWithOldest s = true → (save s h).2.1 = .contextGap ∧ (save s h).1 = s) ∧
    ((save s h).2.1 = .ok → s.oldest < NACT → masked s s.counter ≠ s.arr s.oldest) := by
  unfold save
  simp only [hl, Bool.not_true, Bool.false_eq_true, if_false]
  constructor
  · intro hg; simp [hg]
  · intro hok ho
    by_cases hg : gapWithOldest s
    · simp [hg] at hok
    · unfold gapWithOldest at hg
      simp [ho] at hg
      exact hg

/-- a refused ContextSave (gap or bad handle) has no effect -/
theorem save_fail_no_effect (s : St) (h : Nat) (hne : (save s h).2.1 = .contextGap ∨ (save s h).2.1 = .badHandle) :
    (save s h).1 = s := by
  unfold save at *
  by_cases hl : isLoaded s h = true
  · by_cases hg : gapWithOldest s = true
    · simp [hl, hg]
    · by_cases hc : (s.counter + 1) % W64 = 0
      · simp [hl, hg, hc] at hne
      · simp [hl, hg, hc] at hne
  · simp [hl]

/-! ### Slot accounting -/

/-- creating a session takes exactly one free slot, the slot it marks occupied was free, and the handle it
    assigns was unused -/
theorem create_accounting (s : St) (hok : (create s).2.1 = .ok) :
    (create s).1.free + 1 = s.free ∧ s.arr (create s).2.2 = 0 ∧ (create s).2.2 < NACT ∧
    0 < (create s).1.arr (create s).2.2 ∧ (create s).1.arr (create s).2.2 ≤ NLOAD := by
  unfold create at *
  by_cases hf : s.free = 0
  · simp [hf] at hok
  · cases hs : firstFreeSlot s with
    | none => simp [hf, hs] at hok
    | some slot =>
      by_cases hg : (s.free = 1 && gapWithOldest s) = true
      · simp [hf, hs, hg] at hok
      · cases hh : firstFreeHandle s with
        | none => simp [hf, hs, hg, hh] at hok
        | some hd =>
          have hslot := (firstFreeSlot_spec s slot hs).1
          have hspec := firstFreeHandle_spec s hd hh
          simp only [hf, hg, Bool.false_eq_true, if_false, createOk, upd_same]
          refine ⟨by omega, hspec.2, hspec.1, by omega, by omega⟩

/-- StartAuthSession is refused with TPM_RC_SESSION_MEMORY exactly when no slot is free: the number of loaded
    sessions never exceeds the advertised limit -/
theorem create_refused_when_full (s : St) (h : s.free = 0) : (create s).2.1 = .sessionMemory ∧ (create s).1 = s := by
  simp [create, h]

/-- saving a loaded session frees exactly one slot -/
theorem save_frees (s : St) (h : Nat) (hok : (save s h).2.1 = .ok) :
    (save s h).1.free = s.free + 1 := by
  rw [(save_ok_spec s h hok).2.2.2.2]; rfl

/-- flushing a loaded session frees exactly one slot; flushing a saved one frees the handle only -/
theorem flush_frees (s : St) (h : Nat) (hok : (flush s h).2 = .ok) :
    (flush s h).1.arr h = 0 ∧
    (s.arr h ≤ NLOAD → (flush s h).1.free = s.free + 1) ∧ (s.arr h > NLOAD → (flush s h).1.free = s.free) := by
  obtain ⟨h1, h2⟩ := flush_ok_spec s h hok
  refine ⟨by rw [h1, upd_same], ?_, ?_⟩
  · intro hl; rw [h2]; have : ¬ s.arr h > NLOAD := by omega
    simp [this]
  · intro hl; rw [h2]; simp [hl]

/-- loading takes exactly one free slot and is refused when none is free -/
theorem load_accounting (s : St) (h seq : Nat) :
    ((load s h seq).2 = .ok → (load s h seq).1.free + 1 = s.free) ∧
    (seqValid s h seq = true → s.free = 0 → (load s h seq).2 = .sessionMemory ∧ (load s h seq).1 = s) := by
  constructor
  · intro hok
    obtain ⟨slot, _, _, hf, heq⟩ := load_ok_spec s h seq hok
    rw [heq, (loadOk_fields s h slot).2.1]; omega
  · intro hv hf; simp [load, hv, hf]

/-- the counter never takes a truncated value that could be mistaken for a loaded-slot number -/
theorem save_keeps_counter_clear (s : St) (hm : MaskOk s) (h : Nat) (hok : (save s h).2.1 = .ok)
    (hinv : masked s s.counter > NLOAD) (hnw : s.counter + NLOAD + 2 < W64) :
    masked (save s h).1 (save s h).1.counter > NLOAD := by
  rw [(save_ok_spec s h hok).2.2.2.2]
  show (bumpCounter s) % (s.mask + 1) > NLOAD
  rw [bumpCounter_val s hnw]
  unfold masked at hinv
  rw [NLOAD_val] at *
  cases hm with
  | inl h8 => rw [h8] at hinv ⊢; split <;> omega
  | inr h16 => rw [h16] at hinv ⊢; split <;> omega

/-! ### non-vacuity -/
example : (create ({} : St)).2.1 = .ok := by decide
example : MaskOk ({} : St) := Or.inr rfl
example : masked ({} : St) ({} : St).counter > NLOAD := by decide

/-! ### Protection of the saved context (Context_spt.c) -/
section protection
open TpmVerif.Model.Context

theorem beBytes_length (n len : Nat) : (beBytes n len).length = len := by simp [beBytes]

/-- **exact acceptance condition**: a context blob is accepted only if its integrity field IS the HMAC under the
    hierarchy proof over (totalResetCount ‖ [clearCount] ‖ sequence ‖ handle ‖ encrypted blob) and it decrypts, under the
    key derived from proof, sequence and handle, to a blob that starts with its sequence number -/
theorem accepts_condition (proof : Bytes) (total clear seq handle : Nat) (blob : Bytes) (h : accepts proof total clear seq handle blob = true) :
    ∃ integ enc, splitBlob blob = some (integ, enc) ∧ integ = integrity proof total clear seq handle enc ∧
      ((TpmVerif.Crypto.cfbDecrypt (TpmVerif.Crypto.aesEncryptBlock (protectionKey proof seq handle).1) (protectionKey proof seq handle).2 enc).1.take 8) = leBytes seq 8 := by
  unfold accepts at h
  cases hs : splitBlob blob with
  | none => simp [hs] at h
  | some p =>
    obtain ⟨integ, enc⟩ := p
    simp only [hs, Bool.and_eq_true, beq_iff_eq] at h
    exact ⟨integ, enc, rfl, h.1, h.2⟩

/-- the HMAC input binds every field: for ordinary handles it determines the reset count, the sequence number, the
    handle and every byte of the encrypted blob (fixed-width fields, then the blob) -/
theorem integrityInput_inj (total total' clear clear' seq seq' handle handle' : Nat) (enc enc' : Bytes)
    (hh : handle ≠ 0x80000002) (hh' : handle' ≠ 0x80000002)
    (h : integrityInput total clear seq handle enc = integrityInput total' clear' seq' handle' enc') :
    beBytes total Gen.SIZEOF_TOTAL_RESET_COUNT = beBytes total' Gen.SIZEOF_TOTAL_RESET_COUNT ∧
    beBytes seq 8 = beBytes seq' 8 ∧ beBytes handle 4 = beBytes handle' 4 ∧ enc = enc' := by
  unfold integrityInput at h
  simp only [hh, hh', if_false, List.append_nil, List.append_assoc] at h
  obtain ⟨h1, h2⟩ := List.append_inj h (by simp [beBytes_length])
  obtain ⟨h3, h4⟩ := List.append_inj h2 (by simp [beBytes_length])
  obtain ⟨h5, h6⟩ := List.append_inj h4 (by simp [beBytes_length])
  exact ⟨h1, h3, h5, h6⟩

/-- a blob without a complete integrity field is never accepted -/
theorem short_blob_rejected (proof : Bytes) (total clear seq handle : Nat) (blob : Bytes) (h : splitBlob blob = none) :
    accepts proof total clear seq handle blob = false := by simp [accepts, h]

end protection

end TpmVerif.Props.C11

/-! ### Saved object contexts: what ends their life -/

namespace TpmVerif.Props.C11.ObjCtx
open TpmVerif.Model.ObjCtx

/-- counters and generations never go down, whatever happens -/
theorem bump_ge (g : Hier → Nat) (h x : Hier) : g x ≤ bump g h x := by
  unfold bump; split <;> omega

theorem step_mono (n : Now) (e : Event) : n.total ≤ (step n e).total ∧ ∀ h, n.gen h ≤ (step n e).gen h := by
  cases e with
  | resume => simp [step]
  | restart => simp [step]
  | reset => exact ⟨by simp [step], fun h => by simpa [step] using bump_ge n.gen .null h⟩
  | clear => exact ⟨by simp [step], fun h => by
      simp only [step]; exact Nat.le_trans (bump_ge n.gen .owner h) (bump_ge _ .endorsement h)⟩
  | changeEPS => exact ⟨by simp [step], fun h => by simpa [step] using bump_ge n.gen .endorsement h⟩
  | changePPS => exact ⟨by simp [step], fun h => by simpa [step] using bump_ge n.gen .platform h⟩
  | control h v => simp [step]

theorem run_mono (es : List Event) : ∀ (n : Now), n.total ≤ (run n es).total ∧ ∀ h, n.gen h ≤ (run n es).gen h := by
  induction es with
  | nil => intro n; simp [run]
  | cons e es ih =>
    intro n
    have h1 := step_mono n e
    have h2 := ih (step n e)
    simp only [run, List.foldl] at h2 ⊢
    exact ⟨Nat.le_trans h1.1 h2.1, fun h => Nat.le_trans (h1.2 h) (h2.2 h)⟩

/-- **an object context does not load after a TPM Reset**, whatever else happens before or after it -/
theorem not_after_reset (n : Now) (h : Hier) (st : Bool) (before after : List Event) :
    load (save n h st) (run (step (run n before) .reset) after) = .integrity := by
  have h1 := (run_mono before n).1
  have h2 := (run_mono after (step (run n before) .reset)).1
  have h3 : (step (run n before) .reset).total = (run n before).total + 1 := by simp [step]
  have : (save n h st).total ≠ (run (step (run n before) .reset) after).total := by simp [save]; omega
  simp [load, intact, this]

/-- the hierarchies whose proof an event replaces -/
def replaces : Event → Hier → Bool
  | .clear, .owner => true
  | .clear, .endorsement => true
  | .changeEPS, .endorsement => true
  | .changePPS, .platform => true
  | .reset, .null => true
  | _, _ => false

theorem replaces_bumps (n : Now) (e : Event) (h : Hier) (hr : replaces e h = true) : (step n e).gen h = n.gen h + 1 := by
  cases e <;> cases h <;> simp [replaces] at hr <;> simp [step, bump]

/-- **an object context does not load after its hierarchy was cleared** (TPM2_Clear for owner and endorsement, ChangeEPS for
    endorsement, ChangePPS for platform, a Reset for the null hierarchy), whatever else happens before or after -/
theorem not_after_proof_replaced (n : Now) (h : Hier) (st : Bool) (e : Event) (hr : replaces e h = true) (before after : List Event) :
    load (save n h st) (run (step (run n before) e) after) = .integrity := by
  have h1 := (run_mono before n).2 h
  have h2 := (run_mono after (step (run n before) e)).2 h
  have h3 := replaces_bumps (run n before) e h hr
  have : (save n h st).gen ≠ (run (step (run n before) e) after).gen (save n h st).hier := by simp [save]; omega
  simp [load, intact, this]

/-- **an object context does not load while its hierarchy is disabled** -/
theorem not_while_disabled (c : Ctx) (n : Now) (hd : n.enabled c.hier = false) : load c n ≠ .ok := by
  unfold load; split
  · simp
  · simp [hd]

/-- an stClear object's context does not survive a TPM Restart (until the next Reset, which ends it anyway) -/
theorem stclear_not_after_restart (n : Now) (h : Hier) (before : List Event) :
    load (save n h true) (step (run n before) .restart) = .integrity ∨ (run n before).clear + 1 = n.clear := by
  by_cases hc : (run n before).clear + 1 = n.clear
  · exact Or.inr hc
  · left
    have : ¬ (n.clear = (run n before).clear + 1) := fun h' => hc h'.symm
    simp [load, intact, save, step, this]

/-- what keeps a context alive: nothing it is bound to has changed and the hierarchy is enabled -/
theorem loads_iff (c : Ctx) (n : Now) :
    load c n = .ok ↔ (c.total = n.total ∧ c.gen = n.gen c.hier ∧ (c.stClear = true → c.clear = n.clear) ∧ n.enabled c.hier = true) := by
  unfold load intact
  by_cases h1 : c.total = n.total <;> by_cases h2 : c.gen = n.gen c.hier <;> by_cases h3 : c.clear = n.clear <;>
    cases hs : c.stClear <;> cases he : n.enabled c.hier <;> simp [h1, h2, h3]

/-- the positive side: a loadable context stays loadable through every event that is not a Reset, does not replace its
    hierarchy's proof, does not disable its hierarchy, and — for an stClear object — is not a Restart (nor a TPM2_Clear
    that changes the restart count, which TPM2_Clear sets to 0) -/
theorem survives (c : Ctx) (n : Now) (e : Event) (hl : load c n = .ok) (hr : replaces e c.hier = false) (hreset : e ≠ .reset)
    (hst : e = .restart → c.stClear = false) (hclr : e = .clear → c.stClear = true → c.clear = 0)
    (hdis : e ≠ .control c.hier false) : load c (step n e) = .ok := by
  obtain ⟨h1, h2, h3, h4⟩ := (loads_iff c n).mp hl
  apply (loads_iff c (step n e)).mpr
  cases e with
  | resume => exact ⟨h1, h2, h3, h4⟩
  | restart => exact ⟨h1, h2, fun hs => by simp [hst rfl] at hs, by simp [step]⟩
  | reset => exact absurd rfl hreset
  | clear =>
    have h3' : c.stClear = true → c.clear = 0 := hclr rfl
    cases hh : c.hier <;> simp [replaces, hh] at hr
    all_goals (refine ⟨h1, ?_, ?_, ?_⟩ <;> simp [step, bump, setEn, hh] <;> simp [hh] at h2 h4 <;> first | assumption | exact h3')
  | changeEPS =>
    cases hh : c.hier <;> simp [replaces, hh] at hr
    all_goals (refine ⟨h1, ?_, h3, ?_⟩ <;> simp [step, bump, setEn, hh] <;> simp [hh] at h2 h4 <;> assumption)
  | changePPS =>
    cases hh : c.hier <;> simp [replaces, hh] at hr
    all_goals (refine ⟨h1, ?_, h3, ?_⟩ <;> simp [step, bump, setEn, hh] <;> simp [hh] at h2 h4 <;> assumption)
  | control h v =>
    refine ⟨h1, h2, h3, ?_⟩
    simp only [step, setEn]
    by_cases hx : c.hier = h
    · subst hx
      cases v with
      | true => simp
      | false => exact absurd rfl hdis
    · simp [hx, h4]

/-- as coded (same in the TCG reference code): TPM2_Clear puts the restart count back to 0, so the context of an stClear
    object of the platform or null hierarchy saved before any Restart is refused after a Restart and accepted again after
    a later TPM2_Clear — recorded as an observation; the property speaks of Reset, cleared and disabled hierarchies -/
example : load (save {} .null true) (step {} .restart) = .integrity ∧
          load (save {} .null true) (step (step {} .restart) .clear) = .ok := by decide

end TpmVerif.Props.C11.ObjCtx

