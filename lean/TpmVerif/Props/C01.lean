import TpmVerif.Model.Frame
/-!
  C01 — TPM 2 command processing always answers well-formed (framing layer).
-/
namespace TpmVerif.Props.C01
open TpmVerif TpmVerif.Model.Frame

/-- a well-formed error response: exactly 10 bytes, tag NO_SESSIONS, size field 10, the code in place -/
def ErrWellFormed (r : Bytes) (rc : Nat) : Prop :=
  r.length = 10 ∧ rdBE r 0 2 = some Gen.TPM_ST_NO_SESSIONS ∧ rdBE r 2 4 = some 10 ∧ rdBE r 6 4 = some rc

/-- **every error comes as a bare 10-byte header** -/
theorem errHeader_wf (rc : Nat) (h : rc < 4294967296) : ErrWellFormed (errHeader rc) rc := by
  unfold ErrWellFormed errHeader
  refine ⟨by simp [be16_length, be32_length], ?_, ?_, ?_⟩
  · simp [rdBE, be16, be32, beNat, Gen.TPM_ST_NO_SESSIONS]
  · simp [rdBE, be16, be32, beNat]
  · have e : ((be16 Gen.TPM_ST_NO_SESSIONS ++ be32 10 ++ be32 rc).drop 6).take 4 = be32 rc := by simp [be16, be32]
    have hl : 6 + 4 ≤ (be16 Gen.TPM_ST_NO_SESSIONS ++ be32 10 ++ be32 rc).length := by simp [be16_length, be32_length]
    unfold rdBE
    simp only [hl, if_true, e, beNat_be32 rc h]

/-- the codes the header checks can produce are all 32-bit values -/
theorem frameCheck_rc_small (req : Bytes) (st : Bool) (rc : Nat) (h : frameCheck req st = some rc) : rc < 4294967296 := by
  unfold frameCheck at h
  repeat' (split at h)
  all_goals (first | (simp at h; subst h; decide) | simp at h)

/-- **whenever a header check fails, the model's response is a well-formed bare error header** — for every byte string -/
theorem frame_error_wellformed (req : Bytes) (st : Bool) (r : Bytes) (h : frameResponse req st = some r) :
    ∃ rc, frameCheck req st = some rc ∧ ErrWellFormed r rc := by
  unfold frameResponse at h
  cases hc : frameCheck req st with
  | none => simp [hc] at h
  | some rc =>
    simp [hc] at h
    exact ⟨rc, rfl, by rw [← h]; exact errHeader_wf rc (frameCheck_rc_small req st rc hc)⟩

/-- a request shorter than a header is always refused -/
theorem short_request_refused (req : Bytes) (st : Bool) (h : req.length < 10) : (frameCheck req st).isSome = true := by
  unfold frameCheck
  cases h0 : rdBE req 0 2 with
  | none => simp
  | some tag =>
    simp only
    split
    · simp
    · split
      · simp
      · cases h1 : rdBE req 2 4 with
      | none => simp
      | some size =>
        simp only
        split
        · simp
        · cases h2 : rdBE req 6 4 with
          | none => simp
          | some cc =>
            exfalso
            unfold rdBE at h2
            split at h2
            · omega
            · simp at h2

/-- a command code that is not in the (generated) table is answered TPM_RC_COMMAND_CODE whatever follows it -/
theorem unknown_cc_refused (req : Bytes) (st : Bool) (tag cc : Nat)
    (htag : rdBE req 0 2 = some tag) (ht : tag = Gen.TPM_ST_NO_SESSIONS ∨ tag = Gen.TPM_ST_SESSIONS)
    (hsize : rdBE req 2 4 = some req.length) (hmax : req.length ≤ Gen.MAX_COMMAND_SIZE)
    (hcc : rdBE req 6 4 = some cc) (hun : lookup cc = none) :
    frameCheck req st = some Gen.TPM_RC_COMMAND_CODE := by
  unfold frameCheck
  rw [htag]
  have h0 : Gen.stValid.contains tag = true := by
    cases ht with
    | inl a => subst a; decide
    | inr b => subst b; decide
  simp only [h0, Bool.not_true, Bool.false_eq_true, if_false]
  have h1 : ¬ (tag ≠ Gen.TPM_ST_NO_SESSIONS ∧ tag ≠ Gen.TPM_ST_SESSIONS) := by
    intro h; cases ht with
    | inl a => exact h.1 a
    | inr b => exact h.2 b
  simp only [h1, if_false, hsize]
  have h2 : ¬ (req.length ≠ req.length ∨ req.length > Gen.MAX_COMMAND_SIZE) := by
    intro h; cases h with
    | inl a => exact a rfl
    | inr b => omega
  simp only [h2, if_false, hcc, hun]

/-! ### The response parsers only ever consume: no parser returns more bytes than it was given -/

def Shrinks (p : P) : Prop := ∀ bs r, p bs = some r → r.length ≤ bs.length

theorem pN_shrinks (n : Nat) : Shrinks (pN n) := by
  intro bs r h; unfold pN at h; split at h <;> simp at h; subst h; simp

theorem pB2_shrinks : Shrinks pB2 := by
  intro bs r h; unfold pB2 at h
  split at h
  · exact pN_shrinks _ bs r h
  · simp at h

theorem pRep_shrinks (p : P) (hp : Shrinks p) (n : Nat) : Shrinks (pRep p n) := by
  induction n with
  | zero => intro bs r h; simp [pRep] at h; subst h; exact Nat.le_refl _
  | succ k ih =>
    intro bs r h
    simp only [pRep] at h
    cases hq : p bs with
    | none => simp [hq] at h
    | some m =>
      simp only [hq, Option.bind] at h
      exact Nat.le_trans (ih m r h) (hp bs m hq)

theorem pSeq_shrinks (ps : List P) (hps : ∀ p ∈ ps, Shrinks p) : Shrinks (pSeq ps) := by
  unfold pSeq
  suffices h : ∀ (acc : Option Bytes) (bs : Bytes), (∀ a, acc = some a → a.length ≤ bs.length) →
      ∀ r, ps.foldl (fun acc p => acc.bind p) acc = some r → r.length ≤ bs.length by
    intro bs r hr; exact h (some bs) bs (fun a ha => by simp at ha; subst ha; exact Nat.le_refl _) r hr
  induction ps with
  | nil => intro acc bs hacc r hr; simp at hr; exact hacc r hr
  | cons p rest ih =>
    intro acc bs hacc r hr
    simp only [List.foldl] at hr
    apply ih (fun q hq => hps q (List.mem_cons_of_mem _ hq)) (acc.bind p) bs _ r hr
    intro a ha
    cases acc with
    | none => simp at ha
    | some x =>
      simp only [Option.bind] at ha
      exact Nat.le_trans (hps p List.mem_cons_self x a ha) (hacc x rfl)

theorem pList32_shrinks (p : P) (hp : Shrinks p) : Shrinks (pList32 p) := by
  intro bs r h; unfold pList32 at h
  split at h
  · split at h
    · have := pRep_shrinks p hp _ _ r h; simp at this; omega
    · simp at h
  · simp at h

/-! non-vacuity -/
example : frameCheck [0x80, 0x01, 0, 0, 0, 10, 0, 0, 0x01, 0x7B] true = none := by decide
example : frameCheck [0x80, 0x03, 0, 0, 0, 10, 0, 0, 0x01, 0x7B] true = some Gen.TPM_RC_VALUE := by decide
example : frameCheck [0x80, 0x24, 0, 0, 0, 10, 0, 0, 0x01, 0x7B] true = some Gen.TPM_RC_BAD_TAG := by decide
example : frameCheck [0x80, 0x01, 0, 0, 0, 10, 0, 0, 0x01, 0x7B] false = some Gen.TPM_RC_INITIALIZE := by decide

end TpmVerif.Props.C01
