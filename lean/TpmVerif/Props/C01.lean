import TpmVerif.Model.Frame
/-!
  C01 — TPM 2 command processing always answers well-formed (framing layer).
-/
namespace TpmVerif.Props.C01
open TpmVerif TpmVerif.Model.Frame

/-- a well-formed error response: exactly 10 bytes, tag NO_SESSIONS, size field 10, the code in place -/
def ErrWellFormed (r : Bytes) (rc : Nat) : Prop :=
  r.length = 10 ∧ rdBE r 0 2 = some Gen.TPM_ST_NO_SESSIONS ∧ rdBE r 2 4 = some 10 ∧ rdBE r 6 4 = some rc

/-- **every error comes as a bare 10-byte header** -/
theorem errHeader_wf (rc : Nat) (h : rc < 4294967296) : ErrWellFormed (errHeader rc) rc := by
  unfold ErrWellFormed errHeader
  refine ⟨by simp [be16_length, be32_length], ?_, ?_, ?_⟩
  · simp [rdBE, be16, be32, beNat, Gen.TPM_ST_NO_SESSIONS]
  · simp [rdBE, be16, be32, beNat]
  · have e : ((be16 Gen.TPM_ST_NO_SESSIONS ++ be32 10 ++ be32 rc).drop 6).take 4 = be32 rc := by simp [be16, be32]
    have hl : 6 + 4 ≤ (be16 Gen.TPM_ST_NO_SESSIONS ++ be32 10 ++ be32 rc).length := by simp [be16_length, be32_length]
    unfold rdBE
    simp only [hl, if_true, e, beNat_be32 rc h]

/-- the codes the header checks can produce are all 32-bit values -/
theorem frameCheck_rc_small (req : Bytes) (st : Bool) (rc : Nat) (h : frameCheck req st = some rc) : rc < 4294967296 := by
  unfold frameCheck at h
  repeat' (split at h)
  all_goals (first | (simp at h; subst h; decide) | simp at h)

/-- **whenever a header check fails, the model's response is a well-formed bare error header** — for every byte string -/
theorem frame_error_wellformed (req : Bytes) (st : Bool) (r : Bytes) (h : frameResponse req st = some r) :
    ∃ rc, frameCheck req st = some rc ∧ ErrWellFormed r rc := by
  unfold frameResponse at h
  cases hc : frameCheck req st with
  | none => simp [hc] at h
  | some rc =>
    simp [hc] at h
    exact ⟨rc, rfl, by rw [← h]; exact errHeader_wf rc (frameCheck_rc_small req st rc hc)⟩

/-- a request shorter than a header is always refused -/
theorem short_request_refused (req : Bytes) (st : Bool) (h : req.length < 10) : (frameCheck req st).isSome = true := by
  unfold frameCheck
  cases h0 : rdBE req 0 2 with
  | none => simp
  | some tag =>
    simp only
    split
    · simp
    · split
      · simp
      · cases h1 : rdBE req 2 4 with
      | none => simp
      | some size =>
        simp only
        split
        · simp
        · cases h2 : rdBE req 6 4 with
          | none => simp
          | some cc =>
            exfalso
            unfold rdBE at h2
            split at h2
            · omega
            · simp at h2

/-- a command code that is not in the (generated) table is answered TPM_RC_COMMAND_CODE whatever follows it -/
theorem unknown_cc_refused (req : Bytes) (st : Bool) (tag cc : Nat)
    (htag : rdBE req 0 2 = some tag) (ht : tag = Gen.TPM_ST_NO_SESSIONS ∨ tag = Gen.TPM_ST_SESSIONS)
    (hsize : rdBE req 2 4 = some req.length) (hmax : req.length ≤ Gen.MAX_COMMAND_SIZE)
    (hcc : rdBE req 6 4 = some cc) (hun : lookup cc = none) :
    frameCheck req st = some Gen.TPM_RC_COMMAND_CODE := by
  unfold frameCheck
  rw [htag]
  have h0 : Gen.stValid.contains tag = true := by
    cases ht with
    | inl a => subst a; decide
    | inr b => subst b; decide
  simp only [h0, Bool.not_true, Bool.false_eq_true, if_false]
  have h1 : ¬ (tag ≠ Gen.TPM_ST_NO_SESSIONS ∧ tag ≠ Gen.TPM_ST_SESSIONS) := by
    intro h; cases ht with
    | inl a => exact h.1 a
    | inr b => exact h.2 b
  simp only [h1, if_false, hsize]
  have h2 : ¬ (req.length ≠ req.length ∨ req.length > Gen.MAX_COMMAND_SIZE) := by
    intro h; cases h with
    | inl a => exact a rfl
    | inr b => omega
  simp only [h2, if_false, hcc, hun]

/-! ### The response parsers only ever consume: no parser returns more bytes than it was given -/

def Shrinks (p : P) : Prop := ∀ bs r, p bs = some r → r.length ≤ bs.length

theorem pN_shrinks (n : Nat) : Shrinks (pN n) := by
  intro bs r h; unfold pN at h; split at h <;> simp at h; subst h; simp

theorem pB2_shrinks : Shrinks pB2 := by
  intro bs r h; unfold pB2 at h
  split at h
  · exact pN_shrinks _ bs r h
  · simp at h

theorem pRep_shrinks (p : P) (hp : Shrinks p) (n : Nat) : Shrinks (pRep p n) := by
  induction n with
  | zero => intro bs r h; simp [pRep] at h; subst h; exact Nat.le_refl _
  | succ k ih =>
    intro bs r h
    simp only [pRep] at h
    cases hq : p bs with
    | none => simp [hq] at h
    | some m =>
      simp only [hq, Option.bind] at h
      exact Nat.le_trans (ih m r h) (hp bs m hq)

theorem pSeq_shrinks (ps : List P) (hps : ∀ p ∈ ps, Shrinks p) : Shrinks (pSeq ps) := by
  unfold pSeq
  suffices h : ∀ (acc : Option Bytes) (bs : Bytes), (∀ a, acc = some a → a.length ≤ bs.length) →
      ∀ r, ps.foldl (fun acc p => acc.bind p) acc = some r → r.length ≤ bs.length by
    intro bs r hr; exact h (some bs) bs (fun a ha => by simp at ha; subst ha; exact Nat.le_refl _) r hr
  induction ps with
  | nil => intro acc bs hacc r hr; simp at hr; exact hacc r hr
  | cons p rest ih =>
    intro acc bs hacc r hr
    simp only [List.foldl] at hr
    apply ih (fun q hq => hps q (List.mem_cons_of_mem _ hq)) (acc.bind p) bs _ r hr
    intro a ha
    cases acc with
    | none => simp at ha
    | some x =>
      simp only [Option.bind] at ha
      exact Nat.le_trans (hps p List.mem_cons_self x a ha) (hacc x rfl)

theorem pList32_shrinks (p : P) (hp : Shrinks p) : Shrinks (pList32 p) := by
  intro bs r h; unfold pList32 at h
  split at h
  · split at h
    · have := pRep_shrinks p hp _ _ r h; simp at this; omega
    · simp at h
  · simp at h

/-- a parser that is `pN` of something depending on the input -/
theorem pN_dep_shrinks (f : Bytes → Nat) : Shrinks (fun bs => pN (f bs) bs) := by
  intro bs r h; exact pN_shrinks _ bs r h

theorem pHA_shrinks : Shrinks pHA := by
  intro bs r h; unfold pHA at h
  split at h
  · split at h
    · exact pN_shrinks _ bs r h
    · simp at h
  · simp at h

theorem pPcrSelection_shrinks : Shrinks pPcrSelection := by
  intro bs r h; unfold pPcrSelection at h
  split at h
  · exact pN_shrinks _ bs r h
  · simp at h

theorem pTaggedPcr_shrinks : Shrinks pTaggedPcr := by
  intro bs r h; unfold pTaggedPcr at h
  split at h
  · exact pN_shrinks _ bs r h
  · simp at h

theorem pTicket_shrinks : Shrinks pTicket := by
  unfold pTicket; apply pSeq_shrinks; intro p hp
  simp only [List.mem_cons, List.mem_nil_iff, or_false] at hp
  rcases hp with rfl | rfl | rfl
  · exact pN_shrinks _
  · exact pN_shrinks _
  · exact pB2_shrinks

theorem pContext_shrinks : Shrinks pContext := by
  unfold pContext; apply pSeq_shrinks; intro p hp
  simp only [List.mem_cons, List.mem_nil_iff, or_false] at hp
  rcases hp with rfl | rfl | rfl | rfl
  · exact pN_shrinks _
  · exact pN_shrinks _
  · exact pN_shrinks _
  · exact pB2_shrinks

theorem pSignature_shrinks : Shrinks pSignature := by
  intro bs r h; unfold pSignature at h
  split at h
  · split at h
    · exact pN_shrinks _ bs r h
    · split at h
      · refine pSeq_shrinks _ ?_ bs r h
        intro p hp; simp only [List.mem_cons, List.mem_nil_iff, or_false] at hp
        rcases hp with rfl | rfl | rfl
        · exact pN_shrinks _
        · exact pN_shrinks _
        · exact pB2_shrinks
      · split at h
        · refine pSeq_shrinks _ ?_ bs r h
          intro p hp; simp only [List.mem_cons, List.mem_nil_iff, or_false] at hp
          rcases hp with rfl | rfl | rfl | rfl
          · exact pN_shrinks _
          · exact pN_shrinks _
          · exact pB2_shrinks
          · exact pB2_shrinks
        · split at h
          · refine pSeq_shrinks _ ?_ bs r h
            intro p hp; simp only [List.mem_cons, List.mem_nil_iff, or_false] at hp
            rcases hp with rfl | rfl
            · exact pN_shrinks _
            · exact pHA_shrinks
          · simp at h
  · simp at h

theorem pKdfScheme_shrinks : Shrinks pKdfScheme := by
  intro bs r h; unfold pKdfScheme at h
  split at h
  · split at h <;> exact pN_shrinks _ bs r h
  · simp at h

theorem pEccScheme_shrinks : Shrinks pEccScheme := by
  intro bs r h; unfold pEccScheme at h
  split at h
  · split at h
    · exact pN_shrinks _ bs r h
    · split at h <;> exact pN_shrinks _ bs r h
  · simp at h

theorem pEccDetail_shrinks : Shrinks pEccDetail := by
  unfold pEccDetail; apply pSeq_shrinks; intro p hp
  simp only [List.mem_cons, List.mem_nil_iff, or_false] at hp
  rcases hp with rfl | rfl | rfl | rfl | rfl | rfl | rfl | rfl | rfl | rfl | rfl
  · exact pN_shrinks _
  · exact pN_shrinks _
  · exact pKdfScheme_shrinks
  · exact pEccScheme_shrinks
  all_goals exact pB2_shrinks

theorem pCapData_shrinks : Shrinks pCapData := by
  intro bs r h; unfold pCapData at h
  have hd : ∀ (q : P), Shrinks q → ∀ r, q (bs.drop 4) = some r → r.length ≤ bs.length := by
    intro q hq r hr; have := hq _ _ hr; simp at this; omega
  split at h
  · simp only at h
    split at h
    · exact hd _ (pList32_shrinks _ (pN_shrinks _)) r h
    · split at h
      · exact hd _ (pList32_shrinks _ (pN_shrinks _)) r h
      · split at h
        · exact hd _ (pList32_shrinks _ pPcrSelection_shrinks) r h
        · split at h
          · exact hd _ (pList32_shrinks _ (pN_shrinks _)) r h
          · split at h
            · exact hd _ (pList32_shrinks _ pTaggedPcr_shrinks) r h
            · split at h
              · exact hd _ (pList32_shrinks _ (pN_shrinks _)) r h
              · split at h
                · refine hd _ (pList32_shrinks _ (pSeq_shrinks _ ?_)) r h
                  intro p hp; simp only [List.mem_cons, List.mem_nil_iff, or_false] at hp
                  rcases hp with rfl | rfl
                  · exact pN_shrinks _
                  · exact pHA_shrinks
                · split at h
                  · exact hd _ (pList32_shrinks _ (pN_shrinks _)) r h
                  · simp at h
  · simp at h

theorem G_parser_shrinks (g : G) : Shrinks g.parser := by
  cases g <;> unfold G.parser
  · exact pB2_shrinks
  · exact pN_shrinks _
  · exact pN_shrinks _
  · exact pN_shrinks _
  · exact pN_shrinks _
  · exact pTicket_shrinks
  · exact pContext_shrinks
  · exact pSignature_shrinks
  · exact pCapData_shrinks
  · exact pN_shrinks _
  · exact pList32_shrinks _ pHA_shrinks
  · exact pList32_shrinks _ pPcrSelection_shrinks
  · exact pList32_shrinks _ pB2_shrinks
  · exact pEccDetail_shrinks
  · exact pList32_shrinks _ (pN_shrinks _)

/-- every parser of the response grammar, for every command code, only consumes: the exact-parse check of a success
    response therefore accounts for every byte of the parameter area once -/
theorem respParams_shrinks (cc : Nat) (ps : List P) (h : respParams cc = some ps) : ∀ p ∈ ps, Shrinks p := by
  unfold respParams at h
  cases hg : respGrammar cc with
  | none => simp [hg] at h
  | some gs =>
    simp only [hg, Option.map_some, Option.some.injEq] at h; subst h
    intro p hp; simp only [List.mem_map] at hp
    obtain ⟨g, _, rfl⟩ := hp; exact G_parser_shrinks g

/-- the parameter area of a success response that parses exactly is consumed completely by the command's grammar -/
theorem respSeq_shrinks (cc : Nat) (ps : List P) (h : respParams cc = some ps) : Shrinks (pSeq ps) :=
  pSeq_shrinks ps (respParams_shrinks cc ps h)

/-- what an accepted response looks like, whatever the request: at least a header, the size field equal to the number of
    bytes returned, within the buffer; an error is a bare header with tag NO_SESSIONS -/
theorem accepted_response_shape (req rsp : Bytes) (bufSize : Nat) (h : checkResponse req rsp bufSize = none) :
    10 ≤ rsp.length ∧ (rdBE rsp 2 4).getD 0 = rsp.length ∧ rsp.length ≤ bufSize ∧
    ((rdBE rsp 6 4).getD 0 ≠ 0 → rsp.length = 10 ∧ (rdBE rsp 0 2).getD 0 = Gen.TPM_ST_NO_SESSIONS) := by
  unfold checkResponse at h
  split at h
  · simp at h
  · simp only at h
    split at h
    · simp at h
    · split at h
      · simp at h
      · refine ⟨by omega, by omega, by omega, ?_⟩
        intro hrc
        rw [if_pos hrc] at h
        split at h
        · simp at h
        · omega
example : respGrammar 0x178 = some [.eccDetail] ∧ respGrammar 0x14C = some [.b2, .signature] ∧ respGrammar 0x19C = some [] ∧ respGrammar 0x11E = none := by decide
/-- a GetRandom success response (4 random bytes) is accepted; one trailing byte, or a stale size field, is not -/
example : checkResponse [0x80, 0x01, 0, 0, 0, 12, 0, 0, 0x01, 0x7B, 0, 4] [0x80, 0x01, 0, 0, 0, 16, 0, 0, 0, 0, 0, 4, 1, 2, 3, 4] 4096 = none := by decide
example : (checkResponse [0x80, 0x01, 0, 0, 0, 12, 0, 0, 0x01, 0x7B, 0, 4] [0x80, 0x01, 0, 0, 0, 17, 0, 0, 0, 0, 0, 4, 1, 2, 3, 4, 5] 4096).isSome = true := by decide
example : (checkResponse [0x80, 0x01, 0, 0, 0, 12, 0, 0, 0x01, 0x7B, 0, 4] [0x80, 0x01, 0, 0, 0, 16, 0, 0, 0, 0, 0, 5, 1, 2, 3, 4] 4096).isSome = true := by decide

/-! non-vacuity -/
example : frameCheck [0x80, 0x01, 0, 0, 0, 10, 0, 0, 0x01, 0x7B] true = none := by decide
example : frameCheck [0x80, 0x03, 0, 0, 0, 10, 0, 0, 0x01, 0x7B] true = some Gen.TPM_RC_VALUE := by decide
example : frameCheck [0x80, 0x24, 0, 0, 0, 10, 0, 0, 0x01, 0x7B] true = some Gen.TPM_RC_BAD_TAG := by decide
example : frameCheck [0x80, 0x01, 0, 0, 0, 10, 0, 0, 0x01, 0x7B] false = some Gen.TPM_RC_INITIALIZE := by decide

end TpmVerif.Props.C01
