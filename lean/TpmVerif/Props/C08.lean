import TpmVerif.Model.DA
/-!
  C08 — dictionary-attack lockout counts, locks, heals and persists as specified.
  Theorems about `Model.DA` (which follows DA.c / SessionProcess.c / DictionaryCommands.c), for all states.
-/
namespace TpmVerif.Props.C08
open TpmVerif TpmVerif.Model TpmVerif.Model.DA
open TpmVerif.Model.Clock (W W32 sub64 add64 isOrderly)

/-! ### Locked out means locked out, whatever secret is supplied -/

/-- **lockout is total**: once failedTries ≥ maxTries every password authorization of a DA-protected entity is
    refused with TPM_RC_LOCKOUT — for the correct secret as well as for a wrong one — and nothing changes. -/
theorem lockout_total (s : St) (ok : Bool) (h : s.p.failedTries ≥ s.p.maxTries) :
    authorize s .da ok = (s, RC_LOCKOUT) := by
  simp [authorize, checkLockedOut, h, RC_LOCKOUT]

/-- lockoutAuth is refused while it is disabled, whatever secret is supplied -/
theorem lockoutAuth_disabled (s : St) (ok : Bool) (h : s.p.lockoutEnabled = false) :
    authorize s .lockout ok = (s, RC_LOCKOUT) := by
  simp [authorize, checkLockedOut, h, RC_LOCKOUT]

/-- ... so DictionaryAttackLockReset and DictionaryAttackParameters cannot be used either -/
theorem lockReset_refused_when_disabled (s : St) (m : Nat) (ok : Bool) (h : s.p.lockoutEnabled = false) :
    body s m (.lockReset ok) = (s, RC_LOCKOUT) := by
  simp [body, lockoutAuth_disabled s ok h, RC_LOCKOUT]

/-! ### Exempt entities never count -/

/-- **exempt entities never count**: an authorization of a DA-exempt entity changes no DA state at all,
    and a wrong secret is answered TPM_RC_BAD_AUTH (never AUTH_FAIL / LOCKOUT / RETRY) -/
theorem exempt_never_counts (s : St) (ok : Bool) :
    (authorize s .exempt ok).1 = s ∧ (authorize s .exempt ok).2 = (if ok then 0 else RC_BAD_AUTH) := by
  simp [authorize]

/-- exempt entities can be authorised while the TPM is locked out -/
theorem exempt_usable_in_lockout (s : St) : (authorize s .exempt true).2 = 0 := by simp [authorize]

/-! ### Every failure counts, durably -/

/-- **a failed authorization counts one, and the command commits**: for a DA-protected entity that is not locked
    out (and after the DA-used marker is in place), a wrong secret adds exactly one to failedTries (when recoveryTime ≠ 0),
    restarts the self-heal timer at the current TPM time, requests the NV commit, and is answered TPM_RC_AUTH_FAIL. -/
theorem fail_counts (s : St) (hl : s.p.failedTries < s.p.maxTries) (hu : s.daUsed = true) (hr : s.p.recoveryTime ≠ 0)
    (h32 : s.p.failedTries + 1 < W32) :
    (authorize s .da false).2 = RC_AUTH_FAIL ∧
    (authorize s .da false).1.p.failedTries = s.p.failedTries + 1 ∧
    (authorize s .da false).1.clk.updateNV = true ∧
    (authorize s .da false).1.go.selfHealTimer = s.clk.gTime := by
  have h1 : ¬ (s.p.failedTries ≥ s.p.maxTries) := by omega
  simp [authorize, checkLockedOut, incrementLockout, h1, hu, hr, Nat.mod_eq_of_lt h32]

/-- the commit at the end of the command puts exactly the live DA parameters into storage -/
theorem commit_stores_counter (s : St) (h : s.clk.updateNV = true) :
    (finish s).1.dp = s.p ∧ (finish s).2 = true := by
  simp [finish, Clock.St.finish, h]

/-- with the correct secret nothing is counted and nothing changes -/
theorem good_auth_no_count (s : St) (hl : s.p.failedTries < s.p.maxTries) (hu : s.daUsed = true) :
    authorize s .da true = (s, 0) := by
  have h1 : ¬ (s.p.failedTries ≥ s.p.maxTries) := by omega
  simp [authorize, checkLockedOut, h1, hu]

/-- **DA-in-use is marked durably before the first protected authorization**: the first DA-protected authorization after a
    Startup is answered TPM_RC_RETRY, its only effects being the DA_USED marker in the orderly state and the commit request -/
theorem retry_marks_da (s : St) (ok : Bool) (hl : s.p.failedTries < s.p.maxTries) (hu : s.daUsed = false) :
    (authorize s .da ok).2 = RC_RETRY ∧ (authorize s .da ok).1.p = s.p ∧ (authorize s .da ok).1.go = s.go ∧
    (authorize s .da ok).1.daUsed = true ∧ (authorize s .da ok).1.clk.orderly = Gen.SU_DA_USED_VALUE ∧
    (authorize s .da ok).1.clk.updateNV = true := by
  have h1 : ¬ (s.p.failedTries ≥ s.p.maxTries) := by omega
  simp [authorize, checkLockedOut, h1, hu, RC_RETRY]

/-- a failed lockoutAuth disables lockoutAuth, starts the lockout timer and requests the commit (for every lockoutRecovery,
    including 0 — otherwise a suspended and resumed TPM would get lockoutAuth back from the permanent state) -/
theorem lockout_fail_disables (s : St) (h : s.p.lockoutEnabled = true) :
    (authorize s .lockout false).2 = RC_AUTH_FAIL ∧ (authorize s .lockout false).1.p.lockoutEnabled = false ∧
    (authorize s .lockout false).1.go.lockoutTimer = s.clk.gTime ∧ (authorize s .lockout false).1.p.failedTries = s.p.failedTries ∧
    (authorize s .lockout false).1.clk.updateNV = true := by
  simp [authorize, checkLockedOut, h, incrementLockout]

/-! ### Healing is exact -/

/-- the number of failures forgiven by one `DASelfHeal` -/
def healCount (s : St) : Nat := (sub64 s.clk.gTime s.go.selfHealTimer / 1000) / s.p.recoveryTime

theorem healLockout_frame (s : St) : (healLockout s).p.failedTries = s.p.failedTries ∧ (healLockout s).go = s.go := by
  unfold healLockout; split <;> simp

/-- **heal exact**: after self-healing, failedTries has dropped by exactly ⌊elapsed seconds / recoveryTime⌋ (not below 0) -/
theorem heal_exact (s : St) (hf : s.p.failedTries ≠ 0) (hr : s.p.recoveryTime ≠ 0) (h32 : healCount s < W32) :
    (selfHeal s).p.failedTries = s.p.failedTries - healCount s := by
  unfold selfHeal
  rw [(healLockout_frame _).1]
  unfold healTries healCount at *
  simp only [hf, hr, if_false, Nat.mod_eq_of_lt h32]
  split <;> omega

/-- ... and the self-heal timer is advanced by exactly the time that was consumed, so the remainder carries over -/
theorem heal_timer_carries (s : St) (hf : s.p.failedTries ≠ 0) (hr : s.p.recoveryTime ≠ 0)
    (hnw : s.go.selfHealTimer + healCount s * s.p.recoveryTime * 1000 < W) :
    (selfHeal s).go.selfHealTimer = s.go.selfHealTimer + healCount s * s.p.recoveryTime * 1000 := by
  unfold selfHeal
  rw [(healLockout_frame _).2]
  unfold healTries healCount at *
  simp only [hf, hr, if_false]
  generalize sub64 s.clk.gTime s.go.selfHealTimer / 1000 / s.p.recoveryTime = dc at *
  have h1 : dc * s.p.recoveryTime * 1000 < W := by omega
  have h2 : dc * s.p.recoveryTime < W := by
    have : dc * s.p.recoveryTime ≤ dc * s.p.recoveryTime * 1000 := Nat.le_mul_of_pos_right _ (by decide)
    omega
  simp only [add64, Nat.mod_eq_of_lt h2, Nat.mod_eq_of_lt h1, Nat.mod_eq_of_lt hnw]

/-- self-healing never increases the failure count -/
theorem heal_never_increases (s : St) : (selfHeal s).p.failedTries ≤ s.p.failedTries := by
  unfold selfHeal
  rw [(healLockout_frame _).1]
  unfold healTries
  simp only
  split
  · exact Nat.le_refl _
  · split
    · simp
    · simp only; split <;> omega

/-- no time, no healing: if less than recoveryTime seconds have passed since the last failure the count is unchanged -/
theorem no_heal_before_recovery (s : St) (hr : s.p.recoveryTime ≠ 0)
    (h : sub64 s.clk.gTime s.go.selfHealTimer < 1000 * s.p.recoveryTime) :
    (selfHeal s).p.failedTries = s.p.failedTries := by
  have hdc : sub64 s.clk.gTime s.go.selfHealTimer / 1000 / s.p.recoveryTime = 0 := by
    apply Nat.div_eq_of_lt
    apply Nat.div_lt_of_lt_mul
    exact h
  unfold selfHeal
  rw [(healLockout_frame _).1]
  unfold healTries
  simp only [hr, if_false, hdc]
  split
  · rfl
  · simp; omega

/-- lockoutAuth is re-enabled by time only after lockoutRecovery seconds (never when lockoutRecovery = 0) -/
theorem lockout_heal_exact (s : St) (h : s.p.lockoutEnabled = false) :
    (healLockout s).p.lockoutEnabled =
      decide (s.p.lockoutRecovery ≠ 0 ∧ sub64 s.clk.gTime s.go.lockoutTimer / 1000 ≥ s.p.lockoutRecovery) := by
  unfold healLockout
  by_cases hc : s.p.lockoutRecovery ≠ 0 ∧ sub64 s.clk.gTime s.go.lockoutTimer / 1000 ≥ s.p.lockoutRecovery
  · simp [h, hc]
  · simp only [h, Bool.not_false, true_and]
    simp only [hc, if_false, h]
    simp [hc]

/-! ### lockoutAuth resets the count; parameters -/

theorem lockReset_zeroes (s : St) (m : Nat) (h : s.p.lockoutEnabled = true) :
    (body s m (.lockReset true)).2 = 0 ∧ (body s m (.lockReset true)).1.p.failedTries = 0 ∧
    (body s m (.lockReset true)).1.clk.updateNV = true := by
  simp [body, authorize, checkLockedOut, h]

/-! ### Restarts never remove a count -/

/-- **restart monotone**: the DA part of Startup never decreases failedTries, adds at most one, and adds one only after a
    non-orderly stop with the DA-used marker recorded -/
theorem startup_never_decreases (s : St) (prev : Nat) :
    s.p.failedTries ≤ (daStartupPre s prev).p.failedTries ∧
    (daStartupPre s prev).p.failedTries ≤ s.p.failedTries + 1 ∧
    ((daStartupPre s prev).p.failedTries = s.p.failedTries + 1 → s.daUsed = true ∧ isOrderly prev = false) := by
  unfold daStartupPre
  simp only
  by_cases ht : s.timerReset <;> by_cases ho : isOrderly prev <;> by_cases hl : s.p.lockoutRecovery = 0 <;>
    by_cases hu : s.daUsed <;> simp [ht, ho, hl, hu] <;> (try split) <;> simp <;> omega

/-- a power cut reads the DA parameters back from what storage holds -/
theorem restart_from_storage (s : St) (m : Nat) : (restart s m).p = s.dp ∧ (restart s m).go = s.dgo := by
  simp [restart]

/-- suspend/resume preserves the whole DA state -/
theorem suspend_preserves (s : St) (m r m' r' : Nat) :
    (suspendResume s m r m' r').p = s.p ∧ (suspendResume s m r m' r').go = s.go ∧
    (suspendResume s m r m' r').daUsed = s.daUsed := by
  simp [suspendResume]

/-! ### sequences of authorizations -/

/-- `n` wrong password guesses in a row for a DA-protected entity -/
def guesses (s : St) : Nat → St
  | 0 => s
  | n + 1 => guesses (authorize s .da false).1 n

/-- an authorization of whatever entity with whatever secret never touches the DA parameters themselves -/
theorem authorize_params_frame (s : St) (e : Ent) (ok : Bool) :
    (authorize s e ok).1.p.maxTries = s.p.maxTries ∧ (authorize s e ok).1.p.recoveryTime = s.p.recoveryTime ∧
    (authorize s e ok).1.p.lockoutRecovery = s.p.lockoutRecovery := by
  cases e <;> cases ok <;> simp only [authorize, checkLockedOut, incrementLockout] <;> (repeat' split) <;> simp_all

/-- **exactly maxTries − failedTries wrong guesses lock the TPM, not one fewer**: from a state that is not locked
    out, `k` wrong guesses add exactly `k` as long as the limit is not passed -/
theorem guesses_count (k : Nat) : ∀ (s : St), s.daUsed = true → s.p.recoveryTime ≠ 0 → s.p.maxTries < W32 →
    s.p.failedTries + k ≤ s.p.maxTries →
    (guesses s k).p.failedTries = s.p.failedTries + k ∧ (guesses s k).p.maxTries = s.p.maxTries ∧
    (guesses s k).daUsed = true ∧ (guesses s k).p.recoveryTime = s.p.recoveryTime := by
  induction k with
  | zero => intro s hu _ _ _; exact ⟨rfl, rfl, hu, rfl⟩
  | succ n ih =>
    intro s hu hr h32 hk
    have hl : s.p.failedTries < s.p.maxTries := by omega
    have hc := fail_counts s hl hu hr (by omega)
    have hf := authorize_params_frame s .da false
    have hu' : (authorize s .da false).1.daUsed = true := by
      have h1 : ¬ (s.p.failedTries ≥ s.p.maxTries) := by omega
      simp [authorize, checkLockedOut, incrementLockout, h1, hu, hr]
    obtain ⟨i1, i2, i3, i4⟩ := ih (authorize s .da false).1 hu' (by rw [hf.2.1]; exact hr) (by rw [hf.1]; exact h32)
      (by rw [hc.2.1, hf.1]; omega)
    simp only [guesses]
    exact ⟨by rw [i1, hc.2.1]; omega, by rw [i2, hf.1], i3, by rw [i4, hf.2.1]⟩

theorem locks_after_exactly (s : St) (hu : s.daUsed = true) (hr : s.p.recoveryTime ≠ 0) (h32 : s.p.maxTries < W32)
    (hl : s.p.failedTries ≤ s.p.maxTries) :
    inLockout (guesses s (s.p.maxTries - s.p.failedTries)) = true ∧
    (∀ k, k < s.p.maxTries - s.p.failedTries → inLockout (guesses s k) = false) := by
  refine ⟨?_, ?_⟩
  · obtain ⟨h1, h2, _, _⟩ := guesses_count (s.p.maxTries - s.p.failedTries) s hu hr h32 (by omega)
    simp only [inLockout, h1, h2, decide_eq_true_eq]; omega
  · intro k hk
    obtain ⟨h1, h2, _, _⟩ := guesses_count k s hu hr h32 (by omega)
    simp only [inLockout, h1, h2, decide_eq_false_iff_not]; omega

/-- **and once locked, no sequence of password authorizations of DA-protected entities — correct or wrong — gets
    through or changes anything** -/
theorem locked_history (oks : List Bool) (s : St) (h : s.p.failedTries ≥ s.p.maxTries) :
    oks.foldl (fun s ok => (authorize s .da ok).1) s = s ∧ ∀ ok, (authorize s .da ok).2 = RC_LOCKOUT := by
  refine ⟨?_, fun ok => by rw [lockout_total s ok h]⟩
  induction oks with
  | nil => rfl
  | cons ok rest ih => simp only [List.foldl]; rw [lockout_total s ok h]; exact ih

example : inLockout (guesses ({ daUsed := true } : St) 3) = true ∧ inLockout (guesses ({ daUsed := true } : St) 2) = false := by decide

/-! non-vacuity -/
example : ∃ s : St, s.p.failedTries ≥ s.p.maxTries := ⟨{ p := { failedTries := 3 } }, by decide⟩
example : (authorize ({ daUsed := true } : St) .da false).1.p.failedTries = 1 := by decide

end TpmVerif.Props.C08
