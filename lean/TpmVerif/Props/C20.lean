import TpmVerif.Model.Tpm12Core
import TpmVerif.Model.Tpm12Nv
import TpmVerif.Model.Tpm12Counter
import TpmVerif.Model.Tpm12Flags
import TpmVerif.Model.Tpm12Auth
import TpmVerif.Spec.Tpm12Pcr
/-!
  C20 — TPM 1.2 core services (PCR extend chain / reset values / locality rules, SHA-1 thread, TIS hash
  interface).  Property theorems about `Model.Sha1` and `Model.Tpm12.Core`.  The PCR attribute, initial-value
  and reset-value tables are the ones regenerated from /repo (`Gen.Tpm12`); `Spec` below is the hand-written
  expected copy (TCG PC Client TIS, table 4/5) they are compared with.
-/
namespace TpmVerif.Props.C20
open TpmVerif TpmVerif.Gen.Tpm12 TpmVerif.Model TpmVerif.Model.Tpm12.Core

/-! ### SHA-1: streaming equals one-shot for every chunking -/

/-- absorbing `a` and then `b` is absorbing `a ++ b` — for every state and every pair of byte strings -/
theorem update_append (s : Sha1.St) (a b : Sha1.Bytes) :
    Sha1.update (Sha1.update s a) b = Sha1.update s (a ++ b) := by
  simp [Sha1.update, List.foldl_append]

theorem update_nil (s : Sha1.St) : Sha1.update s [] = s := rfl

/-- any list of chunks, absorbed one call at a time, leaves the same state as absorbing their concatenation -/
theorem update_chunks (chunks : List Sha1.Bytes) (s : Sha1.St) :
    chunks.foldl Sha1.update s = Sha1.update s chunks.flatten := by
  induction chunks generalizing s with
  | nil => rfl
  | cons c cs ih => simp only [List.foldl_cons, List.flatten_cons]; rw [ih, update_append]

/-- **streaming SHA-1 = one-shot SHA-1 for every chunking** of the message -/
theorem sha1_chunking (chunks : List Sha1.Bytes) :
    Sha1.final (chunks.foldl Sha1.update Sha1.init) = Sha1.sha1 chunks.flatten := by
  rw [update_chunks]; rfl

/-! Tests (not theorems about the code): the Lean SHA-1 against FIPS 180 / NIST example vectors. -/
example : Sha1.sha1 (Sha1.ofString "abc") =
    [0xa9, 0x99, 0x3e, 0x36, 0x47, 0x06, 0x81, 0x6a, 0xba, 0x3e, 0x25, 0x71, 0x78, 0x50, 0xc2, 0x6c, 0x9c, 0xd0, 0xd8, 0x9d] := by
  decide +kernel
example : Sha1.sha1 [] =
    [0xda, 0x39, 0xa3, 0xee, 0x5e, 0x6b, 0x4b, 0x0d, 0x32, 0x55, 0xbf, 0xef, 0x95, 0x60, 0x18, 0x90, 0xaf, 0xd8, 0x07, 0x09] := by
  decide +kernel
example : Sha1.sha1 (Sha1.ofString "abcdbcdecdefdefgefghfghighijhijkijkljklmklmnlmnomnopnopq") =
    [0x84, 0x98, 0x3e, 0x44, 0x1c, 0x3b, 0xd2, 0x6e, 0xba, 0xae, 0x4a, 0xa1, 0xf9, 0x51, 0x29, 0xe5, 0xe5, 0x46, 0x70, 0xf1] := by
  decide +kernel
/-- two-block NIST vector (896 bits) -/
example : Sha1.sha1 (Sha1.ofString
    "abcdefghbcdefghicdefghijdefghijkefghijklfghijklmghijklmnhijklmnoijklmnopjklmnopqklmnopqrlmnopqrsmnopqrstnopqrstu") =
    [0xa4, 0x9b, 0x24, 0x46, 0xa0, 0x2c, 0x64, 0x5b, 0xf4, 0x19, 0xf9, 0x95, 0xb6, 0x70, 0x91, 0x25, 0x3a, 0x04, 0xa2, 0x59] := by
  decide +kernel

/-! ### Tables: the generated PCR attributes equal the PC Client table -/


theorem pcr_table_is_pcclient : pcrAttrib = Spec.Tpm12Pcr.pcClient := by decide
theorem pcr_init_values : pcrInitByte = Spec.Tpm12Pcr.initByte := by decide
theorem num_pcr : TPM_NUM_PCR = 24 ∧ pcrAttrib.length = 24 ∧ pcrInitByte.length = 24 ∧ TPM_LOCALITY_4_PCR = 17 := by decide

/-- reset values: with TOSPresent every resettable PCR resets to zeros; without it 16 and 23 reset to zeros and
    17–22 to all ones -/
theorem pcr_reset_values :
    (∀ i, 16 ≤ i → i < 24 → pcrResetByteTos.getD i 7 = 0) ∧
    pcrResetByteNoTos.getD 16 7 = 0 ∧ pcrResetByteNoTos.getD 23 7 = 0 ∧
    (∀ i, 17 ≤ i → i < 23 → pcrResetByteNoTos.getD i 7 = 255) := by
  refine ⟨?_, by decide, by decide, ?_⟩
  · intro i h1 h2
    have : i = 16 ∨ i = 17 ∨ i = 18 ∨ i = 19 ∨ i = 20 ∨ i = 21 ∨ i = 22 ∨ i = 23 := by omega
    rcases this with h | h | h | h | h | h | h | h <;> subst h <;> decide
  · intro i h1 h2
    have : i = 17 ∨ i = 18 ∨ i = 19 ∨ i = 20 ∨ i = 21 ∨ i = 22 := by omega
    rcases this with h | h | h | h | h | h <;> subst h <;> decide

/-- PCR 0–15 can never be reset and can be extended from every locality 0..4 -/
theorem static_pcrs (i loc : Nat) (hi : i < 16) (hl : loc ≤ 4) :
    canReset i = false ∧ locAllowed (extendLocal i) loc = true := by
  have hi' : i = 0 ∨ i = 1 ∨ i = 2 ∨ i = 3 ∨ i = 4 ∨ i = 5 ∨ i = 6 ∨ i = 7 ∨ i = 8 ∨ i = 9 ∨ i = 10 ∨ i = 11 ∨
      i = 12 ∨ i = 13 ∨ i = 14 ∨ i = 15 := by omega
  have hl' : loc = 0 ∨ loc = 1 ∨ loc = 2 ∨ loc = 3 ∨ loc = 4 := by omega
  rcases hi' with h | h | h | h | h | h | h | h | h | h | h | h | h | h | h | h <;> subst h <;>
    rcases hl' with h | h | h | h | h <;> subst h <;> decide

/-! ### Well-formed states -/

def WF (s : St) : Prop := s.pcrs.length = TPM_NUM_PCR

theorem wf_powerOn (e : Bool) (m : Nat) : WF (powerOn e m) := by
  simp [WF, powerOn, initPcrs, pcrInitByte, TPM_NUM_PCR]

theorem pcr_setPcr_same (s : St) (i : Nat) (v : Bytes) (h : i < s.pcrs.length) : pcr (setPcr s i v) i = v := by
  simp [pcr, setPcr, List.getD_eq_getElem?_getD, h]

theorem pcr_setPcr_other (s : St) (i j : Nat) (v : Bytes) (h : j ≠ i) : pcr (setPcr s i v) j = pcr s j := by
  simp [pcr, setPcr, List.getD_eq_getElem?_getD, List.getElem?_set_ne (Ne.symm h)]

theorem wf_setPcr (s : St) (i : Nat) (v : Bytes) (h : WF s) : WF (setPcr s i v) := by
  simpa [WF, setPcr] using h

/-! ### Extend -/

theorem checkState_eq_zero_iff (s : St) : checkState s = 0 ↔ (s.failed = false ∧ s.postInit = false) := by
  unfold checkState
  cases s.failed <;> cases s.postInit <;> simp [TPM_FAILEDSELFTEST, TPM_INVALID_POSTINIT]

theorem extendRefusal_eq_zero_iff (s : St) (loc i : Nat) :
    extendRefusal s loc i = 0 ↔
      (i < TPM_NUM_PCR ∧ locAllowed (extendLocal i) loc = true ∧
       ¬ (i = TPM_LOCALITY_4_PCR ∧ loc ≠ 4 ∧ pcr s i = zeros20)) := by
  unfold extendRefusal
  by_cases hi : i ≥ TPM_NUM_PCR
  · simp only [hi, if_true]
    constructor
    · intro h; exact absurd h (by decide)
    · intro h; omega
  · simp only [hi, if_false]
    cases hl : locAllowed (extendLocal i) loc
    · simp only [Bool.not_false, if_true]
      constructor
      · intro h; exact absurd h (by decide)
      · intro h; exact absurd h.2.1 (by simp)
    · simp only [Bool.not_true, Bool.false_eq_true, if_false]
      by_cases hz : (i = TPM_LOCALITY_4_PCR && loc ≠ 4 && pcr s i == zeros20) = true
      · simp only [hz, if_true]
        constructor
        · intro h; exact absurd h (by decide)
        · intro h
          simp only [Bool.and_eq_true, decide_eq_true_eq, bne_iff_ne, ne_eq, beq_iff_eq] at hz
          exact absurd ⟨hz.1.1, hz.1.2, hz.2⟩ h.2.2
      · simp only [hz, Bool.false_eq_true, if_false, true_iff]
        refine ⟨by omega, by simp, ?_⟩
        intro h
        apply hz
        simp only [Bool.and_eq_true, decide_eq_true_eq, bne_iff_ne, ne_eq, beq_iff_eq]
        exact ⟨⟨h.1, h.2.1⟩, h.2.2⟩

theorem step_extend_rc (H : Hash) (s : St) (loc i : Nat) (d : Bytes) :
    (step H s (.extend loc i d)).2.rc =
      if checkState s ≠ 0 then checkState s else extendRefusal (invalidateThread s) loc i := by
  have hcs : checkState (invalidateThread s) = checkState s := rfl
  simp only [step, extendCommon, hcs]
  by_cases hc : checkState s = 0
  · simp only [hc, ne_eq, not_true_eq_false, if_false]
    by_cases hr : extendRefusal (invalidateThread s) loc i = 0
    · simp [hr]
    · simp [hr]
  · simp [hc]

/-- **locality decision of TPM_Extend**, stated outright: the command succeeds exactly when the TPM is started and
    not failed, the index is a PCR, the caller's locality is in the PCR's `pcrExtendLocal`, and it is not the
    locality-4 PCR at its reset value 0 approached from another locality. -/
theorem tpm12_pcr_locality (H : Hash) (s : St) (loc i : Nat) (d : Bytes) :
    (step H s (.extend loc i d)).2.rc = 0 ↔
      (s.failed = false ∧ s.postInit = false ∧ i < TPM_NUM_PCR ∧ locAllowed (extendLocal i) loc = true ∧
       ¬ (i = TPM_LOCALITY_4_PCR ∧ loc ≠ 4 ∧ pcr s i = zeros20)) := by
  rw [step_extend_rc]
  have hpcr : pcr (invalidateThread s) i = pcr s i := rfl
  by_cases hc : checkState s = 0
  · simp only [hc, ne_eq, not_true_eq_false, if_false]
    rw [extendRefusal_eq_zero_iff, hpcr]
    have := (checkState_eq_zero_iff s).mp hc
    constructor
    · intro h; exact ⟨this.1, this.2, h⟩
    · intro h; exact h.2.2
  · simp only [ne_eq, hc, not_false_eq_true, if_true, false_iff]
    intro h; exact hc ((checkState_eq_zero_iff s).mpr ⟨h.1, h.2.1⟩)

/-- one extend: on success the PCR becomes `H(old ‖ digest)`, that value is returned, and no other PCR moves;
    on refusal no PCR moves at all.  The started/failed flags are never touched. -/
theorem extend_effect (H : Hash) (s : St) (loc i : Nat) (d : Bytes) (hwf : WF s) :
    let r := step H s (.extend loc i d)
    (r.2.rc = 0 → pcr r.1 i = H (pcr s i ++ d) ∧ r.2.out = H (pcr s i ++ d) ∧ (∀ j, j ≠ i → pcr r.1 j = pcr s j) ∧ WF r.1) ∧
    (r.2.rc ≠ 0 → r.1.pcrs = s.pcrs) ∧ r.1.failed = s.failed ∧ r.1.postInit = s.postInit := by
  have hcs : checkState (invalidateThread s) = checkState s := rfl
  simp only [step, extendCommon, hcs]
  by_cases hc : checkState s = 0
  · simp only [hc, ne_eq, not_true_eq_false, if_false]
    by_cases hr : extendRefusal (invalidateThread s) loc i = 0
    · simp only [hr, not_true_eq_false, if_false, true_implies, false_implies, true_and]
      have hi : i < TPM_NUM_PCR := ((extendRefusal_eq_zero_iff _ _ _).mp hr).1
      have hlen : i < (invalidateThread s).pcrs.length := by
        have : s.pcrs.length = TPM_NUM_PCR := hwf
        simp only [invalidateThread]; omega
      refine ⟨⟨?_, ?_, ?_, ?_⟩, rfl, rfl⟩
      · rw [pcr_setPcr_same _ _ _ hlen]; rfl
      · rw [pcr_setPcr_same _ _ _ hlen]; rfl
      · intro j hj; rw [pcr_setPcr_other _ _ _ _ hj]; rfl
      · exact wf_setPcr _ _ _ hwf
    · simp only [hr, if_false, not_false_eq_true, if_true]
      simp [hr, invalidateThread]
  · simp [hc, invalidateThread]

/-- the extend chain `H(… H(H(p ‖ d₁) ‖ d₂) … ‖ dₙ)` -/
def chain (H : Hash) (p : Bytes) (ds : List Bytes) : Bytes := ds.foldl (fun p d => H (p ++ d)) p

/-- conditions under which TPM_Extend on PCR `i` from locality `loc` cannot be refused, whatever the PCR holds -/
def Allowed (s : St) (loc i : Nat) : Prop :=
  s.failed = false ∧ s.postInit = false ∧ i < TPM_NUM_PCR ∧ locAllowed (extendLocal i) loc = true ∧
  (i = TPM_LOCALITY_4_PCR → loc = 4)

def extendAll (H : Hash) (s : St) (loc i : Nat) (ds : List Bytes) : St :=
  ds.foldl (fun st d => (step H st (.extend loc i d)).1) s

/-- **PCR values are the SHA-1 extend chain**: for every hash function, every sequence of digests, every
    permitted (PCR, locality): after extending them in order the PCR holds the chain over its old value, and
    every other PCR is unchanged. -/
theorem tpm12_pcr_chain (H : Hash) (loc i : Nat) (ds : List Bytes) (s : St) (hwf : WF s) (ha : Allowed s loc i) :
    pcr (extendAll H s loc i ds) i = chain H (pcr s i) ds ∧
    (∀ j, j ≠ i → pcr (extendAll H s loc i ds) j = pcr s j) := by
  induction ds generalizing s with
  | nil => simp [extendAll, chain]
  | cons d ds ih =>
    have hrc : (step H s (.extend loc i d)).2.rc = 0 := by
      rw [tpm12_pcr_locality]
      refine ⟨ha.1, ha.2.1, ha.2.2.1, ha.2.2.2.1, ?_⟩
      intro ⟨h1, h2, _⟩; exact h2 (ha.2.2.2.2 h1)
    have he := (extend_effect H s loc i d hwf).1 hrc
    -- the flags `Allowed` looks at are not touched by extend
    have hfl := (extend_effect H s loc i d hwf).2.2
    have ha' : Allowed (step H s (.extend loc i d)).1 loc i :=
      ⟨hfl.1 ▸ ha.1, hfl.2 ▸ ha.2.1, ha.2.2.1, ha.2.2.2.1, ha.2.2.2.2⟩
    have := ih (step H s (.extend loc i d)).1 he.2.2.2 ha'
    simp only [extendAll, List.foldl_cons, chain] at this ⊢
    refine ⟨?_, ?_⟩
    · rw [this.1, he.1]
    · intro j hj; rw [this.2 j hj, he.2.2.1 j hj]

/-! ### PCR reset: all or nothing -/

theorem foldl_setPcr (f : Nat → Bytes) (idx : List Nat) (s : St) (j : Nat) (hj : j < s.pcrs.length) :
    pcr (idx.foldl (fun st i => setPcr st i (f i)) s) j = if j ∈ idx then f j else pcr s j := by
  induction idx generalizing s with
  | nil => simp
  | cons i rest ih =>
    simp only [List.foldl_cons]
    have hlen : j < (setPcr s i (f i)).pcrs.length := by simpa [setPcr] using hj
    rw [ih _ hlen]
    by_cases hmem : j ∈ rest
    · simp [hmem]
    · by_cases hji : j = i
      · subst hji; simp [hmem, pcr_setPcr_same _ _ _ hj]
      · simp [hmem, hji, pcr_setPcr_other _ _ _ _ hji]

/-- **TPM_PCR_Reset validates the whole selection before touching any PCR**: a refused reset changes nothing; an
    accepted one sets exactly the selected PCRs to their reset value (which depends on TOSPresent only) -/
theorem reset_all_or_nothing (H : Hash) (s : St) (loc : Nat) (sel : Bytes) (hwf : WF s) :
    let r := step H s (.pcrReset loc sel)
    (r.2.rc ≠ 0 → r.1.pcrs = s.pcrs) ∧
    (r.2.rc = 0 → ∀ j, j < TPM_NUM_PCR → pcr r.1 j = if j ∈ selected sel then resetValue s.tos j else pcr s j) := by
  simp only [step, invalidateThread]
  by_cases h1 : sel.length > TPM_NUM_PCR / 8
  · simp [h1, TPM_INVALID_PCR_INFO]
  · simp only [h1, if_false]
    by_cases hc : checkState { s with sha := none } = 0
    · simp only [hc, ne_eq, not_true_eq_false, if_false]
      by_cases he : (selected sel).isEmpty = true
      · simp [he, TPM_INVALID_PCR_INFO]
      · simp only [he, Bool.false_eq_true, if_false]
        by_cases hr : resetRefusal loc (selected sel) = 0
        · simp only [hr, ne_eq, not_true_eq_false, if_false, not_false_eq_true, true_implies, false_implies, true_and]
          intro j hj
          have hlen : j < ({ s with sha := none } : St).pcrs.length := by
            have : s.pcrs.length = TPM_NUM_PCR := hwf
            simp only; omega
          rw [foldl_setPcr (fun i => resetValue s.tos i) _ _ _ hlen]
          rfl
        · simp [hr]
    · simp [hc]

/-- a reset is refused as soon as one selected PCR is not resettable or not resettable from the caller's locality -/
theorem reset_refused_of_bad_member (loc : Nat) (idx : List Nat) (i : Nat) (hi : i ∈ idx)
    (hbad : canReset i = false ∨ locAllowed (resetLocal i) loc = false) : resetRefusal loc idx ≠ 0 := by
  induction idx with
  | nil => simp at hi
  | cons k rest ih =>
    simp only [resetRefusal]
    by_cases hk : canReset k = true
    · by_cases hl : locAllowed (resetLocal k) loc = true
      · simp only [hk, hl, Bool.not_true, Bool.false_eq_true, if_false]
        rcases List.mem_cons.mp hi with h | h
        · subst h; rcases hbad with h | h <;> simp_all
        · exact ih h
      · simp only [Bool.not_eq_true] at hl
        simp [hk, hl, TPM_NOTLOCAL]
    · simp only [Bool.not_eq_true] at hk
      simp [hk, TPM_NOTRESETABLE]

/-! ### The SHA-1 thread -/

/-- state in which ordinals are processed: started and not failed -/
def Running (s : St) : Prop := s.failed = false ∧ s.postInit = false

theorem checkState_running (s : St) (h : Running s) : checkState s = 0 := by
  simp [checkState, h.1, h.2]

/-- thread commands after SHA1Start: updates with whole blocks, then Complete with the tail -/
def threadOps (chunks : List Bytes) (last : Bytes) : List Op :=
  chunks.map Op.sha1Update ++ [Op.sha1Complete last]

def runOps (H : Hash) (s : St) (ops : List Op) : St × List Obs :=
  ops.foldl (fun (acc : St × List Obs) op => let r := step H acc.1 op; (r.1, acc.2 ++ [r.2])) (s, [])

theorem updates_absorb (H : Hash) (chunks : List Bytes) (s : St) (ctx : Sha1.St) (hr : Running s) (hs : s.sha = some ctx)
    (hc : ∀ c ∈ chunks, c.length % 64 = 0 ∧ c.length ≤ s.bufMax - 64) :
    (chunks.foldl (fun st c => (step H st (.sha1Update c)).1) s) = { s with sha := some (Sha1.update ctx chunks.flatten) } ∧
    ∀ c ∈ chunks, True := by
  induction chunks generalizing s ctx with
  | nil =>
    refine ⟨?_, by simp⟩
    simp only [List.foldl_nil, List.flatten_nil, update_nil]
    cases s; simp_all
  | cons c cs ih =>
    have hc0 := hc c (by simp)
    have hstep : (step H s (.sha1Update c)).1 = { s with sha := some (Sha1.update ctx c) } := by
      simp only [step, checkState_running s hr, hs]
      have h1 : ¬ c.length % 64 ≠ 0 := by omega
      have h2 : ¬ c.length > s.bufMax - 64 := by omega
      simp [h1, h2]
    simp only [List.foldl_cons, hstep]
    have hr' : Running { s with sha := some (Sha1.update ctx c) } := hr
    have := (ih { s with sha := some (Sha1.update ctx c) } (Sha1.update ctx c) hr' rfl
      (fun x hx => hc x (by simp [hx]))).1
    refine ⟨?_, by simp⟩
    rw [this]
    simp [update_append]

/-- **TPM_SHA1Start/Update/Complete equal standard SHA-1 for every chunking**: for every way of cutting a message
    into Update chunks (each a multiple of 64 bytes, at most maxNumBytes) and a final part of at most 64 bytes,
    TPM_SHA1Complete returns the SHA-1 of the concatenation, and the thread is closed afterwards. -/
theorem tpm12_sha1_thread_eq_sha1 (H : Hash) (s : St) (chunks : List Bytes) (last : Bytes) (hr : Running s)
    (hc : ∀ c ∈ chunks, c.length % 64 = 0 ∧ c.length ≤ s.bufMax - 64) (hl : last.length ≤ 64) :
    let s1 := (step H s .sha1Start).1
    let s2 := chunks.foldl (fun st c => (step H st (.sha1Update c)).1) s1
    let r := step H s2 (.sha1Complete last)
    r.2 = { rc := 0, out := Sha1.sha1 (chunks.flatten ++ last) } ∧ r.1.sha = none := by
  have hs1 : (step H s .sha1Start).1 = { s with sha := some Sha1.init } := by
    have : checkState { s with sha := none } = 0 := checkState_running _ hr
    simp [step, invalidateThread, this]
  simp only [hs1]
  have hr1 : Running { s with sha := some Sha1.init } := hr
  have h2 := (updates_absorb H chunks { s with sha := some Sha1.init } Sha1.init hr1 rfl hc).1
  rw [h2]
  have hr2 : Running { s with sha := some (Sha1.update Sha1.init chunks.flatten) } := hr
  have hl' : ¬ last.length > 64 := by omega
  simp only [step, checkState_running _ hr2, hl', ne_eq, not_true_eq_false, if_false]
  simp [update_append, Sha1.sha1]

/-- CompleteExtend extends the chosen PCR with exactly that SHA-1 and returns (hash, new PCR value) -/
theorem tpm12_sha1_complete_extend (H : Hash) (s : St) (ctx : Sha1.St) (loc i : Nat) (last : Bytes) (hwf : WF s)
    (hr : Running s) (hs : s.sha = some ctx) (hl : last.length ≤ 64) (ha : Allowed s loc i) :
    let r := step H s (.sha1CompleteExtend loc i last)
    let h1 := Sha1.final (Sha1.update ctx last)
    r.2 = { rc := 0, out := h1 ++ H (pcr s i ++ h1) } ∧ pcr r.1 i = H (pcr s i ++ h1) ∧ r.1.sha = none := by
  have hl' : ¬ last.length > 64 := by omega
  have hr0 : extendRefusal { s with sha := none } loc i = 0 := by
    rw [extendRefusal_eq_zero_iff]
    exact ⟨ha.2.2.1, ha.2.2.2.1, fun h => h.2.1 (ha.2.2.2.2 h.1)⟩
  have hlen : i < ({ s with sha := none } : St).pcrs.length := by
    have : s.pcrs.length = TPM_NUM_PCR := hwf
    have := ha.2.2.1
    simp only; omega
  simp only [step, checkState_running s hr, hs, hl', extendCommon, hr0, ne_eq, not_true_eq_false, if_false]
  refine ⟨?_, ?_, by simp [setPcr]⟩
  · rw [pcr_setPcr_same _ _ _ hlen]; rfl
  · rw [pcr_setPcr_same _ _ _ hlen]; rfl

/-- any ordinal other than SHA1Update/Complete/CompleteExtend ends the thread: the next Update answers
    TPM_SHA_THREAD -/
theorem thread_invalidated (H : Hash) (s : St) (d : Bytes) (hr : Running s) :
    (step H (step H s .other).1 (.sha1Update d)).2.rc = TPM_SHA_THREAD ∧
    (∀ i, (step H (step H s (.pcrRead i)).1 (.sha1Update d)).2.rc = TPM_SHA_THREAD) := by
  have hr' : Running { s with sha := none } := hr
  refine ⟨?_, ?_⟩
  · simp [step, invalidateThread, checkState_running _ hr']
  · intro i
    simp only [step, invalidateThread, checkState_running _ hr', ne_eq, not_true_eq_false, if_false]
    split <;> simp [step, checkState_running _ hr']

/-! ### TPM_IO_Hash_Start / Data / End -/

def hashAll (H : Hash) (s : St) (ds : List Bytes) : St :=
  let s1 := (step H s .hashStart).1
  let s2 := ds.foldl (fun st d => (step H st (.hashData d)).1) s1
  (step H s2 .hashEnd).1

theorem hashData_absorb (H : Hash) (ds : List Bytes) (s : St) (ctx : Sha1.St) (hs : s.tis = some ctx) :
    ds.foldl (fun st d => (step H st (.hashData d)).1) s = { s with tis := some (Sha1.update ctx ds.flatten) } := by
  induction ds generalizing s ctx with
  | nil => simp only [List.foldl_nil, List.flatten_nil, update_nil]; cases s; simp_all
  | cons d ds ih =>
    have hstep : (step H s (.hashData d)).1 = { s with tis := some (Sha1.update ctx d) } := by simp [step, hs]
    simp only [List.foldl_cons, hstep]
    rw [ih { s with tis := some (Sha1.update ctx d) } (Sha1.update ctx d) rfl]
    simp [update_append]

/-- **the TIS hash interface measures into the locality-4 PCR**: after TPM_Startup, Hash_Start, any number of
    Hash_Data calls with any cutting of the data, Hash_End: PCR 17 = H(0²⁰ ‖ SHA-1(data)), PCR 18–22 are zero,
    tpmEstablished and TOSPresent are set, PCR 0–16 and 23 are untouched, and the TPM is not in the failed state. -/
theorem tpm12_iohash_measures (H : Hash) (s : St) (ds : List Bytes) (hwf : WF s) (hp : s.postInit = false)
    (ht : s.tis = none) (hf : s.failed = false) :
    let s' := hashAll H s ds
    pcr s' 17 = H (zeros20 ++ Sha1.sha1 ds.flatten) ∧
    (∀ j, 18 ≤ j → j ≤ 22 → pcr s' j = zeros20) ∧
    (∀ j, (j < 17 ∨ j = 23) → pcr s' j = pcr s j) ∧
    s'.established = true ∧ s'.tos = true ∧ s'.failed = false ∧ s'.tis = none := by
  have hlen : s.pcrs.length = 24 := hwf
  -- state after Hash_Start
  let s0 : St := { s with established := true, tos := true, tis := some Sha1.init }
  let s1 : St := [17, 18, 19, 20, 21, 22].foldl (fun st i => setPcr st i zeros20) s0
  have hstart : (step H s .hashStart).1 = s1 := by simp [step, hp, ht, s1, s0]
  have hs1tis : s1.tis = some Sha1.init := by simp [s1, s0, setPcr]
  have hs1 := hashData_absorb H ds s1 Sha1.init hs1tis
  simp only [hashAll, hstart, hs1]
  simp only [step]
  have hlen1 : s1.pcrs.length = 24 := by simp [s1, s0, setPcr, hlen]
  have hpcr1 : ∀ j, j < 24 → pcr s1 j = if j ∈ [17, 18, 19, 20, 21, 22] then zeros20 else pcr s j := by
    intro j hj
    have := foldl_setPcr (fun _ => zeros20) [17, 18, 19, 20, 21, 22] s0 j (by simpa [s0] using (by omega : j < s.pcrs.length))
    simpa [s1, s0, pcr] using this
  have hl17 : TPM_LOCALITY_4_PCR = 17 := by decide
  simp only [hl17]
  have hfin : Sha1.final (Sha1.update Sha1.init ds.flatten) = Sha1.sha1 ds.flatten := rfl
  have hlen2 : 17 < ({ s1 with tis := none } : St).pcrs.length := by simp only; omega
  refine ⟨?_, ?_, ?_, ?_, ?_, ?_, ?_⟩
  · rw [pcr_setPcr_same _ _ _ (by simpa using hlen2), hfin]
  · intro j h1 h2
    have hne : j ≠ 17 := by omega
    rw [pcr_setPcr_other _ _ _ _ hne]
    have := hpcr1 j (by omega)
    simp only [pcr] at this ⊢
    rw [this]
    have : j = 18 ∨ j = 19 ∨ j = 20 ∨ j = 21 ∨ j = 22 := by omega
    rcases this with h | h | h | h | h <;> subst h <;> simp
  · intro j hj
    have hne : j ≠ 17 := by omega
    rw [pcr_setPcr_other _ _ _ _ hne]
    have := hpcr1 j (by omega)
    simp only [pcr] at this ⊢
    rw [this]
    have : ¬ j ∈ [17, 18, 19, 20, 21, 22] := by simp; omega
    simp [this]
  · simp [setPcr, s1, s0]
  · simp [setPcr, s1, s0]
  · simp [setPcr, s1, s0, hf]
  · simp [setPcr]

/-- the error routes of the TIS interface end in the failed state, in which every PCR/SHA ordinal answers
    TPM_FAILEDSELFTEST -/
theorem tis_error_fails (H : Hash) (s : St) (d : Bytes) (ht : s.tis = none) :
    (step H s .hashEnd).1.failed = true ∧ (step H s (.hashData d)).1.failed = true ∧
    (step H s .hashEnd).2.rc = TPM_SHA_THREAD := by
  simp [step, ht]

theorem failed_answers (H : Hash) (s : St) (hf : s.failed = true) (loc i : Nat) (d : Bytes) :
    (step H s (.extend loc i d)).2.rc = TPM_FAILEDSELFTEST ∧ (step H s (.pcrRead i)).2.rc = TPM_FAILEDSELFTEST ∧
    (step H s .sha1Start).2.rc = TPM_FAILEDSELFTEST ∧ (step H s (.sha1Update d)).2.rc = TPM_FAILEDSELFTEST := by
  simp [step, invalidateThread, checkState, hf, TPM_FAILEDSELFTEST]

/-- power-on values: PCR 0–16 and 23 are zero, 17–22 all ones (before any Hash_Start) -/
theorem power_on_pcrs (e : Bool) (m : Nat) :
    (∀ j, (j ≤ 16 ∨ j = 23) → pcr (powerOn e m) j = zeros20) ∧
    (∀ j, 17 ≤ j → j ≤ 22 → pcr (powerOn e m) j = fill20 255) := by
  constructor
  · intro j hj
    have : j = 0 ∨ j = 1 ∨ j = 2 ∨ j = 3 ∨ j = 4 ∨ j = 5 ∨ j = 6 ∨ j = 7 ∨ j = 8 ∨ j = 9 ∨ j = 10 ∨ j = 11 ∨
      j = 12 ∨ j = 13 ∨ j = 14 ∨ j = 15 ∨ j = 16 ∨ j = 23 := by omega
    rcases this with h | h | h | h | h | h | h | h | h | h | h | h | h | h | h | h | h | h <;> subst h <;> rfl
  · intro j h1 h2
    have : j = 17 ∨ j = 18 ∨ j = 19 ∨ j = 20 ∨ j = 21 ∨ j = 22 := by omega
    rcases this with h | h | h | h | h | h <;> subst h <;> rfl

end TpmVerif.Props.C20

/-!
  ## NV storage (TPM_NV_DefineSpace / NV_WriteValue / NV_ReadValue (+Auth), TSC_PhysicalPresence, nvLocked, restarts)

  Theorems about `Model.Tpm12.Nv` (the model follows tpm12/tpm_nvram.c, tpm_owner.c:TPM_Process_PhysicalPresence,
  tpm_permanent.c:TPM_PermanentAll_NVStore, tpm_startup.c).  The state keeps BOTH the in-memory permanent state and
  the stored one; the theorems about restarts are statements about what `powerCycle` (= TPMLIB_Terminate + TPMLIB_MainInit
  from the stored blob) brings back.
-/
namespace TpmVerif.Props.C20
namespace NV
open TpmVerif TpmVerif.Gen.Tpm12 TpmVerif.Model.Tpm12.Nv

/-! ### list lemmas about the area table -/

theorem lookup_setArea (p : Perm) (a : Area) (i : Nat) :
    lookup (setArea p a) i = if i = a.index then (lookup p i).map (fun _ => a) else lookup p i := by
  unfold lookup setArea
  simp only
  induction p.areas with
  | nil => by_cases h : i = a.index <;> simp [h, setFirst]
  | cons b bs ih =>
    simp only [setFirst]
    by_cases hb : b.index = a.index
    · simp only [hb, beq_self_eq_true, if_true, List.find?_cons]
      by_cases hi : i = a.index
      · simp [hi]
      · have : (a.index == i) = false := by simp; exact fun h => hi h.symm
        simp [this, hi]
    · have hba : (b.index == a.index) = false := by simpa using hb
      simp only [hba, Bool.false_eq_true, if_false, List.find?_cons]
      by_cases hbi : b.index = i
      · have : i ≠ a.index := fun h => hb (hbi.trans h)
        simp [hbi, this]
      · have : (b.index == i) = false := by simpa using hbi
        simp only [this]
        exact ih

theorem lookup_remove (p : Perm) (i j : Nat) :
    lookup (remove p i) j = if j = i then none else lookup p j := by
  unfold lookup remove
  simp only
  induction p.areas with
  | nil => by_cases h : j = i <;> simp [h]
  | cons b bs ih =>
    by_cases hb : b.index = i
    · have : (b.index != i) = false := by simp [hb]
      simp only [List.filter_cons, this, Bool.false_eq_true, if_false]
      rw [ih]
      by_cases hj : j = i
      · simp [hj]
      · have : (b.index == j) = false := by simp [hb]; exact fun h => hj h.symm
        simp [hj, this]
    · have : (b.index != i) = true := by simp [hb]
      simp only [List.filter_cons, this, if_true, List.find?_cons]
      by_cases hbj : b.index = j
      · have : j ≠ i := fun h => hb (hbj.trans h)
        simp [hbj, this]
      · have : (b.index == j) = false := by simpa using hbj
        simp only [this]
        exact ih

theorem lookup_index (p : Perm) (i : Nat) (a : Area) (h : lookup p i = some a) : a.index = i := by
  unfold lookup at h
  have := List.find?_some h
  simpa using this

theorem lookup_mem (p : Perm) (i : Nat) (a : Area) (h : lookup p i = some a) : a ∈ p.areas := by
  unfold lookup at h
  exact List.mem_of_find?_eq_some h

theorem lookup_append_new (p : Perm) (a : Area) (j : Nat) (hnew : lookup p a.index = none) :
    lookup { p with areas := p.areas ++ [a] } j = if j = a.index then some a else lookup p j := by
  unfold lookup at *
  simp only [List.find?_append]
  by_cases hj : j = a.index
  · subst hj; simp [hnew]
  · have : (a.index == j) = false := by simp; exact fun h => hj h.symm
    simp [hj, this]

theorem remove_of_none (p : Perm) (i : Nat) (h : lookup p i = none) : remove p i = p := by
  unfold lookup at h
  unfold remove
  have : p.areas.filter (fun a => a.index != i) = p.areas := by
    rw [List.filter_eq_self]
    intro a ha
    have := List.find?_eq_none.mp h a ha
    simpa using this
  rw [this]

/-! ### ordered check lists -/

theorem firstRefusal_ne_zero (l : List (Bool × Nat)) (r : Nat) (hmem : (true, r) ∈ l) (hnz : ∀ e ∈ l, e.2 ≠ 0) :
    firstRefusal l ≠ 0 := by
  induction l with
  | nil => simp at hmem
  | cons e es ih =>
    obtain ⟨c, k⟩ := e
    unfold firstRefusal
    cases c with
    | true => simpa using hnz (true, k) (by simp)
    | false =>
      simp only [Bool.false_eq_true, if_false]
      apply ih
      · rcases List.mem_cons.mp hmem with h | h
        · simp at h
        · exact h
      · intro e he; exact hnz e (by simp [he])

theorem firstRefusal_eq_zero (l : List (Bool × Nat)) (hnz : ∀ e ∈ l, e.2 ≠ 0) (h : firstRefusal l = 0) :
    ∀ e ∈ l, e.1 = false := by
  intro e he
  cases hc : e.1 with
  | false => rfl
  | true =>
    exfalso
    apply firstRefusal_ne_zero l e.2 _ hnz h
    have : e = (true, e.2) := by rw [← hc]
    rw [← this]; exact he

/-- every code in the check lists is an error code -/
theorem writeChecks_nz (s : St) (tag : Tag) (loc : Nat) (hw : Bool) (a : Area) (off len : Nat) :
    ∀ e ∈ writeChecks s tag loc hw a off len, e.2 ≠ 0 := by
  intro e he
  simp only [writeChecks, List.mem_cons, List.mem_nil_iff, or_false] at he
  rcases he with h | h | h | h | h | h | h | h | h | h | h | h <;> subst h <;> (dsimp only; decide)

theorem readChecks_nz (s : St) (tag : Tag) (loc : Nat) (hw : Bool) (a : Area) (off n : Nat) :
    ∀ e ∈ readChecks s tag loc hw a off n, e.2 ≠ 0 := by
  intro e he
  simp only [readChecks, List.mem_cons, List.mem_nil_iff, or_false] at he
  rcases he with h | h | h | h | h | h | h | h <;> subst h <;> (dsimp only; decide)

theorem writeAuthChecks_nz (s : St) (ok : Bool) (loc : Nat) (hw : Bool) (a : Area) (off len : Nat) :
    ∀ e ∈ writeAuthChecks s ok loc hw a off len, e.2 ≠ 0 := by
  intro e he
  simp only [writeAuthChecks, List.mem_cons, List.mem_nil_iff, or_false] at he
  rcases he with h | h | h | h | h | h | h | h | h <;> subst h <;> (dsimp only; decide)

theorem readAuthChecks_nz (s : St) (ok : Bool) (loc : Nat) (hw : Bool) (a : Area) (off n : Nat) :
    ∀ e ∈ readAuthChecks s ok loc hw a off n, e.2 ≠ 0 := by
  intro e he
  simp only [readAuthChecks, List.mem_cons, List.mem_nil_iff, or_false] at he
  rcases he with h | h | h | h | h | h <;> subst h <;> (dsimp only; decide)

theorem defineChecks1_nz (s : St) (tag : Tag) (hw : Bool) (idx size : Nat) :
    ∀ e ∈ defineChecks1 s tag hw idx size, e.2 ≠ 0 := by
  intro e he
  simp only [defineChecks1, List.mem_cons, List.mem_nil_iff, or_false] at he
  rcases he with h | h | h | h | h | h | h | h | h <;> subst h <;> (dsimp only; decide)

theorem defineChecks2_nz (p : Perm) (idx attrs size lr : Nat) :
    ∀ e ∈ defineChecks2 p idx attrs size lr, e.2 ≠ 0 := by
  intro e he
  simp only [defineChecks2, List.mem_cons, List.mem_nil_iff, or_false] at he
  rcases he with h | h | h | h | h | h | h | h | h <;> subst h <;> (dsimp only; decide)

/-- case analysis over every `if`/`match` of an unfolded model function -/
macro "nv_auto" : tactic =>
  `(tactic| ((repeat' split) <;> (try simp) <;> (repeat' split) <;> simp_all))

/-! ### refused commands change nothing -/

/-- **a refused NV_WriteValue has no effect** (whatever the reason: state, index, permission, lock, presence, range) -/
theorem write_refused_unchanged (s : St) (tag : Tag) (loc : Nat) (hw : Bool) (idx off : Nat) (d : Bytes) :
    (nvWrite s tag loc hw idx off d).2.rc ≠ 0 → (nvWrite s tag loc hw idx off d).1 = s := by
  unfold nvWrite; nv_auto

theorem writeAuth_refused_unchanged (s : St) (ok : Bool) (loc : Nat) (hw : Bool) (idx off : Nat) (d : Bytes) :
    (nvWriteAuth s ok loc hw idx off d).2.rc ≠ 0 → (nvWriteAuth s ok loc hw idx off d).1 = s := by
  unfold nvWriteAuth; nv_auto

/-- a refused NV_ReadValue has no effect -/
theorem read_refused_unchanged (s : St) (tag : Tag) (loc : Nat) (hw : Bool) (idx off n : Nat) :
    (nvRead s tag loc hw idx off n).2.rc ≠ 0 → (nvRead s tag loc hw idx off n).1 = s := by
  unfold nvRead; nv_auto

/-- a refused TSC_PhysicalPresence has no effect -/
theorem tscpp_refused_unchanged (s : St) (v : Nat) : (tscPP s v).2.rc ≠ 0 → (tscPP s v).1 = s := by
  unfold tscPP; nv_auto

/-- the return code of NV_WriteValue to a defined area is the state check, then the first failing permission check -/
theorem nvWrite_rc_area (s : St) (tag : Tag) (loc : Nat) (hw : Bool) (idx off : Nat) (d : Bytes) (a : Area)
    (ha : lookup s.mem idx = some a) (h0 : idx ≠ TPM_NV_INDEX0) (hd : idx ≠ TPM_NV_INDEX_DIR) :
    (nvWrite s tag loc hw idx off d).2.rc =
      if checkState s ≠ 0 then checkState s else writeRefusal s tag loc hw a off d.length := by
  unfold nvWrite
  simp only [h0, hd, ha, if_false]
  by_cases hc : checkState s = 0
  · simp only [hc, ne_eq, not_true_eq_false, if_false]
    by_cases hr : writeRefusal s tag loc hw a off d.length = 0
    · simp only [hr, not_true_eq_false, if_false]; (repeat' split) <;> rfl
    · simp [hr]
  · simp [hc]

theorem nvRead_rc_area (s : St) (tag : Tag) (loc : Nat) (hw : Bool) (idx off n : Nat) (a : Area)
    (ha : lookup s.mem idx = some a) (hd : idx ≠ TPM_NV_INDEX_DIR) :
    (nvRead s tag loc hw idx off n).2.rc =
      if checkState s ≠ 0 then checkState s else readRefusal s tag loc hw a off n := by
  unfold nvRead
  simp only [hd, ha, if_false]
  by_cases hc : checkState s = 0
  · simp only [hc, ne_eq, not_true_eq_false, if_false]
    by_cases hr : readRefusal s tag loc hw a off n = 0
    · simp only [hr, not_true_eq_false, if_false]; (repeat' split) <;> rfl
    · simp [hr]
  · simp [hc]

theorem nvWriteAuth_rc_area (s : St) (ok : Bool) (loc : Nat) (hw : Bool) (idx off : Nat) (d : Bytes) (a : Area)
    (ha : lookup s.mem idx = some a) :
    (nvWriteAuth s ok loc hw idx off d).2.rc =
      if checkStateOwner s ≠ 0 then checkStateOwner s else writeAuthRefusal s ok loc hw a off d.length := by
  unfold nvWriteAuth
  simp only [ha]
  by_cases hc : checkStateOwner s = 0
  · simp only [hc, ne_eq, not_true_eq_false, if_false]
    by_cases hr : writeAuthRefusal s ok loc hw a off d.length = 0
    · simp only [hr, not_true_eq_false, if_false]; (repeat' split) <;> rfl
    · simp [hr]
  · simp [hc]

/-- a command whose own check list refuses it is refused (the state check can only refuse it earlier) -/
theorem rc_ne_zero_of_refusal (cs r : Nat) (hr : r ≠ 0) : (if cs ≠ 0 then cs else r) ≠ 0 := by
  by_cases h : cs = 0 <;> simp [h, hr]

/-! ### locks -/

/-- the three write locks, as the write commands test them (only while nvLocked is TRUE for NV_WriteValue) -/
def WriteLocked (s : St) (a : Area) : Prop :=
  (has a.attrs TPM_NV_PER_WRITEDEFINE = true ∧ a.writeDef = true) ∨
  (has a.attrs TPM_NV_PER_GLOBALLOCK = true ∧ s.globalLock = true) ∨
  (has a.attrs TPM_NV_PER_WRITE_STCLEAR = true ∧ a.writeSt = true)

theorem writeRefusal_locked (s : St) (tag : Tag) (loc : Nat) (hw : Bool) (a : Area) (off len : Nat)
    (hl : s.mem.nvLocked = true) (hk : WriteLocked s a) : writeRefusal s tag loc hw a off len ≠ 0 := by
  apply firstRefusal_ne_zero _ TPM_AREA_LOCKED _ (writeChecks_nz s tag loc hw a off len)
  simp only [writeChecks, hl]
  rcases hk with ⟨h1, h2⟩ | ⟨h1, h2⟩ | ⟨h1, h2⟩ <;> simp [h1, h2]

/-- **a locked area refuses writes** (TPM_NV_PER_WRITEDEFINE after a size-0 write, TPM_NV_PER_GLOBALLOCK after a write to
    index 0, TPM_NV_PER_WRITE_STCLEAR after a size-0 write): with nvLocked TRUE every NV_WriteValue to it — any tag,
    any locality, any offset and data, physical presence or not — is refused and nothing changes -/
theorem locked_area_refuses_write (s : St) (tag : Tag) (loc : Nat) (hw : Bool) (idx off : Nat) (d : Bytes) (a : Area)
    (hl : s.mem.nvLocked = true) (ha : lookup s.mem idx = some a) (h0 : idx ≠ TPM_NV_INDEX0) (hd : idx ≠ TPM_NV_INDEX_DIR)
    (hk : WriteLocked s a) :
    (nvWrite s tag loc hw idx off d).2.rc ≠ 0 ∧ (nvWrite s tag loc hw idx off d).1 = s := by
  have h : (nvWrite s tag loc hw idx off d).2.rc ≠ 0 := by
    rw [nvWrite_rc_area s tag loc hw idx off d a ha h0 hd]
    exact rc_ne_zero_of_refusal _ _ (writeRefusal_locked s tag loc hw a off d.length hl hk)
  exact ⟨h, write_refused_unchanged _ _ _ _ _ _ _ h⟩

/-- ... and NV_WriteValueAuth too, whatever nvLocked says -/
theorem locked_area_refuses_writeAuth (s : St) (ok : Bool) (loc : Nat) (hw : Bool) (idx off : Nat) (d : Bytes) (a : Area)
    (ha : lookup s.mem idx = some a) (hk : WriteLocked s a) :
    (nvWriteAuth s ok loc hw idx off d).2.rc ≠ 0 ∧ (nvWriteAuth s ok loc hw idx off d).1 = s := by
  have h : (nvWriteAuth s ok loc hw idx off d).2.rc ≠ 0 := by
    rw [nvWriteAuth_rc_area s ok loc hw idx off d a ha]
    apply rc_ne_zero_of_refusal
    apply firstRefusal_ne_zero _ TPM_AREA_LOCKED _ (writeAuthChecks_nz s ok loc hw a off d.length)
    simp only [writeAuthChecks]
    rcases hk with ⟨h1, h2⟩ | ⟨h1, h2⟩ | ⟨h1, h2⟩ <;> simp [h1, h2]
  exact ⟨h, writeAuth_refused_unchanged _ _ _ _ _ _ _ h⟩

/-- **a read-locked area refuses reads**: TPM_NV_PER_READ_STCLEAR after a size-0 read, with nvLocked TRUE -/
theorem readlocked_area_refuses (s : St) (tag : Tag) (loc : Nat) (hw : Bool) (idx off n : Nat) (a : Area)
    (hl : s.mem.nvLocked = true) (ha : lookup s.mem idx = some a) (hd : idx ≠ TPM_NV_INDEX_DIR)
    (h1 : has a.attrs TPM_NV_PER_READ_STCLEAR = true) (h2 : a.readSt = true) :
    (nvRead s tag loc hw idx off n).2.rc ≠ 0 ∧ (nvRead s tag loc hw idx off n).1 = s := by
  have h : (nvRead s tag loc hw idx off n).2.rc ≠ 0 := by
    rw [nvRead_rc_area s tag loc hw idx off n a ha hd]
    apply rc_ne_zero_of_refusal
    apply firstRefusal_ne_zero _ TPM_DISABLED_CMD _ (readChecks_nz s tag loc hw a off n)
    simp [readChecks, hl, h1, h2]
  exact ⟨h, read_refused_unchanged _ _ _ _ _ _ _ h⟩

/-- **the physical-presence bits are enforced**: with nvLocked TRUE an area with TPM_NV_PER_PPWRITE is not written
    without physical presence (command-asserted while command presence is enabled, or the hardware signal while hardware
    presence is enabled) -/
theorem ppwrite_needs_presence (s : St) (tag : Tag) (loc : Nat) (hw : Bool) (idx off : Nat) (d : Bytes) (a : Area)
    (hl : s.mem.nvLocked = true) (ha : lookup s.mem idx = some a) (h0 : idx ≠ TPM_NV_INDEX0) (hd : idx ≠ TPM_NV_INDEX_DIR)
    (h1 : has a.attrs TPM_NV_PER_PPWRITE = true) (h2 : presence s hw = false) :
    (nvWrite s tag loc hw idx off d).2.rc ≠ 0 ∧ (nvWrite s tag loc hw idx off d).1 = s := by
  have h : (nvWrite s tag loc hw idx off d).2.rc ≠ 0 := by
    rw [nvWrite_rc_area s tag loc hw idx off d a ha h0 hd]
    apply rc_ne_zero_of_refusal
    apply firstRefusal_ne_zero _ TPM_BAD_PRESENCE _ (writeChecks_nz s tag loc hw a off d.length)
    simp [writeChecks, hl, h1, h2]
  exact ⟨h, write_refused_unchanged _ _ _ _ _ _ _ h⟩

theorem ppread_needs_presence (s : St) (tag : Tag) (loc : Nat) (hw : Bool) (idx off n : Nat) (a : Area)
    (hl : s.mem.nvLocked = true) (ha : lookup s.mem idx = some a) (hd : idx ≠ TPM_NV_INDEX_DIR)
    (h1 : has a.attrs TPM_NV_PER_PPREAD = true) (h2 : presence s hw = false) :
    (nvRead s tag loc hw idx off n).2.rc ≠ 0 := by
  rw [nvRead_rc_area s tag loc hw idx off n a ha hd]
  apply rc_ne_zero_of_refusal
  apply firstRefusal_ne_zero _ TPM_BAD_PRESENCE _ (readChecks_nz s tag loc hw a off n)
  simp [readChecks, hl, h1, h2]

/-- owner-write areas are not written without owner authorization once nvLocked is set; area-authorized areas never by
    NV_WriteValue; and **a wrong HMAC never writes** -/
theorem owner_area_needs_owner_auth (s : St) (loc : Nat) (hw : Bool) (idx off : Nat) (d : Bytes) (a : Area)
    (ha : lookup s.mem idx = some a) (h0 : idx ≠ TPM_NV_INDEX0) (hd : idx ≠ TPM_NV_INDEX_DIR)
    (h1 : (s.mem.nvLocked = true ∧ has a.attrs TPM_NV_PER_OWNERWRITE = true) ∨ has a.attrs TPM_NV_PER_AUTHWRITE = true) :
    (nvWrite s .rqu loc hw idx off d).2.rc ≠ 0 := by
  rw [nvWrite_rc_area s .rqu loc hw idx off d a ha h0 hd]
  apply rc_ne_zero_of_refusal
  apply firstRefusal_ne_zero _ TPM_AUTH_CONFLICT _ (writeChecks_nz s .rqu loc hw a off d.length)
  rcases h1 with ⟨hl, h1⟩ | h1 <;> simp [writeChecks, Tag.isRqu, *]

theorem bad_hmac_never_writes (s : St) (loc : Nat) (hw : Bool) (idx off : Nat) (d : Bytes) :
    (nvWrite s (.auth1 false) loc hw idx off d).2.rc ≠ 0 ∧ (nvWrite s (.auth1 false) loc hw idx off d).1 = s := by
  have h : (nvWrite s (.auth1 false) loc hw idx off d).2.rc ≠ 0 := by
    by_cases h0 : idx = TPM_NV_INDEX0
    · unfold nvWrite; simp only [h0, Tag.authBad, if_true]
      by_cases hc : checkState s = 0 <;> simp [hc, TPM_AUTHFAIL]
    by_cases hd : idx = TPM_NV_INDEX_DIR
    · unfold nvWrite writeRefusalDir firstRefusal
      simp only [hd, Tag.authBad, if_true]
      by_cases hc : checkState s = 0 <;> simp [hc, TPM_AUTHFAIL, TPM_NV_INDEX_DIR, TPM_NV_INDEX0]
    cases ha : lookup s.mem idx with
    | none =>
      unfold nvWrite; simp only [h0, hd, ha, if_false]
      by_cases hc : checkState s = 0 <;> simp [hc, TPM_BADINDEX]
    | some a =>
      rw [nvWrite_rc_area s _ loc hw idx off d a ha h0 hd]
      apply rc_ne_zero_of_refusal
      cases hown : has a.attrs TPM_NV_PER_OWNERWRITE
      · apply firstRefusal_ne_zero _ TPM_AUTH_CONFLICT _ (writeChecks_nz s _ loc hw a off d.length)
        simp [writeChecks, Tag.isRqu, hown]
      · apply firstRefusal_ne_zero _ TPM_AUTHFAIL _ (writeChecks_nz s _ loc hw a off d.length)
        simp [writeChecks, Tag.authBad]
  exact ⟨h, write_refused_unchanged _ _ _ _ _ _ _ h⟩


/-! ### contents: read-after-write, frame -/

theorem patch_length (d w : Bytes) (off : Nat) (h : off + w.length ≤ d.length) : (patch d off w).length = d.length := by
  simp [patch]; omega

theorem slice_patch_same (d w : Bytes) (off : Nat) (h : off + w.length ≤ d.length) : slice (patch d off w) off w.length = w := by
  unfold slice patch
  have h1 : (d.take off).length = off := by simp; omega
  rw [List.append_assoc, List.drop_left' h1, List.take_left' rfl]

/-- bytes outside the written range are not touched -/
theorem patch_outside (d w : Bytes) (off i : Nat) (h : off + w.length ≤ d.length) (hi : i < off ∨ off + w.length ≤ i) :
    (patch d off w)[i]? = d[i]? := by
  unfold patch
  rcases hi with hi | hi
  · rw [List.append_assoc, List.getElem?_append_left (by simp; omega)]
    simp [hi]
  · have h1 : (d.take off ++ w).length = off + w.length := by simp; omega
    rw [List.getElem?_append_right (by omega), h1]
    simp; congr 1; omega

/-- what a successful NV_WriteValue of a non-empty byte string to a defined area does to the in-memory area table:
    the area is replaced by one that holds `d` at `off` (same index, attributes, size, locks) -/
theorem nvWrite_ok_mem (s : St) (tag : Tag) (loc : Nat) (hw : Bool) (idx off : Nat) (d : Bytes)
    (hwf : ∀ a ∈ s.mem.areas, a.data.length = a.size)
    (hne : d.length ≠ 0) (h0 : idx ≠ TPM_NV_INDEX0) (hd : idx ≠ TPM_NV_INDEX_DIR)
    (hok : (nvWrite s tag loc hw idx off d).2.rc = 0) :
    ∃ a a', lookup s.mem idx = some a ∧ off + d.length ≤ a.size ∧ checkState s = 0 ∧
      a'.index = a.index ∧ slice a'.data off d.length = d ∧ a'.data.length = a.data.length ∧
      (∀ i, i < off ∨ off + d.length ≤ i → a'.data[i]? = a.data[i]?) ∧
      (nvWrite s tag loc hw idx off d).1.mem.areas = (setArea s.mem a').areas := by
  cases ha : lookup s.mem idx with
  | none =>
    exfalso; revert hok; unfold nvWrite; simp only [h0, hd, ha, if_false]
    by_cases hc : checkState s = 0 <;> simp [hc, TPM_BADINDEX]
  | some a =>
    have hrc := nvWrite_rc_area s tag loc hw idx off d a ha h0 hd
    rw [hok] at hrc
    have hc : checkState s = 0 := by
      by_cases hc : checkState s = 0
      · exact hc
      · simp [hc] at hrc; exact absurd hrc.symm hc
    have hr : writeRefusal s tag loc hw a off d.length = 0 := by simp [hc] at hrc; exact hrc.symm
    have hall := firstRefusal_eq_zero _ (writeChecks_nz s tag loc hw a off d.length) hr
    have hsp := hall (d.length != 0 && (decide (off + d.length ≥ M32) || decide (off + d.length > a.size)), TPM_NOSPACE)
      (by simp [writeChecks])
    have hbound : off + d.length ≤ a.size := by
      simp only [Bool.and_eq_false_imp, bne_iff_ne, ne_eq, Bool.or_eq_false_iff, decide_eq_false_iff_not] at hsp
      have := (hsp hne).2; omega
    have hlen : a.data.length = a.size := hwf a (lookup_mem _ _ _ ha)
    by_cases hsame : slice a.data off d.length = d
    · refine ⟨a, { a with readSt := false }, rfl, hbound, hc, rfl, hsame, rfl, fun _ _ => rfl, ?_⟩
      unfold nvWrite
      simp only [h0, hd, ha, hc, hr, hne, hsame, ne_eq, not_true_eq_false, if_false, if_true]
    · refine ⟨a, { a with data := patch a.data off d, readSt := false }, rfl, hbound, hc, rfl,
        slice_patch_same _ _ _ (by omega), patch_length _ _ _ (by omega), fun i hi => patch_outside _ _ _ _ (by omega) hi, ?_⟩
      unfold nvWrite
      simp only [h0, hd, ha, hc, hr, hne, hsame, ne_eq, not_true_eq_false, if_false, store, bump]
      split <;> rfl

def WF (s : St) : Prop := ∀ a ∈ s.mem.areas, a.data.length = a.size

theorem lookup_areas_congr (p q : Perm) (h : p.areas = q.areas) (i : Nat) : lookup p i = lookup q i := by
  unfold lookup; rw [h]

/-- **read-after-write**: after a successful NV_WriteValue of the bytes `d` at `off`, a successful NV_ReadValue of the
    same range — with any tag, locality, presence — returns exactly `d` -/
theorem read_after_write (s : St) (tag tag' : Tag) (loc loc' : Nat) (hw hw' : Bool) (idx off : Nat) (d : Bytes) (hwf : WF s)
    (hne : d.length ≠ 0) (h0 : idx ≠ TPM_NV_INDEX0) (hd : idx ≠ TPM_NV_INDEX_DIR)
    (hok : (nvWrite s tag loc hw idx off d).2.rc = 0)
    (hrd : (nvRead (nvWrite s tag loc hw idx off d).1 tag' loc' hw' idx off d.length).2.rc = 0) :
    (nvRead (nvWrite s tag loc hw idx off d).1 tag' loc' hw' idx off d.length).2.out = be32 d.length ++ d := by
  obtain ⟨a, a', ha, hb, _, hi, hsl, _, _, hm⟩ := nvWrite_ok_mem s tag loc hw idx off d hwf hne h0 hd hok
  have hlk : lookup (nvWrite s tag loc hw idx off d).1.mem idx = some a' := by
    rw [lookup_areas_congr _ _ hm, lookup_setArea]
    have hidx : a.index = idx := lookup_index _ _ _ ha
    simp only [hi, hidx, if_true, ha, Option.map_some]
  revert hrd
  unfold nvRead
  simp only [hd, hlk, if_false]
  repeat' split
  all_goals simp_all

/-- ... and the bytes of the area outside the written range are the ones that were there before -/
theorem write_touches_only_range (s : St) (tag : Tag) (loc : Nat) (hw : Bool) (idx off : Nat) (d : Bytes) (hwf : WF s)
    (hne : d.length ≠ 0) (h0 : idx ≠ TPM_NV_INDEX0) (hd : idx ≠ TPM_NV_INDEX_DIR)
    (hok : (nvWrite s tag loc hw idx off d).2.rc = 0) :
    ∃ a a', lookup s.mem idx = some a ∧ lookup (nvWrite s tag loc hw idx off d).1.mem idx = some a' ∧
      a'.data.length = a.data.length ∧ ∀ i, i < off ∨ off + d.length ≤ i → a'.data[i]? = a.data[i]? := by
  obtain ⟨a, a', ha, _, _, hi, _, hl, hout, hm⟩ := nvWrite_ok_mem s tag loc hw idx off d hwf hne h0 hd hok
  refine ⟨a, a', ha, ?_, hl, hout⟩
  rw [lookup_areas_congr _ _ hm, lookup_setArea]
  have hidx : a.index = idx := lookup_index _ _ _ ha
  simp only [hi, hidx, if_true, ha, Option.map_some]

@[simp] theorem bump_areas (p : Perm) (tag : Tag) : (bump p tag).areas = p.areas := by
  unfold bump; split <;> rfl
@[simp] theorem store_mem (s : St) : (store s).mem = s.mem := rfl

/-- the area table after any NV_WriteValue: untouched, or one area replaced by an area with the same index -/
theorem nvWrite_areas (s : St) (tag : Tag) (loc : Nat) (hw : Bool) (idx off : Nat) (d : Bytes) :
    (nvWrite s tag loc hw idx off d).1.mem.areas = s.mem.areas ∨
    ∃ a a', lookup s.mem idx = some a ∧ a'.index = a.index ∧
      (nvWrite s tag loc hw idx off d).1.mem.areas = (setArea s.mem a').areas := by
  unfold nvWrite
  by_cases hc : checkState s = 0
  case neg => left; simp [hc]
  simp only [hc, ne_eq, not_true_eq_false, if_false]
  by_cases h0 : idx = TPM_NV_INDEX0
  · left; simp only [h0, if_true]; (repeat' split) <;> rfl
  simp only [h0, if_false]
  by_cases hd : idx = TPM_NV_INDEX_DIR
  · left; simp only [hd, if_true]; (repeat' split) <;> simp
  simp only [hd, if_false]
  cases ha : lookup s.mem idx with
  | none => left; rfl
  | some a =>
    simp only []
    by_cases hr : writeRefusal s tag loc hw a off d.length = 0
    case neg => left; simp [hr]
    simp only [hr, not_true_eq_false, if_false]
    right
    by_cases hl : d.length = 0
    · simp only [hl, if_true]
      refine ⟨a, { a with writeSt := true, writeDef := true, readSt := false }, rfl, rfl, ?_⟩
      split <;> simp
    · simp only [hl, if_false]
      by_cases hsame : slice a.data off d.length = d
      · simp only [hsame, if_true]; exact ⟨a, { a with readSt := false }, rfl, rfl, rfl⟩
      · simp only [hsame, if_false]
        exact ⟨a, { a with data := patch a.data off d, readSt := false }, rfl, rfl, by simp⟩

/-- **frame**: a write to one area never changes another area (contents, attributes, flags) -/
theorem write_frame (s : St) (tag : Tag) (loc : Nat) (hw : Bool) (idx off : Nat) (d : Bytes) (j : Nat) (hj : j ≠ idx) :
    lookup (nvWrite s tag loc hw idx off d).1.mem j = lookup s.mem j := by
  rcases nvWrite_areas s tag loc hw idx off d with h | ⟨a, a', ha, hi, h⟩
  · exact lookup_areas_congr _ _ h j
  · rw [lookup_areas_congr _ _ h j, lookup_setArea]
    have : j ≠ a'.index := by rw [hi, lookup_index _ _ _ ha]; exact hj
    simp [this]

/-- the area table after any NV_ReadValue: untouched, or bReadSTClear of the area read was set (size-0 read) -/
theorem nvRead_areas (s : St) (tag : Tag) (loc : Nat) (hw : Bool) (idx off n : Nat) :
    (nvRead s tag loc hw idx off n).1.mem.areas = s.mem.areas ∨
    ∃ a, lookup s.mem idx = some a ∧ (nvRead s tag loc hw idx off n).1.mem.areas = (setArea s.mem { a with readSt := true }).areas := by
  unfold nvRead
  by_cases hc : checkState s = 0
  case neg => left; simp [hc]
  simp only [hc, ne_eq, not_true_eq_false, if_false]
  by_cases hd : idx = TPM_NV_INDEX_DIR
  · left; simp only [hd, if_true]; (repeat' split) <;> rfl
  simp only [hd, if_false]
  cases ha : lookup s.mem idx with
  | none => left; rfl
  | some a =>
    simp only []
    by_cases hr : readRefusal s tag loc hw a off n = 0
    case neg => left; simp [hr]
    simp only [hr, not_true_eq_false, if_false]
    by_cases hn : n = 0
    · right; simp only [hn, if_true]; exact ⟨a, rfl, rfl⟩
    · left; simp [hn]

/-- a read changes no other area -/
theorem read_frame (s : St) (tag : Tag) (loc : Nat) (hw : Bool) (idx off n : Nat) (j : Nat) (hj : j ≠ idx) :
    lookup (nvRead s tag loc hw idx off n).1.mem j = lookup s.mem j := by
  rcases nvRead_areas s tag loc hw idx off n with h | ⟨a, ha, h⟩
  · exact lookup_areas_congr _ _ h j
  · rw [lookup_areas_congr _ _ h j, lookup_setArea]
    have : j ≠ a.index := by rw [lookup_index _ _ _ ha]; exact hj
    simp [this]

/-- a read never changes the contents, attributes, size or write locks of any area (only bReadSTClear of the area read) -/
theorem read_keeps_data (s : St) (tag : Tag) (loc : Nat) (hw : Bool) (idx off n : Nat) (j : Nat) :
    (lookup (nvRead s tag loc hw idx off n).1.mem j).map (fun a => (a.data, a.attrs, a.size, a.writeSt, a.writeDef)) =
    (lookup s.mem j).map (fun a => (a.data, a.attrs, a.size, a.writeSt, a.writeDef)) := by
  rcases nvRead_areas s tag loc hw idx off n with h | ⟨a, ha, h⟩
  · rw [lookup_areas_congr _ _ h j]
  · rw [lookup_areas_congr _ _ h j, lookup_setArea]
    by_cases hj : j = a.index
    · have hji : j = idx := by rw [hj, lookup_index _ _ _ ha]
      subst hji; simp [← hj, ha]
    · simp [hj]


/-! ### what a power cycle brings back: the invariant "memory = storage except for the volatile per-area flags" -/

/-- an area without its two volatile flags -/
def core (a : Area) : Area := { a with readSt := false, writeSt := false }

/-- the in-memory permanent state and the stored one agree on everything a power cycle must preserve: the areas (index,
    attributes, size, localities, contents, bWriteDefine), nvLocked, the DIR, the physical-presence enables, the owner -/
def Agree (s : St) : Prop :=
  s.mem.areas.map core = s.sto.areas.map core ∧ s.mem.nvLocked = s.sto.nvLocked ∧ s.mem.dir = s.sto.dir ∧
  s.mem.ppCmd = s.sto.ppCmd ∧ s.mem.ppHw = s.sto.ppHw ∧ s.mem.ppLife = s.sto.ppLife ∧
  s.mem.ownerInstalled = s.sto.ownerInstalled

theorem agree_fresh : Agree fresh := by simp [Agree, fresh]

theorem agree_of_eq (s : St) (h : s.mem = s.sto) : Agree s := by simp [Agree, h]

theorem agree_store (s : St) : Agree (store s) := agree_of_eq _ rfl

/-- changing only volatile things in memory (per-area flags, noOwnerNVWrite in the TPM_NV_INDEX_TRIAL case) keeps the agreement -/
theorem agree_congr (s s' : St) (h : Agree s) (hs : s'.sto = s.sto) (ha : s'.mem.areas.map core = s.mem.areas.map core)
    (h1 : s'.mem.nvLocked = s.mem.nvLocked) (h2 : s'.mem.dir = s.mem.dir) (h3 : s'.mem.ppCmd = s.mem.ppCmd)
    (h4 : s'.mem.ppHw = s.mem.ppHw) (h5 : s'.mem.ppLife = s.mem.ppLife) (h6 : s'.mem.ownerInstalled = s.mem.ownerInstalled) :
    Agree s' := by
  unfold Agree at *
  rw [hs, ha, h1, h2, h3, h4, h5, h6]; exact h

theorem map_core_setFirst (l : List Area) (a a' : Area) (hf : l.find? (·.index == a'.index) = some a) (hc : core a' = core a) :
    (setFirst l a').map core = l.map core := by
  induction l with
  | nil => simp at hf
  | cons b bs ih =>
    simp only [setFirst]
    by_cases hb : (b.index == a'.index) = true
    · simp only [hb, if_true, List.map_cons]
      simp only [List.find?_cons, hb] at hf
      have : b = a := by simpa using hf
      rw [hc, this]
    · simp only [hb, Bool.false_eq_true, if_false, List.map_cons]
      simp only [List.find?_cons] at hf
      have hb' : (b.index == a'.index) = false := by simpa using hb
      rw [hb'] at hf
      rw [ih hf]

theorem map_core_setArea (p : Perm) (a a' : Area) (hf : lookup p a'.index = some a) (hc : core a' = core a) :
    (setArea p a').areas.map core = p.areas.map core := map_core_setFirst _ _ _ hf hc

theorem lookup_map_core (p q : Perm) (h : p.areas.map core = q.areas.map core) (i : Nat) :
    (lookup p i).map core = (lookup q i).map core := by
  unfold lookup
  have e : ∀ l : List Area, (l.find? (·.index == i)).map core = (l.map core).find? (·.index == i) := by
    intro l; rw [List.find?_map]; rfl
  rw [e, e, h]


theorem agree_setArea (s : St) (a a' : Area) (h : Agree s) (hf : lookup s.mem a'.index = some a) (hc : core a' = core a) :
    Agree { s with mem := setArea s.mem a' } :=
  agree_congr s _ h rfl (map_core_setArea _ _ _ hf hc) rfl rfl rfl rfl rfl rfl

theorem agree_nvRead (s : St) (tag : Tag) (loc : Nat) (hw : Bool) (idx off n : Nat) (h : Agree s) :
    Agree (nvRead s tag loc hw idx off n).1 := by
  unfold nvRead
  by_cases hc : checkState s = 0
  case neg => simpa [hc] using h
  simp only [hc, ne_eq, not_true_eq_false, if_false]
  by_cases hd : idx = TPM_NV_INDEX_DIR
  · simp only [hd, if_true]; (repeat' split) <;> exact h
  simp only [hd, if_false]
  cases ha : lookup s.mem idx with
  | none => exact h
  | some a =>
    simp only []
    (repeat' split) <;> first | exact h | skip
    exact agree_setArea s a _ h (by rw [show ({ a with readSt := true } : Area).index = a.index from rfl, lookup_index _ _ _ ha]; exact ha) rfl

theorem agree_nvReadAuth (s : St) (ok : Bool) (loc : Nat) (hw : Bool) (idx off n : Nat) (h : Agree s) :
    Agree (nvReadAuth s ok loc hw idx off n).1 := by
  unfold nvReadAuth
  by_cases hc : checkStateOwner s = 0
  case neg => simpa [hc] using h
  simp only [hc, ne_eq, not_true_eq_false, if_false]
  cases ha : lookup s.mem idx with
  | none => exact h
  | some a =>
    simp only []
    (repeat' split) <;> first | exact h | skip
    exact agree_setArea s a _ h (by rw [show ({ a with readSt := true } : Area).index = a.index from rfl, lookup_index _ _ _ ha]; exact ha) rfl

theorem agree_nvWrite (s : St) (tag : Tag) (loc : Nat) (hw : Bool) (idx off : Nat) (d : Bytes) (h : Agree s) :
    Agree (nvWrite s tag loc hw idx off d).1 := by
  unfold nvWrite
  by_cases hc : checkState s = 0
  case neg => simpa [hc] using h
  simp only [hc, ne_eq, not_true_eq_false, if_false]
  by_cases h0 : idx = TPM_NV_INDEX0
  · simp only [h0, if_true]; (repeat' split) <;> first | exact h | exact agree_congr s _ h rfl rfl rfl rfl rfl rfl rfl rfl
  simp only [h0, if_false]
  by_cases hd : idx = TPM_NV_INDEX_DIR
  · simp only [hd, if_true]; (repeat' split) <;> first | exact h | exact agree_store _
  simp only [hd, if_false]
  cases ha : lookup s.mem idx with
  | none => exact h
  | some a =>
    have hidx : a.index = idx := lookup_index _ _ _ ha
    simp only []
    (repeat' split) <;> first | exact h | exact agree_store _ | skip
    · rename_i hwd
      exact agree_setArea s a _ h (by show lookup s.mem a.index = some a; rw [hidx]; exact ha) (by simp [core, hwd])
    · exact agree_setArea s a _ h (by show lookup s.mem a.index = some a; rw [hidx]; exact ha) rfl

theorem agree_nvWriteAuth (s : St) (ok : Bool) (loc : Nat) (hw : Bool) (idx off : Nat) (d : Bytes) (h : Agree s) :
    Agree (nvWriteAuth s ok loc hw idx off d).1 := by
  unfold nvWriteAuth
  by_cases hc : checkStateOwner s = 0
  case neg => simpa [hc] using h
  simp only [hc, ne_eq, not_true_eq_false, if_false]
  cases ha : lookup s.mem idx with
  | none => exact h
  | some a =>
    have hidx : a.index = idx := lookup_index _ _ _ ha
    simp only []
    (repeat' split) <;> first | exact h | exact agree_store _ | skip
    · rename_i hwd
      exact agree_setArea s a _ h (by show lookup s.mem a.index = some a; rw [hidx]; exact ha) (by simp [core, hwd])
    · exact agree_setArea s a _ h (by show lookup s.mem a.index = some a; rw [hidx]; exact ha) rfl

theorem agree_tscPP (s : St) (v : Nat) (h : Agree s) : Agree (tscPP s v).1 := by
  unfold tscPP
  by_cases hc : checkState s = 0
  case neg => simpa [hc] using h
  simp only [hc, ne_eq, not_true_eq_false, if_false]
  (repeat' split) <;> first | exact h | exact agree_store _ | exact agree_congr s _ h rfl rfl rfl rfl rfl rfl rfl rfl

theorem agree_rollback (s : St) : Agree (rollback s) := by
  unfold rollback Agree
  refine ⟨?_, rfl, rfl, rfl, rfl, rfl, rfl⟩
  simp only [List.map_map]
  apply List.map_congr_left
  intro a _
  simp only [Function.comp]
  split <;> rfl

theorem agree_nvStore (s : St) (w : Bool) (rc : Nat) (h : Agree s) : Agree (nvStore s w rc) := by
  unfold nvStore
  (repeat' split) <;> first | exact h | exact agree_store _ | exact agree_rollback _

theorem agree_nvDefine (s : St) (tag : Tag) (hw : Bool) (idx attrs size lr lw : Nat) (h : Agree s) :
    Agree (nvDefine s tag hw idx attrs size lr lw).1 := by
  unfold nvDefine
  by_cases hl : (!legalLoc lr || !legalLoc lw) = true
  · simpa [hl] using h
  simp only [hl, Bool.false_eq_true, if_false]
  by_cases hc : checkState s = 0
  case neg => simpa [hc] using h
  simp only [hc, ne_eq, not_true_eq_false, if_false]
  by_cases hk : (decide (idx = TPM_NV_INDEX_LOCK) && tag.isRqu) = true
  · simp only [hk, if_true]; (repeat' split) <;> first | exact h | exact agree_store _
  simp only [hk, Bool.false_eq_true, if_false]
  by_cases h1 : defineRefusal1 s tag hw idx size = 0
  case neg => simpa [h1] using h
  simp only [h1, not_true_eq_false, if_false]
  cases hold : lookup s.mem idx with
  | some old =>
    simp only [Option.isSome_some, Bool.true_and]
    (repeat' split) <;> first | exact agree_store _ | exact agree_nvStore _ _ _ (agree_store _) | skip
    all_goals simp only [nvStore, if_true]
    all_goals (repeat' split) <;> first | exact agree_store _ | exact agree_rollback _
  | none =>
    have hrem : remove s.mem idx = s.mem := remove_of_none _ _ hold
    simp only [Option.isSome_none, Bool.false_and, Bool.false_eq_true, if_false, hrem]
    (repeat' split) <;> first | exact agree_store _ | skip
    · simpa [nvStore] using h
    · simp only [nvStore, Bool.false_eq_true, if_false]
      exact agree_congr s _ h rfl (by simp) (by unfold bump; split <;> rfl) (by unfold bump; split <;> rfl)
        (by unfold bump; split <;> rfl) (by unfold bump; split <;> rfl) (by unfold bump; split <;> rfl) (by unfold bump; split <;> rfl)


theorem map_core_applyFlags (l : List Area) (fs : List (Bool × Bool)) : (applyFlags l fs).map core = l.map core := by
  induction l generalizing fs with
  | nil => cases fs <;> rfl
  | cons a as ih =>
    cases fs with
    | nil => rfl
    | cons f fs => simp only [applyFlags, List.map_cons, ih]; rfl

theorem map_core_clearStFlags (p : Perm) : (clearStFlags p).areas.map core = p.areas.map core := by
  simp [clearStFlags, core, List.map_map, Function.comp_def]

theorem agree_startup (s : St) (t : Nat) (h : Agree s) : Agree (startup s t).1 := by
  unfold startup
  simp only []
  (repeat' split) <;> first
    | exact agree_congr s _ h rfl rfl rfl rfl rfl rfl rfl rfl
    | exact agree_congr s _ h rfl (map_core_applyFlags _ _) rfl rfl rfl rfl rfl rfl
    | exact agree_congr s _ h rfl (map_core_clearStFlags _) rfl rfl rfl rfl rfl rfl

theorem agree_invalidateSaved (s : St) (h : Agree s) : Agree (invalidateSaved s) := by
  unfold invalidateSaved; split
  · exact agree_congr s _ h rfl rfl rfl rfl rfl rfl rfl rfl
  · exact h

/-- **the invariant**: from a brand new TPM, after ANY history of NV commands, TSC_PhysicalPresence, Startup of any type,
    TPM_SaveState, TakeOwnership, other ordinals, power cycles and suspend/resume, the stored permanent state agrees with
    the one in memory on every area's index, attributes, size, contents and bWriteDefine, on nvLocked, the DIR, the
    physical-presence enables and the owner: only the two volatile per-area flags (and the write counter after a trial
    definition) can differ.  So whatever a power cycle brings back is what was there. -/
theorem agree_step (s : St) (op : Op) (h : Agree s) : Agree (step s op).1 := by
  have hi := agree_invalidateSaved s h
  cases op with
  | startup t => exact agree_startup s t h
  | tscPP v => exact agree_tscPP _ v hi
  | define tag hw idx attrs size lr lw => exact agree_nvDefine _ tag hw idx attrs size lr lw hi
  | write tag loc hw idx off d => exact agree_nvWrite _ tag loc hw idx off d hi
  | read tag loc hw idx off n => exact agree_nvRead _ tag loc hw idx off n hi
  | writeAuth ok loc hw idx off d => exact agree_nvWriteAuth _ ok loc hw idx off d hi
  | readAuth ok loc hw idx off n => exact agree_nvReadAuth _ ok loc hw idx off n hi
  | takeOwnership => exact agree_store _
  | stored => exact agree_store _
  | saveState =>
    show Agree (saveState (invalidateSaved s)).1
    unfold saveState
    simp only []
    split
    · exact hi
    · exact agree_congr _ _ hi rfl rfl rfl rfl rfl rfl rfl rfl
  | getPub idx =>
    show Agree (step s (.getPub idx)).1
    simp only [step]
    (repeat' split) <;> exact hi
  | other => exact hi
  | powerCycle => exact agree_of_eq _ rfl
  | resume => exact agree_of_eq _ rfl

theorem agree_run (ops : List Op) (s : St) (h : Agree s) : Agree (run s ops) := by
  induction ops generalizing s with
  | nil => exact h
  | cons op ops ih => exact ih _ (agree_step s op h)

/-! ### restarts -/

/-- a power cycle followed by TPM_Startup(ST_CLEAR): every area comes back with its index, attributes, size, contents
    and bWriteDefine, with bReadSTClear and bWriteSTClear FALSE; nvLocked comes back; bGlobalLock, the command-asserted
    physical presence and its lock are gone -/
theorem powercycle_startup_clear (s : St) (h : Agree s) :
    let s' := (startup (powerCycle s) TPM_ST_CLEAR).1
    (∀ i, lookup s'.mem i = (lookup s.mem i).map core) ∧ s'.mem.nvLocked = s.mem.nvLocked ∧ s'.mem.dir = s.mem.dir ∧
    s'.globalLock = false ∧ s'.pp = false ∧ s'.ppLock = false ∧ s'.postInit = false := by
  have hst : (startup (powerCycle s) TPM_ST_CLEAR).1 =
      { (powerCycle s) with mem := clearStFlags s.sto, postInit := false, saved := none, stateSaved := false } := by
    simp [startup, powerCycle, TPM_ST_CLEAR]
  simp only [hst]
  refine ⟨?_, h.2.1.symm, h.2.2.1.symm, rfl, rfl, rfl, trivial⟩
  intro i
  have h1 : (clearStFlags s.sto).areas = s.sto.areas.map core := by simp [clearStFlags, core]
  have e : ∀ l : List Area, (l.map core).find? (·.index == i) = (l.find? (·.index == i)).map core := by
    intro l; rw [List.find?_map]; rfl
  show lookup (clearStFlags s.sto) i = _
  unfold lookup
  rw [h1, e, ← e s.mem.areas, h.1, e]

/-- **the write-define lock survives a power cycle placed anywhere**, in particular immediately after the size-0 write
    that set it: after Terminate/MainInit from the stored state and Startup(ST_CLEAR), every NV_WriteValue to the area is
    still refused -/
theorem writedefine_lock_survives_powercycle (s : St) (h : Agree s) (idx : Nat) (a : Area)
    (hl : s.mem.nvLocked = true) (ha : lookup s.mem idx = some a) (h0 : idx ≠ TPM_NV_INDEX0) (hd : idx ≠ TPM_NV_INDEX_DIR)
    (h1 : has a.attrs TPM_NV_PER_WRITEDEFINE = true) (h2 : a.writeDef = true)
    (tag : Tag) (loc : Nat) (hw : Bool) (off : Nat) (d : Bytes) :
    (nvWrite (startup (powerCycle s) TPM_ST_CLEAR).1 tag loc hw idx off d).2.rc ≠ 0 := by
  have hp := powercycle_startup_clear s h
  simp only at hp
  have ha' : lookup (startup (powerCycle s) TPM_ST_CLEAR).1.mem idx = some (core a) := by rw [hp.1 idx, ha]; rfl
  exact (locked_area_refuses_write _ tag loc hw idx off d (core a) (by rw [hp.2.1]; exact hl) ha' h0 hd
    (Or.inl ⟨h1, h2⟩)).1

/-- the size-0 write sets both locks, and if it changed bWriteDefine it stored: the stored copy of the area has
    bWriteDefine TRUE as soon as the command has answered -/
theorem zero_write_sets_locks (s : St) (tag : Tag) (loc : Nat) (hw : Bool) (idx off : Nat) (h : Agree s)
    (h0 : idx ≠ TPM_NV_INDEX0) (hd : idx ≠ TPM_NV_INDEX_DIR) (hok : (nvWrite s tag loc hw idx off []).2.rc = 0) :
    let s' := (nvWrite s tag loc hw idx off []).1
    ∃ a', lookup s'.mem idx = some a' ∧ a'.writeDef = true ∧ a'.writeSt = true ∧ a'.readSt = false ∧
      (lookup s'.sto idx).map (·.writeDef) = some true := by
  have hag := agree_nvWrite s tag loc hw idx off [] h
  cases ha : lookup s.mem idx with
  | none =>
    exfalso; revert hok; unfold nvWrite; simp only [h0, hd, ha, if_false]
    by_cases hc : checkState s = 0 <;> simp [hc, TPM_BADINDEX]
  | some a =>
    have hidx : a.index = idx := lookup_index _ _ _ ha
    have hrc := nvWrite_rc_area s tag loc hw idx off [] a ha h0 hd
    rw [hok] at hrc
    have hc : checkState s = 0 := by
      by_cases hc : checkState s = 0
      · exact hc
      · simp [hc] at hrc; exact absurd hrc.symm hc
    have hr : writeRefusal s tag loc hw a off 0 = 0 := by simp [hc] at hrc; exact hrc.symm
    have hmem : (nvWrite s tag loc hw idx off []).1.mem.areas =
        (setArea s.mem { a with writeSt := true, writeDef := true, readSt := false }).areas := by
      unfold nvWrite
      simp only [h0, hd, ha, hc, hr, ne_eq, not_true_eq_false, if_false, List.length_nil, if_true]
      split <;> simp [store, bump] <;> split <;> rfl
    have hlk : lookup (nvWrite s tag loc hw idx off []).1.mem idx = some { a with writeSt := true, writeDef := true, readSt := false } := by
      rw [lookup_areas_congr _ _ hmem, lookup_setArea]
      simp only [hidx, if_true, ha, Option.map_some]
    refine ⟨_, hlk, rfl, rfl, rfl, ?_⟩
    have := lookup_map_core _ _ hag.1 idx
    rw [hlk] at this
    cases hs : lookup (nvWrite s tag loc hw idx off []).1.sto idx with
    | none => rw [hs] at this; simp at this
    | some b =>
      rw [hs] at this
      simp only [Option.map_some, Option.some.injEq] at this ⊢
      have : (core b).writeDef = true := by rw [← this]; rfl
      exact this


/-! ### the ST_CLEAR-scoped locks -/

/-- **read-stclear and write-stclear locks end at TPM_Startup(ST_CLEAR)**: after it no area carries either flag,
    whatever the stored permanent state said -/
theorem startup_clear_ends_stclear_locks (s : St) (hok : (startup s TPM_ST_CLEAR).2.rc = 0) :
    ∀ a ∈ (startup s TPM_ST_CLEAR).1.mem.areas, a.readSt = false ∧ a.writeSt = false := by
  revert hok
  unfold startup
  simp only []
  (repeat' split) <;> simp_all [TPM_INVALID_POSTINIT, TPM_FAILEDSELFTEST, clearStFlags]

/-- ... and they do NOT end at a suspend/resume -/
theorem resume_keeps_flags (s : St) : (resume s).mem = s.mem ∧ (resume s).globalLock = s.globalLock ∧
    (resume s).pp = s.pp ∧ (resume s).ppLock = s.ppLock := ⟨rfl, rfl, rfl, rfl⟩

/-- TPM_SaveState, power cycle, TPM_Startup(ST_STATE) brings the volatile flags back: bGlobalLock, the command-asserted
    physical presence and its lock, and every area's bReadSTClear / bWriteSTClear -/
theorem applyFlags_restores (l m : List Area) (h : l.map core = m.map core) :
    applyFlags l (m.map fun a => (a.readSt, a.writeSt)) = m := by
  induction l generalizing m with
  | nil => cases m with
    | nil => rfl
    | cons b bs => simp at h
  | cons a as ih =>
    cases m with
    | nil => simp at h
    | cons b bs =>
      simp only [List.map_cons, List.cons.injEq] at h
      simp only [List.map_cons, applyFlags, ih bs h.2, List.cons.injEq, and_true]
      have := h.1
      cases a; cases b; simp_all [core]

theorem savestate_startup_state_restores (s : St) (h : Agree s) (hrun : checkState s = 0) :
    let s1 := (saveState s).1
    let s3 := (startup (powerCycle s1) TPM_ST_STATE).1
    (startup (powerCycle s1) TPM_ST_STATE).2.rc = 0 ∧ s3.mem.areas = s.mem.areas ∧ s3.globalLock = s.globalLock ∧
    s3.pp = s.pp ∧ s3.ppLock = s.ppLock := by
  have hlen : s.sto.areas.length = s.mem.areas.length := by
    have := congrArg List.length h.1; simpa using this.symm
  have hs1 : (saveState s).1 = { s with stateSaved := true, saved := some (Saved.mk s.globalLock s.pp s.ppLock
      (s.mem.areas.map fun a => (a.readSt, a.writeSt))) } := by simp [saveState, hrun]
  simp only [hs1]
  have hne : ¬ ((s.mem.areas.map fun a => (a.readSt, a.writeSt)).length ≠ s.sto.areas.length) := by simp [hlen]
  simp only [startup, powerCycle, TPM_ST_STATE, TPM_ST_CLEAR, Bool.not_true, Bool.false_eq_true, if_false,
    show ¬ (2 = 1) by decide, if_true, hne]
  refine ⟨trivial, ?_, trivial, trivial, trivial⟩
  exact applyFlags_restores _ _ h.1.symm

/-! ### bGlobalLock -/

/-- a write of size 0 to index 0 sets bGlobalLock and touches nothing else -/
theorem index0_write_sets_globallock (s : St) (tag : Tag) (loc : Nat) (hw : Bool) (off : Nat)
    (hok : (nvWrite s tag loc hw TPM_NV_INDEX0 off []).2.rc = 0) :
    (nvWrite s tag loc hw TPM_NV_INDEX0 off []).1 = { s with globalLock := true } := by
  revert hok
  unfold nvWrite
  by_cases hc : checkState s = 0
  · simp only [hc, ne_eq, not_true_eq_false, if_false, if_true, List.length_nil]
    (repeat' split) <;> simp_all [TPM_AUTHFAIL]
  · simp [hc]

/-- bGlobalLock ends at the next power cycle (TPM_Init) -/
theorem powercycle_clears_globallock (s : St) : (powerCycle s).globalLock = false ∧ (powerCycle s).pp = false ∧
    (powerCycle s).ppLock = false ∧ (powerCycle s).postInit = true := ⟨rfl, rfl, rfl, rfl⟩

/-! ### nvLocked -/

/-- TPM_NV_DefineSpace(TPM_NV_INDEX_LOCK, size 0) without authorization sets nvLocked and stores it at once -/
theorem define_lock_sets_nvlocked (s : St) (hw : Bool) (attrs lr lw : Nat) (h : Agree s)
    (hok : (nvDefine s .rqu hw TPM_NV_INDEX_LOCK attrs 0 lr lw).2.rc = 0) :
    (nvDefine s .rqu hw TPM_NV_INDEX_LOCK attrs 0 lr lw).1.mem.nvLocked = true ∧
    (nvDefine s .rqu hw TPM_NV_INDEX_LOCK attrs 0 lr lw).1.sto.nvLocked = true := by
  revert hok
  unfold nvDefine
  by_cases hl : (!legalLoc lr || !legalLoc lw) = true
  · simp [hl, TPM_INVALID_STRUCTURE]
  simp only [hl, Bool.false_eq_true, if_false]
  by_cases hc : checkState s = 0
  · simp only [hc, ne_eq, not_true_eq_false, if_false, Tag.isRqu, decide_true, Bool.and_self, if_true]
    by_cases hk : s.mem.nvLocked = true
    · intro _
      simp only [hk, if_true]
      exact ⟨trivial, h.2.1 ▸ hk⟩
    · simp [hk, store]
  · simp [hc]


/-! ### define / delete -/

/-- every way TPM_NV_DefineSpace (other than the nvLocked pseudo definition) can succeed: it deleted the area (size 0), it
    was a trial, or it created the area; in the first and last case the result is in storage before the command answers -/
theorem nvDefine_success (s : St) (tag : Tag) (hw : Bool) (idx attrs size lr lw : Nat) (hi : idx ≠ TPM_NV_INDEX_LOCK)
    (hok : (nvDefine s tag hw idx attrs size lr lw).2.rc = 0) :
    let s' := (nvDefine s tag hw idx attrs size lr lw).1
    ((lookup s.mem idx).isSome = true ∧ size = 0 ∧ s'.mem.areas = (remove s.mem idx).areas ∧ s'.sto = s'.mem) ∨
    (idx = TPM_NV_INDEX_TRIAL ∧ s'.mem.areas = (remove s.mem idx).areas) ∨
    (size ≠ 0 ∧ s'.mem.areas = (remove s.mem idx).areas ++ [newArea idx attrs size lr lw] ∧ s'.sto = s'.mem) := by
  revert hok
  unfold nvDefine
  by_cases hl : (!legalLoc lr || !legalLoc lw) = true
  · simp [hl, TPM_INVALID_STRUCTURE]
  simp only [hl, Bool.false_eq_true, if_false]
  by_cases hc : checkState s = 0
  case neg => simp [hc]
  simp only [hc, ne_eq, not_true_eq_false, if_false, hi, decide_false, Bool.false_and, Bool.false_eq_true]
  by_cases h1 : defineRefusal1 s tag hw idx size = 0
  case neg => simp [h1]
  simp only [h1, not_true_eq_false, if_false]
  by_cases hdel : ((lookup s.mem idx).isSome && decide (size = 0)) = true
  · simp only [hdel, if_true]
    intro _
    left
    simp only [Bool.and_eq_true, decide_eq_true_eq] at hdel
    exact ⟨hdel.1, hdel.2, by simp [store], rfl⟩
  simp only [hdel, Bool.false_eq_true, if_false]
  by_cases h2 : defineRefusal2 (remove s.mem idx) idx attrs size lr = 0
  case neg => simp [h2]
  simp only [h2, not_true_eq_false, if_false]
  by_cases ht : idx = TPM_NV_INDEX_TRIAL
  · simp only [ht, if_true]
    intro _; right; left
    refine ⟨trivial, ?_⟩
    simp only [nvStore]
    (repeat' split) <;> simp [store] <;> simp_all
  · simp only [ht, if_false]
    intro _; right; right
    have hsz : size ≠ 0 := by
      have := firstRefusal_eq_zero _ (defineChecks2_nz (remove s.mem idx) idx attrs size lr) h2 (size == 0, TPM_BAD_PARAM_SIZE)
        (by simp [defineChecks2])
      simpa using this
    exact ⟨hsz, by simp [store], rfl⟩

/-- **a definition creates exactly that area**: size bytes of 0xFF, the requested attributes and localities, all three lock
    flags FALSE — whatever was defined under that index before — and no other index changes -/
theorem define_creates (s : St) (tag : Tag) (hw : Bool) (idx attrs size lr lw : Nat) (hi : idx ≠ TPM_NV_INDEX_LOCK)
    (ht : idx ≠ TPM_NV_INDEX_TRIAL) (hsz : size ≠ 0) (hok : (nvDefine s tag hw idx attrs size lr lw).2.rc = 0) :
    let s' := (nvDefine s tag hw idx attrs size lr lw).1
    lookup s'.mem idx = some (newArea idx attrs size lr lw) ∧ (∀ j, j ≠ idx → lookup s'.mem j = lookup s.mem j) ∧
    s'.sto = s'.mem := by
  rcases nvDefine_success s tag hw idx attrs size lr lw hi hok with ⟨_, h, _⟩ | ⟨h, _⟩ | ⟨_, hm, hst⟩
  · exact absurd h hsz
  · exact absurd h ht
  · have hnone : lookup (remove s.mem idx) (newArea idx attrs size lr lw).index = none := by
      rw [lookup_remove]; simp [newArea]
    have key : ∀ j, lookup (nvDefine s tag hw idx attrs size lr lw).1.mem j =
        if j = idx then some (newArea idx attrs size lr lw) else lookup (remove s.mem idx) j := by
      intro j
      rw [lookup_areas_congr _ { remove s.mem idx with areas := (remove s.mem idx).areas ++ [newArea idx attrs size lr lw] } hm,
        lookup_append_new _ _ _ hnone]
      rfl
    refine ⟨by rw [key]; simp, ?_, hst⟩
    intro j hj
    rw [key, lookup_remove]; simp [hj]

/-- **a deletion removes exactly that area** (size 0 on a defined index) and is stored at once -/
theorem define_deletes (s : St) (tag : Tag) (hw : Bool) (idx attrs lr lw : Nat) (hi : idx ≠ TPM_NV_INDEX_LOCK)
    (ht : idx ≠ TPM_NV_INDEX_TRIAL) (hok : (nvDefine s tag hw idx attrs 0 lr lw).2.rc = 0) :
    let s' := (nvDefine s tag hw idx attrs 0 lr lw).1
    lookup s'.mem idx = none ∧ (∀ j, j ≠ idx → lookup s'.mem j = lookup s.mem j) ∧ s'.sto = s'.mem := by
  rcases nvDefine_success s tag hw idx attrs 0 lr lw hi hok with ⟨_, _, hm, hst⟩ | ⟨h, _⟩ | ⟨h, _⟩
  · refine ⟨?_, ?_, hst⟩
    · rw [lookup_areas_congr _ _ hm, lookup_remove]; simp
    · intro j hj; rw [lookup_areas_congr _ _ hm, lookup_remove]; simp [hj]
  · exact absurd h ht
  · exact absurd rfl h

/-- a refused definition of an index that is not defined changes nothing (a refused RE-definition reloads the stored
    state: see `agree_nvDefine`) -/
theorem define_refused_new_unchanged (s : St) (tag : Tag) (hw : Bool) (idx attrs size lr lw : Nat)
    (hnew : lookup s.mem idx = none) (hrc : (nvDefine s tag hw idx attrs size lr lw).2.rc ≠ 0) :
    (nvDefine s tag hw idx attrs size lr lw).1 = s := by
  revert hrc
  unfold nvDefine
  have hrem : remove s.mem idx = s.mem := remove_of_none _ _ hnew
  simp only [hnew, Option.isSome_none, Bool.false_and, Bool.false_eq_true, if_false, hrem, nvStore]
  (repeat' split) <;> simp_all


/-! ### well-formedness over histories: every area holds exactly `size` bytes, in memory and in storage -/

def WFp (p : Perm) : Prop := ∀ a ∈ p.areas, a.data.length = a.size
def WF2 (s : St) : Prop := WFp s.mem ∧ WFp s.sto

theorem wf_of_wf2 (s : St) (h : WF2 s) : WF s := h.1

theorem mem_setFirst (l : List Area) (a x : Area) (h : x ∈ setFirst l a) : x = a ∨ x ∈ l := by
  induction l with
  | nil => simp [setFirst] at h
  | cons b bs ih =>
    simp only [setFirst] at h
    split at h
    · rcases List.mem_cons.mp h with h | h
      · exact Or.inl h
      · exact Or.inr (List.mem_cons_of_mem _ h)
    · rcases List.mem_cons.mp h with h | h
      · exact Or.inr (by simp [h])
      · rcases ih h with h | h
        · exact Or.inl h
        · exact Or.inr (List.mem_cons_of_mem _ h)

theorem wfp_setArea (p : Perm) (a : Area) (h : WFp p) (ha : a.data.length = a.size) : WFp (setArea p a) := by
  intro x hx
  rcases mem_setFirst _ _ _ hx with h1 | h1
  · rw [h1]; exact ha
  · exact h x h1

theorem wfp_bump (p : Perm) (tag : Tag) (h : WFp p) : WFp (bump p tag) := by
  intro x hx; rw [bump_areas] at hx; exact h x hx

theorem wfp_remove (p : Perm) (i : Nat) (h : WFp p) : WFp (remove p i) := by
  intro x hx; exact h x (List.mem_filter.mp hx).1

theorem wfp_of_areas (p q : Perm) (e : q.areas = p.areas) (h : WFp p) : WFp q := by
  intro x hx; rw [e] at hx; exact h x hx

theorem wf2_store (s : St) (h : WFp s.mem) : WF2 (store s) := ⟨h, h⟩

theorem wf2_rollback (s : St) (h : WF2 s) : WF2 (rollback s) := by
  refine ⟨?_, h.2⟩
  intro x hx
  simp only [rollback, List.mem_map] at hx
  obtain ⟨b, hb, rfl⟩ := hx
  have := h.2 b hb
  split <;> exact this

theorem wf2_nvStore (s : St) (w : Bool) (rc : Nat) (h : WF2 s) : WF2 (nvStore s w rc) := by
  unfold nvStore
  (repeat' split) <;> first | exact h | exact wf2_store _ h.1 | exact wf2_rollback _ h

theorem wf2_mem (s s' : St) (h : WF2 s) (hs : s'.sto = s.sto) (hm : WFp s'.mem) : WF2 s' := ⟨hm, hs ▸ h.2⟩

theorem wf2_nvRead (s : St) (tag : Tag) (loc : Nat) (hw : Bool) (idx off n : Nat) (h : WF2 s) :
    WF2 (nvRead s tag loc hw idx off n).1 := by
  have hsto : (nvRead s tag loc hw idx off n).1.sto = s.sto := by
    unfold nvRead; by_cases hc : checkState s = 0 <;> simp [hc] <;> (repeat' split) <;> rfl
  refine wf2_mem s _ h hsto ?_
  rcases nvRead_areas s tag loc hw idx off n with e | ⟨a, ha, e⟩
  · exact wfp_of_areas _ _ e h.1
  · exact wfp_of_areas _ _ e (wfp_setArea _ _ h.1 (h.1 a (lookup_mem _ _ _ ha)))

theorem wf2_nvWrite (s : St) (tag : Tag) (loc : Nat) (hw : Bool) (idx off : Nat) (d : Bytes) (h : WF2 s) :
    WF2 (nvWrite s tag loc hw idx off d).1 := by
  unfold nvWrite
  by_cases hc : checkState s = 0
  case neg => simpa [hc] using h
  simp only [hc, ne_eq, not_true_eq_false, if_false]
  by_cases h0 : idx = TPM_NV_INDEX0
  · simp only [h0, if_true]; (repeat' split) <;> exact h
  simp only [h0, if_false]
  by_cases hd : idx = TPM_NV_INDEX_DIR
  · simp only [hd, if_true]; (repeat' split) <;> first | exact h | exact wf2_store _ (wfp_bump _ _ (wfp_of_areas s.mem _ rfl h.1))
  simp only [hd, if_false]
  cases ha : lookup s.mem idx with
  | none => exact h
  | some a =>
    have hlen := h.1 a (lookup_mem _ _ _ ha)
    simp only []
    by_cases hr : writeRefusal s tag loc hw a off d.length = 0
    case neg => simpa [hr] using h
    simp only [hr, not_true_eq_false, if_false]
    by_cases hl : d.length = 0
    · simp only [hl, if_true]
      split
      · exact wf2_mem s _ h rfl (wfp_setArea _ _ h.1 hlen)
      · exact wf2_store _ (wfp_bump _ _ (wfp_setArea _ _ h.1 hlen))
    · simp only [hl, if_false]
      have hall := firstRefusal_eq_zero _ (writeChecks_nz s tag loc hw a off d.length) hr
      have hsp := hall (d.length != 0 && (decide (off + d.length ≥ M32) || decide (off + d.length > a.size)), TPM_NOSPACE)
        (by simp [writeChecks])
      have hbound : off + d.length ≤ a.size := by
        simp only [Bool.and_eq_false_imp, bne_iff_ne, ne_eq, Bool.or_eq_false_iff, decide_eq_false_iff_not] at hsp
        have := (hsp hl).2; omega
      split
      · exact wf2_mem s _ h rfl (wfp_setArea _ _ h.1 hlen)
      · exact wf2_store _ (wfp_bump _ _ (wfp_setArea _ _ h.1 (by show (patch a.data off d).length = a.size; rw [patch_length _ _ _ (by omega)]; exact hlen)))


theorem wf2_nvWriteAuth (s : St) (ok : Bool) (loc : Nat) (hw : Bool) (idx off : Nat) (d : Bytes) (h : WF2 s) :
    WF2 (nvWriteAuth s ok loc hw idx off d).1 := by
  unfold nvWriteAuth
  by_cases hc : checkStateOwner s = 0
  case neg => simpa [hc] using h
  simp only [hc, ne_eq, not_true_eq_false, if_false]
  cases ha : lookup s.mem idx with
  | none => exact h
  | some a =>
    have hlen := h.1 a (lookup_mem _ _ _ ha)
    simp only []
    by_cases hr : writeAuthRefusal s ok loc hw a off d.length = 0
    case neg => simpa [hr] using h
    simp only [hr, not_true_eq_false, if_false]
    by_cases hl : d.length = 0
    · simp only [hl, if_true]
      split
      · exact wf2_mem s _ h rfl (wfp_setArea _ _ h.1 hlen)
      · exact wf2_store _ (wfp_setArea _ _ h.1 hlen)
    · simp only [hl, if_false]
      have hall := firstRefusal_eq_zero _ (writeAuthChecks_nz s ok loc hw a off d.length) hr
      have hsp := hall (d.length != 0 && (decide (off + d.length ≥ M32) || decide (off + d.length > a.size)), TPM_NOSPACE)
        (by simp [writeAuthChecks])
      have hbound : off + d.length ≤ a.size := by
        simp only [Bool.and_eq_false_imp, bne_iff_ne, ne_eq, Bool.or_eq_false_iff, decide_eq_false_iff_not] at hsp
        have := (hsp hl).2; omega
      split
      · exact wf2_mem s _ h rfl (wfp_setArea _ _ h.1 hlen)
      · exact wf2_store _ (wfp_setArea _ _ h.1 (by show (patch a.data off d).length = a.size; rw [patch_length _ _ _ (by omega)]; exact hlen))

theorem wf2_nvReadAuth (s : St) (ok : Bool) (loc : Nat) (hw : Bool) (idx off n : Nat) (h : WF2 s) :
    WF2 (nvReadAuth s ok loc hw idx off n).1 := by
  unfold nvReadAuth
  by_cases hc : checkStateOwner s = 0
  case neg => simpa [hc] using h
  simp only [hc, ne_eq, not_true_eq_false, if_false]
  cases ha : lookup s.mem idx with
  | none => exact h
  | some a =>
    simp only []
    (repeat' split) <;> first | exact h | skip
    exact wf2_mem s _ h rfl (wfp_setArea _ _ h.1 (h.1 a (lookup_mem _ _ _ ha)))

theorem wf2_tscPP (s : St) (v : Nat) (h : WF2 s) : WF2 (tscPP s v).1 := by
  unfold tscPP
  by_cases hc : checkState s = 0
  case neg => simpa [hc] using h
  simp only [hc, ne_eq, not_true_eq_false, if_false]
  (repeat' split) <;> first | exact h | exact wf2_store _ (wfp_of_areas s.mem _ rfl h.1) | exact wf2_mem s _ h rfl h.1

theorem wfp_newArea (p : Perm) (idx attrs size lr lw : Nat) (h : WFp p) :
    WFp { p with areas := p.areas ++ [newArea idx attrs size lr lw] } := by
  intro x hx
  rcases List.mem_append.mp hx with h1 | h1
  · exact h x h1
  · simp only [List.mem_singleton] at h1; rw [h1]; simp [newArea]

theorem wf2_nvDefine (s : St) (tag : Tag) (hw : Bool) (idx attrs size lr lw : Nat) (h : WF2 s) :
    WF2 (nvDefine s tag hw idx attrs size lr lw).1 := by
  unfold nvDefine
  by_cases hl : (!legalLoc lr || !legalLoc lw) = true
  · simpa [hl] using h
  simp only [hl, Bool.false_eq_true, if_false]
  by_cases hc : checkState s = 0
  case neg => simpa [hc] using h
  simp only [hc, ne_eq, not_true_eq_false, if_false]
  have hrem : WFp (remove s.mem idx) := wfp_remove _ _ h.1
  have h1' : WF2 { s with mem := remove s.mem idx } := ⟨hrem, h.2⟩
  (repeat' split) <;> first
    | exact h
    | exact wf2_store _ (wfp_of_areas s.mem _ rfl h.1)
    | exact wf2_store _ (wfp_bump _ _ hrem)
    | exact wf2_nvStore _ _ _ h1'
    | exact wf2_nvStore _ _ _ ⟨wfp_bump _ _ hrem, h.2⟩
    | exact wf2_store _ (wfp_bump _ _ (wfp_newArea _ _ _ _ _ _ hrem))

theorem wf2_startup (s : St) (t : Nat) (h : WF2 s) : WF2 (startup s t).1 := by
  have hclr : WFp (clearStFlags s.mem) := by
    intro x hx
    simp only [clearStFlags, List.mem_map] at hx
    obtain ⟨b, hb, rfl⟩ := hx
    exact h.1 b hb
  have happ : ∀ fs, WFp { s.mem with areas := applyFlags s.mem.areas fs } := by
    intro fs x hx
    have : ∀ (l : List Area) (fs : List (Bool × Bool)), (∀ a ∈ l, a.data.length = a.size) →
        ∀ x ∈ applyFlags l fs, x.data.length = x.size := by
      intro l
      induction l with
      | nil => intro fs _ x hx; cases fs <;> simp [applyFlags] at hx
      | cons a as ih =>
        intro fs hl x hx
        cases fs with
        | nil => exact hl x hx
        | cons f fs =>
          simp only [applyFlags, List.mem_cons] at hx
          rcases hx with hx | hx
          · rw [hx]; exact hl a (by simp)
          · exact ih fs (fun b hb => hl b (by simp [hb])) x hx
    exact this _ _ h.1 x hx
  unfold startup
  simp only []
  (repeat' split) <;> first
    | exact wf2_mem s _ h rfl h.1
    | exact wf2_mem s _ h rfl hclr
    | exact wf2_mem s _ h rfl (happ _)

theorem wf2_invalidateSaved (s : St) (h : WF2 s) : WF2 (invalidateSaved s) := by
  unfold invalidateSaved; split
  · exact wf2_mem s _ h rfl h.1
  · exact h

/-- every area holds exactly `size` bytes, in memory and in storage, after any history from a brand new TPM -/
theorem wf2_step (s : St) (op : Op) (h : WF2 s) : WF2 (step s op).1 := by
  have hi := wf2_invalidateSaved s h
  cases op with
  | startup t => exact wf2_startup s t h
  | tscPP v => exact wf2_tscPP _ v hi
  | define tag hw idx attrs size lr lw => exact wf2_nvDefine _ tag hw idx attrs size lr lw hi
  | write tag loc hw idx off d => exact wf2_nvWrite _ tag loc hw idx off d hi
  | read tag loc hw idx off n => exact wf2_nvRead _ tag loc hw idx off n hi
  | writeAuth ok loc hw idx off d => exact wf2_nvWriteAuth _ ok loc hw idx off d hi
  | readAuth ok loc hw idx off n => exact wf2_nvReadAuth _ ok loc hw idx off n hi
  | takeOwnership => exact wf2_store _ (wfp_of_areas _ _ rfl hi.1)
  | stored => exact wf2_store _ h.1
  | saveState =>
    show WF2 (saveState (invalidateSaved s)).1
    unfold saveState
    simp only []
    split
    · exact hi
    · exact wf2_mem _ _ hi rfl hi.1
  | getPub idx =>
    show WF2 (step s (.getPub idx)).1
    simp only [step]
    (repeat' split) <;> exact hi
  | other => exact hi
  | powerCycle => exact ⟨h.2, h.2⟩
  | resume => exact ⟨h.1, h.1⟩

theorem wf2_fresh : WF2 fresh := by
  constructor <;> intro a ha <;> simp [fresh] at ha

/-- **read-after-write over whole histories**: in any state reached from a brand new TPM by any sequence of operations,
    a successful write followed by a successful read of the same range returns the bytes written -/
theorem read_after_write_reachable (ops : List Op) (tag tag' : Tag) (loc loc' : Nat) (hw hw' : Bool) (idx off : Nat) (d : Bytes)
    (hne : d.length ≠ 0) (h0 : idx ≠ TPM_NV_INDEX0) (hd : idx ≠ TPM_NV_INDEX_DIR) :
    let s := run fresh ops
    (nvWrite s tag loc hw idx off d).2.rc = 0 →
    (nvRead (nvWrite s tag loc hw idx off d).1 tag' loc' hw' idx off d.length).2.rc = 0 →
    (nvRead (nvWrite s tag loc hw idx off d).1 tag' loc' hw' idx off d.length).2.out = be32 d.length ++ d := by
  have hwf : ∀ (ops : List Op) (s : St), WF2 s → WF2 (run s ops) := by
    intro ops
    induction ops with
    | nil => intro s h; exact h
    | cons op ops ih => intro s h; exact ih _ (wf2_step s op h)
  intro s h1 h2
  exact read_after_write s tag tag' loc loc' hw hw' idx off d (wf_of_wf2 _ (hwf ops fresh wf2_fresh)) hne h0 hd h1 h2

end NV
end TpmVerif.Props.C20

/-!
  ## Monotonic counters (TPM_CreateCounter / IncrementCounter / ReadCounter / ReleaseCounter / ReleaseCounterOwner)

  Theorems about `Model.Tpm12.Counter` (follows tpm12/tpm_counter.c).
-/
namespace TpmVerif.Props.C20
namespace Ctr
open TpmVerif TpmVerif.Gen.Tpm12 TpmVerif.Model.Tpm12.Counter

theorem foldl_max_ge (l : List Slot) (m : Nat) : m ≤ l.foldl (fun m sl => max m sl.count) m := by
  induction l generalizing m with
  | nil => exact Nat.le_refl _
  | cons a as ih => exact Nat.le_trans (Nat.le_max_left _ _) (ih _)

theorem foldl_max_mono (l : List Slot) (m n : Nat) (h : m ≤ n) :
    l.foldl (fun m sl => max m sl.count) m ≤ l.foldl (fun m sl => max m sl.count) n := by
  induction l generalizing m n with
  | nil => exact h
  | cons a as ih => exact ih _ _ (by simp only [Nat.max_le]; omega)

/-- every slot's count, used or released, is at most the TPM-wide maximum -/
theorem le_maxCount (l : List Slot) (i : Nat) : (l.getD i {}).count ≤ maxCount l := by
  unfold maxCount
  induction l generalizing i with
  | nil => simp
  | cons a as ih =>
    cases i with
    | zero =>
      simp only [List.getD_cons_zero, List.foldl_cons]
      exact Nat.le_trans (Nat.le_max_right 0 a.count) (foldl_max_ge _ _)
    | succ k =>
      simp only [List.getD_cons_succ, List.foldl_cons]
      exact Nat.le_trans (ih k) (foldl_max_mono _ _ _ (Nat.zero_le _))

/-- raising one slot never lowers the maximum -/
theorem maxCount_set_ge (l : List Slot) (i : Nat) (sl : Slot) (h : (l.getD i {}).count ≤ sl.count) :
    maxCount l ≤ maxCount (l.set i sl) := by
  unfold maxCount
  suffices ∀ m n, m ≤ n → l.foldl (fun m s => max m s.count) m ≤ (l.set i sl).foldl (fun m s => max m s.count) n from this 0 0 (Nat.le_refl _)
  induction l generalizing i with
  | nil => intro m n hmn; simpa using hmn
  | cons a as ih =>
    intro m n hmn
    cases i with
    | zero =>
      simp only [List.set_cons_zero, List.foldl_cons]
      simp only [List.getD_cons_zero] at h
      exact foldl_max_mono _ _ _ (by simp only [Nat.max_le]; omega)
    | succ k =>
      simp only [List.set_cons_succ, List.foldl_cons]
      simp only [List.getD_cons_succ] at h
      exact ih k h _ _ (by simp only [Nat.max_le]; omega)

theorem getD_set (l : List Slot) (i j : Nat) (sl : Slot) :
    (l.set i sl).getD j {} = if i = j ∧ i < l.length then sl else l.getD j {} := by
  simp only [List.getD_eq_getElem?_getD, List.getElem?_set]
  by_cases h : i = j
  · subst h
    by_cases hl : i < l.length
    · simp [hl]
    · simp [hl, List.getElem?_eq_none (Nat.le_of_not_lt hl)]
  · simp [h]

def WF (s : St) : Prop := s.slots.length = TPM_MIN_COUNTERS


theorem release_slots_count (s : St) (id j : Nat) : ((release s id).slots.getD j {}).count = (s.slots.getD j {}).count := by
  unfold release
  simp only [getD_set]
  split
  · rename_i h; rw [← h.1]
  · rfl

/-- **counters only increase**: no operation whatsoever (create, increment, read, release by either authorization, wrong
    HMACs, Startup of any type, TPM_SaveState, power cycle, suspend/resume) lowers the count held in any slot, used or released -/
theorem count_never_decreases (s : St) (op : Op) (j : Nat) : countOf s j ≤ countOf (step s op).1 j := by
  unfold countOf
  cases op <;> simp only [step]
  case create ok =>
    (repeat' split) <;> try exact Nat.le_refl _
    rename_i i hi
    simp only [getD_set]
    split
    · rename_i h; rw [← h.1]; exact Nat.le_trans (le_maxCount _ _) (Nat.le_succ _)
    · exact Nat.le_refl _
  case increment id ok =>
    (repeat' split) <;> try exact Nat.le_refl _
    all_goals
      simp only [getD_set]
      split
      · rename_i h; rw [← h.1]; exact Nat.le_succ _
      · exact Nat.le_refl _
  case read id => (repeat' split) <;> exact Nat.le_refl _
  case release id ok => (repeat' split) <;> first | exact Nat.le_refl _ | exact Nat.le_of_eq (release_slots_count _ _ _).symm
  case releaseOwner id ok => (repeat' split) <;> first | exact Nat.le_refl _ | exact Nat.le_of_eq (release_slots_count _ _ _).symm
  case takeOwnership => exact Nat.le_refl _
  case startup t => (repeat' split) <;> exact Nat.le_refl _
  case saveState => exact Nat.le_refl _
  case powerCycle => exact Nat.le_refl _
  case resume => exact Nat.le_refl _

theorem count_never_decreases_run (ops : List Op) (s : St) (j : Nat) : countOf s j ≤ countOf (run s ops) j := by
  induction ops generalizing s with
  | nil => exact Nat.le_refl _
  | cons op ops ih => exact Nat.le_trans (count_never_decreases s op j) (ih _)

/-- **a new counter starts above everything the TPM has ever counted**: its first value is the maximum over all slots —
    including released ones — plus one -/
theorem create_above_all (s : St) (hok : (step s (.create true)).2.rc = 0) :
    (step s (.create true)).2.value = maxCount s.slots + 1 ∧ ∀ j, countOf s j < (step s (.create true)).2.value := by
  revert hok
  simp only [step]
  (repeat' split) <;> simp_all [TPM_AUTHFAIL, TPM_RESOURCES, nextCount]
  intro j; exact Nat.lt_succ_of_le (le_maxCount _ _)

/-- TPM_IncrementCounter adds exactly one, returns the new value and makes the counter the active one -/
theorem increment_adds_one (s : St) (id : Nat) (hok : (step s (.increment id true)).2.rc = 0) :
    (step s (.increment id true)).2.value = countOf s id + 1 ∧ (step s (.increment id true)).1.active = .id id ∧
    (step s (.increment id true)).2.stored = true := by
  revert hok
  simp only [step]
  (repeat' split) <;> simp_all [TPM_AUTHFAIL, TPM_BAD_COUNTER]

/-- **one counter per boot**: once a counter has been incremented, incrementing any other counter is refused until the
    next power cycle, whatever the authorization -/
theorem other_counter_refused (s : St) (id j : Nat) (ok : Bool) (ha : s.active = .id id) (hj : j ≠ id) :
    (step s (.increment j ok)).2.rc ≠ 0 ∧ (step s (.increment j ok)).1 = s := by
  simp only [step, ha]
  have : decide (id = j) = false := by simp; exact fun h => hj h.symm
  (repeat' split) <;> simp_all [TPM_BAD_COUNTER, TPM_FAILEDSELFTEST, TPM_INVALID_POSTINIT, TPM_NOSRK, checkState]

/-- a wrong HMAC changes nothing, for every counter command -/
theorem bad_hmac_no_change (s : St) (id : Nat) :
    (step s (.create false)).1 = s ∧ (step s (.increment id false)).1 = s ∧ (step s (.release id false)).1 = s ∧
    (step s (.releaseOwner id false)).1 = s := by
  refine ⟨?_, ?_, ?_, ?_⟩ <;> simp only [step] <;> (repeat' split) <;> simp_all

/-- **counters survive restarts**: a power cycle, a suspend/resume, TPM_SaveState and Startup of any type leave every slot as
    it is (the table is permanent data and every change is stored by the command that makes it) -/
theorem restart_keeps_counters (s : St) (t : Nat) :
    (step s .powerCycle).1.slots = s.slots ∧ (step s .resume).1.slots = s.slots ∧ (step s .saveState).1.slots = s.slots ∧
    (step s (.startup t)).1.slots = s.slots := by
  refine ⟨rfl, rfl, rfl, ?_⟩
  simp only [step]; (repeat' split) <;> rfl

/-- every command that changes the table hands the permanent state to storage -/
theorem change_is_stored (s : St) (op : Op) (h : (step s op).1.slots ≠ s.slots) : (step s op).2.stored = true := by
  revert h
  cases op <;> simp only [step] <;> (repeat' split) <;> simp_all

/-- TPM_ReadCounter returns the count of a created counter and refuses every other id -/
theorem read_returns_count (s : St) (id : Nat) (hok : (step s (.read id)).2.rc = 0) :
    (step s (.read id)).2.value = countOf s id ∧ validId s id = true := by
  revert hok
  simp only [step]
  (repeat' split) <;> simp_all [TPM_BAD_COUNTER]

end Ctr
end TpmVerif.Props.C20

/-!
  ## Enable / activate / ownership / clear flags (`Model.Tpm12.Flags`) and OIAP/OSAP authorization (`Model.Tpm12.Auth`)
-/
namespace TpmVerif.Props.C20
namespace Fl
open TpmVerif TpmVerif.Gen.Tpm12 TpmVerif.Model.Tpm12.Flags

/-- case analysis over every `if`/`match` of an unfolded model function -/
macro "fl_auto" : tactic =>
  `(tactic| ((repeat' split) <;> (try simp) <;> (repeat' split) <;> simp_all))

/-- is the operation one of the ordinals (everything except Startup, power cycle, suspend/resume)? -/
def isOrdinal : Op → Bool
  | .startup _ | .powerCycle | .resume => false
  | _ => true

theorem commit_rc (s : St) (p : Perm) : (commit s p).2.rc = 0 := by unfold commit; split <;> rfl

/-- **a refused command changes nothing**: whatever the reason (failed state, not started, disabled, deactivated, no owner,
    no physical presence, wrong HMAC, clear disabled, owner already set ...) the flags, the stored flags and everything
    else are as before -/
theorem ordinal_refused_unchanged (s : St) (op : Op) (h : (ordinal s op).2.rc ≠ 0) : (ordinal s op).1 = s := by
  revert h
  cases op <;> simp only [ordinal, tscPP, refuse] <;> (repeat' split) <;> simp_all [commit_rc]

theorem audit_rc (r : St × Obs) (op : Op) : (audit r op).2.rc = r.2.rc := by unfold audit; split <;> rfl

theorem audit_of_refused (r : St × Obs) (op : Op) (h : r.2.rc ≠ 0) : audit r op = r := by
  unfold audit; simp [h]

theorem step_ordinal (s : St) (op : Op) (ho : isOrdinal op = true) : step s op = audit (ordinal (invalidateSaved s) op) op := by
  cases op <;> first | rfl | (simp [isOrdinal] at ho)

theorem refused_changes_nothing (s : St) (op : Op) (ho : isOrdinal op = true) (h : (step s op).2.rc ≠ 0) :
    (step s op).1 = invalidateSaved s := by
  rw [step_ordinal s op ho] at h ⊢
  have hr : (ordinal (invalidateSaved s) op).2.rc ≠ 0 := by
    intro h0; apply h; unfold audit; split <;> simp_all
  rw [audit_of_refused _ _ hr]; exact ordinal_refused_unchanged _ _ hr

/-! ### which commands can change which flag -/

theorem audit_mem (r : St × Obs) (op : Op) : (audit r op).1.mem = r.1.mem ∧
    (audit r op).1.sc.deactivated = r.1.sc.deactivated ∧ (audit r op).1.sc.disableForceClear = r.1.sc.disableForceClear ∧
    (audit r op).1.sc.pp = r.1.sc.pp ∧ (audit r op).1.sc.ppLock = r.1.sc.ppLock ∧ (audit r op).1.postInit = r.1.postInit ∧
    (audit r op).1.failed = r.1.failed := by
  unfold audit; split <;> simp

theorem invalidateSaved_mem (s : St) : (invalidateSaved s).mem = s.mem ∧ (invalidateSaved s).sc = s.sc ∧
    (invalidateSaved s).sto = s.sto ∧ (invalidateSaved s).postInit = s.postInit ∧ (invalidateSaved s).failed = s.failed := by
  unfold invalidateSaved; split <;> simp

theorem checkState_invalidateSaved (s : St) (g : Gate) : checkState (invalidateSaved s) g = checkState s g := by
  unfold invalidateSaved; split <;> rfl

theorem commit_mem (s : St) (p : Perm) : (commit s p).1.mem = p ∧ (commit s p).1.sc = s.sc := by
  unfold commit; split <;> simp_all

theorem step_mem (s : St) (op : Op) : (step s op).1.mem =
    match op with
    | .startup _ => s.mem
    | .powerCycle => s.sto
    | .resume => s.mem
    | op => (ordinal (invalidateSaved s) op).1.mem := by
  cases op <;> simp only [step, (audit_mem _ _).1]
  · simp only [startup]; (repeat' split) <;> rfl
  · rfl
  · rfl

macro "perm_only_by" s:ident op:ident : tactic =>
  `(tactic| (rw [step_mem $s $op]; cases $op:ident <;> simp only [ordinal, tscPP, refuse] <;>
             (repeat' split) <;> simp_all [(commit_mem _ _).1, ppLifetime, (invalidateSaved_mem $s).1, clearCommon]))

/-- **the in-memory permanent flags change only by the listed commands** (and by a power cycle, which reloads the stored
    copy): every other operation — Startup of any type, SaveState, suspend/resume, probes, and each command as far as the
    OTHER flags are concerned — leaves them alone -/
theorem disable_changes_only_by (s : St) (op : Op) (h : (step s op).1.mem.disable ≠ s.mem.disable) :
    (∃ hw, op = .physicalEnable hw) ∨ (∃ hw, op = .physicalDisable hw) ∨ (∃ ok v, op = .ownerSetDisable ok v) ∨
    (∃ ok, op = .ownerClear ok) ∨ (∃ hw, op = .forceClear hw) ∨ op = .powerCycle := by
  revert h; perm_only_by s op

theorem owner_changes_only_by (s : St) (op : Op) (h : (step s op).1.mem.owner ≠ s.mem.owner) :
    (∃ ok, op = .takeOwnership ok) ∨ (∃ ok, op = .ownerClear ok) ∨ (∃ hw, op = .forceClear hw) ∨ op = .powerCycle := by
  revert h; perm_only_by s op

theorem ownership_changes_only_by (s : St) (op : Op) (h : (step s op).1.mem.ownership ≠ s.mem.ownership) :
    (∃ hw v, op = .setOwnerInstall hw v) ∨ (∃ ok, op = .ownerClear ok) ∨ (∃ hw, op = .forceClear hw) ∨ op = .powerCycle := by
  revert h; perm_only_by s op

theorem deactivated_changes_only_by (s : St) (op : Op) (h : (step s op).1.mem.deactivated ≠ s.mem.deactivated) :
    (∃ hw v, op = .physicalSetDeactivated hw v) ∨ (∃ ok, op = .ownerClear ok) ∨ (∃ hw, op = .forceClear hw) ∨ op = .powerCycle := by
  revert h; perm_only_by s op

theorem disableOwnerClear_changes_only_by (s : St) (op : Op) (h : (step s op).1.mem.disableOwnerClear ≠ s.mem.disableOwnerClear) :
    (∃ ok, op = .disableOwnerClear ok) ∨ (∃ ok, op = .ownerClear ok) ∨ (∃ hw, op = .forceClear hw) ∨ op = .powerCycle := by
  revert h; perm_only_by s op


/-! ### the clear commands -/

/-- **TPM_OwnerClear is refused under disableOwnerClear**, whatever the authorization, and changes nothing -/
theorem ownerClear_refused_when_disabled (s : St) (ok : Bool) (h : s.mem.disableOwnerClear = true) :
    (step s (.ownerClear ok)).2.rc ≠ 0 ∧ (step s (.ownerClear ok)).1 = invalidateSaved s := by
  have hr : (step s (.ownerClear ok)).2.rc ≠ 0 := by
    simp only [step, audit, ordinal, refuse, (invalidateSaved_mem s).1, h]
    (repeat' split) <;> simp_all [TPM_AUTHFAIL, TPM_CLEAR_DISABLED]
  exact ⟨hr, refused_changes_nothing s _ rfl hr⟩

/-- **TPM_ForceClear is refused under disableForceClear and without physical presence** -/
theorem forceClear_refused (s : St) (hw : Bool) (h : s.sc.disableForceClear = true ∨ presence s hw = false) :
    (step s (.forceClear hw)).2.rc ≠ 0 ∧ (step s (.forceClear hw)).1 = invalidateSaved s := by
  have hp : presence (invalidateSaved s) hw = presence s hw := by
    simp [presence, (invalidateSaved_mem s).1, (invalidateSaved_mem s).2.1]
  have hr : (step s (.forceClear hw)).2.rc ≠ 0 := by
    simp only [step, audit, ordinal, refuse, hp, (invalidateSaved_mem s).2.1]
    rcases h with h | h <;> (repeat' split) <;> simp_all [TPM_BAD_PRESENCE, TPM_CLEAR_DISABLED]
  exact ⟨hr, refused_changes_nothing s _ rfl hr⟩

/-- **what a successful clear resets**: no owner, disabled, deactivated (permanent copy), ownership allowed, disableOwnerClear
    FALSE — in memory AND in storage when the command answers; the physical-presence enables and the EK are untouched -/
theorem clear_resets (s : St) (op : Op) (hop : (∃ ok, op = .ownerClear ok) ∨ (∃ hw, op = .forceClear hw))
    (hok : (step s op).2.rc = 0) :
    (step s op).1.mem = clearCommon s.mem ∧ (step s op).1.sto = clearCommon s.mem ∧ (step s op).2.stored = true := by
  revert hok
  rcases hop with ⟨ok, rfl⟩ | ⟨hw, rfl⟩ <;>
    simp only [step, audit, ordinal, refuse, (invalidateSaved_mem s).1] <;>
    (repeat' split) <;> simp_all [TPM_AUTHFAIL, TPM_BAD_PRESENCE, TPM_CLEAR_DISABLED]

theorem clearCommon_flags (p : Perm) : (clearCommon p).owner = false ∧ (clearCommon p).disable = true ∧
    (clearCommon p).deactivated = true ∧ (clearCommon p).ownership = true ∧ (clearCommon p).disableOwnerClear = false ∧
    (clearCommon p).ppCmd = p.ppCmd ∧ (clearCommon p).ppHw = p.ppHw ∧ (clearCommon p).ppLife = p.ppLife ∧ (clearCommon p).ek = p.ek :=
  ⟨rfl, rfl, rfl, rfl, rfl, rfl, rfl, rfl, rfl⟩

/-! ### what a disabled / deactivated TPM refuses and what it lets through -/

/-- the state in which ordinals are processed at all -/
def Running (s : St) : Prop := s.failed = false ∧ s.postInit = false

/-- **a disabled TPM answers TPM_DISABLED, a deactivated one TPM_DEACTIVATED, to the protected ordinals** (PCRRead, GetRandom,
    GetTicks: TPM_CHECK_ALLOW_NO_OWNER) and **still answers** Extend, OIAP, NV_ReadValue of the DIR and GetCapability -/
theorem gated_probes (s : St) (hr : Running s) :
    (∀ p, p = Probe.pcrRead ∨ p = Probe.getRandom ∨ p = Probe.getTicks →
      (step s (.probe p)).2.rc = if s.mem.disable then TPM_DISABLED else if s.sc.deactivated then TPM_DEACTIVATED else 0) ∧
    (∀ p, p = Probe.extend ∨ p = Probe.oiap ∨ p = Probe.nvReadDir ∨ p = Probe.getCapFlags → (step s (.probe p)).2.rc = 0) := by
  obtain ⟨hf, hp⟩ := hr
  constructor
  · intro p hp'
    rcases hp' with rfl | rfl | rfl <;>
      simp [step, audit, audited, Op.ordinal?, ordinal, checkState, Probe.gate, gateAllowNoOwner, (invalidateSaved_mem s).1,
        (invalidateSaved_mem s).2.1, (invalidateSaved_mem s).2.2.2, hf, hp] <;> (repeat' split) <;> simp_all
  · intro p hp'
    rcases hp' with rfl | rfl | rfl | rfl <;>
      simp [step, audit, audited, Op.ordinal?, ordinal, checkState, Probe.gate, gateNone, (invalidateSaved_mem s).2.2.2, hf, hp]

/-- the commands that lead out of the disabled state are themselves available in it: PhysicalEnable needs only physical
    presence, OwnerSetDisable only the owner's authorization -/
theorem enable_available_when_disabled (s : St) (hr : Running s) (hw : Bool) (hpp : presence s hw = true) :
    (step s (.physicalEnable hw)).2.rc = 0 ∧ (step s (.physicalEnable hw)).1.mem.disable = false := by
  obtain ⟨hf, hp⟩ := hr
  have hp' : presence (invalidateSaved s) hw = true := by
    simpa [presence, (invalidateSaved_mem s).1, (invalidateSaved_mem s).2.1] using hpp
  have hcs : checkState (invalidateSaved s) gateNone = 0 := by
    simp [checkState, gateNone, (invalidateSaved_mem s).2.2.2, hf, hp]
  constructor
  · rw [step_ordinal s _ rfl, audit_rc]; simp [ordinal, hcs, hp', commit_rc]
  · rw [step_mem]; simp [ordinal, hcs, hp', (commit_mem _ _).1]

/-- **TPM_TakeOwnership succeeds exactly when** the TPM is started and not failed, enabled, has no owner, ownership is
    allowed, an endorsement key exists and the HMAC under the new owner secret is correct -/
theorem takeOwnership_iff (s : St) (ok : Bool) :
    (step s (.takeOwnership ok)).2.rc = 0 ↔
      (s.failed = false ∧ s.postInit = false ∧ s.mem.disable = false ∧ s.mem.owner = false ∧ s.mem.ownership = true ∧
       s.mem.ek = true ∧ ok = true) := by
  simp only [step, audit, ordinal, checkState, refuse, (invalidateSaved_mem s).1, (invalidateSaved_mem s).2.2.2]
  constructor
  · intro h; revert h
    (repeat' split) <;> simp_all [TPM_FAILEDSELFTEST, TPM_INVALID_POSTINIT, TPM_DISABLED, TPM_OWNER_SET, TPM_INSTALL_DISABLED,
      TPM_NO_ENDORSEMENT, TPM_AUTHFAIL]
  · intro ⟨h1, h2, h3, h4, h5, h6, h7⟩
    simp [h1, h2, h3, h4, h5, h6, h7]
    (repeat' split) <;> simp_all

/-- a wrong HMAC never changes a flag: every owner-authorized command with `ok = false` is refused -/
theorem wrong_hmac_refused (s : St) (v : Bool) :
    (step s (.ownerSetDisable false v)).2.rc ≠ 0 ∧ (step s (.takeOwnership false)).2.rc ≠ 0 ∧
    (step s (.ownerClear false)).2.rc ≠ 0 ∧ (step s (.disableOwnerClear false)).2.rc ≠ 0 := by
  refine ⟨?_, ?_, ?_, ?_⟩ <;>
    simp only [step, audit, ordinal, refuse] <;> (repeat' split) <;>
    simp_all [TPM_AUTHFAIL, TPM_OWNER_SET, TPM_INSTALL_DISABLED, TPM_NO_ENDORSEMENT]

/-! ### restarts -/

/-- memory and storage hold the same permanent flags -/
def Synced (s : St) : Prop := s.mem = s.sto

theorem synced_fresh : Synced fresh := rfl

theorem commit_synced (s : St) (p : Perm) (h : Synced s) : Synced (commit s p).1 := by
  unfold commit Synced at *; split <;> simp_all

/-- **write-through as an invariant**: after ANY history from a brand new TPM the stored permanent flags are the ones in
    memory — every command that changes a permanent flag stores it before it answers -/
theorem synced_step (s : St) (op : Op) (h : Synced s) : Synced (step s op).1 := by
  have hi : Synced (invalidateSaved s) := by
    unfold Synced; rw [(invalidateSaved_mem s).1, (invalidateSaved_mem s).2.2.1]; exact h
  have ha : ∀ r : St × Obs, Synced r.1 → Synced (audit r op).1 := by
    intro r hr; unfold audit; split
    · rfl
    · exact hr
  cases op
  case startup t => simp only [step, startup]; (repeat' split) <;> exact h
  case powerCycle => rfl
  case resume => rfl
  all_goals
    simp only [step]
    apply ha
    simp only [ordinal, tscPP, refuse]
    (repeat' split) <;> first | exact hi | exact commit_synced _ _ hi | rfl

theorem synced_run (ops : List Op) (s : St) (h : Synced s) : Synced (run s ops) := by
  induction ops generalizing s with
  | nil => exact h
  | cons op ops ih => exact ih _ (synced_step s op h)

/-- **permanent flags survive every kind of restart**: power cycle, suspend/resume, Startup of any type and TPM_SaveState
    leave disable, ownership, deactivated, disableOwnerClear, the physical-presence enables, the owner and the EK as they are -/
theorem permanent_survives_restart (s : St) (h : Synced s) (t : Nat) :
    (powerCycle s).mem = s.mem ∧ (resume s).mem = s.mem ∧ (startup s t).1.mem = s.mem ∧ (step s .saveState).1.mem = s.mem := by
  refine ⟨h.symm, rfl, ?_, ?_⟩
  · simp only [startup]; (repeat' split) <;> rfl
  · rw [step_mem]; simp only [ordinal, refuse]; (repeat' split) <;> simp [(invalidateSaved_mem s).1]

/-- **the ST_CLEAR flags are reset exactly at TPM_Startup(ST_CLEAR)**: after a power cycle and Startup(ST_CLEAR) they have their
    defaults, `deactivated` taking the value of the permanent flag; suspend/resume keeps them; Startup(ST_STATE) after
    TPM_SaveState brings them back; Startup(ST_DEACTIVATED) starts deactivated -/
theorem stclear_at_startup (s : St) :
    (startup (powerCycle s) TPM_ST_CLEAR).1.sc = { deactivated := s.sto.deactivated } ∧
    (startup (powerCycle s) TPM_ST_DEACTIVATED).1.sc = { deactivated := true } ∧
    (resume s).sc = s.sc ∧
    (checkState s gateNone = 0 → (startup (powerCycle (step s .saveState).1) TPM_ST_STATE).1.sc = s.sc ∧
      (startup (powerCycle (step s .saveState).1) TPM_ST_STATE).2.rc = 0) := by
  refine ⟨by simp [startup, powerCycle, TPM_ST_CLEAR], by simp [startup, powerCycle, TPM_ST_DEACTIVATED, TPM_ST_CLEAR, TPM_ST_STATE], rfl, ?_⟩
  intro hcs
  have hcs' : checkState (invalidateSaved s) gateNone = 0 := by rw [checkState_invalidateSaved]; exact hcs
  simp [step, audit, audited, Op.ordinal?, auditDefaultOrdinals, ordinal, hcs', startup, powerCycle, TPM_ST_STATE, TPM_ST_CLEAR,
    (invalidateSaved_mem s).2.1]


/-- the ST_CLEAR flags `deactivated` and `disableForceClear` change only by SetTempDeactivated / DisableForceClear, by Startup
    and by a power cycle -/
theorem stclear_changes_only_by (s : St) (op : Op)
    (h : (step s op).1.sc.deactivated ≠ s.sc.deactivated ∨ (step s op).1.sc.disableForceClear ≠ s.sc.disableForceClear) :
    (∃ hw, op = .setTempDeactivated hw) ∨ op = .disableForceClear ∨ (∃ t, op = .startup t) ∨ op = .powerCycle := by
  cases op
  case startup t => exact Or.inr (Or.inr (Or.inl ⟨t, rfl⟩))
  case powerCycle => exact Or.inr (Or.inr (Or.inr rfl))
  case resume => simp [step, resume] at h
  all_goals
    rw [step_ordinal s _ rfl, (audit_mem _ _).2.1, (audit_mem _ _).2.2.1] at h
    revert h
    simp only [ordinal, tscPP, refuse]
    (repeat' split) <;> simp_all [(commit_mem _ _).2, ppAssert, (invalidateSaved_mem s).2.1, clearStClear]

end Fl

/-! ## OIAP / OSAP authorization: `Model.Tpm12.Auth` -/
namespace Hmac
open TpmVerif TpmVerif.Model TpmVerif.Model.Tpm12.Auth

/-- **the acceptance condition, exactly**: the TPM accepts an authorized request iff the HMAC it received is
    HMAC-SHA1(its key, SHA-1(ordinal ‖ parameters as received) ‖ its nonceEven ‖ nonceOdd ‖ continueAuthSession) -/
theorem accepts_iff (r : Request) :
    accepts r = true ↔ r.mac = hmac r.key (Sha1.sha1 r.pd ++ r.nonceEven ++ r.nonceOdd ++ [contByte r.cont]) := by
  unfold accepts authMac authMsg
  constructor
  · intro h; exact (beq_iff_eq.mp h).symm
  · intro h; rw [h]; exact beq_self_eq_true _

/-- the OSAP shared secret is HMAC-SHA1(entity secret, nonceEvenOSAP ‖ nonceOddOSAP) -/
theorem osapSecret_eq (es neo noo : Bytes) : osapSecret es neo noo = hmac es (neo ++ noo) := rfl

/-- the response HMAC is the same function over SHA-1(returnCode ‖ ordinal ‖ output parameters) and the NEW nonceEven -/
theorem responseMac_eq (key rpd ne no : Bytes) (c : Bool) :
    responseMac key rpd ne no c = hmac key (Sha1.sha1 rpd ++ ne ++ no ++ [contByte c]) := rfl

theorem contByte_inj (a b : Bool) (h : contByte a = contByte b) : a = b := by
  cases a <;> cases b <;> simp_all [contByte]

theorem append_inj20 (a b c d : Bytes) (ha : a.length = 20) (hc : c.length = 20) (h : a ++ b = c ++ d) : a = c ∧ b = d :=
  List.append_inj h (by rw [ha, hc])

/-- **the HMAC input is injective** in the parameter digest, both nonces and the continue flag (20-byte digests and nonces):
    two requests with the same HMAC input agree on all four, so changing any one of them changes the input -/
theorem authMsg_inj (d e o d' e' o' : Bytes) (c c' : Bool)
    (hd : d.length = 20) (he : e.length = 20) (ho : o.length = 20) (hd' : d'.length = 20) (he' : e'.length = 20) (ho' : o'.length = 20)
    (h : authMsg d e o c = authMsg d' e' o' c') : d = d' ∧ e = e' ∧ o = o' ∧ c = c' := by
  unfold authMsg at h
  simp only [List.append_assoc] at h
  obtain ⟨h1, h⟩ := append_inj20 _ _ _ _ hd hd' h
  obtain ⟨h2, h⟩ := append_inj20 _ _ _ _ he he' h
  obtain ⟨h3, h⟩ := append_inj20 _ _ _ _ ho ho' h
  refine ⟨h1, h2, h3, ?_⟩
  simp only [List.cons.injEq, and_true] at h
  exact contByte_inj _ _ h

/-- each single-field corruption the client can produce changes the HMAC input: a stale nonceEven, another nonceOdd, a flipped
    continueAuthSession, other parameters (another parameter digest) -/
theorem corruption_changes_input (d e o : Bytes) (c : Bool) (hd : d.length = 20) (he : e.length = 20) (ho : o.length = 20) :
    authMsg d e o c ≠ authMsg d e o (!c) ∧
    (∀ e', e'.length = 20 → e' ≠ e → authMsg d e' o c ≠ authMsg d e o c) ∧
    (∀ d', d'.length = 20 → d' ≠ d → authMsg d' e o c ≠ authMsg d e o c) := by
  refine ⟨?_, ?_, ?_⟩
  · intro h; have := (authMsg_inj _ _ _ _ _ _ _ _ hd he ho hd he ho h).2.2.2; cases c <;> simp at this
  · intro e' he' hne h; exact hne (authMsg_inj _ _ _ _ _ _ _ _ hd he' ho hd he ho h).2.1
  · intro d' hd' hne h; exact hne (authMsg_inj _ _ _ _ _ _ _ _ hd' he ho hd he ho h).1

/-- SHA-1 digests are 20 bytes: the parameter digest always has the length `authMsg_inj` asks for -/
theorem hmac_key_pad_length (key : Bytes) (pad : UInt8) (h : key.length ≤ blockSize) : (padKey key pad).length = blockSize := by
  unfold padKey
  have : ¬ key.length > blockSize := by omega
  simp [this]; omega

/-- RFC 2202 test case 2 for HMAC-SHA1 (a test of the definition, not a theorem about the code) -/
example : hmac (Sha1.ofString "Jefe") (Sha1.ofString "what do ya want for nothing?") =
    [0xef, 0xfc, 0xdf, 0x6a, 0xe5, 0xeb, 0x2f, 0xa2, 0xd2, 0x74, 0x16, 0xd5, 0xf1, 0x84, 0xdf, 0x9c, 0x25, 0x9a, 0x7c, 0x79] := by
  decide +kernel

end Hmac
end TpmVerif.Props.C20
