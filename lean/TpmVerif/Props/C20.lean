import TpmVerif.Model.Tpm12Core
import TpmVerif.Spec.Tpm12Pcr
/-!
  C20 — TPM 1.2 core services (PCR extend chain / reset values / locality rules, SHA-1 thread, TIS hash
  interface).  Property theorems about `Model.Sha1` and `Model.Tpm12.Core`.  The PCR attribute, initial-value
  and reset-value tables are the ones regenerated from /repo (`Gen.Tpm12`); `Spec` below is the hand-written
  expected copy (TCG PC Client TIS, table 4/5) they are compared with.
-/
namespace TpmVerif.Props.C20
open TpmVerif TpmVerif.Gen.Tpm12 TpmVerif.Model TpmVerif.Model.Tpm12.Core

/-! ### SHA-1: streaming equals one-shot for every chunking -/

/-- absorbing `a` and then `b` is absorbing `a ++ b` — for every state and every pair of byte strings -/
theorem update_append (s : Sha1.St) (a b : Sha1.Bytes) :
    Sha1.update (Sha1.update s a) b = Sha1.update s (a ++ b) := by
  simp [Sha1.update, List.foldl_append]

theorem update_nil (s : Sha1.St) : Sha1.update s [] = s := rfl

/-- any list of chunks, absorbed one call at a time, leaves the same state as absorbing their concatenation -/
theorem update_chunks (chunks : List Sha1.Bytes) (s : Sha1.St) :
    chunks.foldl Sha1.update s = Sha1.update s chunks.flatten := by
  induction chunks generalizing s with
  | nil => rfl
  | cons c cs ih => simp only [List.foldl_cons, List.flatten_cons]; rw [ih, update_append]

/-- **streaming SHA-1 = one-shot SHA-1 for every chunking** of the message -/
theorem sha1_chunking (chunks : List Sha1.Bytes) :
    Sha1.final (chunks.foldl Sha1.update Sha1.init) = Sha1.sha1 chunks.flatten := by
  rw [update_chunks]; rfl

/-! Tests (not theorems about the code): the Lean SHA-1 against FIPS 180 / NIST example vectors. -/
example : Sha1.sha1 (Sha1.ofString "abc") =
    [0xa9, 0x99, 0x3e, 0x36, 0x47, 0x06, 0x81, 0x6a, 0xba, 0x3e, 0x25, 0x71, 0x78, 0x50, 0xc2, 0x6c, 0x9c, 0xd0, 0xd8, 0x9d] := by
  decide +kernel
example : Sha1.sha1 [] =
    [0xda, 0x39, 0xa3, 0xee, 0x5e, 0x6b, 0x4b, 0x0d, 0x32, 0x55, 0xbf, 0xef, 0x95, 0x60, 0x18, 0x90, 0xaf, 0xd8, 0x07, 0x09] := by
  decide +kernel
example : Sha1.sha1 (Sha1.ofString "abcdbcdecdefdefgefghfghighijhijkijkljklmklmnlmnomnopnopq") =
    [0x84, 0x98, 0x3e, 0x44, 0x1c, 0x3b, 0xd2, 0x6e, 0xba, 0xae, 0x4a, 0xa1, 0xf9, 0x51, 0x29, 0xe5, 0xe5, 0x46, 0x70, 0xf1] := by
  decide +kernel
/-- two-block NIST vector (896 bits) -/
example : Sha1.sha1 (Sha1.ofString
    "abcdefghbcdefghicdefghijdefghijkefghijklfghijklmghijklmnhijklmnoijklmnopjklmnopqklmnopqrlmnopqrsmnopqrstnopqrstu") =
    [0xa4, 0x9b, 0x24, 0x46, 0xa0, 0x2c, 0x64, 0x5b, 0xf4, 0x19, 0xf9, 0x95, 0xb6, 0x70, 0x91, 0x25, 0x3a, 0x04, 0xa2, 0x59] := by
  decide +kernel

/-! ### Tables: the generated PCR attributes equal the PC Client table -/


theorem pcr_table_is_pcclient : pcrAttrib = Spec.Tpm12Pcr.pcClient := by decide
theorem pcr_init_values : pcrInitByte = Spec.Tpm12Pcr.initByte := by decide
theorem num_pcr : TPM_NUM_PCR = 24 ∧ pcrAttrib.length = 24 ∧ pcrInitByte.length = 24 ∧ TPM_LOCALITY_4_PCR = 17 := by decide

/-- reset values: with TOSPresent every resettable PCR resets to zeros; without it 16 and 23 reset to zeros and
    17–22 to all ones -/
theorem pcr_reset_values :
    (∀ i, 16 ≤ i → i < 24 → pcrResetByteTos.getD i 7 = 0) ∧
    pcrResetByteNoTos.getD 16 7 = 0 ∧ pcrResetByteNoTos.getD 23 7 = 0 ∧
    (∀ i, 17 ≤ i → i < 23 → pcrResetByteNoTos.getD i 7 = 255) := by
  refine ⟨?_, by decide, by decide, ?_⟩
  · intro i h1 h2
    have : i = 16 ∨ i = 17 ∨ i = 18 ∨ i = 19 ∨ i = 20 ∨ i = 21 ∨ i = 22 ∨ i = 23 := by omega
    rcases this with h | h | h | h | h | h | h | h <;> subst h <;> decide
  · intro i h1 h2
    have : i = 17 ∨ i = 18 ∨ i = 19 ∨ i = 20 ∨ i = 21 ∨ i = 22 := by omega
    rcases this with h | h | h | h | h | h <;> subst h <;> decide

/-- PCR 0–15 can never be reset and can be extended from every locality 0..4 -/
theorem static_pcrs (i loc : Nat) (hi : i < 16) (hl : loc ≤ 4) :
    canReset i = false ∧ locAllowed (extendLocal i) loc = true := by
  have hi' : i = 0 ∨ i = 1 ∨ i = 2 ∨ i = 3 ∨ i = 4 ∨ i = 5 ∨ i = 6 ∨ i = 7 ∨ i = 8 ∨ i = 9 ∨ i = 10 ∨ i = 11 ∨
      i = 12 ∨ i = 13 ∨ i = 14 ∨ i = 15 := by omega
  have hl' : loc = 0 ∨ loc = 1 ∨ loc = 2 ∨ loc = 3 ∨ loc = 4 := by omega
  rcases hi' with h | h | h | h | h | h | h | h | h | h | h | h | h | h | h | h <;> subst h <;>
    rcases hl' with h | h | h | h | h <;> subst h <;> decide

/-! ### Well-formed states -/

def WF (s : St) : Prop := s.pcrs.length = TPM_NUM_PCR

theorem wf_powerOn (e : Bool) (m : Nat) : WF (powerOn e m) := by
  simp [WF, powerOn, initPcrs, pcrInitByte, TPM_NUM_PCR]

theorem pcr_setPcr_same (s : St) (i : Nat) (v : Bytes) (h : i < s.pcrs.length) : pcr (setPcr s i v) i = v := by
  simp [pcr, setPcr, List.getD_eq_getElem?_getD, h]

theorem pcr_setPcr_other (s : St) (i j : Nat) (v : Bytes) (h : j ≠ i) : pcr (setPcr s i v) j = pcr s j := by
  simp [pcr, setPcr, List.getD_eq_getElem?_getD, List.getElem?_set_ne (Ne.symm h)]

theorem wf_setPcr (s : St) (i : Nat) (v : Bytes) (h : WF s) : WF (setPcr s i v) := by
  simpa [WF, setPcr] using h

/-! ### Extend -/

theorem checkState_eq_zero_iff (s : St) : checkState s = 0 ↔ (s.failed = false ∧ s.postInit = false) := by
  unfold checkState
  cases s.failed <;> cases s.postInit <;> simp [TPM_FAILEDSELFTEST, TPM_INVALID_POSTINIT]

theorem extendRefusal_eq_zero_iff (s : St) (loc i : Nat) :
    extendRefusal s loc i = 0 ↔
      (i < TPM_NUM_PCR ∧ locAllowed (extendLocal i) loc = true ∧
       ¬ (i = TPM_LOCALITY_4_PCR ∧ loc ≠ 4 ∧ pcr s i = zeros20)) := by
  unfold extendRefusal
  by_cases hi : i ≥ TPM_NUM_PCR
  · simp only [hi, if_true]
    constructor
    · intro h; exact absurd h (by decide)
    · intro h; omega
  · simp only [hi, if_false]
    cases hl : locAllowed (extendLocal i) loc
    · simp only [Bool.not_false, if_true]
      constructor
      · intro h; exact absurd h (by decide)
      · intro h; exact absurd h.2.1 (by simp)
    · simp only [Bool.not_true, Bool.false_eq_true, if_false]
      by_cases hz : (i = TPM_LOCALITY_4_PCR && loc ≠ 4 && pcr s i == zeros20) = true
      · simp only [hz, if_true]
        constructor
        · intro h; exact absurd h (by decide)
        · intro h
          simp only [Bool.and_eq_true, decide_eq_true_eq, bne_iff_ne, ne_eq, beq_iff_eq] at hz
          exact absurd ⟨hz.1.1, hz.1.2, hz.2⟩ h.2.2
      · simp only [hz, Bool.false_eq_true, if_false, true_iff]
        refine ⟨by omega, by simp, ?_⟩
        intro h
        apply hz
        simp only [Bool.and_eq_true, decide_eq_true_eq, bne_iff_ne, ne_eq, beq_iff_eq]
        exact ⟨⟨h.1, h.2.1⟩, h.2.2⟩

theorem step_extend_rc (H : Hash) (s : St) (loc i : Nat) (d : Bytes) :
    (step H s (.extend loc i d)).2.rc =
      if checkState s ≠ 0 then checkState s else extendRefusal (invalidateThread s) loc i := by
  have hcs : checkState (invalidateThread s) = checkState s := rfl
  simp only [step, extendCommon, hcs]
  by_cases hc : checkState s = 0
  · simp only [hc, ne_eq, not_true_eq_false, if_false]
    by_cases hr : extendRefusal (invalidateThread s) loc i = 0
    · simp [hr]
    · simp [hr]
  · simp [hc]

/-- **locality decision of TPM_Extend**, stated outright: the command succeeds exactly when the TPM is started and
    not failed, the index is a PCR, the caller's locality is in the PCR's `pcrExtendLocal`, and it is not the
    locality-4 PCR at its reset value 0 approached from another locality. -/
theorem tpm12_pcr_locality (H : Hash) (s : St) (loc i : Nat) (d : Bytes) :
    (step H s (.extend loc i d)).2.rc = 0 ↔
      (s.failed = false ∧ s.postInit = false ∧ i < TPM_NUM_PCR ∧ locAllowed (extendLocal i) loc = true ∧
       ¬ (i = TPM_LOCALITY_4_PCR ∧ loc ≠ 4 ∧ pcr s i = zeros20)) := by
  rw [step_extend_rc]
  have hpcr : pcr (invalidateThread s) i = pcr s i := rfl
  by_cases hc : checkState s = 0
  · simp only [hc, ne_eq, not_true_eq_false, if_false]
    rw [extendRefusal_eq_zero_iff, hpcr]
    have := (checkState_eq_zero_iff s).mp hc
    constructor
    · intro h; exact ⟨this.1, this.2, h⟩
    · intro h; exact h.2.2
  · simp only [ne_eq, hc, not_false_eq_true, if_true, false_iff]
    intro h; exact hc ((checkState_eq_zero_iff s).mpr ⟨h.1, h.2.1⟩)

/-- one extend: on success the PCR becomes `H(old ‖ digest)`, that value is returned, and no other PCR moves;
    on refusal no PCR moves at all.  The started/failed flags are never touched. -/
theorem extend_effect (H : Hash) (s : St) (loc i : Nat) (d : Bytes) (hwf : WF s) :
    let r := step H s (.extend loc i d)
    (r.2.rc = 0 → pcr r.1 i = H (pcr s i ++ d) ∧ r.2.out = H (pcr s i ++ d) ∧ (∀ j, j ≠ i → pcr r.1 j = pcr s j) ∧ WF r.1) ∧
    (r.2.rc ≠ 0 → r.1.pcrs = s.pcrs) ∧ r.1.failed = s.failed ∧ r.1.postInit = s.postInit := by
  have hcs : checkState (invalidateThread s) = checkState s := rfl
  simp only [step, extendCommon, hcs]
  by_cases hc : checkState s = 0
  · simp only [hc, ne_eq, not_true_eq_false, if_false]
    by_cases hr : extendRefusal (invalidateThread s) loc i = 0
    · simp only [hr, not_true_eq_false, if_false, true_implies, false_implies, true_and]
      have hi : i < TPM_NUM_PCR := ((extendRefusal_eq_zero_iff _ _ _).mp hr).1
      have hlen : i < (invalidateThread s).pcrs.length := by
        have : s.pcrs.length = TPM_NUM_PCR := hwf
        simp only [invalidateThread]; omega
      refine ⟨⟨?_, ?_, ?_, ?_⟩, rfl, rfl⟩
      · rw [pcr_setPcr_same _ _ _ hlen]; rfl
      · rw [pcr_setPcr_same _ _ _ hlen]; rfl
      · intro j hj; rw [pcr_setPcr_other _ _ _ _ hj]; rfl
      · exact wf_setPcr _ _ _ hwf
    · simp only [hr, if_false, not_false_eq_true, if_true]
      simp [hr, invalidateThread]
  · simp [hc, invalidateThread]

/-- the extend chain `H(… H(H(p ‖ d₁) ‖ d₂) … ‖ dₙ)` -/
def chain (H : Hash) (p : Bytes) (ds : List Bytes) : Bytes := ds.foldl (fun p d => H (p ++ d)) p

/-- conditions under which TPM_Extend on PCR `i` from locality `loc` cannot be refused, whatever the PCR holds -/
def Allowed (s : St) (loc i : Nat) : Prop :=
  s.failed = false ∧ s.postInit = false ∧ i < TPM_NUM_PCR ∧ locAllowed (extendLocal i) loc = true ∧
  (i = TPM_LOCALITY_4_PCR → loc = 4)

def extendAll (H : Hash) (s : St) (loc i : Nat) (ds : List Bytes) : St :=
  ds.foldl (fun st d => (step H st (.extend loc i d)).1) s

/-- **PCR values are the SHA-1 extend chain**: for every hash function, every sequence of digests, every
    permitted (PCR, locality): after extending them in order the PCR holds the chain over its old value, and
    every other PCR is unchanged. -/
theorem tpm12_pcr_chain (H : Hash) (loc i : Nat) (ds : List Bytes) (s : St) (hwf : WF s) (ha : Allowed s loc i) :
    pcr (extendAll H s loc i ds) i = chain H (pcr s i) ds ∧
    (∀ j, j ≠ i → pcr (extendAll H s loc i ds) j = pcr s j) := by
  induction ds generalizing s with
  | nil => simp [extendAll, chain]
  | cons d ds ih =>
    have hrc : (step H s (.extend loc i d)).2.rc = 0 := by
      rw [tpm12_pcr_locality]
      refine ⟨ha.1, ha.2.1, ha.2.2.1, ha.2.2.2.1, ?_⟩
      intro ⟨h1, h2, _⟩; exact h2 (ha.2.2.2.2 h1)
    have he := (extend_effect H s loc i d hwf).1 hrc
    -- the flags `Allowed` looks at are not touched by extend
    have hfl := (extend_effect H s loc i d hwf).2.2
    have ha' : Allowed (step H s (.extend loc i d)).1 loc i :=
      ⟨hfl.1 ▸ ha.1, hfl.2 ▸ ha.2.1, ha.2.2.1, ha.2.2.2.1, ha.2.2.2.2⟩
    have := ih (step H s (.extend loc i d)).1 he.2.2.2 ha'
    simp only [extendAll, List.foldl_cons, chain] at this ⊢
    refine ⟨?_, ?_⟩
    · rw [this.1, he.1]
    · intro j hj; rw [this.2 j hj, he.2.2.1 j hj]

/-! ### PCR reset: all or nothing -/

theorem foldl_setPcr (f : Nat → Bytes) (idx : List Nat) (s : St) (j : Nat) (hj : j < s.pcrs.length) :
    pcr (idx.foldl (fun st i => setPcr st i (f i)) s) j = if j ∈ idx then f j else pcr s j := by
  induction idx generalizing s with
  | nil => simp
  | cons i rest ih =>
    simp only [List.foldl_cons]
    have hlen : j < (setPcr s i (f i)).pcrs.length := by simpa [setPcr] using hj
    rw [ih _ hlen]
    by_cases hmem : j ∈ rest
    · simp [hmem]
    · by_cases hji : j = i
      · subst hji; simp [hmem, pcr_setPcr_same _ _ _ hj]
      · simp [hmem, hji, pcr_setPcr_other _ _ _ _ hji]

/-- **TPM_PCR_Reset validates the whole selection before touching any PCR**: a refused reset changes nothing; an
    accepted one sets exactly the selected PCRs to their reset value (which depends on TOSPresent only) -/
theorem reset_all_or_nothing (H : Hash) (s : St) (loc : Nat) (sel : Bytes) (hwf : WF s) :
    let r := step H s (.pcrReset loc sel)
    (r.2.rc ≠ 0 → r.1.pcrs = s.pcrs) ∧
    (r.2.rc = 0 → ∀ j, j < TPM_NUM_PCR → pcr r.1 j = if j ∈ selected sel then resetValue s.tos j else pcr s j) := by
  simp only [step, invalidateThread]
  by_cases h1 : sel.length > TPM_NUM_PCR / 8
  · simp [h1, TPM_INVALID_PCR_INFO]
  · simp only [h1, if_false]
    by_cases hc : checkState { s with sha := none } = 0
    · simp only [hc, ne_eq, not_true_eq_false, if_false]
      by_cases he : (selected sel).isEmpty = true
      · simp [he, TPM_INVALID_PCR_INFO]
      · simp only [he, Bool.false_eq_true, if_false]
        by_cases hr : resetRefusal loc (selected sel) = 0
        · simp only [hr, ne_eq, not_true_eq_false, if_false, not_false_eq_true, true_implies, false_implies, true_and]
          intro j hj
          have hlen : j < ({ s with sha := none } : St).pcrs.length := by
            have : s.pcrs.length = TPM_NUM_PCR := hwf
            simp only; omega
          rw [foldl_setPcr (fun i => resetValue s.tos i) _ _ _ hlen]
          rfl
        · simp [hr]
    · simp [hc]

/-- a reset is refused as soon as one selected PCR is not resettable or not resettable from the caller's locality -/
theorem reset_refused_of_bad_member (loc : Nat) (idx : List Nat) (i : Nat) (hi : i ∈ idx)
    (hbad : canReset i = false ∨ locAllowed (resetLocal i) loc = false) : resetRefusal loc idx ≠ 0 := by
  induction idx with
  | nil => simp at hi
  | cons k rest ih =>
    simp only [resetRefusal]
    by_cases hk : canReset k = true
    · by_cases hl : locAllowed (resetLocal k) loc = true
      · simp only [hk, hl, Bool.not_true, Bool.false_eq_true, if_false]
        rcases List.mem_cons.mp hi with h | h
        · subst h; rcases hbad with h | h <;> simp_all
        · exact ih h
      · simp only [Bool.not_eq_true] at hl
        simp [hk, hl, TPM_NOTLOCAL]
    · simp only [Bool.not_eq_true] at hk
      simp [hk, TPM_NOTRESETABLE]

/-! ### The SHA-1 thread -/

/-- state in which ordinals are processed: started and not failed -/
def Running (s : St) : Prop := s.failed = false ∧ s.postInit = false

theorem checkState_running (s : St) (h : Running s) : checkState s = 0 := by
  simp [checkState, h.1, h.2]

/-- thread commands after SHA1Start: updates with whole blocks, then Complete with the tail -/
def threadOps (chunks : List Bytes) (last : Bytes) : List Op :=
  chunks.map Op.sha1Update ++ [Op.sha1Complete last]

def runOps (H : Hash) (s : St) (ops : List Op) : St × List Obs :=
  ops.foldl (fun (acc : St × List Obs) op => let r := step H acc.1 op; (r.1, acc.2 ++ [r.2])) (s, [])

theorem updates_absorb (H : Hash) (chunks : List Bytes) (s : St) (ctx : Sha1.St) (hr : Running s) (hs : s.sha = some ctx)
    (hc : ∀ c ∈ chunks, c.length % 64 = 0 ∧ c.length ≤ s.bufMax - 64) :
    (chunks.foldl (fun st c => (step H st (.sha1Update c)).1) s) = { s with sha := some (Sha1.update ctx chunks.flatten) } ∧
    ∀ c ∈ chunks, True := by
  induction chunks generalizing s ctx with
  | nil =>
    refine ⟨?_, by simp⟩
    simp only [List.foldl_nil, List.flatten_nil, update_nil]
    cases s; simp_all
  | cons c cs ih =>
    have hc0 := hc c (by simp)
    have hstep : (step H s (.sha1Update c)).1 = { s with sha := some (Sha1.update ctx c) } := by
      simp only [step, checkState_running s hr, hs]
      have h1 : ¬ c.length % 64 ≠ 0 := by omega
      have h2 : ¬ c.length > s.bufMax - 64 := by omega
      simp [h1, h2]
    simp only [List.foldl_cons, hstep]
    have hr' : Running { s with sha := some (Sha1.update ctx c) } := hr
    have := (ih { s with sha := some (Sha1.update ctx c) } (Sha1.update ctx c) hr' rfl
      (fun x hx => hc x (by simp [hx]))).1
    refine ⟨?_, by simp⟩
    rw [this]
    simp [update_append]

/-- **TPM_SHA1Start/Update/Complete equal standard SHA-1 for every chunking**: for every way of cutting a message
    into Update chunks (each a multiple of 64 bytes, at most maxNumBytes) and a final part of at most 64 bytes,
    TPM_SHA1Complete returns the SHA-1 of the concatenation, and the thread is closed afterwards. -/
theorem tpm12_sha1_thread_eq_sha1 (H : Hash) (s : St) (chunks : List Bytes) (last : Bytes) (hr : Running s)
    (hc : ∀ c ∈ chunks, c.length % 64 = 0 ∧ c.length ≤ s.bufMax - 64) (hl : last.length ≤ 64) :
    let s1 := (step H s .sha1Start).1
    let s2 := chunks.foldl (fun st c => (step H st (.sha1Update c)).1) s1
    let r := step H s2 (.sha1Complete last)
    r.2 = { rc := 0, out := Sha1.sha1 (chunks.flatten ++ last) } ∧ r.1.sha = none := by
  have hs1 : (step H s .sha1Start).1 = { s with sha := some Sha1.init } := by
    have : checkState { s with sha := none } = 0 := checkState_running _ hr
    simp [step, invalidateThread, this]
  simp only [hs1]
  have hr1 : Running { s with sha := some Sha1.init } := hr
  have h2 := (updates_absorb H chunks { s with sha := some Sha1.init } Sha1.init hr1 rfl hc).1
  rw [h2]
  have hr2 : Running { s with sha := some (Sha1.update Sha1.init chunks.flatten) } := hr
  have hl' : ¬ last.length > 64 := by omega
  simp only [step, checkState_running _ hr2, hl', ne_eq, not_true_eq_false, if_false]
  simp [update_append, Sha1.sha1]

/-- CompleteExtend extends the chosen PCR with exactly that SHA-1 and returns (hash, new PCR value) -/
theorem tpm12_sha1_complete_extend (H : Hash) (s : St) (ctx : Sha1.St) (loc i : Nat) (last : Bytes) (hwf : WF s)
    (hr : Running s) (hs : s.sha = some ctx) (hl : last.length ≤ 64) (ha : Allowed s loc i) :
    let r := step H s (.sha1CompleteExtend loc i last)
    let h1 := Sha1.final (Sha1.update ctx last)
    r.2 = { rc := 0, out := h1 ++ H (pcr s i ++ h1) } ∧ pcr r.1 i = H (pcr s i ++ h1) ∧ r.1.sha = none := by
  have hl' : ¬ last.length > 64 := by omega
  have hr0 : extendRefusal { s with sha := none } loc i = 0 := by
    rw [extendRefusal_eq_zero_iff]
    exact ⟨ha.2.2.1, ha.2.2.2.1, fun h => h.2.1 (ha.2.2.2.2 h.1)⟩
  have hlen : i < ({ s with sha := none } : St).pcrs.length := by
    have : s.pcrs.length = TPM_NUM_PCR := hwf
    have := ha.2.2.1
    simp only; omega
  simp only [step, checkState_running s hr, hs, hl', extendCommon, hr0, ne_eq, not_true_eq_false, if_false]
  refine ⟨?_, ?_, by simp [setPcr]⟩
  · rw [pcr_setPcr_same _ _ _ hlen]; rfl
  · rw [pcr_setPcr_same _ _ _ hlen]; rfl

/-- any ordinal other than SHA1Update/Complete/CompleteExtend ends the thread: the next Update answers
    TPM_SHA_THREAD -/
theorem thread_invalidated (H : Hash) (s : St) (d : Bytes) (hr : Running s) :
    (step H (step H s .other).1 (.sha1Update d)).2.rc = TPM_SHA_THREAD ∧
    (∀ i, (step H (step H s (.pcrRead i)).1 (.sha1Update d)).2.rc = TPM_SHA_THREAD) := by
  have hr' : Running { s with sha := none } := hr
  refine ⟨?_, ?_⟩
  · simp [step, invalidateThread, checkState_running _ hr']
  · intro i
    simp only [step, invalidateThread, checkState_running _ hr', ne_eq, not_true_eq_false, if_false]
    split <;> simp [step, checkState_running _ hr']

/-! ### TPM_IO_Hash_Start / Data / End -/

def hashAll (H : Hash) (s : St) (ds : List Bytes) : St :=
  let s1 := (step H s .hashStart).1
  let s2 := ds.foldl (fun st d => (step H st (.hashData d)).1) s1
  (step H s2 .hashEnd).1

theorem hashData_absorb (H : Hash) (ds : List Bytes) (s : St) (ctx : Sha1.St) (hs : s.tis = some ctx) :
    ds.foldl (fun st d => (step H st (.hashData d)).1) s = { s with tis := some (Sha1.update ctx ds.flatten) } := by
  induction ds generalizing s ctx with
  | nil => simp only [List.foldl_nil, List.flatten_nil, update_nil]; cases s; simp_all
  | cons d ds ih =>
    have hstep : (step H s (.hashData d)).1 = { s with tis := some (Sha1.update ctx d) } := by simp [step, hs]
    simp only [List.foldl_cons, hstep]
    rw [ih { s with tis := some (Sha1.update ctx d) } (Sha1.update ctx d) rfl]
    simp [update_append]

/-- **the TIS hash interface measures into the locality-4 PCR**: after TPM_Startup, Hash_Start, any number of
    Hash_Data calls with any cutting of the data, Hash_End: PCR 17 = H(0²⁰ ‖ SHA-1(data)), PCR 18–22 are zero,
    tpmEstablished and TOSPresent are set, PCR 0–16 and 23 are untouched, and the TPM is not in the failed state. -/
theorem tpm12_iohash_measures (H : Hash) (s : St) (ds : List Bytes) (hwf : WF s) (hp : s.postInit = false)
    (ht : s.tis = none) (hf : s.failed = false) :
    let s' := hashAll H s ds
    pcr s' 17 = H (zeros20 ++ Sha1.sha1 ds.flatten) ∧
    (∀ j, 18 ≤ j → j ≤ 22 → pcr s' j = zeros20) ∧
    (∀ j, (j < 17 ∨ j = 23) → pcr s' j = pcr s j) ∧
    s'.established = true ∧ s'.tos = true ∧ s'.failed = false ∧ s'.tis = none := by
  have hlen : s.pcrs.length = 24 := hwf
  -- state after Hash_Start
  let s0 : St := { s with established := true, tos := true, tis := some Sha1.init }
  let s1 : St := [17, 18, 19, 20, 21, 22].foldl (fun st i => setPcr st i zeros20) s0
  have hstart : (step H s .hashStart).1 = s1 := by simp [step, hp, ht, s1, s0]
  have hs1tis : s1.tis = some Sha1.init := by simp [s1, s0, setPcr]
  have hs1 := hashData_absorb H ds s1 Sha1.init hs1tis
  simp only [hashAll, hstart, hs1]
  simp only [step]
  have hlen1 : s1.pcrs.length = 24 := by simp [s1, s0, setPcr, hlen]
  have hpcr1 : ∀ j, j < 24 → pcr s1 j = if j ∈ [17, 18, 19, 20, 21, 22] then zeros20 else pcr s j := by
    intro j hj
    have := foldl_setPcr (fun _ => zeros20) [17, 18, 19, 20, 21, 22] s0 j (by simpa [s0] using (by omega : j < s.pcrs.length))
    simpa [s1, s0, pcr] using this
  have hl17 : TPM_LOCALITY_4_PCR = 17 := by decide
  simp only [hl17]
  have hfin : Sha1.final (Sha1.update Sha1.init ds.flatten) = Sha1.sha1 ds.flatten := rfl
  have hlen2 : 17 < ({ s1 with tis := none } : St).pcrs.length := by simp only; omega
  refine ⟨?_, ?_, ?_, ?_, ?_, ?_, ?_⟩
  · rw [pcr_setPcr_same _ _ _ (by simpa using hlen2), hfin]
  · intro j h1 h2
    have hne : j ≠ 17 := by omega
    rw [pcr_setPcr_other _ _ _ _ hne]
    have := hpcr1 j (by omega)
    simp only [pcr] at this ⊢
    rw [this]
    have : j = 18 ∨ j = 19 ∨ j = 20 ∨ j = 21 ∨ j = 22 := by omega
    rcases this with h | h | h | h | h <;> subst h <;> simp
  · intro j hj
    have hne : j ≠ 17 := by omega
    rw [pcr_setPcr_other _ _ _ _ hne]
    have := hpcr1 j (by omega)
    simp only [pcr] at this ⊢
    rw [this]
    have : ¬ j ∈ [17, 18, 19, 20, 21, 22] := by simp; omega
    simp [this]
  · simp [setPcr, s1, s0]
  · simp [setPcr, s1, s0]
  · simp [setPcr, s1, s0, hf]
  · simp [setPcr]

/-- the error routes of the TIS interface end in the failed state, in which every PCR/SHA ordinal answers
    TPM_FAILEDSELFTEST -/
theorem tis_error_fails (H : Hash) (s : St) (d : Bytes) (ht : s.tis = none) :
    (step H s .hashEnd).1.failed = true ∧ (step H s (.hashData d)).1.failed = true ∧
    (step H s .hashEnd).2.rc = TPM_SHA_THREAD := by
  simp [step, ht]

theorem failed_answers (H : Hash) (s : St) (hf : s.failed = true) (loc i : Nat) (d : Bytes) :
    (step H s (.extend loc i d)).2.rc = TPM_FAILEDSELFTEST ∧ (step H s (.pcrRead i)).2.rc = TPM_FAILEDSELFTEST ∧
    (step H s .sha1Start).2.rc = TPM_FAILEDSELFTEST ∧ (step H s (.sha1Update d)).2.rc = TPM_FAILEDSELFTEST := by
  simp [step, invalidateThread, checkState, hf, TPM_FAILEDSELFTEST]

/-- power-on values: PCR 0–16 and 23 are zero, 17–22 all ones (before any Hash_Start) -/
theorem power_on_pcrs (e : Bool) (m : Nat) :
    (∀ j, (j ≤ 16 ∨ j = 23) → pcr (powerOn e m) j = zeros20) ∧
    (∀ j, 17 ≤ j → j ≤ 22 → pcr (powerOn e m) j = fill20 255) := by
  constructor
  · intro j hj
    have : j = 0 ∨ j = 1 ∨ j = 2 ∨ j = 3 ∨ j = 4 ∨ j = 5 ∨ j = 6 ∨ j = 7 ∨ j = 8 ∨ j = 9 ∨ j = 10 ∨ j = 11 ∨
      j = 12 ∨ j = 13 ∨ j = 14 ∨ j = 15 ∨ j = 16 ∨ j = 23 := by omega
    rcases this with h | h | h | h | h | h | h | h | h | h | h | h | h | h | h | h | h | h <;> subst h <;> rfl
  · intro j h1 h2
    have : j = 17 ∨ j = 18 ∨ j = 19 ∨ j = 20 ∨ j = 21 ∨ j = 22 := by omega
    rcases this with h | h | h | h | h | h <;> subst h <;> rfl

end TpmVerif.Props.C20
