import TpmVerif.Model.Nv
/-!
  C09 — NV indices behave as the TPM 2 specification defines. Theorems about `Model.Nv`, for every state, every hash
  function and every argument.
-/
namespace TpmVerif.Props.C09
open TpmVerif TpmVerif.Model.Nv TpmVerif.Gen.Nv

/-! ### Bits -/

theorem bit_setBit (m i j : Nat) : bit (setBit m i) j = (bit m j || decide (i = j)) := by
  simp [bit, setBit, Nat.testBit_or, Nat.testBit_two_pow]
theorem bit_clrBit (m i j : Nat) : bit (clrBit m i) j = (bit m j && !decide (i = j)) := by
  simp only [bit, clrBit, Nat.testBit_xor, Nat.testBit_and, Nat.testBit_two_pow]
  cases m.testBit j <;> cases (decide (i = j)) <;> rfl
theorem bit_setBit_same (m i : Nat) : bit (setBit m i) i = true := by simp [bit_setBit]
theorem bit_clrBit_same (m i : Nat) : bit (clrBit m i) i = false := by simp [bit_clrBit]

/-! ### Find / update -/

theorem find_update_same' (l : List Idx) (i : Idx) (h : (l.find? (·.handle == i.handle)).isSome) :
    (l.map (fun x => if x.handle == i.handle then i else x)).find? (·.handle == i.handle) = some i := by
  induction l with
  | nil => simp at h
  | cons x xs ih =>
    rw [List.map_cons]
    by_cases hx : (x.handle == i.handle) = true
    · rw [if_pos hx, List.find?_cons_of_pos]; simp
    · rw [if_neg hx, List.find?_cons_of_neg (by simpa using hx)]
      rw [List.find?_cons_of_neg (by simpa using hx)] at h
      exact ih h

theorem find_update_other' (l : List Idx) (i : Idx) (h' : Nat) (hne : h' ≠ i.handle) :
    (l.map (fun x => if x.handle == i.handle then i else x)).find? (·.handle == h') = l.find? (·.handle == h') := by
  induction l with
  | nil => rfl
  | cons x xs ih =>
    rw [List.map_cons]
    by_cases hx : (x.handle == i.handle) = true
    · have hx' : x.handle = i.handle := by simpa using hx
      rw [if_pos hx, List.find?_cons_of_neg (by simp; exact fun e => hne e.symm),
          List.find?_cons_of_neg (by simp [hx']; exact fun e => hne e.symm)]
      exact ih
    · rw [if_neg hx]
      by_cases hy : (x.handle == h') = true
      · rw [List.find?_cons_of_pos (by simpa using hy), List.find?_cons_of_pos (by simpa using hy)]
      · rw [List.find?_cons_of_neg (by simpa using hy), List.find?_cons_of_neg (by simpa using hy)]
        exact ih

theorem pinAfterAuth_handle (i : Idx) : (pinAfterAuth i).handle = i.handle := by
  unfold pinAfterAuth
  split
  · rfl
  · split
    · rfl
    · split <;> rfl

theorem find_update_same (s : St) (i : Idx) (h : (s.find i.handle).isSome) : (s.update i).find i.handle = some i :=
  find_update_same' s.idx i h
theorem find_update_other (s : St) (i : Idx) (h' : Nat) (hne : h' ≠ i.handle) : (s.update i).find h' = s.find h' :=
  find_update_other' s.idx i h' hne

theorem find_handle (s : St) (h : Nat) (i : Idx) (hf : s.find h = some i) : i.handle = h := by
  unfold St.find at hf
  have := List.find?_some hf
  simpa using this

theorem snap_find (s : St) (h : Nat) : (snap s).find h = s.find h := rfl

/-! ### Read after write -/

/-- the bytes written are the bytes at that place afterwards -/
theorem writeData_slice (s : St) (i : Idx) (off : Nat) (d : Bytes) (hf : s.find i.handle = some i)
    (hlen : i.data.length = i.size) (hfit : off + d.length ≤ i.size) :
    ∃ i', (writeData s i off d).find i.handle = some i' ∧ (i'.data.drop off).take d.length = d ∧
      bit i'.attrs B_WRITTEN = true ∧ i'.data.length = i.size ∧ i'.size = i.size := by
  unfold writeData
  simp only
  generalize hb : (if (!bit i.attrs B_WRITTEN) = true ∧ ntOf i.attrs = TPM_NT_ORDINARY then
      List.replicate i.size (if bit i.attrs B_ORDERLY = true then (0 : UInt8) else 0xFF)
    else if (!bit i.attrs B_WRITTEN) = true ∧ (!bit i.attrs B_ORDERLY) = true then List.replicate i.size 0xFF else i.data) = base
  have hbl : base.length = i.size := by
    rw [← hb]; split
    · simp
    · split
      · simp
      · exact hlen
  let i' : Idx := { i with attrs := setBit i.attrs B_WRITTEN, data := base.take off ++ d ++ base.drop (off + d.length) }
  have hfind : (s.update i').find i.handle = some i' := find_update_same s i' (by simp [i', hf])
  refine ⟨i', ?_, ?_, ?_, ?_, rfl⟩
  · split
    · rw [snap_find]; exact hfind
    · exact hfind
  · show ((base.take off ++ d ++ base.drop (off + d.length)).drop off).take d.length = d
    have h1 : (base.take off).length = off := by rw [List.length_take]; omega
    rw [List.append_assoc, List.drop_append_of_le_length (by omega)]
    rw [List.drop_of_length_le (by omega), List.nil_append]
    rw [List.take_append_of_le_length (by omega), List.take_length]
  · exact bit_setBit_same _ _
  · show (base.take off ++ d ++ base.drop (off + d.length)).length = i.size
    simp [List.length_append, List.length_take, List.length_drop]; omega

/-- what `enter` hands over is the index as it now stands in the state -/
theorem enter_ok (s : St) (authHandle h cc : Nat) (s1 : St) (i : Idx) (he : enter s authHandle h cc = .ok (s1, i)) :
    s1.find h = some i := by
  unfold enter at he
  cases hf : s.find h with
  | none => simp [hf] at he
  | some i0 =>
    simp only [hf] at he
    have hh0 : i0.handle = h := find_handle s h i0 hf
    by_cases ha : authHandle = h
    · simp only [ha, if_true] at he
      by_cases hav : indexAuthAvail i0 cc = true
      · simp only [hav, Bool.not_true, Bool.false_eq_true, if_false, Except.ok.injEq, Prod.mk.injEq] at he
        obtain ⟨e1, e2⟩ := he
        subst e1 e2
        have := find_update_same s (pinAfterAuth i0) (by rw [pinAfterAuth_handle, hh0, hf]; rfl)
        rw [pinAfterAuth_handle, hh0] at this; exact this
      · simp [hav] at he
    · simp only [ha, if_false, Except.ok.injEq, Prod.mk.injEq] at he
      obtain ⟨e1, e2⟩ := he
      subst e1 e2; exact hf

theorem readAccess_zero (authHandle : Nat) (i : Idx) (h : readAccess authHandle i = 0) :
    bit i.attrs B_WRITTEN = true ∧ bit i.attrs B_READLOCKED = false := by
  unfold readAccess at h
  by_cases hl : bit i.attrs B_READLOCKED = true
  · simp [hl, TPM_RC_NV_LOCKED] at h
  · have hl' : bit i.attrs B_READLOCKED = false := by simpa using hl
    refine ⟨?_, hl'⟩
    simp only [hl', Bool.false_eq_true, if_false] at h
    split at h
    · simp [TPM_RC_NV_AUTHORIZATION] at h
    · split at h
      · simp [TPM_RC_NV_AUTHORIZATION] at h
      · split at h
        · simp [TPM_RC_NV_AUTHORIZATION] at h
        · by_cases hw : bit i.attrs B_WRITTEN = true
          · exact hw
          · simp [hw, TPM_RC_NV_UNINITIALIZED] at h

/-- **NV_Read succeeds only on a written, not read-locked index whose authorization allows reading, and returns
    exactly the stored bytes of the requested range** -/
theorem nvRead_ok (s : St) (authHandle h size offset : Nat) (s' : St) (out : Bytes)
    (hr : nvRead s authHandle h size offset = (s', 0, out)) :
    ∃ i, s'.find h = some i ∧ bit i.attrs B_WRITTEN = true ∧ bit i.attrs B_READLOCKED = false ∧
      out = (i.data.drop offset).take size ∧ size ≤ i.size - offset ∧ offset ≤ i.size := by
  unfold nvRead at hr
  cases he : enter s authHandle h 0x14E with
  | error rc =>
    simp only [he, Prod.mk.injEq] at hr
    -- refusal codes of `enter` are not zero
    unfold enter at he
    cases hf : s.find h with
    | none => simp [hf] at he; omega
    | some i0 =>
      simp only [hf] at he
      by_cases ha : authHandle = h
      · by_cases hav : indexAuthAvail i0 0x14E = true
        · simp [ha, hav] at he
        · simp [ha, hav] at he; simp [TPM_RC_AUTH_UNAVAILABLE] at he; omega
      · simp [ha] at he
  | ok p =>
    obtain ⟨s1, i⟩ := p
    have hfi := enter_ok s authHandle h 0x14E s1 i he
    simp only [he] at hr
    by_cases hacc : readAccess authHandle i = 0
    · simp only [hacc, ne_eq, not_true_eq_false, if_false] at hr
      by_cases h1 : size > MAX_NV_BUFFER_SIZE
      · simp [h1, TPM_RC_VALUE, RC_NV_Read_size] at hr
      · simp only [h1, if_false] at hr
        by_cases h2 : offset > i.size
        · simp [h2, TPM_RC_VALUE, RC_NV_Read_offset] at hr
        · simp only [h2, if_false] at hr
          by_cases h3 : size > i.size - offset
          · simp [h3, TPM_RC_NV_RANGE] at hr
          · simp only [h3, if_false, Prod.mk.injEq, true_and] at hr
            obtain ⟨e1, e2⟩ := hr
            subst e1
            have hw := readAccess_zero authHandle i hacc
            exact ⟨i, hfi, hw.1, hw.2, e2.symm, by omega, by omega⟩
    · simp [hacc] at hr

/-! ### Counters -/

theorem le_orMax (c : Nat) : c ≤ orMax c := by
  unfold orMax
  have := Nat.div_add_mod c (MAX_ORDERLY_COUNT + 1)
  have hm : c % (MAX_ORDERLY_COUNT + 1) < MAX_ORDERLY_COUNT + 1 := Nat.mod_lt _ (by decide)
  simp only [MAX_ORDERLY_COUNT] at *
  omega

/-- `orMax` is the bit-or with MAX_ORDERLY_COUNT (checked on a range that covers several blocks: a test) -/
example : ∀ c, c < 1100 → orMax c = c ||| MAX_ORDERLY_COUNT := by decide +kernel

/-- the invariant of an orderly counter between two snapshots: the NV copy is not ahead, and the live value is still
    inside the block the NV copy points into -/
def InBlock (saved live : Nat) : Prop := saved ≤ live ∧ live ≤ orMax saved

theorem inBlock_refl (c : Nat) : InBlock c c := ⟨Nat.le_refl _, le_orMax c⟩

/-- one increment keeps the invariant: either the new value starts a block and is snapshotted, or it stays inside -/
theorem inBlock_increment (saved live : Nat) (h : InBlock saved live) :
    InBlock (if (live + 1) % (MAX_ORDERLY_COUNT + 1) = 0 then live + 1 else saved) (live + 1) := by
  by_cases hz : (live + 1) % (MAX_ORDERLY_COUNT + 1) = 0
  · simp only [hz, if_true]; exact inBlock_refl _
  · simp only [hz, if_false]
    obtain ⟨h1, h2⟩ := h
    refine ⟨by omega, ?_⟩
    unfold orMax at *
    simp only [MAX_ORDERLY_COUNT] at *
    omega

/-- **an orderly counter never decreases over a power cut**: what comes back is `orMax` of the NV copy, which is at
    least the value the counter had when power was lost -/
theorem orderly_counter_survives_cut (saved live : Nat) (h : InBlock saved live) : live ≤ orMax saved := h.2

/-- **deleting a counter raises the TPM-wide maximum to its value**: every later first increment lands above it -/
theorem delete_raises_floor (s : St) (i : Idx) (hc : ntOf i.attrs = TPM_NT_COUNTER) (hw : bit i.attrs B_WRITTEN = true) :
    beNat8 i.data ≤ (deleteIdx s i).maxCount ∧ s.maxCount ≤ (deleteIdx s i).maxCount := by
  unfold deleteIdx
  simp only [hc, hw, and_self, if_true]
  split <;> simp [snap] <;> omega

theorem delete_floor_mono (s : St) (i : Idx) : s.maxCount ≤ (deleteIdx s i).maxCount := by
  unfold deleteIdx
  simp only
  split <;> split <;> simp [snap] <;> omega

/-- the floor never goes down over any sequence of deletions (TPM2_Clear deletes many) -/
theorem clear_floor_mono (l : List Idx) (s : St) : s.maxCount ≤ (l.foldl deleteIdx s).maxCount := by
  induction l generalizing s with
  | nil => exact Nat.le_refl _
  | cons x xs ih => exact Nat.le_trans (delete_floor_mono s x) (ih _)

/-- restarts never lower a counter's stored value (`startup` only rounds orderly counters up) -/
theorem startup_counter_mono (c : Nat) : c ≤ orMax c := le_orMax c

/-! ### Bit fields -/

theorem or_keeps (x y : UInt8) : (x ||| y) &&& x = x := by
  apply UInt8.eq_of_toBitVec_eq
  simp only [UInt8.toBitVec_and, UInt8.toBitVec_or]
  ext k hk
  simp only [BitVec.getElem_and, BitVec.getElem_or]
  cases (x.toBitVec[k]) <;> simp

/-- **NV_SetBits only adds bits**: every bit set before is set afterwards -/
theorem setbits_monotone : ∀ (old bits : Bytes), old.length = bits.length →
    List.zipWith (· &&& ·) (orBytes old bits) old = old := by
  intro old
  induction old with
  | nil => intro bits _; simp [orBytes]
  | cons x xs ih =>
    intro bits hl
    cases bits with
    | nil => simp at hl
    | cons y ys =>
      simp only [orBytes, List.zipWith_cons_cons, List.cons.injEq]
      exact ⟨or_keeps x y, ih ys (by simpa using hl)⟩

/-! ### Locks -/

/-- **a write-locked index refuses every kind of write, and nothing changes** (written PIN counters aside, which move
    only when the index authorizes itself) -/
theorem writelocked_refuses (i : Idx) (authHandle : Nat) (h : bit i.attrs B_WRITELOCKED = true) :
    writeAccess authHandle i = TPM_RC_NV_LOCKED := by simp [writeAccess, h]

theorem readlocked_refuses (i : Idx) (authHandle : Nat) (h : bit i.attrs B_READLOCKED = true) :
    readAccess authHandle i = TPM_RC_NV_LOCKED := by simp [readAccess, h]

/-- **read locks end at every Startup(CLEAR)** (TPM Reset and TPM Restart), whatever else the attributes say -/
theorem startup_clears_readlock (a : Nat) (k : Kind) : bit (startupAttrs a k) B_READLOCKED = false := by
  unfold startupAttrs
  simp only
  split <;> split <;> simp [bit_clrBit, B_READLOCKED, B_WRITTEN, B_WRITELOCKED]

/-- **a write lock survives a restart only on a WRITEDEFINE index that stays written**; WRITE_STCLEAR and GLOBALLOCK
    locks end -/
theorem startup_writelock (a : Nat) (k : Kind) (h : bit (startupAttrs a k) B_WRITELOCKED = true) :
    bit a B_WRITELOCKED = true ∧ bit a B_WRITEDEFINE = true ∧ bit a B_WRITTEN = true ∧ loseWritten a k = false := by
  unfold startupAttrs at h
  simp only at h
  split at h
  · rename_i hk
    simp only [Bool.and_eq_true, Bool.not_eq_true'] at hk
    refine ⟨?_, hk.2, hk.1.1, hk.1.2⟩
    simp only [hk.1.2, Bool.false_eq_true, if_false] at h
    simpa [bit_clrBit, B_READLOCKED, B_WRITELOCKED] using h
  · simp [bit_clrBit] at h

/-- a counter keeps TPMA_NV_WRITTEN over every restart -/
theorem startup_counter_written (a : Nat) (k : Kind) (hc : ntOf a = TPM_NT_COUNTER) (hw : bit a B_WRITTEN = true) :
    bit (startupAttrs a k) B_WRITTEN = true := by
  have hl : loseWritten a k = false := by simp [loseWritten, hc]
  unfold startupAttrs
  simp only [hl, Bool.false_eq_true, if_false]
  have hw' : bit a 29 = true := hw
  split <;> simp [bit_clrBit, hw', B_READLOCKED, B_WRITTEN, B_WRITELOCKED]

/-- an index with CLEAR_STCLEAR is unwritten after every Startup(CLEAR); an orderly non-counter after TPM Reset -/
theorem startup_loses_written (a : Nat) (k : Kind) (h : loseWritten a k = true) : bit (startupAttrs a k) B_WRITTEN = false := by
  unfold startupAttrs
  simp only [h, if_true]
  split <;> simp [bit_clrBit, B_READLOCKED, B_WRITTEN, B_WRITELOCKED]

/-- Startup(STATE) after Shutdown(STATE) keeps every lock and every WRITTEN flag: nothing is touched -/
theorem resume_keeps_all (s : St) (p : Bool) : startup s .resume p = s := by simp [startup]

/-! ### Frame: one index never alters another -/

theorem writeData_frame (s : St) (i : Idx) (off : Nat) (d : Bytes) (h' : Nat) (hne : h' ≠ i.handle) :
    (writeData s i off d).find h' = s.find h' := by
  unfold writeData
  simp only
  split
  · rw [snap_find]; exact find_update_other s _ h' hne
  · exact find_update_other s _ h' hne

/-! ### Definition and deletion -/

theorem firstHit_mem : ∀ (l : List (Bool × Nat)) (rc : Nat), firstHit l = some rc → rc ∈ l.map (·.2) := by
  intro l
  induction l with
  | nil => intro rc h; simp [firstHit] at h
  | cons x xs ih =>
    intro rc h
    obtain ⟨c, r⟩ := x
    unfold firstHit at h
    by_cases hc : c = true
    · simp [hc] at h; simp [h]
    · simp [hc] at h; simp [ih rc h]

theorem defineTable_codes (a : Nat) (auth : Bytes) (p : Pub) :
    (defineTable a auth p).map (·.2) = [469, 725, 725, 469, 706, 725, 725, 725, 706, 706, 706, 706, 706, 706, 706, 386, 706, 725] := rfl

theorem defineChecks_ne_zero (a : Nat) (auth : Bytes) (p : Pub) (rc : Nat) (h : defineChecks a auth p = some rc) : rc ≠ 0 := by
  have := firstHit_mem _ rc h
  rw [defineTable_codes] at this
  intro h0; subst h0
  simp at this

theorem spaceTable_codes (s : St) (p : Pub) : (spaceTable s p).map (·.2) = [332, 331, 331] := rfl

theorem defineRefusal_ne_zero (s : St) (a : Nat) (auth : Bytes) (p : Pub) (rc : Nat) (h : defineRefusal s a auth p = some rc) : rc ≠ 0 := by
  have := firstHit_mem _ rc h
  rw [List.map_append, defineTable_codes, spaceTable_codes] at this
  intro h0; subst h0
  simp at this

theorem firstHit_none : ∀ (l : List (Bool × Nat)), firstHit l = none → ∀ x ∈ l, x.1 = false := by
  intro l
  induction l with
  | nil => intro _ x hx; simp at hx
  | cons y ys ih =>
    intro h x hx
    obtain ⟨c, r⟩ := y
    unfold firstHit at h
    by_cases hc : c = true
    · simp [hc] at h
    · simp only [hc, Bool.false_eq_true, if_false] at h
      rcases List.mem_cons.mp hx with e | e
      · subst e; simpa using hc
      · exact ih h x e

theorem addIdx_find_new (s : St) (i : Idx) (hf : s.find i.handle = none) : (addIdx s i).find i.handle = some i := by
  have : ({ s with idx := s.idx ++ [i] } : St).find i.handle = some i := by
    unfold St.find at hf ⊢
    simp [List.find?_append, hf]
  unfold addIdx
  simp only
  split
  · rw [snap_find]; exact this
  · exact this

theorem addIdx_find_old (s : St) (i : Idx) (h' : Nat) (x : Idx) (hf : s.find h' = some x) : (addIdx s i).find h' = some x := by
  have : ({ s with idx := s.idx ++ [i] } : St).find h' = some x := by
    unfold St.find at hf ⊢
    simp [List.find?_append, hf]
  unfold addIdx
  simp only
  split
  · rw [snap_find]; exact this
  · exact this

/-- **a successful NV_DefineSpace creates exactly the public area that was given**, unwritten and unlocked, with the
    authValue stripped of trailing zeros; the handle was free before -/
theorem define_creates (s : St) (authHandle : Nat) (auth : Bytes) (p : Pub)
    (hok : (defineSpace s authHandle auth p).2 = 0) :
    (defineSpace s authHandle auth p).1.find p.handle = some (newIdx auth p) ∧ s.find p.handle = none := by
  unfold defineSpace at hok ⊢
  cases hr : defineRefusal s authHandle auth p with
  | some rc => simp only [hr] at hok; exact absurd hok (defineRefusal_ne_zero s authHandle auth p rc hr)
  | none =>
    simp only
    have hfree : s.find p.handle = none := by
      have := firstHit_none _ hr ((s.find p.handle).isSome, TPM_RC_NV_DEFINED) (by simp [spaceTable])
      simpa using this
    exact ⟨addIdx_find_new s (newIdx auth p) hfree, hfree⟩

/-- a refused definition changes nothing -/
theorem define_refused (s : St) (authHandle : Nat) (auth : Bytes) (p : Pub) (h : (defineSpace s authHandle auth p).2 ≠ 0) :
    (defineSpace s authHandle auth p).1 = s := by
  unfold defineSpace at h ⊢
  cases hr : defineRefusal s authHandle auth p with
  | some rc => rfl
  | none => simp [hr] at h

/-- defining an index leaves every existing index as it was -/
theorem define_frame (s : St) (authHandle : Nat) (auth : Bytes) (p : Pub) (h' : Nat) (i : Idx) (hf : s.find h' = some i) :
    (defineSpace s authHandle auth p).1.find h' = some i := by
  unfold defineSpace
  cases hr : defineRefusal s authHandle auth p with
  | some rc => exact hf
  | none => exact addIdx_find_old s _ h' i hf

theorem filter_find_other (l : List Idx) (hd h' : Nat) (hne : h' ≠ hd) :
    (l.filter (·.handle ≠ hd)).find? (·.handle == h') = l.find? (·.handle == h') := by
  induction l with
  | nil => rfl
  | cons x xs ih =>
    by_cases hx : x.handle = hd
    · rw [List.filter_cons_of_neg (by simp [hx]), List.find?_cons_of_neg (by simp [hx]; exact fun e => hne e.symm)]
      exact ih
    · rw [List.filter_cons_of_pos (by simp [hx])]
      by_cases hy : (x.handle == h') = true
      · rw [List.find?_cons_of_pos (by simpa using hy), List.find?_cons_of_pos (by simpa using hy)]
      · rw [List.find?_cons_of_neg (by simpa using hy), List.find?_cons_of_neg (by simpa using hy)]
        exact ih

/-- deleting an index leaves every other index as it was -/
theorem delete_frame (s : St) (i : Idx) (h' : Nat) (hne : h' ≠ i.handle) : (deleteIdx s i).find h' = s.find h' := by
  unfold deleteIdx
  simp only
  split
  · rw [snap_find]; exact filter_find_other s.idx i.handle h' hne
  · exact filter_find_other s.idx i.handle h' hne

/-- and the deleted index is gone -/
theorem delete_gone (s : St) (i : Idx) : (deleteIdx s i).find i.handle = none := by
  have : (s.idx.filter (·.handle ≠ i.handle)).find? (·.handle == i.handle) = none := by
    rw [List.find?_eq_none]
    intro x hx
    have := (List.mem_filter.mp hx).2
    simpa using this
  unfold deleteIdx
  simp only
  split
  · rw [snap_find]; exact this
  · exact this

/-- a platform-created index cannot be undefined with owner authorization; an index with POLICY_DELETE not at all by NV_UndefineSpace -/
theorem undefine_guards (s : St) (authHandle h : Nat) (i : Idx) (hf : s.find h = some i)
    (hg : bit i.attrs B_POLICY_DELETE = true ∨ (authHandle = RH_OWNER ∧ bit i.attrs B_PLATFORMCREATE = true)) :
    (undefineSpace s authHandle h).1 = s ∧ (undefineSpace s authHandle h).2 ≠ 0 := by
  unfold undefineSpace
  simp only [hf]
  rcases hg with h1 | ⟨h2, h3⟩
  · simp [h1, TPM_RC_ATTRIBUTES, RC_NV_UndefineSpace_nvIndex]
  · by_cases h1 : bit i.attrs B_POLICY_DELETE = true
    · simp [h1, TPM_RC_ATTRIBUTES, RC_NV_UndefineSpace_nvIndex]
    · simp [h1, h2, h3, TPM_RC_NV_AUTHORIZATION]

/-! ### PIN indices -/

/-- a PIN-pass index lends its authValue to a read-type command only while pinCount < pinLimit -/
theorem pin_pass_limit (i : Idx) (cc : Nat) (hr : isWriteCmd cc = false) (hp : ntOf i.attrs = TPM_NT_PIN_PASS)
    (h : indexAuthAvail i cc = true) :
    bit i.attrs B_WRITTEN = true ∧ beNat (i.data.take 4) < beNat ((i.data.drop 4).take 4) := by
  unfold indexAuthAvail at h
  simp only [hr, Bool.false_eq_true, if_false, hp] at h
  simp [TPM_NT_PIN_PASS, TPM_NT_PIN_FAIL] at h
  exact h

/-! ### NV_Certify -/

/-- NV_Certify and NV_Read are the same kind of command for the availability of the index authValue -/
theorem certify_enter_eq_read (s : St) (a h : Nat) (hw1 : isWriteCmd 0x184 = false) (hw2 : isWriteCmd 0x14E = false) :
    enter s a h 0x184 = enter s a h 0x14E := by
  unfold enter indexAuthAvail
  simp [hw1, hw2]

/-- **what NV_Certify attests is what NV_Read returns**: whenever both succeed (same authorization, size, offset) the bytes
    are the same, and the state after them is the same -/
theorem certify_attests_read_data (s : St) (a h size off : Nat) (hw1 : isWriteCmd 0x184 = false) (hw2 : isWriteCmd 0x14E = false)
    (hc : (nvCertify s a h size off).2.1 = 0) (hr : (nvRead s a h size off).2.1 = 0) :
    (nvCertify s a h size off).2.2 = (nvRead s a h size off).2.2 ∧ (nvCertify s a h size off).1 = (nvRead s a h size off).1 := by
  unfold nvCertify nvRead at *
  rw [certify_enter_eq_read s a h hw1 hw2] at hc ⊢
  cases he : enter s a h 0x14E with
  | error rc => simp [he] at hc hr ⊢
  | ok p =>
    obtain ⟨s', i⟩ := p
    simp only [he] at hc hr ⊢
    by_cases h1 : readAccess a i ≠ 0
    · simp [h1] at hc
    · simp only [h1, if_false] at hc hr ⊢
      by_cases h2 : size + off > i.size
      · simp [h2, TPM_RC_NV_RANGE] at hc
      · by_cases h3 : size > MAX_NV_BUFFER_SIZE
        · simp [h2, h3, TPM_RC_VALUE, RC_NV_Certify_size] at hc
        · by_cases h4 : off > i.size
          · omega
          · by_cases h5 : size > i.size - off
            · omega
            · simp [h2, h3, h4, h5]

/-- a refused NV_Certify attests nothing (the PIN bookkeeping of a used index authValue is the only thing that may have moved) -/
theorem certify_refused (s : St) (a h size off : Nat) (hc : (nvCertify s a h size off).2.1 ≠ 0) :
    (nvCertify s a h size off).2.2 = [] := by
  unfold nvCertify at *
  cases he : enter s a h 0x184 with
  | error rc => simp [he]
  | ok p =>
    obtain ⟨s', i⟩ := p
    simp only [he] at hc ⊢
    by_cases h1 : readAccess a i ≠ 0
    · simp [h1]
    · simp only [h1, if_false] at hc ⊢
      by_cases h2 : size + off > i.size
      · simp [h2]
      · by_cases h3 : size > MAX_NV_BUFFER_SIZE
        · simp [h2, h3]
        · simp [h2, h3] at hc

example : isWriteCmd 0x184 = false ∧ isWriteCmd 0x14E = false := by decide


/-! ### Non-vacuity -/
example : defineChecks RH_OWNER [] { handle := 0x01500000, nameAlg := 0x000B, attrs := 0x02020002 + 16, policy := [], size := 8 } = none := by decide

/-- what parameter unmarshalling refuses comes first: an authValue that does not fit a TPM2B_AUTH (more than 64 bytes) is
    TPM_RC_SIZE for the auth parameter whatever the public area says -/
theorem define_auth_overlong (a : Nat) (auth : Bytes) (p : Pub) (h : auth.length > 64) :
    defineChecks a auth p = some (TPM_RC_SIZE + RC_NV_DefineSpace_auth) := by
  unfold defineChecks defineTable
  simp [firstHit, h]

/-- then the size of the index: above MAX_NV_INDEX_SIZE it is TPM_RC_SIZE for the public area, for every index type -/
theorem define_size_overlong (a : Nat) (auth : Bytes) (p : Pub) (h1 : ¬ auth.length > 64) (h2 : p.size > MAX_NV_INDEX_SIZE) :
    defineChecks a auth p = some (rcPub TPM_RC_SIZE) := by
  unfold defineChecks defineTable
  simp [firstHit, h1, h2]

end TpmVerif.Props.C09
