import TpmVerif.Model.FailMode
/-! C17 — failure mode is contained and reported.  Theorems about `Model.FailMode` for ALL request byte strings. -/
namespace TpmVerif.Props.C17
open TpmVerif TpmVerif.Model.FailMode

/-- well-formed TPM 2 response header: at least 10 bytes, tag NO_SESSIONS, size field = length -/
def WellFormed (r : Bytes) : Prop :=
  10 ≤ r.length ∧ rdBE r 0 2 = some Gen.TPM_ST_NO_SESSIONS ∧ rdBE r 2 4 = some r.length

theorem failureHeader_wf : WellFormed failureHeader := by unfold WellFormed; decide

theorem failureHeader_bytes : failureHeader = [0x80, 0x01, 0, 0, 0, 0x0A, 0, 0, 0x01, 0x01] := by decide

theorem okResponse_wf (p : Bytes) (h : p.length + 10 < 4294967296) : WellFormed (okResponse p) := by
  unfold WellFormed okResponse
  refine ⟨by simp [be16_length, be32_length]; omega, ?_, ?_⟩
  · simp [rdBE, be16, be32, beNat, Gen.TPM_ST_NO_SESSIONS]
  · have hl : (be16 Gen.TPM_ST_NO_SESSIONS ++ be32 (p.length + 10) ++ be32 0 ++ p).length = p.length + 10 := by
      simp [be16_length, be32_length]; omega
    rw [hl]
    unfold rdBE
    have : 2 + 4 ≤ (be16 Gen.TPM_ST_NO_SESSIONS ++ be32 (p.length + 10) ++ be32 0 ++ p).length := by rw [hl]; omega
    simp only [this, if_true]
    have e : ((be16 Gen.TPM_ST_NO_SESSIONS ++ be32 (p.length + 10) ++ be32 0 ++ p).drop 2).take 4 = be32 (p.length + 10) := by
      simp [be16, be32]
    rw [e, beNat_be32 _ h]

theorem testResultParams_length (f : FailInfo) : (testResultParams f).length = 18 := by
  simp [testResultParams, be16_length, be32_length]

theorem capParams_length (pt count : Nat) : (capParams pt count).length = 17 := by
  simp [capParams, be32_length]

/-- **every request byte string gets a well-formed answer in failure mode** -/
theorem respond_wf (f : FailInfo) (req : Bytes) : WellFormed (respond f req) := by
  unfold respond
  split
  · split
    · exact failureHeader_wf
    · split
      · split
        · exact failureHeader_wf
        · exact okResponse_wf _ (by rw [testResultParams_length]; decide)
      · split
        · split
          · split
            · exact failureHeader_wf
            · exact okResponse_wf _ (by rw [capParams_length]; decide)
          · exact failureHeader_wf
        · exact failureHeader_wf
  · exact failureHeader_wf

/-- **every command except GetTestResult and GetCapability is answered with the bare TPM_RC_FAILURE header** -/
theorem respond_failure_unless (f : FailInfo) (req : Bytes)
    (h : rdBE req 6 4 ≠ some Gen.TPM_CC_GetTestResult ∧ rdBE req 6 4 ≠ some Gen.TPM_CC_GetCapability) :
    respond f req = failureHeader := by
  unfold respond
  split
  · rename_i tag size cc h1 h2 h3
    have hA : cc ≠ Gen.TPM_CC_GetTestResult := fun e => h.1 (by rw [h3, e])
    have hB : cc ≠ Gen.TPM_CC_GetCapability := fun e => h.2 (by rw [h3, e])
    simp [hA, hB]
  · rfl

/-- GetCapability for anything but TPM_CAP_TPM_PROPERTIES is refused as well -/
theorem respond_failure_other_cap (f : FailInfo) (req : Bytes) (cap : Nat)
    (hcc : rdBE req 6 4 = some Gen.TPM_CC_GetCapability) (hcap : rdBE req 10 4 = some cap)
    (hne : cap ≠ Gen.TPM_CAP_TPM_PROPERTIES) : respond f req = failureHeader := by
  unfold respond
  split
  · rename_i tag size cc h1 h2 h3
    have hcc' : cc = Gen.TPM_CC_GetCapability := by rw [h3] at hcc; exact Option.some.inj hcc
    subst hcc'
    split
    · rfl
    · simp only [show Gen.TPM_CC_GetCapability ≠ Gen.TPM_CC_GetTestResult by decide, if_false, if_true]
      split
      · rename_i c2 pt count e1 e2 e3
        have : c2 = cap := by rw [e1] at hcap; exact Option.some.inj hcap
        subst this
        simp [hne]
      · rfl
  · rfl

/-- **GetTestResult reports the recorded failure**: a plain 10-byte GetTestResult request is answered with success,
    and the test-result data carries function, line and code of the failure -/
theorem getTestResult_reports (f : FailInfo) (req : Bytes)
    (htag : rdBE req 0 2 = some Gen.TPM_ST_NO_SESSIONS) (hsize : rdBE req 2 4 = some 10)
    (hcc : rdBE req 6 4 = some Gen.TPM_CC_GetTestResult) :
    respond f req = okResponse (testResultParams f) := by
  unfold respond
  rw [htag, hsize, hcc]
  simp

/-- **containment**: while in failure mode a command changes nothing and writes nothing to storage -/
theorem exec_contained {σ : Type} (s : St σ) (req : Bytes) :
    (execInFailure s req).1 = s ∧ (execInFailure s req).1.stores = s.stores ∧ (execInFailure s req).1.inFailure = s.inFailure := by
  simp [execInFailure]

/-- **sticky**: any sequence of commands leaves the TPM in failure mode with storage untouched -/
theorem failure_sticky {σ : Type} (s : St σ) (reqs : List Bytes) :
    (reqs.foldl (fun st r => (execInFailure st r).1) s) = s := by
  induction reqs with
  | nil => rfl
  | cons r rs ih => simpa [execInFailure] using ih

/-! non-vacuity / examples -/
example : respond ⟨1, 2, 3⟩ [0x80, 0x01, 0, 0, 0, 10, 0, 0, 0x01, 0x7C] =
    okResponse (testResultParams ⟨1, 2, 3⟩) := by decide
example : respond ⟨1, 2, 3⟩ [0x80, 0x01, 0, 0, 0, 12, 0, 0, 0x01, 0x7B, 0, 8] = failureHeader := by decide

end TpmVerif.Props.C17
