import TpmVerif.Model.FailMode
import TpmVerif.Model.Frame
/-! C17 — failure mode is contained and reported.  Theorems about `Model.FailMode` for ALL request byte strings. -/
namespace TpmVerif.Props.C17
open TpmVerif TpmVerif.Model.FailMode

/-- well-formed TPM 2 response header: at least 10 bytes, tag NO_SESSIONS, size field = length -/
def WellFormed (r : Bytes) : Prop :=
  10 ≤ r.length ∧ rdBE r 0 2 = some Gen.TPM_ST_NO_SESSIONS ∧ rdBE r 2 4 = some r.length

theorem failureHeader_wf : WellFormed failureHeader := by unfold WellFormed; decide

theorem failureHeader_bytes : failureHeader = [0x80, 0x01, 0, 0, 0, 0x0A, 0, 0, 0x01, 0x01] := by decide

theorem okResponse_wf (p : Bytes) (h : p.length + 10 < 4294967296) : WellFormed (okResponse p) := by
  unfold WellFormed okResponse
  refine ⟨by simp [be16_length, be32_length]; omega, ?_, ?_⟩
  · simp [rdBE, be16, be32, beNat, Gen.TPM_ST_NO_SESSIONS]
  · have hl : (be16 Gen.TPM_ST_NO_SESSIONS ++ be32 (p.length + 10) ++ be32 0 ++ p).length = p.length + 10 := by
      simp [be16_length, be32_length]; omega
    rw [hl]
    unfold rdBE
    have : 2 + 4 ≤ (be16 Gen.TPM_ST_NO_SESSIONS ++ be32 (p.length + 10) ++ be32 0 ++ p).length := by rw [hl]; omega
    simp only [this, if_true]
    have e : ((be16 Gen.TPM_ST_NO_SESSIONS ++ be32 (p.length + 10) ++ be32 0 ++ p).drop 2).take 4 = be32 (p.length + 10) := by
      simp [be16, be32]
    rw [e, beNat_be32 _ h]

theorem testResultParams_length (f : FailInfo) : (testResultParams f).length = 18 := by
  simp [testResultParams, be16_length, be32_length]

/-- an empty list is 9 bytes (moreData, capability, count = 0), a list of one property 17 -/
theorem capParams_length (pt count : Nat) : (capParams pt count).length = if count > 0 then 17 else 9 := by
  by_cases h : count > 0
  · simp [capParams, be32_length, h]
  · have h0 : count = 0 := by omega
    simp [capParams, be32_length, h0]

theorem capParams_length_le (pt count : Nat) : (capParams pt count).length ≤ 17 := by
  rw [capParams_length]; split <;> omega

/-- **every request byte string gets a well-formed answer in failure mode** -/
theorem respond_wf (f : FailInfo) (req : Bytes) : WellFormed (respond f req) := by
  unfold respond
  split
  · split
    · exact failureHeader_wf
    · split
      · split
        · exact failureHeader_wf
        · exact okResponse_wf _ (by rw [testResultParams_length]; decide)
      · split
        · split
          · split
            · exact failureHeader_wf
            · exact okResponse_wf _ (Nat.lt_of_le_of_lt (Nat.add_le_add_right (capParams_length_le _ _) 10) (by decide))
          · exact failureHeader_wf
        · exact failureHeader_wf
  · exact failureHeader_wf

/-- **every command except GetTestResult and GetCapability is answered with the bare TPM_RC_FAILURE header** -/
theorem respond_failure_unless (f : FailInfo) (req : Bytes)
    (h : rdBE req 6 4 ≠ some Gen.TPM_CC_GetTestResult ∧ rdBE req 6 4 ≠ some Gen.TPM_CC_GetCapability) :
    respond f req = failureHeader := by
  unfold respond
  split
  · rename_i tag size cc h1 h2 h3
    have hA : cc ≠ Gen.TPM_CC_GetTestResult := fun e => h.1 (by rw [h3, e])
    have hB : cc ≠ Gen.TPM_CC_GetCapability := fun e => h.2 (by rw [h3, e])
    simp [hA, hB]
  · rfl

/-- GetCapability for anything but TPM_CAP_TPM_PROPERTIES is refused as well -/
theorem respond_failure_other_cap (f : FailInfo) (req : Bytes) (cap : Nat)
    (hcc : rdBE req 6 4 = some Gen.TPM_CC_GetCapability) (hcap : rdBE req 10 4 = some cap)
    (hne : cap ≠ Gen.TPM_CAP_TPM_PROPERTIES) : respond f req = failureHeader := by
  unfold respond
  split
  · rename_i tag size cc h1 h2 h3
    have hcc' : cc = Gen.TPM_CC_GetCapability := by rw [h3] at hcc; exact Option.some.inj hcc
    subst hcc'
    split
    · rfl
    · simp only [show Gen.TPM_CC_GetCapability ≠ Gen.TPM_CC_GetTestResult by decide, if_false, if_true]
      split
      · rename_i c2 pt count e1 e2 e3
        have : c2 = cap := by rw [e1] at hcap; exact Option.some.inj hcap
        subst this
        simp [hne]
      · rfl
  · rfl

/-- **GetTestResult reports the recorded failure**: a plain 10-byte GetTestResult request is answered with success,
    and the test-result data carries function, line and code of the failure -/
theorem getTestResult_reports (f : FailInfo) (req : Bytes)
    (htag : rdBE req 0 2 = some Gen.TPM_ST_NO_SESSIONS) (hsize : rdBE req 2 4 = some 10)
    (hcc : rdBE req 6 4 = some Gen.TPM_CC_GetTestResult) :
    respond f req = okResponse (testResultParams f) := by
  unfold respond
  rw [htag, hsize, hcc]
  simp

/-- **containment**: while in failure mode a command changes nothing and writes nothing to storage -/
theorem exec_contained {σ : Type} (s : St σ) (req : Bytes) :
    (execInFailure s req).1 = s ∧ (execInFailure s req).1.stores = s.stores ∧ (execInFailure s req).1.inFailure = s.inFailure := by
  simp [execInFailure]

/-- **sticky**: any sequence of commands leaves the TPM in failure mode with storage untouched -/
theorem failure_sticky {σ : Type} (s : St σ) (reqs : List Bytes) :
    (reqs.foldl (fun st r => (execInFailure st r).1) s) = s := by
  induction reqs with
  | nil => rfl
  | cons r rs ih => simpa [execInFailure] using ih

/-! ### The answers of failure mode under the response grammar of C01 -/
section Conforms
open TpmVerif.Model.Frame

theorem rdBE_be16_head (v : Nat) (rest : Bytes) (h : v < 65536) : rdBE (be16 v ++ rest) 0 2 = some v := by
  unfold rdBE
  have : 0 + 2 ≤ (be16 v ++ rest).length := by simp [be16_length]
  simp only [this, if_true]
  have e : ((be16 v ++ rest).drop 0).take 2 = be16 v := by simp [be16]
  rw [e, beNat_be16 _ h]

theorem rdBE_be32_head (v : Nat) (rest : Bytes) (h : v < 4294967296) : rdBE (be32 v ++ rest) 0 4 = some v := by
  unfold rdBE
  have : 0 + 4 ≤ (be32 v ++ rest).length := by simp [be32_length]
  simp only [this, if_true]
  have e : ((be32 v ++ rest).drop 0).take 4 = be32 v := by simp [be32]
  rw [e, beNat_be32 _ h]

theorem rdBE_skip (pre bs : Bytes) (n : Nat) : rdBE (pre ++ bs) pre.length n = rdBE bs 0 n := by
  unfold rdBE
  simp only [List.length_append, List.drop_left', Nat.zero_add, List.drop_zero]
  have : (pre.length + n ≤ pre.length + bs.length) = (n ≤ bs.length) := by
    apply propext; omega
  simp only [this]

/-- a success response built by `okResponse` is accepted by the response checker of C01 whenever its parameters parse
    exactly under the grammar of the command that was sent -/
theorem okResponse_conforms (req p : Bytes) (buf cc : Nat) (ps : List P) (x : Nat × Nat × Bool × Bool × Nat)
    (htag : rdBE req 0 2 = some Gen.TPM_ST_NO_SESSIONS) (hcc : rdBE req 6 4 = some cc)
    (hl : lookup cc = some x) (hrh : x.2.2.1 = false) (hg : respParams cc = some ps)
    (hp : pSeq ps p = some []) (hlen : p.length + 10 ≤ buf) (hsmall : p.length + 10 < 4294967296) :
    checkResponse req (okResponse p) buf = none := by
  have hwf := okResponse_wf p hsmall
  obtain ⟨h10, ht, hs⟩ := hwf
  have hlen' : (okResponse p).length = p.length + 10 := by
    simp [okResponse, be16_length, be32_length]; omega
  have hrc : rdBE (okResponse p) 6 4 = some 0 := by
    have : okResponse p = (be16 Gen.TPM_ST_NO_SESSIONS ++ be32 (p.length + 10)) ++ (be32 0 ++ p) := by simp [okResponse]
    rw [this]
    have h6 : (be16 Gen.TPM_ST_NO_SESSIONS ++ be32 (p.length + 10)).length = 6 := by simp [be16_length, be32_length]
    rw [← h6, rdBE_skip, rdBE_be32_head 0 p (by decide)]
  have hbody : (okResponse p).drop 10 = p := by
    simp [okResponse, be16, be32]
  obtain ⟨x1, x2, x3, x4, x5⟩ := x
  simp only at hrh; subst hrh
  unfold checkResponse
  simp only [ht, hs, hrc, htag, hcc, hl, hg, Option.getD_some, hlen']
  have hne : ¬ (p.length + 10 < 10) := by omega
  have hle : ¬ (p.length + 10 > buf) := by omega
  simp [hne, hle, hbody, hp, Gen.TPM_ST_NO_SESSIONS, Gen.TPM_ST_SESSIONS]


theorem pN_exact (bs : Bytes) : pN bs.length bs = some [] := by simp [pN]
theorem pN_append (pre rest : Bytes) : pN pre.length (pre ++ rest) = some rest := by simp [pN]

/-- the GetTestResult parameters parse exactly as TPM2B_MAX_BUFFER ‖ TPM_RC -/
theorem testResult_parses (f : FailInfo) : pSeq [pB2, pU32] (testResultParams f) = some [] := by
  unfold testResultParams pSeq
  simp only [List.foldl, Option.bind]
  have h1 : pB2 (be16 12 ++ be32 f.function ++ be32 f.line ++ be32 f.code ++
      be32 (if f.code = Gen.FATAL_ERROR_NV_UNRECOVERABLE then Gen.TPM_RC_NV_UNINITIALIZED else Gen.TPM_RC_FAILURE)) =
      some (be32 (if f.code = Gen.FATAL_ERROR_NV_UNRECOVERABLE then Gen.TPM_RC_NV_UNINITIALIZED else Gen.TPM_RC_FAILURE)) := by
    unfold pB2
    have e : be16 12 ++ be32 f.function ++ be32 f.line ++ be32 f.code ++ be32 (if f.code = Gen.FATAL_ERROR_NV_UNRECOVERABLE then Gen.TPM_RC_NV_UNINITIALIZED else Gen.TPM_RC_FAILURE)
        = be16 12 ++ (be32 f.function ++ be32 f.line ++ be32 f.code ++ be32 (if f.code = Gen.FATAL_ERROR_NV_UNRECOVERABLE then Gen.TPM_RC_NV_UNINITIALIZED else Gen.TPM_RC_FAILURE)) := by simp
    rw [e, rdBE_be16_head 12 _ (by decide)]
    simp only
    have e2 : be16 12 ++ (be32 f.function ++ be32 f.line ++ be32 f.code ++ be32 (if f.code = Gen.FATAL_ERROR_NV_UNRECOVERABLE then Gen.TPM_RC_NV_UNINITIALIZED else Gen.TPM_RC_FAILURE))
        = (be16 12 ++ be32 f.function ++ be32 f.line ++ be32 f.code) ++ be32 (if f.code = Gen.FATAL_ERROR_NV_UNRECOVERABLE then Gen.TPM_RC_NV_UNINITIALIZED else Gen.TPM_RC_FAILURE) := by simp
    rw [e2]
    have hl : (be16 12 ++ be32 f.function ++ be32 f.line ++ be32 f.code).length = 2 + 12 := by simp [be16_length, be32_length]
    rw [← hl]; exact pN_append _ _
  rw [h1]
  show pU32 _ = some []
  unfold pU32
  have : (be32 (if f.code = Gen.FATAL_ERROR_NV_UNRECOVERABLE then Gen.TPM_RC_NV_UNINITIALIZED else Gen.TPM_RC_FAILURE)).length = 4 := be32_length _
  rw [← this]; exact pN_exact _


theorem drop4_be32 (v : Nat) (rest : Bytes) : (be32 v ++ rest).drop 4 = rest := by simp [be32]

/-- the GetCapability parameters parse exactly as moreData ‖ TPMS_CAPABILITY_DATA (TPM_PROPERTIES, a list of 0 or 1 pairs) -/
theorem cap_parses (pt count : Nat) : pSeq [pU8, pCapData] (capParams pt count) = some [] := by
  unfold capParams pSeq
  simp only [List.foldl, Option.bind]
  have hcap : Gen.TPM_CAP_TPM_PROPERTIES = 6 := by decide
  by_cases hc : count > 0
  · simp only [hc, if_true]
    have hone : (0 : Nat) < 1 := by decide
    simp only [hone, if_true]
    generalize (if pt < Gen.TPM_PT_MANUFACTURER then Gen.TPM_PT_MANUFACTURER else pt) = q
    generalize (if q < Gen.TPM_PT_FIRMWARE_VERSION_2 then (1 : UInt8) else 0) = more
    have h1 : pU8 ([more] ++ be32 Gen.TPM_CAP_TPM_PROPERTIES ++ be32 1 ++ (be32 q ++ be32 (propValue q))) =
        some (be32 Gen.TPM_CAP_TPM_PROPERTIES ++ (be32 1 ++ (be32 q ++ be32 (propValue q)))) := by
      simp [pU8, pN]
    rw [h1]
    show pCapData _ = some []
    unfold pCapData
    rw [rdBE_be32_head _ _ (by decide)]
    simp only [hcap, drop4_be32]
    rw [if_neg (by decide), if_neg (by decide), if_neg (by decide), if_pos trivial]
    unfold pList32
    rw [rdBE_be32_head 1 _ (by decide)]
    simp only [drop4_be32, List.length_append, be32_length]
    rw [if_pos (by decide)]
    simp only [pRep, Option.bind]
    have : pN 8 (be32 q ++ be32 (propValue q)) = some [] := by
      have hl : (be32 q ++ be32 (propValue q)).length = 8 := by simp [be32_length]
      rw [← hl]; exact pN_exact _
    rw [this]
  · have h0 : count = 0 := by omega
    subst h0
    simp only [Nat.lt_irrefl, if_false]
    generalize (if pt < Gen.TPM_PT_MANUFACTURER then Gen.TPM_PT_MANUFACTURER else pt) = q
    generalize (if q < Gen.TPM_PT_FIRMWARE_VERSION_2 then (1 : UInt8) else 0) = more
    have h1 : pU8 ([more] ++ be32 Gen.TPM_CAP_TPM_PROPERTIES ++ be32 0 ++ []) =
        some (be32 Gen.TPM_CAP_TPM_PROPERTIES ++ (be32 0 ++ [])) := by
      simp [pU8, pN]
    rw [h1]
    show pCapData _ = some []
    unfold pCapData
    rw [rdBE_be32_head _ _ (by decide)]
    simp only [hcap, drop4_be32]
    rw [if_neg (by decide), if_neg (by decide), if_neg (by decide), if_pos trivial]
    unfold pList32
    rw [rdBE_be32_head 0 _ (by decide)]
    simp [pRep, be32]


/-- the bare failure header passes the response checker whatever was asked -/
theorem failureHeader_conforms (req : Bytes) (buf : Nat) (hb : 10 ≤ buf) : checkResponse req failureHeader buf = none := by
  unfold checkResponse
  have hl : failureHeader.length = 10 := by decide
  have h0 : rdBE failureHeader 0 2 = some Gen.TPM_ST_NO_SESSIONS := by decide
  have h2 : rdBE failureHeader 2 4 = some 10 := by decide
  have h6 : rdBE failureHeader 6 4 = some Gen.TPM_RC_FAILURE := by decide
  have hne : Gen.TPM_RC_FAILURE ≠ 0 := by decide
  have hgt : ¬ (10 > buf) := by omega
  simp [hl, h0, h2, h6, hne, hgt]

/-- **every answer of failure mode conforms to the response grammar of C01**: for every recorded failure and every request
    byte string, what `TpmFailureMode` answers is accepted by `Model.Frame.checkResponse` — header consistent, an error a bare
    header, a success (GetTestResult, GetCapability of TPM properties) parsing exactly under its command's schema -/
theorem respond_conforms (f : FailInfo) (req : Bytes) (buf : Nat) (hb : 28 ≤ buf) :
    checkResponse req (respond f req) buf = none := by
  have hfh := failureHeader_conforms req buf (by omega)
  unfold respond
  split
  · rename_i tag size cc htag hsize hcc
    split
    · exact hfh
    · rename_i hts
      have htag' : rdBE req 0 2 = some Gen.TPM_ST_NO_SESSIONS := by
        have : tag = Gen.TPM_ST_NO_SESSIONS := by
          by_cases h : tag = Gen.TPM_ST_NO_SESSIONS
          · exact h
          · exact absurd (Or.inl h) hts
        rw [htag, this]
      split
      · rename_i hgtr
        split
        · exact hfh
        · subst hgtr
          have hg : respParams Gen.TPM_CC_GetTestResult = some [pB2, pU32] := by
            have : respGrammar Gen.TPM_CC_GetTestResult = some [.b2, .u32] := by decide
            simp [respParams, this, G.parser]
          exact okResponse_conforms req _ buf Gen.TPM_CC_GetTestResult [pB2, pU32] (380, 0, false, true, 513) htag' hcc (by decide) rfl hg
            (testResult_parses f) (by rw [testResultParams_length]; exact hb) (by rw [testResultParams_length]; decide)
      · split
        · rename_i hgc
          split
          · split
            · exact hfh
            · subst hgc
              have hg : respParams Gen.TPM_CC_GetCapability = some [pU8, pCapData] := by
                have : respGrammar Gen.TPM_CC_GetCapability = some [.u8, .capData] := by decide
                simp [respParams, this, G.parser]
              exact okResponse_conforms req _ buf Gen.TPM_CC_GetCapability [pU8, pCapData] (378, 0, false, true, 512) htag' hcc (by decide) rfl hg
                (cap_parses _ _) (Nat.le_trans (Nat.add_le_add_right (capParams_length_le _ _) 10) (by omega))
                (Nat.lt_of_le_of_lt (Nat.add_le_add_right (capParams_length_le _ _) 10) (by decide))
          · exact hfh
        · exact hfh
  · exact hfh

end Conforms

/-! non-vacuity / examples -/
example : respond ⟨1, 2, 3⟩ [0x80, 0x01, 0, 0, 0, 10, 0, 0, 0x01, 0x7C] =
    okResponse (testResultParams ⟨1, 2, 3⟩) := by decide
example : respond ⟨1, 2, 3⟩ [0x80, 0x01, 0, 0, 0, 12, 0, 0, 0x01, 0x7B, 0, 8] = failureHeader := by decide

example : Model.Frame.checkResponse [0x80, 0x01, 0, 0, 0, 22, 0, 0, 0x01, 0x7A, 0, 0, 0, 6, 0, 0, 1, 0x0B, 0, 0, 0, 0]
    (respond ⟨1, 2, 3⟩ [0x80, 0x01, 0, 0, 0, 22, 0, 0, 0x01, 0x7A, 0, 0, 0, 6, 0, 0, 1, 0x0B, 0, 0, 0, 0]) 4096 = none := by decide
example : (respond ⟨1, 2, 3⟩ [0x80, 0x01, 0, 0, 0, 22, 0, 0, 0x01, 0x7A, 0, 0, 0, 6, 0, 0, 1, 0x0B, 0, 0, 0, 0]).length = 19 := by decide

end TpmVerif.Props.C17
