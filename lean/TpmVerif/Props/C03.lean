import TpmVerif.Model.Persist
import TpmVerif.Model.Admin
/-!
  C03 — acknowledged persistent changes are in storage and survive a restart.
  Theorems about the commit protocol (`Model.Persist`), for every image type, every mask, every sequence of
  commands and writes, by induction.
-/
namespace TpmVerif.Props.C03
open TpmVerif.Model.Persist

variable {ι κ : Type}

/-- a write respects the mask if it is a clock-only write: it changes nothing outside the ORDERLY_DATA block -/
def ClockOnly (mask : ι → κ) : Write ι → Prop
  | .nvWrite _ => True
  | .clockWrite f => ∀ x, mask (f x) = mask x

/-- storage and RAM image agree outside the ORDERLY_DATA block, and no commit is pending -/
def Synced (mask : ι → κ) (s : St ι) : Prop :=
  s.updateNV = false ∧ ∃ d, s.disk = some d ∧ mask d = mask s.nv

theorem fold_updateNV (s : St ι) (ws : List (Write ι)) :
    (ws.foldl applyWrite s).updateNV = (s.updateNV || hasNvWrite ws) := by
  induction ws generalizing s with
  | nil => simp [hasNvWrite]
  | cons w ws ih =>
    cases w with
    | nvWrite f => simp [List.foldl, applyWrite, ih, hasNvWrite]
    | clockWrite f => simp [List.foldl, applyWrite, ih, hasNvWrite]

theorem fold_frame (s : St ι) (ws : List (Write ι)) :
    (ws.foldl applyWrite s).disk = s.disk ∧ (ws.foldl applyWrite s).failure = s.failure ∧
    (ws.foldl applyWrite s).stores = s.stores := by
  induction ws generalizing s with
  | nil => simp
  | cons w ws ih => cases w <;> simp [List.foldl, applyWrite, ih]

theorem fold_mask (mask : ι → κ) (s : St ι) (ws : List (Write ι))
    (hc : ∀ w ∈ ws, ClockOnly mask w) (hn : hasNvWrite ws = false) :
    mask (ws.foldl applyWrite s).nv = mask s.nv := by
  induction ws generalizing s with
  | nil => rfl
  | cons w ws ih =>
    cases w with
    | nvWrite f => simp [hasNvWrite] at hn
    | clockWrite f =>
      have h1 : ClockOnly mask (.clockWrite f) := hc _ (List.mem_cons_self)
      simp only [List.foldl, applyWrite]
      rw [ih _ (fun w hw => hc w (List.mem_cons_of_mem _ hw)) (by simpa [hasNvWrite] using hn)]
      exact h1 s.nv

theorem body_spec (s : St ι) (ws : List (Write ι)) :
    (body s ws).updateNV = hasNvWrite ws ∧ (body s ws).disk = s.disk ∧ (body s ws).failure = s.failure ∧
    (body s ws).stores = s.stores := by
  unfold body
  refine ⟨by rw [fold_updateNV]; simp, ?_⟩
  have := fold_frame ({ s with updateNV := false } : St ι) ws
  simpa using this

theorem body_mask (mask : ι → κ) (s : St ι) (ws : List (Write ι))
    (hc : ∀ w ∈ ws, ClockOnly mask w) (hn : hasNvWrite ws = false) : mask (body s ws).nv = mask s.nv := by
  unfold body
  have := fold_mask mask ({ s with updateNV := false } : St ι) ws hc hn
  simpa using this

/-- **acknowledged ⇒ durable**: a command that made a persistent change and did not end in failure mode has handed
    exactly the current image to storage before it returned -/
theorem ack_durable (s : St ι) (ws : List (Write ι)) (ok : Bool) (hf : s.failure = false)
    (hw : hasNvWrite ws = true) (hend : (command s ws ok).failure = false) :
    (command s ws ok).disk = some (command s ws ok).nv ∧ (command s ws ok).stores = s.stores + 1 ∧
    (command s ws ok).updateNV = false := by
  obtain ⟨h1, h2, h3, h4⟩ := body_spec s ws
  unfold command at *
  simp only [hf, Bool.false_eq_true, if_false] at *
  generalize body s ws = s1 at *
  rw [hw] at h1
  simp only [h1, if_true] at *
  cases ok with
  | true => simp [h4]
  | false => simp at hend

/-- a refused commit is never acknowledged: the TPM is in failure mode afterwards and storage is untouched -/
theorem store_refused_is_failure (s : St ι) (ws : List (Write ι)) (hf : s.failure = false) (hw : hasNvWrite ws = true) :
    (command s ws false).failure = true ∧ (command s ws false).disk = s.disk := by
  obtain ⟨h1, h2, h3, h4⟩ := body_spec s ws
  unfold command
  simp only [hf, Bool.false_eq_true, if_false]
  generalize body s ws = s1 at *
  rw [hw] at h1
  simp [h1, h2]

/-- **only Clock and RNG bookkeeping may lag**: a command without a real persistent change does not touch storage,
    and storage still agrees with the image outside the ORDERLY_DATA block -/
theorem clock_only_lags (mask : ι → κ) (s : St ι) (ws : List (Write ι)) (ok : Bool) (hs : Synced mask s)
    (hc : ∀ w ∈ ws, ClockOnly mask w) (hn : hasNvWrite ws = false) :
    (command s ws ok).disk = s.disk ∧ (command s ws ok).stores = s.stores ∧ Synced mask (command s ws ok) := by
  obtain ⟨hu, d, hd, hm⟩ := hs
  obtain ⟨h1, h2, h3, h4⟩ := body_spec s ws
  have hmk := body_mask mask s ws hc hn
  unfold command
  by_cases hf : s.failure
  · simp [hf, Synced, hu, hd, hm]
  · simp only [hf, Bool.false_eq_true, if_false]
    generalize body s ws = s1 at *
    rw [hn] at h1
    simp only [h1, Bool.false_eq_true, if_false]
    exact ⟨h2, h4, h1, d, by rw [h2]; exact hd, by rw [hmk]; exact hm⟩

/-- the invariant `Synced` is kept by every command that does not end in failure mode -/
theorem command_synced (mask : ι → κ) (s : St ι) (ws : List (Write ι)) (ok : Bool) (hs : Synced mask s)
    (hc : ∀ w ∈ ws, ClockOnly mask w) (hend : (command s ws ok).failure = false) :
    Synced mask (command s ws ok) := by
  by_cases hn : hasNvWrite ws = true
  · by_cases hf : s.failure
    · unfold command; simpa [hf] using hs
    · have hf' : s.failure = false := by simpa using hf
      obtain ⟨h1, _, h3⟩ := ack_durable s ws ok hf' hn hend
      exact ⟨h3, _, h1, rfl⟩
  · exact (clock_only_lags mask s ws ok hs hc (by simpa using hn)).2.2

/-- **every history**: after any sequence of commands none of which ended in failure mode, storage agrees with the image
    outside the ORDERLY_DATA block -/
theorem history_synced (mask : ι → κ) (s : St ι) (cmds : List (List (Write ι) × Bool)) (hs : Synced mask s)
    (hc : ∀ c ∈ cmds, ∀ w ∈ c.1, ClockOnly mask w)
    (hend : (cmds.foldl (fun st c => command st c.1 c.2) s).failure = false)
    (hmono : ∀ (st : St ι) (c : List (Write ι) × Bool), st.failure = true → (command st c.1 c.2).failure = true) :
    Synced mask (cmds.foldl (fun st c => command st c.1 c.2) s) := by
  induction cmds generalizing s with
  | nil => exact hs
  | cons c cs ih =>
    simp only [List.foldl] at hend ⊢
    have hfc : (command s c.1 c.2).failure = false := by
      cases hq : (command s c.1 c.2).failure with
      | false => rfl
      | true =>
        exfalso
        have : ∀ (l : List (List (Write ι) × Bool)) (st : St ι), st.failure = true →
            (l.foldl (fun st c => command st c.1 c.2) st).failure = true := by
          intro l; induction l with
          | nil => intro st h; exact h
          | cons x xs ihx => intro st h; exact ihx _ (hmono st x h)
        rw [this cs _ hq] at hend; exact Bool.noConfusion hend
    apply ih _ (command_synced mask s c.1 c.2 hs (hc c List.mem_cons_self) hfc)
      (fun c' hc' => hc c' (List.mem_cons_of_mem _ hc')) hend

/-- failure mode is sticky for the commit protocol (used as `hmono` above) -/
theorem failure_sticky (st : St ι) (c : List (Write ι) × Bool) (h : st.failure = true) :
    (command st c.1 c.2).failure = true := by
  unfold command; simp [h]

/-- **cut and restart**: a TPM restarted from what storage holds has an image that agrees with the pre-cut image
    outside the ORDERLY_DATA block -/
theorem cut_restart (mask : ι → κ) (s : St ι) (hs : Synced mask s) :
    ∃ t, restart s = some t ∧ mask t.nv = mask s.nv := by
  obtain ⟨_, d, hd, hm⟩ := hs
  exact ⟨{ nv := d, disk := some d }, by simp [restart, hd], hm⟩

/-! non-vacuity: a concrete run -/
example : Synced (fun (x : Nat × Nat) => x.1) ({ nv := (1, 5), disk := some (1, 3) } : St (Nat × Nat)) := ⟨rfl, (1, 3), rfl, rfl⟩

end TpmVerif.Props.C03

/-! ### The administrative state (hierarchy authorizations, policies, enables, seeds, proofs, audit and PP sets) -/

namespace TpmVerif.Props.C03.Admin
open TpmVerif TpmVerif.Model.Admin

/-- **a refused administrative command changes nothing** -/
theorem refused_unchanged (s : St) (op : Op) (pw : Bytes) (pp : Bool) (h : (step s op pw pp).2 ≠ 0) : (step s op pw pp).1 = s := by
  unfold step at h ⊢
  by_cases hg : gate s op pw pp ≠ 0
  · simp [hg]
  · simp only [hg, if_false] at h ⊢
    cases op with
    | changeAuth ah new => simp [exec] at h
    | setPolicy ah alg d => simp [exec] at h
    | clearControl ah dis =>
      by_cases hc : ah = .lockout ∧ dis = false
      · simp [exec, hc]
      · simp [exec, hc] at h
    | clear ah =>
      by_cases hc : s.disableClear = true
      · simp [exec, hc]
      · simp [exec, hc] at h
    | changeEPS => simp [exec] at h
    | changePPS => simp [exec] at h
    | control ah en st =>
      by_cases hc : controlRefused s ah en st = true
      · simp [exec, hc]
      · simp [exec, hc] at h
    | setAudit ah alg set clear =>
      by_cases h1 : alg ≠ 0x10 ∧ alg ≠ s.auditAlg
      · by_cases h2 : set ≠ [] ∨ clear ≠ []
        · simp [exec, h1, h2]
        · simp [exec, h1, h2] at h
      · simp [exec, h1] at h
    | ppCommands set clear => simp [exec] at h

/-- **a wrong password never gets an administrative command through** -/
theorem wrong_password_refused (s : St) (op : Op) (pw : Bytes) (pp : Bool) (h : stripZeros pw ≠ s.auth (ahOf op)) :
    (step s op pw pp).2 ≠ 0 := by
  have hg : gate s op pw pp ≠ 0 := by
    unfold gate
    by_cases h1 : (!usable s (ahOf op)) = true
    · simp [h1, RC_HIERARCHY]
    · by_cases h2 : ahOf op = H.platform ∧ s.pp (ccOf op) = true ∧ (!pp) = true
      · have hu : usable s H.platform = true := rfl
        simp [h2, hu, RC_PP]
      · simp only [h1, h2, h, if_false, if_true, ne_eq, not_false_eq_true, Bool.false_eq_true]
        split <;> simp [RC_AUTH_FAIL_S, RC_BAD_AUTH]
  unfold step
  simp [hg]

/-- **a disabled hierarchy authorizes nothing** -/
theorem disabled_hierarchy_refused (s : St) (op : Op) (pw : Bytes) (pp : Bool) (h : usable s (ahOf op) = false) :
    (step s op pw pp).2 = RC_HIERARCHY := by
  have hg : gate s op pw pp = RC_HIERARCHY := by unfold gate; simp [h]
  unfold step
  simp [hg, RC_HIERARCHY]

/-- a command on the physical-presence list, authorized by the platform, needs physical presence -/
theorem pp_needed (s : St) (op : Op) (pw : Bytes) (hu : usable s (ahOf op) = true) (ha : ahOf op = .platform) (hl : s.pp (ccOf op) = true) :
    (step s op pw false).2 = RC_PP := by
  have hu' : usable s H.platform = true := rfl
  have hg : gate s op pw false = RC_PP := by unfold gate; simp [ha, hl, hu']
  unfold step
  simp [hg, RC_PP]

/-- **TPM2_Clear while disableClear is set is refused; lockoutAuth cannot switch disableClear off** -/
theorem clear_disabled (s : St) (ah : H) (h : s.disableClear = true) : exec s (.clear ah) = (s, RC_DISABLED) := by simp [exec, h]
theorem lockout_cannot_enable_clear (s : St) : exec s (.clearControl .lockout false) = (s, RC_AUTH_FAIL) := by simp [exec]

/-- **what TPM2_Clear leaves**: owner, endorsement and lockout authorization and policy are gone, both hierarchies are
    enabled, the storage seed and both proofs are new; platform authorization, disableClear, audit and PP lists stay -/
theorem clear_effect (s : St) (ah : H) (h : s.disableClear = false) :
    let s' := (exec s (.clear ah)).1
    s'.auth .owner = [] ∧ s'.auth .endorsement = [] ∧ s'.auth .lockout = [] ∧ s'.auth .platform = s.auth .platform ∧
    s'.polAlg .owner = 0x10 ∧ s'.polAlg .endorsement = 0x10 ∧ s'.polAlg .lockout = 0x10 ∧
    s'.shEnable = true ∧ s'.ehEnable = true ∧ s'.seedGen .owner = s.seedGen .owner + 1 ∧
    s'.proofGen .owner = s.proofGen .owner + 1 ∧ s'.proofGen .endorsement = s.proofGen .endorsement + 1 ∧
    s'.disableClear = false ∧ s'.audit = s.audit ∧ s'.pp = s.pp := by
  simp [exec, h, setH]

/-- **only the platform switches a disabled hierarchy on again** -/
theorem only_platform_reenables (s : St) (ah : H) (hp : ah ≠ .platform) :
    (s.shEnable = false → (exec s (.control ah .owner true)).2 = RC_AUTH_TYPE) ∧
    (s.ehEnable = false → (exec s (.control ah .endorsement true)).2 = RC_AUTH_TYPE) := by
  constructor <;> intro h <;> cases ah <;> simp_all [exec, controlRefused]

/-- **a Reset or Restart keeps the persistent part** (authValues and policies of owner, endorsement and lockout, disableClear,
    seeds, proofs, the audit hash) and the audit and physical-presence sets -/
theorem restart_keeps_persistent (s : St) :
    persistent (restartClear s) = persistent s ∧ (restartClear s).audit = s.audit ∧ (restartClear s).pp = s.pp := by
  simp [persistent, restartClear, setH]

/-- … and starts the volatile part again: no platform authorization or policy, every hierarchy enabled -/
theorem restart_resets_volatile (s : St) :
    (restartClear s).auth .platform = [] ∧ (restartClear s).polAlg .platform = 0x10 ∧
    (restartClear s).shEnable = true ∧ (restartClear s).ehEnable = true ∧ (restartClear s).phEnableNV = true := by
  simp [restartClear, setH]

/-- histories: commands (with the password sent and the physical-presence signal) and restarts -/
inductive Ev where
  | cmd (op : Op) (pw : Bytes) (pp : Bool)
  | restart (resume : Bool)

def apply (s : St) : Ev → St
  | .cmd op pw pp => (step s op pw pp).1
  | .restart resume => if resume then s else restartClear s
def run (s : St) (es : List Ev) : St := es.foldl apply s

/-- **after any history, a power cut (= Reset) leaves exactly the persistent part that was there** -/
theorem cut_after_any_history (s : St) (es : List Ev) :
    persistent (restartClear (run s es)) = persistent (run s es) := (restart_keeps_persistent _).1

/-- seeds and proofs only move forward, whatever the history -/
theorem gens_step_mono (s : St) (e : Ev) (h : H) : s.seedGen h ≤ (apply s e).seedGen h ∧ s.proofGen h ≤ (apply s e).proofGen h := by
  cases e with
  | restart r => cases r <;> simp [apply, restartClear]
  | cmd op pw pp =>
    simp only [apply, step]
    by_cases hg : gate s op pw pp ≠ 0
    · simp [hg]
    · simp only [hg, if_false]
      cases op with
      | changeAuth ah new => simp [exec]
      | setPolicy ah alg d => simp [exec]
      | clearControl ah dis => by_cases hc : ah = .lockout ∧ dis = false <;> simp [exec, hc]
      | clear ah => by_cases hc : s.disableClear = true <;> simp [exec, hc, setH] <;> (cases h <;> simp)
      | changeEPS => simp [exec, setH]; cases h <;> simp
      | changePPS => simp [exec, setH]; cases h <;> simp
      | control ah en st => by_cases hc : controlRefused s ah en st = true <;> simp [exec, hc] <;> (cases en <;> simp)
      | setAudit ah alg set clear =>
        by_cases h1 : alg ≠ 0x10 ∧ alg ≠ s.auditAlg
        · by_cases h2 : set ≠ [] ∨ clear ≠ [] <;> simp [exec, h1, h2]
        · simp [exec, h1]
      | ppCommands set clear => simp [exec]

theorem gens_run_mono (es : List Ev) : ∀ (s : St) (h : H), s.seedGen h ≤ (run s es).seedGen h ∧ s.proofGen h ≤ (run s es).proofGen h := by
  induction es with
  | nil => intro s h; simp [run]
  | cons e es ih =>
    intro s h
    have h1 := gens_step_mono s e h
    have h2 := ih (apply s e) h
    simp only [run, List.foldl] at h2 ⊢
    exact ⟨Nat.le_trans h1.1 h2.1, Nat.le_trans h1.2 h2.2⟩

/-- the authValue set by a successful HierarchyChangeAuth is the new value without trailing zeros, and the other
    hierarchies keep theirs -/
theorem changeAuth_effect (s : St) (ah : H) (new : Bytes) :
    (exec s (.changeAuth ah new)).1.auth ah = stripZeros new ∧ ∀ h, h ≠ ah → (exec s (.changeAuth ah new)).1.auth h = s.auth h := by
  simp [exec, setH]
  intro h hne; simp [hne]

example : (step {} (.clear .platform) [] false).2 = 0 := by decide
example : (step {} (.clear .platform) [0x7a] false).2 = RC_BAD_AUTH := by decide

end TpmVerif.Props.C03.Admin
