import TpmVerif.Model.Persist
/-!
  C03 — acknowledged persistent changes are in storage and survive a restart.
  Theorems about the commit protocol (`Model.Persist`), for every image type, every mask, every sequence of
  commands and writes, by induction.
-/
namespace TpmVerif.Props.C03
open TpmVerif.Model.Persist

variable {ι κ : Type}

/-- a write respects the mask if it is a clock-only write: it changes nothing outside the ORDERLY_DATA block -/
def ClockOnly (mask : ι → κ) : Write ι → Prop
  | .nvWrite _ => True
  | .clockWrite f => ∀ x, mask (f x) = mask x

/-- storage and RAM image agree outside the ORDERLY_DATA block, and no commit is pending -/
def Synced (mask : ι → κ) (s : St ι) : Prop :=
  s.updateNV = false ∧ ∃ d, s.disk = some d ∧ mask d = mask s.nv

theorem fold_updateNV (s : St ι) (ws : List (Write ι)) :
    (ws.foldl applyWrite s).updateNV = (s.updateNV || hasNvWrite ws) := by
  induction ws generalizing s with
  | nil => simp [hasNvWrite]
  | cons w ws ih =>
    cases w with
    | nvWrite f => simp [List.foldl, applyWrite, ih, hasNvWrite]
    | clockWrite f => simp [List.foldl, applyWrite, ih, hasNvWrite]

theorem fold_frame (s : St ι) (ws : List (Write ι)) :
    (ws.foldl applyWrite s).disk = s.disk ∧ (ws.foldl applyWrite s).failure = s.failure ∧
    (ws.foldl applyWrite s).stores = s.stores := by
  induction ws generalizing s with
  | nil => simp
  | cons w ws ih => cases w <;> simp [List.foldl, applyWrite, ih]

theorem fold_mask (mask : ι → κ) (s : St ι) (ws : List (Write ι))
    (hc : ∀ w ∈ ws, ClockOnly mask w) (hn : hasNvWrite ws = false) :
    mask (ws.foldl applyWrite s).nv = mask s.nv := by
  induction ws generalizing s with
  | nil => rfl
  | cons w ws ih =>
    cases w with
    | nvWrite f => simp [hasNvWrite] at hn
    | clockWrite f =>
      have h1 : ClockOnly mask (.clockWrite f) := hc _ (List.mem_cons_self)
      simp only [List.foldl, applyWrite]
      rw [ih _ (fun w hw => hc w (List.mem_cons_of_mem _ hw)) (by simpa [hasNvWrite] using hn)]
      exact h1 s.nv

theorem body_spec (s : St ι) (ws : List (Write ι)) :
    (body s ws).updateNV = hasNvWrite ws ∧ (body s ws).disk = s.disk ∧ (body s ws).failure = s.failure ∧
    (body s ws).stores = s.stores := by
  unfold body
  refine ⟨by rw [fold_updateNV]; simp, ?_⟩
  have := fold_frame ({ s with updateNV := false } : St ι) ws
  simpa using this

theorem body_mask (mask : ι → κ) (s : St ι) (ws : List (Write ι))
    (hc : ∀ w ∈ ws, ClockOnly mask w) (hn : hasNvWrite ws = false) : mask (body s ws).nv = mask s.nv := by
  unfold body
  have := fold_mask mask ({ s with updateNV := false } : St ι) ws hc hn
  simpa using this

/-- **acknowledged ⇒ durable**: a command that made a persistent change and did not end in failure mode has handed
    exactly the current image to storage before it returned -/
theorem ack_durable (s : St ι) (ws : List (Write ι)) (ok : Bool) (hf : s.failure = false)
    (hw : hasNvWrite ws = true) (hend : (command s ws ok).failure = false) :
    (command s ws ok).disk = some (command s ws ok).nv ∧ (command s ws ok).stores = s.stores + 1 ∧
    (command s ws ok).updateNV = false := by
  obtain ⟨h1, h2, h3, h4⟩ := body_spec s ws
  unfold command at *
  simp only [hf, Bool.false_eq_true, if_false] at *
  generalize body s ws = s1 at *
  rw [hw] at h1
  simp only [h1, if_true] at *
  cases ok with
  | true => simp [h4]
  | false => simp at hend

/-- a refused commit is never acknowledged: the TPM is in failure mode afterwards and storage is untouched -/
theorem store_refused_is_failure (s : St ι) (ws : List (Write ι)) (hf : s.failure = false) (hw : hasNvWrite ws = true) :
    (command s ws false).failure = true ∧ (command s ws false).disk = s.disk := by
  obtain ⟨h1, h2, h3, h4⟩ := body_spec s ws
  unfold command
  simp only [hf, Bool.false_eq_true, if_false]
  generalize body s ws = s1 at *
  rw [hw] at h1
  simp [h1, h2]

/-- **only Clock and RNG bookkeeping may lag**: a command without a real persistent change does not touch storage,
    and storage still agrees with the image outside the ORDERLY_DATA block -/
theorem clock_only_lags (mask : ι → κ) (s : St ι) (ws : List (Write ι)) (ok : Bool) (hs : Synced mask s)
    (hc : ∀ w ∈ ws, ClockOnly mask w) (hn : hasNvWrite ws = false) :
    (command s ws ok).disk = s.disk ∧ (command s ws ok).stores = s.stores ∧ Synced mask (command s ws ok) := by
  obtain ⟨hu, d, hd, hm⟩ := hs
  obtain ⟨h1, h2, h3, h4⟩ := body_spec s ws
  have hmk := body_mask mask s ws hc hn
  unfold command
  by_cases hf : s.failure
  · simp [hf, Synced, hu, hd, hm]
  · simp only [hf, Bool.false_eq_true, if_false]
    generalize body s ws = s1 at *
    rw [hn] at h1
    simp only [h1, Bool.false_eq_true, if_false]
    exact ⟨h2, h4, h1, d, by rw [h2]; exact hd, by rw [hmk]; exact hm⟩

/-- the invariant `Synced` is kept by every command that does not end in failure mode -/
theorem command_synced (mask : ι → κ) (s : St ι) (ws : List (Write ι)) (ok : Bool) (hs : Synced mask s)
    (hc : ∀ w ∈ ws, ClockOnly mask w) (hend : (command s ws ok).failure = false) :
    Synced mask (command s ws ok) := by
  by_cases hn : hasNvWrite ws = true
  · by_cases hf : s.failure
    · unfold command; simpa [hf] using hs
    · have hf' : s.failure = false := by simpa using hf
      obtain ⟨h1, _, h3⟩ := ack_durable s ws ok hf' hn hend
      exact ⟨h3, _, h1, rfl⟩
  · exact (clock_only_lags mask s ws ok hs hc (by simpa using hn)).2.2

/-- **every history**: after any sequence of commands none of which ended in failure mode, storage agrees with the image
    outside the ORDERLY_DATA block -/
theorem history_synced (mask : ι → κ) (s : St ι) (cmds : List (List (Write ι) × Bool)) (hs : Synced mask s)
    (hc : ∀ c ∈ cmds, ∀ w ∈ c.1, ClockOnly mask w)
    (hend : (cmds.foldl (fun st c => command st c.1 c.2) s).failure = false)
    (hmono : ∀ (st : St ι) (c : List (Write ι) × Bool), st.failure = true → (command st c.1 c.2).failure = true) :
    Synced mask (cmds.foldl (fun st c => command st c.1 c.2) s) := by
  induction cmds generalizing s with
  | nil => exact hs
  | cons c cs ih =>
    simp only [List.foldl] at hend ⊢
    have hfc : (command s c.1 c.2).failure = false := by
      cases hq : (command s c.1 c.2).failure with
      | false => rfl
      | true =>
        exfalso
        have : ∀ (l : List (List (Write ι) × Bool)) (st : St ι), st.failure = true →
            (l.foldl (fun st c => command st c.1 c.2) st).failure = true := by
          intro l; induction l with
          | nil => intro st h; exact h
          | cons x xs ihx => intro st h; exact ihx _ (hmono st x h)
        rw [this cs _ hq] at hend; exact Bool.noConfusion hend
    apply ih _ (command_synced mask s c.1 c.2 hs (hc c List.mem_cons_self) hfc)
      (fun c' hc' => hc c' (List.mem_cons_of_mem _ hc')) hend

/-- failure mode is sticky for the commit protocol (used as `hmono` above) -/
theorem failure_sticky (st : St ι) (c : List (Write ι) × Bool) (h : st.failure = true) :
    (command st c.1 c.2).failure = true := by
  unfold command; simp [h]

/-- **cut and restart**: a TPM restarted from what storage holds has an image that agrees with the pre-cut image
    outside the ORDERLY_DATA block -/
theorem cut_restart (mask : ι → κ) (s : St ι) (hs : Synced mask s) :
    ∃ t, restart s = some t ∧ mask t.nv = mask s.nv := by
  obtain ⟨_, d, hd, hm⟩ := hs
  exact ⟨{ nv := d, disk := some d }, by simp [restart, hd], hm⟩

/-! non-vacuity: a concrete run -/
example : Synced (fun (x : Nat × Nat) => x.1) ({ nv := (1, 5), disk := some (1, 3) } : St (Nat × Nat)) := ⟨rfl, (1, 3), rfl, rfl⟩

end TpmVerif.Props.C03
