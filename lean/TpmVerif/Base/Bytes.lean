/-! Big-endian byte helpers shared by the models (core Lean only). -/
namespace TpmVerif
abbrev Bytes := List UInt8

def be16 (n : Nat) : Bytes := [UInt8.ofNat (n / 256 % 256), UInt8.ofNat (n % 256)]
def be32 (n : Nat) : Bytes :=
  [UInt8.ofNat (n / 16777216 % 256), UInt8.ofNat (n / 65536 % 256), UInt8.ofNat (n / 256 % 256), UInt8.ofNat (n % 256)]
def be64 (n : Nat) : Bytes := be32 (n / 4294967296) ++ be32 (n % 4294967296)

/-- read a big-endian number from exactly the given bytes -/
def beNat (bs : Bytes) : Nat := bs.foldl (fun acc b => acc * 256 + b.toNat) 0

/-- read `n` bytes big-endian at offset `off`; `none` when the buffer is too short -/
def rdBE (bs : Bytes) (off n : Nat) : Option Nat :=
  if off + n ≤ bs.length then some (beNat ((bs.drop off).take n)) else none

theorem be16_length (n : Nat) : (be16 n).length = 2 := rfl
theorem be32_length (n : Nat) : (be32 n).length = 4 := rfl

theorem beNat_be32 (n : Nat) (h : n < 4294967296) : beNat (be32 n) = n := by
  simp only [beNat, be32, List.foldl, UInt8.toNat_ofNat', Nat.reducePow]
  omega

theorem beNat_be16 (n : Nat) (h : n < 65536) : beNat (be16 n) = n := by
  simp only [beNat, be16, List.foldl, UInt8.toNat_ofNat', Nat.reducePow]
  omega

end TpmVerif
