import TpmVerif.Base.Bytes
/-!
  Codec combinators carrying their round-trip proof: a format assembled from them satisfies
  `dec (enc a ++ rest) = some (a, rest)` by construction (DESIGN.md section 6).
  Numbers are `Fin` of the exact width, so encoders are total and injective.
-/
namespace TpmVerif

structure Codec (α : Type) where
  enc : α → Bytes
  dec : Bytes → Option (α × Bytes)
  rt : ∀ (a : α) (rest : Bytes), dec (enc a ++ rest) = some (a, rest)

namespace Codec

/-- decoding what was encoded consumes exactly the encoding: nothing missing, nothing trailing -/
theorem exact {α} (c : Codec α) (a : α) : c.dec (c.enc a) = some (a, []) := by
  have := c.rt a []; simpa using this

/-- encoders are injective (two values with the same encoding are equal) -/
theorem enc_injective {α} (c : Codec α) (a b : α) (h : c.enc a = c.enc b) : a = b := by
  have ha := c.exact a; rw [h, c.exact b] at ha
  exact (Prod.mk.inj (Option.some.inj ha)).1.symm

def u8 : Codec UInt8 where
  enc x := [x]
  dec | x :: rest => some (x, rest) | [] => none
  rt := by intro a rest; rfl

def u16 : Codec (Fin 65536) where
  enc x := be16 x.val
  dec | a :: b :: rest => some (⟨(a.toNat * 256 + b.toNat) % 65536, Nat.mod_lt _ (by decide)⟩, rest) | _ => none
  rt := by
    intro a rest
    simp only [be16, List.cons_append, List.nil_append, UInt8.toNat_ofNat', Nat.reducePow]
    congr 2
    apply Fin.ext
    have := a.isLt
    simp only
    omega

def u32 : Codec (Fin 4294967296) where
  enc x := be32 x.val
  dec | a :: b :: c :: d :: rest =>
        some (⟨(((a.toNat * 256 + b.toNat) * 256 + c.toNat) * 256 + d.toNat) % 4294967296, Nat.mod_lt _ (by decide)⟩, rest)
      | _ => none
  rt := by
    intro a rest
    simp only [be32, List.cons_append, List.nil_append, UInt8.toNat_ofNat', Nat.reducePow]
    congr 2
    apply Fin.ext
    have := a.isLt
    simp only
    omega

/-- two codecs in sequence -/
def seq {α β} (c1 : Codec α) (c2 : Codec β) : Codec (α × β) where
  enc x := c1.enc x.1 ++ c2.enc x.2
  dec bs := match c1.dec bs with
    | none => none
    | some (a, r1) => match c2.dec r1 with
      | none => none
      | some (b, r2) => some ((a, b), r2)
  rt := by
    intro a rest
    simp only [List.append_assoc, c1.rt, c2.rt]

/-- u64 as two u32 halves -/
def u64 : Codec (Fin 4294967296 × Fin 4294967296) := seq u32 u32

/-- a constant that must be present (magic numbers): encodes to fixed bytes, decoding checks them -/
def const32 (v : Fin 4294967296) : Codec Unit where
  enc _ := be32 v.val
  dec bs := match u32.dec bs with
    | some (x, rest) => if x = v then some ((), rest) else none
    | none => none
  rt := by
    intro a rest
    have := u32.rt v rest
    simp only [u32] at this ⊢
    rw [this]; simp

/-- exactly `n` raw bytes -/
def bytesN (n : Nat) : Codec { l : Bytes // l.length = n } where
  enc x := x.val
  dec bs := if h : n ≤ bs.length then some (⟨bs.take n, by simp [List.length_take]; omega⟩, bs.drop n) else none
  rt := by
    intro a rest
    have hl := a.property
    have h : n ≤ (a.val ++ rest).length := by simp [hl]
    simp only [h, dite_true]
    congr 1
    apply Prod.ext
    · apply Subtype.ext; simp [← hl]
    · simp [← hl]

/-- TPM2B: 16-bit length then that many bytes -/
def tpm2b : Codec { l : Bytes // l.length < 65536 } where
  enc x := be16 x.val.length ++ x.val
  dec bs := match u16.dec bs with
    | none => none
    | some (n, r) => if h : n.val ≤ r.length then some (⟨r.take n.val, by simp [List.length_take]; omega⟩, r.drop n.val) else none
  rt := by
    intro a rest
    have hl := a.property
    have h1 := u16.rt ⟨a.val.length, hl⟩ (a.val ++ rest)
    simp only [u16, List.append_assoc] at h1 ⊢
    rw [h1]
    have h : a.val.length ≤ (a.val ++ rest).length := by simp
    simp only [h, dite_true]
    congr 1
    apply Prod.ext
    · apply Subtype.ext; simp
    · simp

/-- libtpms "skip block": presence byte (always 1 here), 16-bit byte count, payload.  The decoder checks the count
    against the buffer BEFORE using it (this is the bound `block_skip_read` lacks in the C code, see C06). -/
def skipBlock {α} (c : Codec α) (h16 : ∀ a, (c.enc a).length < 65536) : Codec α where
  enc x := [1] ++ be16 (c.enc x).length ++ c.enc x
  dec bs := match bs with
    | 1 :: r => match u16.dec r with
      | none => none
      | some (n, r2) =>
        if n.val ≤ r2.length then
          match c.dec (r2.take n.val) with
          | some (a, []) => some (a, r2.drop n.val)
          | _ => none
        else none
    | _ => none
  rt := by
    intro a rest
    have h1 := u16.rt ⟨(c.enc a).length, h16 a⟩ (c.enc a ++ rest)
    simp only [u16, List.cons_append, List.nil_append, List.append_assoc] at h1 ⊢
    rw [h1]
    have h : (c.enc a).length ≤ (c.enc a ++ rest).length := by simp
    simp only [h, if_true, List.take_left', List.drop_left']
    rw [c.exact a]

end Codec
end TpmVerif
