/-
  Trace lines: `kind key=value key=value ...` (DESIGN.md appendix A, simplified).
  Core-only so that the driver links as a lean_exe.
-/
namespace TpmVerif

structure Line where
  kind : String
  args : List (String × String)
deriving Repr, Inhabited

namespace Line

def parse (s : String) : Line :=
  let toks := (s.trimAscii.toString.splitOn " ").filter (· ≠ "")
  match toks with
  | [] => { kind := "", args := [] }
  | k :: rest =>
    { kind := k
      args := rest.map fun t =>
        match t.splitOn "=" with
        | [a] => ("", a)
        | a :: bs => (a, "=".intercalate bs)
        | [] => ("", "") }

def get? (l : Line) (k : String) : Option String := (l.args.find? (·.1 == k)).map (·.2)

def str (l : Line) (k : String) : String := (l.get? k).getD ""

/-- decimal natural, `none` when absent or malformed -/
def nat? (l : Line) (k : String) : Option Nat := (l.get? k).bind String.toNat?

def nat (l : Line) (k : String) : Nat := (l.nat? k).getD 0

def hexDigit (c : Char) : Option Nat :=
  if '0' ≤ c ∧ c ≤ '9' then some (c.toNat - '0'.toNat)
  else if 'a' ≤ c ∧ c ≤ 'f' then some (c.toNat - 'a'.toNat + 10)
  else if 'A' ≤ c ∧ c ≤ 'F' then some (c.toNat - 'A'.toNat + 10)
  else none

def hexBytesAux : List Char → List UInt8 → Option (List UInt8)
  | [], acc => some acc.reverse
  | [_], _ => none
  | a :: b :: rest, acc =>
    match hexDigit a, hexDigit b with
    | some x, some y => hexBytesAux rest (UInt8.ofNat (x * 16 + y) :: acc)
    | _, _ => none

/-- hex byte string; `-` is the empty string -/
def hexBytes (s : String) : Option (List UInt8) :=
  if s == "-" then some [] else hexBytesAux s.toList []

def bytes (l : Line) (k : String) : List UInt8 := ((l.get? k).bind hexBytes).getD []

end Line

def hexOfBytes (bs : List UInt8) : String :=
  let d (n : Nat) : Char := if n < 10 then Char.ofNat (48 + n) else Char.ofNat (87 + n)
  if bs.isEmpty then "-" else
  String.ofList (bs.foldr (fun b acc => d (b.toNat / 16) :: d (b.toNat % 16) :: acc) [])

/-- Result of checking one trace: mismatches (each a human-readable line), events checked,
    and the ids of the model branches taken (for coverage accounting). -/
structure Report where
  mismatches : List String := []
  events : Nat := 0
  branches : List String := []
  notes : List String := []

end TpmVerif
