import TpmVerif.Base.Bytes
/-!
  SHA-1, SHA-256, SHA-384, SHA-512 (FIPS 180-4), HMAC (FIPS 198-1) and KDFa (SP800-108 counter mode as used by TPM 2)
  as executable Lean definitions.  Each hash is given in *streaming* form — a state `(h, buffered bytes, total length)`
  with `update`/`final` — which is the shape libtpms keeps and serialises; the one-shot function is `final (update init m)`.
  Validated against FIPS vectors (`example … := by decide`/`native`-free `rfl` tests in Props.C13) and against the TPM.
-/
namespace TpmVerif.Crypto
open TpmVerif

/-! ### 32-bit family: SHA-1 and SHA-256 -/

def be32w (bs : Bytes) (i : Nat) : UInt32 :=
  (bs.getD i 0).toUInt32 <<< 24 ||| (bs.getD (i+1) 0).toUInt32 <<< 16 ||| (bs.getD (i+2) 0).toUInt32 <<< 8 ||| (bs.getD (i+3) 0).toUInt32
def w32bytes (w : UInt32) : Bytes := [(w >>> 24).toUInt8, (w >>> 16).toUInt8, (w >>> 8).toUInt8, w.toUInt8]
def rotr32 (x : UInt32) (n : UInt32) : UInt32 := (x >>> n) ||| (x <<< (32 - n))
def rotl32 (x : UInt32) (n : UInt32) : UInt32 := (x <<< n) ||| (x >>> (32 - n))

def k256 : Array UInt32 := #[
  0x428a2f98,0x71374491,0xb5c0fbcf,0xe9b5dba5,0x3956c25b,0x59f111f1,0x923f82a4,0xab1c5ed5,
  0xd807aa98,0x12835b01,0x243185be,0x550c7dc3,0x72be5d74,0x80deb1fe,0x9bdc06a7,0xc19bf174,
  0xe49b69c1,0xefbe4786,0x0fc19dc6,0x240ca1cc,0x2de92c6f,0x4a7484aa,0x5cb0a9dc,0x76f988da,
  0x983e5152,0xa831c66d,0xb00327c8,0xbf597fc7,0xc6e00bf3,0xd5a79147,0x06ca6351,0x14292967,
  0x27b70a85,0x2e1b2138,0x4d2c6dfc,0x53380d13,0x650a7354,0x766a0abb,0x81c2c92e,0x92722c85,
  0xa2bfe8a1,0xa81a664b,0xc24b8b70,0xc76c51a3,0xd192e819,0xd6990624,0xf40e3585,0x106aa070,
  0x19a4c116,0x1e376c08,0x2748774c,0x34b0bcb5,0x391c0cb3,0x4ed8aa4a,0x5b9cca4f,0x682e6ff3,
  0x748f82ee,0x78a5636f,0x84c87814,0x8cc70208,0x90befffa,0xa4506ceb,0xbef9a3f7,0xc67178f2]

/-- SHA-256 compression of one 64-byte block -/
def compress256 (h : Array UInt32) (block : Bytes) : Array UInt32 :=
  let w0 : Array UInt32 := (List.range 16).foldl (fun a i => a.push (be32w block (4 * i))) #[]
  let w := (List.range 48).foldl (fun (a : Array UInt32) i =>
    let t := i + 16
    let x15 := a.getD (t - 15) 0; let x2 := a.getD (t - 2) 0
    let s0 := rotr32 x15 7 ^^^ rotr32 x15 18 ^^^ (x15 >>> 3)
    let s1 := rotr32 x2 17 ^^^ rotr32 x2 19 ^^^ (x2 >>> 10)
    a.push (a.getD (t - 16) 0 + s0 + a.getD (t - 7) 0 + s1)) w0
  let init := (h.getD 0 0, h.getD 1 0, h.getD 2 0, h.getD 3 0, h.getD 4 0, h.getD 5 0, h.getD 6 0, h.getD 7 0)
  let (a, b, c, d, e, f, g, hh) := (List.range 64).foldl (fun (st : UInt32 × UInt32 × UInt32 × UInt32 × UInt32 × UInt32 × UInt32 × UInt32) i =>
    let (a, b, c, d, e, f, g, hh) := st
    let s1 := rotr32 e 6 ^^^ rotr32 e 11 ^^^ rotr32 e 25
    let ch := (e &&& f) ^^^ ((~~~ e) &&& g)
    let t1 := hh + s1 + ch + k256.getD i 0 + w.getD i 0
    let s0 := rotr32 a 2 ^^^ rotr32 a 13 ^^^ rotr32 a 22
    let maj := (a &&& b) ^^^ (a &&& c) ^^^ (b &&& c)
    (t1 + s0 + maj, a, b, c, d + t1, e, f, g)) init
  #[h.getD 0 0 + a, h.getD 1 0 + b, h.getD 2 0 + c, h.getD 3 0 + d, h.getD 4 0 + e, h.getD 5 0 + f, h.getD 6 0 + g, h.getD 7 0 + hh]

/-- SHA-1 compression -/
def compress1 (h : Array UInt32) (block : Bytes) : Array UInt32 :=
  let w0 : Array UInt32 := (List.range 16).foldl (fun a i => a.push (be32w block (4 * i))) #[]
  let w := (List.range 64).foldl (fun (a : Array UInt32) i =>
    let t := i + 16
    a.push (rotl32 (a.getD (t - 3) 0 ^^^ a.getD (t - 8) 0 ^^^ a.getD (t - 14) 0 ^^^ a.getD (t - 16) 0) 1)) w0
  let init := (h.getD 0 0, h.getD 1 0, h.getD 2 0, h.getD 3 0, h.getD 4 0)
  let (a, b, c, d, e) := (List.range 80).foldl (fun (st : UInt32 × UInt32 × UInt32 × UInt32 × UInt32) i =>
    let (a, b, c, d, e) := st
    let (f, k) : UInt32 × UInt32 :=
      if i < 20 then ((b &&& c) ||| ((~~~ b) &&& d), 0x5A827999)
      else if i < 40 then (b ^^^ c ^^^ d, 0x6ED9EBA1)
      else if i < 60 then ((b &&& c) ||| (b &&& d) ||| (c &&& d), 0x8F1BBCDC)
      else (b ^^^ c ^^^ d, 0xCA62C1D6)
    (rotl32 a 5 + f + e + k + w.getD i 0, a, rotl32 b 30, c, d)) init
  #[h.getD 0 0 + a, h.getD 1 0 + b, h.getD 2 0 + c, h.getD 3 0 + d, h.getD 4 0 + e]

/-! ### 64-bit family: SHA-512 / SHA-384 -/

def be64w (bs : Bytes) (i : Nat) : UInt64 :=
  (List.range 8).foldl (fun acc k => (acc <<< 8) ||| (bs.getD (i + k) 0).toUInt64) 0
def w64bytes (w : UInt64) : Bytes := (List.range 8).map (fun k => (w >>> (56 - 8 * k.toUInt64)).toUInt8)
def rotr64 (x : UInt64) (n : UInt64) : UInt64 := (x >>> n) ||| (x <<< (64 - n))

def k512 : Array UInt64 := #[
  0x428a2f98d728ae22,0x7137449123ef65cd,0xb5c0fbcfec4d3b2f,0xe9b5dba58189dbbc,0x3956c25bf348b538,0x59f111f1b605d019,0x923f82a4af194f9b,0xab1c5ed5da6d8118,
  0xd807aa98a3030242,0x12835b0145706fbe,0x243185be4ee4b28c,0x550c7dc3d5ffb4e2,0x72be5d74f27b896f,0x80deb1fe3b1696b1,0x9bdc06a725c71235,0xc19bf174cf692694,
  0xe49b69c19ef14ad2,0xefbe4786384f25e3,0x0fc19dc68b8cd5b5,0x240ca1cc77ac9c65,0x2de92c6f592b0275,0x4a7484aa6ea6e483,0x5cb0a9dcbd41fbd4,0x76f988da831153b5,
  0x983e5152ee66dfab,0xa831c66d2db43210,0xb00327c898fb213f,0xbf597fc7beef0ee4,0xc6e00bf33da88fc2,0xd5a79147930aa725,0x06ca6351e003826f,0x142929670a0e6e70,
  0x27b70a8546d22ffc,0x2e1b21385c26c926,0x4d2c6dfc5ac42aed,0x53380d139d95b3df,0x650a73548baf63de,0x766a0abb3c77b2a8,0x81c2c92e47edaee6,0x92722c851482353b,
  0xa2bfe8a14cf10364,0xa81a664bbc423001,0xc24b8b70d0f89791,0xc76c51a30654be30,0xd192e819d6ef5218,0xd69906245565a910,0xf40e35855771202a,0x106aa07032bbd1b8,
  0x19a4c116b8d2d0c8,0x1e376c085141ab53,0x2748774cdf8eeb99,0x34b0bcb5e19b48a8,0x391c0cb3c5c95a63,0x4ed8aa4ae3418acb,0x5b9cca4f7763e373,0x682e6ff3d6b2b8a3,
  0x748f82ee5defb2fc,0x78a5636f43172f60,0x84c87814a1f0ab72,0x8cc702081a6439ec,0x90befffa23631e28,0xa4506cebde82bde9,0xbef9a3f7b2c67915,0xc67178f2e372532b,
  0xca273eceea26619c,0xd186b8c721c0c207,0xeada7dd6cde0eb1e,0xf57d4f7fee6ed178,0x06f067aa72176fba,0x0a637dc5a2c898a6,0x113f9804bef90dae,0x1b710b35131c471b,
  0x28db77f523047d84,0x32caab7b40c72493,0x3c9ebe0a15c9bebc,0x431d67c49c100d4c,0x4cc5d4becb3e42b6,0x597f299cfc657e2a,0x5fcb6fab3ad6faec,0x6c44198c4a475817]

def compress512 (h : Array UInt64) (block : Bytes) : Array UInt64 :=
  let w0 : Array UInt64 := (List.range 16).foldl (fun a i => a.push (be64w block (8 * i))) #[]
  let w := (List.range 64).foldl (fun (a : Array UInt64) i =>
    let t := i + 16
    let x15 := a.getD (t - 15) 0; let x2 := a.getD (t - 2) 0
    let s0 := rotr64 x15 1 ^^^ rotr64 x15 8 ^^^ (x15 >>> 7)
    let s1 := rotr64 x2 19 ^^^ rotr64 x2 61 ^^^ (x2 >>> 6)
    a.push (a.getD (t - 16) 0 + s0 + a.getD (t - 7) 0 + s1)) w0
  let init := (h.getD 0 0, h.getD 1 0, h.getD 2 0, h.getD 3 0, h.getD 4 0, h.getD 5 0, h.getD 6 0, h.getD 7 0)
  let (a, b, c, d, e, f, g, hh) := (List.range 80).foldl (fun (st : UInt64 × UInt64 × UInt64 × UInt64 × UInt64 × UInt64 × UInt64 × UInt64) i =>
    let (a, b, c, d, e, f, g, hh) := st
    let s1 := rotr64 e 14 ^^^ rotr64 e 18 ^^^ rotr64 e 41
    let ch := (e &&& f) ^^^ ((~~~ e) &&& g)
    let t1 := hh + s1 + ch + k512.getD i 0 + w.getD i 0
    let s0 := rotr64 a 28 ^^^ rotr64 a 34 ^^^ rotr64 a 39
    let maj := (a &&& b) ^^^ (a &&& c) ^^^ (b &&& c)
    (t1 + s0 + maj, a, b, c, d + t1, e, f, g)) init
  #[h.getD 0 0 + a, h.getD 1 0 + b, h.getD 2 0 + c, h.getD 3 0 + d, h.getD 4 0 + e, h.getD 5 0 + f, h.getD 6 0 + g, h.getD 7 0 + hh]

/-! ### Generic streaming hash -/

/-- a Merkle–Damgård hash: block size, state type, compression, padding length field width, output -/
structure Alg where
  name : String
  tpmId : Nat
  block : Nat
  lenBytes : Nat               -- 8 for the 32-bit family, 16 for the 64-bit family
  S : Type
  iv : S
  compress : S → Bytes → S
  out : S → Bytes

/-- streaming state as libtpms keeps it: chaining value, bytes not yet compressed (`< block`), total bytes so far -/
structure HState (a : Alg) where
  h : a.S
  buf : Bytes
  total : Nat

def hinit (a : Alg) : HState a := { h := a.iv, buf := [], total := 0 }

/-- absorb all complete blocks of `bs` (fuel = number of blocks, so the recursion is structural) -/
def absorb (a : Alg) (h : a.S) (bs : Bytes) : Nat → a.S × Bytes
  | 0 => (h, bs)
  | n + 1 => if bs.length < a.block then (h, bs) else absorb a (a.compress h (bs.take a.block)) (bs.drop a.block) n

def update (a : Alg) (s : HState a) (m : Bytes) : HState a :=
  let all := s.buf ++ m
  let (h, rest) := absorb a s.h all (all.length / a.block + 1)
  { h := h, buf := rest, total := s.total + m.length }

def lenField (n : Nat) (width : Nat) : Bytes := (List.range width).map (fun i => UInt8.ofNat ((n * 8) / 256 ^ (width - 1 - i) % 256))

def final (a : Alg) (s : HState a) : Bytes :=
  let padLen := (a.block + a.block - 1 - a.lenBytes - s.buf.length % a.block) % a.block
  let tail := s.buf ++ [0x80] ++ List.replicate padLen 0 ++ lenField s.total a.lenBytes
  let (h, _) := absorb a s.h tail (tail.length / a.block + 1)
  a.out h

def hash (a : Alg) (m : Bytes) : Bytes := final a (update a (hinit a) m)

def sha1 : Alg where
  name := "sha1"
  tpmId := 0x0004
  block := 64
  lenBytes := 8
  S := Array UInt32
  iv := #[0x67452301, 0xEFCDAB89, 0x98BADCFE, 0x10325476, 0xC3D2E1F0]
  compress := compress1
  out := fun h => (h.toList.map w32bytes).flatten

def sha256 : Alg where
  name := "sha256"
  tpmId := 0x000B
  block := 64
  lenBytes := 8
  S := Array UInt32
  iv := #[0x6a09e667,0xbb67ae85,0x3c6ef372,0xa54ff53a,0x510e527f,0x9b05688c,0x1f83d9ab,0x5be0cd19]
  compress := compress256
  out := fun h => (h.toList.map w32bytes).flatten

def sha512 : Alg where
  name := "sha512"
  tpmId := 0x000D
  block := 128
  lenBytes := 16
  S := Array UInt64
  iv := #[0x6a09e667f3bcc908,0xbb67ae8584caa73b,0x3c6ef372fe94f82b,0xa54ff53a5f1d36f1,0x510e527fade682d1,0x9b05688c2b3e6c1f,0x1f83d9abfb41bd6b,0x5be0cd19137e2179]
  compress := compress512
  out := fun h => (h.toList.map w64bytes).flatten

def sha384 : Alg where
  name := "sha384"
  tpmId := 0x000C
  block := 128
  lenBytes := 16
  S := Array UInt64
  iv := #[0xcbbb9d5dc1059ed8,0x629a292a367cd507,0x9159015a3070dd17,0x152fecd8f70e5939,0x67332667ffc00b31,0x8eb44a8768581511,0xdb0c2e0d64f98fa7,0x47b5481dbefa4fa4]
  compress := compress512
  out := fun h => ((h.toList.map w64bytes).flatten).take 48

def algOfId (id : Nat) : Option Alg :=
  if id = 0x0004 then some sha1 else if id = 0x000B then some sha256 else if id = 0x000C then some sha384
  else if id = 0x000D then some sha512 else none

def digestLen (a : Alg) : Nat := (a.out a.iv).length

/-! ### HMAC and KDFa -/

def xorPad (key : Bytes) (block : Nat) (c : UInt8) : Bytes :=
  (key ++ List.replicate (block - key.length) 0).map (· ^^^ c)

def hmac (a : Alg) (key msg : Bytes) : Bytes :=
  let k := if key.length > a.block then hash a key else key
  hash a (xorPad k a.block 0x5c ++ hash a (xorPad k a.block 0x36 ++ msg))

/-- TPM 2 KDFa: HMAC(key, counter ‖ label ‖ 00 ‖ contextU ‖ contextV ‖ bits), counter from 1, `bits` output bits -/
def kdfa (a : Alg) (key : Bytes) (label : String) (ctxU ctxV : Bytes) (bits : Nat) : Bytes :=
  let dl := digestLen a
  let bytes := (bits + 7) / 8
  let blocks := (bytes + dl - 1) / dl
  let out := (List.range blocks).foldl (fun acc i =>
    acc ++ hmac a key (be32 (i + 1) ++ label.toUTF8.toList ++ [0] ++ ctxU ++ ctxV ++ be32 bits)) []
  out.take bytes

end TpmVerif.Crypto
