import TpmVerif.Base.Bytes
/-!
  AES (FIPS 197) forward cipher for 128/192/256-bit keys, the block-cipher modes of `CryptSym.c` generic over a block
  function, RSA public operation and P-256 affine arithmetic for ECDSA verification — the independent reference for C13.
-/
namespace TpmVerif.Crypto
open TpmVerif

def xtime (b : UInt8) : UInt8 := (b <<< 1) ^^^ (if b &&& 0x80 ≠ 0 then 0x1b else 0)

/-- GF(2^8) multiplication -/
def gmul (a b : UInt8) : UInt8 :=
  let step := fun (st : UInt8 × UInt8 × UInt8) (_ : Nat) =>
    let (acc, a, b) := st
    ((if b &&& 1 ≠ 0 then acc ^^^ a else acc), xtime a, b >>> 1)
  ((List.range 8).foldl step (0, a, b)).1

/-- multiplicative inverse in GF(2^8) by exponentiation (x^254) -/
def ginv (a : UInt8) : UInt8 := (List.range 253).foldl (fun acc _ => gmul acc a) a

def rotl8 (x : UInt8) (n : UInt8) : UInt8 := (x <<< n) ||| (x >>> (8 - n))

/-- the AES S-box computed from its definition (inverse followed by the affine map) -/
def sboxVal (x : UInt8) : UInt8 :=
  let i := if x = 0 then 0 else ginv x
  i ^^^ rotl8 i 1 ^^^ rotl8 i 2 ^^^ rotl8 i 3 ^^^ rotl8 i 4 ^^^ 0x63

def sbox : Array UInt8 := (List.range 256).foldl (fun a i => a.push (sboxVal (UInt8.ofNat i))) #[]
def sb (x : UInt8) : UInt8 := sbox.getD x.toNat 0

/-- key expansion: list of 4-byte words -/
def keyExpand (key : Bytes) : Array Bytes :=
  let nk := key.length / 4
  let nr := nk + 6
  let w0 : Array Bytes := (List.range nk).foldl (fun a i => a.push ((key.drop (4 * i)).take 4)) #[]
  let (w, _) := (List.range (4 * (nr + 1) - nk)).foldl (fun (st : Array Bytes × UInt8) j =>
    let (w, rcon) := st
    let i := j + nk
    let prev := w.getD (i - 1) []
    let (t, rcon) :=
      if i % nk = 0 then
        let r := prev.drop 1 ++ prev.take 1
        let s := r.map sb
        (([s.getD 0 0 ^^^ rcon] ++ s.drop 1), xtime rcon)
      else if nk > 6 ∧ i % nk = 4 then (prev.map sb, rcon)
      else (prev, rcon)
    (w.push (List.zipWith (· ^^^ ·) (w.getD (i - nk) []) t), rcon)) (w0, 1)
  w

def addRoundKey (st : Bytes) (w : Array Bytes) (round : Nat) : Bytes :=
  List.zipWith (· ^^^ ·) st ((List.range 4).foldl (fun acc c => acc ++ w.getD (4 * round + c) []) [])

/-- state is column-major: byte index = 4*col + row -/
def shiftRows (s : Bytes) : Bytes :=
  (List.range 16).map (fun i => let c := i / 4; let r := i % 4; s.getD (4 * ((c + r) % 4) + r) 0)

def mixColumns (s : Bytes) : Bytes :=
  ((List.range 4).map (fun c =>
    let a0 := s.getD (4*c) 0; let a1 := s.getD (4*c+1) 0; let a2 := s.getD (4*c+2) 0; let a3 := s.getD (4*c+3) 0
    [gmul 2 a0 ^^^ gmul 3 a1 ^^^ a2 ^^^ a3, a0 ^^^ gmul 2 a1 ^^^ gmul 3 a2 ^^^ a3,
     a0 ^^^ a1 ^^^ gmul 2 a2 ^^^ gmul 3 a3, gmul 3 a0 ^^^ a1 ^^^ a2 ^^^ gmul 2 a3])).flatten

/-- AES encryption of one 16-byte block -/
def aesEncryptBlock (key : Bytes) (block : Bytes) : Bytes :=
  let w := keyExpand key
  let nr := key.length / 4 + 6
  let s := addRoundKey block w 0
  let s := (List.range (nr - 1)).foldl (fun s r => addRoundKey (mixColumns (shiftRows (s.map sb))) w (r + 1)) s
  addRoundKey (shiftRows (s.map sb)) w nr

/-! ### Modes, generic over the block function `E` (16-byte blocks) -/

def xorB (a b : Bytes) : Bytes := List.zipWith (· ^^^ ·) a b

def chunks16 : Bytes → Nat → List Bytes
  | _, 0 => []
  | bs, n + 1 => if bs.isEmpty then [] else bs.take 16 :: chunks16 (bs.drop 16) n

/-- CFB encryption: returns (ciphertext, iv out) — partial last block allowed; iv out = last cipher block zero-padded -/
def cfbEncrypt (E : Bytes → Bytes) (iv : Bytes) (pt : Bytes) : Bytes × Bytes :=
  (chunks16 pt (pt.length / 16 + 1)).foldl (fun (st : Bytes × Bytes) blk =>
    let (out, iv) := st
    let c := xorB blk (E iv)
    (out ++ c, c ++ List.replicate (16 - c.length) 0)) ([], iv)

def cfbDecrypt (E : Bytes → Bytes) (iv : Bytes) (ct : Bytes) : Bytes × Bytes :=
  (chunks16 ct (ct.length / 16 + 1)).foldl (fun (st : Bytes × Bytes) blk =>
    let (out, iv) := st
    (out ++ xorB blk (E iv), blk ++ List.replicate (16 - blk.length) 0)) ([], iv)

def ofb (E : Bytes → Bytes) (iv : Bytes) (pt : Bytes) : Bytes × Bytes :=
  (chunks16 pt (pt.length / 16 + 1)).foldl (fun (st : Bytes × Bytes) blk =>
    let (out, iv) := st
    let ks := E iv
    (out ++ xorB blk ks, ks)) ([], iv)

def incCtr (ctr : Bytes) : Bytes :=
  let n := (beNat ctr + 1) % 2 ^ 128
  (List.range 16).map (fun i => UInt8.ofNat (n / 256 ^ (15 - i) % 256))

def ctr (E : Bytes → Bytes) (iv : Bytes) (pt : Bytes) : Bytes × Bytes :=
  (chunks16 pt (pt.length / 16 + 1)).foldl (fun (st : Bytes × Bytes) blk =>
    let (out, c) := st
    (out ++ xorB blk (E c), incCtr c)) ([], iv)

def cbcEncrypt (E : Bytes → Bytes) (iv : Bytes) (pt : Bytes) : Bytes × Bytes :=
  (chunks16 pt (pt.length / 16 + 1)).foldl (fun (st : Bytes × Bytes) blk =>
    let (out, iv) := st
    let c := E (xorB blk iv)
    (out ++ c, c)) ([], iv)

def ecbEncrypt (E : Bytes → Bytes) (pt : Bytes) : Bytes :=
  ((chunks16 pt (pt.length / 16 + 1)).map E).flatten

/-! ### RSA public operation and P-256 -/

def modPow (b e m : Nat) : Nat :=
  if m ≤ 1 then 0 else
  let rec go (b e acc : Nat) (fuel : Nat) : Nat :=
    match fuel with
    | 0 => acc
    | f + 1 => if e = 0 then acc else go (b * b % m) (e / 2) (if e % 2 = 1 then acc * b % m else acc) f
  go (b % m) e 1 (e.log2 + 2)

def natToBytes (n len : Nat) : Bytes := (List.range len).map (fun i => UInt8.ofNat (n / 256 ^ (len - 1 - i) % 256))

namespace P256
def p : Nat := 0xffffffff00000001000000000000000000000000ffffffffffffffffffffffff
def a : Nat := p - 3
def b : Nat := 0x5ac635d8aa3a93e7b3ebbd55769886bc651d06b0cc53b0f63bce3c3e27d2604b
def n : Nat := 0xffffffff00000000ffffffffffffffffbce6faada7179e84f3b9cac2fc632551
def gx : Nat := 0x6b17d1f2e12c4247f8bce6e563a440f277037d812deb33a0f4a13945d898c296
def gy : Nat := 0x4fe342e2fe1a7f9b8ee7eb4a7c0f9e162bce33576b315ececbb6406837bf51f5

def inv (x m : Nat) : Nat := modPow x (m - 2) m
/-- affine points; `none` is the point at infinity -/
abbrev Pt := Option (Nat × Nat)
def add (P Q : Pt) : Pt :=
  match P, Q with
  | none, q => q
  | p', none => p'
  | some (x1, y1), some (x2, y2) =>
    if x1 = x2 ∧ (y1 + y2) % p = 0 then none else
    let l := if x1 = x2 ∧ y1 = y2 then (3 * x1 * x1 + a) % p * inv (2 * y1 % p) p % p
             else (y2 + p - y1) % p * inv ((x2 + p - x1) % p) p % p
    let x3 := (l * l + 2 * p - x1 - x2) % p
    some (x3, (l * ((x1 + p - x3) % p) + p - y1) % p)
def mul (k : Nat) (P : Pt) : Pt :=
  let rec go (k : Nat) (P acc : Pt) (fuel : Nat) : Pt :=
    match fuel with
    | 0 => acc
    | f + 1 => if k = 0 then acc else go (k / 2) (add P P) (if k % 2 = 1 then add acc P else acc) f
  go k P none (k.log2 + 2)
def onCurve (x y : Nat) : Bool := x < p && y < p && (y * y) % p == (x * x % p * x + a * x + b) % p
/-- ECDSA verification (FIPS 186-4) of digest `e` (as a number, already truncated to 256 bits) -/
def ecdsaVerify (qx qy e r s : Nat) : Bool :=
  if r = 0 ∨ r ≥ n ∨ s = 0 ∨ s ≥ n ∨ !onCurve qx qy then false else
  let w := inv s n
  let u1 := e % n * w % n; let u2 := r * w % n
  match add (mul u1 (some (gx, gy))) (mul u2 (some (qx, qy))) with
  | none => false
  | some (x, _) => x % n == r
end P256

end TpmVerif.Crypto
