import TpmVerif.Crypto.Sha
import TpmVerif.Crypto.Aes
/-!
  Asymmetric reference, written from the standards (SEC 1 / FIPS 186-4 / PKCS #1 v2.2), not from the C code:

  * short Weierstrass curves over a prime field, generic in the curve (`Curve`): point addition, scalar multiplication,
    ECDSA verification with the digest truncated to the bit length of the group order, ECDH (`d · Q`).
    The curve constants are those of the named curves (NIST P-192/224/256/384/521, SM2 P-256, BN P-256); each is checked
    in Props.C13 to have its generator on the curve.
  * PKCS #1: MGF1, EME-OAEP decoding, EME-PKCS1-v1_5 decoding, EMSA-PSS verification, EMSA-PKCS1-v1_5 encoding for the
    four TPM hashes.
  * block-mode constructions generic in the block size (for the 8-byte TDES block and the 16-byte Camellia block).
-/
namespace TpmVerif.Crypto
open TpmVerif

structure Curve where
  id : Nat
  p : Nat
  a : Nat
  b : Nat
  n : Nat
  gx : Nat
  gy : Nat

namespace Curve
abbrev Pt := Option (Nat × Nat)

/-- modular inverse by the extended Euclidean algorithm (`m` prime, `x` not a multiple of `m`; 0 otherwise) -/
def inv (x m : Nat) : Nat :=
  let rec go (r0 r1 : Nat) (t0 t1 : Int) (fuel : Nat) : Int :=
    match fuel with
    | 0 => t0
    | f + 1 => if r1 = 0 then (if r0 = 1 then t0 else 0) else go r1 (r0 % r1) t1 (t0 - (r0 / r1 : Nat) * t1) f
  ((go m (x % m) 0 1 (2 * m.log2 + 4)) % (m : Int)).toNat

def add (c : Curve) (P Q : Pt) : Pt :=
  match P, Q with
  | none, q => q
  | p', none => p'
  | some (x1, y1), some (x2, y2) =>
    if x1 = x2 ∧ (y1 + y2) % c.p = 0 then none else
    let l := if x1 = x2 ∧ y1 = y2 then (3 * x1 * x1 + c.a) % c.p * inv (2 * y1 % c.p) c.p % c.p
             else (y2 + c.p - y1) % c.p * inv ((x2 + c.p - x1) % c.p) c.p % c.p
    let x3 := (l * l + 2 * c.p - x1 - x2) % c.p
    some (x3, (l * ((x1 + c.p - x3) % c.p) + c.p - y1) % c.p)

def mul (c : Curve) (k : Nat) (P : Pt) : Pt :=
  let rec go (k : Nat) (P acc : Pt) (fuel : Nat) : Pt :=
    match fuel with
    | 0 => acc
    | f + 1 => if k = 0 then acc else go (k / 2) (c.add P P) (if k % 2 = 1 then c.add acc P else acc) f
  go k P none (k.log2 + 2)

def onCurve (c : Curve) (x y : Nat) : Bool :=
  x < c.p && y < c.p && (y * y) % c.p == (x * x % c.p * x + c.a * x + c.b) % c.p

def G (c : Curve) : Pt := some (c.gx, c.gy)
def nbits (c : Curve) : Nat := c.n.log2 + 1
/-- coordinate size in bytes -/
def csize (c : Curve) : Nat := (c.p.log2 + 8) / 8

/-- the digest as the integer ECDSA uses: its leftmost `nbits` bits -/
def digestInt (c : Curve) (digest : Bytes) : Nat :=
  let e := beNat digest
  if 8 * digest.length > c.nbits then e >>> (8 * digest.length - c.nbits) else e

def ecdsaVerify (c : Curve) (qx qy : Nat) (digest : Bytes) (r s : Nat) : Bool :=
  if r = 0 ∨ r ≥ c.n ∨ s = 0 ∨ s ≥ c.n ∨ !c.onCurve qx qy then false else
  let w := inv s c.n
  let e := c.digestInt digest
  let u1 := e % c.n * w % c.n; let u2 := r * w % c.n
  match c.add (c.mul u1 c.G) (c.mul u2 (some (qx, qy))) with
  | none => false
  | some (x, _) => x % c.n == r
end Curve

def p192 : Curve := { id := 1, p := 0xFFFFFFFFFFFFFFFFFFFFFFFFFFFFFFFEFFFFFFFFFFFFFFFF, a := 0xFFFFFFFFFFFFFFFFFFFFFFFFFFFFFFFEFFFFFFFFFFFFFFFC, b := 0x64210519E59C80E70FA7E9AB72243049FEB8DEECC146B9B1, n := 0xFFFFFFFFFFFFFFFFFFFFFFFF99DEF836146BC9B1B4D22831, gx := 0x188DA80EB03090F67CBF20EB43A18800F4FF0AFD82FF1012, gy := 0x07192B95FFC8DA78631011ED6B24CDD573F977A11E794811 }
def p224 : Curve := { id := 2, p := 0xFFFFFFFFFFFFFFFFFFFFFFFFFFFFFFFF000000000000000000000001, a := 0xFFFFFFFFFFFFFFFFFFFFFFFFFFFFFFFEFFFFFFFFFFFFFFFFFFFFFFFE, b := 0xB4050A850C04B3ABF54132565044B0B7D7BFD8BA270B39432355FFB4, n := 0xFFFFFFFFFFFFFFFFFFFFFFFFFFFF16A2E0B8F03E13DD29455C5C2A3D, gx := 0xB70E0CBD6BB4BF7F321390B94A03C1D356C21122343280D6115C1D21, gy := 0xBD376388B5F723FB4C22DFE6CD4375A05A07476444D5819985007E34 }
def p256 : Curve := { id := 3, p := 0xFFFFFFFF00000001000000000000000000000000FFFFFFFFFFFFFFFFFFFFFFFF, a := 0xFFFFFFFF00000001000000000000000000000000FFFFFFFFFFFFFFFFFFFFFFFC, b := 0x5AC635D8AA3A93E7B3EBBD55769886BC651D06B0CC53B0F63BCE3C3E27D2604B, n := 0xFFFFFFFF00000000FFFFFFFFFFFFFFFFBCE6FAADA7179E84F3B9CAC2FC632551, gx := 0x6B17D1F2E12C4247F8BCE6E563A440F277037D812DEB33A0F4A13945D898C296, gy := 0x4FE342E2FE1A7F9B8EE7EB4A7C0F9E162BCE33576B315ECECBB6406837BF51F5 }
def p384 : Curve := { id := 4, p := 0xFFFFFFFFFFFFFFFFFFFFFFFFFFFFFFFFFFFFFFFFFFFFFFFFFFFFFFFFFFFFFFFEFFFFFFFF0000000000000000FFFFFFFF, a := 0xFFFFFFFFFFFFFFFFFFFFFFFFFFFFFFFFFFFFFFFFFFFFFFFFFFFFFFFFFFFFFFFEFFFFFFFF0000000000000000FFFFFFFC, b := 0xB3312FA7E23EE7E4988E056BE3F82D19181D9C6EFE8141120314088F5013875AC656398D8A2ED19D2A85C8EDD3EC2AEF, n := 0xFFFFFFFFFFFFFFFFFFFFFFFFFFFFFFFFFFFFFFFFFFFFFFFFC7634D81F4372DDF581A0DB248B0A77AECEC196ACCC52973, gx := 0xAA87CA22BE8B05378EB1C71EF320AD746E1D3B628BA79B9859F741E082542A385502F25DBF55296C3A545E3872760AB7, gy := 0x3617DE4A96262C6F5D9E98BF9292DC29F8F41DBD289A147CE9DA3113B5F0B8C00A60B1CE1D7E819D7A431D7C90EA0E5F }
def p521 : Curve := { id := 5, p := 0x01FFFFFFFFFFFFFFFFFFFFFFFFFFFFFFFFFFFFFFFFFFFFFFFFFFFFFFFFFFFFFFFFFFFFFFFFFFFFFFFFFFFFFFFFFFFFFFFFFFFFFFFFFFFFFFFFFFFFFFFFFFFFFFFFFF, a := 0x01FFFFFFFFFFFFFFFFFFFFFFFFFFFFFFFFFFFFFFFFFFFFFFFFFFFFFFFFFFFFFFFFFFFFFFFFFFFFFFFFFFFFFFFFFFFFFFFFFFFFFFFFFFFFFFFFFFFFFFFFFFFFFFFFFC, b := 0x51953EB9618E1C9A1F929A21A0B68540EEA2DA725B99B315F3B8B489918EF109E156193951EC7E937B1652C0BD3BB1BF073573DF883D2C34F1EF451FD46B503F00, n := 0x01FFFFFFFFFFFFFFFFFFFFFFFFFFFFFFFFFFFFFFFFFFFFFFFFFFFFFFFFFFFFFFFFFA51868783BF2F966B7FCC0148F709A5D03BB5C9B8899C47AEBB6FB71E91386409, gx := 0xC6858E06B70404E9CD9E3ECB662395B4429C648139053FB521F828AF606B4D3DBAA14B5E77EFE75928FE1DC127A2FFA8DE3348B3C1856A429BF97E7E31C2E5BD66, gy := 0x011839296A789A3BC0045C8A5FB42C7D1BD998F54449579B446817AFBD17273E662C97EE72995EF42640C550B9013FAD0761353C7086A272C24088BE94769FD16650 }
def sm2p256 : Curve := { id := 32, p := 0xFFFFFFFEFFFFFFFFFFFFFFFFFFFFFFFFFFFFFFFF00000000FFFFFFFFFFFFFFFF, a := 0xFFFFFFFEFFFFFFFFFFFFFFFFFFFFFFFFFFFFFFFF00000000FFFFFFFFFFFFFFFC, b := 0x28E9FA9E9D9F5E344D5A9E4BCF6509A7F39789F515AB8F92DDBCBD414D940E93, n := 0xFFFFFFFEFFFFFFFFFFFFFFFFFFFFFFFF7203DF6B21C6052B53BBF40939D54123, gx := 0x32C4AE2C1F1981195F9904466A39C9948FE30BBFF2660BE1715A4589334C74C7, gy := 0xBC3736A2F4F6779C59BDCEE36B692153D0A9877CC62A474002DF32E52139F0A0 }
/-- Barreto-Naehrig curve of the TCG algorithm registry: y² = x³ + 3, G = (1, 2) -/
def bnp256 : Curve := { id := 16, p := 0xFFFFFFFFFFFCF0CD46E5F25EEE71A49F0CDC65FB12980A82D3292DDBAED33013, a := 0, b := 3, n := 0xFFFFFFFFFFFCF0CD46E5F25EEE71A49E0CDC65FB1299921AF62D536CD10B500D, gx := 1, gy := 2 }

def curves : List Curve := [p192, p224, p256, p384, p521, bnp256, sm2p256]
def curveOfId (id : Nat) : Option Curve := curves.find? (·.id == id)

/-! ### PKCS #1 -/

def be32 (n : Nat) : Bytes := [UInt8.ofNat (n / 16777216 % 256), UInt8.ofNat (n / 65536 % 256), UInt8.ofNat (n / 256 % 256), UInt8.ofNat (n % 256)]

/-- MGF1 (PKCS #1 B.2.1) -/
def mgf1 (a : Alg) (seed : Bytes) (len : Nat) : Bytes :=
  (((List.range (len / digestLen a + 1)).map (fun i => hash a (seed ++ be32 i))).flatten).take len

/-- EME-OAEP decoding (PKCS #1 7.1.2 step 3) of an encoded message of the modulus size; `label` is hashed as given -/
def oaepDecode (a : Alg) (label : Bytes) (em : Bytes) : Option Bytes :=
  let h := digestLen a
  if em.length < 2 * h + 2 then none else
  let y := em.headD 1
  let maskedSeed := (em.drop 1).take h
  let maskedDB := em.drop (1 + h)
  let seed := xorB maskedSeed (mgf1 a maskedDB h)
  let db := xorB maskedDB (mgf1 a seed maskedDB.length)
  let lhash := db.take h
  let rest := (db.drop h).dropWhile (· == 0)
  if y ≠ 0 ∨ lhash ≠ hash a label then none else
  match rest with
  | 1 :: m => some m
  | _ => none

/-- EME-PKCS1-v1_5 decoding (7.2.2 step 3): 00 02 PS 00 M with at least eight nonzero padding bytes -/
def rsaesDecode (em : Bytes) : Option Bytes :=
  match em with
  | 0 :: 2 :: r =>
    let ps := r.takeWhile (· != 0)
    if ps.length < 8 ∨ ps.length = r.length then none else some (r.drop (ps.length + 1))
  | _ => none

/-- EMSA-PSS verification (9.1.2) of the encoded message of a signature; `modBits` is the size of the modulus in bits.
    The salt is whatever follows the 01 separator. -/
def pssVerify (a : Alg) (mHash : Bytes) (em : Bytes) (modBits : Nat) : Bool :=
  let h := digestLen a
  let emBits := modBits - 1
  let emLen := (emBits + 7) / 8
  -- the encoded message as the integer's big-endian representation has the modulus size; drop the extra byte if any
  let em := em.drop (em.length - emLen)
  if em.length < h + 2 then false else
  if em.getLast? ≠ some 0xbc then false else
  let maskedDB := em.take (emLen - h - 1)
  let hh := (em.drop (emLen - h - 1)).take h
  let topBits := 8 * emLen - emBits
  if (maskedDB.headD 0) >>> (8 - topBits).toUInt8 ≠ 0 ∧ topBits ≠ 0 then false else
  let db0 := xorB maskedDB (mgf1 a hh maskedDB.length)
  let db := match db0 with | [] => [] | x :: r => (x &&& (0xff >>> topBits.toUInt8)) :: r
  match db.dropWhile (· == 0) with
  | 1 :: salt => hash a (List.replicate 8 0 ++ mHash ++ salt) == hh
  | _ => false

/-- DER DigestInfo prefixes of EMSA-PKCS1-v1_5 (9.2 note 1) -/
def digestInfo (algId : Nat) : Bytes :=
  if algId = 4 then [0x30, 0x21, 0x30, 0x09, 0x06, 0x05, 0x2b, 0x0e, 0x03, 0x02, 0x1a, 0x05, 0x00, 0x04, 0x14]
  else if algId = 0xb then [0x30, 0x31, 0x30, 0x0d, 0x06, 0x09, 0x60, 0x86, 0x48, 0x01, 0x65, 0x03, 0x04, 0x02, 0x01, 0x05, 0x00, 0x04, 0x20]
  else if algId = 0xc then [0x30, 0x41, 0x30, 0x0d, 0x06, 0x09, 0x60, 0x86, 0x48, 0x01, 0x65, 0x03, 0x04, 0x02, 0x02, 0x05, 0x00, 0x04, 0x30]
  else [0x30, 0x51, 0x30, 0x0d, 0x06, 0x09, 0x60, 0x86, 0x48, 0x01, 0x65, 0x03, 0x04, 0x02, 0x03, 0x05, 0x00, 0x04, 0x40]

def emsaPkcs1 (algId : Nat) (digest : Bytes) (k : Nat) : Bytes :=
  let t := digestInfo algId ++ digest
  [0x00, 0x01] ++ List.replicate (k - 3 - t.length) 0xff ++ [0x00] ++ t

/-! ### Block modes generic in the block size `n` -/

def chunksN (n : Nat) : Bytes → Nat → List Bytes
  | _, 0 => []
  | bs, f + 1 => if bs.isEmpty then [] else bs.take n :: chunksN n (bs.drop n) f

def padN (n : Nat) (c : Bytes) : Bytes := c ++ List.replicate (n - c.length) 0

def cfbEncryptN (n : Nat) (E : Bytes → Bytes) (iv : Bytes) (pt : Bytes) : Bytes × Bytes :=
  (chunksN n pt (pt.length + 1)).foldl (fun (st : Bytes × Bytes) blk =>
    let c := xorB blk (E st.2)
    (st.1 ++ c, padN n c)) ([], iv)

def cfbDecryptN (n : Nat) (E : Bytes → Bytes) (iv : Bytes) (ct : Bytes) : Bytes × Bytes :=
  (chunksN n ct (ct.length + 1)).foldl (fun (st : Bytes × Bytes) blk =>
    (st.1 ++ xorB blk (E st.2), padN n blk)) ([], iv)

def ofbN (n : Nat) (E : Bytes → Bytes) (iv : Bytes) (pt : Bytes) : Bytes × Bytes :=
  (chunksN n pt (pt.length + 1)).foldl (fun (st : Bytes × Bytes) blk =>
    let ks := E st.2
    (st.1 ++ xorB blk ks, ks)) ([], iv)

def incCtrN (n : Nat) (ctr : Bytes) : Bytes :=
  natToBytes ((beNat ctr + 1) % 256 ^ n) n

def ctrN (n : Nat) (E : Bytes → Bytes) (iv : Bytes) (pt : Bytes) : Bytes × Bytes :=
  (chunksN n pt (pt.length + 1)).foldl (fun (st : Bytes × Bytes) blk =>
    (st.1 ++ xorB blk (E st.2), incCtrN n st.2)) ([], iv)

def cbcEncryptN (n : Nat) (E : Bytes → Bytes) (iv : Bytes) (pt : Bytes) : Bytes × Bytes :=
  (chunksN n pt (pt.length + 1)).foldl (fun (st : Bytes × Bytes) blk =>
    let c := E (xorB blk st.2)
    (st.1 ++ c, c)) ([], iv)

def ecbEncryptN (n : Nat) (E : Bytes → Bytes) (pt : Bytes) : Bytes :=
  ((chunksN n pt (pt.length + 1)).map E).flatten

/-! ### CMAC (NIST SP 800-38B / RFC 4493) over a 16-byte block function -/

/-- doubling in GF(2^128): shift left, reduce with 0x87 -/
def cmacDbl (b : Bytes) : Bytes :=
  let n := beNat b
  let sh := (n * 2) % 2 ^ 128
  natToBytes (if n ≥ 2 ^ 127 then sh ^^^ 0x87 else sh) 16

def cmac (E : Bytes → Bytes) (msg : Bytes) : Bytes :=
  let k1 := cmacDbl (E (List.replicate 16 0))
  let k2 := cmacDbl k1
  let nblk := if msg.isEmpty then 1 else (msg.length + 15) / 16
  let complete : Bool := !msg.isEmpty && msg.length % 16 == 0
  let body := msg.take ((nblk - 1) * 16)
  let lastRaw := msg.drop ((nblk - 1) * 16)
  let last := if complete then xorB lastRaw k1 else xorB (lastRaw ++ [0x80] ++ List.replicate (15 - lastRaw.length) 0) k2
  let x := (chunksN 16 body (body.length + 1)).foldl (fun x blk => E (xorB x blk)) (List.replicate 16 0)
  E (xorB x last)

end TpmVerif.Crypto
