import TpmVerif.Base.Trace
import TpmVerif.Model.Tpm12Core
import TpmVerif.Model.Tpm12Nv
import TpmVerif.Model.Tpm12Counter
import TpmVerif.Model.Tpm12Flags
import TpmVerif.Model.Tpm12Auth
import TpmVerif.Spec.Tpm12Pcr
/-! Correspondence checker for C20 traces: replays every traced operation (TPM_Extend, TPM_PCRRead, TPM_PCR_Reset,
    TPM_SHA1Start/Update/Complete/CompleteExtend, TPM_IO_Hash_*, TPM_IO_TpmEstablished_*, Startup, power cycle,
    suspend/resume) through `Model.Tpm12.Core.step` with the executable SHA-1 and reports every return code and
    every output byte string on which model and implementation differ. -/
namespace TpmVerif.Check.C20
open TpmVerif TpmVerif.Gen.Tpm12 TpmVerif.Model TpmVerif.Model.Tpm12 TpmVerif.Model.Tpm12.Core

structure CS where
  st : St := powerOn false TPM_BUFFER_MAX
  nv : Nv.St := Nv.fresh
  ctr : Counter.St := {}
  fl : Flags.St := Flags.fresh
  rep : Report := {}
  line : Nat := 0
  live : Bool := false

def mism (c : CS) (msg : String) : CS :=
  { c with rep := { c.rep with mismatches := c.rep.mismatches ++ [s!"line {c.line}: {msg}"] } }

def branch (c : CS) (b : String) : CS :=
  if c.rep.branches.contains b then c else { c with rep := { c.rep with branches := b :: c.rep.branches } }

def parseOp (l : Line) : Option Op :=
  let loc := l.nat "loc"
  match l.str "name" with
  | "startup" => some (.startup ((l.nat? "st").getD 1))
  | "savestate" => some .saveState
  | "extend" => some (.extend loc (l.nat "pcr") (l.bytes "d"))
  | "pcrread" => some (.pcrRead (l.nat "pcr"))
  | "pcrreset" => some (.pcrReset loc (l.bytes "sel"))
  | "sha1start" => some .sha1Start
  | "sha1update" => some (.sha1Update (l.bytes "d"))
  | "sha1complete" => some (.sha1Complete (l.bytes "d"))
  | "sha1completeextend" => some (.sha1CompleteExtend loc (l.nat "pcr") (l.bytes "d"))
  | "other" => some .other
  | "hashstart" => some .hashStart
  | "hashdata" => some (.hashData (l.bytes "d"))
  | "hashend" => some .hashEnd
  | "estget" => some .estGet
  | "estreset" => some (.estReset loc)
  | _ => none

/-- class of a PCR index for coverage accounting -/
def pcrClass (i : Nat) : String :=
  if i < 16 then "0-15" else if i < TPM_NUM_PCR then s!"{i}" else "out-of-range"

def opBranch (l : Line) (rc : Nat) : String :=
  let name := l.str "name"
  match name with
  | "extend" | "sha1completeextend" => s!"{name}/pcr={pcrClass (l.nat "pcr")}/loc={l.nat "loc"}/rc={rc}"
  | "pcrread" => s!"{name}/pcr={pcrClass (l.nat "pcr")}/rc={rc}"
  | "pcrreset" => s!"{name}/size={(l.bytes "sel").length}/loc={l.nat "loc"}/rc={rc}"
  | "sha1update" => s!"{name}/mult64={decide ((l.bytes "d").length % 64 = 0)}/rc={rc}"
  | "sha1complete" => s!"{name}/len={if (l.bytes "d").length > 64 then ">64" else if (l.bytes "d").length = 0 then "0" else "1-64"}/rc={rc}"
  | "estreset" => s!"{name}/loc={l.nat "loc"}/rc={rc}"
  | _ => s!"{name}/rc={rc}"

/-- the observables the property names get a SPEC signature -/
def sigOf (name : String) : String :=
  match name with
  | "extend" => "SPEC[pcr-extend] "
  | "pcrread" => "SPEC[pcr-value] "
  | "pcrreset" => "SPEC[pcr-reset] "
  | "sha1complete" => "SPEC[sha1-thread] "
  | "sha1completeextend" => "SPEC[sha1-thread-extend] "
  | "sha1start" | "sha1update" => "SPEC[sha1-thread-rc] "
  | "hashstart" | "hashdata" | "hashend" => "SPEC[tis-hash] "
  | "estget" | "estreset" => "SPEC[tpm-established] "
  | _ => ""

/-! ### authorization, judged from the wire bytes by `Model.Tpm12.Auth` -/

structure AuthVerdict where
  accept : Bool                    -- the TPM must accept the request's HMAC
  response : Option Bool := none   -- the answer's HMAC verifies (when the answer carried one)
  corrupt : Nat := 0               -- what the client says it did to the request

/-- `none` when the line carries no authorization bytes -/
def authVerdict (l : Line) : Option AuthVerdict :=
  if (l.get? "ane").isNone then none else
  let key := if (l.get? "aes").isSome then Auth.osapSecret (l.bytes "aes") (l.bytes "aneo") (l.bytes "anoo") else l.bytes "ak"
  let req : Auth.Request := { key := key, nonceEven := l.bytes "ane", pd := l.bytes "apd", nonceOdd := l.bytes "ano",
                              cont := l.nat "ac" ≠ 0, mac := l.bytes "amac" }
  let rsp := if (l.get? "rmac").isNone then none
             else some (Auth.responseMac key (l.bytes "rpd") (l.bytes "rne") (l.bytes "ano") (l.nat "rcont" ≠ 0) == l.bytes "rmac")
  some { accept := Auth.accepts req, response := rsp, corrupt := l.nat "corrupt" }

/-- the model-free clauses of the property about one authorized command -/
def judgeAuth (c : CS) (l : Line) (what : String) (mayIgnore : Bool := false) : CS :=
  match authVerdict l with
  | none => c
  | some v =>
    let rc := l.nat "rc"
    -- `mayIgnore`: TPM_NV_ReadValue while nvLocked is FALSE — "all authorization checks are ignored ... if ownerAuth is present
    -- the TPM MAY check the authorization HMAC" (the code does not): an accepted wrong HMAC is no violation there
    let v := if mayIgnore && !v.accept && rc = 0 then { v with accept := true, corrupt := 0 } else v
    let c := branch c s!"auth/{if (l.get? "aes").isSome then "osap" else "oiap"}/corrupt={v.corrupt}/accept={v.accept}/rc={if rc = 0 then "ok" else if rc = TPM_AUTHFAIL then "authfail" else "other"}/rsp={match v.response with | none => "-" | some b => toString b}"
    let c := if (v.corrupt = 0) ≠ v.accept then
        mism c s!"internal: {what}: the client says corrupt={v.corrupt} but the Lean HMAC check says accept={v.accept}" else c
    let c := if !v.accept && rc = 0 then
        mism c s!"SPEC[auth-accepted-wrong-hmac] {what}: the TPM accepted a request whose HMAC is not HMAC(key, SHA1(ordinal||params) || nonceEven || nonceOdd || continue) (client corruption {v.corrupt})" else c
    let c := if v.accept && (rc = TPM_AUTHFAIL || rc = TPM_AUTH2FAIL) then
        mism c s!"SPEC[auth-refused-correct-hmac] {what}: the TPM answered {rc} to a request whose HMAC is correct" else c
    let c := if rc = 0 && v.response = some false then
        mism c s!"SPEC[auth-response-hmac] {what}: the response HMAC is not HMAC(key, SHA1(rc||ordinal||outParams) || new nonceEven || nonceOdd || continue)" else c
    if rc = 0 && v.response.isNone then mism c s!"SPEC[auth-response-hmac] {what}: a successful authorized command answered without an authorization trailer" else c

/-! ### NV storage lines (`nv name=...`) -/

def parseTag (l : Line) : Nv.Tag :=
  match authVerdict l with
  | some v => .auth1 v.accept
  | none =>
  match l.str "tag" with
  | "auth1ok" => .auth1 true
  | "auth1bad" => .auth1 false
  | _ => .rqu

def parseNv (l : Line) : Option Nv.Op :=
  let tag := parseTag l
  let loc := l.nat "loc"
  let hw := l.nat "hw" ≠ 0
  match l.str "name" with
  | "define" => some (.define tag hw (l.nat "idx") (l.nat "attrs") (l.nat "size") (l.nat "lr") (l.nat "lw"))
  | "write" => some (.write tag loc hw (l.nat "idx") (l.nat "off") (l.bytes "d"))
  | "read" => some (.read tag loc hw (l.nat "idx") (l.nat "off") (l.nat "n"))
  | "writeauth" => some (.writeAuth (tag == .auth1 true) loc hw (l.nat "idx") (l.nat "off") (l.bytes "d"))
  | "readauth" => some (.readAuth (tag == .auth1 true) loc hw (l.nat "idx") (l.nat "off") (l.nat "n"))
  | "takeownership" => some .takeOwnership
  | "tscpp" => some (.tscPP (l.nat "v"))
  | "getpub" => some (.getPub (l.nat "idx"))
  | "savestate" => some .saveState
  | _ => none

def attrClass (a : Nat) : String :=
  let bit (m : Nat) (n : String) : String := if Nv.has a m then n else ""
  bit TPM_NV_PER_PPWRITE "Pw" ++ bit TPM_NV_PER_OWNERWRITE "Ow" ++ bit TPM_NV_PER_AUTHWRITE "Aw" ++ bit TPM_NV_PER_WRITEALL "All" ++
  bit TPM_NV_PER_WRITEDEFINE "Wd" ++ bit TPM_NV_PER_WRITE_STCLEAR "Ws" ++ bit TPM_NV_PER_GLOBALLOCK "Gl" ++ bit TPM_NV_PER_PPREAD "Pr" ++
  bit TPM_NV_PER_OWNERREAD "Or" ++ bit TPM_NV_PER_AUTHREAD "Ar" ++ bit TPM_NV_PER_READ_STCLEAR "Rs"

def idxClass (i : Nat) : String :=
  if i = TPM_NV_INDEX0 then "index0" else if i = TPM_NV_INDEX_LOCK then "lock" else if i = TPM_NV_INDEX_DIR then "dir"
  else if i = TPM_NV_INDEX_TRIAL then "trial" else if 0x11200 ≤ i && i < 0x11210 then "pool" else "other"

/-- coverage class of an NV operation: command, index class, tag, nvLocked, the area's lock state, model rc -/
def nvBranch (s : Nv.St) (l : Line) (rc : Nat) : String :=
  let name := l.str "name"
  let idx := l.nat "idx"
  let area := Nv.lookup s.mem idx
  let lockSt := match area with
    | some a => s!"{attrClass a.attrs}/rs={a.readSt}/ws={a.writeSt}/wd={a.writeDef}"
    | none => "undefined"
  match name with
  | "define" => s!"nv-define/{idxClass idx}/{l.str "tag"}/locked={s.mem.nvLocked}/new={attrClass (l.nat "attrs")}/size0={decide (l.nat "size" = 0)}/old={lockSt}/gl={s.globalLock}/rc={rc}"
  | "writeauth" => s!"nv-writeauth/{l.str "tag"}/owner={s.mem.ownerInstalled}/{lockSt}/gl={s.globalLock}/len0={decide ((l.bytes "d").length = 0)}/rc={rc}"
  | "readauth" => s!"nv-readauth/{l.str "tag"}/owner={s.mem.ownerInstalled}/{lockSt}/n0={decide (l.nat "n" = 0)}/rc={rc}"
  | "write" => s!"nv-write/{idxClass idx}/{l.str "tag"}/locked={s.mem.nvLocked}/{lockSt}/gl={s.globalLock}/len0={decide ((l.bytes "d").length = 0)}/rc={rc}"
  | "read" => s!"nv-read/{idxClass idx}/{l.str "tag"}/locked={s.mem.nvLocked}/{lockSt}/n0={decide (l.nat "n" = 0)}/rc={rc}"
  | "tscpp" => s!"nv-tscpp/v={l.nat "v"}/cmd={s.mem.ppCmd}/life={s.mem.ppLife}/lock={s.ppLock}/rc={rc}"
  | "getpub" => s!"nv-getpub/{idxClass idx}/rc={rc}"
  | _ => s!"nv-{name}/rc={rc}"

def nvSig (name : String) : String :=
  match name with
  | "define" => "SPEC[nv-define] "
  | "write" | "writeauth" => "SPEC[nv-write] "
  | "read" | "readauth" => "SPEC[nv-read] "
  | "takeownership" => "SPEC[take-ownership] "
  | "tscpp" => "SPEC[nv-physical-presence] "
  | "getpub" => "SPEC[nv-public-flags] "
  | "savestate" => "SPEC[nv-savestate] "
  | _ => ""

def bit (b : Bool) : UInt8 := if b then 1 else 0

def stepNv (c : CS) (l : Line) : CS :=
  let name := l.str "name"
  let c := { c with rep := { c.rep with events := c.rep.events + 1 } }
  let c := if l.nat "ret" ≠ 0 then mism c s!"{name}: TPMLIB_Process returned {l.nat "ret"}" else c
  let c := judgeAuth c l s!"{name} idx={l.nat "idx"}" (name = "read" && !c.nv.mem.nvLocked)
  let c := { c with fl := Flags.invalidateSaved c.fl }
  -- the failed state (entered through the TIS error routes, which only the PCR model follows) is one state of one TPM
  let c := { c with nv := { c.nv with failed := c.nv.failed || c.st.failed } }
  -- for the PCR/SHA-1 model an NV ordinal is "any other ordinal"
  let c := { c with st := (Tpm12.Core.stepCmd Sha1.sha1 c.st (if name = "savestate" then .saveState else .other)).1 }
  if name = "permflags" || name = "volflags" then
    -- TPM_PERMANENT_FLAGS / TPM_STCLEAR_FLAGS as reported: the flags the NV model owns, at their positions in the structures
    let s := Nv.invalidateSaved c.nv
    let c := { c with nv := s }
    let out := l.bytes "out"
    let c := branch c s!"nv-{name}/rc={l.nat "rc"}"
    let want := if s.postInit then TPM_INVALID_POSTINIT else if s.failed then TPM_FAILEDSELFTEST else 0
    if l.nat "rc" ≠ want then mism c s!"SPEC[nv-flags] {name}: GetCapability rc model={want} impl={l.nat "rc"}" else
    if want ≠ 0 then c else
    let body := out.drop 4                   -- uint32 length, then the structure (tag, BOOLs)
    let flag (k : Nat) : UInt8 := body.getD (2 + k) 0xee
    if name = "permflags" then
      let want := [bit s.mem.ppLife, bit s.mem.ppHw, bit s.mem.ppCmd, bit s.mem.nvLocked]
      let got := [flag 6, flag 7, flag 8, flag 15]
      if want ≠ got then mism c s!"SPEC[nv-flags] TPM_PERMANENT_FLAGS (physicalPresenceLifetimeLock, HWEnable, CMDEnable, nvLocked): model={hexOfBytes want} impl={hexOfBytes got}" else c
    else
      let want := [bit s.pp, bit s.ppLock, bit s.globalLock]
      let got := [flag 2, flag 3, flag 4]
      if want ≠ got then mism c s!"SPEC[nv-flags] TPM_STCLEAR_FLAGS (physicalPresence, physicalPresenceLock, bGlobalLock): model={hexOfBytes want} impl={hexOfBytes got}" else c
  else
  match parseNv l with
  | none => mism c s!"unknown nv op {name}"
  | some op =>
    let (nv', obs) := Nv.step c.nv op
    let c := branch c (nvBranch (Nv.invalidateSaved c.nv) l obs.rc)
    let c := { c with nv := nv' }
    -- the counter model learns about the owner and about TPM_SaveState (countID is part of the saved state)
    let c := if name = "takeownership" && l.nat "rc" = 0 then { c with ctr := (Counter.step c.ctr .takeOwnership).1 } else c
    let c := if name = "savestate" && l.nat "rc" = 0 then { c with ctr := (Counter.step c.ctr .saveState).1 } else c
    let c := if l.nat "rc" ≠ obs.rc then mism c s!"{nvSig name}{name} {l.str "tag"} idx={l.nat "idx"}: rc model={obs.rc} impl={l.nat "rc"}" else c
    -- write-through: the command hands the permanent state to the storage callback exactly when the model says so
    let c := if l.nat "rc" = obs.rc && (l.nat? "stores").isSome && obs.stored ≠ decide (l.nat "stores" > 0) then
        mism c s!"SPEC[nv-write-through] {name} idx={l.nat "idx"}: model stored={obs.stored}, storage callback calls={l.nat "stores"}" else c
    -- an authorized command that succeeds answers with an HMAC that verifies under the same secret
    let c := if l.nat "rc" = 0 && (l.get? "hmac").isSome && l.str "hmac" ≠ "1" then
        mism c s!"SPEC[nv-response-hmac] {name} idx={l.nat "idx"}: the response HMAC does not verify (hmac={l.str "hmac"})" else c
    if l.nat "rc" = 0 && obs.rc = 0 && l.bytes "out" ≠ obs.out then
      mism c s!"{nvSig name}{name} idx={l.nat "idx"}: output model={hexOfBytes obs.out} impl={l.str "out"}"
    else c

/-! ### monotonic counter lines (`ctr name=...`) -/

def parseCtr (l : Line) : Option Counter.Op :=
  let ok := match authVerdict l with
    | some v => v.accept
    | none => l.nat "ok" ≠ 0
  match l.str "name" with
  | "create" => some (.create ok)
  | "increment" => some (.increment (l.nat "id") ok)
  | "read" => some (.read (l.nat "id"))
  | "release" => some (.release (l.nat "id") ok)
  | "releaseowner" => some (.releaseOwner (l.nat "id") ok)
  | _ => none

def activeClass : Counter.Active → String
  | .null => "none"
  | .illegal => "released"
  | .id _ => "some"

def stepCtr (c : CS) (l : Line) : CS :=
  let name := l.str "name"
  let c := { c with rep := { c.rep with events := c.rep.events + 1 } }
  let c := if l.nat "ret" ≠ 0 then mism c s!"{name}: TPMLIB_Process returned {l.nat "ret"}" else c
  let c := judgeAuth c l s!"counter {name} id={l.nat "id"}"
  let c := { c with fl := Flags.invalidateSaved c.fl }
  -- for the other two models a counter ordinal is "any other ordinal" (IncrementCounter etc. store the permanent state)
  let c := { c with st := (Tpm12.Core.stepCmd Sha1.sha1 c.st .other).1, nv := (Nv.step c.nv .other).1 }
  let c := if l.nat "stores" > 0 then { c with nv := (Nv.step c.nv .stored).1 } else c
  let ctr0 := { c.ctr with failed := c.ctr.failed || c.st.failed || c.nv.failed, savedActive := if c.nv.saved.isSome then c.ctr.savedActive else none }
  match parseCtr l with
  | none => mism c s!"unknown counter op {name}"
  | some op =>
    let (ctr', obs) := Counter.step ctr0 op
    let id := l.nat "id"
    let c := branch c s!"ctr-{name}/ok={l.nat "ok"}/valid={Counter.validId ctr0 id}/inrange={decide (id < TPM_MIN_COUNTERS)}/active={activeClass ctr0.active}/isactive={decide (ctr0.active = .id id)}/rc={obs.rc}"
    let c := { c with ctr := ctr' }
    let c := if l.nat "rc" ≠ obs.rc then mism c s!"SPEC[counter-rc] {name} id={id}: rc model={obs.rc} impl={l.nat "rc"}" else c
    let c := if l.nat "rc" = 0 && obs.rc = 0 && name ≠ "release" && name ≠ "releaseowner" && (l.nat "value" ≠ obs.value || (name = "create" && id ≠ obs.id)) then
        mism c s!"SPEC[counter-value] {name}: model id={obs.id} value={obs.value} impl id={id} value={l.nat "value"}" else c
    let c := if l.nat "rc" = obs.rc && obs.stored ≠ decide (l.nat "stores" > 0) then
        mism c s!"SPEC[counter-write-through] {name} id={id}: model stored={obs.stored}, storage callback calls={l.nat "stores"}" else c
    if l.nat "rc" = 0 && l.str "hmac" = "0" then mism c s!"SPEC[counter-response-hmac] {name} id={id}: the response HMAC does not verify" else c

/-! ### flag automaton lines (`fl name=...`) -/

def parseProbe (p : String) : Option Flags.Probe :=
  match p with
  | "pcrread" => some .pcrRead
  | "getrandom" => some .getRandom
  | "getticks" => some .getTicks
  | "extend" => some .extend
  | "oiap" => some .oiap
  | "nvreaddir" => some .nvReadDir
  | "getcapflags" => some .getCapFlags
  | _ => none

def parseFl (l : Line) : Option Flags.Op :=
  let hw := l.nat "hw" ≠ 0
  let v := l.nat "v"
  let ok := match authVerdict l with
    | some a => a.accept
    | none => false
  match l.str "name" with
  | "startup" => some (.startup (l.nat "st"))
  | "tscpp" => some (.tscPP v)
  | "physicalenable" => some (.physicalEnable hw)
  | "physicaldisable" => some (.physicalDisable hw)
  | "physicalsetdeactivated" => some (.physicalSetDeactivated hw (v ≠ 0))
  | "settempdeactivated" => some (.setTempDeactivated hw)
  | "setownerinstall" => some (.setOwnerInstall hw (v ≠ 0))
  | "ownersetdisable" => some (.ownerSetDisable ok (v ≠ 0))
  | "createek" => some .createEk
  | "takeownership" => some (.takeOwnership ok)
  | "ownerclear" => some (.ownerClear ok)
  | "forceclear" => some (.forceClear hw)
  | "disableownerclear" => some (.disableOwnerClear ok)
  | "disableforceclear" => some .disableForceClear
  | "savestate" => some .saveState
  | "probe" => (parseProbe (l.str "p")).map .probe
  | _ => none

def flState (s : Flags.St) : String :=
  let b (x : Bool) : String := if x then "1" else "0"
  s!"dis={b s.mem.disable}/deact={b s.sc.deactivated}/own={b s.mem.owner}/post={b s.postInit}/fail={b s.failed}"

def stepFl (c : CS) (l : Line) : CS :=
  let name := l.str "name"
  let c := { c with rep := { c.rep with events := c.rep.events + 1 } }
  let c := if l.nat "ret" ≠ 0 then mism c s!"{name}: TPMLIB_Process returned {l.nat "ret"}" else c
  -- for the other models a flag ordinal is "any other ordinal"
  let c := { c with st := (Tpm12.Core.stepCmd Sha1.sha1 c.st .other).1, nv := (Nv.step c.nv .other).1 }
  let c := if l.nat "stores" > 0 then { c with nv := (Nv.step c.nv .stored).1 } else c
  if name = "flags" then
    -- TPM_PERMANENT_FLAGS / TPM_STCLEAR_FLAGS / TPM_CAP_PROP_OWNER as the TPM reports them
    let s := Flags.invalidateSaved c.fl
    let c := { c with fl := s }
    let want := Flags.checkState s Flags.gateNone
    let c := if l.nat "rc" ≠ want || l.nat "rcv" ≠ want || l.nat "rco" ≠ want then
        mism c s!"SPEC[flags-getcapability] GetCapability(flags) rc model={want} impl={l.nat "rc"}/{l.nat "rcv"}/{l.nat "rco"}" else c
    if want ≠ 0 then c else
    let perm := l.bytes "perm"
    let vol := l.bytes "vol"
    let pf (k : Nat) : UInt8 := perm.getD (2 + k) 0xee
    let vf (k : Nat) : UInt8 := vol.getD (2 + k) 0xee
    let wantP := [bit s.mem.disable, bit s.mem.ownership, bit s.mem.deactivated, bit s.mem.disableOwnerClear, bit s.mem.ppLife, bit s.mem.ppHw, bit s.mem.ppCmd]
    let gotP := [pf 0, pf 1, pf 2, pf 4, pf 6, pf 7, pf 8]
    let wantV := [bit s.sc.deactivated, bit s.sc.disableForceClear, bit s.sc.pp, bit s.sc.ppLock]
    let gotV := [vf 0, vf 1, vf 2, vf 3]
    let c := branch c s!"flags/{flState s}/ownership={s.mem.ownership}/pdeact={s.mem.deactivated}/doc={s.mem.disableOwnerClear}/dfc={s.sc.disableForceClear}"
    let c := if wantP ≠ gotP then mism c s!"SPEC[flags-permanent] (disable, ownership, deactivated, disableOwnerClear, ppLifetimeLock, ppHWEnable, ppCMDEnable): model={hexOfBytes wantP} impl={hexOfBytes gotP}" else c
    let c := if wantV ≠ gotV then mism c s!"SPEC[flags-stclear] (deactivated, disableForceClear, physicalPresence, physicalPresenceLock): model={hexOfBytes wantV} impl={hexOfBytes gotV}" else c
    if l.nat "own" ≠ (if s.mem.owner then 1 else 0) then mism c s!"SPEC[flags-owner] TPM_CAP_PROP_OWNER model={s.mem.owner} impl={l.nat "own"}" else c
  else
  let c := judgeAuth c l s!"{name}"
  match parseFl l with
  | none => mism c s!"unknown flag op {name}"
  | some op =>
    let pre := match op with
      | .startup _ => c.fl
      | _ => Flags.invalidateSaved c.fl
    let (fl', obs) := Flags.step c.fl op
    let c := branch c s!"fl-{name}/{l.str "p"}/v={l.nat "v"}{l.str "st"}/{flState pre}/pres={Flags.presence pre (l.nat "hw" ≠ 0)}/rc={obs.rc}"
    let c := { c with fl := fl' }
    -- the other models follow the events they share
    let c := match op with
      | .startup t => { c with st := (Tpm12.Core.stepCmd Sha1.sha1 c.st (.startup t)).1, nv := (Nv.step c.nv (.startup t)).1,
                               ctr := (Counter.step c.ctr (.startup t)).1 }
      | _ => c
    -- an OIAP probe may find the session table full (sessions of refused commands): not a matter of the flags
    if name = "probe" && l.str "p" = "oiap" && l.nat "rc" = TPM_RESOURCES && obs.rc = 0 then c else
    let c := if l.nat "rc" ≠ obs.rc then mism c s!"SPEC[flags-rc] {name} {l.str "p"} v={l.nat "v"} st={l.nat "st"} in state {flState pre}: rc model={obs.rc} impl={l.nat "rc"}" else c
    if l.nat "rc" = obs.rc && name ≠ "probe" && obs.stored ≠ decide (l.nat "stores" > 0) then
      mism c s!"SPEC[flags-write-through] {name}: model stored={obs.stored}, storage callback calls={l.nat "stores"}" else c

def step (c : CS) (l : Line) : CS :=
  let c := { c with line := c.line + 1 }
  match l.kind with
  | "hist" => { c with live := false }
  | "fl" => if c.live then stepFl c l else c
  | "ctr" => if c.live then stepCtr c l else c
  | "power" => { c with st := powerOn false (l.nat "maxbuf"), nv := Nv.fresh, ctr := {}, fl := Flags.fresh, live := true }
  | "restart" =>
      let c := branch c s!"restart/ret={l.nat "ret"}/failed={c.st.failed}/established={c.st.established}/saved={c.nv.saved.isSome}/nvlocked={c.nv.mem.nvLocked}"
      let c := if l.nat "ret" ≠ 0 then mism c s!"MainInit after Terminate returned {l.nat "ret"}" else c
      { c with st := { powerOn c.st.established (l.nat "maxbuf") with saved := c.st.saved }, nv := Nv.powerCycle c.nv,
               ctr := (Counter.step c.ctr .powerCycle).1, fl := Flags.powerCycle c.fl }
  | "resume" =>
      -- suspend/resume through the state blobs must preserve everything this model tracks
      let c := branch c s!"resume/ret={l.nat "ret"}/thread={c.st.sha.isSome}/tis={c.st.tis.isSome}/saved={c.nv.saved.isSome}"
      let c := { c with nv := Nv.resume c.nv, fl := Flags.resume c.fl }
      if l.nat "ret" ≠ 0 then mism c s!"SPEC[resume] GetState/SetState/MainInit returned {l.nat "ret"}" else c
  | "nv" => if c.live then stepNv c l else c
  | "san" =>
      let c := { c with rep := { c.rep with events := c.rep.events + 1 } }
      mism c s!"SPEC[{l.str "sig"}] {l.str "kind"} report in {l.str "site"} while processing {l.str "req"} (history {l.str "hist"}, call {l.str "idx"})"
  | "op" =>
      if !c.live then c else
      match parseOp l with
      | none => mism c s!"unknown op {l.str "name"}"
      | some op =>
        let c := { c with rep := { c.rep with events := c.rep.events + 1 } }
        let (st', obs) := Tpm12.Core.stepCmd Sha1.sha1 c.st op
        let c := { c with st := st' }
        let c := match op with
          | .startup t => { c with fl := (Flags.step c.fl (.startup t)).1 }
          | _ => if op.isOrdinal then { c with fl := Flags.invalidateSaved c.fl } else c
        -- for the NV model: Startup acts on the volatile NV flags; any other ordinal only invalidates the saved state
        let c := match op with
          | .startup t =>
              let (nv', nobs) := Nv.step c.nv (.startup t)
              let c := branch c s!"nv-startup/st={t}/saved={c.nv.saved.isSome}/rc={nobs.rc}"
              let c := if nobs.rc ≠ obs.rc then mism c s!"internal: the two models disagree on Startup: core={obs.rc} nv={nobs.rc}" else c
              let ctr0 := { c.ctr with savedActive := if c.nv.saved.isSome then c.ctr.savedActive else none }
              { c with nv := nv', ctr := (Counter.step ctr0 (.startup t)).1 }
          | _ => if op.isOrdinal then { c with nv := (Nv.step c.nv .other).1 } else c
        -- an ordinal / TIS call outside the NV model that stored the permanent state (tpmEstablished changed, ...) refreshes
        -- what a power cycle will bring back
        let c := if l.nat "stores" > 0 then { c with nv := (Nv.step c.nv .stored).1 } else c
        let c := branch c (opBranch l obs.rc)
        let name := l.str "name"
        let c := if l.nat "ret" ≠ 0 then mism c s!"{name}: TPMLIB_Process returned {l.nat "ret"}" else c
        -- model-free: the observed decisions against the hand-written PC Client table (Spec.Tpm12Pcr)
        let loc := l.nat "loc"
        let c := if name = "pcrreset" && l.nat "rc" = 0 then
            match (selected (l.bytes "sel")).find? (fun i => !Spec.Tpm12Pcr.mayReset i loc) with
            | some i => mism c s!"SPEC[pcr-reset-policy] TPM_PCR_Reset from locality {loc} succeeded although PCR {i} must not be reset from there"
            | none => c
          else c
        let c := if (name = "extend" || name = "sha1completeextend") && l.nat "rc" = 0 && !Spec.Tpm12Pcr.mayExtend (l.nat "pcr") loc then
            mism c s!"SPEC[pcr-extend-policy] extend of PCR {l.nat "pcr"} from locality {loc} succeeded although the PC Client table forbids it" else c
        let c := if name = "extend" && l.nat "rc" = TPM_BAD_LOCALITY && l.nat "pcr" < 16 then
            mism c s!"SPEC[pcr-extend-policy] extend of static PCR {l.nat "pcr"} refused for locality {loc}" else c
        if name = "other" then c else
        let c := if l.nat "rc" ≠ obs.rc then mism c s!"{sigOf name}{name}: rc model={obs.rc} impl={l.nat "rc"}" else c
        if l.nat "rc" = 0 && obs.rc = 0 && l.bytes "out" ≠ obs.out then
          mism c s!"{sigOf name}{name}: output model={hexOfBytes obs.out} impl={l.str "out"}"
        else c
  | _ => c

def check (ls : List Line) : Report := (ls.foldl step {}).rep

end TpmVerif.Check.C20
