import TpmVerif.Base.Trace
import TpmVerif.Model.Tpm12Core
import TpmVerif.Spec.Tpm12Pcr
/-! Correspondence checker for C20 traces: replays every traced operation (TPM_Extend, TPM_PCRRead, TPM_PCR_Reset,
    TPM_SHA1Start/Update/Complete/CompleteExtend, TPM_IO_Hash_*, TPM_IO_TpmEstablished_*, Startup, power cycle,
    suspend/resume) through `Model.Tpm12.Core.step` with the executable SHA-1 and reports every return code and
    every output byte string on which model and implementation differ. -/
namespace TpmVerif.Check.C20
open TpmVerif TpmVerif.Gen.Tpm12 TpmVerif.Model TpmVerif.Model.Tpm12.Core

structure CS where
  st : St := powerOn false TPM_BUFFER_MAX
  rep : Report := {}
  line : Nat := 0
  live : Bool := false

def mism (c : CS) (msg : String) : CS :=
  { c with rep := { c.rep with mismatches := c.rep.mismatches ++ [s!"line {c.line}: {msg}"] } }

def branch (c : CS) (b : String) : CS :=
  if c.rep.branches.contains b then c else { c with rep := { c.rep with branches := b :: c.rep.branches } }

def parseOp (l : Line) : Option Op :=
  let loc := l.nat "loc"
  match l.str "name" with
  | "startup" => some (.startup 1)
  | "extend" => some (.extend loc (l.nat "pcr") (l.bytes "d"))
  | "pcrread" => some (.pcrRead (l.nat "pcr"))
  | "pcrreset" => some (.pcrReset loc (l.bytes "sel"))
  | "sha1start" => some .sha1Start
  | "sha1update" => some (.sha1Update (l.bytes "d"))
  | "sha1complete" => some (.sha1Complete (l.bytes "d"))
  | "sha1completeextend" => some (.sha1CompleteExtend loc (l.nat "pcr") (l.bytes "d"))
  | "other" => some .other
  | "hashstart" => some .hashStart
  | "hashdata" => some (.hashData (l.bytes "d"))
  | "hashend" => some .hashEnd
  | "estget" => some .estGet
  | "estreset" => some (.estReset loc)
  | _ => none

/-- class of a PCR index for coverage accounting -/
def pcrClass (i : Nat) : String :=
  if i < 16 then "0-15" else if i < TPM_NUM_PCR then s!"{i}" else "out-of-range"

def opBranch (l : Line) (rc : Nat) : String :=
  let name := l.str "name"
  match name with
  | "extend" | "sha1completeextend" => s!"{name}/pcr={pcrClass (l.nat "pcr")}/loc={l.nat "loc"}/rc={rc}"
  | "pcrread" => s!"{name}/pcr={pcrClass (l.nat "pcr")}/rc={rc}"
  | "pcrreset" => s!"{name}/size={(l.bytes "sel").length}/loc={l.nat "loc"}/rc={rc}"
  | "sha1update" => s!"{name}/mult64={decide ((l.bytes "d").length % 64 = 0)}/rc={rc}"
  | "sha1complete" => s!"{name}/len={if (l.bytes "d").length > 64 then ">64" else if (l.bytes "d").length = 0 then "0" else "1-64"}/rc={rc}"
  | "estreset" => s!"{name}/loc={l.nat "loc"}/rc={rc}"
  | _ => s!"{name}/rc={rc}"

/-- the observables the property names get a SPEC signature -/
def sigOf (name : String) : String :=
  match name with
  | "extend" => "SPEC[pcr-extend] "
  | "pcrread" => "SPEC[pcr-value] "
  | "pcrreset" => "SPEC[pcr-reset] "
  | "sha1complete" => "SPEC[sha1-thread] "
  | "sha1completeextend" => "SPEC[sha1-thread-extend] "
  | "sha1start" | "sha1update" => "SPEC[sha1-thread-rc] "
  | "hashstart" | "hashdata" | "hashend" => "SPEC[tis-hash] "
  | "estget" | "estreset" => "SPEC[tpm-established] "
  | _ => ""

def step (c : CS) (l : Line) : CS :=
  let c := { c with line := c.line + 1 }
  match l.kind with
  | "hist" => { c with live := false }
  | "power" => { c with st := powerOn false (l.nat "maxbuf"), live := true }
  | "restart" =>
      let c := branch c s!"restart/ret={l.nat "ret"}/failed={c.st.failed}/established={c.st.established}"
      let c := if l.nat "ret" ≠ 0 then mism c s!"MainInit after Terminate returned {l.nat "ret"}" else c
      { c with st := powerOn c.st.established (l.nat "maxbuf") }
  | "resume" =>
      -- suspend/resume through the state blobs must preserve everything this model tracks
      let c := branch c s!"resume/ret={l.nat "ret"}/thread={c.st.sha.isSome}/tis={c.st.tis.isSome}"
      if l.nat "ret" ≠ 0 then mism c s!"SPEC[resume] GetState/SetState/MainInit returned {l.nat "ret"}" else c
  | "san" =>
      let c := { c with rep := { c.rep with events := c.rep.events + 1 } }
      mism c s!"SPEC[{l.str "sig"}] {l.str "kind"} report in {l.str "site"} while processing {l.str "req"} (history {l.str "hist"}, call {l.str "idx"})"
  | "op" =>
      if !c.live then c else
      match parseOp l with
      | none => mism c s!"unknown op {l.str "name"}"
      | some op =>
        let c := { c with rep := { c.rep with events := c.rep.events + 1 } }
        let (st', obs) := Tpm12.Core.step Sha1.sha1 c.st op
        let c := { c with st := st' }
        let c := branch c (opBranch l obs.rc)
        let name := l.str "name"
        let c := if l.nat "ret" ≠ 0 then mism c s!"{name}: TPMLIB_Process returned {l.nat "ret"}" else c
        -- model-free: the observed decisions against the hand-written PC Client table (Spec.Tpm12Pcr)
        let loc := l.nat "loc"
        let c := if name = "pcrreset" && l.nat "rc" = 0 then
            match (selected (l.bytes "sel")).find? (fun i => !Spec.Tpm12Pcr.mayReset i loc) with
            | some i => mism c s!"SPEC[pcr-reset-policy] TPM_PCR_Reset from locality {loc} succeeded although PCR {i} must not be reset from there"
            | none => c
          else c
        let c := if (name = "extend" || name = "sha1completeextend") && l.nat "rc" = 0 && !Spec.Tpm12Pcr.mayExtend (l.nat "pcr") loc then
            mism c s!"SPEC[pcr-extend-policy] extend of PCR {l.nat "pcr"} from locality {loc} succeeded although the PC Client table forbids it" else c
        let c := if name = "extend" && l.nat "rc" = TPM_BAD_LOCALITY && l.nat "pcr" < 16 then
            mism c s!"SPEC[pcr-extend-policy] extend of static PCR {l.nat "pcr"} refused for locality {loc}" else c
        if name = "other" then c else
        let c := if l.nat "rc" ≠ obs.rc then mism c s!"{sigOf name}{name}: rc model={obs.rc} impl={l.nat "rc"}" else c
        if l.nat "rc" = 0 && obs.rc = 0 && l.bytes "out" ≠ obs.out then
          mism c s!"{sigOf name}{name}: output model={hexOfBytes obs.out} impl={l.str "out"}"
        else c
  | _ => c

def check (ls : List Line) : Report := (ls.foldl step {}).rep

end TpmVerif.Check.C20
