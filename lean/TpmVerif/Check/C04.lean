import TpmVerif.Base.Trace
import TpmVerif.Model.Auth
/-! Checker for C04 traces: the model decides every authorization from the wire bytes and the secrets; the TPM's
    return code, its response HMAC/nonce and the (non-)effect of the command are compared with that decision. -/
namespace TpmVerif.Check.C04
open TpmVerif TpmVerif.Model TpmVerif.Model.Auth

structure CS where
  st : Auth.St := {}
  nv : List (Nat × Bytes) := []
  rep : Report := {}
  line : Nat := 0
  pcrVals : Bytes := []      -- the selected PCR values as last read (concatenated)

def mism (c : CS) (msg : String) : CS :=
  { c with rep := { c.rep with mismatches := c.rep.mismatches ++ [s!"line {c.line}: {msg}"] } }
def branch (c : CS) (b : String) : CS :=
  if c.rep.branches.contains b then c else { c with rep := { c.rep with branches := b :: c.rep.branches } }

def RH_NULL : Nat := 0x40000007

/-- sessions of a success response: after the parameters, per session nonce 2B, attributes, hmac 2B -/
def parseRspSessions : Bytes → Nat → List (Bytes × Nat × Bytes)
  | _, 0 => []
  | bs, f + 1 =>
    match take2B bs with
    | none => []
    | some (n, r) =>
      match rdBE r 0 1 with
      | none => []
      | some at' =>
        match take2B (r.drop 1) with
        | none => []
        | some (h, r') => (n, at', h) :: parseRspSessions r' f

def cname : Check → String
  | .pass => "pass" | .failAuth => "auth" | .failPolicy => "policy" | .failPolicyCC => "policy-cc" | .unavailable => "unavailable"
  | .authType => "auth-type" | .badAttributes => "attributes" | .pcrChanged => "pcr-changed" | .noSession => "no-session"
  | .failLocality => "locality" | .failPP => "physical-presence"
def vname : Verdict → String
  | .ok => "ok" | .authMissing => "missing" | .authFail i w => s!"fail{i}-{cname w}" | .unknownEntity => "unknown-entity"

/-- the return codes that express this refusal for session `i` (0-based) -/
def rcsOf (i : Nat) : Check → List Nat
  | .failAuth => [RC_AUTH_FAIL + 0x800 + (i + 1) * 256, RC_BAD_AUTH + 0x800 + (i + 1) * 256]
  | .failPolicy => [0x09D + 0x800 + (i + 1) * 256]
  | .failPolicyCC => [0x0A4 + 0x800 + (i + 1) * 256]
  | .unavailable => [0x12F]
  | .authType => [0x124]
  | .badAttributes => [0x082 + 0x800 + (i + 1) * 256]
  | .pcrChanged => [0x128]
  | .failLocality => [0x907]
  | .failPP => [0x090 + 0x800 + (i + 1) * 256, 0x090]
  | _ => []

def rspHandleBytes (cc : Nat) : Nat :=
  match Gen.ccTable.find? (·.1 == cc) with
  | some (_, _, true, _, _) => 4
  | _ => 0

def authKind (st : Auth.St) (cmd : Cmd) : String :=
  match cmd.auths.head? with
  | none => "none"
  | some a =>
    if a.sh = TPM_RS_PW then "pw" else
    match st.session a.sh with
    | none => "hmac-nosession"
    | some s =>
      if s.policy then s!"policy(auth={s.needAuth},pw={s.needPw},cc={s.pcc != 0})"
      else if !s.bound then "hmac-unbound"
      else if (cmd.handles.head?.bind st.ent).any (boundTo s) then "hmac-bound" else "hmac-bound-elsewhere"

def CC_NV_Write : Nat := 0x137
def CC_NV_ChangeAuth : Nat := 0x13B
def CC_NV_UndefineSpaceSpecial : Nat := 0x11F

def stepAuth (c : CS) (l : Line) : CS :=
  let req := l.bytes "req"; let rsp := l.bytes "rsp"; let rc := l.nat "rc"
  match parseCmd req with
  | none => mism c "request does not parse"
  | some (cmd, attr) =>
    -- where the command arrives and whether the platform asserts physical presence (policies may restrict both)
    let c := { c with st := { c.st with cmdLocality := (l.nat? "loc").getD 0, pp := (l.nat? "pp").getD 0 == 1 } }
    let v := authorize c.st cmd attr
    let kind := authKind c.st cmd
    let c := branch c s!"{l.str "what"}/corrupt={l.nat "corrupt"}/{kind}/model={vname v}/rc={rc}"
    match v with
    | .unknownEntity => mism c "command on an entity the trace did not declare"
    | .authMissing =>
        if rc = 0 then mism c s!"SPEC[auth-missing-accepted] cc={cmd.cc}: needs {requiredAuths attr} authorization(s), {cmd.auths.length} given, command executed"
        else if rc ≠ RC_AUTH_MISSING then mism c s!"SPEC[auth-missing-rc] cc={cmd.cc}: needs {requiredAuths attr} authorization(s), {cmd.auths.length} given, rc={rc} (expected TPM_RC_AUTH_MISSING)"
        else c
    | .authFail i why =>
        if rc = 0 then mism c s!"SPEC[auth-bypass] {l.str "what"} cc={cmd.cc} corrupt={l.nat "corrupt"} ({kind}): authorization {i} must be refused ({cname why}) but the command succeeded"
        else if !(rcsOf i why).contains rc then
          mism c s!"SPEC[auth-fail-rc] {l.str "what"} cc={cmd.cc} corrupt={l.nat "corrupt"} ({kind}): rc={rc}, expected {rcsOf i why} ({cname why}, session {i + 1})"
        else c
    | .ok =>
        -- a policy session without authValue does not protect the parameters: altered parameters may fail on their own
        if rc ≠ 0 ∧ l.nat "corrupt" = 4 then c else
        if rc ≠ 0 then mism c s!"SPEC[valid-auth-refused] {l.str "what"} cc={cmd.cc} ({kind}): a correct authorization was answered rc={rc}" else
        let st0 := c.st      -- sessions as they were when the command arrived (the response handling below rolls the nonces)
        -- response: nonce rolls, HMAC verifies
        let body := rsp.drop (10 + rspHandleBytes cmd.cc)
        let psz := (rdBE body 0 4).getD 0
        let rparams := (body.drop 4).take psz
        let rs := parseRspSessions ((body.drop 4).drop psz) 3
        let c := if cmd.tag = 0x8002 ∧ rs.length ≠ cmd.auths.length then mism c s!"SPEC[response-sessions] {cmd.auths.length} sessions in, {rs.length} out" else c
        let c := (List.range (min rs.length cmd.auths.length)).foldl (fun c i =>
          match cmd.auths[i]?, rs[i]?, (cmd.handles[i]?).bind c.st.ent with
          | some a, some (nt, rattrs, rh'), some e =>
            if a.sh = TPM_RS_PW then
              if nt ≠ [] ∨ rh' ≠ [] then mism c "SPEC[response-hmac] password session answered with nonce/hmac" else c
            else match c.st.session a.sh with
              | none => c
              | some s =>
                let c := if nt = s.nonceTPM then mism c s!"SPEC[nonce-not-rolled] session {a.sh}: nonceTPM unchanged after a successful command" else c
                -- the index deleted by NV_UndefineSpaceSpecial has no authValue any more
                let e' : Entity := if cmd.cc = CC_NV_UndefineSpaceSpecial ∧ i = 0 then { e with auth := [] } else e
                let key := sessKey s e'
                let exp := if key = [] ∧ ¬ (s.policy ∧ s.needPw) then
                    (if rh' = [] then [] else expectedRspHmac key cmd.cc rparams nt a.nonce rattrs)
                  else if s.policy ∧ s.needPw then []
                  else expectedRspHmac key cmd.cc rparams nt a.nonce rattrs
                let c := if exp ≠ rh' then mism c s!"SPEC[response-hmac] {l.str "what"} cc={cmd.cc} ({kind}): response HMAC {hexOfBytes rh'} ≠ reference {hexOfBytes exp}" else c
                { c with st := { (c.st.rollNonce a.sh nt) with sess := (c.st.rollNonce a.sh nt).sess.map (fun x => if x.handle == a.sh then resetPolicy x else x) } }
          | _, _, _ => c) c
        -- parameter encryption: what the first session's attributes ask for
        let a0 := cmd.auths.head?
        let s0 := a0.bind (fun a => st0.session a.sh)
        let e0 := (cmd.handles.head?).bind st0.ent
        let decrypt : Bool := match a0 with | some a => a.attrs / 32 % 2 == 1 | none => false
        let encrypt : Bool := match a0 with | some a => a.attrs / 64 % 2 == 1 | none => false
        -- the command's first parameter as the TPM sees it after decryption
        let plainParams : Bytes := match decrypt, a0, s0, e0, take2B cmd.params with
          | true, some a, some s, some e, some (d, r) => be16 d.length ++ paramCrypt s.sym (sessKey s e) a.nonce s.nonceTPM d false ++ r
          | _, _, _, _, _ => cmd.params
        -- an encrypted response parameter must decrypt to what the model holds (NV_Read)
        let c := match encrypt, a0, s0, e0, rs.head?, take2B rparams with
          | true, some a, some s, some e, some (ntNew, _, _), some (d, _) =>
            let plain := paramCrypt s.sym (sessKey s e) ntNew a.nonce d false
            if cmd.cc = 0x14E then
              let size := (rdBE cmd.params 0 2).getD 0; let off := (rdBE cmd.params 2 2).getD 0
              match cmd.handles[1]?.bind (fun idx => c.nv.find? (·.1 == idx)) with
              | some (_, nvd) =>
                if plain ≠ (nvd.drop off).take size then
                  mism c s!"SPEC[encrypted-response] NV_Read response decrypts (sym {s.sym}) to {hexOfBytes plain}, the index holds {hexOfBytes ((nvd.drop off).take size)}"
                else branch c s!"encrypted-response/sym={s.sym}/ok"
              | none => c
            else c
          | _, _, _, _, _, _ => c
        -- effects of the authorized command in the model
        if cmd.cc = CC_NV_Write then
          match take2B plainParams, cmd.handles[1]? with
          | some (data, r), some idx =>
            let off := (rdBE r 0 2).getD 0
            { c with nv := c.nv.map (fun (h, d) => if h = idx then (h, d.take off ++ data ++ d.drop (off + data.length)) else (h, d)) }
          | _, _ => c
        else if cmd.cc = CC_NV_ChangeAuth then
          match take2B cmd.params, cmd.handles[0]? with
          | some (na, _), some idx => { c with st := c.st.setAuth idx na }
          | _, _ => c
        else if cmd.cc = CC_NV_UndefineSpaceSpecial then
          match cmd.handles[0]? with
          | some idx => { c with st := { c.st with ents := c.st.ents.filter (·.handle ≠ idx) }, nv := c.nv.filter (·.1 ≠ idx) }
          | none => c
        else c

def hexNat4 (s : String) : Nat := s.toList.foldl (fun acc ch => acc * 16 + (if ch.isDigit then ch.toNat - 48 else if 'a' ≤ ch ∧ ch ≤ 'f' then ch.toNat - 87 else 0)) 0

def polOp (l : Line) (vals : Bytes) (g : Nat) : Option PolicyOp :=
  let cc := (l.str "cc")
  if cc = "16b" then some .authValue else if cc = "18c" then some .password
  else if cc = "16c" then some (.commandCode (l.nat "code"))
  else if cc = "171" then some (.or (((l.str "digests").splitOn ",").map (fun h => (Line.hexBytes h).getD [])))
  else if cc = "17f" then some (.pcr (l.bytes "sel") vals (l.bytes "given") g)
  else if cc = "180" then some .restart
  -- the assertions that only extend the digest; what is hashed into it is assembled here from the command's parameters
  else if cc = "16f" then some (.locality (l.nat "loc"))
  else if cc = "16e" then some (.cpHash (l.bytes "h"))
  else if cc = "170" ∨ cc = "190" then some (.assert (hexNat4 cc) (l.bytes "h"))
  else if cc = "18f" then some (.assert 0x18F [UInt8.ofNat (l.nat "w")])
  else if cc = "187" then some .physicalPresence
  else if cc = "16d" then some (.assert 0x16D (Crypto.hash Crypto.sha256 (l.bytes "operand" ++ be16 (l.nat "offset") ++ be16 (l.nat "op"))))
  else if cc = "188" then some (.assert 0x188 ((if l.nat "include" = 1 then l.bytes "obj" else []) ++ l.bytes "parent" ++ [UInt8.ofNat (l.nat "include")]))
  else if cc = "151" then some (.update 0x151 (l.bytes "name") (l.bytes "ref"))
  else none

def step (c : CS) (l : Line) : CS :=
  let c := { c with line := c.line + 1 }
  match l.kind with
  | "hist" => { c with st := {}, nv := [] }
  | "ent" =>
      let h := l.nat "handle"
      let nvk : Bool := l.str "kind" == "nv"
      let e : Entity := { handle := h, name := l.bytes "name", auth := stripZeros (l.bytes "auth"), policy := l.bytes "policy",
                          isNv := nvk || (h / 16777216 == 1), isObject := h / 16777216 == 0x80 || h / 16777216 == 0x81,
                          authRead := (l.nat? "authread").getD 1 == 1, authWrite := (l.nat? "authwrite").getD 1 == 1,
                          polRead := (l.nat? "polread").getD 0 == 1, polWrite := (l.nat? "polwrite").getD 0 == 1 }
      let c := { c with st := { c.st with ents := e :: c.st.ents.filter (·.handle ≠ h) } }
      if l.get? "nv" ≠ none then { c with nv := (h, l.bytes "nv") :: c.nv.filter (·.1 ≠ h) } else c
  | "sstart" =>
      if l.nat "rc" ≠ 0 then c else
      let bind := l.nat "bind"
      let be := if bind = RH_NULL then none else c.st.ent bind
      let nt := l.bytes "nt"; let nc := l.bytes "nc"
      let ty := l.nat "type"
      let salt : Bytes := if l.get? "ephd" = none then [] else (eccSalt (beNat (l.bytes "ephd")) (beNat (l.bytes "kx")) (beNat (l.bytes "ky"))).getD []
      let sym := l.nat "sym"
      let s : Session := match be with
        | none => { handle := l.nat "h", nonceTPM := nt, key := sessionKeyWith [] salt nt nc, bound := false, bindName := [], bindAuth := [], policy := ty != 0, trial := ty == 3, sym := sym }
        | some e => { handle := l.nat "h", nonceTPM := nt, key := sessionKeyWith e.auth salt nt nc, bound := ty == 0, bindName := e.name, bindAuth := e.auth, policy := ty != 0, trial := ty == 3, sym := sym }
      let c := if s.key ≠ l.bytes "skey" then mism c s!"session key: harness {l.str "skey"} ≠ reference KDFa {hexOfBytes s.key}" else c
      let c := branch c s!"sstart/bound={s.bound}/type={ty}/salted={decide (salt ≠ [])}/sym={sym}"
      { c with st := { c.st with sess := s :: c.st.sess.filter (·.handle ≠ s.handle) } }
  | "sflush" => { c with st := { c.st with sess := c.st.sess.filter (·.handle ≠ l.nat "h") } }
  | "pol" =>
      let c := { c with rep := { c.rep with events := c.rep.events + 1 } }
      match polOp l c.pcrVals c.st.pcrCounter, c.st.session (l.nat "sh") with
      | some op, some s =>
        let (s', mrc) := policyStep s op
        let rc := l.nat "rc"
        let c := branch c s!"pol/{l.str "cc"}/trial={s.trial}/model-rc={mrc}/rc={rc}"
        let c := if mrc = 0 ∧ rc ≠ 0 then mism c s!"SPEC[policy-step-refused] policy command {l.str "cc"} answered rc={rc}"
          else if mrc ≠ 0 ∧ rc = 0 then mism c s!"SPEC[policy-step-accepted] policy command {l.str "cc"} must be refused (model rc={mrc}) but succeeded"
          else if mrc ≠ 0 ∧ rc % 64 + 128 * (rc / 128 % 2) ≠ mrc % 64 + 128 * (mrc / 128 % 2) then mism c s!"policy command {l.str "cc"}: rc={rc}, model base code {mrc}"
          else c
        { c with st := { c.st with sess := c.st.sess.map (fun x => if x.handle == s.handle then s' else x) } }
      | _, _ => mism c "policy command on an unknown session / unknown command"
  | "pcrv" =>
      if l.nat "rc" ≠ 0 then mism c s!"PCR_Read of the policy's selection failed rc={l.nat "rc"}" else
      { c with pcrVals := l.bytes "vals", st := { c.st with pcrCounter := l.nat "ctr" } }
  | "pgd" =>
      let c := { c with rep := { c.rep with events := c.rep.events + 1 } }
      match c.st.session (l.nat "sh") with
      | some s => if l.nat "rc" = 0 ∧ l.bytes "digest" ≠ s.pDigest then
          mism c s!"SPEC[policy-digest] PolicyGetDigest {l.str "digest"} ≠ reference {hexOfBytes s.pDigest}" else branch c "pgd/equal"
      | none => c
  | "exists" =>
      let c := { c with rep := { c.rep with events := c.rep.events + 1 } }
      let model : Bool := (c.st.ent (l.nat "handle")).isSome
      let actual : Bool := l.nat "rc" == 0
      if model ≠ actual then mism c s!"SPEC[unauthorized-effect] index {l.nat "handle"} exists={actual} but the model (authorized deletions only) says {model} (delete answered rc={l.nat "cmd_rc"})"
      else branch c s!"exists/{actual}"
  | "authchange" => { c with st := c.st.setAuth (l.nat "handle") (l.bytes "auth") }
  | "auth" => stepAuth { c with rep := { c.rep with events := c.rep.events + 1 } } l
  | "effect" =>
      let c := { c with rep := { c.rep with events := c.rep.events + 1 } }
      match c.nv.find? (·.1 == l.nat "handle") with
      | none => c
      | some (_, d) =>
        if l.nat "rc" ≠ 0 then mism c s!"password read-back failed rc={l.nat "rc"}" else
        if l.bytes "actual" ≠ d then
          mism c s!"SPEC[unauthorized-effect] NV contents {l.str "actual"} ≠ model {hexOfBytes d} (the preceding write was answered rc={l.nat "cmd_rc"})"
        else branch c s!"effect/cmd_rc={l.nat "cmd_rc"}"
  | _ => c

def check (ls : List Line) : Report := (ls.foldl step {}).rep

end TpmVerif.Check.C04
