import TpmVerif.Base.Trace
import TpmVerif.Model.Auth
/-! Checker for C04 traces: the model decides every authorization from the wire bytes and the secrets; the TPM's
    return code, its response HMAC/nonce and the (non-)effect of the command are compared with that decision. -/
namespace TpmVerif.Check.C04
open TpmVerif TpmVerif.Model TpmVerif.Model.Auth

structure CS where
  st : Auth.St := {}
  nv : List (Nat × Bytes) := []
  rep : Report := {}
  line : Nat := 0

def mism (c : CS) (msg : String) : CS :=
  { c with rep := { c.rep with mismatches := c.rep.mismatches ++ [s!"line {c.line}: {msg}"] } }
def branch (c : CS) (b : String) : CS :=
  if c.rep.branches.contains b then c else { c with rep := { c.rep with branches := b :: c.rep.branches } }

def RH_NULL : Nat := 0x40000007

/-- sessions of a success response: after the parameters, per session nonce 2B, attributes, hmac 2B -/
def parseRspSessions : Bytes → Nat → List (Bytes × Nat × Bytes)
  | _, 0 => []
  | bs, f + 1 =>
    match take2B bs with
    | none => []
    | some (n, r) =>
      match rdBE r 0 1 with
      | none => []
      | some at' =>
        match take2B (r.drop 1) with
        | none => []
        | some (h, r') => (n, at', h) :: parseRspSessions r' f

def vname : Verdict → String
  | .ok => "ok" | .authMissing => "missing" | .authFail i => s!"fail{i}" | .unknownEntity => "unknown-entity"

def rspHandleBytes (cc : Nat) : Nat :=
  match Gen.ccTable.find? (·.1 == cc) with
  | some (_, _, true, _, _) => 4
  | _ => 0

def authKind (st : Auth.St) (cmd : Cmd) : String :=
  match cmd.auths.head? with
  | none => "none"
  | some a =>
    if a.sh = TPM_RS_PW then "pw" else
    match st.session a.sh with
    | none => "hmac-nosession"
    | some s =>
      if !s.bound then "hmac-unbound"
      else if (cmd.handles.head?.bind st.ent).any (boundTo s) then "hmac-bound" else "hmac-bound-elsewhere"

def stepAuth (c : CS) (l : Line) : CS :=
  let req := l.bytes "req"; let rsp := l.bytes "rsp"; let rc := l.nat "rc"
  match parseCmd req with
  | none => mism c "request does not parse"
  | some (cmd, attr) =>
    let v := authorize c.st cmd attr
    let kind := authKind c.st cmd
    let c := branch c s!"{l.str "what"}/corrupt={l.nat "corrupt"}/{kind}/model={vname v}/rc={rc}"
    match v with
    | .unknownEntity => mism c "command on an entity the trace did not declare"
    | .authMissing =>
        if rc = 0 then mism c s!"SPEC[auth-missing-accepted] cc={cmd.cc}: needs {requiredAuths attr} authorization(s), {cmd.auths.length} given, command executed"
        else if rc ≠ RC_AUTH_MISSING then mism c s!"SPEC[auth-missing-rc] cc={cmd.cc}: needs {requiredAuths attr} authorization(s), {cmd.auths.length} given, rc={rc} (expected TPM_RC_AUTH_MISSING)"
        else c
    | .authFail i =>
        if rc = 0 then mism c s!"SPEC[auth-bypass] {l.str "what"} cc={cmd.cc} corrupt={l.nat "corrupt"}: authorization {i} does not verify (model) but the command succeeded"
        else if rc ≠ RC_AUTH_FAIL + 0x800 + (i + 1) * 256 ∧ rc ≠ RC_BAD_AUTH + 0x800 + (i + 1) * 256 then
          mism c s!"SPEC[auth-fail-rc] {l.str "what"} cc={cmd.cc} corrupt={l.nat "corrupt"}: rc={rc}, expected AUTH_FAIL/BAD_AUTH for session {i + 1}"
        else c
    | .ok =>
        let c := if l.nat "corrupt" ≠ 0 then mism c s!"generator: corrupt={l.nat "corrupt"} but the model accepts ({l.str "what"})" else c
        if rc ≠ 0 then mism c s!"SPEC[valid-auth-refused] {l.str "what"} cc={cmd.cc} ({kind}): a correct authorization was answered rc={rc}" else
        -- response: nonce rolls, HMAC verifies
        let body := rsp.drop (10 + rspHandleBytes cmd.cc)
        let psz := (rdBE body 0 4).getD 0
        let rparams := (body.drop 4).take psz
        let rs := parseRspSessions ((body.drop 4).drop psz) 3
        let c := if cmd.tag = 0x8002 ∧ rs.length ≠ cmd.auths.length then mism c s!"SPEC[response-sessions] {cmd.auths.length} sessions in, {rs.length} out" else c
        let c := (List.range (min rs.length cmd.auths.length)).foldl (fun c i =>
          match cmd.auths[i]?, rs[i]?, (cmd.handles[i]?).bind c.st.ent with
          | some a, some (nt, rattrs, rh'), some e =>
            if a.sh = TPM_RS_PW then
              if nt ≠ [] ∨ rh' ≠ [] then mism c "SPEC[response-hmac] password session answered with nonce/hmac" else c
            else match c.st.session a.sh with
              | none => c
              | some s =>
                let c := if nt = s.nonceTPM then mism c s!"SPEC[nonce-not-rolled] session {a.sh}: nonceTPM unchanged after a successful command" else c
                let exp := expectedRspHmac s e cmd.cc rparams nt a.nonce rattrs
                let c := if exp ≠ rh' then mism c s!"SPEC[response-hmac] {l.str "what"} cc={cmd.cc}: response HMAC {hexOfBytes rh'} ≠ reference {hexOfBytes exp}" else c
                { c with st := c.st.rollNonce a.sh nt }
          | _, _, _ => c) c
        -- NV_Write took effect in the model
        if cmd.cc = 0x137 then
          match take2B cmd.params, cmd.handles[1]? with
          | some (data, r), some idx =>
            let off := (rdBE r 0 2).getD 0
            { c with nv := c.nv.map (fun (h, d) => if h = idx then (h, d.take off ++ data ++ d.drop (off + data.length)) else (h, d)) }
          | _, _ => c
        else c

def step (c : CS) (l : Line) : CS :=
  let c := { c with line := c.line + 1 }
  match l.kind with
  | "hist" => { c with st := {}, nv := [] }
  | "ent" =>
      let h := l.nat "handle"
      let e : Entity := { handle := h, name := l.bytes "name", auth := stripZeros (l.bytes "auth") }
      let c := { c with st := { c.st with ents := e :: c.st.ents.filter (·.handle ≠ h) } }
      if l.get? "nv" ≠ none then { c with nv := (h, l.bytes "nv") :: c.nv.filter (·.1 ≠ h) } else c
  | "sstart" =>
      if l.nat "rc" ≠ 0 then c else
      let bind := l.nat "bind"
      let be := if bind = RH_NULL then none else c.st.ent bind
      let nt := l.bytes "nt"; let nc := l.bytes "nc"
      let s : Session := match be with
        | none => { handle := l.nat "h", nonceTPM := nt, key := [], bound := false, bindName := [], bindAuth := [] }
        | some e => { handle := l.nat "h", nonceTPM := nt, key := sessionKey e.auth nt nc, bound := true, bindName := e.name, bindAuth := e.auth }
      let c := if s.key ≠ l.bytes "skey" then mism c s!"session key: harness {l.str "skey"} ≠ reference KDFa {hexOfBytes s.key}" else c
      let c := branch c s!"sstart/bound={s.bound}"
      { c with st := { c.st with sess := s :: c.st.sess.filter (·.handle ≠ s.handle) } }
  | "sflush" => { c with st := { c.st with sess := c.st.sess.filter (·.handle ≠ l.nat "h") } }
  | "authchange" => { c with st := c.st.setAuth (l.nat "handle") (l.bytes "auth") }
  | "auth" => stepAuth { c with rep := { c.rep with events := c.rep.events + 1 } } l
  | "effect" =>
      let c := { c with rep := { c.rep with events := c.rep.events + 1 } }
      match c.nv.find? (·.1 == l.nat "handle") with
      | none => c
      | some (_, d) =>
        if l.nat "rc" ≠ 0 then mism c s!"password read-back failed rc={l.nat "rc"}" else
        if l.bytes "actual" ≠ d then
          mism c s!"SPEC[unauthorized-effect] NV contents {l.str "actual"} ≠ model {hexOfBytes d} (the preceding write was answered rc={l.nat "cmd_rc"})"
        else branch c s!"effect/cmd_rc={l.nat "cmd_rc"}"
  | _ => c

def check (ls : List Line) : Report := (ls.foldl step {}).rep

end TpmVerif.Check.C04
