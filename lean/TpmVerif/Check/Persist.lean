import TpmVerif.Base.Trace
import TpmVerif.Model.Persist
import TpmVerif.Model.Cancel
import TpmVerif.Gen.Consts
import TpmVerif.Check.Admin
/-! Checkers for C03 / C05 / C07 traces: the harness reports per command whether the NV image changed outside the
    ORDERLY_DATA block, how many blobs storage accepted and whether storage agrees with the image; the rules below are
    the conclusions of the theorems in Props.C03/C05/C07 evaluated on those observations. -/
namespace TpmVerif.Check.Persist
open TpmVerif TpmVerif.Model.Persist

structure CS where
  rep : Report := {}
  line : Nat := 0
  adm : TpmVerif.Check.Admin.AS := {}

def mism (c : CS) (msg : String) : CS :=
  { c with rep := { c.rep with mismatches := c.rep.mismatches ++ [s!"line {c.line}: {msg}"] } }
def branch (c : CS) (b : String) : CS :=
  if c.rep.branches.contains b then c else { c with rep := { c.rep with branches := b :: c.rep.branches } }
def ev (c : CS) : CS := { c with rep := { c.rep with events := c.rep.events + 1 } }

/-- the commit-protocol model run on the observation: a command whose image changed made a real NvWrite -/
def modelCommand (changed : Bool) : St Nat :=
  command ({ nv := 0, disk := some 0 } : St Nat) (if changed then [.nvWrite (· + 1)] else [.clockWrite id]) true

def stepC03 (c : CS) (l : Line) : CS :=
  let c := { c with line := c.line + 1 }
  match l.kind with
  | "c" =>
      let c := ev c
      let changed : Bool := l.str "changed" == "1"
      let m := modelCommand changed
      let c := branch c s!"c/{l.str "cc"}/rc={if l.nat "rc" = 0 then "ok" else "err"}/changed={changed}/stored={decide (l.nat "stores" > 0)}"
      let c := if l.str "changed" = "-1" ∨ l.str "eq" = "-1" then mism c "permanent blob could not be segmented (ORDERLY_DATA magic not found): format changed?" else c
      -- ack_durable: a persistent change is in storage when the command returns
      let c := if m.stores = 1 ∧ l.nat "stores" = 0 then
                 mism c s!"SPEC[ack-not-durable] command {l.str "cc"} (rc={l.nat "rc"}) changed the persistent image but nothing was handed to storage" else c
      -- Synced: storage agrees with the image outside ORDERLY_DATA after every command
      let c := if l.str "eq" = "0" then
                 mism c s!"SPEC[storage-differs-from-image] after command {l.str "cc"} (rc={l.nat "rc"}) storage and the NV image differ outside the ORDERLY_DATA block" else c
      c
  | "a" =>
      let c := ev c
      let (adm', ms, br) := TpmVerif.Check.Admin.step c.adm l
      let c := branch { c with adm := adm' } br
      ms.foldl mism c
  | "cut" =>
      let c := ev c
      let c := branch c s!"cut/variant={l.nat "variant"}"
      if l.get? "snap" ≠ none then mism c "GetState failed" else
      let c := if l.nat "maininit" ≠ 0 ∨ l.nat "startup_rc" ≠ 0 then
                 mism c s!"SPEC[restart-failed] restart from stored state: MainInit={l.nat "maininit"} Startup rc={l.nat "startup_rc"}" else c
      let c := if l.nat "maininit" = 0 ∧ l.nat "startup_rc" = 0 ∧ l.nat "equal" ≠ 1 then
                 mism c s!"SPEC[persistent-entities-lost] after a power cut (variant {l.nat "variant"}) the persistent entities differ from what the TPM had acknowledged" else c
      -- the high-water mark of deleted counters is persistent state too: a new counter after the cut must not start lower
      let c := if l.nat "ctr_live" ≠ 0 ∧ l.nat "ctr_restart" ≠ 0 ∧ l.nat "ctr_restart" < l.nat "ctr_live" then
                 mism c s!"SPEC[counter-highwater-lost] a new NV counter starts at {l.nat "ctr_restart"} after the power cut but at {l.nat "ctr_live"} before it" else c
      c
  | "reborn" =>
      -- an index deleted before the cut and defined again after it: a new index is unwritten (NV_Read: TPM_RC_NV_UNINITIALIZED)
      let c := ev c
      let c := branch c s!"reborn/define_rc={l.nat "define_rc"}/read_rc={l.nat "read_rc"}"
      if l.nat "define_rc" = 0 ∧ l.nat "attrs" ≠ l.nat "want" then
        mism c s!"SPEC[deleted-index-returned] index {l.nat "handle"} was deleted before the power cut; defined again after it with attributes {l.nat "want"}, NV_ReadPublic shows {l.nat "attrs"}"
      else if l.nat "define_rc" = 0 ∧ (l.nat "read_rc" ≠ 0x14A ∨ l.nat "written" ≠ 0) then
        mism c s!"SPEC[deleted-index-returned] index {l.nat "handle"} was deleted before the power cut; defined again after it, it comes up written (NV_Read rc={l.nat "read_rc"}, WRITTEN={l.nat "written"})"
      else c
  | _ => c

def checkC03 (ls : List Line) : Report := (ls.foldl stepC03 {}).rep

def stepC05 (c : CS) (l : Line) : CS :=
  let c := { c with line := c.line + 1 }
  match l.kind with
  | "f" =>
      let c := ev c
      if l.nat "rc" = 0 then branch c s!"f/{l.str "cc"}/ok" else
      let da : Bool := l.nat "da" == 1
      let c := branch c s!"f/{l.str "cc"}/kind={l.nat "kind"}/da={da}"
      let c := if l.str "img_eq" = "-1" then mism c "permanent blob could not be segmented" else c
      -- no_write_no_trace: error ⇒ image and storage unchanged (DA-class errors may count / mark DA_USED)
      let c := if !da ∧ l.str "img_eq" = "0" then
                 mism c s!"SPEC[error-changed-persistent-state] command {l.str "cc"} answered rc={l.nat "rc"} but the persistent image changed" else c
      let c := if !da ∧ (l.nat "stores" ≠ 0 ∧ l.str "store_eq" = "0") then
                 mism c s!"SPEC[error-rewrote-storage] command {l.str "cc"} answered rc={l.nat "rc"} and storage was rewritten with different content" else c
      let c := if !da ∧ l.nat "batt_eq" ≠ 1 then
                 mism c s!"SPEC[error-left-trace] command {l.str "cc"} answered rc={l.nat "rc"} (mutation kind {l.nat "kind"}) but the observable state changed" else c
      c
  | "ftwin" =>
      let c := ev c
      let c := branch c s!"ftwin/{l.str "what"}/rc={l.nat "rc"}/skipped={l.nat "skipped"}"
      if l.nat "skipped" = 1 then c else
      if l.nat "equal" ≠ 1 then
        mism c s!"SPEC[error-left-trace] after the failed command ({l.str "what"}, cc={l.str "cc"}, rc={l.nat "rc"}) the TPM answers a continuation differently from a TPM that never saw it: command #{l.str "first_diff"} cc={l.str "cc1"} rc {l.str "rc1"} vs {l.str "rc2"}"
      else c
  | "nvfull" =>
      let c := ev c
      let c := branch c s!"nvfull/rc={l.nat "rc"}"
      if l.nat "rc" ≠ 0 ∧ l.str "transient_ok" = "0" then
        mism c s!"SPEC[error-left-trace] EvictControl failing with rc={l.nat "rc"} (NV full after {l.nat "persisted"} objects) unloaded the caller's transient object"
      else if l.nat "rc" ≠ 0 ∧ l.nat "batt_eq" ≠ 1 then
        mism c s!"SPEC[error-left-trace] EvictControl failing with rc={l.nat "rc"} (NV full after {l.nat "persisted"} objects) changed the observable state"
      else c
  | "nvfull2" =>
      let c := ev c
      let c := branch c s!"nvfull2/rc={l.nat "rc"}"
      if l.nat "rc" ≠ 0 ∧ (l.nat "img_eq" ≠ 1 ∨ l.nat "stores" ≠ 0 ∨ l.nat "batt_eq" ≠ 1) then
        mism c s!"SPEC[error-left-trace] NV_DefineSpace of an orderly index refused with rc={l.nat "rc"} while NV is full left a trace (image equal={l.nat "img_eq"}, storage writes={l.nat "stores"}, battery equal={l.nat "batt_eq"})"
      else c
  | "cancel" =>
      let c := ev c
      let k := l.str "k"
      let c := branch c s!"cancel/k={k}/rc={l.nat "rc"}"
      -- cancel_atomic / stale_cancel_cleared / cancel_at_first_poll
      let c := if l.nat "rc" ≠ 0 ∧ l.nat "rc" ≠ 0x909 then mism c s!"cancel: unexpected rc {l.nat "rc"}" else c
      let c := if (k = "-2" ∨ k = "-1") ∧ l.nat "rc" ≠ 0 then mism c s!"SPEC[stale-cancel-effective] a cancel request issued before the command (k={k}) cancelled it (rc={l.nat "rc"})" else c
      let c := if k = "0" ∧ l.nat "rc" ≠ 0x909 then mism c s!"SPEC[cancel-ignored] cancel landing before the first poll did not cancel (rc={l.nat "rc"})" else c
      let c := if l.nat "rc" = 0x909 ∧ (l.nat "batt_eq" ≠ 1 ∨ l.str "img_eq" ≠ "1" ∨ l.nat "stores" ≠ 0) then
                 mism c s!"SPEC[cancel-left-trace] cancelled command left a trace (k={k})" else c
      let c := if l.nat "rc" = 0 ∧ l.nat "batt_eq" ≠ 1 then mism c s!"SPEC[create-flush-left-trace] CreatePrimary + FlushContext changed the observable state (k={k})" else c
      c
  | _ => c

def checkC05 (ls : List Line) : Report := (ls.foldl stepC05 {}).rep

def stepC07 (c : CS) (l : Line) : CS :=
  let c := { c with line := c.line + 1 }
  match l.kind with
  | "firstinit" =>
      let c := ev c
      let c := branch c s!"firstinit/{l.str "fault"}/{l.nat "maininit"}"
      -- no false success: MainInit must not return success when its durable effect (the manufactured state) was refused
      if l.nat "maininit" = 0 ∧ l.str "fault" = "store" ∧ l.nat "stored" = 0 then
        mism c "SPEC[maininit-false-success] TPMLIB_MainInit returned success although storage refused the manufactured state"
      else if l.nat "maininit" = 0 ∧ l.str "fault" ≠ "store" then
        mism c s!"SPEC[maininit-false-success] TPMLIB_MainInit returned success although the {l.str "fault"} callback failed"
      else c
  | "storefault" =>
      let c := ev c
      let c := branch c s!"storefault/k={l.nat "k"}/{l.str "cc"}"
      -- store_fail_is_failure_mode
      let c := if l.nat "rc" ≠ Gen.TPM_RC_FAILURE ∨ l.nat "infail" = 0 then
                 mism c s!"SPEC[storefault-not-failure] command {l.str "cc"} whose state change could not be stored answered rc={l.nat "rc"} (failure mode={l.nat "infail"})" else c
      c
  | "afterfault" =>
      let c := ev c
      let c := if l.nat "allfail" ≠ 1 then mism c "SPEC[failure-mode-left] commands succeeded after a refused commit without re-initialisation" else c
      c
  | "restart" =>
      let c := ev c
      let c := branch c s!"restart/hit={l.nat "hit"}"
      -- accepted blobs are loadable, and the TPM started from them works
      let c := if l.nat "maininit" ≠ 0 ∨ l.nat "startup_rc" ≠ 0 ∨ l.nat "cap_rc" ≠ 0 then
                 mism c s!"SPEC[accepted-blob-unusable] restart from the last accepted blob: MainInit={l.nat "maininit"} Startup={l.nat "startup_rc"} GetCapability={l.nat "cap_rc"}" else c
      let c := if l.nat "validate" ≠ 0 then mism c s!"SPEC[accepted-blob-unusable] ValidateState on the last accepted blob returned {l.nat "validate"}" else c
      c
  | "loadfault" =>
      let c := ev c
      let c := branch c s!"loadfault/mode={l.nat "mode"}/validate={l.nat "validate"}/maininit={l.nat "maininit"}"
      let c := if l.nat "maininit" = 0 then mism c s!"SPEC[maininit-false-success] MainInit returned success although the load callback delivered unusable data (mode {l.nat "mode"})" else c
      let c := if l.nat "validate" = 0 then mism c s!"SPEC[validate-false-success] ValidateState returned success although the load callback delivered unusable data (mode {l.nat "mode"})" else c
      c
  | "loadprobe" =>
      let c := ev c
      let c := branch c s!"loadprobe/k={l.nat "k"}/mode={l.nat "mode"}/fired={l.nat "fired"}/maininit={l.nat "maininit"}/manufactured={l.nat "manufactured"}"
      let c := if l.nat "fired" = 1 ∧ l.nat "manufactured" = 1 then
          mism c s!"SPEC[load-error-as-no-state] a load error at call {l.nat "k"} of MainInit (mode {l.nat "mode"}) was taken for 'no state': a new TPM was manufactured over existing state" else c
      let c := if l.nat "same" ≠ 1 ∧ (l.str "n0").toInt?.getD 0 > 0 then
          mism c s!"SPEC[state-replaced] after a MainInit with a load fault (call {l.nat "k"}, mode {l.nat "mode"}, MainInit={l.nat "maininit"}) the stored TPM is not the same TPM any more (after={l.nat "after"}, startup rc={l.nat "startup_rc"})" else c
      c
  | _ => c

def checkC07 (ls : List Line) : Report := (ls.foldl stepC07 {}).rep

end TpmVerif.Check.Persist
