import TpmVerif.Base.Trace
import TpmVerif.Model.Clock
/-! Correspondence checker for C16 traces: replays the harness's events through `Model.Clock`
    and reports every observable on which model and implementation differ. -/
namespace TpmVerif.Check.C16
open TpmVerif TpmVerif.Model.Clock

structure CS where
  st : St := {}
  mono : Nat := 0
  real : Nat := 0
  saved : Option Saved := none
  rep : Report := {}
  line : Nat := 0
  -- Spec-side (model-free) monitors on the observed ReadClock sequence
  lastClock : Nat := 0          -- last observed clock since the last non-orderly restart
  sawCut : Bool := false

def mism (c : CS) (msg : String) : CS :=
  { c with rep := { c.rep with mismatches := c.rep.mismatches ++ [s!"line {c.line}: {msg}"] } }

def branch (c : CS) (b : String) : CS :=
  if c.rep.branches.contains b then c else { c with rep := { c.rep with branches := b :: c.rep.branches } }

def parseCmd (l : Line) : Option Cmd :=
  match l.str "op" with
  | "readclock" => some .readClock
  | "clockset" => some (.clockSet (l.nat "v"))
  | "rateadjust" =>
      let a := l.nat "a"     -- encoded as a+3 (0..6)
      some (.rateAdjust ((a : Int) - 3))
  | "startup" => some (.startup (l.nat "su"))
  | "shutdown" => some (.shutdown (l.nat "su"))
  | "commitcmd" => some .commitCmd
  | "neutral" => some .neutral
  | _ => none

def step (c : CS) (l : Line) : CS :=
  let c := { c with line := c.line + 1 }
  match l.kind with
  | "host" => { c with mono := l.nat "mono", real := l.nat "real" }
  | "fresh" =>
      -- new TPM manufactured (orderlyState = TPM_SU_CLEAR, clock 0, safe) and `_TPM_Init` at the current host time
      let nv0 : Nv := { orderly := 0 }
      let (p, t) := ({} : Plat).timerRead c.mono
      { c with st := { p := p, gTime := t, orderly := 0, nv := nv0, disk := nv0 }, saved := none, lastClock := 0 }
  | "cmd" =>
      match parseCmd l with
      | none => mism c s!"unknown op {l.str "op"}"
      | some cmd =>
        let c := { c with rep := { c.rep with events := c.rep.events + 1 } }
        let (st', rc, inf, stored) := c.st.exec c.mono cmd
        let c := { c with st := st' }
        let c := branch c s!"{l.str "op"}/rc={rc}/stored={stored}/safe={st'.safe}"
        let c := if l.nat "rc" ≠ rc then mism c s!"{l.str "op"}: rc model={rc} impl={l.nat "rc"}" else c
        let c := if (l.nat "stores" > 0) ≠ stored then
                   mism c s!"{l.str "op"}: storage written model={stored} impl-stores={l.nat "stores"}" else c
        match inf with
        | none => c
        | some i =>
          let c := if l.nat "time" ≠ i.time then mism c s!"readclock time model={i.time} impl={l.nat "time"}" else c
          let c := if l.nat "clock" ≠ i.clock then mism c s!"readclock clock model={i.clock} impl={l.nat "clock"}" else c
          let c := if l.nat "reset" ≠ i.resetCount then mism c s!"readclock resetCount model={i.resetCount} impl={l.nat "reset"}" else c
          let c := if l.nat "restart" ≠ i.restartCount then mism c s!"readclock restartCount model={i.restartCount} impl={l.nat "restart"}" else c
          let c := if (l.nat "safe" ≠ 0) ≠ i.safe then mism c s!"readclock safe model={i.safe} impl={l.nat "safe"}" else c
          -- Spec monitor (model-free): clock never decreases between ReadClocks unless a power cut intervened
          let oc := l.nat "clock"
          let c := if !c.sawCut && oc < c.lastClock then mism c s!"SPEC clock decreased {c.lastClock} -> {oc}" else c
          { c with lastClock := oc, sawCut := false }
  | "restart" =>
      let c := branch c s!"restart/orderly={isOrderly c.st.disk.orderly}"
      let c := if l.nat "ret" ≠ 0 then mism c s!"MainInit after restart returned {l.nat "ret"}" else c
      { c with st := c.st.restart c.mono, sawCut := true }
  | "suspend" => { c with saved := some (c.st.suspend c.mono c.real) }
  | "resume" =>
      match c.saved with
      | none => mism c "resume without suspend"
      | some sv =>
        let c := branch c s!"resume/monoBack={decide (c.mono < sv.monoPlusAdj)}/realBack={decide (c.real < sv.realAtSave)}"
        let c := if l.nat "ret" ≠ 0 then mism c s!"resume returned {l.nat "ret"}" else c
        { c with st := resume sv c.mono c.real, saved := none }
  | _ => c

def check (ls : List Line) : Report := (ls.foldl step {}).rep

end TpmVerif.Check.C16
