import TpmVerif.Base.Trace
import TpmVerif.Model.Clock
/-! Correspondence checker for C16 traces: replays the harness's events through `Model.Clock`
    and reports every observable on which model and implementation differ. -/
namespace TpmVerif.Check.C16
open TpmVerif TpmVerif.Model.Clock

structure CS where
  st : St := {}
  mono : Nat := 0
  real : Nat := 0
  saved : Option Saved := none
  rep : Report := {}
  line : Nat := 0
  -- Spec-side (model-free) monitors on the observed ReadClock sequence
  lastClock : Nat := 0          -- last observed clock
  sawCut : Bool := false        -- a restart happened since the last ReadClock
  preCut : Nat := 0             -- last Clock observed before the latest NON-orderly restart
  cutNonOrderly : Bool := false -- no successful Startup(orderly) consumed it yet
  lastReset : Nat := 0
  lastRestart : Nat := 0
  sawResume : Bool := false
  lastMono : Nat := 0           -- host monotonic reading at the last ReadClock
  quiet : Bool := false         -- no restart / resume / ClockSet since the last ReadClock
  haveObs : Bool := false       -- a ReadClock was observed in this history

def mism (c : CS) (msg : String) : CS :=
  { c with rep := { c.rep with mismatches := c.rep.mismatches ++ [s!"line {c.line}: {msg}"] } }

def branch (c : CS) (b : String) : CS :=
  if c.rep.branches.contains b then c else { c with rep := { c.rep with branches := b :: c.rep.branches } }

def parseCmd (l : Line) : Option Cmd :=
  match l.str "op" with
  | "readclock" => some .readClock
  | "clockset" => some (.clockSet (l.nat "v"))
  | "rateadjust" =>
      let a := l.nat "a"     -- encoded as a+3 (0..6)
      some (.rateAdjust ((a : Int) - 3))
  | "startup" => some (.startup (l.nat "su"))
  | "shutdown" => some (.shutdown (l.nat "su"))
  | "commitcmd" => some .commitCmd
  | "neutral" => some .neutral
  | _ => none

def step (c : CS) (l : Line) : CS :=
  let c := { c with line := c.line + 1 }
  match l.kind with
  | "host" => { c with mono := l.nat "mono", real := l.nat "real" }
  | "hist" => { c with haveObs := false, quiet := false, lastClock := 0, sawCut := false, sawResume := false, cutNonOrderly := false, lastReset := 0, lastRestart := 0 }
  | "fresh" =>
      -- new TPM manufactured (orderlyState = TPM_SU_CLEAR, clock 0, safe) and `_TPM_Init` at the current host time
      let nv0 : Nv := { orderly := 0 }
      let (p, t) := ({} : Plat).timerRead c.mono
      { c with st := { p := p, gTime := t, orderly := 0, nv := nv0, disk := nv0 }, saved := none, lastClock := 0 }
  | "cmd" =>
      match parseCmd l with
      | none => mism c s!"unknown op {l.str "op"}"
      | some cmd =>
        let c := { c with rep := { c.rep with events := c.rep.events + 1 } }
        let (st', rc, inf, stored) := c.st.exec c.mono cmd
        let c := { c with st := st', quiet := c.quiet && l.str "op" != "clockset" && l.str "op" != "startup" }
        let c := branch c s!"{l.str "op"}/rc={rc}/stored={stored}/safe={st'.safe}"
        let c := if l.nat "rc" ≠ rc then mism c s!"{l.str "op"}: rc model={rc} impl={l.nat "rc"}" else c
        let c := if (l.nat "stores" > 0) ≠ stored then
                   mism c s!"{l.str "op"}: storage written model={stored} impl-stores={l.nat "stores"}" else c
        match inf with
        | none => c
        | some i =>
          -- the observables C16 speaks about: a difference here is a failing input for the property
          let c := if l.nat "time" ≠ i.time then mism c s!"SPEC[time-rate] readclock time model={i.time} impl={l.nat "time"}" else c
          let c := if l.nat "clock" ≠ i.clock then mism c s!"SPEC[clock-rate] readclock clock model={i.clock} impl={l.nat "clock"}" else c
          let c := if l.nat "reset" ≠ i.resetCount then mism c s!"SPEC[reset-count] readclock resetCount model={i.resetCount} impl={l.nat "reset"}" else c
          let c := if l.nat "restart" ≠ i.restartCount then mism c s!"SPEC[restart-count] readclock restartCount model={i.restartCount} impl={l.nat "restart"}" else c
          let c := if (l.nat "safe" ≠ 0) ≠ i.safe then mism c s!"SPEC[safe-flag] readclock safe model={i.safe} impl={l.nat "safe"}" else c
          -- Spec monitors (model-free, on the observed sequence only)
          let oc := l.nat "clock"
          let c := if c.haveObs && !c.sawCut && oc < c.lastClock then mism c s!"SPEC[clock-decreased] clock {c.lastClock} -> {oc} without a restart" else c
          let c := if c.cutNonOrderly && l.nat "safe" ≠ 0 && oc < c.preCut then
                     mism c s!"SPEC[safe-before-passed] safe=YES at clock={oc} but clock was {c.preCut} before the power cut" else c
          -- never ahead of elapsed host time scaled by the fastest permitted rate (model-free; rate-agnostic bound)
          let dH := c.mono - c.lastMono
          let c := if c.haveObs && c.quiet && oc > c.lastClock && (oc - c.lastClock) * (Gen.CLOCK_NOMINAL - Gen.CLOCK_ADJUST_LIMIT) > (dH + 2) * Gen.CLOCK_NOMINAL then
                     mism c s!"SPEC[clock-ahead-of-host] Clock advanced {oc - c.lastClock} ms while the host advanced {dH} ms" else c
          let c := if c.haveObs && c.sawResume && (l.nat "reset" ≠ c.lastReset || l.nat "restart" ≠ c.lastRestart) then
                     mism c s!"SPEC[counters-changed-by-resume] reset {c.lastReset}->{l.nat "reset"} restart {c.lastRestart}->{l.nat "restart"}" else c
          let c := if c.haveObs && !c.sawCut && l.nat "reset" ≠ c.lastReset then
                     mism c s!"SPEC[reset-count-changed] resetCount {c.lastReset}->{l.nat "reset"} without a restart" else c
          { c with haveObs := true, quiet := true, lastMono := c.mono, lastClock := oc, sawCut := false, sawResume := false, lastReset := l.nat "reset", lastRestart := l.nat "restart",
                   cutNonOrderly := c.cutNonOrderly && !(l.nat "safe" ≠ 0) }
  | "restart" =>
      let c := branch c s!"restart/orderly={isOrderly c.st.disk.orderly}"
      let c := if l.nat "ret" ≠ 0 then mism c s!"MainInit after restart returned {l.nat "ret"}" else c
      let nonOrd := l.nat "orderly" = 0
      { c with st := c.st.restart c.mono, sawCut := true, sawResume := false, quiet := false,
               preCut := if nonOrd then c.lastClock else c.preCut, cutNonOrderly := nonOrd }
  | "suspend" => { c with saved := some (c.st.suspend c.mono c.real) }
  | "resume" =>
      match c.saved with
      | none => mism c "resume without suspend"
      | some sv =>
        let c := branch c s!"resume/monoBack={decide (c.mono < sv.monoPlusAdj)}/realBack={decide (c.real < sv.realAtSave)}"
        let c := if l.nat "ret" ≠ 0 then mism c s!"resume returned {l.nat "ret"}" else c
        { c with st := resume sv c.mono c.real, saved := none, sawResume := !c.sawCut, quiet := false }
  | _ => c

def check (ls : List Line) : Report := (ls.foldl step {}).rep

end TpmVerif.Check.C16
