import TpmVerif.Base.Trace
import TpmVerif.Crypto.Sha
import TpmVerif.Crypto.Aes
/-! Checker for C13 traces: every digest / MAC / ciphertext / signature returned by the TPM is recomputed or verified
    with the Lean reference implementations. -/
namespace TpmVerif.Check.C13
open TpmVerif TpmVerif.Crypto

structure CS where
  rep : Report := {}
  line : Nat := 0

def mism (c : CS) (msg : String) : CS :=
  { c with rep := { c.rep with mismatches := c.rep.mismatches ++ [s!"line {c.line}: {msg}"] } }
def branch (c : CS) (b : String) : CS :=
  if c.rep.branches.contains b then c else { c with rep := { c.rep with branches := b :: c.rep.branches } }

def hx (s : String) : Bytes := (Line.hexBytes s).getD []

def lenClass (n : Nat) (block : Nat) : String :=
  if n = 0 then "0" else if n % block = 0 then "k*B" else if n % block = block - 1 then "k*B-1" else if n % block = 1 then "k*B+1"
  else if n % block ≥ block - 9 then "pad-spill" else "mid"

/-- EMSA-PKCS1-v1_5 encoding of a SHA-256 digest for a 256-byte modulus -/
def emsaSha256 (digest : Bytes) : Bytes :=
  let di : Bytes := [0x30, 0x31, 0x30, 0x0d, 0x06, 0x09, 0x60, 0x86, 0x48, 0x01, 0x65, 0x03, 0x04, 0x02, 0x01, 0x05, 0x00, 0x04, 0x20]
  [0x00, 0x01] ++ List.replicate (256 - 3 - di.length - 32) 0xff ++ [0x00] ++ di ++ digest

def step (c : CS) (l : Line) : CS :=
  let c := { c with line := c.line + 1 }
  match l.kind with
  | "h" =>
      let c := { c with rep := { c.rep with events := c.rep.events + 1 } }
      match algOfId (l.nat "alg") with
      | none => mism c s!"unknown hash alg {l.nat "alg"}"
      | some a =>
        let m := l.bytes "msg"
        let c := branch c s!"hash/{a.name}/{lenClass m.length a.block}"
        if l.nat "rc" ≠ 0 then mism c s!"SPEC[hash-refused] TPM2_Hash({a.name}, {m.length} bytes) rc={l.nat "rc"}" else
        if hash a m ≠ l.bytes "digest" then mism c s!"SPEC[hash-mismatch] {a.name} of {m.length} bytes: reference={hexOfBytes (hash a m)} tpm={l.str "digest"}" else c
  | "hm" =>
      if l.get? "note" ≠ none then c else
      let c := { c with rep := { c.rep with events := c.rep.events + 1 } }
      match algOfId (l.nat "alg") with
      | none => mism c s!"unknown hash alg {l.nat "alg"}"
      | some a =>
        let m := l.bytes "msg"; let k := l.bytes "key"
        let c := branch c s!"hmac/{a.name}/key{lenClass k.length a.block}/{lenClass m.length a.block}"
        if l.nat "rc" ≠ 0 then mism c s!"SPEC[hmac-refused] TPM2_HMAC rc={l.nat "rc"}" else
        if hmac a k m ≠ l.bytes "mac" then mism c s!"SPEC[hmac-mismatch] HMAC-{a.name}: reference={hexOfBytes (hmac a k m)} tpm={l.str "mac"}" else c
  | "seq" =>
      if l.get? "note" ≠ none then c else
      let c := { c with rep := { c.rep with events := c.rep.events + 1 } }
      let kind := l.nat "kind"
      let chunks := ((l.str "chunks").splitOn ",").map hx
      let msg := chunks.flatten
      let c := branch c s!"seq/kind={kind}/alg={l.nat "alg"}/chunks={chunks.length}/intr={l.str "intr"}"
      if l.nat "rc" ≠ 0 then mism c s!"SPEC[sequence-failed] sequence (kind {kind}, interruptions {l.str "intr"}) failed with rc={l.nat "rc"}" else
      if kind = 2 then
        -- event sequence: one digest per active bank, each the hash of the data under that bank's algorithm
        let outs := ((l.str "out").splitOn ";").filter (· ≠ "")
        outs.foldl (fun c o =>
          match o.splitOn ":" with
          | [aid, d] => match aid.toNat?.bind algOfId with
            | some a => if hash a msg ≠ hx d then mism c s!"SPEC[event-digest-mismatch] bank {a.name}: reference={hexOfBytes (hash a msg)} tpm={d} (interruptions {l.str "intr"})" else c
            | none => mism c s!"unknown bank {aid}"
          | _ => mism c s!"unparsable event output {o}") c
      else
        match algOfId (l.nat "alg") with
        | none => mism c "unknown alg"
        | some a =>
          let exp := if kind = 1 then hmac a (l.bytes "key") msg else hash a msg
          if exp ≠ l.bytes "out" then
            mism c s!"SPEC[sequence-mismatch] {if kind = 1 then "HMAC" else "hash"}-{a.name} sequence, {chunks.length} chunks {chunks.map (·.length)}, interruptions {l.str "intr"} (1=ContextSave/Load 2=suspend/resume): reference={hexOfBytes exp} tpm={l.str "out"}" else c
  | "sym" =>
      if l.get? "note" ≠ none then c else
      let c := { c with rep := { c.rep with events := c.rep.events + 1 } }
      let mode := l.nat "mode"; let dec : Bool := l.nat "decrypt" == 1
      let c := branch c s!"sym/bits={l.nat "bits"}/mode={mode}/dec={dec}/call={l.nat "call"}/partial={decide ((l.bytes "in").length % 16 ≠ 0)}"
      if l.nat "rc" ≠ 0 then
        -- ECB/CBC refuse partial blocks; anything else must work
        if (mode = 0x42 ∨ mode = 0x44) ∧ (l.bytes "in").length % 16 ≠ 0 then c else mism c s!"SPEC[sym-refused] EncryptDecrypt2 mode {mode} rc={l.nat "rc"}"
      else
      let E := aesEncryptBlock (l.bytes "key")
      let iv := l.bytes "iv"; let inp := l.bytes "in"; let out := l.bytes "out"; let ivo := l.bytes "ivout"
      -- (expected output, expected iv out); for CBC/ECB decryption the check is done in the encrypt direction
      let ok : Bool :=
        if mode = 0x43 then
          let r := if dec then cfbDecrypt E iv inp else cfbEncrypt E iv inp
          -- after a partial final block the returned IV is not usable for chaining (OpenSSL keeps keystream bytes where
          -- the reference code writes zeros): only its length is checked then
          r.1 == out && (if inp.length % 16 = 0 then r.2 == ivo else ivo.length == 16)
        else if mode = 0x41 then ofb E iv inp == (out, ivo)
        else if mode = 0x40 then ctr E iv inp == (out, ivo)
        else if mode = 0x42 then (if dec then (cbcEncrypt E iv out).1 == inp && ivo == inp.drop (inp.length - 16) else cbcEncrypt E iv inp == (out, ivo))
        else if mode = 0x44 then (if dec then ecbEncrypt E out == inp else ecbEncrypt E inp == out)
        else false
      if !ok then mism c s!"SPEC[sym-mismatch] AES-{l.nat "bits"} mode {mode} decrypt={dec} call={l.nat "call"}: in={l.str "in"} iv={l.str "iv"} out={l.str "out"} ivout={l.str "ivout"}" else c
  | "rsaenc" =>
      if l.get? "note" ≠ none then c else
      let c := { c with rep := { c.rep with events := c.rep.events + 1 } }
      let m := l.bytes "m"
      let c := branch c s!"rsaenc/len={m.length}/lead0={decide (m.headD 1 = 0)}"
      if l.nat "rc" ≠ 0 then (if beNat m ≥ beNat (l.bytes "n") then c else mism c s!"SPEC[rsa-refused] RSA_Encrypt rc={l.nat "rc"}") else
      let exp := natToBytes (modPow (beNat m) 65537 (beNat (l.bytes "n"))) 256
      if exp ≠ l.bytes "c" then mism c s!"SPEC[rsa-encrypt-mismatch] raw RSA encryption of a {m.length}-byte message (first byte {m.headD 0}): reference m^e mod n ≠ TPM result" else c
  | "rsadec" =>
      let c := { c with rep := { c.rep with events := c.rep.events + 1 } }
      if l.nat "rc" ≠ 0 then mism c s!"SPEC[rsa-refused] RSA_Decrypt of the TPM's own ciphertext rc={l.nat "rc"}" else
      if beNat (l.bytes "out") ≠ beNat (l.bytes "m") then mism c "SPEC[rsa-decrypt-mismatch] RSA_Decrypt does not invert RSA_Encrypt" else branch c "rsadec/ok"
  | "rsasig" =>
      let c := { c with rep := { c.rep with events := c.rep.events + 1 } }
      if l.nat "rc" ≠ 0 then mism c s!"SPEC[sign-refused] Sign(RSASSA) rc={l.nat "rc"}" else
      let em := natToBytes (modPow (beNat (l.bytes "sig")) 65537 (beNat (l.bytes "n"))) 256
      let c := if em ≠ emsaSha256 (l.bytes "digest") then mism c "SPEC[rsassa-invalid] RSASSA signature does not verify under the public key (reference verifier)" else branch c "rsasig/verifies"
      let c := if l.nat "verify0" ≠ 0 then mism c s!"SPEC[verify-rejects-valid] VerifySignature refused a valid RSASSA signature rc={l.nat "verify0"}" else c
      if l.nat "verify1" = 0 then mism c "SPEC[verify-accepts-invalid] VerifySignature accepted a corrupted RSASSA signature" else c
  | "ecdsa" =>
      let c := { c with rep := { c.rep with events := c.rep.events + 1 } }
      if l.nat "rc" ≠ 0 then mism c s!"SPEC[sign-refused] Sign(ECDSA) rc={l.nat "rc"}" else
      let ok := P256.ecdsaVerify (beNat (l.bytes "qx")) (beNat (l.bytes "qy")) (beNat (l.bytes "digest")) (beNat (l.bytes "r")) (beNat (l.bytes "s"))
      let c := if !ok then mism c "SPEC[ecdsa-invalid] ECDSA signature does not verify under the public key (reference verifier)" else branch c "ecdsa/verifies"
      let c := if l.nat "verify0" ≠ 0 then mism c s!"SPEC[verify-rejects-valid] VerifySignature refused a valid ECDSA signature rc={l.nat "verify0"}" else c
      if l.nat "verify1" = 0 then mism c "SPEC[verify-accepts-invalid] VerifySignature accepted a corrupted ECDSA signature" else c
  | _ => c

def check (ls : List Line) : Report := (ls.foldl step {}).rep

end TpmVerif.Check.C13
