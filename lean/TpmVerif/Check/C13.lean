import TpmVerif.Base.Trace
import TpmVerif.Crypto.Sha
import TpmVerif.Crypto.Aes
import TpmVerif.Crypto.Asym
/-! Checker for C13 traces: every digest / MAC / ciphertext / signature returned by the TPM is recomputed or verified
    with the Lean reference implementations. -/
namespace TpmVerif.Check.C13
open TpmVerif TpmVerif.Crypto

structure CS where
  rep : Report := {}
  line : Nat := 0

def mism (c : CS) (msg : String) : CS :=
  { c with rep := { c.rep with mismatches := c.rep.mismatches ++ [s!"line {c.line}: {msg}"] } }
def branch (c : CS) (b : String) : CS :=
  if c.rep.branches.contains b then c else { c with rep := { c.rep with branches := b :: c.rep.branches } }

def hx (s : String) : Bytes := (Line.hexBytes s).getD []

def lenClass (n : Nat) (block : Nat) : String :=
  if n = 0 then "0" else if n % block = 0 then "k*B" else if n % block = block - 1 then "k*B-1" else if n % block = 1 then "k*B+1"
  else if n % block ≥ block - 9 then "pad-spill" else "mid"

/-- EMSA-PKCS1-v1_5 encoding of a SHA-256 digest for a 256-byte modulus -/
def emsaSha256 (digest : Bytes) : Bytes :=
  let di : Bytes := [0x30, 0x31, 0x30, 0x0d, 0x06, 0x09, 0x60, 0x86, 0x48, 0x01, 0x65, 0x03, 0x04, 0x02, 0x01, 0x05, 0x00, 0x04, 0x20]
  [0x00, 0x01] ++ List.replicate (256 - 3 - di.length - 32) 0xff ++ [0x00] ++ di ++ digest

def step (c : CS) (l : Line) : CS :=
  let c := { c with line := c.line + 1 }
  match l.kind with
  | "h" =>
      let c := { c with rep := { c.rep with events := c.rep.events + 1 } }
      match algOfId (l.nat "alg") with
      | none => mism c s!"unknown hash alg {l.nat "alg"}"
      | some a =>
        let m := l.bytes "msg"
        let c := branch c s!"hash/{a.name}/{lenClass m.length a.block}"
        if l.nat "rc" ≠ 0 then mism c s!"SPEC[hash-refused] TPM2_Hash({a.name}, {m.length} bytes) rc={l.nat "rc"}" else
        if hash a m ≠ l.bytes "digest" then mism c s!"SPEC[hash-mismatch] {a.name} of {m.length} bytes: reference={hexOfBytes (hash a m)} tpm={l.str "digest"}" else c
  | "hm" =>
      if l.get? "note" ≠ none then c else
      let c := { c with rep := { c.rep with events := c.rep.events + 1 } }
      match algOfId (l.nat "alg") with
      | none => mism c s!"unknown hash alg {l.nat "alg"}"
      | some a =>
        let m := l.bytes "msg"; let k := l.bytes "key"
        let c := branch c s!"hmac/{a.name}/key{lenClass k.length a.block}/{lenClass m.length a.block}"
        if l.nat "rc" ≠ 0 then mism c s!"SPEC[hmac-refused] TPM2_HMAC rc={l.nat "rc"}" else
        if hmac a k m ≠ l.bytes "mac" then mism c s!"SPEC[hmac-mismatch] HMAC-{a.name}: reference={hexOfBytes (hmac a k m)} tpm={l.str "mac"}" else c
  | "seq" =>
      if l.get? "note" ≠ none then c else
      let c := { c with rep := { c.rep with events := c.rep.events + 1 } }
      let kind := l.nat "kind"
      let chunks := ((l.str "chunks").splitOn ",").map hx
      let msg := chunks.flatten
      let c := branch c s!"seq/kind={kind}/alg={l.nat "alg"}/chunks={chunks.length}/intr={l.str "intr"}"
      if l.nat "rc" ≠ 0 then mism c s!"SPEC[sequence-failed] sequence (kind {kind}, interruptions {l.str "intr"}) failed with rc={l.nat "rc"}" else
      if kind = 2 then
        -- event sequence: one digest per active bank, each the hash of the data under that bank's algorithm
        let outs := ((l.str "out").splitOn ";").filter (· ≠ "")
        outs.foldl (fun c o =>
          match o.splitOn ":" with
          | [aid, d] => match aid.toNat?.bind algOfId with
            | some a => if hash a msg ≠ hx d then mism c s!"SPEC[event-digest-mismatch] bank {a.name}: reference={hexOfBytes (hash a msg)} tpm={d} (interruptions {l.str "intr"})" else c
            | none => mism c s!"unknown bank {aid}"
          | _ => mism c s!"unparsable event output {o}") c
      else
        match algOfId (l.nat "alg") with
        | none => mism c "unknown alg"
        | some a =>
          let exp := if kind = 1 then hmac a (l.bytes "key") msg else hash a msg
          if exp ≠ l.bytes "out" then
            mism c s!"SPEC[sequence-mismatch] {if kind = 1 then "HMAC" else "hash"}-{a.name} sequence, {chunks.length} chunks {chunks.map (·.length)}, interruptions {l.str "intr"} (1=ContextSave/Load 2=suspend/resume): reference={hexOfBytes exp} tpm={l.str "out"}" else c
  | "sym" =>
      if l.get? "note" ≠ none then c else
      let c := { c with rep := { c.rep with events := c.rep.events + 1 } }
      let mode := l.nat "mode"; let dec : Bool := l.nat "decrypt" == 1
      let c := branch c s!"sym/bits={l.nat "bits"}/mode={mode}/dec={dec}/call={l.nat "call"}/partial={decide ((l.bytes "in").length % 16 ≠ 0)}"
      if l.nat "rc" ≠ 0 then
        -- ECB/CBC refuse partial blocks; anything else must work
        if (mode = 0x42 ∨ mode = 0x44) ∧ (l.bytes "in").length % 16 ≠ 0 then c else mism c s!"SPEC[sym-refused] EncryptDecrypt2 mode {mode} rc={l.nat "rc"}"
      else
      let E := aesEncryptBlock (l.bytes "key")
      let iv := l.bytes "iv"; let inp := l.bytes "in"; let out := l.bytes "out"; let ivo := l.bytes "ivout"
      -- (expected output, expected iv out); for CBC/ECB decryption the check is done in the encrypt direction
      let ok : Bool :=
        if mode = 0x43 then
          let r := if dec then cfbDecrypt E iv inp else cfbEncrypt E iv inp
          -- after a partial final block the returned IV is not usable for chaining (OpenSSL keeps keystream bytes where
          -- the reference code writes zeros): only its length is checked then
          r.1 == out && (if inp.length % 16 = 0 then r.2 == ivo else ivo.length == 16)
        else if mode = 0x41 then ofb E iv inp == (out, ivo)
        else if mode = 0x40 then ctr E iv inp == (out, ivo)
        else if mode = 0x42 then (if dec then (cbcEncrypt E iv out).1 == inp && ivo == inp.drop (inp.length - 16) else cbcEncrypt E iv inp == (out, ivo))
        else if mode = 0x44 then (if dec then ecbEncrypt E out == inp else ecbEncrypt E inp == out)
        else false
      if !ok then mism c s!"SPEC[sym-mismatch] AES-{l.nat "bits"} mode {mode} decrypt={dec} call={l.nat "call"}: in={l.str "in"} iv={l.str "iv"} out={l.str "out"} ivout={l.str "ivout"}" else c
  | "rsaenc" =>
      if l.get? "note" ≠ none then c else
      let c := { c with rep := { c.rep with events := c.rep.events + 1 } }
      let m := l.bytes "m"
      let c := branch c s!"rsaenc/len={m.length}/lead0={decide (m.headD 1 = 0)}"
      if l.nat "rc" ≠ 0 then (if beNat m ≥ beNat (l.bytes "n") then c else mism c s!"SPEC[rsa-refused] RSA_Encrypt rc={l.nat "rc"}") else
      let exp := natToBytes (modPow (beNat m) 65537 (beNat (l.bytes "n"))) 256
      if exp ≠ l.bytes "c" then mism c s!"SPEC[rsa-encrypt-mismatch] raw RSA encryption of a {m.length}-byte message (first byte {m.headD 0}): reference m^e mod n ≠ TPM result" else c
  | "rsadec" =>
      let c := { c with rep := { c.rep with events := c.rep.events + 1 } }
      if l.nat "rc" ≠ 0 then mism c s!"SPEC[rsa-refused] RSA_Decrypt of the TPM's own ciphertext rc={l.nat "rc"}" else
      if beNat (l.bytes "out") ≠ beNat (l.bytes "m") then mism c "SPEC[rsa-decrypt-mismatch] RSA_Decrypt does not invert RSA_Encrypt" else branch c "rsadec/ok"
  | "rsasig" =>
      let c := { c with rep := { c.rep with events := c.rep.events + 1 } }
      if l.nat "rc" ≠ 0 then mism c s!"SPEC[sign-refused] Sign(RSASSA) rc={l.nat "rc"}" else
      let em := natToBytes (modPow (beNat (l.bytes "sig")) 65537 (beNat (l.bytes "n"))) 256
      let c := if em ≠ emsaSha256 (l.bytes "digest") then mism c "SPEC[rsassa-invalid] RSASSA signature does not verify under the public key (reference verifier)" else branch c "rsasig/verifies"
      let c := if l.nat "verify0" ≠ 0 then mism c s!"SPEC[verify-rejects-valid] VerifySignature refused a valid RSASSA signature rc={l.nat "verify0"}" else c
      if l.nat "verify1" = 0 then mism c "SPEC[verify-accepts-invalid] VerifySignature accepted a corrupted RSASSA signature" else c
  | "ecdsa" =>
      let c := { c with rep := { c.rep with events := c.rep.events + 1 } }
      if l.nat "rc" ≠ 0 then mism c s!"SPEC[sign-refused] Sign(ECDSA) rc={l.nat "rc"}" else
      let ok := P256.ecdsaVerify (beNat (l.bytes "qx")) (beNat (l.bytes "qy")) (beNat (l.bytes "digest")) (beNat (l.bytes "r")) (beNat (l.bytes "s"))
      let c := if !ok then mism c "SPEC[ecdsa-invalid] ECDSA signature does not verify under the public key (reference verifier)" else branch c "ecdsa/verifies"
      let c := if l.nat "verify0" ≠ 0 then mism c s!"SPEC[verify-rejects-valid] VerifySignature refused a valid ECDSA signature rc={l.nat "verify0"}" else c
      if l.nat "verify1" = 0 then mism c "SPEC[verify-accepts-invalid] VerifySignature accepted a corrupted ECDSA signature" else c
  | "cmac" =>
      if l.get? "note" ≠ none then c else
      let c := { c with rep := { c.rep with events := c.rep.events + 1 } }
      let chunks := ((l.str "chunks").splitOn ",").map hx
      let msg := chunks.flatten
      let c := branch c s!"cmac/bits={l.nat "bits"}/chunks={chunks.length}/len={lenClass msg.length 16}/intr={l.str "intr"}"
      if l.nat "rc" ≠ 0 then mism c s!"SPEC[mac-refused] CMAC (AES-{l.nat "bits"}, {chunks.length} chunks) rc={l.nat "rc"}" else
      let exp := cmac (aesEncryptBlock (l.bytes "key")) msg
      if exp ≠ l.bytes "mac" then mism c s!"SPEC[cmac-mismatch] AES-{l.nat "bits"} CMAC of {msg.length} bytes in chunks {chunks.map (·.length)} (interruptions {l.str "intr"}): reference={hexOfBytes exp} tpm={l.str "mac"}" else c
  | "sym2" =>
      if l.get? "note" ≠ none then c else
      let c := { c with rep := { c.rep with events := c.rep.events + 1 } }
      let mode := l.nat "mode"; let dec : Bool := l.nat "decrypt" == 1; let n := l.nat "bs"
      let c := branch c s!"sym2/alg={l.nat "alg"}/bits={l.nat "bits"}/mode={mode}/dec={dec}/call={l.nat "call"}/partial={decide ((l.bytes "in").length % n ≠ 0)}"
      if l.nat "rc" ≠ 0 then
        if (mode = 0x42 ∨ mode = 0x44) ∧ (l.bytes "in").length % n ≠ 0 then c else mism c s!"SPEC[sym-refused] EncryptDecrypt2 alg {l.nat "alg"} mode {mode} rc={l.nat "rc"}"
      else
      -- the block function is the table of values of the raw primitive; the mode construction is the reference's
      let tab : List (Bytes × Bytes) := ((l.str "tab").splitOn ",").filterMap (fun e => match e.splitOn ":" with | [x, y] => some (hx x, hx y) | _ => none)
      let E : Bytes → Bytes := fun x => ((tab.find? (·.1 == x)).map (·.2)).getD []
      let iv := l.bytes "iv"; let inp := l.bytes "in"; let out := l.bytes "out"; let ivo := l.bytes "ivout"
      let ok : Bool :=
        out.length == inp.length &&
        (if mode = 0x43 then
          let r := if dec then cfbDecryptN n E iv inp else cfbEncryptN n E iv inp
          r.1 == out && (if inp.length % n = 0 then r.2 == ivo else ivo.length == n)
        else if mode = 0x41 then ofbN n E iv inp == (out, ivo)
        else if mode = 0x40 then ctrN n E iv inp == (out, ivo)
        else if mode = 0x42 then (if dec then (cbcEncryptN n E iv out).1 == inp && ivo == inp.drop (inp.length - n) else cbcEncryptN n E iv inp == (out, ivo))
        else if mode = 0x44 then (if dec then ecbEncryptN n E out == inp else ecbEncryptN n E inp == out)
        else false)
      if !ok then mism c s!"SPEC[sym-mismatch] alg {l.nat "alg"}-{l.nat "bits"} mode {mode} decrypt={dec} call={l.nat "call"}: in={l.str "in"} iv={l.str "iv"} out={l.str "out"} ivout={l.str "ivout"}" else c
  | "ecload" =>
      let c := { c with rep := { c.rep with events := c.rep.events + 1 } }
      match curveOfId (l.nat "curve") with
      | none => mism c s!"unknown curve {l.nat "curve"}"
      | some cv =>
        let q := cv.mul (beNat (l.bytes "d")) cv.G
        let c := branch c s!"ecload/curve={cv.id}"
        if q ≠ some (beNat (l.bytes "qx"), beNat (l.bytes "qy")) then mism c s!"HARNESS: public point is not d*G on curve {cv.id}" else
        -- a profile may disable the curve: TPM_RC_CURVE (format-one code 0x26) is then the answer
        if l.nat "rc" % 64 = 0x26 ∧ l.nat "rc" / 128 % 2 = 1 then branch c s!"ecload/curve={cv.id}/disabled-by-profile" else
        if l.nat "rc" ≠ 0 then mism c s!"SPEC[ecc-key-refused] LoadExternal of a consistent key pair on curve {cv.id} rc={l.nat "rc"}" else c
  | "eckeygen" =>
      let c := { c with rep := { c.rep with events := c.rep.events + 1 } }
      match curveOfId (l.nat "curve") with
      | none => mism c s!"unknown curve {l.nat "curve"}"
      | some cv =>
        let c := branch c s!"eckeygen/curve={cv.id}"
        if l.nat "rc" ≠ 0 then mism c s!"SPEC[ecdh-refused] ECDH_KeyGen on curve {cv.id} rc={l.nat "rc"}" else
        let px := beNat (l.bytes "px"); let py := beNat (l.bytes "py")
        if !cv.onCurve px py then mism c s!"SPEC[ecdh-point-off-curve] ECDH_KeyGen returned an ephemeral public point that is not on curve {cv.id}" else
        if cv.mul (beNat (l.bytes "d")) (some (px, py)) ≠ some (beNat (l.bytes "zx"), beNat (l.bytes "zy")) then
          mism c s!"SPEC[ecdh-mismatch] ECDH_KeyGen curve {cv.id}: zPoint ≠ d·pubPoint (reference scalar multiplication)" else c
  | "eczgen" =>
      let c := { c with rep := { c.rep with events := c.rep.events + 1 } }
      match curveOfId (l.nat "curve") with
      | none => mism c s!"unknown curve {l.nat "curve"}"
      | some cv =>
        let ix := beNat (l.bytes "ix"); let iy := beNat (l.bytes "iy")
        let on := cv.onCurve ix iy
        let c := branch c s!"eczgen/curve={cv.id}/on={on}"
        if !on then (if l.nat "rc" = 0 then mism c s!"SPEC[ecdh-accepts-bad-point] ECDH_ZGen accepted a point that is not on curve {cv.id}" else c) else
        if l.nat "rc" ≠ 0 then mism c s!"SPEC[ecdh-refused] ECDH_ZGen on curve {cv.id} rc={l.nat "rc"}" else
        if cv.mul (beNat (l.bytes "d")) (some (ix, iy)) ≠ some (beNat (l.bytes "ox"), beNat (l.bytes "oy")) then
          mism c s!"SPEC[ecdh-mismatch] ECDH_ZGen curve {cv.id}: outPoint ≠ d·inPoint (reference scalar multiplication)" else c
  | "ecdsa2" =>
      let c := { c with rep := { c.rep with events := c.rep.events + 1 } }
      match curveOfId (l.nat "curve") with
      | none => mism c s!"unknown curve {l.nat "curve"}"
      | some cv =>
        let c := branch c s!"ecdsa2/curve={cv.id}/hash={l.nat "hash"}"
        if l.nat "rc" ≠ 0 then mism c s!"SPEC[sign-refused] Sign(ECDSA) curve {cv.id} hash {l.nat "hash"} rc={l.nat "rc"}" else
        let ok := cv.ecdsaVerify (beNat (l.bytes "qx")) (beNat (l.bytes "qy")) (l.bytes "digest") (beNat (l.bytes "r")) (beNat (l.bytes "s"))
        let c := if !ok then mism c s!"SPEC[ecdsa-invalid] ECDSA signature on curve {cv.id} with hash {l.nat "hash"} does not verify under the public key (reference verifier)" else c
        let c := if l.nat "verify0" ≠ 0 then mism c s!"SPEC[verify-rejects-valid] VerifySignature refused a valid ECDSA signature (curve {cv.id}) rc={l.nat "verify0"}" else c
        if l.nat "verify1" = 0 then mism c s!"SPEC[verify-accepts-invalid] VerifySignature accepted a corrupted ECDSA signature (curve {cv.id})" else c
  | "rsapad" =>
      let c := { c with rep := { c.rep with events := c.rep.events + 1 } }
      let scheme := l.nat "scheme"; let m := l.bytes "m"; let n := beNat (l.bytes "n")
      match algOfId (l.nat "hash") with
      | none => mism c "unknown hash"
      | some a =>
        let fits := decide (m.length ≤ l.nat "max")
        let c := branch c s!"rsapad/scheme={scheme}/hash={if scheme = 0x17 then a.name else "-"}/label={decide ((l.bytes "label").length > 0)}/len={if m.length = 0 then "0" else if m.length = l.nat "max" then "max" else if fits then "mid" else "over"}"
        if !fits then (if l.nat "rc" = 0 then mism c s!"SPEC[rsa-pad-overlong] RSA_Encrypt scheme {scheme} accepted a {m.length}-byte message (maximum {l.nat "max"})" else c) else
        if l.nat "rc" ≠ 0 then mism c s!"SPEC[rsa-refused] RSA_Encrypt scheme {scheme} of a {m.length}-byte message rc={l.nat "rc"}" else
        if l.nat "rcraw" ≠ 0 then mism c s!"SPEC[rsa-refused] raw RSA_Decrypt of the TPM's own ciphertext rc={l.nat "rcraw"}" else
        let em := natToBytes (beNat (l.bytes "em")) 256
        let c := if modPow (beNat em) 65537 n ≠ beNat (l.bytes "c") then mism c "SPEC[rsa-decrypt-mismatch] raw RSA_Decrypt result does not re-encrypt to the ciphertext (reference m^e mod n)" else c
        let dm := if scheme = 0x17 then oaepDecode a (l.bytes "label") em else rsaesDecode em
        let c := if dm ≠ some m then mism c s!"SPEC[rsa-padding-mismatch] RSA_Encrypt scheme {scheme} hash {a.name}: the encoded message does not decode to the message under the reference decoder" else c
        if l.nat "rcdec" ≠ 0 then mism c s!"SPEC[rsa-refused] RSA_Decrypt scheme {scheme} of the TPM's own ciphertext rc={l.nat "rcdec"}" else
        if l.bytes "dec" ≠ m then mism c s!"SPEC[rsa-decrypt-mismatch] RSA_Decrypt scheme {scheme} does not invert RSA_Encrypt" else c
  | "rsaunpad" =>
      let c := { c with rep := { c.rep with events := c.rep.events + 1 } }
      let scheme := l.nat "scheme"; let em := l.bytes "em"; let n := beNat (l.bytes "n")
      match algOfId (l.nat "hash") with
      | none => mism c "unknown hash"
      | some a =>
        let dm := if scheme = 0x17 then oaepDecode a (l.bytes "label") em else rsaesDecode em
        let c := branch c s!"rsaunpad/scheme={scheme}/hash={if scheme = 0x17 then a.name else "-"}/valid={dm.isSome}/bad={l.nat "bad"}"
        if l.nat "rc" ≠ 0 then mism c s!"SPEC[rsa-refused] raw RSA_Encrypt of an encoded message below the modulus rc={l.nat "rc"}" else
        let c := if modPow (beNat em) 65537 n ≠ beNat (l.bytes "c") then mism c "SPEC[rsa-encrypt-mismatch] raw RSA encryption: reference m^e mod n ≠ TPM result" else c
        match dm with
        | some m =>
          if l.nat "rcdec" ≠ 0 then mism c s!"SPEC[rsa-unpad-refused] RSA_Decrypt scheme {scheme} hash {a.name} refused a correctly padded message rc={l.nat "rcdec"}" else
          if l.bytes "dec" ≠ m then mism c s!"SPEC[rsa-unpad-mismatch] RSA_Decrypt scheme {scheme} hash {a.name}: result differs from the reference decoding" else c
        | none =>
          -- malformed OAEP must be refused; malformed PKCS #1 v1.5 is either refused or (implicit rejection in the
          -- crypto library) answered with a synthetic message: not judged
          if scheme = 0x17 ∧ l.nat "rcdec" = 0 then mism c s!"SPEC[rsa-unpad-accepts-invalid] RSA_Decrypt(OAEP, {a.name}) accepted a malformed encoding" else c
  | "rsasig2" =>
      let c := { c with rep := { c.rep with events := c.rep.events + 1 } }
      let scheme := l.nat "scheme"
      match algOfId (l.nat "hash") with
      | none => mism c "unknown hash"
      | some a =>
        let c := branch c s!"rsasig2/scheme={scheme}/hash={a.name}"
        if l.nat "rc" ≠ 0 then mism c s!"SPEC[sign-refused] Sign(scheme {scheme}, {a.name}) rc={l.nat "rc"}" else
        let em := natToBytes (modPow (beNat (l.bytes "sig")) 65537 (beNat (l.bytes "n"))) 256
        let ok := if scheme = 0x14 then em == emsaPkcs1 (l.nat "hash") (l.bytes "digest") 256 else pssVerify a (l.bytes "digest") em 2048
        let c := if !ok then mism c s!"SPEC[rsa-signature-invalid] scheme {scheme} {a.name} signature does not verify under the public key (reference verifier)" else c
        let c := if l.nat "verify0" ≠ 0 then mism c s!"SPEC[verify-rejects-valid] VerifySignature refused a valid scheme-{scheme} signature rc={l.nat "verify0"}" else c
        if l.nat "verify1" = 0 then mism c s!"SPEC[verify-accepts-invalid] VerifySignature accepted a corrupted scheme-{scheme} signature" else c
  | _ => c

def check (ls : List Line) : Report := (ls.foldl step {}).rep

end TpmVerif.Check.C13
