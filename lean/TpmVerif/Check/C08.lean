import TpmVerif.Base.Trace
import TpmVerif.Model.DA
/-! Correspondence checker for C08 traces (dictionary-attack accounting). -/
namespace TpmVerif.Check.C08
open TpmVerif TpmVerif.Model.Clock TpmVerif.Model
open TpmVerif.Model.DA (Op Ent inLockout RC_AUTH_FAIL RC_LOCKOUT RC_RETRY)

structure CS where
  st : DA.St := {}
  mono : Nat := 0
  real : Nat := 0
  susp : Option (Nat × Nat) := none
  rep : Report := {}
  line : Nat := 0
  -- model-free monitors
  lastCounter : Option Nat := none     -- last reported lockout counter
  failsSince : Nat := 0                -- failed DA authorizations (rc AUTH_FAIL on a DA entity) since that report
  healPossible : Bool := false         -- time advanced / lock reset / params since that report

def mism (c : CS) (msg : String) : CS :=
  { c with rep := { c.rep with mismatches := c.rep.mismatches ++ [s!"line {c.line}: {msg}"] } }
def branch (c : CS) (b : String) : CS :=
  if c.rep.branches.contains b then c else { c with rep := { c.rep with branches := b :: c.rep.branches } }

def parseOp (l : Line) : Option Op :=
  match l.str "op" with
  | "auth" =>
      let e := match l.str "ent" with | "da" => Ent.da | "lockout" => Ent.lockout | _ => Ent.exempt
      some (.auth e (l.nat "ok" = 1))
  | "lockreset" => some (.lockReset (l.nat "ok" = 1))
  | "params" => some (.params (l.nat "ok" = 1) (l.nat "mt") (l.nat "rt") (l.nat "lr"))
  | "startup" => some (.startup (l.nat "su"))
  | "shutdown" => some (.shutdown (l.nat "su"))
  | "neutral" => some .neutral
  | _ => none

def step (c : CS) (l : Line) : CS :=
  let c := { c with line := c.line + 1 }
  match l.kind with
  | "hist" => { c with lastCounter := none, failsSince := 0, healPossible := false }
  | "host" =>
      let m := l.nat "mono"
      { c with mono := m, real := l.nat "real", healPossible := c.healPossible || m ≠ c.mono }
  | "fresh" =>
      let nv0 : Nv := { orderly := 0 }
      let (p, t) := ({} : Plat).timerRead c.mono
      { c with st := { clk := { p := p, gTime := t, orderly := 0, nv := nv0, disk := nv0 } } }
  | "restart" =>
      let c := branch c s!"restart/orderly={l.nat "orderly"}/daUsedOnDisk={decide (c.st.clk.disk.orderly = Gen.SU_DA_USED_VALUE)}"
      let c := if l.nat "ret" ≠ 0 then mism c s!"MainInit after restart returned {l.nat "ret"}" else c
      { c with st := DA.restart c.st c.mono, healPossible := true }
  | "suspend" => { c with susp := some (c.mono, c.real) }
  | "resume" =>
      match c.susp with
      | none => mism c "resume without suspend"
      | some (m, r) =>
        let c := if l.nat "ret" ≠ 0 then mism c s!"resume returned {l.nat "ret"}" else c
        { c with st := DA.suspendResume c.st m r c.mono c.real, susp := none, healPossible := true }
  | "d" =>
      let c := { c with rep := { c.rep with events := c.rep.events + 1 } }
      if l.str "op" = "caps" then
        -- capability reads are neutral commands (5 GetCapability calls at the same host time)
        let (st', _, stored) := DA.exec c.st c.mono .neutral
        let c := { c with st := st' }
        let c := branch c s!"caps/inlockout={inLockout st'}/enabled={st'.p.lockoutEnabled}"
        let c := if l.nat "counter" ≠ st'.p.failedTries then mism c s!"SPEC[lockout-counter] TPM_PT_LOCKOUT_COUNTER model={st'.p.failedTries} impl={l.nat "counter"}" else c
        let c := if l.nat "max" ≠ st'.p.maxTries ∨ l.nat "interval" ≠ st'.p.recoveryTime ∨ l.nat "recovery" ≠ st'.p.lockoutRecovery then
                   mism c s!"SPEC[da-parameters] max/interval/recovery model={st'.p.maxTries}/{st'.p.recoveryTime}/{st'.p.lockoutRecovery} impl={l.nat "max"}/{l.nat "interval"}/{l.nat "recovery"}" else c
        let c := if (l.nat "inlockout" = 1) ≠ inLockout st' then mism c s!"SPEC[inlockout-flag] model={inLockout st'} impl={l.nat "inlockout"}" else c
        let c := if (l.nat "stores" > 0) ≠ stored then mism c s!"caps: storage written model={stored} impl={l.nat "stores"}" else c
        -- model-free: the counter never drops unless time passed, a restart happened, or lockoutAuth reset it
        let c := match c.lastCounter with
          | some prev => if !c.healPossible ∧ l.nat "interval" ≠ 0 ∧ l.nat "counter" < prev + c.failsSince then
                mism c s!"SPEC[failure-not-counted] counter {l.nat "counter"} after {c.failsSince} failed authorizations on top of {prev} with no time passing" else c
          | none => c
        { c with lastCounter := some (l.nat "counter"), failsSince := 0, healPossible := false }
      else
      match parseOp l with
      | none => mism c s!"unknown op {l.str "op"}"
      | some op =>
        let before := c.st
        let (st', rc, stored) := DA.exec c.st c.mono op
        -- setup commands that commit on their own account
        let st' := st'
        let stored := stored || (l.nat "commits" = 1 ∧ rc = 0)
        let c := { c with st := st' }
        let c := branch c s!"{l.str "op"}/{l.str "ent"}/ok={l.nat "ok"}/rc={rc}/locked={inLockout before}/daUsed={before.daUsed}"
        let c := if l.nat "rc" ≠ rc then mism c s!"SPEC[da-rc] {l.str "op"} {l.str "ent"} ok={l.nat "ok"}: rc model={rc} impl={l.nat "rc"} (failedTries={before.p.failedTries} maxTries={before.p.maxTries})" else c
        let c := if (l.nat "stores" > 0) ≠ stored then
                   mism c s!"SPEC[da-durability] {l.str "op"}: storage written model={stored} impl={l.nat "stores"}" else c
        -- model-free monitors
        let c := if l.str "op" = "auth" ∧ l.str "ent" = "da" ∧ l.nat "rc" = RC_AUTH_FAIL then { c with failsSince := c.failsSince + 1 } else c
        let c := if l.str "op" = "auth" ∧ l.str "ent" = "exempt" ∧ (l.nat "rc" = RC_LOCKOUT ∨ l.nat "rc" = RC_AUTH_FAIL ∨ l.nat "rc" = RC_RETRY) then
                   mism c s!"SPEC[exempt-entity-counted] authorization of a DA-exempt entity answered {l.nat "rc"}" else c
        let c := if l.str "op" ≠ "auth" then { c with healPossible := true } else c
        c
  | _ => c

def check (ls : List Line) : Report := (ls.foldl step {}).rep

end TpmVerif.Check.C08
