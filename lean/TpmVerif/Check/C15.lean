import TpmVerif.Base.Trace
import TpmVerif.Model.Api
import TpmVerif.Gen.Consts
/-! Checker for C15 traces: the API automaton (Model.Api), JSON validity of GetInfo, DecodeBlob against the Lean base64 reader. -/
namespace TpmVerif.Check.C15
open TpmVerif TpmVerif.Model TpmVerif.Model.Api

structure CS where
  st : Api.St := {}
  started : Bool := false
  rep : Report := {}
  line : Nat := 0

def mism (c : CS) (msg : String) : CS :=
  { c with rep := { c.rep with mismatches := c.rep.mismatches ++ [s!"line {c.line}: {msg}"] } }
def branch (c : CS) (b : String) : CS :=
  if c.rep.branches.contains b then c else { c with rep := { c.rep with branches := b :: c.rep.branches } }
def ev (c : CS) : CS := { c with rep := { c.rep with events := c.rep.events + 1 } }

def idBytes (s : String) : Bytes := s.toUTF8.toList
def idOpt (s : String) : Option Bytes := if s = "-" ∨ s = "" then none else some (idBytes s)
def stIdx (st : Nat) : Nat := st
def vname (v : Ver) : String := match v with | .v12 => "1.2" | .v2 => "2"

/-! ### JSON (RFC 8259) validity -/

def isWs (c : Char) : Bool := c == ' ' || c == '\n' || c == '\r' || c == '\t'
def skipWs (l : List Char) : List Char := l.dropWhile isWs

def parseString : List Char → Nat → Option (List Char)
  | _, 0 => none
  | [], _ => none
  | '"' :: r, _ => some r
  | '\\' :: c :: r, f + 1 =>
      if c == 'u' then (if r.length ≥ 4 ∧ (r.take 4).all (fun h => h.isDigit || ('a' ≤ h && h ≤ 'f') || ('A' ≤ h && h ≤ 'F')) then parseString (r.drop 4) f else none)
      else if "\"\\/bfnrt".toList.contains c then parseString r f else none
  | c :: r, f + 1 => if c.toNat < 0x20 then none else parseString r f

def parseNumber (l : List Char) : Option (List Char) :=
  let l := match l with | '-' :: r => r | _ => l
  let ds := l.takeWhile Char.isDigit
  if ds.isEmpty then none else
  if ds.length > 1 ∧ ds.head? = some '0' then none else
  let r := l.dropWhile Char.isDigit
  let r := match r with
    | '.' :: r' => let fs := r'.takeWhile Char.isDigit; if fs.isEmpty then ['!'] else r'.dropWhile Char.isDigit
    | _ => r
  if r.head? = some '!' then none else
  match r with
  | 'e' :: r' | 'E' :: r' =>
      let r' := match r' with | '+' :: x | '-' :: x => x | _ => r'
      if (r'.takeWhile Char.isDigit).isEmpty then none else some (r'.dropWhile Char.isDigit)
  | _ => some r

mutual
  def parseValue : Nat → List Char → Option (List Char)
    | 0, _ => none
    | f + 1, l =>
      match skipWs l with
      | '{' :: r => (match skipWs r with | '}' :: r' => some r' | _ => parseMembers f r)
      | '[' :: r => (match skipWs r with | ']' :: r' => some r' | _ => parseElements f r)
      | '"' :: r => parseString r (r.length + 1)
      | 't' :: 'r' :: 'u' :: 'e' :: r => some r
      | 'f' :: 'a' :: 'l' :: 's' :: 'e' :: r => some r
      | 'n' :: 'u' :: 'l' :: 'l' :: r => some r
      | c :: r => if c == '-' || c.isDigit then parseNumber (c :: r) else none
      | [] => none
  def parseMembers : Nat → List Char → Option (List Char)
    | 0, _ => none
    | f + 1, l =>
      match skipWs l with
      | '"' :: r =>
        match parseString r (r.length + 1) with
        | none => none
        | some r1 =>
          match skipWs r1 with
          | ':' :: r2 =>
            match parseValue f r2 with
            | none => none
            | some r3 =>
              match skipWs r3 with
              | ',' :: r4 => parseMembers f r4
              | '}' :: r4 => some r4
              | _ => none
          | _ => none
      | _ => none
  def parseElements : Nat → List Char → Option (List Char)
    | 0, _ => none
    | f + 1, l =>
      match parseValue f l with
      | none => none
      | some r =>
        match skipWs r with
        | ',' :: r' => parseElements f r'
        | ']' :: r' => some r'
        | _ => none
end

/-- a JSON text: one value, nothing but white space after it; GetInfo must return an object -/
def jsonObject (l : List Char) : Bool :=
  (skipWs l).head? == some '{' && (match parseValue (l.length + 2) l with | some r => (skipWs r).isEmpty | none => false)

/-! ### DecodeBlob -/

def startTag : List Char := "-----BEGIN INITSTATE-----".toList
def endTag : List Char := "-----END INITSTATE-----".toList

/-- first occurrence of `pat`: (text before, text after) -/
def findSub (pat : List Char) : List Char → Nat → Option (List Char × List Char)
  | _, 0 => none
  | text, f + 1 =>
    if pat.isPrefixOf text then some ([], text.drop pat.length) else
    match text with
    | [] => none
    | c :: r => (findSub pat r f).map (fun (b, a) => (c :: b, a))

def cIsSpace (c : Char) : Bool := c == ' ' || c == '\n' || c == '\r' || c == '\t' || c.toNat == 11 || c.toNat == 12

/-- TPMLIB_GetPlaintext + TPMLIB_Base64Decode on the level of characters -/
def decodeBlob (text : List Char) : Option Bytes :=
  match findSub startTag text (text.length + 1) with
  | none => none
  | some (_, after) =>
    let after := after.dropWhile cIsSpace
    match findSub endTag after (after.length + 1) with
    | none => none
    | some (payload, _) =>
      if payload.isEmpty then none else
      match b64decode payload with
      | none => none
      | some bs => if bs.isEmpty then none else some bs

/-- the letters of the payload form canonical base64: a multiple of four, padding only at the very end -/
def canonical (text : List Char) : Bool :=
  match findSub startTag text (text.length + 1) with
  | none => true
  | some (_, after) =>
    match findSub endTag (after.dropWhile cIsSpace) (after.length + 1) with
    | none => true
    | some (payload, _) =>
      let letters := payload.filter isB64Letter
      let body := letters.takeWhile (· ≠ '=')
      let pad := letters.drop body.length
      letters.length % 4 == 0 && pad.all (· == '=') && pad.length ≤ 2

/-- a padding character followed by further base64 letters: RFC 4648 has no meaning for such a text -/
def padInside (text : List Char) : Bool :=
  match findSub startTag text (text.length + 1) with
  | none => false
  | some (_, after) =>
    match findSub endTag (after.dropWhile cIsSpace) (after.length + 1) with
    | none => false
    | some (payload, _) =>
      let letters := payload.filter isB64Letter
      (letters.dropWhile (· ≠ '=')).any (· ≠ '=')

def chars (b : Bytes) : List Char := b.map (fun x => Char.ofNat x.toNat)

/-! ### Steps -/

def verOf (n : Nat) : Option Ver := if n = 12 then some .v12 else if n = 2 then some .v2 else none
def curBuf (s : Api.St) : Nat := match s.choice with | .v12 => s.buf12 | .v2 => s.buf2

def stepApi (c : CS) (l : Line) : CS :=
  let op := l.str "op"
  let ret := l.nat "ret"
  let s := c.st
  let tag := s!"{vname s.choice}/run={s.running}"
  match op with
  | "skip" => c
  | "choose" =>
      let (s', rc) := choose s (verOf (l.nat "ver"))
      let c := branch c s!"choose/{tag}/locked={s.locked}/ver={l.nat "ver"}/rc={rc}"
      let c := if rc ≠ ret then mism c s!"SPEC[choose-version] ChooseTPMVersion({l.nat "ver"}) with MainInit-run={s.locked}: ret={ret}, model {rc}" else c
      { c with st := s' }
  | "maininit" =>
      let ok : Bool := ret == 0
      let c := branch c s!"maininit/{tag}/ok={ok}/manufacture={willManufacture s}"
      let c := if ok ∧ s.choice = .v2 ∧ (l.nat "manufactured" == 1) ≠ willManufacture s then
          mism c s!"SPEC[manufacture] MainInit: manufactured={l.nat "manufactured"}, model {willManufacture s} (cached permanent {repr (s.cache 1)}, stored {repr (s.store 1)})" else c
      let c := if !ok ∧ willManufacture s then mism c s!"SPEC[maininit-fresh-failed] MainInit of a TPM that is to be manufactured returned {ret}" else c
      { c with st := mainInit s ok, started := false }
  | "terminate" => { c with st := terminate s, started := false }
  | "setstate" =>
      let st := l.nat "st"
      let kind := l.str "kind"
      let blob := if kind = "null" then none else some (idBytes (l.str "id"))
      let valid : Bool := if kind = "garbage" then false else if st = 1 then true else ret == 0
      let (s', rc) := setState s st blob valid
      let c := branch c s!"setstate/{tag}/st={st}/{kind}/rc={rc}/ret0={ret == 0}"
      let agree : Bool := if rc = 1 then ret != 0 else rc == ret
      let c := if !agree then mism c s!"SPEC[setstate] SetState(type {st}, {kind}) on a {if s.running then "running" else "stopped"} TPM {vname s.choice}: ret={ret}, model {if rc = 1 then "an error" else toString rc}" else c
      { c with st := s' }
  | "getstate" =>
      let st := l.nat "st"
      if s.running then
        let c := branch c s!"getstate/{tag}/st={st}/ret={ret}/null={l.nat "null"}"
        if ret ≠ 0 then mism c s!"SPEC[getstate-running] GetState(type {st}) on a running TPM returned {ret}"
        else if (st = 1 ∨ st = 2) ∧ l.nat "null" = 1 then mism c s!"SPEC[getstate-running] GetState(type {st}) on a running TPM returned no blob" else c
      else
        let (rc, b) := getStateOffline s st
        let c := branch c s!"getstate/{tag}/st={st}/rc={rc}/blob={b.isSome}"
        if rc ≠ ret then mism c s!"SPEC[getstate] GetState(type {st}) before start: ret={ret}, model {rc}"
        else if rc = 0 ∧ b ≠ idOpt (l.str "id") then mism c s!"SPEC[getstate] GetState(type {st}) before start returned blob {l.str "id"}, model {b.map (fun x => String.ofList (chars x))}"
        else c
  | "setbuf" =>
      let w := l.nat "want"; let mn := l.nat "min"; let mx := l.nat "max"
      let exp := setBufferSize (curBuf s) w mn mx
      let c := branch c s!"setbuf/{vname s.choice}/{if w = 0 then "query" else if w < mn then "below" else if w > mx then "above" else "inside"}"
      let c := if s.choice = .v2 ∧ (mn ≠ Gen.MAX_CONTEXT_SIZE + 128 ∨ mx ≠ Gen.TPM_BUFFER_MAX) then mism c s!"SPEC[bufsize-limits] limits [{mn},{mx}] differ from the generated constants" else c
      let c := if exp ≠ ret then mism c s!"SPEC[bufsize] SetBufferSize({w}) with limits [{mn},{mx}] and current {curBuf s}: ret={ret}, model {exp}" else c
      { c with st := match s.choice with | .v12 => { s with buf12 := exp } | .v2 => { s with buf2 := exp } }
  | "process" =>
      let c := branch c s!"process/{tag}/kind={l.nat "kind"}/started={l.nat "started"}/ret={ret}"
      if ret ≠ 0 then mism c s!"SPEC[process-buffer] Process with caller buffer kind {l.nat "kind"} returned {ret}" else
      let c := if l.nat "bufnull" = 1 ∨ l.nat "respsize" > l.nat "bufsize" ∨ l.nat "respsize" < 10 ∨ l.nat "hdrsize" ≠ l.nat "respsize" then
          mism c s!"SPEC[process-buffer] inconsistent result: buffer null={l.nat "bufnull"}, respsize={l.nat "respsize"}, bufsize={l.nat "bufsize"}, size field={l.nat "hdrsize"}" else c
      -- the advertised buffer size
      let rsp := l.bytes "rsp"
      let c := if l.nat "started" = 1 ∧ l.nat "rc" = 0 then
          let adv := match s.choice with | .v2 => (rdBE rsp 23 4).getD 0 | .v12 => (rdBE rsp 14 4).getD 0
          if adv ≠ curBuf s then mism c s!"SPEC[bufsize-advertised] TPM {vname s.choice} advertises buffer size {adv}, SetBufferSize established {curBuf s}" else branch c "advertised/equal"
        else c
      -- the command sent to a TPM that was not started yet is TPM_Startup: a TPM 1.2 deletes its saved state then, and with it a
      -- save-state blob that is still cached
      if l.nat "started" = 0 then { c with st := startupDone s } else c
  | "getinfo" =>
      let js := chars (l.bytes "json")
      let c := branch c s!"getinfo/{tag}/flags={l.nat "flags"}"
      if l.nat "null" = 1 then mism c s!"SPEC[getinfo-json] GetInfo({l.nat "flags"}) returned NULL"
      else if !jsonObject js then mism c s!"SPEC[getinfo-json] GetInfo({l.nat "flags"}) is not valid JSON: {String.ofList js}" else c
  | "setprofile" =>
      let c := branch c s!"setprofile/{tag}/kind={l.str "kind"}/ret={ret}"
      if s.running ∧ s.choice = .v2 ∧ ret ≠ TPM_INVALID_POSTINIT then mism c s!"SPEC[setprofile-running] SetProfile on a running TPM 2 returned {ret}"
      else if !s.running ∧ s.choice = .v2 ∧ l.str "kind" = "2" ∧ ret = 0 then mism c "SPEC[setprofile] an unknown profile name was accepted"
      else if !s.running ∧ s.choice = .v2 ∧ l.str "kind" ≠ "2" ∧ ret ≠ 0 then mism c s!"SPEC[setprofile] built-in profile refused with {ret}"
      else c
  | "validate" => branch c s!"validate/{tag}/st={l.nat "st"}/ret0={ret == 0}"
  | _ => c

def step (c : CS) (l : Line) : CS :=
  let c := { c with line := c.line + 1 }
  match l.kind with
  | "reset" => { c with st := {}, started := false }
  | "good" => c
  | "api" => stepApi (ev c) l
  | "stor" =>
      { c with st := { c.st with store := fun t => if t = 1 then idOpt (l.str "p") else if t = 2 then idOpt (l.str "v") else if t = 4 then idOpt (l.str "s") else none } }
  | "decode" =>
      let c := ev c
      let text := chars (l.bytes "text")
      let m := decodeBlob text
      let canon := canonical text
      let c := branch c s!"decode/variant={l.nat "variant"}/canonical={canon}/model={m.isSome}/ret={l.nat "ret"}"
      if padInside text then branch c s!"decode/pad-inside/ret={l.nat "ret"}" else
      if l.nat "ret" = 0 then
        -- whatever the text looked like: what comes back must be the bytes the text encodes
        match m with
        | none => mism c s!"SPEC[decode] DecodeBlob succeeded on a text that encodes nothing: {String.ofList text}"
        | some bs =>
          if canon ∧ bs ≠ l.bytes "out" then mism c s!"SPEC[decode] DecodeBlob returned {l.str "out"}, the text encodes {hexOfBytes bs}"
          else if !canon ∧ ¬ (l.bytes "out").isPrefixOf bs ∧ ¬ bs.isPrefixOf (l.bytes "out") then
            mism c s!"SPEC[decode] DecodeBlob returned {l.str "out"} for a non-canonical text whose letters encode {hexOfBytes bs}"
          else c
      else
        if canon ∧ m.isSome then mism c s!"SPEC[decode] DecodeBlob failed ({l.nat "ret"}) on a well-formed text encoding {hexOfBytes (m.getD [])}" else c
  | _ => c

def check (ls : List Line) : Report := (ls.foldl step {}).rep

end TpmVerif.Check.C15
