import TpmVerif.Base.Trace
import TpmVerif.Model.FailMode
import TpmVerif.Model.Frame
/-! Correspondence checker for C17 traces. -/
namespace TpmVerif.Check.C17
open TpmVerif TpmVerif.Model.FailMode

structure CS where
  info : FailInfo := ⟨0, 0, 0⟩
  inFail : Bool := false
  resumed : Bool := false      -- a suspend/resume happened since the last `failinfo` line: the description must be the same
  rep : Report := {}
  line : Nat := 0

def mism (c : CS) (msg : String) : CS :=
  { c with rep := { c.rep with mismatches := c.rep.mismatches ++ [s!"line {c.line}: {msg}"] } }
def branch (c : CS) (b : String) : CS :=
  if c.rep.branches.contains b then c else { c with rep := { c.rep with branches := b :: c.rep.branches } }

/-- model-free well-formedness of a response -/
def wf (r : Bytes) : Bool :=
  decide (10 ≤ r.length) && rdBE r 0 2 == some Gen.TPM_ST_NO_SESSIONS && rdBE r 2 4 == some r.length

def classify (req rsp : Bytes) : String :=
  let cc := (rdBE req 6 4).getD 0
  let kind := if cc = Gen.TPM_CC_GetTestResult then "gtr" else if cc = Gen.TPM_CC_GetCapability then "cap" else if req.length < 10 then "short" else "other"
  s!"{kind}/len={rsp.length}/rc={(rdBE rsp 6 4).getD 0}"

def step (c : CS) (l : Line) : CS :=
  let c := { c with line := c.line + 1 }
  match l.kind with
  | "hist" => { c with inFail := false }
  | "enter" =>
      let c := branch c s!"enter/{l.str "route"}/cc={(l.get? "cc").getD "-"}"
      let c := if l.nat "rc" ≠ Gen.TPM_RC_FAILURE ∨ l.nat "len" ≠ 10 then
                 mism c s!"SPEC[storefault-not-failure] command whose state change could not be stored answered rc={l.nat "rc"} len={l.nat "len"}" else c
      let c := if l.nat "infail" = 0 then mism c "SPEC[not-in-failure-mode] TPM not in failure mode after refused commit" else c
      { c with inFail := true }
  | "failinfo" =>
      let c := if c.inFail && l.nat "infail" = 0 then mism c "SPEC[failure-mode-lost] failure mode ended without re-initialisation" else c
      let now : FailInfo := ⟨l.nat "fn", l.nat "line", l.nat "code"⟩
      let c := if c.resumed ∧ c.inFail ∧ (now ≠ c.info) then
          mism c s!"SPEC[failure-description-lost] after suspend/resume the failure is described as function {now.function} line {now.line} code {now.code}; before: function {c.info.function} line {c.info.line} code {c.info.code}"
        else if c.resumed ∧ c.inFail then branch c "fresume/description-kept" else c
      { c with info := now, resumed := false }
  | "fcmd" =>
      let req := l.bytes "req"; let rsp := l.bytes "rsp"
      let c := { c with rep := { c.rep with events := c.rep.events + 1 } }
      let c := branch c (classify req rsp)
      let c := if l.nat "ret" ≠ 0 then mism c s!"SPEC[process-ret] TPMLIB_Process returned {l.nat "ret"}" else c
      let c := if l.nat "stores" ≠ 0 then mism c s!"SPEC[store-in-failure-mode] {l.nat "stores"} storage write(s) during a command in failure mode" else c
      let c := if !wf rsp then mism c s!"SPEC[malformed-response] {hexOfBytes rsp}" else c
      -- the answers of failure mode are held to the response grammar of C01: a success parses exactly under its command's schema
      let c := match TpmVerif.Model.Frame.checkResponse req rsp (l.nat "bufsize") with
        | some msg => mism c s!"SPEC[malformed-response] in failure mode: {msg}; req={hexOfBytes req} rsp={hexOfBytes rsp}"
        | none => c
      let exp := respond c.info req
      let cc := rdBE req 6 4
      if rsp ≠ exp then
        if cc ≠ some Gen.TPM_CC_GetTestResult ∧ cc ≠ some Gen.TPM_CC_GetCapability then
          mism c s!"SPEC[not-failure-header] req={hexOfBytes req} rsp={hexOfBytes rsp}"
        else mism c s!"SPEC[failure-report] req={hexOfBytes req} model={hexOfBytes exp} impl={hexOfBytes rsp}"
      else c
  | "api" =>
      let c := branch c s!"api/{l.str "name"}/{l.nat "ret"}"
      if (l.str "name").startsWith "setstate_" ∧ (l.str "name").endsWith "_in_failure" ∧ l.nat "ret" = 0 then
        mism c s!"SPEC[setstate-accepted-while-running] {l.str "name"} returned success on a running TPM" else c
  | "fresume" =>
      let c := branch c s!"fresume/{l.nat "ret"}"
      let c := if l.nat "infail" = 0 then mism c "SPEC[failure-mode-lost-by-resume] failure mode not preserved by suspend/resume" else c
      let c := if l.nat "infail" ≠ 0 ∧ l.nat "ret" = 0 then
                 mism c "SPEC[maininit-hides-failure] TPMLIB_MainInit returned success although the TPM came up in failure mode" else c
      let c := if l.nat "stores" ≠ 0 then mism c s!"SPEC[store-in-failure-mode] {l.nat "stores"} storage write(s) while resuming in failure mode" else c
      { c with resumed := true }
  | "initfail" =>
      let c := branch c s!"initfail/mode={l.nat "mode"}/ret={l.nat "ret"}/infail={l.nat "infail"}"
      let c := if l.nat "infail" ≠ 0 ∧ l.nat "ret" = 0 then
                 mism c s!"SPEC[maininit-hides-failure] TPMLIB_MainInit returned success although storage delivered unusable data (mode {l.nat "mode"}) and the TPM is in failure mode" else c
      let c := if l.nat "infail" ≠ 0 ∧ l.nat "stores" ≠ 0 then mism c s!"SPEC[store-in-failure-mode] storage written during a failed MainInit" else c
      { c with inFail := l.nat "infail" ≠ 0 }
  | "recover" =>
      let c := branch c s!"recover/{l.nat "ret"}/{l.nat "startup_rc"}"
      let c := if l.nat "ret" ≠ 0 ∨ l.nat "startup_rc" ≠ 0 ∨ l.nat "infail" ≠ 0 then
                 mism c s!"SPEC[no-recovery] re-initialising from good state: MainInit={l.nat "ret"} Startup rc={l.nat "startup_rc"} infail={l.nat "infail"}" else c
      { c with inFail := false }
  | "oracle" =>
      let c := branch c s!"oracle/{l.str "name"}/{l.nat "exit"}"
      let e := l.nat "exit"
      if e = 77 then mism c s!"SPEC[stalejmp-{l.str "name"}] internal failure outside command processing unwound through a stale jump buffer"
      else if e ≠ 0 then mism c s!"SPEC[crash-{l.str "name"}] process ended with status {e}"
      else c
  | _ => c

def check (ls : List Line) : Report := (ls.foldl step {}).rep

end TpmVerif.Check.C17
