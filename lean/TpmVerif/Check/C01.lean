import TpmVerif.Base.Trace
import TpmVerif.Model.Frame
import TpmVerif.Gen.Profile
/-! Checker for C01 traces: every response is well-formed and (on success) parses exactly under its command's schema;
    where the framing model predicts an error before the command body, the implementation must give that error. -/
namespace TpmVerif.Check.C01
open TpmVerif TpmVerif.Model.Frame

structure CS where
  rep : Report := {}
  line : Nat := 0
  profile : Nat := 0     -- 0 null (StateFormatLevel 1), 1 default-v1, 2 custom

def mism (c : CS) (msg : String) : CS :=
  { c with rep := { c.rep with mismatches := c.rep.mismatches ++ [s!"line {c.line}: {msg}"] } }
def branch (c : CS) (b : String) : CS :=
  if c.rep.branches.contains b then c else { c with rep := { c.rep with branches := b :: c.rep.branches } }

def step (c : CS) (l : Line) : CS :=
  let c := { c with line := c.line + 1 }
  if l.kind = "hist" then { c with profile := (l.nat? "profile").getD 0 } else
  if l.kind = "tour" then branch c s!"tour/{l.str "cmd"}/{if l.nat "rc" = 0 then "ok" else toString (l.nat "rc")}" else
  if l.kind ≠ "x" then c else
  let c := { c with rep := { c.rep with events := c.rep.events + 1 } }
  let req := l.bytes "req"; let rsp := l.bytes "rsp"
  let cc := (rdBE req 6 4).getD 0; let rc := (rdBE rsp 6 4).getD 0
  let c := branch c s!"cc={cc}/rc={if rc = 0 then "ok" else toString rc}"
  let c := if l.nat "ret" ≠ 0 then mism c s!"SPEC[process-ret] TPMLIB_Process returned {l.nat "ret"}" else c
  let c := if l.nat "infail" ≠ 0 then mism c s!"SPEC[failure-mode] the command (cc={cc}) drove the TPM into failure mode" else c
  let c := if rc = 0 ∧ (lookup cc).isSome ∧ (respParams cc).isNone then branch c s!"noschema/cc={cc}" else c
  let c := match checkResponse req rsp (l.nat "bufsize") with
    | some msg => mism c s!"SPEC[malformed-response] {msg}; req={hexOfBytes (req.take 40)} rsp={hexOfBytes (rsp.take 40)}"
    | none => c
  -- correspondence of the header checks
  match frameCheck req (l.nat "started" = 1) with
  | some e =>
    -- a command the active profile does not enable is TPM_RC_COMMAND_CODE before anything else (the null profile runs
    -- at StateFormatLevel 1: commands that need a higher level are not part of it)
    let profileDisabled : Bool := c.profile == 0 && (match Gen.Profile.cmdProps.find? (·.1 == cc) with | some (_, _, _, sfl) => decide (sfl > 1) | none => false)
    if profileDisabled ∧ rc = Gen.TPM_RC_COMMAND_CODE then branch c "frame/disabled-by-profile" else
    if rc ≠ e then mism c s!"SPEC[frame-rc] header check: model rc={e} impl rc={rc} req={hexOfBytes (req.take 16)}" else branch c s!"frame/{e}"
  | none => c

def check (ls : List Line) : Report := (ls.foldl step {}).rep

end TpmVerif.Check.C01
