import TpmVerif.Base.Trace
import TpmVerif.Model.Pcr
import TpmVerif.Crypto.Sha
/-! Checker for C10 traces: Model.Pcr instantiated with the Lean SHA implementations predicts every PCR value,
    update counter, selection and return code the TPM produced. -/
namespace TpmVerif.Check.C10
open TpmVerif TpmVerif.Model TpmVerif.Model.Pcr

def H : HashFn := fun alg d => match Crypto.algOfId alg with | some a => Crypto.hash a d | none => []

structure CS where
  st : Pcr.St := Pcr.manufactured
  rep : Report := {}
  line : Nat := 0

def mism (c : CS) (msg : String) : CS :=
  { c with rep := { c.rep with mismatches := c.rep.mismatches ++ [s!"line {c.line}: {msg}"] } }
def branch (c : CS) (b : String) : CS :=
  if c.rep.branches.contains b then c else { c with rep := { c.rep with branches := b :: c.rep.branches } }
def ev (c : CS) : CS := { c with rep := { c.rep with events := c.rep.events + 1 } }

def parseSels (s : String) : List (Nat × Nat × Nat) :=
  (s.splitOn ",").filterMap (fun x => match x.splitOn ":" with
    | [a, z, m] => some (a.toNat?.getD 0, z.toNat?.getD 0, m.toNat?.getD 0)
    | _ => none)

def selBytes (sz m : Nat) : Bytes := (List.range sz).map (fun q => UInt8.ofNat (m / 256 ^ q % 256))
def encSels (l : List (Nat × Nat × Nat)) : Bytes :=
  be32 l.length ++ (l.map (fun (a, z, m) => be16 a ++ [UInt8.ofNat z] ++ selBytes z m)).flatten
def encDigests (l : List Bytes) : Bytes := be32 l.length ++ (l.map (fun d => be16 d.length ++ d)).flatten
def encDigestValues (l : List (Nat × Bytes)) : Bytes := be32 l.length ++ (l.map (fun (a, d) => be16 a ++ d)).flatten

def pcrClass (p : Nat) : String := if p = 0 then "0" else if p < 16 then "static" else toString p

/-- parameters of a response that was sent with sessions: skip parameterSize, take that many bytes -/
def sessParams (rsp : Bytes) : Bytes := (rsp.drop 4).take ((rdBE rsp 0 4).getD 0)

def step (c : CS) (l : Line) : CS :=
  let c := { c with line := c.line + 1 }
  match l.kind with
  | "hist" => { c with st := Pcr.manufactured }
  | "hashseq" =>
      let c := ev c
      let c := branch c s!"hashseq/started={c.st.started}/interrupted={l.nat "interrupted"}"
      if l.nat "interrupted" = 1 then { c with st := Pcr.anyCommand c.st }
      else { c with st := Pcr.hashEnd H (Pcr.hashData (Pcr.hashStart c.st) (l.bytes "data")) }
  | "startup" =>
      let c := ev c
      let (s', rc) := Pcr.startup (Pcr.anyCommand c.st) (l.nat "state" == 1) (l.nat "loc")
      let c := branch c s!"startup/state={l.nat "state"}/loc={l.nat "loc"}/orderly={repr c.st.orderly}/pre={c.st.drtmPre}/rc={rc}"
      let c := if rc ≠ l.nat "rc" then mism c s!"SPEC[startup-rc] Startup(state={l.nat "state"}, locality {l.nat "loc"}) rc={l.nat "rc"}, model {rc}" else c
      { c with st := s' }
  | "rd" =>
      let c := ev c
      let sels := parseSels (l.str "sels")
      let st := Pcr.anyCommand c.st
      let c := { c with st := st }
      if l.nat "rc" ≠ Pcr.readRc sels then mism c s!"SPEC[read-refused] PCR_Read({l.str "sels"}) rc={l.nat "rc"}, model {Pcr.readRc sels}" else
      if l.nat "rc" ≠ 0 then branch c "rd/refused-sizeofSelect" else
      let (o, d) := Pcr.read st sels
      let exp := be32 st.counter ++ encSels o ++ encDigests d
      let c := branch c s!"rd/{l.str "why"}/n={sels.length}/digests={d.length}"
      if exp ≠ l.bytes "rsp" then
        let got := l.bytes "rsp"
        let what := if got.take 4 ≠ exp.take 4 then s!"pcrUpdateCounter {(rdBE got 0 4).getD 0} ≠ model {st.counter}"
          else if (got.drop 4).take (encSels o).length ≠ encSels o then "selection out differs" else "PCR values differ"
        mism c s!"SPEC[pcr-value] PCR_Read({l.str "sels"}) [{l.str "why"}]: {what}; tpm={l.str "rsp"} model={hexOfBytes exp}"
      else c
  | "extend" =>
      let c := ev c
      let pcr := l.nat "pcr"; let loc := l.nat "loc"; let mask := l.nat "banks"
      let algs := (List.range 4).filter (fun a => Pcr.bit mask a)
      let (ds, _) := algs.foldl (fun (acc : List (Nat × Bytes) × Bytes) a =>
        let alg := Pcr.bankAlgs.getD a 0; let n := Pcr.digestSize alg
        (acc.1 ++ [(alg, acc.2.take n)], acc.2.drop n)) ([], l.bytes "digests")
      let (s', rc) := Pcr.extend H (Pcr.anyCommand c.st) pcr loc ds
      let c := branch c s!"extend/pcr={pcrClass pcr}/loc={loc}/rc={rc}"
      let c := if rc ≠ l.nat "rc" then mism c s!"SPEC[extend-rc] PCR_Extend(pcr {pcr}) from locality {loc}: rc={l.nat "rc"}, model {rc}" else c
      { c with st := s' }
  | "event" =>
      let c := ev c
      let pcr := l.nat "pcr"; let loc := l.nat "loc"
      let (s', rc, ds) := Pcr.event H (Pcr.anyCommand c.st) pcr loc (l.bytes "data")
      let c := branch c s!"event/pcr={pcrClass pcr}/loc={loc}/seq={l.nat "seq"}/rc={rc}"
      let c := if rc ≠ l.nat "rc" then mism c s!"SPEC[extend-rc] PCR_Event/EventSequenceComplete(pcr {pcr}) from locality {loc}: rc={l.nat "rc"}, model {rc}" else c
      let c := if rc = 0 ∧ l.nat "rc" = 0 ∧ sessParams (l.bytes "rsp") ≠ encDigestValues ds then
          mism c s!"SPEC[event-digests] digests returned {hexOfBytes (sessParams (l.bytes "rsp"))} ≠ model {hexOfBytes (encDigestValues ds)}" else c
      { c with st := s' }
  | "reset" =>
      let c := ev c
      let (s', rc) := Pcr.reset (Pcr.anyCommand c.st) (l.nat "pcr") (l.nat "loc")
      let c := branch c s!"reset/pcr={pcrClass (l.nat "pcr")}/loc={l.nat "loc"}/rc={rc}"
      let c := if rc ≠ l.nat "rc" then mism c s!"SPEC[reset-rc] PCR_Reset(pcr {l.nat "pcr"}) from locality {l.nat "loc"}: rc={l.nat "rc"}, model {rc}" else c
      { c with st := s' }
  | "allocate" =>
      let c := ev c
      let req := ((l.str "req").splitOn ",").filterMap (fun x => match x.splitOn ":" with | [a, m] => some (a.toNat?.getD 0, m.toNat?.getD 0) | _ => none)
      let (s', rc, needed) := Pcr.allocate (Pcr.anyCommand c.st) req
      let c := branch c s!"allocate/n={req.length}/rc={rc}"
      let c := if rc ≠ l.nat "rc" then mism c s!"SPEC[allocate-rc] PCR_Allocate({l.str "req"}) rc={l.nat "rc"}, model {rc}" else c
      let exp := [1] ++ be32 Pcr.NPCR ++ be32 needed ++ be32 Gen.SIZEOF_S_PCRS
      let c := if rc = 0 ∧ l.nat "rc" = 0 ∧ sessParams (l.bytes "rsp") ≠ exp then
          mism c s!"SPEC[allocate-out] PCR_Allocate answered {hexOfBytes (sessParams (l.bytes "rsp"))}, model {hexOfBytes exp}" else c
      { c with st := s' }
  | "shutdown" =>
      let c := ev c
      let (s', rc) := Pcr.shutdown (Pcr.anyCommand c.st) (l.nat "state" == 1)
      let c := branch c s!"shutdown/state={l.nat "state"}/reconfig={c.st.reconfig}/rc={rc}"
      let c := if rc ≠ l.nat "rc" then mism c s!"SPEC[shutdown-rc] Shutdown(state={l.nat "state"}) rc={l.nat "rc"}, model {rc}" else c
      { c with st := s' }
  | "powercycle" =>
      let c := if l.nat "ret" ≠ 0 then mism c s!"MainInit after power cycle returned {l.nat "ret"}" else c
      { c with st := Pcr.powerCycle c.st }
  | "resume" =>
      let c := ev c
      let c := branch c s!"resume/reconfig={c.st.reconfig}/pendingAlloc"
      if l.nat "ret" ≠ 0 then mism c s!"SPEC[resume-failed] suspend/resume returned {l.nat "ret"}" else { c with st := Pcr.anyCommand c.st }
  | "quote" =>
      let c := ev c
      let st := Pcr.anyCommand c.st
      let c := { c with st := st }
      if l.nat "rc" ≠ 0 then mism c s!"SPEC[quote-refused] Quote rc={l.nat "rc"}" else
      -- TPM2B_ATTEST: size, magic(4) type(2) qualifiedSigner(2B) extraData(2B) clockInfo(17) firmwareVersion(8) pcrSelect pcrDigest(2B)
      let a := (sessParams (l.bytes "rsp")).drop 2
      let a1 := a.drop 6
      let a2 := a1.drop (2 + (rdBE a1 0 2).getD 0)
      let a3 := a2.drop (2 + (rdBE a2 0 2).getD 0)
      let q := a3.drop 25
      let sels := parseSels (l.str "sels")
      let filt := sels.map (fun (al, z, m) => (al, z, Pcr.filterSel st al z m))
      let expSel := encSels filt
      let dig := Crypto.hash Crypto.sha256 (Pcr.selectedValues st sels)
      let c := branch c s!"quote/n={sels.length}"
      if q.take expSel.length ≠ expSel then mism c s!"SPEC[quote-selection] quoted selection differs from the filtered request"
      else if q.drop expSel.length |>.take 34 |> (· ≠ be16 32 ++ dig) then
        mism c s!"SPEC[quote-digest] quoted pcrDigest {hexOfBytes ((q.drop expSel.length).take 34)} ≠ H(selected values) {hexOfBytes dig}"
      else c
  | "setauthvalue" | "setauthpolicy" =>
      let c := ev c
      let c := { c with st := Pcr.anyCommand c.st }
      let rc := l.nat "rc"
      let c := branch c s!"{l.kind}/rc={rc}"
      -- no PCR is in an authValue or policy group on this platform: always TPM_RC_VALUE (bare, or with a parameter number)
      if rc % 64 + 128 * (rc / 128 % 2) ≠ Gen.TPM_RC_PCR_VALUE then mism c s!"SPEC[pcr-group] {l.kind} on PCR {l.nat "pcr"} answered rc={rc}, expected TPM_RC_VALUE (no auth/policy groups)" else c
  | _ => c

def check (ls : List Line) : Report := (ls.foldl step {}).rep

end TpmVerif.Check.C10
