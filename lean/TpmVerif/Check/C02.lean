import TpmVerif.Base.Trace
import TpmVerif.Model.Blob
/-! Checker for C02 traces: twin-run verdicts (model-free oracle) and blob structure against the format model. -/
namespace TpmVerif.Check.C02
open TpmVerif TpmVerif.Model.Blob

structure CS where
  rep : Report := {}
  line : Nat := 0

def mism (c : CS) (msg : String) : CS :=
  { c with rep := { c.rep with mismatches := c.rep.mismatches ++ [s!"line {c.line}: {msg}"] } }
def branch (c : CS) (b : String) : CS :=
  if c.rep.branches.contains b then c else { c with rep := { c.rep with branches := b :: c.rep.branches } }

def step (c : CS) (l : Line) : CS :=
  let c := { c with line := c.line + 1 }
  match l.kind with
  | "op" => branch c s!"op/{l.str "cc"}/{if l.nat "rc" = 0 then "ok" else "err"}"
  | "blob" =>
      let c := { c with rep := { c.rep with events := c.rep.events + 1 } }
      let head := l.bytes "head"; let tail := l.bytes "tail"
      if l.str "kind" = "perm" then
        let c := if !headerOk head Gen.PERSISTENT_ALL_MAGIC Gen.PERSISTENT_ALL_VERSION then
                   mism c s!"SPEC[blob-format] permanent blob header not accepted by the format model: {hexOfBytes head}" else c
        let c := if rdBE tail 4 4 ≠ some Gen.PERSISTENT_ALL_MAGIC then mism c s!"SPEC[blob-format] permanent blob does not end with its magic: {hexOfBytes tail}" else c
        let ob := l.bytes "orderly"
        match orderlyHead.dec ob with
        | some (o, _) =>
            let c := branch c s!"orderly/v={o.hdr.version.val}/safe={o.safe}"
            if o.hdr.magic.val ≠ Gen.ORDERLY_DATA_MAGIC ∨ o.hdr.version.val > Gen.ORDERLY_DATA_VERSION then
              mism c s!"SPEC[blob-format] ORDERLY_DATA header not as modelled: {hexOfBytes (ob.take 8)}" else c
        | none => mism c "SPEC[blob-format] ORDERLY_DATA block not found / not decodable"
      else
        let c := if !headerOk head Gen.VOLATILE_STATE_MAGIC Gen.VOLATILE_STATE_VERSION then
                   mism c s!"SPEC[blob-format] volatile blob header not accepted by the format model: {hexOfBytes head}" else c
        c
  | "twin" =>
      let c := { c with rep := { c.rep with events := c.rep.events + 1 } }
      let c := branch c s!"twin/variant={l.nat "variant"}"
      if l.get? "getstate" ≠ none then mism c s!"SPEC[getstate-failed] TPMLIB_GetState failed on a running TPM: {l.str "getstate"}" else
      let c := if l.str "setstate" ≠ "0/0" ∨ l.nat "maininit" ≠ 0 then
                 mism c s!"SPEC[resume-failed] SetState={l.str "setstate"} MainInit={l.nat "maininit"} with blobs just taken from the running TPM" else c
      let c := if l.nat "again_equal" ≠ 1 then mism c "SPEC[blobs-again-differ] two consecutive GetState calls returned different blobs" else c
      let c := if l.nat "maininit" = 0 ∧ l.nat "blobs_equal" ≠ 1 then
                 mism c "SPEC[blob-not-fixpoint] blobs taken right after resuming differ from the blobs that were loaded" else c
      let c := if l.nat "maininit" = 0 ∧ l.nat "cont_equal" ≠ 1 then
                 mism c s!"SPEC[resume-diverged] resumed TPM answered differently from the uninterrupted one at continuation command {l.str "first_diff"} (cc={l.str "cc1"} rc {l.str "rc1"} vs {l.str "rc2"})" else c
      c
  | _ => c

def check (ls : List Line) : Report := (ls.foldl step {}).rep

end TpmVerif.Check.C02
