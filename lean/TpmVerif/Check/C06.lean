import TpmVerif.Base.Trace
import TpmVerif.Model.Blob
/-! Checker for C06 traces: verdict consistency of the three doors (SetState, load callback via ValidateState/MainInit). -/
namespace TpmVerif.Check.C06
open TpmVerif

structure CS where
  rep : Report := {}
  line : Nat := 0
  desc : String := ""
  kind : String := ""
  setstate : Nat := 0
  head : Bytes := []      -- the first bytes of the offered blob (its outermost NV_HEADER)

def mism (c : CS) (msg : String) : CS :=
  { c with rep := { c.rep with mismatches := c.rep.mismatches ++ [s!"line {c.line}: {msg}"] } }
def branch (c : CS) (b : String) : CS :=
  if c.rep.branches.contains b then c else { c with rep := { c.rep with branches := b :: c.rep.branches } }

def mutClass (d : String) : String := ((d.splitOn "@").headD d).takeWhile (fun ch => ch != '+' && ch != '=') |>.toString

def step (c : CS) (l : Line) : CS :=
  let c := { c with line := c.line + 1 }
  match l.kind with
  | "mut" => { c with desc := l.str "desc", kind := l.str "kind", head := l.bytes "head", rep := { c.rep with events := c.rep.events + 1 } }
  | "door1" =>
      let acc : Bool := l.nat "setstate" == 0
      let c := branch c s!"door1/{c.kind}/{mutClass c.desc}/accepted={acc}"
      let c := { c with setstate := l.nat "setstate" }
      -- identity blobs must be accepted
      let c := if c.desc = "identity" ∧ (!acc ∨ l.nat "maininit" ≠ 0 ∨ l.nat "alive" ≠ 1) then
                 mism c s!"SPEC[own-blob-refused] an unmodified {c.kind} blob was not accepted / not started: SetState={l.nat "setstate"} MainInit={l.nat "maininit"} alive={l.nat "alive"}" else c
      -- after a rejection no blob stays cached and a TPM can still be started normally (it is manufactured afresh)
      let c := if !acc ∧ l.nat "cached_after" ≠ 0 then mism c s!"SPEC[reject-left-cache] SetState rejected the blob ({c.desc}) with {l.nat "setstate"} but a permanent blob is still cached" else c
      let c := if !acc ∧ (l.nat "maininit" ≠ 0 ∨ l.nat "alive" ≠ 1) then
                 mism c s!"SPEC[no-normal-start-after-reject] after the rejected blob ({c.desc}) MainInit={l.nat "maininit"} alive={l.nat "alive"}" else c
      -- after an acceptance MainInit succeeds and the TPM answers commands
      -- (a volatile blob that itself records failure mode is resumed into failure mode — C17 — and MainInit reports it)
      let blobFail : Bool := l.nat "blobfail" == 1
      let c := if acc ∧ blobFail then branch c "door1/blob-records-failure-mode" else c
      let c := if acc ∧ l.nat "alive" = 3 then branch c "door1/counter-at-its-end" else c
      let c := if acc ∧ !blobFail ∧ (l.nat "maininit" ≠ 0 ∨ (l.nat "alive" ≠ 1 ∧ l.nat "alive" ≠ 3)) then
                 mism c s!"SPEC[accepted-blob-does-not-start] SetState accepted the {c.kind} blob ({c.desc}) but MainInit={l.nat "maininit"} alive={l.nat "alive"} (failing command {l.str "failcc"}, failure site {l.str "failfn"}:{l.nat "failline"})" else c
      -- the outermost header under the header model: what the model refuses must not be accepted
      let hv := if c.kind = "vol" then Model.Blob.headerRefusal c.head Gen.VOLATILE_STATE_MAGIC Gen.VOLATILE_STATE_VERSION
                else Model.Blob.headerRefusal c.head Gen.PERSISTENT_ALL_MAGIC Gen.PERSISTENT_ALL_VERSION
      let c := match hv with
        | some why => let c := branch c s!"header/{c.kind}/{repr why}/accepted={acc}"
                      if acc then mism c s!"SPEC[bad-header-accepted] SetState accepted a {c.kind} blob ({c.desc}) whose outermost header must be refused ({repr why}): {hexOfBytes c.head}" else c
        | none => c
      -- cross-type blobs are never accepted
      let c := if acc ∧ (c.desc = "vol-as-perm" ∨ c.desc = "perm-as-vol") then mism c s!"SPEC[cross-type-accepted] {c.desc} accepted" else c
      c
  | "door2" =>
      let vOk : Bool := l.nat "validate" == 0; let mOk : Bool := l.nat "maininit" == 0
      let c := branch c s!"door2/{c.kind}/validate={vOk}/maininit={mOk}"
      -- ValidateState gives the verdict MainInit acts on
      let c := if vOk ≠ mOk ∧ ¬ (vOk ∧ l.nat "blobfail" = 1) then
                 mism c s!"SPEC[validate-disagrees] {c.kind} blob ({c.desc}) held by storage: ValidateState={l.nat "validate"} but MainInit={l.nat "maininit"}" else c
      let c := if mOk ∧ l.nat "alive" ≠ 1 ∧ l.nat "alive" ≠ 3 then mism c s!"SPEC[accepted-blob-does-not-start] MainInit accepted the stored {c.kind} blob ({c.desc}) but the TPM does not answer (alive={l.nat "alive"})" else c
      -- both doors agree on the verdict for the same bytes
      let c := if (c.setstate == 0) ≠ vOk ∧ c.kind = "perm" then
                 mism c s!"SPEC[doors-disagree] perm blob ({c.desc}): SetState={c.setstate} ValidateState={l.nat "validate"}" else c
      c
  | "normalstart" => mism c s!"SPEC[no-normal-start] after handling blob #{l.nat "n"} a fresh MainInit gave {l.nat "maininit"} alive={l.nat "alive"}"
  | _ => c

def check (ls : List Line) : Report := (ls.foldl step {}).rep

end TpmVerif.Check.C06
