import TpmVerif.Base.Trace
import TpmVerif.Model.Tpm12Persist
import TpmVerif.Check.C20
/-! Correspondence checker for C19 traces.  The harness traces, per command, the digest of the live permanent state
    (`TPMLIB_GetState(PERMANENT)`), the digest of the payload last accepted by the storage callback, the number of
    store/load callbacks and whether an injected fault fired.  This checker (i) evaluates the property's clauses
    directly on those observations (SPEC[...] lines) and (ii) replays them through `Model.Tpm12.Persist`. -/
namespace TpmVerif.Check.C19
open TpmVerif TpmVerif.Gen.Tpm12 TpmVerif.Model.Tpm12.Persist

structure CS where
  st : St String := { live := "", stored := "" }
  live : Bool := false
  rep : Report := {}
  line : Nat := 0
  batBefore : String := ""
  batBeforeFailed : Bool := false
  batPremut : String := ""
  batState : String := ""

def mism (c : CS) (msg : String) : CS :=
  { c with rep := { c.rep with mismatches := c.rep.mismatches ++ [s!"line {c.line}: {msg}"] } }

def branch (c : CS) (b : String) : CS :=
  if c.rep.branches.contains b then c else { c with rep := { c.rep with branches := b :: c.rep.branches } }

def rcClass (rc : Nat) : String :=
  if rc = 0 then "ok" else if rc = TPM_FAIL then "fail" else if rc = TPM_FAILEDSELFTEST then "failedselftest" else "error"

def allZero (s : String) : Bool := (s.splitOn "/").all (· == "0")

def stepCmd (c : CS) (l : Line) : CS :=
  let c := { c with rep := { c.rep with events := c.rep.events + 1 } }
  let rc := l.nat "rc"
  let live := l.str "live"
  let stored := l.str "stored"
  let stores := l.nat "stores"
  let loads := l.nat "loads"
  let fault := l.nat "fault"
  let name := l.str "name"
  let prev := c.st
  let c := if l.nat "ret" ≠ 0 then mism c s!"{name}: TPMLIB_Process returned {l.nat "ret"}" else c
  let c := if live.startsWith "getstate-error" then mism c s!"{name}: TPMLIB_GetState(PERMANENT) failed on the running TPM: {live}" else c
  -- the property's clauses, on the observations alone
  let c := if rc = 0 && live ≠ stored && (!prev.failed || live ≠ prev.live || stored ≠ prev.stored) then
      mism c s!"SPEC[write-through] {name} acknowledged with success but the stored permanent blob ({stored}) differs from the live state ({live})" else c
  -- TPM_AUDITFAIL_SUCCESSFUL is the specified code for "the command itself succeeded, the audit record could not be made"
  let c := if rc ≠ 0 && rc ≠ TPM_AUDITFAIL_SUCCESSFUL && stored ≠ prev.stored then
      mism c s!"SPEC[rollback-stored-changed] {name} failed with {rc} but the stored blob changed {prev.stored} -> {stored}" else c
  let c := if rc ≠ 0 && rc ≠ TPM_FAIL && fault = 0 && !prev.failed && live ≠ prev.live then
      mism c s!"SPEC[rollback-live-changed] {name} failed with {rc} but the live permanent state changed {prev.live} -> {live}" else c
  let c := if fault > 0 && rc = 0 then
      mism c s!"SPEC[storage-fault-silent-success] {name}: a storage callback failed during the command and the command answered success" else c
  let c := if rc = TPM_FAIL && fault = 0 && !prev.failed then
      mism c s!"SPEC[tpm-fail-ord-{l.nat "ord"}] {name} answered TPM_FAIL without any storage fault (the TPM enters its self-test-failed state)" else c
  -- the model
  let touched := stores + loads + fault > 0 || live ≠ prev.live
  let auditFault := fault > 0 && rc = TPM_AUDITFAIL_SUCCESSFUL
  let storeFault := fault > 0 && loads = 0 && !auditFault
  let loadFault := fault > 0 && loads > 0
  let ev : Ev String :=
    { altered := if touched then some live else none
      rcIn := if storeFault || auditFault then 0 else if loadFault then 1 else rc
      storeOk := !storeFault, loadOk := !loadFault, auditOk := !auditFault }
  let (s', rcM) := respond prev ev
  let c := { c with st := s' }
  let c := branch c s!"{name}/{rcClass rc}/stores={decide (stores > 0)}/loads={decide (loads > 0)}/fault={fault}/failedbefore={prev.failed}"
  -- a command of a failed TPM answers TPM_FAILEDSELFTEST: outside the protocol model, nothing may change
  if prev.failed && rc ≠ TPM_FAIL then
    let c := { c with st := { prev with live := live, stored := stored } }
    if stored ≠ prev.stored then mism c s!"{name}: stored blob changed while the TPM is in its failed state" else c
  else
  -- a failed store may surface as TPM_FAIL or, when it happens inside the audit step, as TPM_AUDITFAIL_*: any error code
  let c := if rcM ≠ rc && !(rc = TPM_FAIL && fault = 0) && !(fault > 0 && rc ≠ 0) then mism c s!"{name}: rc model={rcM} impl={rc}" else c
  -- (when the audit store failed the stored blob is the one written before the audit digest changed: not comparable with `live`)
  let c := if s'.stored ≠ stored && !auditFault then mism c s!"{name}: stored blob model={s'.stored} impl={stored}" else c
  let c := if auditFault then branch c "audit-store-fault" else c
  let c := if !s'.failed && s'.live ≠ live then mism c s!"{name}: live permanent state model={s'.live} impl={live}" else c
  -- keep following the implementation
  { c with st := { s' with live := live, stored := stored, failed := s'.failed || rc == TPM_FAIL || (fault > 0 && rc ≠ 0) } }

def step (c : CS) (l : Line) : CS :=
  let c := { c with line := c.line + 1 }
  match l.kind with
  | "hist" => { c with live := false, batBefore := "", batPremut := "" }
  | "fresh" =>
      let c := { c with st := { live := l.str "live", stored := l.str "stored" }, live := true }
      if l.str "live" ≠ l.str "stored" then mism c "SPEC[write-through] after the first MainInit the stored blob differs from the live state" else c
  | "firstinit" =>
      let c := { c with rep := { c.rep with events := c.rep.events + 1 } }
      let c := branch c s!"firstinit/{l.str "fault"}/fired={decide (l.nat "fired" > 0)}/ret={rcClass (l.nat "ret")}"
      if l.nat "fired" > 0 && l.nat "ret" = 0 then
        mism c s!"SPEC[storage-fault-silent-success] first MainInit returned success although the {l.str "fault"} callback failed" else c
  | "cmd" => if c.live then stepCmd c l else c
  | "battery" =>
      let ph := l.str "phase"
      if ph = "before" then { c with batBefore := l.str "sha", batBeforeFailed := c.st.failed }
      else if ph = "premut" then { c with batPremut := l.str "sha", batBeforeFailed := c.st.failed }
      else if ph = "after" then
        let c := { c with rep := { c.rep with events := c.rep.events + 1 } }
        if !c.batBeforeFailed && c.batBefore ≠ "" && c.batBefore ≠ l.str "sha" then
          mism c s!"SPEC[resume-battery] the resumed TPM answers the read-only battery differently: before {c.batBefore} after {l.str "sha"}" else c
      else if ph = "sbefore" then { c with batState := l.str "sha", batBeforeFailed := c.st.failed }
      else if ph = "safter" then
        let c := { c with rep := { c.rep with events := c.rep.events + 1 } }
        if !c.batBeforeFailed && c.batState ≠ "" && c.batState ≠ l.str "sha" then
          mism c s!"SPEC[savestate-battery] after TPM_SaveState / power cycle / TPM_Startup(ST_STATE) the TPM answers the read-only battery (PCR 0-15, flags, NV, counters, handle lists) differently: before {c.batState} after {l.str "sha"}" else c
      else if ph = "postmut" then
        let c := { c with rep := { c.rep with events := c.rep.events + 1 } }
        if !c.batBeforeFailed && c.batPremut ≠ "" && c.batPremut ≠ l.str "sha" then
          mism c s!"SPEC[mutation-aftermath] after the rejected blobs the TPM answers the battery differently: before {c.batPremut} after {l.str "sha"}" else c
      else c
  | "holes" => branch { c with rep := { c.rep with events := c.rep.events + 1 } } s!"holes/{l.str "kind"}/open={l.nat "open"}/victim={l.nat "victim"}"
  | "ststate" =>
      let c := branch c s!"startup-state/rc={rcClass (l.nat "rc")}"
      if l.nat "rc" ≠ 0 && !c.st.failed then
        mism c s!"SPEC[savestate-rejected] TPM_Startup(ST_STATE) refused the state TPM_SaveState had just stored: rc {l.nat "rc"}" else c
  | "resume" =>
      let c := branch c s!"resume/storage={l.nat "storage"}/eqvol={l.nat "eqvol"}/eqsave={l.nat "eqsave"}/failedbefore={c.st.failed}/second={l.nat "second"}"
      let c := if !allZero (l.str "get") then mism c s!"SPEC[resume-rejected] GetState failed: {l.str "get"}" else c
      let c := if !allZero (l.str "set") || l.nat "maininit" ≠ 0 then
                 mism c s!"SPEC[resume-rejected] the TPM's own blobs were refused: SetState {l.str "set"} MainInit {l.nat "maininit"}" else c
      let c := if l.nat "maininit" = 0 && l.nat "eqperm" = 0 then
                 mism c "SPEC[resume-permanent-blob] the permanent blob read back after the resume differs from the one set" else c
      -- SetState + MainInit writes the permanent blob back to storage
      { c with st := { live := c.st.live, stored := c.st.live, failed := false } }
  | "restart" =>
      let c := branch c s!"restart/ret={l.nat "ret"}/failedbefore={c.st.failed}/insync={decide (c.st.live = c.st.stored)}"
      let c := if l.nat "ret" ≠ 0 then mism c s!"SPEC[restart-failed] MainInit from the stored blob returned {l.nat "ret"}" else c
      { c with st := restart c.st }
  | "sync" =>
      let c := if l.str "live" ≠ l.str "stored" then
                 mism c s!"SPEC[write-through] after MainInit the stored blob ({l.str "stored"}) differs from the live state ({l.str "live"})" else c
      let c := if c.st.stored ≠ l.str "stored" then mism c s!"restart/resume: stored blob model={c.st.stored} impl={l.str "stored"}" else c
      { c with st := { c.st with live := l.str "live", stored := l.str "stored" } }
  | "mut" =>
      let c := { c with rep := { c.rep with events := c.rep.events + 1 } }
      let cls := if l.nat "ret" = 0 then (if l.nat "same" = 1 then "identical" else "accepted") else "rejected"
      branch c s!"mut/{l.str "type"}/{l.str "kind"}/{cls}/maininit={if l.nat "maininit" = 65535 then "-" else rcClass (l.nat "maininit")}"
  | "aftermut" =>
      if !allZero (l.str "set") || l.nat "maininit" ≠ 0 then
        mism c s!"SPEC[mutation-aftermath] after rejected blobs the original blobs / a normal MainInit fail: SetState {l.str "set"} MainInit {l.nat "maininit"}" else c
  | "arm" => branch c s!"arm/{l.str "fault"}/{l.str "at"}"
  | "san" =>
      let c := { c with rep := { c.rep with events := c.rep.events + 1 } }
      let what := String.ofList ((l.bytes "req").map fun b => Char.ofNat b.toNat)
      -- C19 speaks of memory errors and aborts; undefined arithmetic (shift / signed overflow) found by UBSan is
      -- reported as an observation, not as a violation of this property (C18 names undefined behaviour, C19 does not)
      let m := l.str "msg"
      if l.str "kind" = "ubsan" && (m.startsWith "left-shift" || m.startsWith "signed-integer-overflow" || m.startsWith "shift-exponent") then
        { (branch c s!"observation/{l.str "sig"}") with rep := { (branch c s!"observation/{l.str "sig"}").rep with
            notes := c.rep.notes ++ [s!"observation (undefined arithmetic, not a memory error): {l.str "sig"} {m} during {what}"] } }
      else
      mism c s!"SPEC[{l.str "sig"}] {l.str "kind"} report in {l.str "site"} during {what} (history {l.str "hist"}, call {l.str "idx"})"
  | _ => c

/-- which lines belong to a history borrowed from the C20 scenario (a `borrow` line follows the `hist` line) -/
def borrowedMask (ls : List Line) : List Bool :=
  let (rev, _) := ls.foldl (fun (acc : List Bool × Bool) l =>
    let (m, inB) := acc
    if l.kind = "hist" then (false :: m, false)
    else if l.kind = "borrow" then (true :: (match m with | _ :: t => true :: t | [] => []), true)
    -- sanitizer reports are judged by C19's own rule in every history (memory errors and aborts are violations, undefined
    -- arithmetic is an observation): the blob mutations run inside borrowed histories too
    else if l.kind = "san" || l.kind = "sanlog" then (false :: m, inB)
    else (inB :: m, inB)) ([], false)
  rev.reverse

def blank : Line := { kind := "", args := [] }

/-- C19's own lines go through C19's checker; the NV/counter histories borrowed from the C20 scenario — where refused ordinals
    roll the permanent state back from storage while volatile NV flags must be carried over — go through C20's model.
    Lines of the other kind are blanked, not removed, so that line numbers stay those of the trace. -/
def check (ls : List Line) : Report :=
  let mask := borrowedMask ls
  let own := (ls.zip mask).map (fun (l, b) => if b then blank else l)
  let bor := (ls.zip mask).map (fun (l, b) => if b then l else blank)
  let r1 := (own.foldl step {}).rep
  let r2 := TpmVerif.Check.C20.check bor
  { mismatches := r1.mismatches ++ r2.mismatches.map (fun m => m ++ " [NV history judged by Model.Tpm12Nv: rollback after a refused ordinal]"),
    events := r1.events + r2.events,
    branches := r1.branches ++ r2.branches.map (fun b => "c20/" ++ b),
    notes := r1.notes ++ r2.notes }

end TpmVerif.Check.C19
