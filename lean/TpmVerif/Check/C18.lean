import TpmVerif.Base.Trace
import TpmVerif.Model.Tpm12Frame
/-! Correspondence checker for C18 traces: every `cmd` line (request bytes, response bytes, negotiated buffer
    size) is judged by the property's `wellFormed` predicate and compared with `Model.Tpm12.Frame.process`
    wherever the model determines the answer without knowing the ordinal body (rejected header, ordinal not
    in the table), and with the model's tag/size rules where the body ran. -/
namespace TpmVerif.Check.C18
open TpmVerif TpmVerif.Gen.Tpm12 TpmVerif.Model.Tpm12.Frame

structure CS where
  rep : Report := {}
  line : Nat := 0
  failed : Bool := false          -- the observed TPM already reported the failed state in this history
  seenOrd : List Nat := []        -- implemented ordinals that reached their body at least once (whole trace)

def mism (c : CS) (msg : String) : CS :=
  { c with rep := { c.rep with mismatches := c.rep.mismatches ++ [s!"line {c.line}: {msg}"] } }

def branch (c : CS) (b : String) : CS :=
  if c.rep.branches.contains b then c else { c with rep := { c.rep with branches := b :: c.rep.branches } }

def rcClass (rc : Nat) : String :=
  if rc = 0 then "ok"
  else if rc = TPM_BAD_PARAM_SIZE then "badparamsize"
  else if rc = TPM_BADTAG then "badtag"
  else if rc = TPM_BAD_ORDINAL then "badordinal"
  else if rc = TPM_SIZE then "size"
  else "err"

def tagClass (t : Nat) : String := if legalTag t then s!"{t}" else "illegal"

def stepCmd (c : CS) (l : Line) : CS :=
  let c := { c with rep := { c.rep with events := c.rep.events + 1 } }
  let req := l.bytes "req"
  let rsp := l.bytes "rsp"
  let maxbuf := l.nat "maxbuf"
  if l.nat "ret" ≠ 0 then
    mism c s!"SPEC[fatal-return] TPMLIB_Process returned {l.nat "ret"} (no response) for request {l.str "req"}"
  else
  let rt := reqTag req
  -- the property's predicate, on what the implementation returned
  let c := if wellFormed maxbuf rt rsp then c else
    mism c s!"SPEC[malformed-response] request tag {rt} maxbuf {maxbuf} response {l.str "rsp"}"
  let c := if l.nat "len" = rsp.length && l.nat "len" ≤ l.nat "bufsize" then c else
    mism c s!"SPEC[length-exceeds-buffer] returned length {l.nat "len"} allocated {l.nat "bufsize"}"
  let rc := (rspCode rsp).getD 0xFFFFFFFF
  let tag := (rspTag rsp).getD 0
  -- the failed state must never be entered (reported once per history, with the ordinal that caused it)
  let ordOf := ((parseHeader req).map (·.ord)).getD 0
  let c := if rc = TPM_FAIL && !c.failed then
             { (mism c s!"SPEC[tpm-fail-ord-{ordOf}] response code TPM_FAIL (the TPM enters its self-test-failed state) for request {l.str "req"}") with failed := true } else c
  let c := if rc = TPM_FAILEDSELFTEST && !c.failed then
             { (mism c s!"SPEC[failed-selftest-state] response code TPM_FAILEDSELFTEST for request {l.str "req"}") with failed := true } else c
  -- model: paths that do not depend on the ordinal body are predicted exactly
  let dummy : Hdr → BodyOut := fun _ => { rc := rc, out := [] }
  let (mrsp, _, path) := process { bufMax := maxbuf } false dummy req
  match path with
  | .parseError =>
      let c := branch c s!"parse-error/short={decide (req.length < 10)}/tag={tagClass rt}"
      if mrsp = rsp then c else mism c s!"header rejected: model {hexOfBytes mrsp} impl {l.str "rsp"}"
  | .unused =>
      let c := branch c s!"unused/tag={tagClass rt}"
      if mrsp = rsp then c
      else if rc = TPM_INVALID_AUTHHANDLE then
        -- TPM_Process_Preprocess failed before the table was consulted: the only preprocessing step that answers
        -- TPM_INVALID_AUTHHANDLE is the termination of an exclusive transport session that no longer exists
        mism c s!"SPEC[exclusive-transport-wedge] an ordinal that is not in the table is answered TPM_INVALID_AUTHHANDLE: tpm_stany_flags.transportExclusive names a transport session that is gone, every ordinal is refused until TPM_Init (request {l.str "req"})"
      else mism c s!"ordinal not in table: model {hexOfBytes mrsp} impl {l.str "rsp"}"
  | .preError => c
  | .initialOnly =>
      let ord := ((parseHeader req).map (·.ord)).getD 0
      let c := if c.seenOrd.contains ord then c else { c with seenOrd := ord :: c.seenOrd }
      let c := branch c s!"initial-only ord={ord}/{rcClass rc}/tag={tagClass rt}"
      if mrsp = rsp then c else mism c s!"ordinal {ord} (no StoreFinalResponse): model {hexOfBytes mrsp} impl {l.str "rsp"}"
  | .body =>
      let ord := ((parseHeader req).map (·.ord)).getD 0
      let c := if c.seenOrd.contains ord then c else { c with seenOrd := ord :: c.seenOrd }
      let c := branch c s!"ord={ord}/{rcClass rc}/tag={tagClass rt}"
      -- StoreFinalResponse: every error from a body carries TPM_TAG_RSP_COMMAND
      let c := if rc ≠ 0 && tag ≠ TPM_TAG_RSP_COMMAND then
                 mism c s!"body error with tag {tag} (model: StoreFinalResponse always writes {TPM_TAG_RSP_COMMAND}) ord {ord}" else c
      -- every body checks its request tag: success is only possible for the three legal tags
      let c := if rc = 0 && !legalTag rt then
                 mism c s!"SPEC[success-for-illegal-tag] ordinal {ord} succeeded with request tag {rt}" else c
      c

def step (c : CS) (l : Line) : CS :=
  let c := { c with line := c.line + 1 }
  match l.kind with
  | "hist" => { c with failed := false }
  | "fresh" => branch { c with failed := false } s!"maxbuf={l.nat "maxbuf"}"
  | "cmd" => stepCmd c l
  | "xcmd" =>
      -- a command wrapped in TPM_ExecuteTransport that the transport layer accepted: the wrapped response is a TPM 1.2
      -- response of its own and is judged by the same predicate against the WRAPPED request's tag
      let c := { c with rep := { c.rep with events := c.rep.events + 1 } }
      let req := l.bytes "req"
      let rsp := l.bytes "rsp"
      let rt := reqTag req
      let rc := (rspCode rsp).getD 0xFFFFFFFF
      let ord := ((rd32 (req.drop 6)).map (·.1)).getD 0
      let psize := ((rd32 (req.drop 2)).map (·.1)).getD 0
      let c := branch c s!"wrapped ord={ord}/{rcClass rc}/tag={tagClass rt}/sizes-consistent={decide (psize = req.length)}"
      let c := if wellFormed (l.nat "maxbuf") rt rsp then c else
        mism c s!"SPEC[malformed-wrapped-response] wrapped request {l.str "req"} (tag {rt}) wrapped response {l.str "rsp"}"
      let c := if rc = 0 && !legalTag rt then mism c s!"SPEC[success-for-illegal-tag] wrapped ordinal {ord} succeeded with request tag {rt}" else c
      if l.str "hmac" = "0" then mism c s!"SPEC[transport-response-hmac] the TPM_ExecuteTransport answer carrying {l.str "rsp"} does not verify under the transport session's secret" else c
  | "health" =>
      let c := branch c s!"health/{l.nat "gtr"}/{l.nat "pcrread"}"
      if l.nat "pcrread" = TPM_FAILEDSELFTEST && !c.failed then
        { (mism c "SPEC[failed-selftest-state] health probe: PCRRead answers TPM_FAILEDSELFTEST") with failed := true } else c
  | "san" =>
      -- the library crashed / tripped a sanitizer / hung while processing `req` (memory-safety clause of the property)
      let c := { c with rep := { c.rep with events := c.rep.events + 1 } }
      mism c s!"SPEC[{l.str "sig"}] {l.str "kind"} report in {l.str "site"} while processing request {l.str "req"} (history {l.str "hist"}, call {l.str "idx"})"
  | "restart" =>
      let c := branch c s!"restart/ret={l.nat "ret"}"
      let c := if l.nat "ret" ≠ 0 then mism c s!"MainInit after Terminate returned {l.nat "ret"}" else c
      { c with failed := false }
  | "end" =>
      -- coverage of the generated ordinal table (reported, not judged)
      let missing := (ordinalTable.filter (fun e => e.2 && !c.seenOrd.contains e.1)).map (·.1)
      let c := branch c s!"table-ordinals-reached={c.seenOrd.length}"
      if missing.isEmpty then c else
        { c with rep := { c.rep with notes := c.rep.notes ++ [s!"implemented ordinals never reaching their body in this trace: {missing}"] } }
  | _ => c

def check (ls : List Line) : Report := (ls.foldl step {}).rep

end TpmVerif.Check.C18
