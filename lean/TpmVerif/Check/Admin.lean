import TpmVerif.Base.Trace
import TpmVerif.Model.Admin
import TpmVerif.Gen.Consts
/-! Checker for the administrative-state lines (`a op=…`) of C03 traces: every return code and every observation is
    predicted by `Model.Admin`; restarts apply `restartClear` (Reset/Restart) or nothing (Resume). -/
namespace TpmVerif.Check.Admin
open TpmVerif TpmVerif.Model.Admin

structure AS where
  st : St := {}
  fresh : Bool := true                       -- audit/pp baseline not yet taken from the first observation
  names : List ((Nat × Nat × Nat) × Bytes) := []   -- (hierarchy, seed generation, proof generation) ↦ Name of the probe primary (a symmetric primary's secret is stirred with the proof)
  tickets : List ((Nat × Nat × Nat) × Bytes) := []

def hOf (n : Nat) : H := if n = 0 then .owner else if n = 1 then .endorsement else if n = 2 then .platform else .lockout
def hIdx : H → Nat | .owner => 0 | .endorsement => 1 | .platform => 2 | .lockout => 3
def enOf (n : Nat) : En := if n = 0 then .owner else if n = 1 then .endorsement else .platformNV

def ccList (s : String) : List Nat := if s = "-" ∨ s = "" then [] else (s.splitOn ",").filterMap (·.toNat?)

def opOf (l : Line) : Option Op :=
  let ah := hOf (l.nat "ah")
  match l.str "op" with
  | "changeauth" => some (.changeAuth ah (l.bytes "new"))
  | "setpolicy" => some (.setPolicy ah (l.nat "alg") (l.bytes "digest"))
  | "clearcontrol" => some (.clearControl ah (l.nat "disable" == 1))
  | "clear" => some (.clear ah)
  | "changeeps" => some .changeEPS
  | "changepps" => some .changePPS
  | "control" => some (.control ah (enOf (l.nat "en")) (l.nat "state" == 1))
  | "setaudit" => some (.setAudit ah (l.nat "alg") (ccList (l.str "set")) (ccList (l.str "clear")))
  | "ppcommands" => some (.ppCommands (ccList (l.str "set")) (ccList (l.str "clear")))
  | _ => none

/-- the lists a capability shows, from the model: ascending command codes of the implemented commands -/
def shown (f : Nat → Bool) : List Nat := ((Gen.ccTable.filter (·.2.2.2.1)).map (·.1)).filter f

/-- TPM_CAP_AUTH_POLICIES lists the four hierarchies in handle order (owner, lockout, endorsement, platform), a hierarchy
    without policy as TPM_ALG_NULL with an empty digest -/
def polShown (s : St) : List (Nat × Nat × Bytes) :=
  [H.owner, H.lockout, H.endorsement, H.platform].map (fun h => (hIdx h, s.polAlg h, if s.polAlg h = 0x10 then [] else s.pol h))

def parsePol (str : String) : List (Nat × Nat × Bytes) :=
  if str = "-" ∨ str = "" then [] else
  (str.splitOn ";").filterMap (fun e => match e.splitOn ":" with
    | [h, a, d] => match h.toNat?, a.toNat? with | some h, some a => some (h, a, (Line.hexBytes d).getD []) | _, _ => none
    | _ => none)

/-- returns the new state, mismatch texts and a branch label -/
def step (a : AS) (l : Line) : AS × List String × String :=
  match l.str "op" with
  | "begin" => ({ st := { auditAlg := Gen.CONTEXT_INTEGRITY_HASH_ALG } }, [], "admin/begin")
  | "end" => (a, [], "admin/end")
  | "obs" =>
      -- the first observation of a fresh TPM supplies the manufactured audit and PP sets
      let a := if a.fresh then { a with fresh := false, st := { a.st with audit := fun cc => (ccList (l.str "audit")).contains cc, pp := fun cc => (ccList (l.str "pp")).contains cc } } else a
      let s := a.st
      let m1 := if l.nat "perm" % 8 + (l.nat "perm" / 256 % 2) * 256 ≠ permanentBits s then
        [s!"SPEC[admin-permanent] TPM_PT_PERMANENT={l.nat "perm"}: ownerAuthSet/endorsementAuthSet/lockoutAuthSet/disableClear differ from the model's {permanentBits s}"] else []
      let m2 := if l.nat "startup" ≠ startupClearBits s then [s!"SPEC[admin-enables] TPM_PT_STARTUP_CLEAR enables={l.nat "startup"}, model {startupClearBits s}"] else []
      let m3 := if ccList (l.str "audit") ≠ shown s.audit then [s!"SPEC[admin-audit] audited commands {l.str "audit"}, model {shown s.audit}"] else []
      let m4 := if ccList (l.str "pp") ≠ shown s.pp then [s!"SPEC[admin-pp] commands needing physical presence {l.str "pp"}, model {shown s.pp}"] else []
      let m5 := if parsePol (l.str "pol") ≠ polShown s then [s!"SPEC[admin-policy] hierarchy policies {l.str "pol"}, model {(polShown s).map (fun (h, al, d) => (h, al, hexOfBytes d))}"] else []
      (a, m1 ++ m2 ++ m3 ++ m4 ++ m5, s!"admin/obs/perm={permanentBits s}/en={startupClearBits s}")
  | "restart" =>
      if l.nat "ret" ≠ 0 ∨ l.nat "rc" ≠ 0 then (a, [s!"SPEC[restart-failed] restart ({l.str "kind"}) ret={l.nat "ret"} rc={l.nat "rc"}"], "admin/restart-failed") else
      let st' := if l.str "kind" = "resume" then a.st else restartClear a.st
      ({ a with st := st' }, [], s!"admin/restart/{l.str "kind"}")
  | "probe" =>
      let h := hOf (l.nat "h"); let s := a.st
      let exp : Nat := if !usable s h then RC_HIERARCHY else if stripZeros (l.bytes "pw") ≠ s.auth h then (if h = .lockout then RC_AUTH_FAIL_S else RC_BAD_AUTH) else 0
      let ms := if l.nat "rc" ≠ exp then
        [s!"SPEC[admin-auth] PolicySecret with hierarchy {l.nat "h"} and password {l.str "pw"}: rc={l.nat "rc"}, model {exp} (authValue {hexOfBytes (s.auth h)}, enabled {usable s h})"] else []
      (a, ms, s!"admin/probe/h={l.nat "h"}/exp={exp}")
  | "seed" =>
      let h := hOf (l.nat "h"); let s := a.st
      if !usable s h then (a, (if l.nat "rc" = 0 then [s!"SPEC[admin-enables] CreatePrimary in the disabled hierarchy {l.nat "h"} succeeded"] else []), "admin/seed/disabled") else
      if l.nat "rc" ≠ 0 then (a, [s!"SPEC[admin-auth] CreatePrimary in hierarchy {l.nat "h"} with its current authValue refused rc={l.nat "rc"}"], "admin/seed/refused") else
      let kn := (l.nat "h", s.seedGen h, s.proofGen h); let kt := (l.nat "h", s.seedGen h, s.proofGen h)
      let nm := l.bytes "name"; let tk := l.bytes "ticket"
      let m1 := match a.names.find? (·.1 == kn) with
        | some (_, n0) => if n0 ≠ nm then [s!"SPEC[admin-seed] the primary of hierarchy {l.nat "h"} changed although neither its seed nor its proof was replaced (generation {s.seedGen h}/{s.proofGen h})"] else []
        | none => if a.names.any (fun e => e.1.1 == l.nat "h" && e.2 == nm) then [s!"SPEC[admin-seed] the primary of hierarchy {l.nat "h"} is the one of an earlier seed generation: the seed change was lost"] else []
      let m2 := match a.tickets.find? (·.1 == kt) with
        | some (_, t0) => if t0 ≠ tk then [s!"SPEC[admin-proof] the creation ticket of hierarchy {l.nat "h"} changed although neither seed nor proof was replaced"] else []
        | none => if a.tickets.any (fun e => e.1.1 == l.nat "h" && e.2 == tk) then [s!"SPEC[admin-proof] the creation ticket of hierarchy {l.nat "h"} equals one of an earlier seed/proof generation: the change was lost"] else []
      ({ a with names := if a.names.any (·.1 == kn) then a.names else (kn, nm) :: a.names,
                tickets := if a.tickets.any (·.1 == kt) then a.tickets else (kt, tk) :: a.tickets }, m1 ++ m2, s!"admin/seed/h={l.nat "h"}")
  | _ =>
      match opOf l with
      | none => (a, [s!"unknown admin op {l.str "op"}"], "admin/unknown")
      | some op =>
        let (st', mrc) := Model.Admin.step a.st op (l.bytes "pw") (l.nat "pp" == 1)
        let rc := l.nat "rc"
        let ms := if mrc = 0 ∧ rc ≠ 0 then [s!"SPEC[admin-refused] {l.str "op"} (authorized by hierarchy {l.nat "ah"}) answered rc={rc}, the model accepts it"]
          else if mrc ≠ 0 ∧ rc = 0 then [s!"SPEC[admin-accepted] {l.str "op"} (authorized by hierarchy {l.nat "ah"}) succeeded, the model refuses it with {mrc}"]
          else if mrc ≠ rc then [s!"admin {l.str "op"}: rc={rc}, model {mrc}"] else []
        ({ a with st := st' }, ms, s!"admin/{l.str "op"}/ah={l.nat "ah"}/rc={mrc}")

end TpmVerif.Check.Admin
