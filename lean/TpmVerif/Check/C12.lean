import TpmVerif.Base.Trace
import TpmVerif.Model.Objects
import TpmVerif.Crypto.Sha
/-! Checker for C12 traces: primaries with the same (hierarchy, seed generation, template) must be identical objects,
    with a different seed generation different ones; every Name is recomputed as nameAlg ‖ H(public area); blobs load
    only intact and under their parent; persistent objects and transient slots follow Model.Objects. -/
namespace TpmVerif.Check.C12
open TpmVerif TpmVerif.Model TpmVerif.Model.Objects

structure CS where
  st : Objects.St := {}
  seen : List (Objects.Key × Bytes × Bytes) := []     -- key, public area, name
  rep : Report := {}
  line : Nat := 0

def mism (c : CS) (msg : String) : CS :=
  { c with rep := { c.rep with mismatches := c.rep.mismatches ++ [s!"line {c.line}: {msg}"] } }
def branch (c : CS) (b : String) : CS :=
  if c.rep.branches.contains b then c else { c with rep := { c.rep with branches := b :: c.rep.branches } }
def ev (c : CS) : CS := { c with rep := { c.rep with events := c.rep.events + 1 } }

def hierOf (n : Nat) : Hier := if n = 0 then .owner else if n = 1 then .endorsement else if n = 2 then .platform else .null
def hname (h : Hier) : String := match h with | .owner => "owner" | .endorsement => "endorsement" | .platform => "platform" | .null => "null"

/-- Name of an object: nameAlg (third and fourth byte of TPMT_PUBLIC) ‖ H_nameAlg(TPMT_PUBLIC) -/
def nameOfPublic (pub : Bytes) : Option Bytes :=
  match rdBE pub 2 2 with
  | some alg => (Crypto.algOfId alg).map (fun a => be16 alg ++ Crypto.hash a pub)
  | none => none

def apply (c : CS) (op : Op) : CS := { c with st := step c.st op }

def stepL (c : CS) (l : Line) : CS :=
  let c := { c with line := c.line + 1 }
  match l.kind with
  | "hist" => { c with st := {}, seen := [] }
  | "primary" =>
      let c := ev c
      let h := hierOf (l.nat "hier")
      if l.nat "rc" ≠ 0 then branch c s!"primary/{l.str "why"}/refused={l.nat "rc"}" else
      let pub := l.bytes "pub"; let name := l.bytes "name"
      -- a symmetric PRIMARY of the endorsement hierarchy also depends on the proofs (`CryptCreateObject` stirs shProof and ehProof into
      -- the DRBG before the seedValue is drawn, for `attributes.primary && attributes.epsHierarchy` only); an object derived under a
      -- derivation parent depends on the parent's key bits, i.e. on the primary seed alone
      let sym : Bool := ((rdBE pub 0 2) == some 0x0008 || (rdBE pub 0 2) == some 0x0025) && l.str "why" != "derived"
      let key : Objects.Key := keyOf c.st h sym ((be32 (l.nat "t")))
      let c := branch c s!"primary/{l.str "why"}/{hname h}/t={l.nat "t"}"
      -- the Name is the hash of the public area
      let c := match nameOfPublic pub with
        | some n => if n ≠ name then mism c s!"SPEC[name] Name {l.str "name"} is not nameAlg ‖ H(public area) = {hexOfBytes n}" else c
        | none => mism c "public area with an unknown name algorithm"
      -- same key ⇒ same object; same hierarchy and template under another seed ⇒ another object
      let c := c.seen.foldl (fun c (k, p, n) =>
        if k = key then
          (if p ≠ pub ∨ n ≠ name then mism c s!"SPEC[primary-changed] CreatePrimary({hname h}, template {l.nat "t"}) [{l.str "why"}] gives another object than before although the {hname h} seed was not replaced (name {l.str "name"}, was {hexOfBytes n})" else c)
        else if k.hier = key.hier ∧ k.template = key.template ∧ n = name then
          mism c s!"SPEC[primary-unchanged] CreatePrimary({hname h}, template {l.nat "t"}) gives the same object (name {l.str "name"}) after the {hname h} seed was replaced"
        else c) c
      -- derived children (templates 20…): another label or context gives another object
      let c := if l.str "why" == "derived" && c.seen.any (fun (k, _, n) => k.template ≠ key.template && decide ((k.template.getLast?.map (·.toNat)).getD 0 ≥ 20) && n == name) then
          mism c s!"SPEC[derivation-ignores-input] a derived object (name {l.str "name"}) equals one derived with another label or context" else c
      let c := apply c .other
      if c.seen.any (fun (k, _, _) => k = key) then c else { c with seen := (key, pub, name) :: c.seen }
  | "restart" =>
      let c := ev c
      let c := branch c s!"restart/{l.str "kind"}"
      if l.nat "ret" ≠ 0 ∨ l.nat "rc" ≠ 0 then mism c s!"restart ({l.str "kind"}) failed ret={l.nat "ret"} rc={l.nat "rc"}" else
      apply c (if l.str "kind" = "resume" then .startupResume else if l.str "kind" = "restart" then .startupRestart else .startupReset)
  | "suspendresume" => if l.nat "ret" ≠ 0 then mism (ev c) s!"SPEC[resume-failed] suspend/resume returned {l.nat "ret"}" else apply (ev c) .suspendResume
  | "clear" => if l.nat "rc" = 0 then apply (ev c) .clear else c
  | "changeeps" => if l.nat "rc" = 0 then apply (ev c) .changeEPS else c
  | "changepps" => if l.nat "rc" = 0 then apply (ev c) .changePPS else c
  | "load" =>
      let c := ev c
      let what := l.str "what"
      let c := branch c s!"load/{what}/rc0={l.nat "rc" == 0}"
      if what = "intact" then
        if l.nat "rc" ≠ 0 then mism c s!"SPEC[load-refused] an unmodified private blob does not load under its own parent (rc={l.nat "rc"})"
        else match nameOfPublic (l.bytes "pub") with
          | some n => if n ≠ l.bytes "name" then mism c s!"SPEC[name] loaded object's Name {l.str "name"} ≠ nameAlg ‖ H(public area) {hexOfBytes n}" else c
          | none => c
      else if l.nat "rc" = 0 then mism c s!"SPEC[blob-accepted] a private blob loaded although it was {what}" else c
  | "import" =>
      let c := ev c
      let what := l.str "what"
      let c := branch c s!"import/{what}/rc0={l.nat "rc" == 0}"
      if what = "intact" then
        (if l.nat "rc" ≠ 0 then mism c s!"SPEC[import-refused] an unmodified duplicate is not accepted by TPM2_Import under the parent it was made for (rc={l.nat "rc"})" else c)
      else if l.nat "rc" = 0 then mism c s!"SPEC[blob-accepted] TPM2_Import accepted a duplicate although it was {what}" else c
  | "duplicate" => if l.nat "rc" ≠ 0 then mism (ev c) s!"SPEC[duplicate-refused] TPM2_Duplicate authorized by the object's policy answered rc={l.nat "rc"}" else branch (ev c) "duplicate/ok"
  | "evict" =>
      let c := ev c
      if l.nat "rc" ≠ 0 then branch c s!"evict/refused/{l.nat "rc"}" else
      if l.nat "on" = 1 then { c with st := evictOn c.st (l.nat "handle") (hierOf (l.nat "hier")) (l.bytes "name") }
      else { c with st := evictOff c.st (l.nat "handle") }
  | "evictcheck" =>
      let c := ev c
      match persistentName c.st (l.nat "handle") with
      | some n =>
        if l.nat "rc" ≠ 0 then mism c s!"SPEC[persistent-lost] persistent object {l.nat "handle"} is gone (rc={l.nat "rc"}) although it was neither evicted nor cleared"
        else if l.bytes "name" ≠ n then mism c s!"SPEC[persistent-changed] persistent object {l.nat "handle"} has Name {l.str "name"}, was {hexOfBytes n}" else branch c "persistent/present"
      | none => if l.nat "rc" = 0 then mism c s!"SPEC[persistent-survives] persistent object {l.nat "handle"} still answers although it was evicted or its hierarchy cleared" else branch c "persistent/absent"
  | "slots" =>
      let c := ev c
      if l.nat "first" ≠ Gen.MAX_LOADED_OBJECTS ∨ l.nat "second" ≠ Gen.MAX_LOADED_OBJECTS then
        mism c s!"SPEC[slots] {l.nat "first"} objects fit, after flushing all {l.nat "second"} fit; the TPM advertises {Gen.MAX_LOADED_OBJECTS}" else branch c "slots/full"
  | _ => c

def check (ls : List Line) : Report := (ls.foldl stepL {}).rep

end TpmVerif.Check.C12
