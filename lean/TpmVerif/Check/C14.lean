import TpmVerif.Base.Trace
import TpmVerif.Model.Profile
import TpmVerif.Gen.Cmds
/-! Checker for C14 traces: Model.Profile decides whether a profile must be accepted and predicts the command and
    algorithm surface; the profile must be carried unchanged through restart, resume, a later SetProfile and a round trip. -/
namespace TpmVerif.Check.C14
open TpmVerif TpmVerif.Model TpmVerif.Model.Profile TpmVerif.Gen.Profile

structure Surface where
  cmds : String := ""
  capCmds : String := ""
  capAlgs : String := ""
  capCurves : String := ""
  rsa : String := ""
  deriving BEq

structure CS where
  baseAlgs : List Nat := []
  baseCurves : List Nat := []
  -- current history
  enabled : Option (List Nat) := none      -- commands the model enables
  algs : Option Algs := none
  sfl : Nat := 0
  attrFlags : Nat := 0                     -- what the profile's Attributes switch on
  firstParms : String := ""
  maxSfl : Nat := 0                        -- the StateFormatLevel the profile may use at most: what decides whether a key size exists
  active : Option String := none           -- ActiveProfile text reported first
  first : Surface := {}
  cur : Surface := {}
  curTag : String := ""
  pendingReject : Option String := none
  rep : Report := {}
  line : Nat := 0

def mism (c : CS) (msg : String) : CS :=
  { c with rep := { c.rep with mismatches := c.rep.mismatches ++ [s!"line {c.line}: {msg}"] } }
def branch (c : CS) (b : String) : CS :=
  if c.rep.branches.contains b then c else { c with rep := { c.rep with branches := b :: c.rep.branches } }
def ev (c : CS) : CS := { c with rep := { c.rep with events := c.rep.events + 1 } }

def chars (b : Bytes) : List Char := b.map (fun x => Char.ofNat x.toNat)

/-- value of a top-level string member `"key":"…"` -/
def strField (js : String) (key : String) : Option String :=
  match js.splitOn ("\"" ++ key ++ "\":\"") with
  | _ :: rest :: _ => some ((rest.splitOn "\"").headD "")
  | _ => none
def numField (js : String) (key : String) : Option Nat :=
  match js.splitOn ("\"" ++ key ++ "\":") with
  | _ :: rest :: _ => (String.ofList (rest.toList.takeWhile Char.isDigit)).toNat?
  | _ => none
def knownKeys : List String := ["Name", "StateFormatLevel", "Commands", "Algorithms", "Attributes", "Description"]
/-- all member names of the (flat) object -/
def keysOf (js : String) : List String :=
  ((js.splitOn "\":").dropLast.map (fun part => ((part.splitOn "\"").getLast?).getD ""))

def defaultCommands : String := "0x11f-0x122,0x124-0x12e,0x130-0x140,0x142-0x159,0x15b-0x15e,0x160-0x165,0x167-0x174,0x176-0x178,0x17a-0x193,0x197,0x199-0x19c"
def nullCommands : String := "0x11f-0x122,0x124-0x12e,0x130-0x140,0x142-0x159,0x15b-0x15e,0x160-0x165,0x167-0x174,0x176-0x178,0x17a-0x193,0x197"
def defaultAlgorithms : String := "rsa,rsa-min-size=1024,tdes,tdes-min-size=128,sha1,hmac,aes,aes-min-size=128,mgf1,keyedhash,xor,sha256,sha384,sha512,null,rsassa,rsaes,rsapss,oaep,ecdsa,ecdh,ecdaa,sm2,ecschnorr,ecmqv,kdf1-sp800-56a,kdf2,kdf1-sp800-108,ecc,ecc-min-size=192,ecc-nist,ecc-bn,ecc-sm2-p256,symcipher,camellia,camellia-min-size=128,cmac,ctr,ofb,cbc,cfb,ecb"

/-- the model's verdict on a profile: `none` = must be rejected; `some (commands, algorithms, level)` = accepted with this surface -/
def verdict (js : String) : Option (List Nat × Algs × Nat × Nat) :=
  if !js.endsWith "}" then none else
  match strField js "Name" with
  | none => none
  | some name =>
    let custom := name.startsWith "custom:" || name == "custom"
    -- a StateFormatLevel of 0 is the code's "not given" (STATE_FORMAT_LEVEL_UNKNOWN)
    let req := match numField js "StateFormatLevel" with | some 0 => none | r => r
    if !custom then
      if name ≠ "null" ∧ name ≠ "default-v1" then none
      else if (keysOf js).length > 1 then none
      else
        let lvl := if name = "null" then 1 else STATE_FORMAT_LEVEL_CURRENT
        match setCommands (if name = "null" then nullCommands else defaultCommands).toList lvl, setAlgorithms defaultAlgorithms lvl with
        | some (en, _), some a => some (en, a, lvl, 0)
        | _, _ => none
    else
      if !customLevelOk req then none else
      let maxSfl := req.getD STATE_FORMAT_LEVEL_CURRENT
      match setCommands ((strField js "Commands").getD defaultCommands).toList maxSfl, setAlgorithms ((strField js "Algorithms").getD defaultAlgorithms) maxSfl,
            setAttributes ((strField js "Attributes").getD "") maxSfl with
      | some (en, s1), some a, some (fl, s3) => some (en, a, max (max (max (max s1 2) (req.getD 0)) s3) a.level, fl)
      | _, _, _ => none

/-- the StateFormatLevel key sizes are checked against when a key is used (`g_RuntimeProfile.stateFormatLevel` in the
    key-size unmarshalling): the built-ins have theirs; a custom profile the level it names; a custom profile that names none
    the level that results from its commands, algorithms and attributes (`resulting`; at least 2) — an algorithm listed
    without a minimum size does not raise the level, so its sizes that need a higher one stay unavailable -/
def maxSflOf (js : String) (resulting : Nat) : Nat :=
  match strField js "Name" with
  | some "null" => 1
  | some "default-v1" => STATE_FORMAT_LEVEL_CURRENT
  | _ => match numField js "StateFormatLevel" with | some 0 => resulting | some l => l | none => resulting

def parseList (s : String) : List Nat := (s.splitOn ",").filterMap String.toNat?
def libImplemented (cc : Nat) : Bool := match Gen.ccTable.find? (·.1 == cc) with | some (_, _, _, impl, _) => impl | none => false
def hexNat (s : String) : Nat := s.toList.foldl (fun acc c => acc * 16 + ((hexVal c).getD 0)) 0

/-- what each attribute name stands for (libtpms documentation of the profile attributes), independent of the generated table -/
def specAttrFlags (name : String) : Option Nat :=
  if name = "no-unpadded-encryption" then some ATTR_NO_UNPADDED_ENCRYPTION
  else if name = "no-sha1-signing" then some ATTR_NO_SHA1_SIGNING
  else if name = "no-sha1-verification" then some ATTR_NO_SHA1_VERIFICATION
  else if name = "no-sha1-hmac-creation" then some ATTR_NO_SHA1_HMAC_CREATION
  else if name = "no-sha1-hmac-verification" then some ATTR_NO_SHA1_HMAC_VERIFICATION
  else if name = "no-sha1-hmac" then some (ATTR_NO_SHA1_HMAC_CREATION ||| ATTR_NO_SHA1_HMAC_VERIFICATION)
  else if name = "fips-host" then some (ATTR_NO_UNPADDED_ENCRYPTION ||| ATTR_NO_SHA1_SIGNING ||| ATTR_NO_SHA1_VERIFICATION)
  else if name = "no-ecc-key-derivation" then some ATTR_NO_ECC_KEY_DERIVATION
  else if name = "drbg-continous-test" ∨ name = "pct" then some 0
  else none
def observable : Nat := ATTR_NO_UNPADDED_ENCRYPTION ||| ATTR_NO_SHA1_SIGNING ||| ATTR_NO_SHA1_VERIFICATION ||| ATTR_NO_SHA1_HMAC_CREATION ||| ATTR_NO_SHA1_HMAC_VERIFICATION ||| ATTR_NO_ECC_KEY_DERIVATION
def specFlagsOf (attrs : String) : Nat := ((attrs.splitOn ",").filterMap specAttrFlags).foldl (· ||| ·) 0

def checkSurface (c : CS) (tag : String) : CS :=
  match c.enabled, c.algs with
  | some en, some a =>
    -- every command code: TPM_RC_COMMAND_CODE (0x143) exactly for the disabled or unimplemented ones
    let c := (c.cur.cmds.splitOn ",").foldl (fun c item =>
      match item.splitOn ":" with
      | [ccs, rcs] =>
        if rcs = "-" then c else
        let cc := hexNat ccs; let rc := hexNat rcs
        let on := enabledCmd en cc && libImplemented cc
        if on ∧ rc = 0x143 then mism c s!"SPEC[command-refused] [{tag}] command {ccs} is enabled by the profile but answered TPM_RC_COMMAND_CODE"
        else if !on ∧ rc ≠ 0x143 then mism c s!"SPEC[disabled-command-answered] [{tag}] command {ccs} is disabled by the profile but answered rc={rcs}"
        else c
      | _ => c) c
    let expCmds := (cmdProps.map (·.1)).filter (fun cc => enabledCmd en cc && libImplemented cc)
    let c := if parseList c.cur.capCmds ≠ expCmds then mism c s!"SPEC[cap-commands] [{tag}] GetCapability(COMMANDS) lists {c.cur.capCmds}, model {expCmds}" else c
    let expAlgs := c.baseAlgs.filter (fun id => (algProps.find? (·.1 == id)).isNone || a.enabled.contains id)
    let c := if parseList c.cur.capAlgs ≠ expAlgs then mism c s!"SPEC[cap-algs] [{tag}] GetCapability(ALGS) lists {c.cur.capAlgs}, model {expAlgs}" else c
    let expCurves := if a.enabled.contains 35 then c.baseCurves.filter (curveOk a) else []
    let c := if parseList c.cur.capCurves ≠ expCurves then mism c s!"SPEC[cap-curves] [{tag}] GetCapability(ECC_CURVES) lists {c.cur.capCurves}, model {expCurves}" else c
    (c.cur.rsa.splitOn ",").foldl (fun c item =>
      match item.splitOn ":" with
      | [bs, rcs] =>
        if !enabledCmd en 0x18A then (if rcs ≠ "143" then mism c s!"SPEC[disabled-command-answered] [{tag}] TestParms is disabled but answered {rcs}" else c) else
        let ok := rsaOk a (bs.toNat?.getD 0) c.sfl
        if ok ∧ rcs ≠ "0" then mism c s!"SPEC[rsa-size-refused] [{tag}] RSA-{bs} is allowed by the profile but TestParms answered {rcs}"
        else if !ok ∧ rcs = "0" then mism c s!"SPEC[rsa-size-accepted] [{tag}] RSA-{bs} is below the profile's minimum (or not enabled) but TestParms accepted it"
        else c
      | _ => c) c
  | _, _ => c

/-- algorithms, curves, key sizes, modes and schemes inside a command (TPM2_Hash, TPM2_TestParms): must the TPM accept? -/
def hasAlg (a : Algs) (id : Nat) : Bool := a.enabled.contains id
def symOk (a : Algs) (sfl alg bits : Nat) : Bool := hasAlg a 0x25 && symSizeOk a alg bits sfl
def parmExpect (a : Algs) (sfl : Nat) (kind : Char) (x y : Nat) : Option Bool :=
  if kind = 'h' then some (hasAlg a x)
  else if kind = 'c' then some (hasAlg a 0x23 && curveOk a x)
  else if kind = 's' then some (symOk a sfl x y && hasAlg a 0x43)
  else if kind = 'm' then some (symOk a sfl 6 256 && hasAlg a x)
  else if kind = 'k' then some (hasAlg a 8 && hasAlg a 5 && hasAlg a x)
  else if kind = 'r' then some (rsaOk a 2048 sfl && hasAlg a x && (x == 0x15 || hasAlg a 0xB))
  else if kind = 'e' then some (hasAlg a 0x23 && curveOk a 4 && hasAlg a x && hasAlg a 0xC)
  else none

def checkParms (c : CS) (tag : String) (list : String) : CS :=
  match c.enabled, c.algs with
  | some en, some a =>
    (list.splitOn ",").foldl (fun c item =>
      match item.splitOn ":" with
      | [idS, rcs] =>
        let kind := idS.toList.headD ' '
        let nums := ((String.ofList (idS.toList.drop 1)).splitOn "_").filterMap String.toNat?
        let x := nums.headD 0; let y := (nums.drop 1).headD 0
        let rc := hexNat rcs
        let cmdOn := if kind = 'h' then enabledCmd en 0x17D else enabledCmd en 0x18A
        if !cmdOn then (if rc ≠ 0x143 then mism c s!"SPEC[disabled-command-answered] [{tag}] probe {idS}: its command is disabled but answered {rcs}" else c) else
        match parmExpect a c.maxSfl kind x y with
        | none => c
        | some ok =>
          let c := branch c s!"parm/{kind}/expect={ok}"
          if ok ∧ rc ≠ 0 then mism c s!"SPEC[algorithm-refused] [{tag}] probe {idS} (algorithm/curve/size/mode/scheme enabled by the profile) was refused with {rcs}"
          else if !ok ∧ rc = 0 then mism c s!"SPEC[disabled-algorithm-accepted] [{tag}] probe {idS} uses an algorithm, curve, key size, mode or scheme the profile disables but was accepted"
          else c
      | _ => c) c
  | _, _ => c

def step (c : CS) (l : Line) : CS :=
  let c := { c with line := c.line + 1 }
  match l.kind with
  | "hist" => { c with enabled := none, algs := none, active := none, first := {}, cur := {}, curTag := "", pendingReject := none, firstParms := "" }
  | "setprofile" =>
      let c := ev c
      let js := String.ofList (chars (l.bytes "json"))
      let v := verdict js
      let c := branch c s!"setprofile/variant={l.nat "variant"}/model={v.isSome}/ret0={l.nat "ret" == 0}"
      let c := if v.isSome ∧ l.nat "ret" ≠ 0 then mism c s!"SPEC[profile-refused] SetProfile refused ({l.nat "ret"}) a profile the model accepts: {js}" else c
      -- a profile that must be rejected may be refused by SetProfile or, at the latest, by MainInit
      let c := { c with pendingReject := if v.isNone ∧ l.nat "ret" = 0 then some js else none }
      match v with
      | some (en, a, s, fl) =>
        let spec := specFlagsOf ((strField js "Attributes").getD "")
        let c := if fl &&& observable ≠ spec &&& observable then
          mism c s!"SPEC[attribute-table] the attributes {(strField js "Attributes").getD ""} switch on flags {fl} by the library's table, {spec} by their definition" else c
        -- the probes are judged against what the attributes mean
        { c with enabled := some en, algs := some a, sfl := s, attrFlags := spec ||| fl, maxSfl := maxSflOf js s }
      | none => c
  | "maininit" =>
      match c.pendingReject with
      | some js =>
        let c := { c with pendingReject := none }
        if l.nat "ret" = 0 then mism (ev c) s!"SPEC[profile-accepted] SetProfile and MainInit accepted a profile that must be rejected: {js}" else branch c "rejected-by-maininit"
      | none => if l.nat "ret" ≠ 0 then mism (ev c) s!"SPEC[profile-maininit] MainInit failed ({l.nat "ret"}) after a profile the model accepts" else c
  | "active" =>
      let c := ev c
      let js := String.ofList (chars (l.bytes "json"))
      let tag := l.str "tag"
      match c.active with
      | none =>
        -- the level the TPM reports is the one the model computes from the commands, algorithms and attributes of the profile
        let c := match c.algs, numField js "StateFormatLevel" with
          | some _, some lvl => if lvl ≠ c.sfl then mism c s!"SPEC[state-format-level] ActiveProfile reports StateFormatLevel {lvl}, the profile's items need {c.sfl}" else branch c s!"sfl/{lvl}"
          | _, _ => c
        { c with active := some js }
      | some a => if a ≠ js then mism c s!"SPEC[profile-changed] [{tag}] ActiveProfile is now {js}, was {a}" else branch c s!"active/{tag}/same"
  | "surface" =>
      let c := { c with cur := { cmds := l.str "cmds" }, curTag := l.str "tag" }
      c
  | "capstart" =>
      -- GetCapability(COMMANDS / PP_COMMANDS / AUDIT_COMMANDS) started exactly at a command that is off must not list it
      ((l.str "list").splitOn ",").foldl (fun c item =>
        match item.splitOn ":" with
        | [cap, cc, first] => if cc = first then mism c s!"SPEC[disabled-command-listed] [{l.str "tag"}] GetCapability(cap {cap}) started at the disabled command {cc} lists it" else c
        | _ => c) (branch c "capstart")
  | "totals" =>
      if l.str "tag" = "baseline" then c else
      let n := (parseList c.cur.capCmds).length
      let c := branch c "totals"
      if n > 0 ∧ (l.nat "total" ≠ n ∨ l.nat "library" ≠ n) then
        mism c s!"SPEC[command-totals] [{l.str "tag"}] TPM_PT_TOTAL_COMMANDS={l.nat "total"} TPM_PT_LIBRARY_COMMANDS={l.nat "library"} but GetCapability(COMMANDS) enumerates {n}" else c
  | "caplist" =>
      let cap := l.nat "cap"
      let s := l.str "list"
      if cap = 2 then { c with cur := { c.cur with capCmds := s } } else if cap = 0 then { c with cur := { c.cur with capAlgs := s } } else { c with cur := { c.cur with capCurves := s } }
  | "testparms" =>
      let c := ev { c with cur := { c.cur with rsa := l.str "rsa" } }
      let tag := l.str "tag"
      if tag = "baseline" then { c with baseAlgs := parseList c.cur.capAlgs, baseCurves := parseList c.cur.capCurves }
      else
        let c := branch c s!"surface/{tag}"
        let c := checkSurface c tag
        if tag = "first" then { c with first := c.cur }
        else if c.first != c.cur then mism c s!"SPEC[surface-changed] [{tag}] the command/algorithm surface differs from the one after the first start" else c
  | "parms" =>
      let c := ev c
      let tag := l.str "tag"
      if tag = "baseline" then c else
      let c := checkParms c tag (l.str "list")
      if tag = "first" then { c with firstParms := l.str "list" }
      else if c.firstParms ≠ l.str "list" then mism c s!"SPEC[surface-changed] [{tag}] algorithm probes inside commands answer differently than after the first start" else c
  | "attrprobe" =>
      -- what the profile's attributes enforce; the harness sends these only for profiles that leave every algorithm and command on
      let c := ev c
      let tag := l.str "tag"
      (List.range 6).foldl (fun c i =>
        let p := i + 1
        let rc := l.nat s!"p{p}"
        let base := if rc = 0 then 0 else rc % 64 + 128 * (rc / 128 % 2)
        let exp := attrProbe c.attrFlags p
        let c := branch c s!"attrprobe/p{p}/exp={exp}"
        if base ≠ exp then
          (if exp = 0 ∨ exp = 0x9B then mism c s!"SPEC[attribute-overreach] [{tag}] probe {p} answered rc={rc} although the profile's attributes (flags {c.attrFlags}) do not forbid it"
           else mism c s!"SPEC[attribute-not-enforced] [{tag}] probe {p} answered rc={rc}; the profile's attributes (flags {c.attrFlags}) demand the refusal {exp}")
        else c) c
  | "roundtrip" =>
      let c := ev c
      let builtin : Bool := match c.active with
        | some a => (strField a "Name") == some "null" || (strField a "Name") == some "default-v1"
        | none => false
      if l.nat "setprofile" ≠ 0 ∧ builtin then mism c s!"SPEC[active-profile-refused-builtin] the ActiveProfile reported for a built-in profile ({(c.active.bind (strField · "Name")).getD "?"}) is refused by SetProfile ({l.nat "setprofile"}): built-in profiles accept only their bare name"
      else if l.nat "setprofile" ≠ 0 then mism c s!"SPEC[active-profile-refused] the reported ActiveProfile is refused by SetProfile ({l.nat "setprofile"})"
      else if l.nat "maininit" ≠ 0 then mism c s!"SPEC[active-profile-refused] MainInit fails with the reported ActiveProfile ({l.nat "maininit"})" else c
  | "restart" | "resume" => if l.nat "ret" ≠ 0 then mism c s!"{l.kind} failed ({l.nat "ret"})" else c
  | "laterprofile" => if l.nat "maininit" ≠ 0 then mism c s!"SPEC[later-profile] MainInit of the existing TPM failed ({l.nat "maininit"}) after a later SetProfile" else c
  | _ => c

def check (ls : List Line) : Report := (ls.foldl step {}).rep

end TpmVerif.Check.C14
