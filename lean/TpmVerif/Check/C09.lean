import TpmVerif.Base.Trace
import TpmVerif.Model.Nv
import TpmVerif.Gen.Consts
import TpmVerif.Crypto.Sha
/-! Checker for C09 traces: Model.Nv predicts every return code, every byte read, the public area and name of every
    index, the NV bytes in use and the TPM-wide maximum counter. -/
namespace TpmVerif.Check.C09
open TpmVerif TpmVerif.Model TpmVerif.Model.Nv

def H : HashFn := fun alg d => match Crypto.algOfId alg with | some a => Crypto.hash a d | none => []

structure CS where
  st : Nv.St := {}
  evictPub : Option Bytes := none
  rep : Report := {}
  line : Nat := 0

def mism (c : CS) (msg : String) : CS :=
  { c with rep := { c.rep with mismatches := c.rep.mismatches ++ [s!"line {c.line}: {msg}"] } }
def branch (c : CS) (b : String) : CS :=
  if c.rep.branches.contains b then c else { c with rep := { c.rep with branches := b :: c.rep.branches } }
def ev (c : CS) : CS := { c with rep := { c.rep with events := c.rep.events + 1 } }

def tname (a : Nat) : String :=
  let t := ntOf a
  if t = 0 then "ord" else if t = 1 then "ctr" else if t = 2 then "bits" else if t = 4 then "ext" else if t = 8 then "pinfail" else if t = 9 then "pinpass" else s!"t{t}"
def who (ah h : Nat) : String := if ah = RH_OWNER then "owner" else if ah = RH_PLATFORM then "plat" else if ah = h then "index" else "other"
def kindOf (c : CS) (h : Nat) : String := match c.st.find h with
  | some i => s!"{tname i.attrs}{if bit i.attrs B_ORDERLY then "+orderly" else ""}{if bit i.attrs B_WRITTEN then "+w" else ""}"
  | none => "absent"

/-- compare rc; on agreement adopt the model state -/
def settle (c : CS) (l : Line) (what : String) (s' : Nv.St) (rc : Nat) (sig : String) : CS :=
  let c := branch c s!"{what}/{kindOf c (l.nat "handle")}/{who (l.nat "auth") (l.nat "handle")}/rc={rc}"
  let c := if rc ≠ l.nat "rc" then mism c s!"SPEC[{sig}] {what} on index {l.nat "handle"} ({kindOf c (l.nat "handle")}) authorized by {who (l.nat "auth") (l.nat "handle")}: rc={l.nat "rc"}, model {rc}" else c
  { c with st := s' }

def step (c : CS) (l : Line) : CS :=
  let c := { c with line := c.line + 1 }
  match l.kind with
  | "hist" => { c with st := {}, evictPub := none }
  | "define" =>
      let c := ev c
      let p : Pub := { handle := l.nat "handle", nameAlg := l.nat "alg", attrs := l.nat "attrs", policy := l.bytes "policy", size := l.nat "size" }
      let (s', rc) := defineSpace c.st (l.nat "auth") (l.bytes "authvalue") p
      let c := branch c s!"define/{tname p.attrs}/rc={rc}"
      let c := if rc ≠ l.nat "rc" then mism c s!"SPEC[define-rc] NV_DefineSpace(handle {p.handle}, attrs {p.attrs}, size {p.size}, alg {p.nameAlg}) rc={l.nat "rc"}, model {rc}" else c
      { c with st := s' }
  | "undefine" =>
      let c := ev c
      let (s', rc) := undefineSpace c.st (l.nat "auth") (l.nat "handle")
      settle c l "undefine" s' rc "undefine-rc"
  | "write" =>
      let c := ev c
      let (s', rc) := nvWrite c.st (l.nat "auth") (l.nat "handle") (l.bytes "data") (l.nat "offset")
      settle c l "write" s' rc "write-rc"
  | "read" =>
      let c := ev c
      let (s', rc, d) := nvRead c.st (l.nat "auth") (l.nat "handle") (l.nat "size") (l.nat "offset")
      let c := settle c l "read" s' rc "read-rc"
      if rc = 0 ∧ l.nat "rc" = 0 ∧ d ≠ l.bytes "data" then
        mism c s!"SPEC[read-data] NV_Read(index {l.nat "handle"}, size {l.nat "size"}, offset {l.nat "offset"}) returned {l.str "data"}, model {hexOfBytes d}" else c
  | "certify" =>
      let c := ev c
      let (s', rc, d) := nvCertify c.st (l.nat "auth") (l.nat "handle") (l.nat "size") (l.nat "offset")
      let c := settle c l "certify" s' rc "read-rc"
      if rc = 0 ∧ l.nat "rc" = 0 ∧ (l.nat "size" ≠ 0 ∨ l.nat "offset" ≠ 0) then
        let c := if d ≠ l.bytes "data" ∨ l.nat "aoffset" ≠ l.nat "offset" then
          mism c s!"SPEC[read-data] NV_Certify(index {l.nat "handle"}, size {l.nat "size"}, offset {l.nat "offset"}) attests {l.str "data"} at offset {l.nat "aoffset"}, model {hexOfBytes d}" else c
        match c.st.find (l.nat "handle") with
        | some i => if nameOf H i ≠ l.bytes "name" then mism c s!"SPEC[public-area] NV_Certify attests the index Name {l.str "name"}, model {hexOfBytes (nameOf H i)}" else c
        | none => c
      else c
  | "increment" =>
      let c := ev c
      let (s', rc) := nvIncrement c.st (l.nat "auth") (l.nat "handle")
      settle c l "increment" s' rc "increment-rc"
  | "extend" =>
      let c := ev c
      let (s', rc) := nvExtend H c.st (l.nat "auth") (l.nat "handle") (l.bytes "data")
      settle c l "extend" s' rc "extend-rc"
  | "setbits" =>
      let c := ev c
      let (s', rc) := nvSetBits c.st (l.nat "auth") (l.nat "handle") (l.bytes "bits")
      settle c l "setbits" s' rc "setbits-rc"
  | "writelock" =>
      let c := ev c
      let (s', rc) := nvWriteLock c.st (l.nat "auth") (l.nat "handle")
      settle c l "writelock" s' rc "lock-rc"
  | "readlock" =>
      let c := ev c
      let (s', rc) := nvReadLock c.st (l.nat "auth") (l.nat "handle")
      settle c l "readlock" s' rc "lock-rc"
  | "globallock" =>
      let c := ev c
      let c := if l.nat "rc" ≠ 0 then mism c s!"SPEC[lock-rc] NV_GlobalWriteLock rc={l.nat "rc"}" else c
      { c with st := globalLock c.st }
  | "readpublic" =>
      let c := ev c
      match c.st.find (l.nat "handle") with
      | none => if l.nat "rc" = 0 then mism c s!"SPEC[index-exists] index {l.nat "handle"} answers NV_ReadPublic but does not exist in the model" else branch c "readpublic/absent"
      | some i =>
        let pub := marshalPub i
        let exp := be16 pub.length ++ pub ++ be16 (nameOf H i).length ++ nameOf H i
        let c := branch c s!"readpublic/{tname i.attrs}"
        if l.nat "rc" ≠ 0 then mism c s!"SPEC[index-exists] index {i.handle} exists in the model but NV_ReadPublic answers rc={l.nat "rc"}"
        else if l.bytes "rsp" ≠ exp then
          mism c s!"SPEC[public-area] NV_ReadPublic({i.handle}) = {l.str "rsp"}, model {hexOfBytes exp} (attributes model {i.attrs})"
        else c
  | "sync" =>
      let c := ev c
      let c := if l.nat "used" ≠ usedBytes c.st then mism c s!"SPEC[nv-space] {l.nat "used"} bytes of dynamic NV in use, model {usedBytes c.st}" else c
      if l.nat "maxcount" ≠ c.st.maxCount then mism c s!"SPEC[max-count] TPM-wide maximum counter {l.nat "maxcount"}, model {c.st.maxCount}" else c
  | "evict" =>
      let c := ev c
      if l.nat "rc" ≠ 0 then branch c s!"evict/refused/{l.nat "rc"}" else
      if l.nat "on" = 1 then { c with st := { c.st with evictBytes := c.st.evictBytes + l.nat "bytes", evictCount := c.st.evictCount + 1 }, evictPub := none }
      else { c with st := { c.st with evictBytes := 0, evictCount := 0 }, evictPub := none }
  | "evictpublic" =>
      let c := ev c
      if l.nat "rc" ≠ 0 then mism c s!"SPEC[bystander] the persistent object no longer answers ReadPublic (rc={l.nat "rc"})" else
      match c.evictPub with
      | none => { c with evictPub := some (l.bytes "rsp") }
      | some p => if p ≠ l.bytes "rsp" then mism c "SPEC[bystander] the persistent object's public area changed" else branch c "bystander/same"
  | "clear" =>
      let c := ev c
      if l.nat "rc" ≠ 0 then mism c s!"TPM2_Clear rc={l.nat "rc"}" else
      { c with st := { (clearOwner c.st) with evictBytes := 0, evictCount := 0 }, evictPub := none }
  | "evictaftercleared" =>
      let c := ev c
      if l.nat "rc" = 0 then mism c s!"SPEC[evict-survives-clear] persistent object {l.nat "handle"} of the owner hierarchy still answers ReadPublic after TPM2_Clear" else branch c "evict/cleared"
  | "shutdown" =>
      let c := ev c
      if l.nat "rc" ≠ 0 then branch c "shutdown/refused" else { c with st := Nv.shutdown c.st }
  | "restart" =>
      let c := ev c
      let ord := l.nat "orderly"
      let prevNone : Bool := ord ≥ TpmVerif.Gen.SU_DA_USED_VALUE
      let k : Kind := if ord % 16 = 1 ∧ ord < TpmVerif.Gen.SU_DA_USED_VALUE then (if l.nat "state" = 1 then .resume else .restart) else .reset
      let c := branch c s!"restart/{repr k}/prevNone={prevNone}"
      let c := if l.nat "ret" ≠ 0 ∨ l.nat "rc" ≠ 0 then mism c s!"restart failed ret={l.nat "ret"} rc={l.nat "rc"}" else c
      { c with st := Nv.startup (powerCut c.st) k prevNone }
  | "datouch" =>
      -- a DA-protected authorization outside the NV model: correct password, so it succeeds, at most after one TPM_RC_RETRY
      let c := branch c s!"datouch/rc={l.nat "rc"}/again={l.nat "again"}"
      -- (or TPM_RC_LOCKOUT: each power cut after "DA used" counts as a failed try; the harness then resets the lockout)
      if (l.get? "rc").isSome ∧ l.nat "rc" ≠ 0 ∧ ¬ ((l.nat "rc" = 0x922 ∨ l.nat "rc" = 0x921) ∧ l.nat "again" = 0) then
        mism c s!"SPEC[da-touch] a correct DA-protected authorization was answered rc={l.nat "rc"} then {l.nat "again"}" else c
  | "resume" =>
      let c := ev c
      if l.nat "ret" ≠ 0 then mism c s!"SPEC[resume-failed] suspend/resume returned {l.nat "ret"}" else branch c "resume"
  | _ => c

def check (ls : List Line) : Report := (ls.foldl step {}).rep

end TpmVerif.Check.C09
