import TpmVerif.Base.Trace
import TpmVerif.Model.Session
import TpmVerif.Model.Context
import TpmVerif.Model.ObjCtx
import TpmVerif.Crypto.Sha
/-! Correspondence checker for C11 traces (session accounting). -/
namespace TpmVerif.Check.C11
open TpmVerif TpmVerif.Model.Session

structure CS where
  st : St := {}
  rep : Report := {}
  line : Nat := 0
  snap : String := ""          -- handle lists before a mutated-blob load
  -- Spec monitor state: (handle, seq) pairs that were loaded/flushed since their save
  dead : List (Nat × Nat) := []
  pol : List Nat := []         -- handle indices whose session is a policy session
  epoch : Nat := 0             -- number of TPM Resets seen (contexts of earlier epochs must not load)
  now : TpmVerif.Model.ObjCtx.Now := {}                    -- what saved object contexts are bound to
  octx : List (Nat × TpmVerif.Model.ObjCtx.Ctx) := []      -- saved object contexts by id

def mism (c : CS) (msg : String) : CS :=
  { c with rep := { c.rep with mismatches := c.rep.mismatches ++ [s!"line {c.line}: {msg}"] } }
def branch (c : CS) (b : String) : CS :=
  if c.rep.branches.contains b then c else { c with rep := { c.rep with branches := b :: c.rep.branches } }

def rcOf (n : Nat) : String :=
  if n = 0 then "ok" else if n = 0x901 then "contextGap" else if n = 0x903 then "sessionMemory"
  else if n = 0x905 then "sessionHandles" else if n = 0x1CB ∨ n = 0x910 ∨ n = 0x18B then "badHandle"
  else if n = 0x92E then "tooManyContexts" else s!"other{n}"

def rcName : RC → String
  | .ok => "ok" | .contextGap => "contextGap" | .sessionMemory => "sessionMemory"
  | .sessionHandles => "sessionHandles" | .badHandle => "badHandle" | .tooManyContexts => "tooManyContexts"

def listStr (l : List Nat) : String := if l.isEmpty then "-" else ",".intercalate (l.map toString)


def hierOf (n : Nat) : TpmVerif.Model.ObjCtx.Hier :=
  if n = 0 then .owner else if n = 1 then .endorsement else if n = 2 then .platform else .null

/-- lines of the object-context part (`o op=…`) -/
def stepObj (c : CS) (l : Line) : CS :=
  let c := { c with rep := { c.rep with events := c.rep.events + 1 } }
  match l.str "op" with
  | "save" =>
      if l.nat "rc" ≠ 0 then branch c "obj/save-failed" else
      let h := hierOf (l.nat "hier"); let stc : Bool := l.nat "stclear" == 1
      let c := branch c s!"obj/save/hier={l.nat "hier"}/stclear={stc}/enabled={c.now.enabled h}"
      -- the saved handle tells the kind of object: 0x80000002 for an stClear object, 0x80000000 otherwise
      let c := if l.nat "saved_h" ≠ (if l.nat "seq" = 1 then 0x80000001 else if stc then 0x80000002 else 0x80000000) then mism c s!"SPEC[context-saved-handle] savedHandle {l.nat "saved_h"} of an object with stClear={stc}" else c
      { c with octx := (l.nat "id", TpmVerif.Model.ObjCtx.save c.now h stc) :: c.octx }
  | "event" =>
      if l.nat "rc" ≠ 0 then branch c s!"obj/event-refused/{l.str "kind"}" else
      let e : Option TpmVerif.Model.ObjCtx.Event := match l.str "kind" with
        | "clear" => some .clear | "changeEPS" => some .changeEPS | "changePPS" => some .changePPS
        | "control" => some (.control (hierOf (l.nat "hier")) (l.nat "state" == 1)) | _ => none
      match e with
      | none => mism c s!"unknown event {l.str "kind"}"
      | some e => branch { c with now := TpmVerif.Model.ObjCtx.step c.now e } s!"obj/event/{l.str "kind"}"
  | "load" =>
      match c.octx.find? (·.1 == l.nat "id") with
      | none => mism c s!"load of an unknown object context {l.nat "id"}"
      | some (_, x) =>
        let exp := TpmVerif.Model.ObjCtx.load x c.now
        let rc := l.nat "rc"
        let c := branch c s!"obj/load/model={repr exp}/rc={rc}/stclear={x.stClear}"
        match exp with
        | .ok =>
          if rc = 0x902 then c else    -- no free object slot: not judged
          if rc ≠ 0 then mism c s!"SPEC[context-refused] an intact object context (hierarchy enabled, no reset, proof unchanged) was refused rc={rc}" else
          if l.nat "seq" = 1 then
            -- a hash sequence: completing the loaded one gives the hash of everything absorbed before and after the save
            (if l.nat "complete_rc" ≠ 0 then mism c s!"SPEC[context-restores-different] the loaded hash sequence cannot be completed rc={l.nat "complete_rc"}"
             else if l.bytes "digest" ≠ TpmVerif.Crypto.hash TpmVerif.Crypto.sha256 (l.bytes "part1" ++ l.bytes "part2") then
               mism c "SPEC[context-restores-different] the loaded hash sequence completes to another digest than SHA-256 of the data absorbed before and after the save"
             else branch c "obj/load/sequence-continues") else
          let c := if l.nat "same_name" ≠ 1 then mism c "SPEC[context-restores-different] the loaded object has a different Name than the saved one" else c
          if l.nat "same_mac" ≠ 1 then mism c "SPEC[context-restores-different] the loaded key computes a different HMAC than the saved one" else c
        | .integrity =>
          if rc = 0 then mism c s!"SPEC[stale-context-loaded] an object context loaded although the TPM was reset / its hierarchy's proof was replaced / (stClear) restarted since the save"
          else if rc ≠ 0x1DF then mism c s!"object context: rc={rc}, model TPM_RC_INTEGRITY" else c
        | .hierarchy =>
          if rc = 0 then mism c s!"SPEC[disabled-hierarchy-context-loaded] an object context loaded while its hierarchy is disabled"
          else if rc ≠ 0x1C5 then mism c s!"object context: rc={rc}, model TPM_RC_HIERARCHY" else c
  | "mutload" =>
      let c := branch c s!"obj/mutload/rc0={decide (l.nat "rc" = 0)}"
      if l.nat "rc" = 0 then mism c s!"SPEC[altered-context-loaded] an altered object context (byte {l.nat "off"}) was accepted by ContextLoad" else c
  | _ => c

def step (c : CS) (l : Line) : CS :=
  let c := { c with line := c.line + 1 }
  if l.kind = "o" then stepObj c l else
  if l.kind ≠ "s" then (if l.kind = "hist" then { c with dead := [], now := {}, octx := [] } else c) else
  let c := { c with rep := { c.rep with events := c.rep.events + 1 } }
  match l.str "op" with
  | "startup" =>
      if l.nat? "rc" = none ∨ l.nat "rc" = 0 then
        let c := branch c s!"startup/reset={l.nat "reset"}"
        let ev : TpmVerif.Model.ObjCtx.Event := if l.nat "reset" = 1 then .reset else if l.nat "su" = 1 then .resume else .restart
        { c with st := startup c.st (l.nat "reset" = 1), dead := if l.nat "reset" = 1 then [] else c.dead,
                 epoch := if l.nat "reset" = 1 then l.nat "epoch" else c.epoch, now := TpmVerif.Model.ObjCtx.step c.now ev }
      else c
  | "poke" => { c with st := { c.st with counter := l.nat "counter", mask := l.nat "mask" } }
  | "resume" => if l.nat "ret" ≠ 0 then mism c s!"resume failed ret={l.nat "ret"}" else c
  | "create" =>
      let (st', rc, h) := create c.st
      let c := branch c s!"create/{rcName rc}/free={c.st.free}"
      let c := if rcOf (l.nat "rc") ≠ rcName rc then mism c s!"SPEC[create-rc] StartAuthSession rc model={rcName rc} impl={l.nat "rc"}" else c
      let c := if rc = .ok ∧ l.nat "rc" = 0 ∧ l.nat "h" ≠ h then mism c s!"create: handle model={h} impl={l.nat "h"}" else c
      { c with st := st', pol := if rc = .ok then (if l.nat "type" = 0 then c.pol.filter (· ≠ h) else h :: c.pol) else c.pol }
  | "save" =>
      let h := l.nat "h"
      -- the handle type must match the session's type (EntityGetLoadStatus), else TPM_RC_HANDLE and no effect
      let typeOk := (l.nat "ht" = 3) == c.pol.contains h
      let (st', rc, seq) := if typeOk then save c.st h else (c.st, RC.badHandle, 0)
      let c := branch c s!"save/{rcName rc}/wrap={decide (masked st' st'.counter < masked c.st c.st.counter)}"
      let c := if rcOf (l.nat "rc") ≠ rcName rc then mism c s!"SPEC[save-rc] ContextSave h={h} rc model={rcName rc} impl={l.nat "rc"}" else c
      let c := if rc = .ok ∧ l.nat "rc" = 0 ∧ l.nat "seq" ≠ seq then mism c s!"SPEC[save-seq] sequence model={seq} impl={l.nat "seq"}" else c
      { c with st := st', dead := if rc = .ok then c.dead.filter (fun p => p.1 ≠ h) else c.dead }
  | "load" =>
      let h := l.nat "h"; let seq := l.nat "seq"
      if l.nat "epoch" ≠ c.epoch then
        -- a context saved before the last TPM Reset: must be refused (integrity covers totalResetCount), no effect
        let c := branch c "load/stale-epoch"
        if l.nat "rc" = 0 then mism c s!"SPEC[context-loaded-after-reset] context (h={h}, seq={seq}) of an earlier boot was loaded" else c
      else
      let (st', rc) := load c.st h seq
      let c := branch c s!"load/{rcName rc}/valid={seqValid c.st h seq}"
      let c := if rcOf (l.nat "rc") ≠ rcName rc then mism c s!"SPEC[load-rc] ContextLoad h={h} seq={seq} rc model={rcName rc} impl={l.nat "rc"}" else c
      -- Spec monitor: a context loads at most once per save and not after a flush/reset
      let c := if l.nat "rc" = 0 ∧ c.dead.contains (h, seq) then
                 mism c s!"SPEC[context-loaded-twice] context (h={h}, seq={seq}) loaded again after it was loaded/flushed" else c
      let c := if l.nat "rc" = 0 ∧ l.nat "loaded_h" ≠ h then mism c s!"SPEC[load-handle] loaded handle {l.nat "loaded_h"} ≠ saved {h}" else c
      { c with st := st', dead := if l.nat "rc" = 0 then (h, seq) :: c.dead else c.dead }
  | "flush" =>
      let h := l.nat "h"
      let (st', rc) := flush c.st h
      let c := branch c s!"flush/{rcName rc}/saved={isSaved c.st h}"
      let c := if rcOf (l.nat "rc") ≠ rcName rc then mism c s!"SPEC[flush-rc] FlushContext h={h} rc model={rcName rc} impl={l.nat "rc"}" else c
      { c with st := st' }
  | "caps" =>
      let lo := listStr (loadedList c.st); let sa := listStr (savedList c.st)
      let c := branch c s!"caps/loaded={(loadedList c.st).length}/savedNonEmpty={!(savedList c.st).isEmpty}"
      let c := if l.str "loaded" ≠ lo then mism c s!"SPEC[loaded-list] loaded sessions model={lo} impl={l.str "loaded"}" else c
      let c := if l.str "saved" ≠ sa then mism c s!"SPEC[saved-list] saved sessions model={sa} impl={l.str "saved"}" else c
      let nl := (loadedList c.st).length; let na := nl + (savedList c.st).length
      let c := if l.nat "hr_loaded" ≠ nl ∨ l.nat "hr_loaded_avail" ≠ c.st.free then
                 mism c s!"SPEC[slot-accounting] HR_LOADED/AVAIL model={nl}/{c.st.free} impl={l.nat "hr_loaded"}/{l.nat "hr_loaded_avail"}" else c
      let c := if l.nat "hr_active" ≠ na ∨ l.nat "hr_active_avail" ≠ NACT - na then
                 mism c s!"SPEC[active-accounting] HR_ACTIVE/AVAIL model={na}/{NACT - na} impl={l.nat "hr_active"}/{l.nat "hr_active_avail"}" else c
      -- advertised limits
      let c := if l.nat "hr_loaded" > NLOAD ∨ l.nat "hr_active" > NACT then mism c "SPEC[limit-exceeded] more sessions than advertised" else c
      c
  | "capsnap" => { c with snap := l.str "loaded" ++ "/" ++ l.str "saved" }
  | "ctxblob" =>
      -- the saved context as returned, with the secrets it is protected with: recompute integrity and fingerprint
      let blob := l.bytes "blob"; let proof := l.bytes "proof"
      let seq := l.nat "seq"; let h := l.nat "saved_h"
      let c := branch c s!"ctxblob/hier={l.nat "hier"}/handle={h}"
      match TpmVerif.Model.Context.splitBlob blob with
      | none => mism c "SPEC[context-integrity] contextBlob has no integrity field"
      | some (integ, enc) =>
        let exp := TpmVerif.Model.Context.integrity proof (l.nat "total") (l.nat "clear") seq h enc
        let c := if integ ≠ exp then mism c s!"SPEC[context-integrity] integrity {hexOfBytes integ} ≠ HMAC(proof, resetCount ‖ sequence ‖ handle ‖ blob) = {hexOfBytes exp}" else c
        if !TpmVerif.Model.Context.accepts proof (l.nat "total") (l.nat "clear") seq h blob then
          mism c s!"SPEC[context-fingerprint] the saved context does not decrypt to its sequence number {seq} under KDFa(proof, CONTEXT, sequence, handle)" else c
  | "mutload" =>
      let c := branch c s!"mutload/kind={l.nat "kind"}/rcclass={if l.nat "rc" = 0 then 0 else 1}"
      if l.nat "rc" = 0 then mism c s!"SPEC[altered-context-loaded] an altered context blob (mutation kind {l.nat "kind"}) was accepted by ContextLoad" else c
  | "capsnap2" =>
      if c.snap ≠ l.str "loaded" ++ "/" ++ l.str "saved" then
        mism c s!"SPEC[failed-load-had-effect] handle lists changed by a rejected ContextLoad: {c.snap} -> {l.str "loaded"}/{l.str "saved"}" else c
  | _ => c

def check (ls : List Line) : Report := (ls.foldl step {}).rep

end TpmVerif.Check.C11
