import TpmVerif.Base.Bytes
import TpmVerif.Gen.Consts
import TpmVerif.Gen.Pcr
/-!
  TPM 2 PCRs (`PCR.c`, `IntegrityCommands.c`, `PlatformPCR.c`, the PCR parts of `StartupCommands.c` and the H-CRTM/DRTM
  interface `_TPM_Hash_Start/Data/End`). The model is generic in the hash function `H alg data`; the checker instantiates
  it with the Lean SHA implementations, the theorems hold for every `H`.

  State that matters: the PCR array (`s_pcrs`, per bank and PCR), the *active* allocation (RAM `gp.pcrAllocated`) and the
  allocation stored in NV (what `TPM2_PCR_Allocate` writes), `gr.pcrCounter`, the PCR save area of Shutdown(STATE),
  the orderly state with its H-CRTM / locality-3 flags, `g_DrtmPreStartup`, `g_pcrReConfig`, the pending hash sequence.
-/
namespace TpmVerif.Model.Pcr
open TpmVerif

abbrev HashFn := Nat → Bytes → Bytes
def RC_VALUE_P1 : Nat := 0x1C4

structure Attr where
  save : Bool
  noInc : Bool
  resetLoc : Nat
  extendLoc : Nat
  deriving Repr

def attrOf (pcr : Nat) : Attr :=
  match Gen.pcrAttrs[pcr]? with
  | some (s, n, _, _, r, e) => { save := s, noInc := n, resetLoc := r, extendLoc := e }
  | none => { save := true, noInc := false, resetLoc := 0, extendLoc := 31 }

def NPCR : Nat := Gen.IMPLEMENTATION_PCR
def bankAlgs : List Nat := Gen.pcrBanks.map (·.1)
def digestSize (alg : Nat) : Nat := ((Gen.pcrBanks.find? (·.1 == alg)).map (·.2.1)).getD 0

def bit (m i : Nat) : Bool := m / 2 ^ i % 2 == 1

inductive Orderly where | none | clear | state
  deriving Repr, DecidableEq

structure St where
  val : Nat → Nat → Bytes            -- alg → pcr → value (`s_pcrs`)
  active : Nat → Nat                 -- alg → 24-bit selection in force
  nvAlloc : Nat → Nat                -- alg → selection stored in NV (in force after the next _TPM_Init)
  counter : Nat                      -- gr.pcrCounter
  saved : Nat → Nat → Bytes          -- gc.pcrSave (RAM): alg → save index → value
  nvSaved : Nat → Nat → Bytes        -- STATE_CLEAR_DATA in NV
  nvCounter : Nat                    -- gr.pcrCounter in STATE_RESET_DATA in NV
  orderly : Orderly                  -- gp.orderlyState (persisted)
  ordPre : Bool                      -- PRE_STARTUP_FLAG stored with Shutdown(STATE)
  ordLoc3 : Bool                     -- STARTUP_LOCALITY_3 stored with Shutdown(STATE)
  started : Bool
  drtmPre : Bool                     -- g_DrtmPreStartup
  startLoc3 : Bool                   -- g_StartupLocality3
  reconfig : Bool                    -- g_pcrReConfig
  seq : Option Bytes                 -- data of a pending _TPM_Hash_Start sequence

def allocated (alloc : Nat → Nat) (alg pcr : Nat) : Bool := pcr < NPCR && bit (alloc alg) pcr

def setVal (f : Nat → Nat → Bytes) (a p : Nat) (v : Bytes) : Nat → Nat → Bytes :=
  fun a' p' => if a' = a ∧ p' = p then v else f a' p'

/-- `PCRChanged`: the update counter moves unless the PCR is in the no-increment group (PCR 0 always counts) -/
def counts (pcr : Nat) : Bool := pcr == 0 || !(attrOf pcr).noInc
def bump (c : Nat) (pcr : Nat) : Nat := if counts pcr then c + 1 else c

def extendAllowed (pcr loc : Nat) : Bool := bit (attrOf pcr).extendLoc loc
def resetAllowed (pcr loc : Nat) : Bool := loc != 4 && bit (attrOf pcr).resetLoc loc

/-- `RETURN_IF_ORDERLY`: touching a state-saved PCR after Shutdown clears the orderly state -/
def clearOrderly (s : St) (pcr : Nat) : St := if (attrOf pcr).save then { s with orderly := .none } else s

/-- `PCRExtend` in one bank -/
def extendBank (H : HashFn) (s : St) (pcr alg : Nat) (d : Bytes) : St :=
  if allocated s.active alg pcr then
    { s with val := setVal s.val alg pcr (H alg (s.val alg pcr ++ d)), counter := bump s.counter pcr }
  else s

/-- TPM2_PCR_Extend: one digest per listed bank -/
def extend (H : HashFn) (s : St) (pcr loc : Nat) (ds : List (Nat × Bytes)) : St × Nat :=
  if !extendAllowed pcr loc then (s, Gen.TPM_RC_LOCALITY) else
  (ds.foldl (fun s (ad : Nat × Bytes) => extendBank H s pcr ad.1 ad.2) (clearOrderly s pcr), 0)

/-- TPM2_PCR_Event / EventSequenceComplete: the digest of the data in every implemented bank is returned, allocated banks are extended -/
def event (H : HashFn) (s : St) (pcr loc : Nat) (data : Bytes) : St × Nat × List (Nat × Bytes) :=
  if !extendAllowed pcr loc then (s, Gen.TPM_RC_LOCALITY, []) else
  let s1 := clearOrderly s pcr
  let hit : Nat → Bool := fun a => bankAlgs.contains a && allocated s.active a pcr
  ({ s1 with val := fun a p => if p = pcr ∧ hit a then H a (s.val a p ++ H a data) else s.val a p,
             counter := s.counter + (if counts pcr then (bankAlgs.filter hit).length else 0) },
   0, bankAlgs.map (fun a => (a, H a data)))

def zeros (alg : Nat) : Bytes := List.replicate (digestSize alg) 0

/-- TPM2_PCR_Reset: the PCR becomes zero in every allocated bank -/
def reset (s : St) (pcr loc : Nat) : St × Nat :=
  if !resetAllowed pcr loc then (s, Gen.TPM_RC_LOCALITY) else
  let s := clearOrderly s pcr
  ({ s with val := fun a p => if p = pcr ∧ allocated s.active a pcr then zeros a else s.val a p, counter := bump s.counter pcr }, 0)

/-- one selection of TPM2_PCR_Read after `FilterPcr`: only allocated PCRs within sizeofSelect -/
def filterSelA (active : Nat → Nat) (alg sizeofSelect sel : Nat) : Nat :=
  (List.range NPCR).foldl (fun m p => if p / 8 < sizeofSelect ∧ bit sel p ∧ allocated active alg p then m + 2 ^ p else m) 0
def filterSel (s : St) (alg sizeofSelect sel : Nat) : Nat := filterSelA s.active alg sizeofSelect sel

/-- `PCRRead`: at most 8 digests; selection bits beyond the eighth digest are cleared, later selections emptied -/
def readA (val : Nat → Nat → Bytes) (active : Nat → Nat) (sels : List (Nat × Nat × Nat)) : List (Nat × Nat × Nat) × List Bytes :=
  let step := fun (acc : List (Nat × Nat × Nat) × List Bytes × Bool) (x : Nat × Nat × Nat) =>
    let (outSel, digs, full) := acc
    let (alg, sz, sel) := x
    if full then (outSel ++ [(alg, sz, 0)], digs, true) else
    let f := filterSelA active alg sz sel
    let (m, digs, full) := (List.range NPCR).foldl (fun (st : Nat × List Bytes × Bool) p =>
      let (m, digs, full) := st
      if !bit f p then st
      else if full then st
      else if digs.length > 7 then (m, digs, true)
      else (m + 2 ^ p, digs ++ [val alg p], false)) (0, digs, false)
    (outSel ++ [(alg, sz, m)], digs, full)
  let (o, d, _) := sels.foldl step ([], [], false)
  (o, d)
def read (s : St) (sels : List (Nat × Nat × Nat)) : List (Nat × Nat × Nat) × List Bytes := readA s.val s.active sels

/-- selections whose sizeofSelect is outside [PCR_SELECT_MIN, PCR_SELECT_MAX] do not unmarshal (TPM_RC_VALUE, parameter 1) -/
def readRc (sels : List (Nat × Nat × Nat)) : Nat :=
  if sels.any (fun x => x.2.1 < Gen.PCR_SELECT_MIN || x.2.1 > Gen.PCR_SELECT_MAX) then RC_VALUE_P1 else 0

def popcount (m : Nat) : Nat := ((List.range NPCR).filter (bit m)).length

/-- the layout a PCR_Allocate request asks for: the listed banks replace those of the ACTIVE allocation -/
def newAlloc (s : St) (req : List (Nat × Nat)) : Nat → Nat :=
  fun a => match req.find? (·.1 == a) with | some (_, m) => m | none => s.active a
/-- a layout must keep the DRTM PCR and the H-CRTM PCR in at least one bank -/
def allocOk (s : St) (req : List (Nat × Nat)) : Bool :=
  bankAlgs.any (fun a => bit (newAlloc s req a) Gen.DRTM_PCR) && bankAlgs.any (fun a => bit (newAlloc s req a) Gen.HCRTM_PCR)
def allocNeeded (s : St) (req : List (Nat × Nat)) : Nat :=
  bankAlgs.foldl (fun n a => n + popcount (newAlloc s req a) * digestSize a) 0

/-- TPM2_PCR_Allocate: the new layout goes to NV only -/
def allocate (s : St) (req : List (Nat × Nat)) : St × Nat × Nat :=
  if allocOk s req then ({ s with nvAlloc := newAlloc s req, reconfig := true }, 0, allocNeeded s req)
  else (s, Gen.TPM_RC_PCR, allocNeeded s req)

/-- index of a state-saved PCR in the save area: the number of state-saved PCRs below it (`saveIndex` of the C loops) -/
def saveIdx (p : Nat) : Nat := ((List.range p).filter (fun q => (attrOf q).save)).length

/-- the state-saved PCR that lives at index `i` of the save area -/
def savedPcr (i : Nat) : Option Nat := (List.range NPCR).find? (fun p => (attrOf p).save && saveIdx p == i)

/-- TPM2_Shutdown. Shutdown(STATE): `PCRStateSave` copies every state-saved PCR of every allocated bank to the save area -/
def shutdown (s : St) (state : Bool) : St × Nat :=
  if s.reconfig && state then (s, Gen.TPM_RC_TYPE + 0x140) else
  if !state then ({ s with orderly := .clear }, 0) else
  let sv : Nat → Nat → Bytes := fun a i =>
    match savedPcr i with
    | some p => if allocated s.active a p then s.val a p else s.saved a i
    | none => s.saved a i
  ({ s with saved := sv, nvSaved := sv, nvCounter := s.counter, orderly := .state, ordPre := s.drtmPre, ordLoc3 := !s.drtmPre && s.startLoc3 }, 0)

/-- `_TPM_Init` (TPMLIB_Terminate + TPMLIB_MainInit without volatile state): RAM copies are reloaded from NV -/
def powerCycle (s : St) : St :=
  { s with active := s.nvAlloc, started := false, drtmPre := false, seq := none }

inductive Kind where | reset | restart | resume
  deriving Repr, DecidableEq

def initValue (pcr alg loc : Nat) : Bytes :=
  let n := digestSize alg
  let fill : UInt8 := if (attrOf pcr).resetLoc / 16 % 2 == 1 then 0xFF else 0
  if pcr == Gen.HCRTM_PCR then List.replicate (n - 1) fill ++ [UInt8.ofNat loc] else List.replicate n fill

/-- `PCRStartup`: every allocated PCR is restored from the save area (Startup(STATE), state-saved PCRs) or set to its
    reset value; PCR 0 is left alone after an H-CRTM sequence; the update counter moves once per re-initialised PCR -/
def pcrStartup (s : St) (k : Kind) (loc : Nat) : St :=
  let restored : Nat → Bool := fun p => k == .resume && (attrOf p).save
  let skip : Nat → Bool := fun p => p == Gen.HCRTM_PCR && k != .resume && s.drtmPre
  let c0 := if k == .reset then 0 else s.counter
  { s with reconfig := false,
           counter := c0 + ((List.range NPCR).filter (fun p => !restored p && counts p)).length,
           val := fun a p => if allocated s.active a p ∧ ¬ skip p then (if restored p then s.saved a (saveIdx p) else initValue p a loc) else s.val a p }

def RC_LOCALITY0 : Nat := Gen.TPM_RC_LOCALITY

/-- TPM2_Startup (PCR-relevant part) -/
def startup (s : St) (state : Bool) (loc : Nat) : St × Nat :=
  if loc ≠ 0 ∧ loc ≠ 3 then (s, RC_LOCALITY0) else
  let loc := if s.drtmPre then 0 else loc
  let loc3 := loc == 3
  if state ∧ s.orderly ≠ .state then ({ s with startLoc3 := loc3 }, RC_VALUE_P1) else
  if state ∧ s.drtmPre ≠ s.ordPre then ({ s with startLoc3 := loc3 }, RC_VALUE_P1) else
  if state ∧ loc3 ≠ s.ordLoc3 then ({ s with startLoc3 := loc3 }, RC_LOCALITY0) else
  let k : Kind := if s.orderly = .state then (if state then .resume else .restart) else .reset
  let s := { s with startLoc3 := loc3 }
  let s := if k ≠ .reset then { s with counter := s.nvCounter } else s
  let s := if k = .resume then { s with saved := s.nvSaved } else s
  let s := pcrStartup s k loc
  ({ s with started := true, orderly := .none }, 0)

/-- `_TPM_Hash_Start` -/
def hashStart (s : St) : St := { s with seq := some [] }
/-- `_TPM_Hash_Data` -/
def hashData (s : St) (d : Bytes) : St := match s.seq with | some b => { s with seq := some (b ++ d) } | none => s

def dynamic (p : Nat) : Bool := (attrOf p).resetLoc / 16 % 2 == 1

/-- `PCRResetDynamics`: every PCR resettable from locality 4 is zeroed in every allocated bank -/
def resetDynamics (s : St) : St :=
  { s with val := fun a p => if allocated s.active a p ∧ dynamic p then zeros a else s.val a p }

/-- the value a hash sequence starts from: zero, with the last byte 4 for an H-CRTM sequence -/
def drtmBase (alg : Nat) (started : Bool) : Bytes :=
  if started then zeros alg else List.replicate (digestSize alg - 1) 0 ++ [4]

/-- `_TPM_Hash_End`: DRTM after Startup (PCR 17 after resetting the dynamic PCRs), H-CRTM before (PCR 0 from 0…04) -/
def hashEnd (H : HashFn) (s : St) : St :=
  match s.seq with
  | none => s
  | some data =>
    let s1 := if s.started then resetDynamics s else { s with drtmPre := true }
    let pcr := if s.started then Gen.DRTM_PCR else Gen.HCRTM_PCR
    let hit : Nat → Bool := fun a => bankAlgs.contains a && allocated s.active a pcr
    { s1 with seq := none,
              val := fun a p => if p = pcr ∧ hit a then H a (drtmBase a s.started ++ H a data) else s1.val a p,
              counter := s1.counter + (if counts pcr then (bankAlgs.filter hit).length else 0) }

/-- any command ends a pending hash sequence (`ObjectTerminateEvent`) -/
def anyCommand (s : St) : St := { s with seq := none }

/-- the concatenation of the selected PCR values that a quote or a policy digests (`PCRComputeCurrentDigest`) -/
def selectedValues (s : St) (sels : List (Nat × Nat × Nat)) : Bytes :=
  (sels.map (fun (x : Nat × Nat × Nat) =>
    (((List.range NPCR).filter (fun p => bit (filterSel s x.1 x.2.1 x.2.2) p)).map (fun p => s.val x.1 p)).flatten)).flatten

/-- state of a freshly manufactured TPM before its first Startup -/
def manufactured : St :=
  let a : Nat → Nat := fun alg => match Gen.pcrBanks.find? (·.1 == alg) with | some (_, _, true) => 2 ^ NPCR - 1 | _ => 0
  { val := fun _ _ => [], active := a, nvAlloc := a, counter := 0, saved := fun _ _ => [], nvSaved := fun _ _ => [], nvCounter := 0,
    orderly := .none, ordPre := false, ordLoc3 := false, started := false, drtmPre := false, startLoc3 := false, reconfig := false, seq := none }

end TpmVerif.Model.Pcr
