import TpmVerif.Gen.Tpm12
/-!
  Model of the TPM 1.2 enable / activate / ownership / clear flag automaton, written to follow the C code that exists:
  `tpm12/tpm_admin.c` (`TPM_Process_SetOwnerInstall`, `OwnerSetDisable`, `PhysicalEnable`, `PhysicalDisable`,
  `PhysicalSetDeactivated`, `SetTempDeactivated`), `tpm12/tpm_owner.c` (`TPM_Process_TakeOwnership`, `OwnerClear`,
  `ForceClear`, `DisableOwnerClear`, `DisableForceClear`, `TPM_OwnerClearCommon`, `TPM_Process_PhysicalPresence`),
  `tpm12/tpm_startup.c` (`TPM_Startup_Clear/State/Deactivated`, `TPM_Process_SaveState`), `tpm12/tpm_process.c`
  (`TPM_CheckState`: failed state, postInitialise, disable, deactivated, owner — in that order),
  `tpm12/tpm_init.c` (`TPM_PermanentFlags_Init`, `TPM_StclearFlags_Init`), `tpm12/tpm_permanent.c`
  (`TPM_PermanentAll_NVStore`: a changed permanent flag is stored before the command answers).

  As in the NV model two copies of the permanent flags are kept: `mem` and `sto` (what a power cycle brings back).
  Owner authorization is a Boolean `ok` (decided in the checker from the wire bytes by `Model.Tpm12.Auth`).
-/
namespace TpmVerif.Model.Tpm12.Flags
open TpmVerif.Gen.Tpm12

/-- TPM_PERMANENT_FLAGS / TPM_PERMANENT_DATA as far as this automaton reads them -/
structure Perm where
  disable : Bool := initDisable
  ownership : Bool := initOwnership
  deactivated : Bool := initDeactivated
  disableOwnerClear : Bool := initDisableOwnerClear
  ppLife : Bool := initPpLifetimeLock
  ppHw : Bool := initPpHwEnable
  ppCmd : Bool := initPpCmdEnable
  owner : Bool := false                -- tpm_permanent_data.ownerInstalled
  ek : Bool := false                   -- an endorsement key exists
deriving Repr, DecidableEq

/-- TPM_STCLEAR_FLAGS -/
structure StClear where
  deactivated : Bool := false
  disableForceClear : Bool := false
  pp : Bool := false                   -- physicalPresence
  ppLock : Bool := false               -- physicalPresenceLock
  auditOpen : Bool := false            -- TPM_STCLEAR_DATA.auditDigest is not all zero (an audit session is open)
deriving Repr, DecidableEq

structure St where
  mem : Perm := {}
  sto : Perm := {}
  sc : StClear := {}
  postInit : Bool := true
  failed : Bool := false
  stateSaved : Bool := false
  saved : Option StClear := none       -- TPM_STCLEAR_FLAGS inside the TPM_SaveState blob in storage
deriving Repr, DecidableEq

def fresh : St := {}

structure Obs where
  rc : Nat
  stored : Bool := false
deriving Repr, DecidableEq

def has (v bit : Nat) : Bool := v &&& bit != 0

/-- `TPM_Global_GetPhysicalPresence` -/
def presence (s : St) (hw : Bool) : Bool := (s.mem.ppCmd && s.sc.pp) || (s.mem.ppHw && hw)

/-- which `TPM_CheckState` tests an ordinal asks for -/
structure Gate where
  enabled : Bool := false              -- TPM_CHECK_ENABLED
  activated : Bool := false            -- TPM_CHECK_ACTIVATED
  owner : Bool := false                -- TPM_CHECK_OWNER
deriving Repr, DecidableEq

def gateNone : Gate := {}
def gateAllowNoOwner : Gate := { enabled := true, activated := true }          -- TPM_CHECK_ALLOW_NO_OWNER
def gateAll : Gate := { enabled := true, activated := true, owner := true }    -- TPM_CHECK_ALL

/-- `TPM_CheckState`: failed state, postInitialise, disable, deactivated (the ST_CLEAR copy), owner — in this order -/
def checkState (s : St) (g : Gate) : Nat :=
  if s.failed then TPM_FAILEDSELFTEST
  else if s.postInit then TPM_INVALID_POSTINIT
  else if g.enabled && s.mem.disable then TPM_DISABLED
  else if g.activated && s.sc.deactivated then TPM_DEACTIVATED
  else if g.owner && !s.mem.owner then TPM_NOSRK
  else 0

/-- `TPM_SetCapability_Flag` + `TPM_PermanentAll_NVStore`: the new permanent flags are stored iff something changed -/
def commit (s : St) (p : Perm) : St × Obs :=
  if p = s.mem then (s, { rc := 0 }) else ({ s with mem := p, sto := p }, { rc := 0, stored := true })

/-- `TPM_OwnerClearCommon`, the part that concerns the flags: no owner, disabled, deactivated (permanent copy only: the
    ST_CLEAR copy changes at the next Startup), ownership allowed again, disableOwnerClear FALSE -/
def clearCommon (p : Perm) : Perm :=
  { p with owner := false, disable := true, deactivated := true, ownership := true, disableOwnerClear := false }

/-- ... and `TPM_StclearData_Delete` inside it resets the audit digest -/
def clearStClear (c : StClear) : StClear := { c with auditOpen := false }

def ppA1 : Nat := TPM_PHYSICAL_PRESENCE_LIFETIME_LOCK ||| TPM_PHYSICAL_PRESENCE_HW_ENABLE ||| TPM_PHYSICAL_PRESENCE_CMD_ENABLE |||
  TPM_PHYSICAL_PRESENCE_HW_DISABLE ||| TPM_PHYSICAL_PRESENCE_CMD_DISABLE
def ppA2 : Nat := TPM_PHYSICAL_PRESENCE_LOCK ||| TPM_PHYSICAL_PRESENCE_PRESENT ||| TPM_PHYSICAL_PRESENCE_NOTPRESENT

def ppLifetime (p : Perm) (v : Nat) : Perm :=
  { p with
    ppHw := if has v TPM_PHYSICAL_PRESENCE_HW_ENABLE then true else if has v TPM_PHYSICAL_PRESENCE_HW_DISABLE then false else p.ppHw
    ppCmd := if has v TPM_PHYSICAL_PRESENCE_CMD_ENABLE then true else if has v TPM_PHYSICAL_PRESENCE_CMD_DISABLE then false else p.ppCmd
    ppLife := has v TPM_PHYSICAL_PRESENCE_LIFETIME_LOCK || p.ppLife }

def ppAssert (c : StClear) (v : Nat) : StClear :=
  { c with
    pp := if has v TPM_PHYSICAL_PRESENCE_NOTPRESENT then false else if has v TPM_PHYSICAL_PRESENCE_PRESENT then true
          else if has v TPM_PHYSICAL_PRESENCE_LOCK then false else c.pp
    ppLock := has v TPM_PHYSICAL_PRESENCE_LOCK || c.ppLock }

/-- the ordinary ordinals the scenario samples: the ones `TPM_CheckState(TPM_CHECK_ALLOW_NO_OWNER)` protects and the
    ones that only ask for a started, not failed TPM -/
inductive Probe
  | pcrRead | getRandom | getTicks          -- protected: refused when disabled / deactivated
  | extend | oiap | nvReadDir | getCapFlags -- let through
deriving Repr, DecidableEq

def Probe.gate : Probe → Gate
  | .pcrRead | .getRandom | .getTicks => gateAllowNoOwner
  | _ => gateNone

inductive Op
  | startup (stType : Nat)
  | tscPP (v : Nat)
  | physicalEnable (hw : Bool)
  | physicalDisable (hw : Bool)
  | physicalSetDeactivated (hw : Bool) (state : Bool)
  | setTempDeactivated (hw : Bool)
  | setOwnerInstall (hw : Bool) (state : Bool)
  | ownerSetDisable (ok : Bool) (state : Bool)
  | createEk                                   -- a TPM_CreateEndorsementKeyPair that succeeded
  | takeOwnership (ok : Bool)
  | ownerClear (ok : Bool)
  | forceClear (hw : Bool)
  | disableOwnerClear (ok : Bool)
  | disableForceClear
  | saveState
  | probe (p : Probe)
  | powerCycle
  | resume
deriving Repr

/-- `TPM_Process_Preprocess`: any ordinal other than TPM_Startup invalidates the saved state -/
def invalidateSaved (s : St) : St := if s.stateSaved then { s with stateSaved := false, saved := none } else s

def refuse (s : St) (rc : Nat) : St × Obs := (s, { rc := rc })

def startup (s : St) (stType : Nat) : St × Obs :=
  let done (s : St) : St := { s with postInit := false, saved := none, stateSaved := false }
  if !s.postInit then (done s, { rc := TPM_INVALID_POSTINIT })
  else if s.failed then (done s, { rc := TPM_FAILEDSELFTEST })
  else if stType = TPM_ST_CLEAR then (done { s with sc := { s.sc with deactivated := s.mem.deactivated } }, { rc := 0 })
  else if stType = TPM_ST_STATE then
    match s.saved with
    | none => (done { s with failed := true }, { rc := TPM_FAILEDSELFTEST })
    | some c => (done { s with sc := c }, { rc := 0 })
  else if stType = TPM_ST_DEACTIVATED then (done { s with sc := { s.sc with deactivated := true } }, { rc := 0 })
  else (done s, { rc := TPM_BAD_PARAMETER })

def tscPP (s : St) (v : Nat) : St × Obs :=
  let cs := checkState s gateNone
  if cs ≠ 0 then refuse s cs else
  if v &&& TPM_PHYSICAL_PRESENCE_MASK ≠ 0 then refuse s TPM_BAD_PARAMETER else
  if v &&& ppA1 ≠ 0 then
    if s.mem.ppLife then refuse s TPM_BAD_PARAMETER
    else if v &&& ppA2 ≠ 0 then refuse s TPM_BAD_PARAMETER
    else if has v TPM_PHYSICAL_PRESENCE_HW_ENABLE && has v TPM_PHYSICAL_PRESENCE_HW_DISABLE then refuse s TPM_BAD_PARAMETER
    else if has v TPM_PHYSICAL_PRESENCE_CMD_ENABLE && has v TPM_PHYSICAL_PRESENCE_CMD_DISABLE then refuse s TPM_BAD_PARAMETER
    else commit s (ppLifetime s.mem v)
  else if v &&& ppA2 ≠ 0 then
    if !s.mem.ppCmd then refuse s TPM_BAD_PARAMETER
    else if has v TPM_PHYSICAL_PRESENCE_LOCK && has v TPM_PHYSICAL_PRESENCE_PRESENT then refuse s TPM_BAD_PARAMETER
    else if has v TPM_PHYSICAL_PRESENCE_PRESENT && has v TPM_PHYSICAL_PRESENCE_NOTPRESENT then refuse s TPM_BAD_PARAMETER
    else if s.sc.ppLock then refuse s TPM_BAD_PARAMETER
    else ({ s with sc := ppAssert s.sc v }, { rc := 0 })
  else refuse s TPM_BAD_PARAMETER

/-- one ordinal (the saved state has been invalidated already) -/
def ordinal (s : St) : Op → St × Obs
  | .tscPP v => tscPP s v
  | .physicalEnable hw =>
      let cs := checkState s gateNone
      if cs ≠ 0 then refuse s cs else
      if !presence s hw then refuse s TPM_BAD_PRESENCE else commit s { s.mem with disable := false }
  | .physicalDisable hw =>
      let cs := checkState s { enabled := true }
      if cs ≠ 0 then refuse s cs else
      if !presence s hw then refuse s TPM_BAD_PRESENCE else commit s { s.mem with disable := true }
  | .physicalSetDeactivated hw state =>
      let cs := checkState s { enabled := true }
      if cs ≠ 0 then refuse s cs else
      if !presence s hw then refuse s TPM_BAD_PRESENCE else commit s { s.mem with deactivated := state }
  | .setTempDeactivated hw =>
      let cs := checkState s { activated := true }
      if cs ≠ 0 then refuse s cs else
      if !presence s hw then refuse s TPM_BAD_PRESENCE else ({ s with sc := { s.sc with deactivated := true } }, { rc := 0 })
  | .setOwnerInstall hw state =>
      let cs := checkState s gateAllowNoOwner
      if cs ≠ 0 then refuse s cs else
      if s.mem.owner then (s, { rc := 0 }) else             -- with an owner the command is a no-op that succeeds
      if !presence s hw then refuse s TPM_BAD_PRESENCE else commit s { s.mem with ownership := state }
  | .ownerSetDisable ok state =>
      let cs := checkState s { owner := true }
      if cs ≠ 0 then refuse s cs else
      if !ok then refuse s TPM_AUTHFAIL else commit s { s.mem with disable := state }
  | .createEk =>
      let cs := checkState s gateAllowNoOwner
      if cs ≠ 0 then refuse s cs else
      if s.mem.ek then refuse s TPM_DISABLED_CMD else
      ({ s with mem := { s.mem with ek := true }, sto := { s.mem with ek := true } }, { rc := 0, stored := true })
  | .takeOwnership ok =>
      let cs := checkState s { enabled := true }
      if cs ≠ 0 then refuse s cs else
      if s.mem.owner then refuse s TPM_OWNER_SET else
      if !s.mem.ownership then refuse s TPM_INSTALL_DISABLED else
      if !s.mem.ek then refuse s TPM_NO_ENDORSEMENT else
      if !ok then refuse s TPM_AUTHFAIL else
      ({ s with mem := { s.mem with owner := true }, sto := { s.mem with owner := true } }, { rc := 0, stored := true })
  | .ownerClear ok =>
      let cs := checkState s gateAll
      if cs ≠ 0 then refuse s cs else
      if !ok then refuse s TPM_AUTHFAIL else
      if s.mem.disableOwnerClear then refuse s TPM_CLEAR_DISABLED else
      ({ s with mem := clearCommon s.mem, sto := clearCommon s.mem, sc := clearStClear s.sc }, { rc := 0, stored := true })
  | .forceClear hw =>
      let cs := checkState s gateAllowNoOwner
      if cs ≠ 0 then refuse s cs else
      if !presence s hw then refuse s TPM_BAD_PRESENCE else
      if s.sc.disableForceClear then refuse s TPM_CLEAR_DISABLED else
      ({ s with mem := clearCommon s.mem, sto := clearCommon s.mem, sc := clearStClear s.sc }, { rc := 0, stored := true })
  | .disableOwnerClear ok =>
      let cs := checkState s gateAll
      if cs ≠ 0 then refuse s cs else
      if !ok then refuse s TPM_AUTHFAIL else commit s { s.mem with disableOwnerClear := true }
  | .disableForceClear =>
      let cs := checkState s gateAllowNoOwner
      if cs ≠ 0 then refuse s cs else ({ s with sc := { s.sc with disableForceClear := true } }, { rc := 0 })
  | .saveState =>
      let cs := checkState s gateNone
      if cs ≠ 0 then refuse s cs else ({ s with stateSaved := true, saved := some s.sc }, { rc := 0 })
  | .probe p =>
      let cs := checkState s p.gate
      (s, { rc := cs })
  | _ => (s, { rc := 0 })

def powerCycle (s : St) : St := { mem := s.sto, sto := s.sto, saved := s.saved }
def resume (s : St) : St := { s with sto := s.mem }

/-- the ordinal number of a command (for the audit table) -/
def Op.ordinal? : Op → Option Nat
  | .physicalEnable _ => some 0x6F
  | .physicalDisable _ => some 0x70
  | .physicalSetDeactivated _ _ => some 0x72
  | .setTempDeactivated _ => some 0x73
  | .setOwnerInstall _ _ => some 0x71
  | .ownerSetDisable _ _ => some 0x6E
  | .createEk => some 0x78
  | .takeOwnership _ => some 0x0D
  | .ownerClear _ => some 0x5B
  | .forceClear _ => some 0x5D
  | .disableOwnerClear _ => some 0x5C
  | .disableForceClear => some 0x5E
  | .saveState => some 0x98
  | _ => none

def audited (op : Op) : Bool :=
  match op.ordinal? with
  | some o => auditDefaultOrdinals.contains o
  | none => false

/-- `TPM_ProcessAudit` after a successful audited ordinal: when no audit session is open (auditDigest all zero) the audit
    counter is advanced and the permanent state is stored -/
def audit (r : St × Obs) (op : Op) : St × Obs :=
  if r.2.rc = 0 && audited op && !r.1.sc.auditOpen then
    ({ r.1 with sc := { r.1.sc with auditOpen := true }, sto := r.1.mem }, { r.2 with stored := true })
  else r

def step (s : St) : Op → St × Obs
  | .startup t => startup s t
  | .powerCycle => (powerCycle s, { rc := 0 })
  | .resume => (resume s, { rc := 0 })
  | op => audit (ordinal (invalidateSaved s) op) op

def run (s : St) (ops : List Op) : St := ops.foldl (fun st op => (step st op).1) s

end TpmVerif.Model.Tpm12.Flags
