import TpmVerif.Gen.Tpm12
/-!
  Model of the TPM 1.2 monotonic counters, written to follow `tpm12/tpm_counter.c` (`TPM_Process_CreateCounter`,
  `TPM_Process_IncrementCounter`, `TPM_Process_ReadCounter`, `TPM_Process_ReleaseCounter(Owner)`,
  `TPM_Counters_GetNewHandle`, `TPM_Counters_GetNextCount`, `TPM_Counters_IsValidId`, `TPM_CounterValue_Release`).

  `TPM_PERMANENT_DATA.monotonicCounter[TPM_MIN_COUNTERS]` is a fixed table of slots; a released slot keeps its last
  count (only `valid` and the authorization data are cleared), and a new counter starts at the maximum over ALL slots
  plus one.  `TPM_STCLEAR_DATA.countID` is the one counter that may be incremented until the next TPM_Init:
  TPM_COUNT_ID_NULL after a power cycle, TPM_COUNT_ID_ILLEGAL after the active counter was released.
  Every change goes through `TPM_PermanentAll_NVStore(TRUE)`: the table in storage is always the table in memory.

  Authorization is availability only (`ok` = the client built a correct HMAC).  An owner is installed (the histories
  create counters only then); the TPM is enabled and activated.
-/
namespace TpmVerif.Model.Tpm12.Counter
open TpmVerif.Gen.Tpm12

structure Slot where
  valid : Bool := false
  count : Nat := 0
deriving Repr, DecidableEq

/-- `TPM_STCLEAR_DATA.countID` -/
inductive Active
  | null                 -- TPM_COUNT_ID_NULL: no counter incremented since TPM_Init
  | illegal              -- TPM_COUNT_ID_ILLEGAL: the active counter was released
  | id (n : Nat)
deriving Repr, DecidableEq

structure St where
  slots : List Slot := List.replicate TPM_MIN_COUNTERS {}
  active : Active := .null
  owner : Bool := false          -- tpm_permanent_data.ownerInstalled
  postInit : Bool := true
  failed : Bool := false
  savedActive : Option Active := none      -- countID inside the TPM_SaveState blob
deriving Repr, DecidableEq

structure Obs where
  rc : Nat
  id : Nat := 0
  value : Nat := 0
  stored : Bool := false
deriving Repr, DecidableEq

def checkState (s : St) (needOwner : Bool) : Nat :=
  if s.failed then TPM_FAILEDSELFTEST else if s.postInit then TPM_INVALID_POSTINIT
  else if needOwner && !s.owner then TPM_NOSRK else 0

/-- `TPM_Counters_GetNextCount`: the maximum over every slot, used or not, plus one -/
def maxCount (slots : List Slot) : Nat := slots.foldl (fun m sl => max m sl.count) 0
def nextCount (slots : List Slot) : Nat := maxCount slots + 1

/-- `TPM_Counters_GetNewHandle`: the first slot that is not valid -/
def firstFree (slots : List Slot) : Option Nat := slots.findIdx? (fun sl => !sl.valid)

/-- `TPM_Counters_IsValidId` -/
def validId (s : St) (id : Nat) : Bool := decide (id < TPM_MIN_COUNTERS) && (s.slots.getD id {}).valid

def countOf (s : St) (id : Nat) : Nat := (s.slots.getD id {}).count

inductive Op
  | create (ok : Bool)
  | increment (id : Nat) (ok : Bool)
  | read (id : Nat)
  | release (id : Nat) (ok : Bool)               -- TPM_ReleaseCounter (the counter's own authorization)
  | releaseOwner (id : Nat) (ok : Bool)          -- TPM_ReleaseCounterOwner
  | takeOwnership
  | startup (stType : Nat)
  | saveState
  | powerCycle
  | resume
deriving Repr

def release (s : St) (id : Nat) : St :=
  { s with slots := s.slots.set id { (s.slots.getD id {}) with valid := false },
           active := if s.active = .id id then .illegal else s.active }

def step (s : St) : Op → St × Obs
  | .create ok =>
      let cs := checkState s true
      if cs ≠ 0 then (s, { rc := cs }) else
      if !ok then (s, { rc := TPM_AUTHFAIL }) else
      match firstFree s.slots with
      | none => (s, { rc := TPM_RESOURCES })
      | some i =>
        let v := nextCount s.slots
        ({ s with slots := s.slots.set i { valid := true, count := v } }, { rc := 0, id := i, value := v, stored := true })
  | .increment id ok =>
      let cs := checkState s true
      if cs ≠ 0 then (s, { rc := cs }) else
      -- either there is no active counter and the id is a created counter, or the id IS the active counter
      let allowed := match s.active with
        | .null => validId s id
        | .id n => decide (n = id)
        | .illegal => false
      if !allowed then (s, { rc := TPM_BAD_COUNTER }) else
      if !validId s id then (s, { rc := TPM_BAD_COUNTER }) else
      if !ok then (s, { rc := TPM_AUTHFAIL }) else
      let v := countOf s id + 1
      ({ s with slots := s.slots.set id { valid := true, count := v }, active := .id id }, { rc := 0, id := id, value := v, stored := true })
  | .read id =>
      let cs := checkState s false
      if cs ≠ 0 then (s, { rc := cs }) else
      if !validId s id then (s, { rc := TPM_BAD_COUNTER }) else (s, { rc := 0, id := id, value := countOf s id })
  | .release id ok =>
      let cs := checkState s false
      if cs ≠ 0 then (s, { rc := cs }) else
      if !validId s id then (s, { rc := TPM_BAD_COUNTER }) else
      if !ok then (s, { rc := TPM_AUTHFAIL }) else (release s id, { rc := 0, id := id, stored := true })
  | .releaseOwner id ok =>
      let cs := checkState s true
      if cs ≠ 0 then (s, { rc := cs }) else
      if !ok then (s, { rc := TPM_AUTHFAIL }) else
      if !validId s id then (s, { rc := TPM_BAD_COUNTER }) else (release s id, { rc := 0, id := id, stored := true })
  | .takeOwnership => ({ s with owner := true }, { rc := 0 })
  | .startup stType =>
      if !s.postInit then ({ s with savedActive := none }, { rc := TPM_INVALID_POSTINIT })
      else if s.failed then ({ s with postInit := false, savedActive := none }, { rc := TPM_FAILEDSELFTEST })
      else if stType = TPM_ST_CLEAR then ({ s with postInit := false, savedActive := none }, { rc := 0 })
      else if stType = TPM_ST_STATE then
        match s.savedActive with
        | none => ({ s with postInit := false, failed := true }, { rc := TPM_FAILEDSELFTEST })
        | some a => ({ s with postInit := false, active := a, savedActive := none }, { rc := 0 })
      else ({ s with postInit := false, savedActive := none }, { rc := TPM_BAD_PARAMETER })
  | .saveState => ({ s with savedActive := some s.active }, { rc := 0 })
  | .powerCycle => ({ s with active := .null, postInit := true, failed := false }, { rc := 0 })
  | .resume => (s, { rc := 0 })

def run (s : St) (ops : List Op) : St := ops.foldl (fun st op => (step st op).1) s

end TpmVerif.Model.Tpm12.Counter
