/-!
  The cancel protocol of a cancellable command (`CryptRsaGenerateKey` polls `_plat__IsCanceled()` once per attempt;
  `TPMLIB_Process` clears the flag on entry with `_rpc__Signal_CancelOff()`; `TPMLIB_CancelCommand` sets it).
  A schedule says before which poll (0-based) the cancel request of the other thread lands, if at all.
-/
namespace TpmVerif.Model.Cancel

inductive Outcome (σ : Type) where
  | done (s : σ)        -- command completed, new state
  | canceled (s : σ)    -- TPM_RC_CANCELED, state as given
deriving Repr

/-- is the cancel flag visible at poll `i`? -/
def flagSet (landsBefore : Option Nat) (i : Nat) : Bool :=
  match landsBefore with | some k => decide (k ≤ i) | none => false

/-- `Process` entry clears a pending (stale) request; then the retry loop: attempt `i` succeeds iff `i = succAt`.
    Poll `i` happens before attempt `i`.  `fuel` bounds the loop (the C loop is unbounded; success at `succAt` ends it). -/
def loop {σ} (s : σ) (result : σ) (succAt : Nat) (landsBefore : Option Nat) : (i fuel : Nat) → Outcome σ
  | _, 0 => .canceled s       -- out of fuel (not reachable when fuel > succAt)
  | i, fuel + 1 =>
    if flagSet landsBefore i then .canceled s
    else if i = succAt then .done result
    else loop s result succAt landsBefore (i + 1) fuel

/-- the whole command: `staleRequest` = a cancel was requested before `TPMLIB_Process` was entered (cleared on entry) -/
def run {σ} (s result : σ) (succAt : Nat) (_staleRequest : Bool) (landsBefore : Option Nat) : Outcome σ :=
  loop s result succAt landsBefore 0 (succAt + 1)

end TpmVerif.Model.Cancel
