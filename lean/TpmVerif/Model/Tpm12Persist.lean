import TpmVerif.Gen.Tpm12
/-!
  Model of the TPM 1.2 write-through / rollback protocol for the permanent state, written to follow
  `tpm12/tpm_permanent.c:TPM_PermanentAll_NVStore(tpm_state, writeAllNV, rcIn)` as every ordinal calls it at its
  end, `TPM_PermanentAll_NVLoad`, the `TPM_FAIL ⇒ testState = FAILURE` rule of `TPM_Sbuffer_StoreFinalResponse`,
  and power-on (`TPM_MainInit` loading the stored blob).

  The permanent state is abstract (`α`: in the checker the SHA-1 of the serialized blob); `live` is what the
  running TPM holds in memory (what `TPMLIB_GetState(PERMANENT)` would serialize), `stored` the payload last
  accepted by the storage callback.
-/
namespace TpmVerif.Model.Tpm12.Persist
open TpmVerif.Gen.Tpm12

structure St (α : Type) where
  live : α
  stored : α
  failed : Bool := false          -- testState == TPM_TEST_STATE_FAILURE
deriving Repr, DecidableEq

/-- what one ordinal did before calling `TPM_PermanentAll_NVStore` -/
structure Ev (α : Type) where
  /-- `none`: the ordinal did not touch permanent memory (writeAllNV = FALSE); `some l`: it changed it to `l` and
      set writeAllNV = TRUE -/
  altered : Option α
  /-- the ordinal's own return code at the point of the call -/
  rcIn : Nat
  /-- does the storage callback accept the store issued by this command (if one is issued)? -/
  storeOk : Bool := true
  /-- does the reload issued by a rollback succeed? -/
  loadOk : Bool := true
  /-- audited ordinals update the audit digest after the command's own store (`TPM_ProcessAudit`); `false`: that
      second store failed.  The command then answers `TPM_AUDITFAIL_SUCCESSFUL` ("audit construction failed and the
      underlying command was returning success") and the TPM is in its failed state. -/
  auditOk : Bool := true

/-- `TPM_PermanentAll_NVStore` followed by the response code handling: new state and the response code -/
def step {α : Type} (s : St α) (e : Ev α) : St α × Nat :=
  match e.altered with
  | none => (s, e.rcIn)                                            -- no write required, no-op
  | some l =>
    if e.rcIn = 0 then
      if e.storeOk then ({ s with live := l, stored := l }, 0)      -- serialize and store
      else ({ s with live := l, failed := true }, TPM_FAIL)         -- store failed: in-memory caches invalid, TPM_FAIL
    else
      if e.loadOk then ({ s with live := s.stored }, e.rcIn)        -- roll back by re-reading the NV file
      else ({ s with live := l, failed := true }, TPM_FAIL)         -- a failure during rollback is fatal

/-- the audit step of a command that succeeded, then: a `TPM_FAIL` coming out of the ordinal itself also sets the
    failed state (`StoreFinalResponse`) -/
def respond {α : Type} (s : St α) (e : Ev α) : St α × Nat :=
  let (s', rc) := step s e
  if rc = 0 && !e.auditOk then ({ s' with failed := true }, TPM_AUDITFAIL_SUCCESSFUL)
  else ({ s' with failed := s'.failed || rc == TPM_FAIL }, rc)

/-- power cycle: `TPM_MainInit` loads the stored blob; the failed state is not persistent -/
def restart {α : Type} (s : St α) : St α := { live := s.stored, stored := s.stored, failed := false }

def run {α : Type} (s : St α) (es : List (Ev α)) : St α := es.foldl (fun st e => (respond st e).1) s

/-- the invariant the protocol maintains: unless the TPM is in its failed state, memory and storage agree -/
def Sync {α : Type} (s : St α) : Prop := s.failed = true ∨ s.live = s.stored

end TpmVerif.Model.Tpm12.Persist
