/-!
  Saved *object* contexts (`Context_spt.c`, `ContextCommands.c`, `Hierarchy.c`, `StartupCommands.c`): what a context is bound to
  and which platform events end its life.

  The integrity HMAC of a context is keyed with the proof of the object's hierarchy and covers `gp.totalResetCount`
  (and `gr.clearCount` for an object with the stClear attribute). Hence a context is *intact* exactly as long as
  the proof, the reset count (and for stClear objects the restart count) are the ones it was saved under.
  `TPM2_ContextLoad` then refuses an intact context whose hierarchy is disabled.
-/
namespace TpmVerif.Model.ObjCtx

inductive Hier where
  | owner | endorsement | platform | null
  deriving Repr, DecidableEq

/-- what the TPM currently is, as far as saved object contexts are concerned -/
structure Now where
  total : Nat := 0                        -- gp.totalResetCount: TPM Resets so far
  clear : Nat := 0                        -- gr.clearCount: TPM Restarts since the last Reset
  gen : Hier → Nat := fun _ => 0          -- generation of the hierarchy's proof (shProof, ehProof, phProof, nullProof)
  enabled : Hier → Bool := fun _ => true  -- shEnable, ehEnable, phEnable; the null hierarchy is always enabled

structure Ctx where
  hier : Hier
  stClear : Bool
  total : Nat
  clear : Nat
  gen : Nat
  deriving Repr, DecidableEq

def save (n : Now) (h : Hier) (stClear : Bool) : Ctx :=
  { hier := h, stClear := stClear, total := n.total, clear := n.clear, gen := n.gen h }

/-- the integrity value still verifies -/
def intact (c : Ctx) (n : Now) : Bool :=
  c.total == n.total && c.gen == n.gen c.hier && (!c.stClear || c.clear == n.clear)

inductive LoadRc where
  | ok | integrity | hierarchy
  deriving Repr, DecidableEq

/-- `TPM2_ContextLoad` of an unmodified object context (object slots permitting) -/
def load (c : Ctx) (n : Now) : LoadRc :=
  if !intact c n then .integrity else if !n.enabled c.hier then .hierarchy else .ok

inductive Event where
  | resume                      -- Shutdown(STATE), Startup(STATE); also suspend/resume through state blobs
  | restart                     -- Shutdown(STATE), Startup(CLEAR)
  | reset                       -- Startup(CLEAR) after Shutdown(CLEAR) or no shutdown
  | clear                       -- TPM2_Clear
  | changeEPS
  | changePPS
  | control (h : Hier) (state : Bool)   -- TPM2_HierarchyControl (owner, endorsement)
  deriving Repr, DecidableEq

def bump (g : Hier → Nat) (h : Hier) : Hier → Nat := fun x => if x = h then g x + 1 else g x
def setEn (e : Hier → Bool) (h : Hier) (v : Bool) : Hier → Bool := fun x => if x = h then v else e x

def step (n : Now) : Event → Now
  | .resume => n
  | .restart => { n with clear := n.clear + 1, enabled := fun _ => true }
  | .reset => { n with total := n.total + 1, clear := 0, gen := bump n.gen .null, enabled := fun _ => true }
  -- TPM2_Clear also sets gr.clearCount (with resetCount and restartCount) to 0
  | .clear => { n with clear := 0, gen := bump (bump n.gen .owner) .endorsement, enabled := setEn (setEn n.enabled .owner true) .endorsement true }
  | .changeEPS => { n with gen := bump n.gen .endorsement, enabled := setEn n.enabled .endorsement true }
  | .changePPS => { n with gen := bump n.gen .platform }
  | .control h v => { n with enabled := setEn n.enabled h v }

def run (n : Now) (es : List Event) : Now := es.foldl step n

end TpmVerif.Model.ObjCtx
