import TpmVerif.Base.Bytes
import TpmVerif.Gen.Consts
/-!
  Objects and seeds (`Hierarchy.c`, `HierarchyCommands.c`, `Object.c`): which events replace the primary seed of a
  hierarchy, when two CreatePrimary calls must give the same object, the Name of an object, transient slots and
  persistent objects. Key derivation itself (KDFa/DRBG/prime search) is not modelled: a primary is identified by
  (hierarchy, seed generation, template).
-/
namespace TpmVerif.Model.Objects
open TpmVerif

inductive Hier where | owner | endorsement | platform | null
  deriving Repr, DecidableEq

inductive Op where
  | clear                -- TPM2_Clear: new owner (storage) primary seed; endorsement and platform seeds stay
  | changeEPS
  | changePPS
  | startupReset         -- TPM Reset: new null seed
  | startupRestart       -- Startup(CLEAR) after Shutdown(STATE): null seed kept
  | startupResume        -- Startup(STATE): null seed kept
  | suspendResume        -- state blobs: everything kept
  | other                -- any other command
  deriving Repr, DecidableEq

structure St where
  gen : Hier → Bool → Nat := fun _ _ => 0  -- generation of what a primary of this hierarchy derives from; the flag says
                                           -- "symmetric object (keyedhash/symcipher)": their public area contains a value
                                           -- derived from the seedValue, which for endorsement primaries is stirred with
                                           -- shProof and ehProof (CryptUtil.c:CryptCreateObject) — both replaced by TPM2_Clear
  persistent : List (Nat × Hier × Bytes) := []   -- handle, hierarchy, Name
  used : Nat := 0                          -- transient slots in use

/-- does the event replace what a primary of this hierarchy (symmetric or not) derives from? -/
def replaces : Op → Hier → Bool → Bool
  | .clear, .owner, _ => true
  | .clear, .endorsement, true => true       -- the proofs change: symmetric endorsement primaries get another `unique`
  | .changeEPS, .endorsement, _ => true
  | .changePPS, .platform, _ => true
  | .startupReset, .null, _ => true
  | _, _, _ => false

/-- which persistent objects go with the event: Clear removes those of the owner and endorsement hierarchies,
    ChangeEPS those of the endorsement, ChangePPS those of the platform hierarchy -/
def flushes : Op → Hier → Bool
  | .clear, .owner => true
  | .clear, .endorsement => true
  | .changeEPS, .endorsement => true
  | .changePPS, .platform => true
  | _, _ => false

def step (s : St) (op : Op) : St :=
  { s with gen := fun h y => if replaces op h y then s.gen h y + 1 else s.gen h y,
           persistent := s.persistent.filter (fun (_, h, _) => !flushes op h),
           used := match op with | .startupReset | .startupRestart | .startupResume => 0 | _ => s.used }

/-- identity of a primary object -/
structure Key where
  hier : Hier
  sym : Bool
  gen : Nat
  template : Bytes
  deriving DecidableEq

def keyOf (s : St) (h : Hier) (sym : Bool) (template : Bytes) : Key := { hier := h, sym := sym, gen := s.gen h sym, template := template }

/-! ### Transient slots -/

def load (s : St) : St × Bool := if s.used < Gen.MAX_LOADED_OBJECTS then ({ s with used := s.used + 1 }, true) else (s, false)
def flush (s : St) : St := { s with used := s.used - 1 }

/-! ### Persistent objects -/

def evictOn (s : St) (handle : Nat) (h : Hier) (name : Bytes) : St := { s with persistent := (handle, h, name) :: s.persistent }
def evictOff (s : St) (handle : Nat) : St := { s with persistent := s.persistent.filter (·.1 ≠ handle) }
def persistentName (s : St) (handle : Nat) : Option Bytes := (s.persistent.find? (·.1 == handle)).map (·.2.2)

end TpmVerif.Model.Objects
