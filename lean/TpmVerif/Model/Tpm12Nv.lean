import TpmVerif.Gen.Tpm12
/-!
  Model of the TPM 1.2 NV storage services, written to follow the C code that exists:
  `tpm12/tpm_nvram.c` (`TPM_Process_NVDefineSpace`, `TPM_Process_NVWriteValue`, `TPM_Process_NVReadValue`,
  `TPM_NVIndexEntries_StClear/GetVolatile/SetVolatile/LoadVolatile`, `TPM_NVIndexEntries_GetFreeSpace`),
  `tpm12/tpm_owner.c` (`TPM_Process_PhysicalPresence`), `tpm12/tpm_global.c` (`TPM_Global_GetPhysicalPresence`),
  `tpm12/tpm_permanent.c` (`TPM_PermanentAll_NVStore`: store on success, reload from storage on failure),
  `tpm12/tpm_startup.c` (`TPM_Startup_Clear`, `TPM_Startup_State`, `TPM_Process_SaveState`, `TPM_SaveState_Load`),
  `tpm12/tpm_process.c` (`TPM_CheckState`, saved-state invalidation in `TPM_Process_Preprocess`),
  `tpm12/tpm_init.c` (`TPM_MainInit`: permanent state comes from storage; `TPM_StclearFlags_Init`).

  Two copies of the permanent state are kept, exactly as the implementation has them: `mem` (the in-memory
  structures, what `TPMLIB_GetState(PERMANENT)` serializes) and `sto` (the blob last accepted by the storage
  callback).  The per-area flags `bReadSTClear` / `bWriteSTClear` are volatile by specification but ARE part of
  the serialized permanent state: after a power cycle they come back as they were at the last store and are
  cleared by `TPM_Startup(ST_CLEAR)` only.  `bWriteDefine`, `nvLocked`, the DIR and the physical-presence
  enable flags are permanent and every command that changes them stores.

  No area ever has the index TPM_NV_INDEX_LOCK (0xFFFFFFFF marks a free slot in the C array; `nvDefine` refuses it), so
  `lookup` of that index finds nothing, as `TPM_NVIndexEntries_GetEntry` answers TPM_BADINDEX for it.

  Authorization is availability only: an owner-authorized command carries `Tag.auth1 ok`, `ok` = the client built
  a correct HMAC (the cryptographic side is not modelled here).  pcrInfoRead / pcrInfoWrite carry a locality
  selection and NO PCR selection (the histories never bind an area to PCR values).  The TPM is enabled and
  activated (build default).  Constants, permission bits, limits and error codes come from `Gen.Tpm12`.
-/
namespace TpmVerif.Model.Tpm12.Nv
open TpmVerif.Gen.Tpm12

abbrev Bytes := List UInt8

def zeros20 : Bytes := List.replicate 20 0

/-- one defined area: `TPM_NV_DATA_SENSITIVE` -/
structure Area where
  index : Nat
  attrs : Nat                          -- pubInfo.permission.attributes
  size : Nat                           -- pubInfo.dataSize
  locRead : Nat := TPM_LOC_ALL         -- pubInfo.pcrInfoRead.localityAtRelease
  locWrite : Nat := TPM_LOC_ALL        -- pubInfo.pcrInfoWrite.localityAtRelease
  data : Bytes
  readSt : Bool := false               -- pubInfo.bReadSTClear
  writeSt : Bool := false              -- pubInfo.bWriteSTClear
  writeDef : Bool := false             -- pubInfo.bWriteDefine
deriving Repr, DecidableEq

/-- the part of the permanent state (`TPM_PermanentAll_Store`) the NV services read -/
structure Perm where
  areas : List Area := []
  nvLocked : Bool := initNvLocked                 -- tpm_permanent_flags.nvLocked
  dir : Bytes := zeros20                          -- tpm_permanent_data.authDIR
  noOwnerWrites : Nat := 0                        -- tpm_permanent_data.noOwnerNVWrite
  ppCmd : Bool := initPpCmdEnable                 -- physicalPresenceCMDEnable
  ppHw : Bool := initPpHwEnable                   -- physicalPresenceHWEnable
  ppLife : Bool := initPpLifetimeLock             -- physicalPresenceLifetimeLock
  ownerInstalled : Bool := false                  -- tpm_permanent_data.ownerInstalled
deriving Repr, DecidableEq

/-- the NV-relevant part of the `TPM_SaveState` blob -/
structure Saved where
  globalLock : Bool
  pp : Bool
  ppLock : Bool
  flags : List (Bool × Bool)           -- (bReadSTClear, bWriteSTClear) of the used slots, by position
deriving Repr, DecidableEq

structure St where
  mem : Perm := {}
  sto : Perm := {}
  globalLock : Bool := false           -- tpm_stclear_flags.bGlobalLock
  pp : Bool := false                   -- tpm_stclear_flags.physicalPresence
  ppLock : Bool := false               -- tpm_stclear_flags.physicalPresenceLock
  postInit : Bool := true              -- tpm_stany_flags.postInitialise
  failed : Bool := false               -- testState == TPM_TEST_STATE_FAILURE
  stateSaved : Bool := false           -- tpm_stany_flags.stateSaved
  saved : Option Saved := none         -- the save-state blob in storage
deriving Repr, DecidableEq

/-- a brand new TPM after its first `TPM_MainInit` -/
def fresh : St := {}

def has (attrs bit : Nat) : Bool := attrs &&& bit != 0

def lookup (p : Perm) (idx : Nat) : Option Area := p.areas.find? (·.index == idx)

def remove (p : Perm) (idx : Nat) : Perm := { p with areas := p.areas.filter (·.index != idx) }

/-- replace the first area with `a.index` (the one `TPM_NVIndexEntries_GetEntry` finds) -/
def setFirst : List Area → Area → List Area
  | [], _ => []
  | b :: bs, a => if b.index == a.index then a :: bs else b :: setFirst bs a

def setArea (p : Perm) (a : Area) : Perm := { p with areas := setFirst p.areas a }

/-- `TPM_Locality_Check` for localities 0..4 -/
def locAllowed (sel loc : Nat) : Bool := sel.testBit loc

/-- `TPM_Global_GetPhysicalPresence`: the command-asserted flag if command presence is enabled, else the hardware
    signal `hw` if hardware presence is enabled -/
def presence (s : St) (hw : Bool) : Bool := (s.mem.ppCmd && s.pp) || (s.mem.ppHw && hw)

/-- `TPM_CheckState` as far as these ordinals are concerned (enabled, activated) -/
def checkState (s : St) : Nat :=
  if s.failed then TPM_FAILEDSELFTEST else if s.postInit then TPM_INVALID_POSTINIT else 0

/-- request tag: no authorization, or one owner authorization whose HMAC is correct / not correct -/
inductive Tag
  | rqu
  | auth1 (ok : Bool)
deriving Repr, DecidableEq

def Tag.isRqu : Tag → Bool
  | .rqu => true
  | _ => false

def Tag.authBad : Tag → Bool
  | .auth1 false => true
  | _ => false

/-! ### write-through and rollback: `TPM_PermanentAll_NVStore(writeAllNV, rcIn)` -/

def store (s : St) : St := { s with sto := s.mem }

/-- rollback: the permanent structures are re-read from storage; the volatile flags of every area that still
    exists in memory are carried over by index (`TPM_NVIndexEntries_GetVolatile/SetVolatile`), an area that the
    failing ordinal had already deleted comes back with the flags of the stored copy -/
def rollback (s : St) : St :=
  let keep (a : Area) : Area :=
    match lookup s.mem a.index with
    | some m => { a with readSt := m.readSt, writeSt := m.writeSt }
    | none => a
  { s with mem := { s.sto with areas := s.sto.areas.map keep } }

def nvStore (s : St) (writeAll : Bool) (rc : Nat) : St :=
  if writeAll then (if rc = 0 then store s else rollback s) else s

structure Obs where
  rc : Nat
  out : Bytes := []
  stored : Bool := false               -- the command handed the permanent state to the storage callback
deriving Repr, DecidableEq

def be16 (n : Nat) : Bytes := [UInt8.ofNat (n / 256), UInt8.ofNat n]
def be32 (n : Nat) : Bytes := [UInt8.ofNat (n / 16777216), UInt8.ofNat (n / 65536), UInt8.ofNat (n / 256), UInt8.ofNat n]
def M32 : Nat := 4294967296

/-! ### TPM_NV_ReadValue -/

/-- the checks of an ordinal, in the order the C code makes them: the first one that fires gives the return code -/
def firstRefusal : List (Bool × Nat) → Nat
  | [] => 0
  | (c, r) :: rest => if c then r else firstRefusal rest

/-- every check of `TPM_Process_NVReadValue` on a defined area, in the order of the C code; 0 = the read goes ahead -/
def readChecks (s : St) (tag : Tag) (loc : Nat) (hw : Bool) (a : Area) (off n : Nat) : List (Bool × Nat) :=
  let ignore := !s.mem.nvLocked
  [ (!tag.isRqu && !has a.attrs TPM_NV_PER_OWNERREAD, TPM_AUTH_CONFLICT),
    (tag.authBad && !ignore, TPM_AUTHFAIL),
    (tag.isRqu && has a.attrs TPM_NV_PER_AUTHREAD, TPM_AUTH_CONFLICT),
    (tag.isRqu && !ignore && has a.attrs TPM_NV_PER_OWNERREAD, TPM_AUTH_CONFLICT),
    (!ignore && has a.attrs TPM_NV_PER_PPREAD && !presence s hw, TPM_BAD_PRESENCE),
    (!ignore && has a.attrs TPM_NV_PER_READ_STCLEAR && a.readSt, TPM_DISABLED_CMD),
    (!ignore && a.locRead != TPM_LOC_ALL && !locAllowed a.locRead loc, TPM_BAD_LOCALITY),
    (n != 0 && (decide (off + n ≥ M32) || decide (off + n > a.size)), TPM_NOSPACE) ]

def readRefusal (s : St) (tag : Tag) (loc : Nat) (hw : Bool) (a : Area) (off n : Nat) : Nat :=
  firstRefusal (readChecks s tag loc hw a off n)

/-- the DIR pseudo index: no permission checks at all (the DIR has no bReadSTClear either); the range offset + dataSize
    is checked against the 20 bytes also when dataSize is 0 (the code has no size-0 case for the DIR) -/
def readRefusalDir (s : St) (tag : Tag) (off n : Nat) : Nat :=
  firstRefusal [ (tag.authBad && s.mem.nvLocked, TPM_AUTHFAIL),
                 (decide (off + n ≥ M32) || decide (off + n > TPM_DIGEST_SIZE), TPM_NOSPACE) ]

def slice (d : Bytes) (off n : Nat) : Bytes := (d.drop off).take n

def nvRead (s : St) (tag : Tag) (loc : Nat) (hw : Bool) (idx off n : Nat) : St × Obs :=
  let cs := checkState s
  if cs ≠ 0 then (s, { rc := cs }) else
  if idx = TPM_NV_INDEX_DIR then
    let r := readRefusalDir s tag off n
    if r ≠ 0 then (s, { rc := r }) else (s, { rc := 0, out := be32 n ++ slice s.mem.dir off n })
  else
  match lookup s.mem idx with
  | none => (s, { rc := TPM_BADINDEX })
  | some a =>
    let r := readRefusal s tag loc hw a off n
    if r ≠ 0 then (s, { rc := r }) else
    if n = 0 then
      -- a read of size 0 sets bReadSTClear: in memory only, nothing is stored
      ({ s with mem := setArea s.mem { a with readSt := true } }, { rc := 0, out := be32 0 })
    else (s, { rc := 0, out := be32 n ++ slice a.data off n })

/-! ### TPM_NV_WriteValue -/

/-- the checks of `TPM_Process_NVWriteValue` for a defined area, in the order of the C code -/
def writeChecks (s : St) (tag : Tag) (loc : Nat) (hw : Bool) (a : Area) (off len : Nat) : List (Bool × Nat) :=
  let ignore := !s.mem.nvLocked
  [ (!tag.isRqu && !has a.attrs TPM_NV_PER_OWNERWRITE, TPM_AUTH_CONFLICT),
    (tag.authBad, TPM_AUTHFAIL),
    (tag.isRqu && !ignore && has a.attrs TPM_NV_PER_OWNERWRITE, TPM_AUTH_CONFLICT),
    (tag.isRqu && decide (s.mem.noOwnerWrites + 1 > TPM_MAX_NV_WRITE_NOOWNER), TPM_MAXNVWRITES),
    (has a.attrs TPM_NV_PER_AUTHWRITE, TPM_AUTH_CONFLICT),
    (!ignore && has a.attrs TPM_NV_PER_PPWRITE && !presence s hw, TPM_BAD_PRESENCE),
    (!ignore && has a.attrs TPM_NV_PER_WRITEDEFINE && a.writeDef, TPM_AREA_LOCKED),
    (!ignore && has a.attrs TPM_NV_PER_GLOBALLOCK && s.globalLock, TPM_AREA_LOCKED),
    (!ignore && has a.attrs TPM_NV_PER_WRITE_STCLEAR && a.writeSt, TPM_AREA_LOCKED),
    (!ignore && a.locWrite != TPM_LOC_ALL && !locAllowed a.locWrite loc, TPM_BAD_LOCALITY),
    (len != 0 && (decide (off + len ≥ M32) || decide (off + len > a.size)), TPM_NOSPACE),
    (len != 0 && has a.attrs TPM_NV_PER_WRITEALL && len != a.size, TPM_NOT_FULLWRITE) ]

def writeRefusal (s : St) (tag : Tag) (loc : Nat) (hw : Bool) (a : Area) (off len : Nat) : Nat :=
  firstRefusal (writeChecks s tag loc hw a off len)

/-- the bytes of `d` with `w` written at `off` (the caller has checked `off + w.length ≤ d.length`) -/
def patch (d : Bytes) (off : Nat) (w : Bytes) : Bytes := d.take off ++ w ++ d.drop (off + w.length)

/-- the checks for the pseudo index TPM_NV_INDEX_DIR (always owner-write, must be written as a whole) -/
def writeRefusalDir (s : St) (tag : Tag) (off len : Nat) : Nat :=
  firstRefusal [ (tag.authBad, TPM_AUTHFAIL),
                 (tag.isRqu && s.mem.nvLocked, TPM_AUTH_CONFLICT),
                 (tag.isRqu && decide (s.mem.noOwnerWrites + 1 > TPM_MAX_NV_WRITE_NOOWNER), TPM_MAXNVWRITES),
                 (len != 0 && (off != 0 || len != TPM_DIGEST_SIZE), TPM_NOT_FULLWRITE) ]

/-- noOwnerNVWrite is advanced only when the command stores, and only for commands without owner authorization -/
def bump (p : Perm) (tag : Tag) : Perm := if tag.isRqu then { p with noOwnerWrites := p.noOwnerWrites + 1 } else p

def nvWrite (s : St) (tag : Tag) (loc : Nat) (hw : Bool) (idx off : Nat) (d : Bytes) : St × Obs :=
  let cs := checkState s
  if cs ≠ 0 then (s, { rc := cs }) else
  if idx = TPM_NV_INDEX0 then
    if tag.authBad then (s, { rc := TPM_AUTHFAIL })
    else if d.length ≠ 0 then (s, { rc := TPM_BADINDEX })
    else ({ s with globalLock := true }, { rc := 0 })
  else if idx = TPM_NV_INDEX_DIR then
    let r := writeRefusalDir s tag off d.length
    if r ≠ 0 then (s, { rc := r }) else
    if d.length = 0 then (s, { rc := 0 })
    else (store { s with mem := bump { s.mem with dir := d } tag }, { rc := 0, stored := true })
  else
  match lookup s.mem idx with
  | none => (s, { rc := TPM_BADINDEX })
  | some a =>
    let r := writeRefusal s tag loc hw a off d.length
    if r ≠ 0 then (s, { rc := r }) else
    if d.length = 0 then
      -- size 0: bWriteSTClear and bWriteDefine are set; stored only when bWriteDefine changes ("save wearout");
      -- a successful write also clears bReadSTClear
      let a' := { a with writeSt := true, writeDef := true, readSt := false }
      if a.writeDef then ({ s with mem := setArea s.mem a' }, { rc := 0 })
      else (store { s with mem := bump (setArea s.mem a') tag }, { rc := 0, stored := true })
    else
      -- "wearout optimization": nothing is copied or stored when the bytes are already there
      if slice a.data off d.length = d then ({ s with mem := setArea s.mem { a with readSt := false } }, { rc := 0 })
      else (store { s with mem := bump (setArea s.mem { a with data := patch a.data off d, readSt := false }) tag },
            { rc := 0, stored := true })

/-! ### TPM_NV_WriteValueAuth / TPM_NV_ReadValueAuth (authorized with the area's own authValue; `ok` = HMAC correct)

    These ordinals use `TPM_CHECK_ALL` (an owner must be installed) and honour every permission check whatever
    nvLocked says. -/

def checkStateOwner (s : St) : Nat :=
  let cs := checkState s
  if cs ≠ 0 then cs else if !s.mem.ownerInstalled then TPM_NOSRK else 0

def writeAuthChecks (s : St) (ok : Bool) (loc : Nat) (hw : Bool) (a : Area) (off len : Nat) : List (Bool × Nat) :=
  [ (!has a.attrs TPM_NV_PER_AUTHWRITE, TPM_AUTH_CONFLICT),
    (!ok, TPM_AUTHFAIL),
    (has a.attrs TPM_NV_PER_PPWRITE && !presence s hw, TPM_BAD_PRESENCE),
    (a.locWrite != TPM_LOC_ALL && !locAllowed a.locWrite loc, TPM_BAD_LOCALITY),
    (has a.attrs TPM_NV_PER_WRITEDEFINE && a.writeDef, TPM_AREA_LOCKED),
    (has a.attrs TPM_NV_PER_GLOBALLOCK && s.globalLock, TPM_AREA_LOCKED),
    (has a.attrs TPM_NV_PER_WRITE_STCLEAR && a.writeSt, TPM_AREA_LOCKED),
    (len != 0 && (decide (off + len ≥ M32) || decide (off + len > a.size)), TPM_NOSPACE),
    (len != 0 && has a.attrs TPM_NV_PER_WRITEALL && len != a.size, TPM_NOT_FULLWRITE) ]

def writeAuthRefusal (s : St) (ok : Bool) (loc : Nat) (hw : Bool) (a : Area) (off len : Nat) : Nat :=
  firstRefusal (writeAuthChecks s ok loc hw a off len)

def nvWriteAuth (s : St) (ok : Bool) (loc : Nat) (hw : Bool) (idx off : Nat) (d : Bytes) : St × Obs :=
  let cs := checkStateOwner s
  if cs ≠ 0 then (s, { rc := cs }) else
  match lookup s.mem idx with
  | none => (s, { rc := TPM_BADINDEX })
  | some a =>
    let r := writeAuthRefusal s ok loc hw a off d.length
    if r ≠ 0 then (s, { rc := r }) else
    if d.length = 0 then
      let a' := { a with writeSt := true, writeDef := true, readSt := false }
      if a.writeDef then ({ s with mem := setArea s.mem a' }, { rc := 0 })
      else (store { s with mem := setArea s.mem a' }, { rc := 0, stored := true })
    else
      if slice a.data off d.length = d then ({ s with mem := setArea s.mem { a with readSt := false } }, { rc := 0 })
      else (store { s with mem := setArea s.mem { a with data := patch a.data off d, readSt := false } }, { rc := 0, stored := true })

def readAuthChecks (s : St) (ok : Bool) (loc : Nat) (hw : Bool) (a : Area) (off n : Nat) : List (Bool × Nat) :=
  [ (!has a.attrs TPM_NV_PER_AUTHREAD, TPM_AUTH_CONFLICT),
    (!ok, TPM_AUTHFAIL),
    (has a.attrs TPM_NV_PER_PPREAD && !presence s hw, TPM_BAD_PRESENCE),
    (a.locRead != TPM_LOC_ALL && !locAllowed a.locRead loc, TPM_BAD_LOCALITY),
    (has a.attrs TPM_NV_PER_READ_STCLEAR && a.readSt, TPM_DISABLED_CMD),
    (n != 0 && (decide (off + n ≥ M32) || decide (off + n > a.size)), TPM_NOSPACE) ]

def readAuthRefusal (s : St) (ok : Bool) (loc : Nat) (hw : Bool) (a : Area) (off n : Nat) : Nat :=
  firstRefusal (readAuthChecks s ok loc hw a off n)

def nvReadAuth (s : St) (ok : Bool) (loc : Nat) (hw : Bool) (idx off n : Nat) : St × Obs :=
  let cs := checkStateOwner s
  if cs ≠ 0 then (s, { rc := cs }) else
  match lookup s.mem idx with
  | none => (s, { rc := TPM_BADINDEX })
  | some a =>
    let r := readAuthRefusal s ok loc hw a off n
    if r ≠ 0 then (s, { rc := r }) else
    if n = 0 then ({ s with mem := setArea s.mem { a with readSt := true } }, { rc := 0, out := be32 0 })
    else (s, { rc := 0, out := be32 n ++ slice a.data off n })

/-- a successful TPM_TakeOwnership: an owner is installed and the permanent state is stored -/
def takeOwnership (s : St) : St × Obs :=
  (store { s with mem := { s.mem with ownerInstalled := true } }, { rc := 0, stored := true })

/-! ### TPM_NV_DefineSpace -/

/-- NV space the defined areas consume (`TPM_NVIndexEntries_GetUsedSpace`) -/
def usedSpace (p : Perm) : Nat := nvBaseSpace + (p.areas.map fun a => nvAreaOverhead + a.size).sum

/-- checks before the old area (if any) is deleted -/
def defineChecks1 (s : St) (tag : Tag) (hw : Bool) (idx size : Nat) : List (Bool × Nat) :=
  let ignore := !s.mem.nvLocked
  let old := lookup s.mem idx
  [ (idx == TPM_NV_INDEX0, TPM_BADINDEX),
    (!ignore && has idx TPM_NV_INDEX_D_BIT, TPM_BADINDEX),
    (tag.authBad, TPM_AUTHFAIL),
    (tag.isRqu && !ignore && !presence s hw, TPM_BAD_PRESENCE),
    (tag.isRqu && !ignore && s.mem.ownerInstalled, TPM_OWNER_SET),
    (tag.isRqu && !ignore && size == 0, TPM_BAD_DATASIZE),
    (tag.isRqu && decide (s.mem.noOwnerWrites + 1 > TPM_MAX_NV_WRITE_NOOWNER), TPM_MAXNVWRITES),
    (old.any fun o => !ignore && has o.attrs TPM_NV_PER_GLOBALLOCK && s.globalLock, TPM_AREA_LOCKED),
    (old.any fun o => !ignore && has o.attrs TPM_NV_PER_WRITE_STCLEAR && o.writeSt, TPM_AREA_LOCKED) ]

def defineRefusal1 (s : St) (tag : Tag) (hw : Bool) (idx size : Nat) : Nat := firstRefusal (defineChecks1 s tag hw idx size)

/-- checks on the new area, made after the old one is gone (`p` = the in-memory state without the old area) -/
def defineChecks2 (p : Perm) (idx attrs size locRead : Nat) : List (Bool × Nat) :=
  [ (has attrs TPM_NV_PER_OWNERWRITE && has attrs TPM_NV_PER_AUTHWRITE, TPM_AUTH_CONFLICT),
    (has attrs TPM_NV_PER_OWNERREAD && has attrs TPM_NV_PER_AUTHREAD, TPM_AUTH_CONFLICT),
    -- (the code looks at pcrInfoRead where the specification says pcrInfoWrite)
    (!has attrs TPM_NV_PER_OWNERWRITE && !has attrs TPM_NV_PER_AUTHWRITE && !has attrs TPM_NV_PER_WRITEDEFINE &&
       !has attrs TPM_NV_PER_PPWRITE && locRead == TPM_LOC_ALL, TPM_PER_NOWRITE),
    (idx == TPM_NV_INDEX_LOCK || idx == TPM_NV_INDEX0 || idx == TPM_NV_INDEX_DIR, TPM_BADINDEX),
    (has idx TPM_NV_INDEX_RESVD, TPM_BADINDEX),
    (size == 0, TPM_BAD_PARAM_SIZE),
    (decide (size > TPM_ALLOC_MAX), TPM_SIZE),
    (decide (usedSpace p + nvAreaOverhead + size > TPM_ALLOC_MAX), TPM_SIZE),
    (decide (usedSpace p + nvAreaOverhead + size > TPM_MAX_NV_DEFINED_SIZE), TPM_NOSPACE) ]

def defineRefusal2 (p : Perm) (idx attrs size locRead : Nat) : Nat := firstRefusal (defineChecks2 p idx attrs size locRead)

def legalLoc (l : Nat) : Bool := l ≠ 0 && l ≤ TPM_LOC_ALL

def isGpio (idx : Nat) : Bool := TPM_NV_INDEX_GPIO_START ≤ idx && idx ≤ TPM_NV_INDEX_GPIO_END

def newArea (idx attrs size lr lw : Nat) : Area :=
  { index := idx, attrs := attrs, size := size, locRead := lr, locWrite := lw, data := List.replicate size 0xff }

def nvDefine (s : St) (tag : Tag) (hw : Bool) (idx attrs size lr lw : Nat) : St × Obs :=
  -- TPM_NVDataPublic_Load: illegal locality selections are refused while parsing
  if !legalLoc lr || !legalLoc lw then (s, { rc := TPM_INVALID_STRUCTURE }) else
  let cs := checkState s
  if cs ≠ 0 then (s, { rc := cs }) else
  if idx = TPM_NV_INDEX_LOCK && tag.isRqu then
    if size ≠ 0 then (s, { rc := TPM_BADINDEX })
    else if s.mem.nvLocked then (s, { rc := 0 })
    else (store { s with mem := { s.mem with nvLocked := true } }, { rc := 0, stored := true })
  else
  let r1 := defineRefusal1 s tag hw idx size
  if r1 ≠ 0 then (s, { rc := r1 }) else
  let old := lookup s.mem idx
  let s1 : St := { s with mem := remove s.mem idx }           -- 6.d: the old area is deleted (nothing if there is none)
  if old.isSome && size = 0 then (store { s1 with mem := bump s1.mem tag }, { rc := 0, stored := true }) else
  let r2 := defineRefusal2 s1.mem idx attrs size lr
  if r2 ≠ 0 then (nvStore s1 old.isSome r2, { rc := r2 }) else
  if idx = TPM_NV_INDEX_TRIAL then
    -- trial: nothing is defined; noOwnerNVWrite is advanced in memory without a store
    (nvStore { s1 with mem := bump s1.mem tag } old.isSome 0, { rc := 0, stored := old.isSome })
  else
  (store { s1 with mem := bump { s1.mem with areas := s1.mem.areas ++ [newArea idx attrs size lr lw] } tag }, { rc := 0, stored := true })

/-! ### TSC_PhysicalPresence -/

def ppA1 : Nat := TPM_PHYSICAL_PRESENCE_LIFETIME_LOCK ||| TPM_PHYSICAL_PRESENCE_HW_ENABLE ||| TPM_PHYSICAL_PRESENCE_CMD_ENABLE |||
  TPM_PHYSICAL_PRESENCE_HW_DISABLE ||| TPM_PHYSICAL_PRESENCE_CMD_DISABLE
def ppA2 : Nat := TPM_PHYSICAL_PRESENCE_LOCK ||| TPM_PHYSICAL_PRESENCE_PRESENT ||| TPM_PHYSICAL_PRESENCE_NOTPRESENT

/-- the lifetime settings (A1): new values of physicalPresenceHWEnable / CMDEnable / LifetimeLock -/
def ppLifetime (p : Perm) (v : Nat) : Perm :=
  { p with
    ppHw := if has v TPM_PHYSICAL_PRESENCE_HW_ENABLE then true else if has v TPM_PHYSICAL_PRESENCE_HW_DISABLE then false else p.ppHw
    ppCmd := if has v TPM_PHYSICAL_PRESENCE_CMD_ENABLE then true else if has v TPM_PHYSICAL_PRESENCE_CMD_DISABLE then false else p.ppCmd
    ppLife := has v TPM_PHYSICAL_PRESENCE_LIFETIME_LOCK || p.ppLife }

/-- the assertion settings (A2) on TPM_STCLEAR_FLAGS: LOCK, then PRESENT, then NOTPRESENT -/
def ppAssert (s : St) (v : Nat) : St :=
  { s with
    pp := if has v TPM_PHYSICAL_PRESENCE_NOTPRESENT then false else if has v TPM_PHYSICAL_PRESENCE_PRESENT then true
          else if has v TPM_PHYSICAL_PRESENCE_LOCK then false else s.pp
    ppLock := has v TPM_PHYSICAL_PRESENCE_LOCK || s.ppLock }

def tscPP (s : St) (v : Nat) : St × Obs :=
  let cs := checkState s
  if cs ≠ 0 then (s, { rc := cs }) else
  let bad : St × Obs := (s, { rc := TPM_BAD_PARAMETER })
  if v &&& TPM_PHYSICAL_PRESENCE_MASK ≠ 0 then bad else
  if v &&& ppA1 ≠ 0 then
    if s.mem.ppLife then bad
    else if v &&& ppA2 ≠ 0 then bad
    else if has v TPM_PHYSICAL_PRESENCE_HW_ENABLE && has v TPM_PHYSICAL_PRESENCE_HW_DISABLE then bad
    else if has v TPM_PHYSICAL_PRESENCE_CMD_ENABLE && has v TPM_PHYSICAL_PRESENCE_CMD_DISABLE then bad
    else
      -- TPM_SetCapability_Flag: stored only when a flag changed
      let changed := (ppLifetime s.mem v).ppHw != s.mem.ppHw || (ppLifetime s.mem v).ppCmd != s.mem.ppCmd ||
                     (ppLifetime s.mem v).ppLife != s.mem.ppLife
      if changed then (store { s with mem := ppLifetime s.mem v }, { rc := 0, stored := true }) else (s, { rc := 0 })
  else if v &&& ppA2 ≠ 0 then
    if !s.mem.ppCmd then bad
    else if has v TPM_PHYSICAL_PRESENCE_LOCK && has v TPM_PHYSICAL_PRESENCE_PRESENT then bad
    else if has v TPM_PHYSICAL_PRESENCE_PRESENT && has v TPM_PHYSICAL_PRESENCE_NOTPRESENT then bad
    else if s.ppLock then bad
    else (ppAssert s v, { rc := 0 })
  else bad

/-! ### Startup, SaveState, power cycle, suspend/resume -/

def clearStFlags (p : Perm) : Perm := { p with areas := p.areas.map fun a => { a with readSt := false, writeSt := false } }

/-- `TPM_NVIndexEntries_LoadVolatile`: flags by position -/
def applyFlags : List Area → List (Bool × Bool) → List Area
  | a :: as, f :: fs => { a with readSt := f.1, writeSt := f.2 } :: applyFlags as fs
  | as, _ => as

def startup (s : St) (stType : Nat) : St × Obs :=
  -- whatever happens: the saved state is deleted and postInitialise becomes FALSE
  let done (s : St) : St := { s with postInit := false, saved := none, stateSaved := false }
  if !s.postInit then (done s, { rc := TPM_INVALID_POSTINIT }) else
  if s.failed then (done s, { rc := TPM_FAILEDSELFTEST })
  else if stType = TPM_ST_CLEAR then (done { s with mem := clearStFlags s.mem }, { rc := 0 })
  else if stType = TPM_ST_STATE then
    match s.saved with
    | none => (done { s with failed := true }, { rc := TPM_FAILEDSELFTEST })
    | some sv =>
      if sv.flags.length ≠ s.mem.areas.length then (done { s with failed := true }, { rc := TPM_FAILEDSELFTEST })
      else (done { s with globalLock := sv.globalLock, pp := sv.pp, ppLock := sv.ppLock,
                          mem := { s.mem with areas := applyFlags s.mem.areas sv.flags } }, { rc := 0 })
  else (done s, { rc := TPM_BAD_PARAMETER })      -- ST_DEACTIVATED is outside this model (never sent)

def saveState (s : St) : St × Obs :=
  let cs := checkState s
  if cs ≠ 0 then (s, { rc := cs }) else
  ({ s with stateSaved := true,
            saved := some { globalLock := s.globalLock, pp := s.pp, ppLock := s.ppLock,
                            flags := s.mem.areas.map fun a => (a.readSt, a.writeSt) } }, { rc := 0 })

/-- `TPM_Process_Preprocess`: any ordinal other than TPM_Startup / TPM_Init invalidates the saved state -/
def invalidateSaved (s : St) : St := if s.stateSaved then { s with stateSaved := false, saved := none } else s

/-- power cycle: `TPMLIB_Terminate` + `TPMLIB_MainInit` from what the storage callback holds -/
def powerCycle (s : St) : St :=
  { mem := s.sto, sto := s.sto, saved := s.saved }

/-- suspend/resume through the permanent and volatile state blobs: the in-memory state is what is serialized,
    and `TPM_MainInit` writes the set permanent state back to storage -/
def resume (s : St) : St := { s with sto := s.mem }

/-- `TPM_NV_DATA_PUBLIC` as `TPM_GetCapability(TPM_CAP_NV_INDEX)` serializes it (no PCR selected, sizeOfSelect 3) -/
def pubBytes (a : Area) : Bytes :=
  let pcrInfo (l : Nat) : Bytes := be16 3 ++ [0, 0, 0] ++ [UInt8.ofNat l] ++ zeros20
  let b (x : Bool) : UInt8 := if x then 1 else 0
  be16 TPM_TAG_NV_DATA_PUBLIC ++ be32 a.index ++ pcrInfo a.locRead ++ pcrInfo a.locWrite ++
  be16 TPM_TAG_NV_ATTRIBUTES ++ be32 a.attrs ++ [b a.readSt, b a.writeSt, b a.writeDef] ++ be32 a.size

inductive Op
  | startup (stType : Nat)
  | tscPP (v : Nat)
  | define (tag : Tag) (hw : Bool) (idx attrs size lr lw : Nat)
  | write (tag : Tag) (loc : Nat) (hw : Bool) (idx off : Nat) (d : Bytes)
  | read (tag : Tag) (loc : Nat) (hw : Bool) (idx off n : Nat)
  | writeAuth (ok : Bool) (loc : Nat) (hw : Bool) (idx off : Nat) (d : Bytes)
  | readAuth (ok : Bool) (loc : Nat) (hw : Bool) (idx off n : Nat)
  | takeOwnership                       -- a TPM_TakeOwnership that succeeded
  | stored                              -- some other ordinal stored the permanent state (e.g. tpmEstablished changed)
  | saveState
  | getPub (idx : Nat)                  -- TPM_GetCapability(TPM_CAP_NV_INDEX)
  | other                               -- any other ordinal
  | powerCycle
  | resume
deriving Repr

def step (s : St) : Op → St × Obs
  | .startup t => startup s t
  | .powerCycle => (powerCycle s, { rc := 0 })
  | .resume => (resume s, { rc := 0 })
  | .tscPP v => tscPP (invalidateSaved s) v
  | .define tag hw idx attrs size lr lw => nvDefine (invalidateSaved s) tag hw idx attrs size lr lw
  | .write tag loc hw idx off d => nvWrite (invalidateSaved s) tag loc hw idx off d
  | .read tag loc hw idx off n => nvRead (invalidateSaved s) tag loc hw idx off n
  | .writeAuth ok loc hw idx off d => nvWriteAuth (invalidateSaved s) ok loc hw idx off d
  | .readAuth ok loc hw idx off n => nvReadAuth (invalidateSaved s) ok loc hw idx off n
  | .takeOwnership => takeOwnership (invalidateSaved s)
  | .stored => (store s, { rc := 0, stored := true })
  | .saveState => saveState (invalidateSaved s)
  | .getPub idx =>
      let s := invalidateSaved s
      -- TPM_GetCapability: postInitialise is checked first, then the failed state (this capability is not one of
      -- those a failed TPM still reports)
      if s.postInit then (s, { rc := TPM_INVALID_POSTINIT }) else
      if s.failed then (s, { rc := TPM_FAILEDSELFTEST }) else
      match lookup s.mem idx with
      | none => (s, { rc := TPM_BADINDEX })
      | some a => (s, { rc := 0, out := be32 (pubBytes a).length ++ pubBytes a })
  | .other => (invalidateSaved s, { rc := 0 })

def run (s : St) (ops : List Op) : St := ops.foldl (fun st op => (step st op).1) s

end TpmVerif.Model.Tpm12.Nv
