import TpmVerif.Gen.Tpm12
import TpmVerif.Model.Sha1
/-!
  Model of the TPM 1.2 PCR / SHA-1-thread / TIS-hash services, written to follow the C code that exists:
  `tpm12/tpm_pcr.c` (`TPM_ExtendCommon`, `TPM_Process_Extend`, `TPM_Process_PcrRead`, `TPM_Process_PcrReset`,
  `TPM_Locality_Check`, `TPM_PCR_Reset`), `tpm12/tpm_cryptoh.c` (`TPM_Process_SHA1Start/Update/Complete/
  CompleteExtend`, `TPM_SHA1CompleteCommon`), `tpm12/tpm_process.c` (`TPM_Check_SHA1Context`, `TPM_CheckState`),
  `tpm12/tpm_startup.c` (`TPM_Process_Startup`), `tpm_tpm12_tis.c` (`TPM12_IO_Hash_Start/Data/End`).

  The hash used by extend is a parameter `Hash` (theorems hold for every function); the SHA-1 thread uses the
  streaming SHA-1 of `Model.Sha1`.  PCR attributes, initial and reset values and the error codes come from
  `Gen.Tpm12`.  Commands are assumed well-framed (tag 0x00C1, exact sizes): framing is C18's subject.
  The TPM is assumed enabled and activated (the build's TPM_ENABLE_ACTIVATE default; the C20 histories never
  disable it), so `outDigest` is the new PCR value.
-/
namespace TpmVerif.Model.Tpm12.Core
open TpmVerif.Gen.Tpm12
open TpmVerif.Model

abbrev Bytes := List UInt8
abbrev Hash := Bytes → Bytes

def zeros20 : Bytes := List.replicate 20 0
def fill20 (b : Nat) : Bytes := List.replicate 20 (UInt8.ofNat b)

structure St where
  pcrs : List Bytes                   -- tpm_stclear_data.PCRS
  tos : Bool := false                 -- tpm_stany_flags.TOSPresent
  sha : Option Sha1.St := none        -- tpm_state->sha1_context (the ordinal thread)
  tis : Option Sha1.St := none        -- tpm_state->sha1_context_tis
  established : Bool := false         -- tpm_permanent_flags.tpmEstablished
  failed : Bool := false              -- testState == TPM_TEST_STATE_FAILURE
  postInit : Bool := true             -- tpm_stany_flags.postInitialise
  bufMax : Nat := TPM_BUFFER_MAX      -- TPM12_GetBufferSize()
  saved : Option (List Bytes) := none -- PCR part of the TPM_SaveState blob in storage (non-resettable PCRs are restored from it)
  stateSaved : Bool := false          -- tpm_stany_flags.stateSaved
deriving Repr, DecidableEq

/-- PCR values after `TPM_MainInit` (`TPM_PCR_Init` for every index) -/
def initPcrs : List Bytes := pcrInitByte.map fill20

/-- power-on: `TPM_MainInit` (the permanent flag `tpmEstablished` comes from the stored state) -/
def powerOn (established : Bool) (bufMax : Nat) : St :=
  { pcrs := initPcrs, established := established, bufMax := bufMax }

def pcr (s : St) (i : Nat) : Bytes := s.pcrs.getD i []
def setPcr (s : St) (i : Nat) (v : Bytes) : St := { s with pcrs := s.pcrs.set i v }

def attr (i : Nat) : Bool × Nat × Nat := pcrAttrib.getD i (false, 0, 0)
def canReset (i : Nat) : Bool := (attr i).1
def resetLocal (i : Nat) : Nat := (attr i).2.1
def extendLocal (i : Nat) : Nat := (attr i).2.2

/-- `TPM_Locality_Check` for localities 0..4: is bit `loc` set in the selection byte? -/
def locAllowed (sel loc : Nat) : Bool := sel.testBit loc

/-- value `TPM_PCR_Reset` stores -/
def resetValue (tos : Bool) (i : Nat) : Bytes :=
  fill20 ((if tos then pcrResetByteTos else pcrResetByteNoTos).getD i 0)

/-- `TPM_CheckState` for the ordinals modelled here (flags NOT_SHUTDOWN …): failed state, then postInitialise -/
def checkState (s : St) : Nat :=
  if s.failed then TPM_FAILEDSELFTEST else if s.postInit then TPM_INVALID_POSTINIT else 0

/-- the refusals of `TPM_ExtendCommon` in the order the C code tests them (0 = extend goes ahead) -/
def extendRefusal (s : St) (loc i : Nat) : Nat :=
  if i ≥ TPM_NUM_PCR then TPM_BADINDEX
  else if !locAllowed (extendLocal i) loc then TPM_BAD_LOCALITY
  else if i = TPM_LOCALITY_4_PCR && loc ≠ 4 && pcr s i == zeros20 then TPM_BAD_LOCALITY
  else 0

/-- `TPM_ExtendCommon`: return code and the state with the PCR replaced by `H(old ‖ digest)` -/
def extendCommon (H : Hash) (s : St) (loc i : Nat) (d : Bytes) : Nat × St :=
  let r := extendRefusal s loc i
  if r ≠ 0 then (r, s) else (0, setPcr s i (H (pcr s i ++ d)))

/-- observable result of a command: return code and output parameters -/
structure Obs where
  rc : Nat
  out : Bytes := []
deriving Repr, DecidableEq

inductive Op
  | startup (stType : Nat)
  | extend (loc i : Nat) (d : Bytes)
  | pcrRead (i : Nat)
  | pcrReset (loc : Nat) (sel : Bytes)           -- sizeOfSelect = sel.length
  | sha1Start
  | sha1Update (d : Bytes)
  | sha1Complete (d : Bytes)
  | sha1CompleteExtend (loc i : Nat) (d : Bytes)
  | other                                         -- any other ordinal: only its effect on the SHA-1 thread
  | saveState                                     -- TPM_SaveState
  | hashStart
  | hashData (d : Bytes)
  | hashEnd
  | estGet                                        -- TPM_IO_TpmEstablished_Get
  | estReset (loc : Nat)                          -- TPM_IO_TpmEstablished_Reset
deriving Repr

/-- `TPM_Check_SHA1Context` (part of preprocessing of every command that passes the header check):
    any ordinal other than SHA1Update/Complete/CompleteExtend invalidates the thread -/
def invalidateThread (s : St) : St := { s with sha := none }

/-- indices selected by a `TPM_PCR_SELECTION` bitmap, ascending -/
def selected (sel : Bytes) : List Nat :=
  (List.range (sel.length * 8)).filter fun i => (sel.getD (i / 8) 0).toNat.testBit (i % 8)

/-- first loop of `TPM_Process_PcrReset`: first refusal in ascending PCR order -/
def resetRefusal (loc : Nat) : List Nat → Nat
  | [] => 0
  | i :: rest =>
    if !canReset i then TPM_NOTRESETABLE
    else if !locAllowed (resetLocal i) loc then TPM_NOTLOCAL
    else resetRefusal loc rest

def be32 (n : Nat) : Bytes := Sha1.be32 n

def step (H : Hash) (s : St) : Op → St × Obs
  | .startup stType =>
      -- TPM_Process_Startup is the one ordinal for which postInitialise = FALSE is the error
      let s := invalidateThread s
      if !s.postInit then (s, { rc := TPM_INVALID_POSTINIT })
      else if s.failed then ({ s with postInit := false }, { rc := TPM_FAILEDSELFTEST })
      else if stType = 1 then ({ s with postInit := false, tos := false }, { rc := 0 })
      else if stType = 2 then
        -- TPM_Startup_State: without a saved state the TPM enters the failed state; with one, the PCRs whose
        -- pcrReset attribute is FALSE get their saved values back (TPM_PCRs_Load), the others keep the TPM_Init values
        match s.saved with
        | none => ({ s with postInit := false, failed := true }, { rc := TPM_FAILEDSELFTEST })
        | some ps =>
          ({ s with postInit := false, tos := false,
                    pcrs := (List.range s.pcrs.length).map fun i => if canReset i then s.pcrs.getD i [] else ps.getD i [] },
           { rc := 0 })
      else ({ s with postInit := false }, { rc := TPM_BAD_PARAMETER })   -- ST_DEACTIVATED is outside this model (never sent)
  | .extend loc i d =>
      let s := invalidateThread s
      let cs := checkState s
      if cs ≠ 0 then (s, { rc := cs }) else
      let (rc, s') := extendCommon H s loc i d
      if rc ≠ 0 then (s, { rc := rc }) else (s', { rc := 0, out := pcr s' i })
  | .pcrRead i =>
      let s := invalidateThread s
      let cs := checkState s
      if cs ≠ 0 then (s, { rc := cs }) else
      if i ≥ TPM_NUM_PCR then (s, { rc := TPM_BADINDEX }) else (s, { rc := 0, out := pcr s i })
  | .pcrReset loc sel =>
      let s := invalidateThread s
      -- TPM_PCRSelection_Load runs before TPM_CheckState
      if sel.length > TPM_NUM_PCR / 8 then (s, { rc := TPM_INVALID_PCR_INFO }) else
      let cs := checkState s
      if cs ≠ 0 then (s, { rc := cs }) else
      let idx := selected sel
      if idx.isEmpty then (s, { rc := TPM_INVALID_PCR_INFO }) else
      let r := resetRefusal loc idx
      if r ≠ 0 then (s, { rc := r }) else
      (idx.foldl (fun st i => setPcr st i (resetValue s.tos i)) s, { rc := 0 })
  | .sha1Start =>
      let s := invalidateThread s
      let cs := checkState s
      if cs ≠ 0 then (s, { rc := cs }) else
      ({ s with sha := some Sha1.init }, { rc := 0, out := be32 (s.bufMax - 64) })
  | .sha1Update d =>
      let cs := checkState s
      if cs ≠ 0 then (s, { rc := cs }) else
      match s.sha with
      | none => (s, { rc := TPM_SHA_THREAD })
      | some ctx =>
        if d.length % 64 ≠ 0 then ({ s with sha := none }, { rc := TPM_SHA_ERROR })
        else if d.length > s.bufMax - 64 then ({ s with sha := none }, { rc := TPM_SHA_ERROR })
        else ({ s with sha := some (Sha1.update ctx d) }, { rc := 0 })
  | .sha1Complete d =>
      let cs := checkState s
      if cs ≠ 0 then (s, { rc := cs }) else
      -- TPM_SHA1CompleteCommon: the thread ends whatever happens
      if d.length > 64 then ({ s with sha := none }, { rc := TPM_SHA_ERROR }) else
      match s.sha with
      | none => (s, { rc := TPM_SHA_THREAD })
      | some ctx => ({ s with sha := none }, { rc := 0, out := Sha1.final (Sha1.update ctx d) })
  | .sha1CompleteExtend loc i d =>
      let cs := checkState s
      if cs ≠ 0 then (s, { rc := cs }) else
      if d.length > 64 then ({ s with sha := none }, { rc := TPM_SHA_ERROR }) else
      match s.sha with
      | none => (s, { rc := TPM_SHA_THREAD })
      | some ctx =>
        let s1 := { s with sha := none }
        let h1 := Sha1.final (Sha1.update ctx d)
        let (rc, s') := extendCommon H s1 loc i h1
        -- outputs: hashValue, then outDigest (the new PCR value)
        if rc ≠ 0 then (s1, { rc := rc }) else (s', { rc := 0, out := h1 ++ pcr s' i })
  | .other => (invalidateThread s, { rc := 0 })
  | .saveState =>
      let s := invalidateThread s
      let cs := checkState s
      if cs ≠ 0 then (s, { rc := cs }) else ({ s with saved := some s.pcrs, stateSaved := true }, { rc := 0 })
  | .hashStart =>
      -- TPM12_IO_Hash_Start: any error puts the TPM into the failed state
      if s.postInit then ({ s with failed := true }, { rc := TPM_INVALID_POSTINIT })
      else if s.tis.isSome then ({ s with failed := true }, { rc := TPM_FAIL })   -- TPM_SHA1InitCmd on a live context
      else
        let s := { s with established := true, tos := true, tis := some Sha1.init }
        ([17, 18, 19, 20, 21, 22].foldl (fun st i => setPcr st i zeros20) s, { rc := 0 })
  | .hashData d =>
      match s.tis with
      | none => ({ s with failed := true }, { rc := TPM_SHA_THREAD })
      | some ctx => ({ s with tis := some (Sha1.update ctx d) }, { rc := 0 })
  | .hashEnd =>
      match s.tis with
      | none => ({ s with failed := true }, { rc := TPM_SHA_THREAD })
      | some ctx =>
        (setPcr { s with tis := none } TPM_LOCALITY_4_PCR (H (zeros20 ++ Sha1.final ctx)), { rc := 0 })
  | .estGet => (s, { rc := 0, out := [if s.established then 1 else 0] })
  | .estReset loc =>
      -- needs locality 3 or 4; does not look at the failed state or postInitialise
      if locAllowed 24 loc then ({ s with established := false }, { rc := 0 }) else (s, { rc := TPM_BAD_LOCALITY })

/-- is the operation an ordinal (goes through `TPM_Process_Preprocess`) rather than a direct TIS / library call? -/
def Op.isOrdinal : Op → Bool
  | .hashStart | .hashData _ | .hashEnd | .estGet | .estReset _ => false
  | _ => true

/-- `TPM_Process_Preprocess` + ordinal: every ordinal other than TPM_Startup deletes the saved state first; TPM_Startup
    deletes it afterwards, whatever its outcome (a refused Startup — postInitialise FALSE — does so too) -/
def stepCmd (H : Hash) (s : St) (op : Op) : St × Obs :=
  match op with
  | .startup _ =>
      let r := step H s op
      ({ r.1 with saved := none, stateSaved := false }, r.2)
  | _ =>
      if op.isOrdinal && s.stateSaved then step H { s with saved := none, stateSaved := false } op else step H s op

end TpmVerif.Model.Tpm12.Core
