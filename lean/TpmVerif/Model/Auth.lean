import TpmVerif.Base.Bytes
import TpmVerif.Crypto.Sha
import TpmVerif.Crypto.Aes
import TpmVerif.Gen.Cmds
/-!
  Authorization of a TPM 2 command (`SessionProcess.c`: `ParseSessionBuffer`, `CheckAuthSession`, `CheckPWAuthSession`,
  `CheckSessionHMAC`, `ComputeCommandHMAC`, `ComputeResponseHMAC`, `UpdateAuditSessionStatus` left out; `Session.c:
  SessionCreate` for the session key and the bound entity).

  The model is on the wire level: it is given the command bytes and the secrets the TPM holds (entity names and
  authValues, per-session nonceTPM / sessionKey / bound entity) and decides what `SessionProcess.c` decides.
  Hash algorithm of the sessions is SHA-256 (what the harness uses); password, HMAC (unbound/bound) and policy sessions with
  PolicyAuthValue / PolicyPassword / PolicyCommandCode / PolicyOR / PolicyRestart.
-/
namespace TpmVerif.Model.Auth
open TpmVerif TpmVerif.Crypto

/-- which authorizations the entity's attributes allow (NV: AUTHREAD/AUTHWRITE/POLICYREAD/POLICYWRITE; objects:
    userWithAuth / adminWithPolicy; hierarchies: authValue always) -/
structure Entity where
  handle : Nat
  name : Bytes
  auth : Bytes            -- stored with trailing zeros removed
  policy : Bytes := []    -- authPolicy (SHA-256), empty = none
  isNv : Bool := false
  isObject : Bool := false
  authRead : Bool := true
  authWrite : Bool := true
  polRead : Bool := true
  polWrite : Bool := true
  userWithAuth : Bool := true
  adminWithPolicy : Bool := false
  deriving Repr

structure Session where
  handle : Nat
  nonceTPM : Bytes
  key : Bytes             -- sessionKey (empty for an unbound, unsalted session)
  bound : Bool
  bindName : Bytes
  bindAuth : Bytes
  -- policy sessions
  policy : Bool := false
  trial : Bool := false
  pDigest : Bytes := List.replicate 32 0
  needAuth : Bool := false     -- isAuthValueNeeded (PolicyAuthValue)
  needPw : Bool := false       -- isPasswordNeeded (PolicyPassword)
  pcc : Nat := 0               -- commandCode fixed by PolicyCommandCode, 0 = none
  sym : Nat := 0               -- parameter encryption: 0 none, 1 XOR with SHA-256, 2 AES-128-CFB
  pcrCtr : Nat := 0            -- pcrCounter: value of the TPM's PCR update counter at the first PolicyPCR, 0 = none
  locality : Nat := 0          -- commandLocality (TPMA_LOCALITY byte) set by PolicyLocality, 0 = none
  ppRequired : Bool := false   -- isPPRequired (PolicyPhysicalPresence)
  cpHash : Bytes := []         -- the cpHash fixed by PolicyCpHash, [] = none
  deriving Repr

structure St where
  ents : List Entity := []
  sess : List Session := []
  pcrCounter : Nat := 0        -- gr.pcrCounter as last observed (PCR_Read's pcrUpdateCounter)
  cmdLocality : Nat := 0       -- the locality the command arrives at
  pp : Bool := false           -- physical presence asserted by the platform

/-- one entry of the command's authorization area -/
structure AuthIn where
  sh : Nat
  nonce : Bytes
  attrs : Nat
  hmac : Bytes
  deriving Repr

structure Cmd where
  tag : Nat
  cc : Nat
  handles : List Nat
  auths : List AuthIn
  params : Bytes
  deriving Repr

def TPM_RS_PW : Nat := 0x40000009
def RC_AUTH_MISSING : Nat := 0x125
def RC_AUTH_FAIL : Nat := 0x08E     -- FMT1, DA applies
def RC_BAD_AUTH : Nat := 0x0A2      -- FMT1, DA does not apply

/-- `MemoryRemoveTrailingZeros` -/
def stripZeros (b : Bytes) : Bytes := (b.reverse.dropWhile (· == 0)).reverse

/-- number of handles of the command that need an authorization (`COMMAND_ATTRIBUTES`: HANDLE_1_USER|ADMIN|DUP, HANDLE_2_USER) -/
def requiredAuths (attr : Nat) : Nat :=
  (if attr &&& 0x70 ≠ 0 then 1 else 0) + (if attr &&& 0x80 ≠ 0 then 1 else 0)

def take2B (bs : Bytes) : Option (Bytes × Bytes) :=
  match rdBE bs 0 2 with
  | some n => if 2 + n ≤ bs.length then some ((bs.drop 2).take n, bs.drop (2 + n)) else none
  | none => none

/-- the authorization area: records of handle, nonce 2B, attributes, hmac 2B -/
def parseAuths : Bytes → Nat → Option (List AuthIn)
  | _, 0 => some []
  | bs, fuel + 1 =>
    if bs.isEmpty then some [] else
    match rdBE bs 0 4 with
    | none => none
    | some sh =>
      match take2B (bs.drop 4) with
      | none => none
      | some (nonce, r) =>
        match rdBE r 0 1 with
        | none => none
        | some attrs =>
          match take2B (r.drop 1) with
          | none => none
          | some (hm, r') => (parseAuths r' fuel).map (fun l => { sh := sh, nonce := nonce, attrs := attrs, hmac := hm } :: l)

def parseCmd (req : Bytes) : Option (Cmd × Nat) :=
  match rdBE req 0 2, rdBE req 6 4 with
  | some tag, some cc =>
    match Gen.ccTable.find? (·.1 == cc) with
    | none => none
    | some (_, nh, _, _, attr) =>
      let handles := (List.range nh).map (fun i => (rdBE req (10 + 4 * i) 4).getD 0)
      let rest := req.drop (10 + 4 * nh)
      if tag = 0x8002 then
        match rdBE rest 0 4 with
        | none => none
        | some asz =>
          match parseAuths ((rest.drop 4).take asz) 4 with
          | none => none
          | some auths => some ({ tag := tag, cc := cc, handles := handles, auths := auths, params := (rest.drop 4).drop asz }, attr)
      else some ({ tag := tag, cc := cc, handles := handles, auths := [], params := rest }, attr)
  | _, _ => none

def St.ent (st : St) (h : Nat) : Option Entity := st.ents.find? (·.handle == h)
def St.session (st : St) (h : Nat) : Option Session := st.sess.find? (·.handle == h)

/-- cpHash input and value: commandCode ‖ Name(handle 1) ‖ Name(handle 2) ‖ … ‖ parameters -/
def cpInput (cc : Nat) (names : List Bytes) (params : Bytes) : Bytes := be32 cc ++ names.flatten ++ params
def cpHash (cc : Nat) (names : List Bytes) (params : Bytes) : Bytes := hash sha256 (cpInput cc names params)
/-- rpHash: responseCode (0) ‖ commandCode ‖ parameters -/
def rpHash (cc : Nat) (rparams : Bytes) : Bytes := hash sha256 (be32 0 ++ be32 cc ++ rparams)

/-- the session is bound to this entity *now*: same name and the authValue it had at StartAuthSession
    (`SessionComputeBoundEntity` compared with `session->u1.boundEntity`) -/
def boundTo (s : Session) (e : Entity) : Bool := s.bound && s.bindName == e.name && s.bindAuth == e.auth

/-- HMAC key: sessionKey ‖ authValue, the authValue left out when the session is bound to the entity -/
def hmacKey (s : Session) (e : Entity) : Bytes := s.key ++ (if boundTo s e then [] else e.auth)

/-- what is HMACed in the command direction: cpHash ‖ nonceCaller ‖ nonceTPM ‖ sessionAttributes -/
def authMsg (cph nonceNewer nonceOlder : Bytes) (attrs : Nat) : Bytes := cph ++ nonceNewer ++ nonceOlder ++ [UInt8.ofNat attrs]

def expectedHmac (s : Session) (e : Entity) (cph : Bytes) (a : AuthIn) : Bytes :=
  hmac sha256 (hmacKey s e) (authMsg cph a.nonce s.nonceTPM a.attrs)


inductive Role where | user | admin | dup
  deriving Repr, DecidableEq

/-- `CommandAuthRole` from the generated COMMAND_ATTRIBUTES word -/
def roleOf (attr : Nat) (i : Nat) : Role :=
  if i = 0 then (if attr &&& 0x20 ≠ 0 then .admin else if attr &&& 0x40 ≠ 0 then .dup else .user) else .user

/-- `IsWriteOperation` -/
def isNvWrite (cc : Nat) : Bool := cc == 0x137 || cc == 0x134 || cc == 0x135 || cc == 0x136 || cc == 0x138

/-- `IsPolicySessionRequired` (PCR policies left out) -/
def policyRequired (r : Role) (e : Entity) : Bool :=
  match r with
  | .dup => true
  | .admin => !(e.isObject && !e.adminWithPolicy)
  | .user => false

/-- `IsAuthValueAvailable` -/
def authAvail (e : Entity) (cc : Nat) (r : Role) : Bool :=
  if e.isNv then (if isNvWrite cc then e.authWrite else e.authRead)
  else if e.isObject then e.userWithAuth || (r == .admin && !e.adminWithPolicy)
  else true

/-- `IsAuthPolicyAvailable` -/
def policyAvail (e : Entity) (cc : Nat) (r : Role) : Bool :=
  if e.isNv then e.policy ≠ [] && (policyRequired r e || (if isNvWrite cc then e.polWrite else e.polRead))
  else if e.isObject then true
  else e.policy ≠ []

/-- outcome of checking one authorization -/
inductive Check where
  | pass
  | failAuth          -- TPM_RC_AUTH_FAIL / TPM_RC_BAD_AUTH
  | failPolicy        -- TPM_RC_POLICY_FAIL
  | failPolicyCC      -- TPM_RC_POLICY_CC
  | unavailable       -- TPM_RC_AUTH_UNAVAILABLE
  | authType          -- TPM_RC_AUTH_TYPE
  | badAttributes     -- TPM_RC_ATTRIBUTES (audit attribute on a policy or password session)
  | pcrChanged        -- TPM_RC_PCR_CHANGED: a PCR was updated after the session's PolicyPCR
  | failLocality      -- TPM_RC_LOCALITY: the policy restricts the locality and the command comes from another one
  | failPP            -- TPM_RC_PP: the policy demands physical presence
  | noSession
  deriving Repr, DecidableEq

/-- `CheckSessionHMAC` with `ComputeCommandHMAC`: an empty key with an empty HMAC field passes -/
def hmacCheck (s : Session) (key : Bytes) (cph : Bytes) (a : AuthIn) : Check :=
  if key = [] ∧ a.hmac = [] then .pass
  else if a.hmac == hmac sha256 key (authMsg cph a.nonce s.nonceTPM a.attrs) then .pass else .failAuth

def pwCheck (e : Entity) (a : AuthIn) : Check := if stripZeros a.hmac == e.auth then .pass else .failAuth

/-- `SessionPCRValueIsCurrent`: no PolicyPCR on this session, or no counted PCR update since -/
def pcrCurrent (g : Nat) (s : Session) : Bool := s.pcrCtr == 0 || s.pcrCtr == g

/-- `CheckPolicyAuthSession` after the PCR currency test (timeout, locality, PP, cpHash/nameHash, nvWritten left out: the harness never sets them) -/
def policyCheck (s : Session) (e : Entity) (cc : Nat) (r : Role) : Check :=
  if s.pDigest ≠ e.policy then .failPolicy
  else if s.pcc ≠ 0 then (if s.pcc ≠ cc then .failPolicyCC else .pass)
  else if r ≠ .user then .failPolicy
  else .pass

/-- does the locality set by PolicyLocality admit a command arriving at `loc`? Localities 0–4 are a bit map (values below 32),
    extended localities (32…255) are matched exactly -/
def localityOk (setting loc : Nat) : Bool :=
  if loc < 5 then decide (setting ≤ 31) && (setting / 2 ^ loc % 2 == 1)
  else if loc > 31 then setting == loc else false

/-- the restrictions a policy places on the command it authorizes (`CheckPolicyAuthSession` after the digest and command-code
    tests): the command's locality, physical presence, the cpHash -/
def restrictions (st : St) (s : Session) (cph : Bytes) : Check :=
  if s.locality ≠ 0 ∧ !localityOk s.locality st.cmdLocality then .failLocality
  else if s.ppRequired ∧ !st.pp then .failPP
  else if s.cpHash ≠ [] ∧ s.cpHash ≠ cph then .failPolicy
  else .pass

/-- one authorization (`CheckAuthSession`): password, HMAC session or policy session -/
def checkOne (st : St) (e : Entity) (cc : Nat) (r : Role) (cph : Bytes) (a : AuthIn) : Check :=
  if a.sh = TPM_RS_PW then
    if a.attrs &&& 0xE6 ≠ 0 then .badAttributes      -- encrypt/decrypt/audit* on the password session (`RetrieveSessionData`)
    else if policyRequired r e then .authType
    else if !authAvail e cc r then .unavailable
    else pwCheck e a
  else match st.session a.sh with
    | none => .noSession
    | some s =>
      if s.policy && a.attrs &&& 0x80 ≠ 0 then .badAttributes else
      if !s.policy then
        if policyRequired r e then .authType
        else if !authAvail e cc r then .unavailable
        else hmacCheck s (hmacKey s e) cph a
      else
        if !policyAvail e cc r then .unavailable
        else if !pcrCurrent st.pcrCounter s then .pcrChanged
        else match policyCheck s e cc r with
          | .pass =>
            (match restrictions st s cph with
             | .pass => if s.needPw then pwCheck e a else hmacCheck s (s.key ++ (if s.needAuth then e.auth else [])) cph a
             | bad => bad)
          | bad => bad

inductive Verdict where
  | ok
  | authMissing
  | authFail (i : Nat) (why : Check)     -- the i-th authorization (0-based) does not verify
  | unknownEntity
  deriving Repr, DecidableEq

/-- check authorizations `i, i+1, …` against the handles that need one -/
def checkFrom (st : St) (cc attr : Nat) (cph : Bytes) : List Nat → List AuthIn → Nat → Verdict
  | [], _, _ => .ok
  | _ :: _, [], _ => .authMissing
  | h :: hs, a :: as, i =>
    match st.ent h with
    | none => .unknownEntity
    | some e =>
      match checkOne st e cc (roleOf attr i) cph a with
      | .pass => checkFrom st cc attr cph hs as (i + 1)
      | bad => .authFail i bad

/-- the decision of `ExecuteCommand` up to the start of the command's own code -/
def authorize (st : St) (c : Cmd) (attr : Nat) : Verdict :=
  let need := requiredAuths attr
  let names := c.handles.map (fun h => ((st.ent h).map (·.name)).getD (be32 h))
  if c.auths.length < need then .authMissing else
  checkFrom st c.cc attr (cpHash c.cc names c.params) (c.handles.take need) c.auths 0

/-- session key of a session started with `bind` (no salt): KDFa(authValue(bind), "ATH", nonceTPM, nonceCaller) -/
def sessionKey (bindAuth nonceTPM nonceCaller : Bytes) : Bytes := kdfa sha256 bindAuth "ATH" nonceTPM nonceCaller 256

/-- KDFe (SP 800-56A concatenation KDF as TPM 2 uses it): H(counter ‖ Z ‖ label ‖ 00 ‖ partyU ‖ partyV), one block of SHA-256 -/
def kdfe256 (z : Bytes) (label : String) (partyU partyV : Bytes) : Bytes :=
  hash sha256 (be32 1 ++ z ++ label.toUTF8.toList ++ [0] ++ partyU ++ partyV)

/-- the salt of a session salted against an ECC P-256 key: the caller's ephemeral scalar `d`, the key's public point -/
def eccSalt (d kx ky : Nat) : Option Bytes :=
  match P256.mul d (some (kx, ky)), P256.mul d (some (P256.gx, P256.gy)) with
  | some (zx, _), some (ex, _) => some (kdfe256 (natToBytes zx 32) "SECRET" (natToBytes ex 32) (natToBytes kx 32))
  | _, _ => none

/-- session key with bind and/or salt: KDFa(authValue(bind) ‖ salt, "ATH", nonceTPM, nonceCaller); empty when neither is there -/
def sessionKeyWith (bindAuth salt nonceTPM nonceCaller : Bytes) : Bytes :=
  if bindAuth = [] ∧ salt = [] then [] else kdfa sha256 (bindAuth ++ salt) "ATH" nonceTPM nonceCaller 256

/-- parameter encryption/decryption of the session protocol: XOR obfuscation with a KDFa mask, or AES-128-CFB with
    KDFa("CFB") giving key ‖ IV. `key` = sessionKey ‖ authValue as for the HMAC. -/
def paramCrypt (sym : Nat) (key nonceNewer nonceOlder data : Bytes) (encrypt : Bool) : Bytes :=
  if sym = 1 then List.zipWith (· ^^^ ·) data (kdfa sha256 key "XOR" nonceNewer nonceOlder (data.length * 8))
  else if sym = 2 then
    let ki := kdfa sha256 key "CFB" nonceNewer nonceOlder 256
    let E := aesEncryptBlock (ki.take 16)
    if encrypt then (cfbEncrypt E (ki.drop 16) data).1 else (cfbDecrypt E (ki.drop 16) data).1
  else data

/-- the response HMAC the caller must see: HMAC(key, rpHash ‖ nonceTPM(new) ‖ nonceCaller ‖ attrs) -/
def expectedRspHmac (key : Bytes) (cc : Nat) (rparams nonceTPMnew nonceCaller : Bytes) (attrs : Nat) : Bytes :=
  hmac sha256 key (authMsg (rpHash cc rparams) nonceTPMnew nonceCaller attrs)

/-- the key the session uses for this entity (command and response direction) -/
def sessKey (s : Session) (e : Entity) : Bytes :=
  if s.policy then s.key ++ (if s.needAuth then e.auth else []) else hmacKey s e

/-! ### Policy sessions: the digest the TPM accumulates -/

def CC_PolicyAuthValue : Nat := 0x16B
def CC_PolicyCommandCode : Nat := 0x16C
def CC_PolicyOR : Nat := 0x171
def CC_PolicyPassword : Nat := 0x18C
def CC_PolicyPCR : Nat := 0x17F
def RC_VALUE : Nat := 0x084
def RC_PCR_CHANGED : Nat := 0x128

inductive PolicyOp where
  | authValue
  | password
  | commandCode (code : Nat)
  | or (digests : List Bytes)
  | restart
  /-- PolicyPCR: the marshalled selection, the concatenated current values of the selected PCR, the digest the caller
      supplied (may be empty) and the TPM's PCR update counter -/
  | pcr (sel values given : Bytes) (g : Nat)
  /-- the assertions whose only effect on the digest is policyDigest' = H(policyDigest ‖ commandCode ‖ args): PolicyLocality
      (the locality byte), PolicyCpHash / PolicyNameHash / PolicyTemplate (the digest), PolicyNvWritten (the flag),
      PolicyPhysicalPresence (nothing), PolicyCounterTimer (H(operandB ‖ offset ‖ operation)), PolicyDuplicationSelect
      ([objectName] ‖ newParentName ‖ includeObject) -/
  | assert (cc : Nat) (args : Bytes)
  /-- `PolicyContextUpdate` of PolicySecret / PolicySigned: H(H(policyDigest ‖ commandCode ‖ entityName) ‖ policyRef) -/
  | update (cc : Nat) (name ref : Bytes)
  /-- PolicyLocality with its TPMA_LOCALITY byte -/
  | locality (loc : Nat)
  | physicalPresence
  | cpHash (h : Bytes)
  deriving Repr

/-- PolicyOR is accepted by a trial session always, by a real session when the current digest is listed -/
def orOk (s : Session) (ds : List Bytes) : Bool := s.trial || ds.contains s.pDigest
/-- PolicyCommandCode is refused when a different command code is already fixed -/
def ccConflict (s : Session) (code : Nat) : Bool := s.pcc != 0 && s.pcc != code

/-- policyDigest' = H(policyDigest ‖ TPM_CC_PolicyPCR ‖ pcrs ‖ digestTPM) -/
def pcrExtend (old sel pcrDigest : Bytes) : Bytes := hash sha256 (old ++ be32 CC_PolicyPCR ++ sel ++ pcrDigest)
/-- a digest supplied by the caller must be the digest of the current values -/
def pcrGivenBad (values given : Bytes) : Bool := given != [] && given != hash sha256 values

def CC_PolicyLocality : Nat := 0x16F
def CC_PolicyPhysicalPresence : Nat := 0x187
def CC_PolicyCpHash : Nat := 0x16E
def RC_RANGE : Nat := 0x08D
def RC_CPHASH : Nat := 0x151

/-- `TPM2_PolicyLocality`: the new setting of the session, or none when the command is refused (TPM_RC_RANGE): a zero locality,
    a mix of bit-map and extended localities, a bit map that leaves no locality, two different extended localities -/
def localityMerge (prev loc : Nat) : Option Nat :=
  if loc % 256 = 0 then none
  else if prev ≠ 0 ∧ (decide (prev < 32) != decide (loc % 256 < 32)) then none
  else if loc % 256 < 32 then
    let m := (if prev = 0 then 0x1F else prev) &&& (loc % 256)
    if m = 0 then none else some m
  else if prev ≠ 0 ∧ prev ≠ loc % 256 then none else some (loc % 256)

/-- one policy command on a policy/trial session: new session and return code (0 = success; otherwise the base code) -/
def policyStep (s : Session) : PolicyOp → Session × Nat
  | .authValue => ({ s with pDigest := hash sha256 (s.pDigest ++ be32 CC_PolicyAuthValue), needAuth := true, needPw := false }, 0)
  | .password => ({ s with pDigest := hash sha256 (s.pDigest ++ be32 CC_PolicyAuthValue), needPw := true, needAuth := false }, 0)
  | .commandCode code =>
      if ccConflict s code then (s, RC_VALUE)
      else ({ s with pDigest := hash sha256 (s.pDigest ++ be32 CC_PolicyCommandCode ++ be32 code), pcc := code }, 0)
  | .or ds =>
      if orOk s ds then
        ({ s with pDigest := hash sha256 (List.replicate 32 0 ++ be32 CC_PolicyOR ++ ds.flatten) }, 0)
      else (s, RC_VALUE)
  | .restart => ({ s with pDigest := List.replicate 32 0, needAuth := false, needPw := false, pcc := 0, pcrCtr := 0, locality := 0, ppRequired := false, cpHash := [] }, 0)
  | .assert cc args => ({ s with pDigest := hash sha256 (s.pDigest ++ be32 cc ++ args) }, 0)
  | .update cc name ref => ({ s with pDigest := hash sha256 (hash sha256 (s.pDigest ++ be32 cc ++ name) ++ ref) }, 0)
  | .locality loc =>
      (match localityMerge s.locality loc with
       | none => (s, RC_RANGE)
       | some m => ({ s with pDigest := hash sha256 (s.pDigest ++ be32 CC_PolicyLocality ++ [UInt8.ofNat loc]), locality := m }, 0))
  | .physicalPresence => ({ s with pDigest := hash sha256 (s.pDigest ++ be32 CC_PolicyPhysicalPresence), ppRequired := true }, 0)
  | .cpHash h =>
      if s.cpHash ≠ [] ∧ s.cpHash ≠ h then (s, RC_CPHASH)
      else ({ s with pDigest := hash sha256 (s.pDigest ++ be32 CC_PolicyCpHash ++ h), cpHash := h }, 0)
  | .pcr sel values given g =>
      if s.trial then
        ({ s with pDigest := pcrExtend s.pDigest sel (if given = [] then hash sha256 values else given) }, 0)
      else if !pcrCurrent g s then (s, RC_PCR_CHANGED)
      else if pcrGivenBad values given then (s, RC_VALUE)
      else ({ s with pDigest := pcrExtend s.pDigest sel (hash sha256 values), pcrCtr := g }, 0)

/-- after a policy session authorized a command its policy data is reset (`SessionResetPolicyData`) -/
def resetPolicy (s : Session) : Session :=
  if s.policy then { s with pDigest := List.replicate 32 0, needAuth := false, needPw := false, pcc := 0, pcrCtr := 0, locality := 0, ppRequired := false, cpHash := [] } else s

/-- after a successful command the session's nonceTPM is the one in the response -/
def St.rollNonce (st : St) (sh : Nat) (n : Bytes) : St :=
  { st with sess := st.sess.map (fun s => if s.handle == sh then { s with nonceTPM := n } else s) }
def St.setAuth (st : St) (h : Nat) (a : Bytes) : St :=
  { st with ents := st.ents.map (fun e => if e.handle == h then { e with auth := stripZeros a } else e) }

end TpmVerif.Model.Auth
