import TpmVerif.Base.Bytes
import TpmVerif.Crypto.Sha
import TpmVerif.Gen.Cmds
/-!
  Authorization of a TPM 2 command (`SessionProcess.c`: `ParseSessionBuffer`, `CheckAuthSession`, `CheckPWAuthSession`,
  `CheckSessionHMAC`, `ComputeCommandHMAC`, `ComputeResponseHMAC`, `UpdateAuditSessionStatus` left out; `Session.c:
  SessionCreate` for the session key and the bound entity).

  The model is on the wire level: it is given the command bytes and the secrets the TPM holds (entity names and
  authValues, per-session nonceTPM / sessionKey / bound entity) and decides what `SessionProcess.c` decides.
  Hash algorithm of the sessions is SHA-256 (what the harness uses); HMAC and password sessions; policy sessions are
  not modelled.
-/
namespace TpmVerif.Model.Auth
open TpmVerif TpmVerif.Crypto

structure Entity where
  handle : Nat
  name : Bytes
  auth : Bytes            -- stored with trailing zeros removed
  deriving Repr

structure Session where
  handle : Nat
  nonceTPM : Bytes
  key : Bytes             -- sessionKey (empty for an unbound, unsalted session)
  bound : Bool
  bindName : Bytes
  bindAuth : Bytes
  deriving Repr

structure St where
  ents : List Entity := []
  sess : List Session := []

/-- one entry of the command's authorization area -/
structure AuthIn where
  sh : Nat
  nonce : Bytes
  attrs : Nat
  hmac : Bytes
  deriving Repr

structure Cmd where
  tag : Nat
  cc : Nat
  handles : List Nat
  auths : List AuthIn
  params : Bytes
  deriving Repr

def TPM_RS_PW : Nat := 0x40000009
def RC_AUTH_MISSING : Nat := 0x125
def RC_AUTH_FAIL : Nat := 0x08E     -- FMT1, DA applies
def RC_BAD_AUTH : Nat := 0x0A2      -- FMT1, DA does not apply

/-- `MemoryRemoveTrailingZeros` -/
def stripZeros (b : Bytes) : Bytes := (b.reverse.dropWhile (· == 0)).reverse

/-- number of handles of the command that need an authorization (`COMMAND_ATTRIBUTES`: HANDLE_1_USER|ADMIN|DUP, HANDLE_2_USER) -/
def requiredAuths (attr : Nat) : Nat :=
  (if attr &&& 0x70 ≠ 0 then 1 else 0) + (if attr &&& 0x80 ≠ 0 then 1 else 0)

def take2B (bs : Bytes) : Option (Bytes × Bytes) :=
  match rdBE bs 0 2 with
  | some n => if 2 + n ≤ bs.length then some ((bs.drop 2).take n, bs.drop (2 + n)) else none
  | none => none

/-- the authorization area: records of handle, nonce 2B, attributes, hmac 2B -/
def parseAuths : Bytes → Nat → Option (List AuthIn)
  | _, 0 => some []
  | bs, fuel + 1 =>
    if bs.isEmpty then some [] else
    match rdBE bs 0 4 with
    | none => none
    | some sh =>
      match take2B (bs.drop 4) with
      | none => none
      | some (nonce, r) =>
        match rdBE r 0 1 with
        | none => none
        | some attrs =>
          match take2B (r.drop 1) with
          | none => none
          | some (hm, r') => (parseAuths r' fuel).map (fun l => { sh := sh, nonce := nonce, attrs := attrs, hmac := hm } :: l)

def parseCmd (req : Bytes) : Option (Cmd × Nat) :=
  match rdBE req 0 2, rdBE req 6 4 with
  | some tag, some cc =>
    match Gen.ccTable.find? (·.1 == cc) with
    | none => none
    | some (_, nh, _, _, attr) =>
      let handles := (List.range nh).map (fun i => (rdBE req (10 + 4 * i) 4).getD 0)
      let rest := req.drop (10 + 4 * nh)
      if tag = 0x8002 then
        match rdBE rest 0 4 with
        | none => none
        | some asz =>
          match parseAuths ((rest.drop 4).take asz) 4 with
          | none => none
          | some auths => some ({ tag := tag, cc := cc, handles := handles, auths := auths, params := (rest.drop 4).drop asz }, attr)
      else some ({ tag := tag, cc := cc, handles := handles, auths := [], params := rest }, attr)
  | _, _ => none

def St.ent (st : St) (h : Nat) : Option Entity := st.ents.find? (·.handle == h)
def St.session (st : St) (h : Nat) : Option Session := st.sess.find? (·.handle == h)

/-- cpHash input and value: commandCode ‖ Name(handle 1) ‖ Name(handle 2) ‖ … ‖ parameters -/
def cpInput (cc : Nat) (names : List Bytes) (params : Bytes) : Bytes := be32 cc ++ names.flatten ++ params
def cpHash (cc : Nat) (names : List Bytes) (params : Bytes) : Bytes := hash sha256 (cpInput cc names params)
/-- rpHash: responseCode (0) ‖ commandCode ‖ parameters -/
def rpHash (cc : Nat) (rparams : Bytes) : Bytes := hash sha256 (be32 0 ++ be32 cc ++ rparams)

/-- the session is bound to this entity *now*: same name and the authValue it had at StartAuthSession
    (`SessionComputeBoundEntity` compared with `session->u1.boundEntity`) -/
def boundTo (s : Session) (e : Entity) : Bool := s.bound && s.bindName == e.name && s.bindAuth == e.auth

/-- HMAC key: sessionKey ‖ authValue, the authValue left out when the session is bound to the entity -/
def hmacKey (s : Session) (e : Entity) : Bytes := s.key ++ (if boundTo s e then [] else e.auth)

/-- what is HMACed in the command direction: cpHash ‖ nonceCaller ‖ nonceTPM ‖ sessionAttributes -/
def authMsg (cph nonceNewer nonceOlder : Bytes) (attrs : Nat) : Bytes := cph ++ nonceNewer ++ nonceOlder ++ [UInt8.ofNat attrs]

def expectedHmac (s : Session) (e : Entity) (cph : Bytes) (a : AuthIn) : Bytes :=
  hmac sha256 (hmacKey s e) (authMsg cph a.nonce s.nonceTPM a.attrs)

/-- one authorization: password (compare with trailing zeros removed) or HMAC session -/
def checkOne (st : St) (e : Entity) (cph : Bytes) (a : AuthIn) : Bool :=
  if a.sh = TPM_RS_PW then stripZeros a.hmac == e.auth
  else match st.session a.sh with
    | none => false
    | some s => a.hmac == expectedHmac s e cph a

inductive Verdict where
  | ok
  | authMissing
  | authFail (i : Nat)      -- the i-th authorization (0-based) does not verify
  | unknownEntity
  deriving Repr, DecidableEq

/-- check authorizations `i, i+1, …` against the handles that need one -/
def checkFrom (st : St) (cph : Bytes) : List Nat → List AuthIn → Nat → Verdict
  | [], _, _ => .ok
  | _ :: _, [], _ => .authMissing
  | h :: hs, a :: as, i =>
    match st.ent h with
    | none => .unknownEntity
    | some e => if checkOne st e cph a then checkFrom st cph hs as (i + 1) else .authFail i

/-- the decision of `ExecuteCommand` up to the start of the command's own code -/
def authorize (st : St) (c : Cmd) (attr : Nat) : Verdict :=
  let need := requiredAuths attr
  let names := c.handles.map (fun h => ((st.ent h).map (·.name)).getD (be32 h))
  if c.auths.length < need then .authMissing else
  checkFrom st (cpHash c.cc names c.params) (c.handles.take need) c.auths 0

/-- session key of a session started with `bind` (no salt): KDFa(authValue(bind), "ATH", nonceTPM, nonceCaller) -/
def sessionKey (bindAuth nonceTPM nonceCaller : Bytes) : Bytes := kdfa sha256 bindAuth "ATH" nonceTPM nonceCaller 256

/-- the response HMAC the caller must see: HMAC(key, rpHash ‖ nonceTPM(new) ‖ nonceCaller ‖ attrs) -/
def expectedRspHmac (s : Session) (e : Entity) (cc : Nat) (rparams nonceTPMnew nonceCaller : Bytes) (attrs : Nat) : Bytes :=
  hmac sha256 (hmacKey s e) (authMsg (rpHash cc rparams) nonceTPMnew nonceCaller attrs)

/-- after a successful command the session's nonceTPM is the one in the response -/
def St.rollNonce (st : St) (sh : Nat) (n : Bytes) : St :=
  { st with sess := st.sess.map (fun s => if s.handle == sh then { s with nonceTPM := n } else s) }
def St.setAuth (st : St) (h : Nat) (a : Bytes) : St :=
  { st with ents := st.ents.map (fun e => if e.handle == h then { e with auth := stripZeros a } else e) }

end TpmVerif.Model.Auth
