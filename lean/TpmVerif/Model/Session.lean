import TpmVerif.Gen.Consts
/-!
  `Session.c` session/context-slot accounting, as coded: `gr.contextArray`, `gr.contextCounter`,
  `s_oldestSavedSession`, `s_freeSessionSlots`, `s_sessions[i].occupied`, `s_ContextSlotMask`;
  operations create / save / load / flush / startup, and `SequenceNumberForSavedContextIsValid`.
  The array is a total function on indices (only 0..MAX_ACTIVE_SESSIONS-1 are ever touched).
-/
namespace TpmVerif.Model.Session
open TpmVerif

def NACT : Nat := Gen.MAX_ACTIVE_SESSIONS     -- 64
def NLOAD : Nat := Gen.MAX_LOADED_SESSIONS    -- 3
def W64 : Nat := 18446744073709551616

def upd (f : Nat → Nat) (i v : Nat) : Nat → Nat := fun j => if j = i then v else f j
def updB (f : Nat → Bool) (i : Nat) (v : Bool) : Nat → Bool := fun j => if j = i then v else f j

structure St where
  arr : Nat → Nat := fun _ => 0     -- gr.contextArray
  counter : Nat := NLOAD + 1        -- gr.contextCounter
  oldest : Nat := NACT + 1          -- s_oldestSavedSession
  free : Nat := NLOAD               -- s_freeSessionSlots
  occ : Nat → Bool := fun _ => false -- s_sessions[i].occupied
  mask : Nat := 0xffff              -- s_ContextSlotMask

/-- `CONTEXT_SLOT_MASKED(v)` for a non-negative value -/
def masked (s : St) (v : Nat) : Nat := v % (s.mask + 1)

/-- `CONTEXT_SLOT_MASKED(entry - lowBits)` on the CONTEXT_SLOT-wide unsigned type -/
def maskedSub (s : St) (a b : Nat) : Nat := (a + (s.mask + 1) - b % (s.mask + 1)) % (s.mask + 1)

inductive RC where
  | ok | contextGap | sessionMemory | sessionHandles | badHandle | tooManyContexts
deriving Repr, DecidableEq, Inhabited

/-- `ContextIdSetOldest` -/
def setOldest (s : St) : St :=
  let low := masked s s.counter
  let step := fun (acc : Nat × Nat) (i : Nat) =>
    let e := s.arr i
    if e > NLOAD ∧ maskedSub s e low ≤ acc.1 then (maskedSub s e low, i) else acc
  let r := (List.range NACT).foldl step (s.mask, NACT + 1)
  { s with oldest := r.2 }

def firstFreeSlot (s : St) : Option Nat := (List.range NLOAD).find? (fun i => !s.occ i)
def firstFreeHandle (s : St) : Option Nat := (List.range NACT).find? (fun i => s.arr i == 0)

/-- the "would collide with the oldest saved context" test shared by create, save and load -/
def gapWithOldest (s : St) : Bool := s.oldest < NACT && masked s s.counter == s.arr s.oldest

/-- the state after a successful `SessionCreate` into slot `slot` with handle index `h` -/
def createOk (s : St) (slot h : Nat) : St :=
  { s with arr := upd s.arr h (slot + 1), free := s.free - 1, occ := updB s.occ slot true }

/-- `SessionCreate` (accounting part). Returns the index part of the new handle. -/
def create (s : St) : St × RC × Nat :=
  if s.free = 0 then (s, .sessionMemory, 0) else
  match firstFreeSlot s with
  | none => (s, .sessionMemory, 0)      -- unreachable under the invariant (the C code FAILs here)
  | some slot =>
    if s.free = 1 && gapWithOldest s then (s, .contextGap, 0) else
    match firstFreeHandle s with
    | none => (s, .sessionHandles, 0)
    | some h => (createOk s slot h, .ok, h)

def isLoaded (s : St) (h : Nat) : Bool := h < NACT && s.arr h != 0 && s.arr h ≤ NLOAD
def isSaved (s : St) (h : Nat) : Bool := h < NACT && s.arr h > NLOAD

/-- `gr.contextCounter` after a successful save: +1, and a further MAX_LOADED_SESSIONS+1 when the truncated
    value would be 0 (so that truncated ids never look like slot numbers) -/
def bumpCounter (s : St) : Nat :=
  let c1 := (s.counter + 1) % W64
  if c1 % (s.mask + 1) = 0 then (c1 + NLOAD + 1) % W64 else c1

/-- the state after a successful `SessionContextSave` of handle index `h` -/
def saveOk (s : St) (h : Nat) : St :=
  { s with arr := upd s.arr h (masked s s.counter), counter := bumpCounter s,
           oldest := if s.oldest ≥ NACT then h else s.oldest,
           occ := updB s.occ (s.arr h - 1) false, free := s.free + 1 }

/-- `SessionContextSave` for a loaded session with handle index `h`. Returns the sequence number. -/
def save (s : St) (h : Nat) : St × RC × Nat :=
  if !isLoaded s h then (s, .badHandle, 0) else
  if gapWithOldest s then (s, .contextGap, 0) else
  if (s.counter + 1) % W64 = 0 then
    ({ s with arr := upd s.arr h (masked s s.counter), counter := W64 - 1 }, .tooManyContexts, s.counter)
  else (saveOk s h, .ok, s.counter)

/-- `SequenceNumberForSavedContextIsValid` -/
def seqValid (s : St) (h seq : Nat) : Bool :=
  h < NACT && s.arr h > NLOAD && s.arr h == masked s seq && seq ≤ s.counter && s.counter - seq ≤ s.mask + 1

/-- the state after a successful `SessionContextLoad` of handle index `h` into slot `slot` -/
def loadOk (s : St) (h slot : Nat) : St :=
  let s1 := { s with arr := upd s.arr h (slot + 1) }
  let s2 := if h = s.oldest then setOldest s1 else s1
  { s2 with occ := updB s2.occ slot true, free := s2.free - 1 }

/-- `TPM2_ContextLoad` (session branch, after the integrity check passed) + `SessionContextLoad` -/
def load (s : St) (h seq : Nat) : St × RC :=
  if !seqValid s h seq then (s, .badHandle) else
  if s.free = 0 then (s, .sessionMemory) else
  match firstFreeSlot s with
  | none => (s, .sessionMemory)
  | some slot =>
    if s.free = 1 && gapWithOldest s && h != s.oldest then (s, .contextGap) else (loadOk s h slot, .ok)

/-- the state after `SessionFlush` of an existing (loaded or saved) session -/
def flushOk (s : St) (h : Nat) : St :=
  let s1 := { s with arr := upd s.arr h 0 }
  if s.arr h > NLOAD then (if h = s.oldest then setOldest s1 else s1)
  else { s1 with occ := updB s1.occ (s.arr h - 1) false, free := s1.free + 1 }

/-- `TPM2_FlushContext` (session branch) + `SessionFlush` -/
def flush (s : St) (h : Nat) : St × RC :=
  if !isLoaded s h && !isSaved s h then (s, .badHandle) else (flushOk s h, .ok)

/-- `SessionStartup`: `reset = true` for SU_RESET, false for RESUME/RESTART -/
def startup (s : St) (reset : Bool) : St :=
  if reset then { arr := fun _ => 0, counter := NLOAD + 1, oldest := NACT + 1, free := NLOAD, occ := fun _ => false, mask := 0xffff }
  else
    let s1 := { s with occ := fun _ => false, free := NLOAD, arr := fun i => if s.arr i ≤ NLOAD then 0 else s.arr i }
    setOldest s1

/-- observable lists -/
def loadedList (s : St) : List Nat := (List.range NACT).filter (fun i => s.arr i != 0 && s.arr i ≤ NLOAD)
def savedList (s : St) : List Nat := (List.range NACT).filter (fun i => s.arr i > NLOAD)

end TpmVerif.Model.Session
