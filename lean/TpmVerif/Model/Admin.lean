import TpmVerif.Base.Bytes
import TpmVerif.Gen.Cmds
/-!
  Administration of the hierarchies (`HierarchyCommands.c`, `AuditCommands.c`, `ManagementCommands.c`, `PP.c`,
  `CommandAudit.c`, `Hierarchy.c:HierarchyStartup`): hierarchy authValues and policies, disableClear, the hierarchy
  enables, the generations of seeds and proofs, the set of audited commands and the audit hash, the set of commands that
  need physical presence — which of them are persistent (`gp`) and which are re-initialised at a Reset or Restart (`gc`).
-/
namespace TpmVerif.Model.Admin
open TpmVerif

inductive H where
  | owner | endorsement | platform | lockout
  deriving Repr, DecidableEq

/-- what TPM2_HierarchyControl can switch (phEnable is left alone: the harness never gives up the platform) -/
inductive En where
  | owner | endorsement | platformNV
  deriving Repr, DecidableEq

structure St where
  auth : H → Bytes := fun _ => []
  polAlg : H → Nat := fun _ => 0x10          -- TPM_ALG_NULL
  pol : H → Bytes := fun _ => []
  disableClear : Bool := false
  shEnable : Bool := true
  ehEnable : Bool := true
  phEnableNV : Bool := true
  seedGen : H → Nat := fun _ => 0            -- owner: SPS, endorsement: EPS, platform: PPS
  proofGen : H → Nat := fun _ => 0           -- shProof, ehProof, phProof
  audit : Nat → Bool := fun _ => false       -- gp.auditCommands by command code
  auditAlg : Nat := 0xB
  pp : Nat → Bool := fun _ => false          -- gp.ppList by command code

/-- `MemoryRemoveTrailingZeros` -/
def stripZeros (b : Bytes) : Bytes := (b.reverse.dropWhile (· == 0)).reverse

def setH {α : Type} (f : H → α) (h : H) (v : α) : H → α := fun x => if x = h then v else f x
def setCC (f : Nat → Bool) (cc : Nat) (v : Bool) : Nat → Bool := fun x => if x = cc then v else f x

/-- return codes (base values) -/
def RC_HIERARCHY : Nat := 0x185      -- TPM_RC_HIERARCHY + handle 1: the authorizing hierarchy is disabled
def RC_BAD_AUTH : Nat := 0x9A2       -- TPM_RC_BAD_AUTH + session 1 (hierarchies other than lockout are exempt from DA)
def RC_AUTH_FAIL_S : Nat := 0x98E    -- TPM_RC_AUTH_FAIL + session 1 (lockoutAuth)
def RC_PP : Nat := 0x990             -- TPM_RC_PP + session 1
def RC_DISABLED : Nat := 0x120
def RC_AUTH_TYPE : Nat := 0x124
def RC_AUTH_FAIL : Nat := 0x08E      -- ClearControl(lockout, NO) answers the bare code
def RC_VALUE_P1 : Nat := 0x1C4

def CC_HierarchyControl : Nat := 0x121
def CC_SetPrimaryPolicy : Nat := 0x12E
def CC_ChangePPS : Nat := 0x125
def CC_ChangeEPS : Nat := 0x124
def CC_Clear : Nat := 0x126
def CC_ClearControl : Nat := 0x127
def CC_HierarchyChangeAuth : Nat := 0x129
def CC_PP_Commands : Nat := 0x12D
def CC_SetCommandCodeAuditStatus : Nat := 0x140
def CC_Shutdown : Nat := 0x145

/-- the attribute word of a command (0 for codes outside the table) -/
def attrOf (cc : Nat) : Option Nat := (Gen.ccTable.find? (fun e => e.1 == cc && e.2.2.2.1)).map (·.2.2.2.2)
def isPPCommand (cc : Nat) : Bool := match attrOf cc with | some a => a / 256 % 2 == 1 | none => false
def isPPRequired (cc : Nat) : Bool := match attrOf cc with | some a => a / 4096 % 2 == 1 | none => false
def implemented (cc : Nat) : Bool := (attrOf cc).isSome

inductive Op where
  | changeAuth (ah : H) (new : Bytes)
  | setPolicy (ah : H) (alg : Nat) (digest : Bytes)
  | clearControl (ah : H) (disable : Bool)
  | clear (ah : H)
  | changeEPS
  | changePPS
  | control (ah : H) (en : En) (state : Bool)
  | setAudit (ah : H) (alg : Nat) (set clear : List Nat)
  | ppCommands (set clear : List Nat)
  deriving Repr

def ccOf : Op → Nat
  | .changeAuth .. => CC_HierarchyChangeAuth | .setPolicy .. => CC_SetPrimaryPolicy | .clearControl .. => CC_ClearControl
  | .clear .. => CC_Clear | .changeEPS => CC_ChangeEPS | .changePPS => CC_ChangePPS | .control .. => CC_HierarchyControl
  | .setAudit .. => CC_SetCommandCodeAuditStatus | .ppCommands .. => CC_PP_Commands

def ahOf : Op → H
  | .changeAuth ah _ => ah | .setPolicy ah _ _ => ah | .clearControl ah _ => ah | .clear ah => ah
  | .changeEPS => .platform | .changePPS => .platform | .control ah _ _ => ah | .setAudit ah _ _ _ => ah | .ppCommands _ _ => .platform

/-- the hierarchy of the authorizing handle is enabled -/
def usable (s : St) : H → Bool
  | .owner => s.shEnable | .endorsement => s.ehEnable | _ => true

/-- the checks that precede the command's own code: hierarchy enabled, physical presence, the password -/
def gate (s : St) (op : Op) (pw : Bytes) (ppAsserted : Bool) : Nat :=
  if !usable s (ahOf op) then RC_HIERARCHY
  else if ahOf op = .platform ∧ s.pp (ccOf op) ∧ !ppAsserted then RC_PP
  else if stripZeros pw ≠ s.auth (ahOf op) then (if ahOf op = .lockout then RC_AUTH_FAIL_S else RC_BAD_AUTH)
  else 0

def addAudit (f : Nat → Bool) (ccs : List Nat) : Nat → Bool :=
  ccs.foldl (fun g cc => if implemented cc && cc != CC_Shutdown then setCC g cc true else g) f
def delAudit (f : Nat → Bool) (ccs : List Nat) : Nat → Bool :=
  ccs.foldl (fun g cc => if implemented cc then setCC g cc false else g) f
def addPP (f : Nat → Bool) (ccs : List Nat) : Nat → Bool :=
  ccs.foldl (fun g cc => if isPPCommand cc then setCC g cc true else g) f
def delPP (f : Nat → Bool) (ccs : List Nat) : Nat → Bool :=
  ccs.foldl (fun g cc => if implemented cc && !isPPRequired cc then setCC g cc false else g) f

/-- who may switch what (`TPM2_HierarchyControl`) -/
def controlRefused (s : St) (ah : H) (en : En) (state : Bool) : Bool :=
  match en with
  | .platformNV => ah != .platform
  | .owner => (ah != .platform && ah != .owner) || (!s.shEnable && state && ah != .platform)
  | .endorsement => (ah != .platform && ah != .endorsement) || (!s.ehEnable && state && ah != .platform)

/-- the command's own code: new state and return code -/
def exec (s : St) : Op → St × Nat
  | .changeAuth ah new => ({ s with auth := setH s.auth ah (stripZeros new) }, 0)
  | .setPolicy ah alg digest => ({ s with polAlg := setH s.polAlg ah alg, pol := setH s.pol ah digest }, 0)
  | .clearControl ah disable =>
      if ah = .lockout ∧ !disable then (s, RC_AUTH_FAIL) else ({ s with disableClear := disable }, 0)
  | .clear _ =>
      if s.disableClear then (s, RC_DISABLED) else
      ({ s with auth := fun h => if h = .platform then s.auth h else [],
                polAlg := fun h => if h = .platform then s.polAlg h else 0x10,
                pol := fun h => if h = .platform then s.pol h else [],
                shEnable := true, ehEnable := true,
                seedGen := setH s.seedGen .owner (s.seedGen .owner + 1),
                proofGen := setH (setH s.proofGen .owner (s.proofGen .owner + 1)) .endorsement (s.proofGen .endorsement + 1) }, 0)
  | .changeEPS =>
      ({ s with auth := setH s.auth .endorsement [], polAlg := setH s.polAlg .endorsement 0x10, pol := setH s.pol .endorsement [],
                ehEnable := true, seedGen := setH s.seedGen .endorsement (s.seedGen .endorsement + 1),
                proofGen := setH s.proofGen .endorsement (s.proofGen .endorsement + 1) }, 0)
  | .changePPS =>   -- new seed and proof, the platform policy is dropped (platformAuth stays)
      ({ s with polAlg := setH s.polAlg .platform 0x10, pol := setH s.pol .platform [],
                seedGen := setH s.seedGen .platform (s.seedGen .platform + 1), proofGen := setH s.proofGen .platform (s.proofGen .platform + 1) }, 0)
  | .control ah en state =>
      if controlRefused s ah en state then (s, RC_AUTH_TYPE) else
      (match en with
       | .owner => { s with shEnable := state }
       | .endorsement => { s with ehEnable := state }
       | .platformNV => { s with phEnableNV := state }, 0)
  | .setAudit _ alg set clear =>
      if alg ≠ 0x10 ∧ alg ≠ s.auditAlg then
        (if set ≠ [] ∨ clear ≠ [] then (s, RC_VALUE_P1) else ({ s with auditAlg := alg }, 0))
      else ({ s with audit := delAudit (addAudit s.audit set) clear }, 0)
  | .ppCommands set clear => ({ s with pp := delPP (addPP s.pp set) clear }, 0)

/-- one administrative command as the TPM answers it -/
def step (s : St) (op : Op) (pw : Bytes) (ppAsserted : Bool) : St × Nat :=
  if gate s op pw ppAsserted ≠ 0 then (s, gate s op pw ppAsserted) else exec s op

/-- TPM Reset or Restart (`HierarchyStartup` with anything but SU_RESUME): what lives in `gc` starts again; a power cut
    without Shutdown is a Reset. A Resume keeps everything. -/
def restartClear (s : St) : St :=
  { s with auth := setH s.auth .platform [], polAlg := setH s.polAlg .platform 0x10, pol := setH s.pol .platform [],
           shEnable := true, ehEnable := true, phEnableNV := true }

/-- the persistent part of the state: everything but the platform authorization and the enables -/
structure Persistent where
  ownerAuth : Bytes
  endorsementAuth : Bytes
  lockoutAuth : Bytes
  polAlgs : Nat × Nat × Nat
  pols : Bytes × Bytes × Bytes
  disableClear : Bool
  seeds : Nat × Nat × Nat
  proofs : Nat × Nat × Nat
  auditAlg : Nat

def persistent (s : St) : Persistent :=
  { ownerAuth := s.auth .owner, endorsementAuth := s.auth .endorsement, lockoutAuth := s.auth .lockout,
    polAlgs := (s.polAlg .owner, s.polAlg .endorsement, s.polAlg .lockout), pols := (s.pol .owner, s.pol .endorsement, s.pol .lockout),
    disableClear := s.disableClear, seeds := (s.seedGen .owner, s.seedGen .endorsement, s.seedGen .platform),
    proofs := (s.proofGen .owner, s.proofGen .endorsement, s.proofGen .platform), auditAlg := s.auditAlg }

/-- TPM_PT_PERMANENT bits the model speaks about: ownerAuthSet, endorsementAuthSet, lockoutAuthSet, disableClear -/
def permanentBits (s : St) : Nat :=
  (if s.auth .owner ≠ [] then 1 else 0) + (if s.auth .endorsement ≠ [] then 2 else 0) + (if s.auth .lockout ≠ [] then 4 else 0) +
  (if s.disableClear then 256 else 0)
/-- TPM_PT_STARTUP_CLEAR: phEnable, shEnable, ehEnable, phEnableNV -/
def startupClearBits (s : St) : Nat :=
  1 + (if s.shEnable then 2 else 0) + (if s.ehEnable then 4 else 0) + (if s.phEnableNV then 8 else 0)

end TpmVerif.Model.Admin
