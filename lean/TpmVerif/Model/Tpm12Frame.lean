import TpmVerif.Gen.Tpm12
/-!
  Model of the TPM 1.2 command/response framing, written to follow the C code that exists:
  `tpm12/tpm_process.c` (`TPM_Process`, `TPM_Process_GetCommandParams`, `TPM_Process_Unused`,
  `TPM_OrdinalTable_GetProcessFunction`), `tpm12/tpm_store.c` (`TPM_Sbuffer_StoreInitialResponse`,
  `TPM_Sbuffer_StoreFinalResponse`, `TPM_Sbuffer_AdjustParamSize`, `TPM_Sbuffer_AdjustReturnCode`),
  `tpm12/tpm_sizedbuffer.c` (`TPM_SizedBuffer_Load`) and `tpm12/tpm_load.c`.

  The ordinal bodies are abstract: a body is any function from the parsed header to a return code and the
  output parameters it appended.  The ordinal table and all constants come from `Gen.Tpm12` (regenerated from
  /repo on every run).
-/
namespace TpmVerif.Model.Tpm12.Frame
open TpmVerif.Gen.Tpm12

abbrev Bytes := List UInt8

/-- big-endian stores (`TPM_Sbuffer_Append16/32`) -/
def be16 (n : Nat) : Bytes := [UInt8.ofNat (n / 256), UInt8.ofNat n]
def be32 (n : Nat) : Bytes :=
  [UInt8.ofNat (n / 16777216), UInt8.ofNat (n / 65536), UInt8.ofNat (n / 256), UInt8.ofNat n]

/-- `TPM_Load16`: `none` is the C `TPM_BAD_PARAM_SIZE` (stream shorter than the integer) -/
def rd16 : Bytes → Option (Nat × Bytes)
  | a :: b :: r => some (a.toNat * 256 + b.toNat, r)
  | _ => none
/-- `TPM_Load32` -/
def rd32 : Bytes → Option (Nat × Bytes)
  | a :: b :: c :: d :: r => some (((a.toNat * 256 + b.toNat) * 256 + c.toNat) * 256 + d.toNat, r)
  | _ => none

structure Hdr where
  tag : Nat
  ord : Nat
  body : Bytes
deriving Repr, DecidableEq

/-- `TPM_Process_GetCommandParams`: tag, paramSize, ordinal; `paramSize` must equal the number of bytes
    actually submitted.  The only error it can produce is `TPM_BAD_PARAM_SIZE`. -/
def parseHeader (cmd : Bytes) : Option Hdr :=
  match rd16 cmd with
  | none => none
  | some (tag, r1) =>
    match rd32 r1 with
    | none => none
    | some (paramSize, r2) =>
      match rd32 r2 with
      | none => none
      | some (ord, body) => if paramSize = body.length + 10 then some { tag, ord, body } else none

/-- tag of the request as far as it can be read (0 when the command has fewer than 2 bytes) -/
def reqTag (cmd : Bytes) : Nat := match rd16 cmd with | some (t, _) => t | none => 0

/-- `TPM_Sbuffer_StoreInitialResponse`: response tag chosen from the request tag -/
def respTag (reqTag : Nat) : Nat :=
  if reqTag = TPM_TAG_RQU_COMMAND then TPM_TAG_RSP_COMMAND
  else if reqTag = TPM_TAG_RQU_AUTH1_COMMAND then TPM_TAG_RSP_AUTH1_COMMAND
  else if reqTag = TPM_TAG_RQU_AUTH2_COMMAND then TPM_TAG_RSP_AUTH2_COMMAND
  else TPM_TAG_RSP_COMMAND

def legalTag (t : Nat) : Bool :=
  t == TPM_TAG_RQU_COMMAND || t == TPM_TAG_RQU_AUTH1_COMMAND || t == TPM_TAG_RQU_AUTH2_COMMAND

/-- `TPM_Sbuffer_StoreInitialResponse(response, request_tag, returnCode)` on an empty buffer -/
def storeInitial (reqTag rc : Nat) : Bytes := be16 (respTag reqTag) ++ be32 10 ++ be32 rc

/-- `TPM_Sbuffer_AdjustReturnCode`: the bare error header, always with `TPM_TAG_RSP_COMMAND` -/
def errorResponse (rc : Nat) : Bytes := be16 TPM_TAG_RSP_COMMAND ++ be32 10 ++ be32 rc

/-- `TPM_Sbuffer_AdjustParamSize`: overwrite bytes 2..5 with the actual length -/
def setParamSize (buf : Bytes) : Bytes := buf.take 2 ++ be32 buf.length ++ buf.drop 6

/-- `TPM_Sbuffer_StoreFinalResponse`: returns the final buffer and the final return code -/
def storeFinal (bufMax : Nat) (buf : Bytes) (rc : Nat) : Bytes × Nat :=
  let rc := if buf.length > bufMax then TPM_SIZE else rc
  if rc = 0 then (setParamSize buf, 0) else (errorResponse rc, rc)

/-- the ordinal has a processing function other than `TPM_Process_Unused` -/
def implemented (ord : Nat) : Bool :=
  match ordinalTable.find? (·.1 == ord) with
  | some e => e.2
  | none => false

/-- ordinals whose body ends right after `TPM_Sbuffer_StoreInitialResponse(response, tag, returnCode)` and never calls
    `TPM_Sbuffer_StoreFinalResponse` (so an error keeps the tag matching the request): `TPM_Process_Init`
    (tpm_init.c), which without `TPM_TEST` always answers `TPM_BAD_ORDINAL`. -/
def initialOnly (ord : Nat) : Bool := ord == TPM_ORD_Init

/-- what an ordinal body hands to the framing layer -/
structure BodyOut where
  rc : Nat
  out : Bytes

structure Env where
  /-- `TPM12_GetBufferSize()` -/
  bufMax : Nat
  /-- result of `TPM_Process_Preprocess` (self test on first use, saved-state deletion, locality callback) -/
  pre : Nat := 0

/-- which path `TPM_Process` took (branch id for coverage) -/
inductive Path | parseError | preError | unused | initialOnly | body
deriving Repr, DecidableEq

/-- `TPM_Process`: response bytes, the new value of "testState = FAILURE", and the path taken -/
def process (env : Env) (failed : Bool) (body : Hdr → BodyOut) (cmd : Bytes) : Bytes × Bool × Path :=
  match parseHeader cmd with
  | none =>
      -- error before the ordinal: StoreInitialResponse(TPM_TAG_RQU_COMMAND, rc); StoreFinalResponse
      (errorResponse TPM_BAD_PARAM_SIZE, failed || TPM_BAD_PARAM_SIZE == TPM_FAIL, .parseError)
  | some h =>
    if env.pre ≠ 0 then (errorResponse env.pre, failed || env.pre == TPM_FAIL, .preError)
    else if !implemented h.ord then
      -- TPM_Process_Unused: StoreInitialResponse(tag, TPM_BAD_ORDINAL) and nothing else
      (storeInitial h.tag TPM_BAD_ORDINAL, failed, .unused)
    else if initialOnly h.ord then
      (storeInitial h.tag (body h).rc, failed, .initialOnly)
    else
      let b := body h
      let buf := storeInitial h.tag b.rc ++ (if b.rc = 0 then b.out else [])
      let (rsp, rc) := storeFinal env.bufMax buf b.rc
      (rsp, failed || rc == TPM_FAIL, .body)

/-- response code field of a response (bytes 6..9) -/
def rspCode (r : Bytes) : Option Nat := (rd32 (r.drop 6)).map (·.1)
def rspTag (r : Bytes) : Option Nat := (rd16 r).map (·.1)

/-- The property's notion of a well-formed TPM 1.2 response to a request with tag `reqTag` under a
    negotiated buffer size `bufMax`:  header present; paramSize = length ≤ bufMax; success carries the tag
    matching the request's authorization level; an error is a bare 10-byte header whose tag is
    `TPM_TAG_RSP_COMMAND` or the one matching the request. -/
def wellFormed (bufMax reqTag : Nat) (r : Bytes) : Bool :=
  match rd16 r with
  | none => false
  | some (tag, r1) =>
    match rd32 r1 with
    | none => false
    | some (size, r2) =>
      match rd32 r2 with
      | none => false
      | some (rc, _) =>
        size == r.length && decide (r.length ≤ bufMax) &&
        (if rc = 0 then tag == respTag reqTag
         else r.length == 10 && (tag == TPM_TAG_RSP_COMMAND || tag == respTag reqTag))

/-! ### `TPM_SizedBuffer_Load` on an unsigned 32-bit stream size -/

inductive SbErr | badParamSize | size | fail
deriving Repr, DecidableEq

/-- `TPM_SizedBuffer_Load`: `TPM_Load32` of the size, `TPM_Malloc(size)` (refuses > TPM_ALLOC_MAX),
    `TPM_Loadn` (refuses size > bytes left).  Returns the buffer and the rest of the stream. -/
def sizedBufferLoad (stream : Bytes) : Except SbErr (Bytes × Bytes) :=
  match rd32 stream with
  | none => .error .badParamSize
  | some (size, rest) =>
    if size = 0 then .ok ([], rest)
    else if size > TPM_ALLOC_MAX then .error .size
    else if rest.length < size then .error .badParamSize
    else .ok (rest.take size, rest.drop size)

end TpmVerif.Model.Tpm12.Frame
