import TpmVerif.Gen.Consts
/-!
  Model of libtpms' TPM 2 time keeping, written to follow the C code that exists:
  `Clock.c` (`_plat__RealTime`, `_plat__TimerRead`, `_plat__ClockRateAdjust`, `ClockAdjustPostResume`,
  `_plat__TimerReset`), `Time.c` (`TimeUpdate`, `TimeClockUpdate`, `TimeStartup`, `TimeFillInfo`),
  `ClockCommands.c`, the counter handling of `TPM2_Startup`/`TPM2_Shutdown`, the end-of-command commit of
  `ExecuteCommand`, `_TPM_Init` and the v4 volatile-state tail of `NVMarshal.c`.

  64-bit C arithmetic is modelled on `Nat` with explicit reduction modulo 2^64 at every place where the
  C expression can wrap.
-/
namespace TpmVerif.Model.Clock
open TpmVerif

/-- 2^64 -/
def W : Nat := 18446744073709551616
/-- 2^32 -/
def W32 : Nat := 4294967296

/-- uint64 subtraction a - b -/
def sub64 (a b : Nat) : Nat := (a % W + (W - b % W)) % W
def add64 (a b : Nat) : Nat := (a + b) % W

/-- platform clock state (`PlatformData.c` statics used by `Clock.c`) -/
structure Plat where
  lastSystem : Nat := 0
  lastReported : Nat := 0
  realPrev : Nat := 0
  tpmTime : Nat := 0
  adjustRate : Nat := Gen.CLOCK_NOMINAL
  hostAdj : Nat := 0        -- s_hostMonotonicAdjustTime as uint64 bit pattern
  suspElapsed : Nat := 0    -- s_suspendedElapsedTime
deriving Repr, DecidableEq, Inhabited

/-- `_plat__TimerReset` (the two flags `s_timerReset`/`s_timerStopped` it also sets live in `St`) -/
def Plat.reset (p : Plat) : Plat :=
  { p with lastSystem := 0, tpmTime := 0, adjustRate := Gen.CLOCK_NOMINAL, hostAdj := 0, suspElapsed := 0 }

/-- `_plat__RealTime` for host monotonic reading `mono` (ms) -/
def Plat.realTime (p : Plat) (mono : Nat) : Nat := add64 (add64 mono p.hostAdj) p.suspElapsed

/-- first half of `_plat__TimerRead`: a reported time that is locked to the host clock but never goes backwards -/
def Plat.report (p : Plat) (mono : Nat) : Plat :=
  let timeNow := p.realTime mono
  -- first use after a reset
  let (ls, lr, rp) := if p.lastSystem = 0 then (timeNow, 0, 0) else (p.lastSystem, p.lastReported, p.realPrev)
  let ls := if timeNow < lr then timeNow else ls
  { p with lastReported := sub64 (add64 lr timeNow) ls, lastSystem := timeNow, realPrev := rp }

/-- second half of `_plat__TimerRead`: rate adjustment of the reported-time difference -/
def Plat.adjust (p : Plat) : Plat :=
  if p.realPrev ≥ p.lastReported then p
  else
    let diff := p.lastReported - p.realPrev
    let adj := (diff * Gen.CLOCK_NOMINAL % W) / p.adjustRate
    -- rounded up: the host time accounted for covers the TPM time credited
    let readj := ((adj * p.adjustRate + Gen.CLOCK_NOMINAL - 1) % W) / Gen.CLOCK_NOMINAL
    { p with tpmTime := add64 p.tpmTime adj, realPrev := add64 p.realPrev readj }

/-- `_plat__TimerRead`: returns new platform state and the TPM time -/
def Plat.timerRead (p : Plat) (mono : Nat) : Plat × Nat :=
  let p := (p.report mono).adjust
  (p, p.tpmTime)

/-- `_plat__ClockRateAdjust` on the TPM_CLOCK_ADJUST value (−3..3; 0 = no change) -/
def Plat.rateAdjust (p : Plat) (adj : Int) : Plat :=
  let r : Int := p.adjustRate
  let r := if adj = 3 then r - Gen.CLOCK_ADJUST_COARSE       -- COARSE_FASTER
    else if adj = 2 then r - Gen.CLOCK_ADJUST_MEDIUM
    else if adj = 1 then r - Gen.CLOCK_ADJUST_FINE
    else if adj = -1 then r + Gen.CLOCK_ADJUST_FINE
    else if adj = -2 then r + Gen.CLOCK_ADJUST_MEDIUM
    else if adj = -3 then r + Gen.CLOCK_ADJUST_COARSE
    else r
  let hi : Int := Gen.CLOCK_NOMINAL + Gen.CLOCK_ADJUST_LIMIT
  let lo : Int := Gen.CLOCK_NOMINAL - Gen.CLOCK_ADJUST_LIMIT
  let r := if r > hi then hi else r
  let r := if r < lo then lo else r
  { p with adjustRate := r.toNat }

/-- the part of the NV image (`s_NV`) and of gp/gr that matters for time and counters -/
structure Nv where
  clock : Nat := 0
  safe : Bool := true
  orderly : Nat := Gen.SU_NONE_VALUE
  resetCount : Nat := 0
  grRestart : Nat := 0      -- STATE_RESET_DATA copy written by Shutdown(STATE)
  grClear : Nat := 0
deriving Repr, DecidableEq, Inhabited

structure St where
  p : Plat := {}
  timerStopped : Bool := true   -- s_timerStopped (read-once flag consumed by TimeUpdate)
  started : Bool := false
  gTime : Nat := 0
  clock : Nat := 0          -- go.clock (live)
  safe : Bool := true       -- go.clockSafe (live)
  orderly : Nat := Gen.SU_NONE_VALUE   -- gp.orderlyState (live)
  resetCount : Nat := 0     -- gp.resetCount
  restartCount : Nat := 0   -- gr.restartCount
  clearCount : Nat := 0     -- gr.clearCount
  nv : Nv := {}             -- RAM image of NV
  disk : Nv := {}           -- what the storage callback last accepted
  updateNV : Bool := false  -- g_updateNV ≠ UT_NONE
deriving Repr, DecidableEq, Inhabited

def mask : Nat := 2 ^ Gen.NV_CLOCK_UPDATE_INTERVAL - 1

/-- `x | CLOCK_UPDATE_MASK` -/
def orMask (x : Nat) : Nat := x / (mask + 1) * (mask + 1) + mask

/-- `TimeClockUpdate` -/
def St.clockUpdate (s : St) (newTime : Nat) : St :=
  if orMask newTime > orMask s.clock then
    { s with safe := true, clock := newTime, nv := { s.nv with clock := newTime, safe := true } }
  else { s with clock := newTime }

/-- `TimeUpdate` at host monotonic reading `mono` -/
def St.timeUpdate (s : St) (mono : Nat) : St :=
  let s := if s.timerStopped then { s with timerStopped := false, updateNV := true } else s
  let (p, t) := s.p.timerRead mono
  let elapsed := sub64 t s.gTime
  let s := { s with p := p, gTime := add64 s.gTime elapsed }
  s.clockUpdate (add64 s.clock elapsed)

/-- command entry of `ExecuteCommand`: `g_updateNV = UT_NONE; TimeUpdateToCurrent()` -/
def St.entry (s : St) (mono : Nat) : St :=
  let s := { s with updateNV := false }
  if !s.started then s else s.timeUpdate mono

/-- end of `ExecuteCommand`: commit when `g_updateNV` is set. Returns the state and whether a store happened -/
def St.finish (s : St) : St × Bool :=
  if s.updateNV then ({ s with disk := s.nv, updateNV := false }, true) else (s, false)

structure ClockInfo where
  time : Nat
  clock : Nat
  resetCount : Nat
  restartCount : Nat
  safe : Bool
deriving Repr, DecidableEq

def St.info (s : St) : ClockInfo :=
  { time := s.gTime, clock := s.clock, resetCount := s.resetCount % W32, restartCount := s.restartCount % W32, safe := s.safe }

inductive Cmd where
  | readClock
  | clockSet (v : Nat)
  | rateAdjust (a : Int)
  | startup (su : Nat)
  | shutdown (su : Nat)
  | commitCmd          -- a command that only does NV_SYNC_PERSISTENT of an unrelated field (ClearControl)
  | neutral            -- a command without persistent effect (GetCapability)
deriving Repr, DecidableEq

def RC_VALUE_P1 : Nat := 0x1C4
def RC_INITIALIZE : Nat := 0x100

def isOrderly (v : Nat) : Bool := v < Gen.SU_DA_USED_VALUE

/-- `g_prevOrderlyState` as computed at the top of `TPM2_Startup`: DA_USED counts as NONE, the startup
    modifier flags are stripped from an orderly value -/
def prevOrderly (o : Nat) : Nat :=
  let o := if o = Gen.SU_DA_USED_VALUE then Gen.SU_NONE_VALUE else o
  if isOrderly o then o % Gen.STARTUP_LOCALITY_3 else o

/-- the counter switch of `TPM2_Startup`: Resume / Restart / Reset -/
def St.bumpCounters (s : St) (prev su : Nat) : St :=
  if prev = 1 ∧ su = 1 then { s with restartCount := s.restartCount + 1 }
  else if prev = 1 then { s with clearCount := s.clearCount + 1, restartCount := s.restartCount + 1 }
  else { s with clearCount := 0, resetCount := s.resetCount + 1, restartCount := 0,
                nv := { s.nv with resetCount := s.resetCount + 1 } }

/-- `TPM2_Startup` up to and including `TimeStartup`: clean orderlyState, restore gr after Shutdown(STATE),
    clear `safe` unless the previous shutdown was orderly -/
def St.startupPrep (s : St) (prev : Nat) : St :=
  let s := { s with orderly := prev }
  let s := if prev = 1 then { s with restartCount := s.nv.grRestart, clearCount := s.nv.grClear } else s
  if !isOrderly prev then { s with safe := false } else s

/-- the success path of `TPM2_Startup` -/
def St.startupOk (s : St) (mono su : Nat) : St :=
  let prev := prevOrderly s.orderly
  let s := s.startupPrep prev
  let s := s.timeUpdate mono          -- DAStartup ends with TimeUpdate()
  let s := s.bumpCounters prev su
  { s with orderly := Gen.SU_NONE_VALUE, nv := { s.nv with orderly := Gen.SU_NONE_VALUE },
           updateNV := true, started := true }

/-- the body of `TPM2_Startup` (locality 0, no H-CRTM) -/
def St.startup (s : St) (mono : Nat) (su : Nat) : St × Nat :=
  if su = 1 ∧ prevOrderly s.orderly ≠ 1 then
    ({ s with orderly := if s.orderly = Gen.SU_DA_USED_VALUE then Gen.SU_NONE_VALUE else s.orderly }, RC_VALUE_P1)
  else (s.startupOk mono su, 0)

/-- the body of `TPM2_Shutdown` -/
def St.shutdown (s : St) (su : Nat) : St × Nat :=
  let nv := { s.nv with clock := s.clock, safe := s.safe }
  let nv := if su = 1 then { nv with grRestart := s.restartCount, grClear := s.clearCount } else nv
  let nv := { nv with orderly := su }
  ({ s with orderly := su, nv := nv, updateNV := true }, 0)

/-- the body of `TPM2_ClockSet` -/
def St.clockSet (s : St) (v : Nat) : St × Nat :=
  if v > 0xFFFF000000000000 ∨ v < s.clock then (s, RC_VALUE_P1) else (s.clockUpdate v, 0)

/-- the command handlers -/
def St.body (s : St) (mono : Nat) : Cmd → St × Nat × Option ClockInfo
  | .readClock => (s, 0, some s.info)
  | .clockSet v => ((s.clockSet v).1, (s.clockSet v).2, none)
  | .rateAdjust a => ({ s with p := s.p.rateAdjust a }, 0, none)
  | .startup su => ((s.startup mono su).1, (s.startup mono su).2, none)
  | .shutdown su => ((s.shutdown su).1, (s.shutdown su).2, none)
  | .commitCmd => ({ s with updateNV := true }, 0, none)
  | .neutral => (s, 0, none)

/-- "only TPM2_Startup after _TPM_Init, and never again": TPM_RC_INITIALIZE -/
def St.gateFails (s : St) : Cmd → Bool
  | .startup _ => s.started
  | _ => !s.started

/-- One command through `ExecuteCommand` at host monotonic time `mono`. Result: state, response code,
    clock info for ReadClock, whether storage was written. -/
def St.exec (s : St) (mono : Nat) (c : Cmd) : St × Nat × Option ClockInfo × Bool :=
  let s1 := s.entry mono
  if s1.gateFails c then (s1.finish.1, RC_INITIALIZE, none, s1.finish.2)
  else
    let r := s1.body mono c
    (r.1.finish.1, r.2.1, r.2.2, r.1.finish.2)

/-- `TPMLIB_Terminate` + `TPMLIB_MainInit` from what storage holds (power cut or orderly restart):
    `_plat__TimerReset`, `_TPM_Init` reads gp and go from NV, `TimePowerOn`. -/
def St.restart (s : St) (mono : Nat) : St :=
  let p := s.p.reset
  let (p, t) := p.timerRead mono
  { s with p := p, timerStopped := true, started := false, gTime := t, clock := s.disk.clock, safe := s.disk.safe,
           orderly := s.disk.orderly, resetCount := s.disk.resetCount, nv := s.disk, updateNV := false }

/-- what the volatile blob carries of the clock (v4 tail) -/
structure Saved where
  st : St
  monoPlusAdj : Nat      -- ClockGetTime(MONOTONIC) + s_hostMonotonicAdjustTime at save
  realAtSave : Nat       -- ClockGetTime(REALTIME) at save ("backthen")
deriving Repr

def St.suspend (s : St) (mono real : Nat) : Saved :=
  { st := s, monoPlusAdj := add64 mono s.p.hostAdj, realAtSave := real }

/-- resume on a host whose clocks read `mono'`/`real'`: VolatileState tail v4 restore followed by
    `ClockAdjustPostResume(backthen, FALSE)`; the final `NvCommit` of `TPM2_MainInit`. -/
def resume (sv : Saved) (mono' real' : Nat) : St :=
  let s := sv.st
  let hostAdj := sub64 sv.monoPlusAdj mono'
  let susp := if real' ≥ sv.realAtSave then add64 s.p.suspElapsed (real' - sv.realAtSave) else s.p.suspElapsed
  { s with p := { s.p with hostAdj := hostAdj, suspElapsed := susp }, disk := s.nv, updateNV := false,
           orderly := s.nv.orderly, resetCount := s.nv.resetCount }

end TpmVerif.Model.Clock
