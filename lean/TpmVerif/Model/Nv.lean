import TpmVerif.Base.Bytes
import TpmVerif.Gen.Nv
/-!
  TPM 2 NV indices (`NVCommands.c`, `NV_spt.c`, `NVDynamic.c`, the PIN-index part of `SessionProcess.c:CheckAuthSession`).
  Generic in the hash function `H alg data` (extend indices, names); passwords are always given correctly by the
  harness, so authorization here is *availability* (may this entity's authValue / the owner / the platform be used for
  this command at all) — the cryptographic side is C04.

  An index lives in `idx` with its live attributes and data. For TPMA_NV_ORDERLY indices the live copy is RAM; `saved`
  is the copy in NV (written at define/delete of an orderly index, at the first write of an orderly counter, when an
  orderly counter crosses a multiple of MAX_ORDERLY_COUNT+1, and at every Shutdown).
-/
namespace TpmVerif.Model.Nv
open TpmVerif
open TpmVerif.Gen.Nv

abbrev HashFn := Nat → Bytes → Bytes

def bit (m i : Nat) : Bool := m.testBit i
def setBit (m i : Nat) : Nat := m ||| 2 ^ i
def clrBit (m i : Nat) : Nat := m ^^^ (m &&& 2 ^ i)

-- TPMA_NV bit positions
def B_PPWRITE := 0
def B_OWNERWRITE := 1
def B_AUTHWRITE := 2
def B_POLICYWRITE := 3
def B_POLICY_DELETE := 10
def B_WRITELOCKED := 11
def B_WRITEALL := 12
def B_WRITEDEFINE := 13
def B_WRITE_STCLEAR := 14
def B_GLOBALLOCK := 15
def B_PPREAD := 16
def B_OWNERREAD := 17
def B_AUTHREAD := 18
def B_POLICYREAD := 19
def B_NO_DA := 25
def B_ORDERLY := 26
def B_CLEAR_STCLEAR := 27
def B_READLOCKED := 28
def B_WRITTEN := 29
def B_PLATFORMCREATE := 30
def B_READ_STCLEAR := 31

def ntOf (attrs : Nat) : Nat := attrs / 16 % 16

def RH_OWNER : Nat := 0x40000001
def RH_PLATFORM : Nat := 0x4000000C

structure Idx where
  handle : Nat
  nameAlg : Nat
  attrs : Nat
  policy : Bytes
  size : Nat
  auth : Bytes
  data : Bytes
  deriving Repr, DecidableEq

structure St where
  idx : List Idx := []
  maxCount : Nat := 0
  saved : List (Nat × Nat × Bytes) := []      -- orderly indices in NV: handle, attributes, data
  evictBytes : Nat := 0                        -- NV bytes used by persistent objects (reported by the harness)
  evictCount : Nat := 0

def St.find (s : St) (h : Nat) : Option Idx := s.idx.find? (·.handle == h)
def St.update (s : St) (i : Idx) : St := { s with idx := s.idx.map (fun x => if x.handle == i.handle then i else x) }

def digestSize (alg : Nat) : Nat :=
  if alg = 0x0004 then 20 else if alg = 0x000B then 32 else if alg = 0x000C then 48 else if alg = 0x000D then 64 else 0

def stripZeros (b : Bytes) : Bytes := (b.reverse.dropWhile (· == 0)).reverse

/-- the orderly RAM image as it would be written to NV now -/
def snapshot (s : St) : List (Nat × Nat × Bytes) :=
  (s.idx.filter (fun i => bit i.attrs B_ORDERLY)).map (fun i => (i.handle, i.attrs, i.data))
def snap (s : St) : St := { s with saved := snapshot s }

/-! ### Space accounting (`NvTestSpace`, `NvRamTestSpaceIndex`) -/

def entrySize (i : Idx) : Nat := 4 + SIZEOF_NV_INDEX + (if bit i.attrs B_ORDERLY then 0 else i.size)
def usedBytes (s : St) : Nat := (s.idx.map entrySize).foldl (· + ·) 0 + s.evictBytes
def freeBytes (s : St) : Nat := NV_MEMORY_SIZE - NV_USER_DYNAMIC - usedBytes s
def counterNum (s : St) : Nat := (s.idx.filter (fun i => ntOf i.attrs == TPM_NT_COUNTER)).length
def ramUsed (s : St) : Nat := ((s.idx.filter (fun i => bit i.attrs B_ORDERLY)).map (fun i => SIZEOF_NV_RAM_HEADER + i.size)).foldl (· + ·) 0

def testSpaceIndex (s : St) (size : Nat) (isCounter : Bool) : Bool :=
  let remain := freeBytes s
  let reserved := 4 + SIZEOF_LIST_TERMINATOR
    + (if s.evictCount < MIN_EVICT_OBJECTS then (MIN_EVICT_OBJECTS - s.evictCount) * NV_EVICT_OBJECT_SIZE else 0)
    + (if !isCounter ∧ counterNum s < MIN_COUNTER_INDICES then (MIN_COUNTER_INDICES - counterNum s) * NV_INDEX_COUNTER_SIZE else 0)
  decide (reserved < remain) && decide (size ≤ remain) && decide (size + reserved ≤ remain)

/-! ### TPM2_NV_DefineSpace -/

structure Pub where
  handle : Nat
  nameAlg : Nat
  attrs : Nat
  policy : Bytes
  size : Nat

def rcPub : Nat → Nat := fun base => base + RC_NV_DefineSpace_publicInfo

/-- first condition that holds decides -/
def firstHit : List (Bool × Nat) → Option Nat
  | [] => none
  | (c, rc) :: rest => if c then some rc else firstHit rest

/-- the attribute and size checks of NV_DefineSpace, in the order of the code: (condition, return code) -/
def defineTable (authHandle : Nat) (auth : Bytes) (p : Pub) : List (Bool × Nat) :=
  let a := p.attrs
  let nameSize := digestSize p.nameAlg
  let nt := ntOf a
  [ -- parameter unmarshalling comes first: a TPM2B_AUTH holds at most the largest digest (64 bytes), an NV index at most MAX_NV_INDEX_SIZE
    (decide (auth.length > 64), TPM_RC_SIZE + RC_NV_DefineSpace_auth),
    (decide (p.size > MAX_NV_INDEX_SIZE), rcPub TPM_RC_SIZE),
    -- then the checks of the command itself
    (decide (p.policy.length ≠ 0 ∧ p.policy.length ≠ nameSize), rcPub TPM_RC_SIZE),
    (decide ((stripZeros auth).length > nameSize), TPM_RC_SIZE + RC_NV_DefineSpace_auth),
    (decide (nt ≠ TPM_NT_ORDINARY ∧ nt ≠ TPM_NT_COUNTER ∧ nt ≠ TPM_NT_BITS ∧ nt ≠ TPM_NT_EXTEND ∧ nt ≠ TPM_NT_PIN_PASS ∧ nt ≠ TPM_NT_PIN_FAIL),
      rcPub TPM_RC_ATTRIBUTES),
    (decide (nt = TPM_NT_ORDINARY ∧ p.size > MAX_NV_INDEX_SIZE), rcPub TPM_RC_SIZE),
    (decide (nt = TPM_NT_EXTEND ∧ p.size ≠ nameSize), rcPub TPM_RC_SIZE),
    (decide (nt ≠ TPM_NT_ORDINARY ∧ nt ≠ TPM_NT_EXTEND ∧ p.size ≠ 8), rcPub TPM_RC_SIZE),
    (decide (nt = TPM_NT_COUNTER) && bit a B_CLEAR_STCLEAR, rcPub TPM_RC_ATTRIBUTES),
    (decide (nt = TPM_NT_PIN_FAIL) && !bit a B_NO_DA, rcPub TPM_RC_ATTRIBUTES),
    (decide (nt = TPM_NT_PIN_FAIL ∨ nt = TPM_NT_PIN_PASS) && (bit a B_AUTHWRITE || bit a B_GLOBALLOCK || bit a B_WRITEDEFINE), rcPub TPM_RC_ATTRIBUTES),
    (bit a B_WRITTEN || bit a B_WRITELOCKED || bit a B_READLOCKED, rcPub TPM_RC_ATTRIBUTES),
    (!bit a B_OWNERREAD && !bit a B_PPREAD && !bit a B_AUTHREAD && !bit a B_POLICYREAD, rcPub TPM_RC_ATTRIBUTES),
    (!bit a B_OWNERWRITE && !bit a B_PPWRITE && !bit a B_AUTHWRITE && !bit a B_POLICYWRITE, rcPub TPM_RC_ATTRIBUTES),
    (bit a B_CLEAR_STCLEAR && bit a B_WRITEDEFINE, rcPub TPM_RC_ATTRIBUTES),
    ((bit a B_PLATFORMCREATE && decide (authHandle = RH_OWNER)) || (!bit a B_PLATFORMCREATE && decide (authHandle = RH_PLATFORM)),
      TPM_RC_ATTRIBUTES + RC_NV_DefineSpace_authHandle),
    (bit a B_POLICY_DELETE && decide (authHandle ≠ RH_PLATFORM), rcPub TPM_RC_ATTRIBUTES),
    (decide (p.size > MAX_NV_BUFFER_SIZE) && bit a B_WRITEALL, rcPub TPM_RC_SIZE) ]

def defineChecks (authHandle : Nat) (auth : Bytes) (p : Pub) : Option Nat := firstHit (defineTable authHandle auth p)

/-- the index a successful definition creates: exactly the given public area, authValue without trailing zeros -/
def newIdx (auth : Bytes) (p : Pub) : Idx :=
  { handle := p.handle, nameAlg := p.nameAlg, attrs := p.attrs, policy := p.policy, size := p.size,
    auth := stripZeros auth, data := List.replicate p.size 0 }

def addIdx (s : St) (i : Idx) : St :=
  let s' := { s with idx := s.idx ++ [i] }
  if bit i.attrs B_ORDERLY then snap s' else s'

/-- existence and space: (condition, return code) -/
def spaceTable (s : St) (p : Pub) : List (Bool × Nat) :=
  let orderly := bit p.attrs B_ORDERLY
  let entry := SIZEOF_NV_INDEX + (if orderly then 0 else p.size)
  [ ((s.find p.handle).isSome, TPM_RC_NV_DEFINED),
    (!testSpaceIndex s entry (ntOf p.attrs == TPM_NT_COUNTER), TPM_RC_NV_SPACE),
    (orderly && decide (RAM_INDEX_SPACE - ramUsed s < SIZEOF_NV_RAM_HEADER + p.size), TPM_RC_NV_SPACE) ]

/-- every reason NV_DefineSpace has to refuse, in the order of the code; `none` = the index is created -/
def defineRefusal (s : St) (authHandle : Nat) (auth : Bytes) (p : Pub) : Option Nat :=
  firstHit (defineTable authHandle auth p ++ spaceTable s p)

def defineSpace (s : St) (authHandle : Nat) (auth : Bytes) (p : Pub) : St × Nat :=
  match defineRefusal s authHandle auth p with
  | some rc => (s, rc)
  | none => (addIdx s (newIdx auth p), 0)

/-! ### Deleting -/

def beNat8 (d : Bytes) : Nat := beNat (d.take 8)
def be64n (n : Nat) : Bytes := be64 (n % 18446744073709551616)

/-- `NvDeleteIndex`: a written counter hands its value to the TPM-wide maximum first -/
def deleteIdx (s : St) (i : Idx) : St :=
  let mc := if ntOf i.attrs = TPM_NT_COUNTER ∧ bit i.attrs B_WRITTEN then max s.maxCount (beNat8 i.data) else s.maxCount
  let s' := { s with idx := s.idx.filter (·.handle ≠ i.handle), maxCount := mc }
  if bit i.attrs B_ORDERLY then snap s' else s'

def undefineSpace (s : St) (authHandle h : Nat) : St × Nat :=
  match s.find h with
  | none => (s, TPM_RC_HANDLE + 0x200)
  | some i =>
    if bit i.attrs B_POLICY_DELETE then (s, TPM_RC_ATTRIBUTES + RC_NV_UndefineSpace_nvIndex) else
    if authHandle = RH_OWNER ∧ bit i.attrs B_PLATFORMCREATE then (s, TPM_RC_NV_AUTHORIZATION) else
    (deleteIdx s i, 0)

/-- TPM2_Clear: every index that was not created by the platform goes (`NvFlushHierarchy(TPM_RH_OWNER)`) -/
def clearOwner (s : St) : St :=
  (s.idx.filter (fun i => !bit i.attrs B_PLATFORMCREATE)).foldl deleteIdx s

/-! ### Authorization availability and access checks -/

def isWriteCmd : Nat → Bool := fun cc => cc == 0x137 || cc == 0x134 || cc == 0x135 || cc == 0x136 || cc == 0x138

/-- `IsAuthValueAvailable` for the index's own authValue -/
def indexAuthAvail (i : Idx) (cc : Nat) : Bool :=
  if isWriteCmd cc then bit i.attrs B_AUTHWRITE
  else if ntOf i.attrs = TPM_NT_PIN_FAIL ∨ ntOf i.attrs = TPM_NT_PIN_PASS then
    bit i.attrs B_WRITTEN && decide (beNat (i.data.take 4) < beNat ((i.data.drop 4).take 4))
  else bit i.attrs B_AUTHREAD

/-- the PIN bookkeeping of `CheckAuthSession` after a (correct) use of the index's authValue -/
def pinAfterAuth (i : Idx) : Idx :=
  if !bit i.attrs B_WRITTEN then i else
  if ntOf i.attrs = TPM_NT_PIN_FAIL then { i with data := be32 0 ++ i.data.drop 4 }
  else if ntOf i.attrs = TPM_NT_PIN_PASS then { i with data := be32 (beNat (i.data.take 4) + 1) ++ i.data.drop 4 }
  else i

def readAccess (authHandle : Nat) (i : Idx) : Nat :=
  if bit i.attrs B_READLOCKED then TPM_RC_NV_LOCKED
  else if authHandle = RH_OWNER ∧ !bit i.attrs B_OWNERREAD then TPM_RC_NV_AUTHORIZATION
  else if authHandle = RH_PLATFORM ∧ !bit i.attrs B_PPREAD then TPM_RC_NV_AUTHORIZATION
  else if authHandle ≠ RH_OWNER ∧ authHandle ≠ RH_PLATFORM ∧ authHandle ≠ i.handle then TPM_RC_NV_AUTHORIZATION
  else if !bit i.attrs B_WRITTEN then TPM_RC_NV_UNINITIALIZED else 0

def writeAccess (authHandle : Nat) (i : Idx) : Nat :=
  if bit i.attrs B_WRITELOCKED then TPM_RC_NV_LOCKED
  else if authHandle = RH_OWNER ∧ !bit i.attrs B_OWNERWRITE then TPM_RC_NV_AUTHORIZATION
  else if authHandle = RH_PLATFORM ∧ !bit i.attrs B_PPWRITE then TPM_RC_NV_AUTHORIZATION
  else if authHandle ≠ RH_OWNER ∧ authHandle ≠ RH_PLATFORM ∧ authHandle ≠ i.handle then TPM_RC_NV_AUTHORIZATION
  else 0

/-- what every command on an index does first: the index must exist, and when it authorizes itself its authValue must
    be usable for this command; a used authValue moves the PIN counters -/
def enter (s : St) (authHandle h cc : Nat) : Except Nat (St × Idx) :=
  match s.find h with
  | none => .error (TPM_RC_HANDLE + 0x200)
  | some i =>
    if authHandle = h then
      if !indexAuthAvail i cc then .error TPM_RC_AUTH_UNAVAILABLE
      else let i' := pinAfterAuth i; .ok (s.update i', i')
    else .ok (s, i)

/-- `NvWriteIndexData`: the first write sets WRITTEN and fills an ordinary index (0xFF in NV, 0 in orderly RAM) -/
def writeData (s : St) (i : Idx) (offset : Nat) (d : Bytes) : St :=
  let first := !bit i.attrs B_WRITTEN
  let orderly := bit i.attrs B_ORDERLY
  let base : Bytes := if first ∧ ntOf i.attrs = TPM_NT_ORDINARY then List.replicate i.size (if orderly then 0 else 0xFF)
    else if first ∧ !orderly then List.replicate i.size 0xFF else i.data
  let data := base.take offset ++ d ++ base.drop (offset + d.length)
  let i' := { i with attrs := setBit i.attrs B_WRITTEN, data := data }
  let s' := s.update i'
  if first ∧ orderly ∧ ntOf i.attrs = TPM_NT_COUNTER then snap s' else s'

/-! ### The commands -/

def nvWrite (s : St) (authHandle h : Nat) (d : Bytes) (offset : Nat) : St × Nat :=
  match enter s authHandle h 0x137 with
  | .error rc => (s, rc)
  | .ok (s, i) =>
    let rc := writeAccess authHandle i
    if rc ≠ 0 then (s, rc) else
    let nt := ntOf i.attrs
    if nt = TPM_NT_COUNTER ∨ nt = TPM_NT_BITS ∨ nt = TPM_NT_EXTEND then (s, TPM_RC_ATTRIBUTES) else
    if offset > i.size then (s, TPM_RC_VALUE + RC_NV_Write_offset) else
    if d.length > i.size - offset then (s, TPM_RC_NV_RANGE) else
    if bit i.attrs B_WRITEALL ∧ d.length < i.size then (s, TPM_RC_NV_RANGE) else
    (writeData s i offset d, 0)

def nvIncrement (s : St) (authHandle h : Nat) : St × Nat :=
  match enter s authHandle h 0x134 with
  | .error rc => (s, rc)
  | .ok (s, i) =>
    let rc := writeAccess authHandle i
    if rc ≠ 0 then (s, rc) else
    if ntOf i.attrs ≠ TPM_NT_COUNTER then (s, TPM_RC_ATTRIBUTES + RC_NV_Increment_nvIndex) else
    let c := (if bit i.attrs B_WRITTEN then beNat8 i.data else s.maxCount) + 1
    let s' := writeData s i 0 (be64n c)
    (if bit i.attrs B_ORDERLY ∧ c % (MAX_ORDERLY_COUNT + 1) = 0 then snap s' else s', 0)

def nvExtend (H : HashFn) (s : St) (authHandle h : Nat) (d : Bytes) : St × Nat :=
  match enter s authHandle h 0x136 with
  | .error rc => (s, rc)
  | .ok (s, i) =>
    let rc := writeAccess authHandle i
    if rc ≠ 0 then (s, rc) else
    if ntOf i.attrs ≠ TPM_NT_EXTEND then (s, TPM_RC_ATTRIBUTES + RC_NV_Extend_nvIndex) else
    let old := if bit i.attrs B_WRITTEN then i.data.take (digestSize i.nameAlg) else List.replicate (digestSize i.nameAlg) 0
    (writeData s i 0 (H i.nameAlg (old ++ d)), 0)

def orBytes (a b : Bytes) : Bytes := List.zipWith (· ||| ·) a b

def nvSetBits (s : St) (authHandle h : Nat) (bits : Bytes) : St × Nat :=
  match enter s authHandle h 0x135 with
  | .error rc => (s, rc)
  | .ok (s, i) =>
    let rc := writeAccess authHandle i
    if rc ≠ 0 then (s, rc) else
    if ntOf i.attrs ≠ TPM_NT_BITS then (s, TPM_RC_ATTRIBUTES + RC_NV_SetBits_nvIndex) else
    let old := if bit i.attrs B_WRITTEN then i.data.take 8 else List.replicate 8 0
    (writeData s i 0 (orBytes old bits), 0)

def nvWriteLock (s : St) (authHandle h : Nat) : St × Nat :=
  match enter s authHandle h 0x138 with
  | .error rc => (s, rc)
  | .ok (s, i) =>
    let rc := writeAccess authHandle i
    if rc = TPM_RC_NV_AUTHORIZATION then (s, rc) else
    if rc ≠ 0 then (s, 0) else
    if !bit i.attrs B_WRITEDEFINE ∧ !bit i.attrs B_WRITE_STCLEAR then (s, TPM_RC_ATTRIBUTES + RC_NV_WriteLock_nvIndex) else
    (s.update { i with attrs := setBit i.attrs B_WRITELOCKED }, 0)

/-- TPM2_NV_GlobalWriteLock -/
def globalLock (s : St) : St :=
  { s with idx := s.idx.map (fun i => if bit i.attrs B_GLOBALLOCK then { i with attrs := setBit i.attrs B_WRITELOCKED } else i) }

def nvRead (s : St) (authHandle h size offset : Nat) : St × Nat × Bytes :=
  match enter s authHandle h 0x14E with
  | .error rc => (s, rc, [])
  | .ok (s, i) =>
    let rc := readAccess authHandle i
    if rc ≠ 0 then (s, rc, []) else
    if size > MAX_NV_BUFFER_SIZE then (s, TPM_RC_VALUE + RC_NV_Read_size, []) else
    if offset > i.size then (s, TPM_RC_VALUE + RC_NV_Read_offset, []) else
    if size > i.size - offset then (s, TPM_RC_NV_RANGE, []) else
    (s, 0, (i.data.drop offset).take size)

/-- `TPM2_NV_Certify` (unsigned: signHandle TPM_RH_NULL): the read access checks of NV_Read, then the range, then the
    buffer limit; the attested structure carries these bytes, the offset and the index Name -/
def RC_NV_Certify_size : Nat := 0x340        -- TPM_RC_P + parameter 3
def nvCertify (s : St) (authHandle h size offset : Nat) : St × Nat × Bytes :=
  match enter s authHandle h 0x184 with
  | .error rc => (s, rc, [])
  | .ok (s, i) =>
    let rc := readAccess authHandle i
    if rc ≠ 0 then (s, rc, []) else
    if size + offset > i.size then (s, TPM_RC_NV_RANGE, []) else
    if size > MAX_NV_BUFFER_SIZE then (s, TPM_RC_VALUE + RC_NV_Certify_size, []) else
    (s, 0, (i.data.drop offset).take size)

def nvReadLock (s : St) (authHandle h : Nat) : St × Nat :=
  match enter s authHandle h 0x14F with
  | .error rc => (s, rc)
  | .ok (s, i) =>
    let rc := readAccess authHandle i
    if rc = TPM_RC_NV_AUTHORIZATION then (s, rc) else
    if rc = TPM_RC_NV_LOCKED then (s, 0) else
    if !bit i.attrs B_READ_STCLEAR then (s, TPM_RC_ATTRIBUTES + RC_NV_ReadLock_nvIndex) else
    (s.update { i with attrs := setBit i.attrs B_READLOCKED }, 0)

/-! ### Restarts -/

inductive Kind where | reset | restart | resume
  deriving Repr, DecidableEq

/-- does this index lose TPMA_NV_WRITTEN at this kind of startup? -/
def loseWritten (a : Nat) (k : Kind) : Bool :=
  ntOf a != TPM_NT_COUNTER && (bit a B_CLEAR_STCLEAR || (bit a B_ORDERLY && k == .reset))

/-- `NvSetStartupAttributes`: READLOCKED always ends; WRITTEN ends for CLEAR_STCLEAR indices and (at TPM Reset) for
    orderly non-counters; WRITELOCKED survives only on a still-written WRITEDEFINE index -/
def startupAttrs (a : Nat) (k : Kind) : Nat :=
  let a1 := clrBit a B_READLOCKED
  let a2 := if loseWritten a k then clrBit a1 B_WRITTEN else a1
  if bit a B_WRITTEN && !loseWritten a k && bit a B_WRITEDEFINE then a2 else clrBit a2 B_WRITELOCKED

/-- `counter |= MAX_ORDERLY_COUNT` (MAX_ORDERLY_COUNT + 1 is a power of two): the last value of the current block -/
def orMax (c : Nat) : Nat := c / (MAX_ORDERLY_COUNT + 1) * (MAX_ORDERLY_COUNT + 1) + MAX_ORDERLY_COUNT

/-- power is cut: the live copy of the orderly indices is lost, the NV copy comes back -/
def powerCut (s : St) : St :=
  { s with idx := s.idx.map (fun i =>
      if bit i.attrs B_ORDERLY then
        match s.saved.find? (·.1 == i.handle) with
        | some (_, a, d) => { i with attrs := a, data := d }
        | none => i
      else i) }

/-- `NvEntityStartup`. `prevNone` = the previous stop was not orderly (no Shutdown, or its effect was undone) -/
def startup (s : St) (k : Kind) (prevNone : Bool) : St :=
  if k = .resume then s else
  { s with idx := s.idx.map (fun i =>
      let a := startupAttrs i.attrs k
      let d := if bit i.attrs B_ORDERLY ∧ ntOf a = TPM_NT_COUNTER ∧ prevNone
        then be64n (orMax (beNat8 i.data)) ++ i.data.drop 8 else i.data
      { i with attrs := a, data := d }) }

/-- TPM2_Shutdown (either type) writes the orderly RAM to NV -/
def shutdown (s : St) : St := snap s

/-! ### Names -/

/-- marshalled TPMS_NV_PUBLIC -/
def marshalPub (i : Idx) : Bytes :=
  be32 i.handle ++ be16 i.nameAlg ++ be32 i.attrs ++ be16 i.policy.length ++ i.policy ++ be16 i.size

def nameOf (H : HashFn) (i : Idx) : Bytes := be16 i.nameAlg ++ H i.nameAlg (marshalPub i)

end TpmVerif.Model.Nv
