import TpmVerif.Base.Bytes
import TpmVerif.Gen.Profile
/-!
  The runtime profile of a TPM 2 (`RuntimeCommands.c`, the name/min-size part of `RuntimeAlgorithm.c`, the
  StateFormatLevel rules of `RuntimeProfile.c`).

  * Commands: exact model of `RuntimeCommandsSetProfile` (range list parsing with `strtoul(…, 0)`, validation against
    the generated `s_CommandProperties`, required commands, StateFormatLevel) and of `RuntimeCommandsPrint`.
  * Algorithms: the list is split at commas; plain names enable algorithms/curves, `<alg>-min-size=<n>` sets minimum key
    sizes, `ecc-nist`/`ecc-bn` enable the curves with that prefix. Everything is validated against the generated tables.
-/
namespace TpmVerif.Model.Profile
open TpmVerif
open TpmVerif.Gen.Profile

/-! ### Numbers as `strtoul(s, &end, 0)` reads them (no leading white space or sign: the harness never produces them) -/

def hexVal (c : Char) : Option Nat :=
  if c.isDigit then some (c.toNat - '0'.toNat)
  else if 'a' ≤ c ∧ c ≤ 'f' then some (c.toNat - 'a'.toNat + 10)
  else if 'A' ≤ c ∧ c ≤ 'F' then some (c.toNat - 'A'.toNat + 10) else none

/-- digits in `base` from the front; returns the value and the rest; `none` if there is no digit -/
def readDigits (base : Nat) : List Char → Nat → Bool → Option (Nat × List Char)
  | [], acc, seen => if seen then some (acc, []) else none
  | c :: r, acc, seen =>
    match hexVal c with
    | some d => if d < base then readDigits base r (acc * base + d) true else (if seen then some (acc, c :: r) else none)
    | none => if seen then some (acc, c :: r) else none

/-- base 0: `0x`/`0X` prefix = hexadecimal, leading `0` = octal, else decimal -/
def strtoul0 (s : List Char) : Option (Nat × List Char) :=
  match s with
  | '0' :: x :: r =>
    if x == 'x' || x == 'X' then
      (match readDigits 16 r 0 false with
       | some v => some v
       | none => some (0, x :: r))          -- "0x" without digits: the "0" is the number
    else readDigits 8 ('0' :: x :: r) 0 false
  | _ => readDigits 10 s 0 false

/-- `parseRange`: `lo` or `lo-hi`, then the token must end -/
def parseRange (tok : List Char) : Option (Nat × Nat) :=
  match strtoul0 tok with
  | none => none
  | some (lo, r) =>
    if lo ≥ 4294967296 then none else
    match r with
    | [] => some (lo, lo)
    | '-' :: r' =>
      match strtoul0 r' with
      | some (hi, []) => if hi ≥ 4294967296 then none else some (lo, hi)
      | _ => none
    | _ => none

def splitOn (sep : Char) (s : List Char) : List (List Char) :=
  let rec go : List Char → List Char → List (List Char)
    | [], cur => [cur.reverse]
    | c :: r, cur => if c == sep then cur.reverse :: go r [] else go r (c :: cur)
  go s []

/-! ### Commands -/

structure CmdProp where
  cc : Nat
  impl : Bool
  canDisable : Bool
  sfl : Nat

def cmdProp (cc : Nat) : Option CmdProp :=
  (cmdProps.find? (·.1 == cc)).map (fun (c, i, d, s) => { cc := c, impl := i, canDisable := d, sfl := s })

def inTable (cc : Nat) : Bool := (cmdProp cc).isSome

def rangeCodes (lo hi : Nat) : List Nat := (List.range (hi + 1 - lo)).map (· + lo)
def codeOk (maxSfl cc : Nat) : Bool := match cmdProp cc with | some p => p.impl && decide (p.sfl ≤ maxSfl) | none => false

/-- one range: both ends in the table, every code in it implemented and allowed at this StateFormatLevel -/
def expandRange (lo hi maxSfl : Nat) : Option (List Nat) :=
  if inTable lo && inTable hi && (rangeCodes lo hi).all (codeOk maxSfl) then some (rangeCodes lo hi) else none

/-- one token of the list: a range whose codes are all implemented and allowed -/
def expandTok (maxSfl : Nat) (tok : List Char) : Option (List Nat) :=
  match parseRange tok with
  | some (lo, hi) => expandRange lo hi maxSfl
  | none => none

def expandAll (maxSfl : Nat) : List (List Char) → Option (List Nat)
  | [] => some []
  | t :: ts =>
    match expandTok maxSfl t, expandAll maxSfl ts with
    | some a, some b => some (a ++ b)
    | _, _ => none

/-- every implemented command that cannot be disabled is in the list -/
def requiredPresent (en : List Nat) : Bool :=
  cmdProps.all (fun (cc, impl, canDis, _) => !impl || canDis || en.contains cc)

def levelOf (en : List Nat) : Nat := (en.map (fun cc => ((cmdProp cc).map (·.sfl)).getD 0)).foldl max 0

/-- `RuntimeCommandsSetProfile`: the enabled commands and the StateFormatLevel they need, or `none` (TPM_RC_VALUE) -/
def setCommands (profile : List Char) (maxSfl : Nat) : Option (List Nat × Nat) :=
  match expandAll maxSfl (splitOn ',' profile) with
  | none => none
  | some en => if requiredPresent en then some (en, levelOf en) else none

def enabledCmd (en : List Nat) (cc : Nat) : Bool := en.contains cc

/-- `RuntimeCommandsPrint` (enabled commands): maximal runs of consecutive enabled codes as `0xlo-0xhi` -/
def hexDigits (n : Nat) : List Char := (Nat.toDigits 16 n)
def printRun (lo hi : Nat) : List Char :=
  if lo = hi then "0x".toList ++ hexDigits lo else "0x".toList ++ hexDigits lo ++ ['-'] ++ "0x".toList ++ hexDigits hi

/-- runs of the codes of the table that are enabled, in table order -/
def runs (en : List Nat) : List (Nat × Nat) :=
  let (acc, cur) := (cmdProps.map (·.1)).foldl (fun (st : List (Nat × Nat) × Option (Nat × Nat)) cc =>
    let (acc, cur) := st
    if en.contains cc then
      match cur with
      | some (lo, hi) => if cc = hi + 1 then (acc, some (lo, cc)) else (acc ++ [(lo, hi)], some (cc, cc))
      | none => (acc, some (cc, cc))
    else
      match cur with
      | some r => (acc ++ [r], none)
      | none => (acc, none)) ([], none)
  match cur with | some r => acc ++ [r] | none => acc

def printCommands (en : List Nat) : List Char :=
  ((runs en).map (fun (lo, hi) => printRun lo hi)).intersperse [','] |>.flatten

/-! ### Algorithms (names and minimum sizes) -/

structure Algs where
  enabled : List Nat := []          -- algorithm ids
  curves : List Nat := []           -- curve ids
  minSize : List (Nat × Nat) := []  -- (algorithm id, minimum key size) given explicitly
  level : Nat := 0                  -- the StateFormatLevel the listed items need
  deriving Repr

def algByName (n : String) : Option (Nat × String × Bool × Nat × Bool) := algProps.find? (·.2.1 == n)
def curveByName (n : String) : Option (Nat × String × Nat × Bool) := eccProps.find? (·.2.1 == n)

def readDec (s : List Char) : Option Nat :=
  match readDigits 10 s 0 false with | some (v, []) => some v | _ => none

/-- `<alg>-min-size=<n>`: every size of the algorithm that the build has, is at least n and is allowed at this maximum raises the
    StateFormatLevel to what it needs (an algorithm listed without a minimum size raises nothing) -/
def minSizeLevel (id v maxSfl : Nat) : Nat :=
  let sizes : List (Nat × Nat) :=
    if id = 1 then rsaSizes else (symSizes.filter (·.1 == id)).map (fun (_, b, s) => (b, s))
  ((sizes.filter (fun (b, s) => decide (b ≥ v) && decide (s ≤ maxSfl))).map (·.2)).foldl max 0

def curveSfl (id : Nat) : Nat := ((eccSfl.find? (·.1 == id)).map (·.2)).getD 1
/-- curves of a shortcut that need more than the allowed level are skipped; a curve named alone is refused (`algToken`) -/
def addCurves (a : Algs) (ids : List Nat) (maxSfl : Nat) : Algs :=
  let ok := ids.filter (fun id => decide (curveSfl id ≤ maxSfl))
  { a with curves := ok ++ a.curves, level := (ok.map curveSfl).foldl max a.level }

/-- one token of the Algorithms list -/
def algToken (a : Algs) (tok : String) (maxSfl : Nat) : Option Algs :=
  match algByName tok with
  | some (id, _, _, sfl, _) => if sfl ≤ maxSfl then some { a with enabled := id :: a.enabled, level := max a.level sfl } else none
  | none =>
    -- <alg>-min-size=<n> for algorithms with key sizes
    match algProps.find? (fun (_, n, _, _, ks) => ks && tok.startsWith (n ++ "-min-size=")) with
    | some (id, n, _, _, _) =>
      (match readDec (tok.toList.drop (n.length + 10)) with
       | some v => if v ≤ 4096 then some { a with minSize := (id, v) :: a.minSize, level := max a.level (minSizeLevel id v maxSfl) } else none
       | none => none)
    | none =>
      if tok.startsWith "hmac-min-key-size=" then
        (if (readDec (tok.toList.drop 18)).isSome ∧ hmacMinKeySfl ≤ maxSfl then some { a with level := max a.level hmacMinKeySfl } else none) else
      -- curve shortcuts and single curves
      if tok = "ecc-nist" then some (addCurves a ((eccProps.filter (·.2.1.startsWith "ecc-nist-p")).map (·.1)) maxSfl)
      else if tok = "ecc-bn" then some (addCurves a ((eccProps.filter (·.2.1.startsWith "ecc-bn-p")).map (·.1)) maxSfl)
      else match curveByName tok with
        | some (id, _, _, _) => if curveSfl id ≤ maxSfl then some (addCurves a [id] maxSfl) else none
        | none => none

/-- `RuntimeAlgorithmSetProfile`: all tokens known, every algorithm and curve that cannot be disabled present -/
def setAlgorithms (profile : String) (maxSfl : Nat) : Option Algs :=
  match (profile.splitOn ",").foldl (fun (acc : Option Algs) tok => acc.bind (fun a => algToken a tok maxSfl)) (some {}) with
  | none => none
  | some a =>
    if algProps.all (fun (id, _, canDis, _, _) => canDis || a.enabled.contains id)
       && eccProps.all (fun (id, _, _, canDis) => canDis || a.curves.contains id)
       -- consistency: no aes-min-size above 128 together with rsa-min-size=2048 (standard EK certificates)
       && !(decide (((a.minSize.find? (·.1 == 6)).map (·.2)).getD 0 > 128) && ((a.minSize.find? (·.1 == 1)).map (·.2)).getD 0 == 2048)
    then some a else none

def minSizeOf (a : Algs) (id : Nat) : Nat := ((a.minSize.find? (·.1 == id)).map (·.2)).getD 0

/-- is this curve usable: enabled by name or shortcut and not below ecc-min-size -/
def curveOk (a : Algs) (curve : Nat) : Bool :=
  a.curves.contains curve && (match eccProps.find? (·.1 == curve) with | some (_, _, sz, _) => decide (sz ≥ minSizeOf a 35) | none => false)

/-- is this RSA key size usable -/
def rsaOk (a : Algs) (bits : Nat) (sfl : Nat) : Bool :=
  a.enabled.contains 1 && (rsaSizes.any (fun (b, s) => b == bits && s ≤ sfl)) && decide (bits ≥ minSizeOf a 1)

/-- is this symmetric key size usable: the build has it at this StateFormatLevel and it is not below the minimum -/
def symSizeOk (a : Algs) (alg bits sfl : Nat) : Bool :=
  a.enabled.contains alg && (symSizes.any (fun (al, b, s) => al == alg && b == bits && s ≤ sfl)) && decide (bits ≥ minSizeOf a alg)

/-! ### Attributes (`RuntimeAttributes.c`) -/

/-- `RuntimeAttributesSetProfile`: a comma-separated list of attribute names, each known and allowed at this
    StateFormatLevel; `none` = refused. Returns the union of the flags and the StateFormatLevel the attributes need. -/
def attrToken (acc : Nat × Nat) (tok : String) (maxSfl : Nat) : Option (Nat × Nat) :=
  match attrProps.find? (·.1 == tok) with
  | some (_, f, sfl) => if sfl ≤ maxSfl then some (acc.1 ||| f, max acc.2 sfl) else none
  | none => none

/-- the items of the list, in order -/
def setAttributesL (toks : List String) (maxSfl : Nat) : Option (Nat × Nat) :=
  toks.foldl (fun acc tok => acc.bind (fun a => attrToken a tok maxSfl)) (some (0, 0))

def setAttributes (profile : String) (maxSfl : Nat) : Option (Nat × Nat) :=
  if profile = "" then some (0, 0) else setAttributesL (profile.splitOn ",") maxSfl

def hasFlag (flags f : Nat) : Bool := flags &&& f ≠ 0

/-- what a profile attribute enforces, as the base return code of a probe command whose prerequisites (algorithms, curve,
    commands) are enabled: 0 = works, otherwise the format-one code without parameter/session decoration.
    1 RSA_Encrypt without padding · 2 Sign(ECDSA, SHA-1) · 3 VerifySignature(ECDSA, SHA-1, wrong signature) ·
    4 Sign(HMAC, SHA-1) · 5 VerifySignature(HMAC, SHA-1, wrong MAC) · 6 EC_Ephemeral -/
def attrProbe (flags probe : Nat) : Nat :=
  if probe = 1 then (if hasFlag flags ATTR_NO_UNPADDED_ENCRYPTION then 0x92 else 0)          -- TPM_RC_SCHEME
  else if probe = 2 then (if hasFlag flags ATTR_NO_SHA1_SIGNING then 0x83 else 0)              -- TPM_RC_HASH
  else if probe = 3 then (if hasFlag flags ATTR_NO_SHA1_VERIFICATION then 0x83 else 0x9B)      -- else TPM_RC_SIGNATURE
  else if probe = 4 then (if hasFlag flags ATTR_NO_SHA1_HMAC_CREATION then 0x83 else 0)
  else if probe = 5 then (if hasFlag flags ATTR_NO_SHA1_HMAC_VERIFICATION then 0x83 else 0x9B)
  else if probe = 6 then (if hasFlag flags ATTR_NO_ECC_KEY_DERIVATION then 0x8A else 0)        -- TPM_RC_TYPE
  else 0

/-! ### StateFormatLevel of a custom profile (`RuntimeProfileSet`) -/

/-- a custom profile: the requested level must be ≥ 2 and ≤ the library's; everything enabled must fit under it -/
def customLevelOk (requested : Option Nat) : Bool :=
  match requested with
  | none => true
  | some l => decide (2 ≤ l) && decide (l ≤ STATE_FORMAT_LEVEL_CURRENT)

end TpmVerif.Model.Profile
