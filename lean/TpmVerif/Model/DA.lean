import TpmVerif.Model.Clock
/-!
  Dictionary-attack logic as coded: `DA.c` (DAStartup, DARegisterFailure, DASelfHeal), `SessionProcess.c`
  (IsDAExempted, CheckLockedOut, IncrementLockout for password authorizations), `DictionaryCommands.c`,
  the USE_DA_USED orderly-state dance, ACCUMULATE_SELF_HEAL_TIMER timers kept in the orderly data,
  on top of `Model.Clock` for TPM time, startup counters and the commit protocol.
-/
namespace TpmVerif.Model.DA
open TpmVerif TpmVerif.Model.Clock

/-- persistent DA parameters (part of gp; live = NV image because every change is NV_SYNCed at once) -/
structure DAP where
  failedTries : Nat := 0
  maxTries : Nat := 3
  recoveryTime : Nat := 1000
  lockoutRecovery : Nat := 1000
  lockoutEnabled : Bool := true
deriving Repr, DecidableEq, Inhabited

/-- the DA part of the orderly data `go` -/
structure GoDA where
  selfHealTimer : Nat := 0
  lockoutTimer : Nat := 0
  time : Nat := 0          -- go.time, written by Shutdown
deriving Repr, DecidableEq, Inhabited

structure St where
  clk : Clock.St := {}
  p : DAP := {}            -- gp (live and NV image)
  dp : DAP := {}           -- as last committed to storage
  go : GoDA := {}          -- live
  ngo : GoDA := {}         -- NV image copy (NvWrite(NV_ORDERLY_DATA) at clock-interval crossings and Shutdown)
  dgo : GoDA := {}         -- as last committed to storage
  daUsed : Bool := false   -- g_daUsed
  timerReset : Bool := true -- s_timerReset (read-once, consumed by DAStartup)
deriving Repr, Inhabited

inductive Ent where | da | exempt | lockout
deriving Repr, DecidableEq

inductive Op where
  | auth (e : Ent) (ok : Bool)          -- a command authorised by password for entity `e`, correct or wrong secret
  | lockReset (ok : Bool)               -- DictionaryAttackLockReset with lockoutAuth
  | params (ok : Bool) (maxTries recoveryTime lockoutRecovery : Nat)
  | startup (su : Nat)
  | shutdown (su : Nat)
  | neutral
deriving Repr, DecidableEq

def RC_LOCKOUT : Nat := 0x921
def RC_RETRY : Nat := 0x922
def RC_AUTH_FAIL : Nat := 0x98E
def RC_BAD_AUTH : Nat := 0x9A2

/-- first half of `DASelfHeal`: forgive failedTries -/
def healTries (s : St) : St :=
  let g := s.clk.gTime
  if s.p.failedTries = 0 then s
  else if s.p.recoveryTime = 0 then
    { s with p := { s.p with failedTries := 0 }, clk := { s.clk with updateNV := true } }
  else
    let dc := (sub64 g s.go.selfHealTimer / 1000) / s.p.recoveryTime
    let dc32 := dc % W32
    let ft := if s.p.failedTries ≤ dc32 then 0 else s.p.failedTries - dc32
    { s with p := { s.p with failedTries := ft },
             go := { s.go with selfHealTimer := add64 s.go.selfHealTimer ((dc * s.p.recoveryTime % W) * 1000 % W) },
             clk := { s.clk with updateNV := s.clk.updateNV || decide (dc ≠ 0) } }

/-- second half of `DASelfHeal`: re-enable lockoutAuth -/
def healLockout (s : St) : St :=
  if !s.p.lockoutEnabled ∧ s.p.lockoutRecovery ≠ 0 ∧ sub64 s.clk.gTime s.go.lockoutTimer / 1000 ≥ s.p.lockoutRecovery then
    { s with p := { s.p with lockoutEnabled := true }, clk := { s.clk with updateNV := true } }
  else s

/-- `DASelfHeal` -/
def selfHeal (s : St) : St := healLockout (healTries s)

/-- command entry: Clock entry (TimeUpdate, possibly NvWrite(go) at an interval crossing) then DASelfHeal -/
def entry (s : St) (mono : Nat) : St :=
  let c1 := s.clk.entry mono
  if !s.clk.started then { s with clk := c1 } else
  let crossed := orMask c1.clock > orMask s.clk.clock
  let s := { s with clk := c1, ngo := if crossed then s.go else s.ngo }
  selfHeal s

/-- end of command: commit -/
def finish (s : St) : St × Bool :=
  let (c, st) := s.clk.finish
  if st then ({ s with clk := c, dp := s.p, dgo := s.ngo }, true) else ({ s with clk := c }, false)

/-- `CheckLockedOut(lockoutAuthCheck)`; returns rc (0 = continue) -/
def checkLockedOut (s : St) (lockoutCheck : Bool) : St × Nat :=
  if lockoutCheck then (s, if s.p.lockoutEnabled then 0 else RC_LOCKOUT)
  else if s.p.failedTries ≥ s.p.maxTries then (s, RC_LOCKOUT)
  else if !s.daUsed then
    ({ s with daUsed := true,
              clk := { s.clk with orderly := Gen.SU_DA_USED_VALUE, nv := { s.clk.nv with orderly := Gen.SU_DA_USED_VALUE }, updateNV := true } },
     RC_RETRY)
  else (s, 0)

/-- `IncrementLockout` for a password session on a non-exempt entity (`lockout` = handle is TPM_RH_LOCKOUT) -/
def incrementLockout (s : St) (lockout : Bool) : St :=
  if lockout then
    -- (NV is updated also when lockoutRecovery = 0: see the fix recorded in known_findings.txt)
    { s with p := { s.p with lockoutEnabled := false }, go := { s.go with lockoutTimer := s.clk.gTime },
             clk := { s.clk with updateNV := true } }
  else
    let s := if s.p.recoveryTime ≠ 0 then
        { s with p := { s.p with failedTries := (s.p.failedTries + 1) % W32 }, clk := { s.clk with updateNV := true } } else s
    { s with go := { s.go with selfHealTimer := s.clk.gTime } }

/-- authorization of one password session for entity `e` (CheckAuthSession) -/
def authorize (s : St) (e : Ent) (ok : Bool) : St × Nat :=
  match e with
  | .exempt => (s, if ok then 0 else RC_BAD_AUTH)
  | .da =>
      let (s, rc) := checkLockedOut s false
      if rc ≠ 0 then (s, rc) else if ok then (s, 0) else (incrementLockout s false, RC_AUTH_FAIL)
  | .lockout =>
      let (s, rc) := checkLockedOut s true
      if rc ≠ 0 then (s, rc) else if ok then (s, 0) else (incrementLockout s true, RC_AUTH_FAIL)

/-- the DA part of `TPM2_Startup` that precedes `TimeUpdate` (`DAStartup` up to its last line) -/
def daStartupPre (s : St) (prev : Nat) : St :=
  let s :=
    if s.timerReset then
      if !isOrderly prev then { s with go := { s.go with selfHealTimer := 0, lockoutTimer := 0 } }
      else { s with go := { s.go with selfHealTimer := sub64 s.go.selfHealTimer s.go.time,
                                      lockoutTimer := sub64 s.go.lockoutTimer s.go.time } }
    else s
  let s := { s with timerReset := false }
  let s := if s.p.lockoutRecovery = 0 then { s with p := { s.p with lockoutEnabled := true } } else s
  if s.p.recoveryTime ≠ 0 ∧ s.p.failedTries < s.p.maxTries ∧ !isOrderly prev then
    { s with p := { s.p with failedTries := s.p.failedTries + (if s.daUsed then 1 else 0) }, daUsed := false }
  else s

def body (s : St) (mono : Nat) : Op → St × Nat
  | .auth e ok => authorize s e ok
  | .lockReset ok =>
      let (s, rc) := authorize s .lockout ok
      if rc ≠ 0 then (s, rc) else ({ s with p := { s.p with failedTries := 0 }, clk := { s.clk with updateNV := true } }, 0)
  | .params ok mt rt lr =>
      let (s, rc) := authorize s .lockout ok
      if rc ≠ 0 then (s, rc)
      else ({ s with p := { s.p with maxTries := mt, recoveryTime := rt, lockoutRecovery := lr }, clk := { s.clk with updateNV := true } }, 0)
  | .startup su =>
      -- g_daUsed = (orderlyState == DA_USED); DAStartup before TimeUpdate; then the Clock model's Startup; DASelfHeal
      let daU := s.clk.orderly = Gen.SU_DA_USED_VALUE
      let prev := prevOrderly s.clk.orderly
      if su = 1 ∧ prev ≠ 1 then ({ s with daUsed := daU, clk := (s.clk.startup mono su).1 }, (s.clk.startup mono su).2)
      else
        let s := { s with daUsed := daU }
        let s := daStartupPre s prev
        let c := (s.clk.startup mono su).1
        let s := { s with clk := c }
        (selfHeal s, 0)
  | .shutdown su =>
      let (c, rc) := s.clk.shutdown su
      let go := { s.go with time := s.clk.gTime }
      ({ s with clk := c, go := go, ngo := go, daUsed := false }, rc)
  | .neutral => (s, 0)

def gateFails (s : St) : Op → Bool
  | .startup _ => s.clk.started
  | _ => !s.clk.started

/-- one command; returns state, rc, whether storage was written -/
def exec (s : St) (mono : Nat) (op : Op) : St × Nat × Bool :=
  let s1 := entry s mono
  if gateFails s1 op then ((finish s1).1, RC_INITIALIZE, (finish s1).2)
  else
    let r := body s1 mono op
    ((finish r.1).1, r.2, (finish r.1).2)

/-- power cut / orderly restart: everything persistent comes from storage; the tick timer restarts -/
def restart (s : St) (mono : Nat) : St :=
  { s with clk := s.clk.restart mono, p := s.dp, go := s.dgo, ngo := s.dgo, timerReset := true }

/-- suspend/resume keeps everything (the volatile blob carries go, g_daUsed, s_timerReset) -/
def suspendResume (s : St) (m r m' r' : Nat) : St :=
  { s with clk := Clock.resume (s.clk.suspend m r) m' r', dp := s.p, dgo := s.ngo }

/-- TPMA_PERMANENT.inLockout as reported -/
def inLockout (s : St) : Bool := s.p.failedTries ≥ s.p.maxTries

end TpmVerif.Model.DA
