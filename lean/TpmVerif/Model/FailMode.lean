import TpmVerif.Gen.Consts
import TpmVerif.Base.Bytes
/-!
  `TpmFail.c:TpmFailureMode` transcribed completely, plus `ExecuteCommand`'s failure-mode short-circuit.
  The response is a pure function of the request bytes and (s_failFunction, s_failLine, s_failCode).
-/
namespace TpmVerif.Model.FailMode
open TpmVerif

structure FailInfo where
  function : Nat
  line : Nat
  code : Nat
deriving Repr, DecidableEq, Inhabited

/-- the bare failure header: tag NO_SESSIONS, size 10, TPM_RC_FAILURE -/
def failureHeader : Bytes := be16 Gen.TPM_ST_NO_SESSIONS ++ be32 10 ++ be32 Gen.TPM_RC_FAILURE

/-- success header around a parameter area -/
def okResponse (params : Bytes) : Bytes :=
  be16 Gen.TPM_ST_NO_SESSIONS ++ be32 (params.length + 10) ++ be32 0 ++ params

/-- the value reported for a fixed property in failure mode -/
def propValue (pt : Nat) : Nat :=
  if pt = Gen.TPM_PT_MANUFACTURER then Gen.PLAT_MANUFACTURER
  else if pt = Gen.TPM_PT_VENDOR_STRING_1 then Gen.PLAT_VENDOR_1
  else if pt = Gen.TPM_PT_VENDOR_STRING_2 then Gen.PLAT_VENDOR_2
  else if pt = Gen.TPM_PT_VENDOR_STRING_3 then Gen.PLAT_VENDOR_3
  else if pt = Gen.TPM_PT_VENDOR_STRING_4 then Gen.PLAT_VENDOR_4
  else if pt = Gen.TPM_PT_VENDOR_TPM_TYPE then Gen.PLAT_TPM_TYPE
  else if pt = Gen.TPM_PT_FIRMWARE_VERSION_1 then Gen.PLAT_FW_HIGH
  else Gen.PLAT_FW_LOW

/-- GetTestResult parameters: TPM2B(3 × UINT32) ‖ testResult -/
def testResultParams (f : FailInfo) : Bytes :=
  be16 12 ++ be32 f.function ++ be32 f.line ++ be32 f.code ++
    be32 (if f.code = Gen.FATAL_ERROR_NV_UNRECOVERABLE then Gen.TPM_RC_NV_UNINITIALIZED else Gen.TPM_RC_FAILURE)

/-- GetCapability(TPM_PROPERTIES) parameters: moreData, the capability, a list of at most one (property, value) pair.
    A count of 0 gives the empty list (before fix 078aa7e the code appended the property twice to the empty list: 8 bytes the
    response schema has no place for) -/
def capParams (pt count : Nat) : Bytes :=
  let count := if count > 0 then 1 else 0
  let pt := if pt < Gen.TPM_PT_MANUFACTURER then Gen.TPM_PT_MANUFACTURER else pt
  let more : UInt8 := if pt < Gen.TPM_PT_FIRMWARE_VERSION_2 then 1 else 0
  [more] ++ be32 Gen.TPM_CAP_TPM_PROPERTIES ++ be32 count ++ (if count > 0 then be32 pt ++ be32 (propValue pt) else [])

/-- `TpmFailureMode` -/
def respond (f : FailInfo) (req : Bytes) : Bytes :=
  match rdBE req 0 2, rdBE req 2 4, rdBE req 6 4 with
  | some tag, some size, some cc =>
    if tag ≠ Gen.TPM_ST_NO_SESSIONS ∨ size < 10 then failureHeader
    else if cc = Gen.TPM_CC_GetTestResult then
      if size ≠ 10 then failureHeader else okResponse (testResultParams f)
    else if cc = Gen.TPM_CC_GetCapability then
      match rdBE req 10 4, rdBE req 14 4, rdBE req 18 4 with
      | some cap, some pt, some count =>
        if size ≠ 22 ∨ cap ≠ Gen.TPM_CAP_TPM_PROPERTIES then failureHeader else okResponse (capParams pt count)
      | _, _, _ => failureHeader
    else failureHeader
  | _, _, _ => failureHeader

/-- the part of the TPM state that the failure-mode short-circuit of `ExecuteCommand` could touch -/
structure St (σ : Type) where
  inFailure : Bool
  info : FailInfo
  tpm : σ            -- everything else (opaque)
  stores : Nat       -- number of storage writes so far

/-- `ExecuteCommand` while `g_inFailureMode`: `g_updateNV = UT_NONE; TpmFailureMode(...); return` -/
def execInFailure {σ : Type} (s : St σ) (req : Bytes) : St σ × Bytes := (s, respond s.info req)

end TpmVerif.Model.FailMode
