import TpmVerif.Base.Bytes
import TpmVerif.Crypto.Sha
import TpmVerif.Crypto.Aes
import TpmVerif.Gen.Consts
/-!
  Protection of a saved context (`Context_spt.c`): the integrity HMAC over (totalResetCount ‖ [clearCount] ‖ sequence ‖
  handle ‖ encrypted blob) under the hierarchy proof, and the encryption key/IV from KDFa(proof, "CONTEXT", sequence,
  handle). Hash = the generated CONTEXT_INTEGRITY_HASH_ALG, cipher = AES-CFB with CONTEXT_ENCRYPT_KEY_BITS.
-/
namespace TpmVerif.Model.Context
open TpmVerif TpmVerif.Crypto

def ctxAlg : Alg := (algOfId Gen.CONTEXT_INTEGRITY_HASH_ALG).getD sha512

def leBytes (n len : Nat) : Bytes := (List.range len).map (fun i => UInt8.ofNat (n / 256 ^ i % 256))
def beBytes (n len : Nat) : Bytes := (List.range len).map (fun i => UInt8.ofNat (n / 256 ^ (len - 1 - i) % 256))

/-- what the integrity HMAC is computed over; the sequence-object handle 0x80000002 also binds clearCount -/
def integrityInput (total clear seq handle : Nat) (enc : Bytes) : Bytes :=
  beBytes total Gen.SIZEOF_TOTAL_RESET_COUNT ++ (if handle = 0x80000002 then beBytes clear Gen.SIZEOF_CLEAR_COUNT else []) ++
  beBytes seq 8 ++ beBytes handle 4 ++ enc

def integrity (proof : Bytes) (total clear seq handle : Nat) (enc : Bytes) : Bytes :=
  hmac ctxAlg proof (integrityInput total clear seq handle enc)

/-- key and IV: KDFa(proof, "CONTEXT", sequence, handle) — sequence and handle as the C code copies them (native byte order) -/
def protectionKey (proof : Bytes) (seq handle : Nat) : Bytes × Bytes :=
  let kb := Gen.CONTEXT_ENCRYPT_KEY_BITS / 8
  let k := kdfa ctxAlg proof "CONTEXT" (leBytes seq 8) (leBytes handle 4) ((kb + 16) * 8)
  (k.take kb, (k.drop kb).take 16)

/-- split `contextBlob` = integrity 2B ‖ encrypted part -/
def splitBlob (blob : Bytes) : Option (Bytes × Bytes) :=
  match rdBE blob 0 2 with
  | some n => if 2 + n ≤ blob.length then some ((blob.drop 2).take n, blob.drop (2 + n)) else none
  | none => none

/-- the decision of TPM2_ContextLoad on the protection: the integrity value must be the HMAC, and the decrypted blob
    must start with the sequence number (the fingerprint) -/
def accepts (proof : Bytes) (total clear seq handle : Nat) (blob : Bytes) : Bool :=
  match splitBlob blob with
  | none => false
  | some (integ, enc) =>
    let (key, iv) := protectionKey proof seq handle
    integ == integrity proof total clear seq handle enc &&
    ((cfbDecrypt (aesEncryptBlock key) iv enc).1.take 8) == leBytes seq 8

end TpmVerif.Model.Context
