import TpmVerif.Model.Sha1
/-!
  TPM 1.2 authorization (OIAP / OSAP) as the C code computes it: `tpm12/tpm_auth.c` (`TPM_Authdata_Check`,
  `TPM_AuthParams_Set`), `tpm12/tpm_session.c` (`TPM_Process_OSAP`: shared secret), `tpm12/tpm_crypto.c` (`TPM_HMAC_*`),
  on top of the Lean SHA-1 of `Model.Sha1`.

  * the authorization HMAC is HMAC-SHA1(key, paramDigest ‖ nonceEven ‖ nonceOdd ‖ continueAuthSession) where
    paramDigest = SHA-1(ordinal ‖ parameters) for a request and SHA-1(returnCode ‖ ordinal ‖ output parameters) for an
    answer, key = the entity's secret (OIAP) or the OSAP shared secret;
  * the OSAP shared secret is HMAC-SHA1(entity secret, nonceEvenOSAP ‖ nonceOddOSAP);
  * the TPM accepts a request iff the HMAC it computes with ITS key and ITS current nonceEven over the bytes it RECEIVED
    (parameters, nonceOdd, continueAuthSession) equals the HMAC it received.
-/
namespace TpmVerif.Model.Tpm12.Auth
open TpmVerif.Model

abbrev Bytes := List UInt8

def blockSize : Nat := 64

/-- the key padded with zeros to one SHA-1 block and XORed with the pad byte (keys longer than a block are hashed first) -/
def padKey (key : Bytes) (pad : UInt8) : Bytes :=
  let k := if key.length > blockSize then Sha1.sha1 key else key
  (k ++ List.replicate (blockSize - k.length) 0).map (· ^^^ pad)

/-- HMAC-SHA1 (RFC 2104) -/
def hmac (key msg : Bytes) : Bytes :=
  Sha1.sha1 (padKey key 0x5c ++ Sha1.sha1 (padKey key 0x36 ++ msg))

def contByte (c : Bool) : UInt8 := if c then 1 else 0

/-- the bytes the authorization HMAC is taken over -/
def authMsg (paramDigest nonceEven nonceOdd : Bytes) (cont : Bool) : Bytes :=
  paramDigest ++ nonceEven ++ nonceOdd ++ [contByte cont]

/-- the authorization HMAC over the bytes `pd` the parameter digest is taken over -/
def authMac (key pd nonceEven nonceOdd : Bytes) (cont : Bool) : Bytes :=
  hmac key (authMsg (Sha1.sha1 pd) nonceEven nonceOdd cont)

/-- `TPM_Process_OSAP`: the shared secret of an OSAP session -/
def osapSecret (entitySecret nonceEvenOSAP nonceOddOSAP : Bytes) : Bytes :=
  hmac entitySecret (nonceEvenOSAP ++ nonceOddOSAP)

/-- an authorized request as the TPM sees it: its own key and nonceEven, and what arrived on the wire -/
structure Request where
  key : Bytes            -- entity secret (OIAP) or OSAP shared secret, as the TPM holds it
  nonceEven : Bytes      -- the session's current nonceEven, as the TPM holds it
  pd : Bytes             -- ordinal ‖ parameters as RECEIVED
  nonceOdd : Bytes       -- as received
  cont : Bool            -- continueAuthSession as received
  mac : Bytes            -- the HMAC as received
deriving Repr

/-- `TPM_Authdata_Check` -/
def accepts (r : Request) : Bool := authMac r.key r.pd r.nonceEven r.nonceOdd r.cont == r.mac

/-- the HMAC `TPM_AuthParams_Set` puts on the answer -/
def responseMac (key rpd newNonceEven nonceOdd : Bytes) (cont : Bool) : Bytes := authMac key rpd newNonceEven nonceOdd cont

end TpmVerif.Model.Tpm12.Auth
