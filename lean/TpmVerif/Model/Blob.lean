import TpmVerif.Base.Codec
import TpmVerif.Gen.Blob
import TpmVerif.Gen.Consts
/-!
  State-blob formats of `NVMarshal.c`, assembled from `Base.Codec` in the order the C code writes them:
  the NV_HEADER that starts every structure, the clock part of ORDERLY_DATA, and the clock tail (v3/v4)
  of the volatile state (`s_realTimePrevious … s_lastReportedTime`).  Regions whose inner grammar is not
  modelled are reached through their magic (every structure starts with an NV_HEADER).
-/
namespace TpmVerif.Model.Blob
open TpmVerif Codec

abbrev U16 := Fin 65536
abbrev U32 := Fin 4294967296
abbrev U64 := U32 × U32

def u64val (x : U64) : Nat := x.1.val * 4294967296 + x.2.val

/-- `NV_HEADER` (version ≥ 2 form): version, magic, min_version -/
structure Header where
  version : U16
  magic : U32
  minVersion : U16
deriving DecidableEq

def header : Codec Header where
  enc h := (seq u16 (seq u32 u16)).enc (h.version, h.magic, h.minVersion)
  dec bs := match (seq u16 (seq u32 u16)).dec bs with
    | some ((v, m, mv), r) => some (⟨v, m, mv⟩, r)
    | none => none
  rt := by intro a rest; rw [(seq u16 (seq u32 u16)).rt]

/-- the part of `ORDERLY_DATA` that precedes the DRBG state: header, clock, clockSafe -/
structure OrderlyHead where
  hdr : Header
  clock : U64
  safe : UInt8
deriving DecidableEq

def orderlyHead : Codec OrderlyHead where
  enc o := (seq header (seq u64 u8)).enc (o.hdr, o.clock, o.safe)
  dec bs := match (seq header (seq u64 u8)).dec bs with
    | some ((h, c, s), r) => some (⟨h, c, s⟩, r)
    | none => none
  rt := by intro a rest; rw [(seq header (seq u64 u8)).rt]

/-- the DA timers block of ORDERLY_DATA (a skip block: selfHealTimer, lockoutTimer, time) -/
def daTimers : Codec (U64 × U64 × U64) :=
  skipBlock (seq u64 (seq u64 u64)) (by intro a; simp [seq, u64, u32, be32_length])

/-- volatile-state clock tail, v4 part: monotonic anchor, suspended time, last system / reported time -/
def clockTailV4 : Codec (U64 × U64 × U64 × U64) := seq u64 (seq u64 (seq u64 u64))

/-- model-side acceptance test for the outermost header of a blob -/
def headerOk (bs : Bytes) (magic : Nat) (maxVersion : Nat) : Bool :=
  match header.dec bs with
  | some (h, _) => h.magic.val == magic && h.version.val ≤ maxVersion && h.minVersion.val ≤ maxVersion
  | none => false

/-- `NV_HEADER_Unmarshal` as coded: version (2 bytes), magic (4 bytes), and — from version 2 on — min_version (2 bytes).
    Refused: too short, another magic, a min_version above what this implementation writes. A HIGHER version with an acceptable
    min_version is not refused (newer writers append blocks that older readers skip). `none` = the header is accepted. -/
inductive HeaderRefusal where | insufficient | badTag | badVersion
  deriving Repr, DecidableEq

def headerRefusal (bs : Bytes) (magic cur : Nat) : Option HeaderRefusal :=
  match rdBE bs 0 2, rdBE bs 2 4 with
  | some v, some m =>
    if m ≠ magic then some .badTag
    else if v ≥ 2 then
      (match rdBE bs 6 2 with
       | some mv => if mv > cur then some .badVersion else none
       | none => some .insufficient)
    else none
  | _, _ => some .insufficient

end TpmVerif.Model.Blob
