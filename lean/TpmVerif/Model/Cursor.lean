/-!
  The unmarshalling cursor of `Unmarshal.c` / `NVMarshal.c`: a buffer position and the C `INT32 size` of what is left.
  Primitives test `(UINT32)size < n` (a negative size passes this test!), `block_skip_read` advances by a 16-bit
  block size taken from the data.  `Safe` says the cursor is inside the buffer; the theorems (Props.C06) show every
  primitive keeps it so — which for `block_skip_read` is true only with the bound check added by the fix recorded in
  known_findings.txt (the unfixed variant is kept as `skipUnchecked` with its counterexample).
-/
namespace TpmVerif.Model.Cursor

structure Cur where
  pos : Nat        -- bytes consumed so far
  size : Int       -- the C INT32 `*size`: bytes the parser believes are left
  len : Nat        -- real length of the buffer
deriving Repr, DecidableEq

/-- inside the buffer, and the believed remainder is the real remainder -/
def Safe (c : Cur) : Prop := 0 ≤ c.size ∧ c.pos + c.size.toNat = c.len

/-- `(UINT32)size` -/
def asU32 (i : Int) : Nat := (i % 4294967296).toNat

inductive Res where
  | ok (c : Cur)
  | insufficient
deriving Repr, DecidableEq

/-- `UINTn_Unmarshal`: `if((UINT32)*size < n) return TPM_RC_INSUFFICIENT; *buffer += n; *size -= n` -/
def take (c : Cur) (n : Nat) : Res :=
  if asU32 c.size < n then .insufficient else .ok { c with pos := c.pos + n, size := c.size - n }

/-- `block_skip_read` skipping branch AS FIXED: the block must fit into what is left -/
def skip (c : Cur) (blocksize : Nat) : Res :=
  if c.size < 0 ∨ asU32 c.size < blocksize then .insufficient
  else .ok { c with pos := c.pos + blocksize, size := c.size - blocksize }

/-- the same branch as it was before the fix: no comparison at all -/
def skipUnchecked (c : Cur) (blocksize : Nat) : Cur :=
  { c with pos := c.pos + blocksize, size := c.size - blocksize }

/-- does a read of `n` bytes at the cursor stay inside the buffer? -/
def readInBounds (c : Cur) (n : Nat) : Prop := c.pos + n ≤ c.len

end TpmVerif.Model.Cursor
