/-!
  SHA-1 (FIPS 180-4) in core Lean, executable, with an explicit streaming form.

  Words are `Nat`s kept below 2^32 by explicit reduction (`Nat` bit operations are evaluated natively by the
  kernel, so the test vectors check by `decide +kernel`).  The streaming state is what a SHA-1 context holds:
  the five chaining words, the bytes of the partial block and the total length.  `update` absorbs byte by
  byte, compressing whenever 64 bytes are buffered — this is the semantics of `SHA1_Update` for every way of
  cutting the input into calls, which is what `update_append` (Props/C20) states.
-/
namespace TpmVerif.Model.Sha1

abbrev Bytes := List UInt8

def M32 : Nat := 4294967296
def add32 (a b : Nat) : Nat := (a + b) % M32
def rotl (x n : Nat) : Nat := ((x <<< n) % M32) ||| (x >>> (32 - n))

structure H where
  a : Nat
  b : Nat
  c : Nat
  d : Nat
  e : Nat
deriving Repr, DecidableEq, Inhabited

def H0 : H := { a := 0x67452301, b := 0xEFCDAB89, c := 0x98BADCFE, d := 0x10325476, e := 0xC3D2E1F0 }

def f (t b c d : Nat) : Nat :=
  if t < 20 then (b &&& c) ||| ((b ^^^ 0xFFFFFFFF) &&& d)
  else if t < 40 then b ^^^ c ^^^ d
  else if t < 60 then (b &&& c) ||| (b &&& d) ||| (c &&& d)
  else b ^^^ c ^^^ d

def k (t : Nat) : Nat :=
  if t < 20 then 0x5A827999 else if t < 40 then 0x6ED9EBA1 else if t < 60 then 0x8F1BBCDC else 0xCA62C1D6

/-- big-endian 32-bit words of a block -/
def toWords : Bytes → List Nat
  | a :: b :: c :: d :: r => (((a.toNat * 256 + b.toNat) * 256 + c.toNat) * 256 + d.toNat) :: toWords r
  | _ => []

/-- one round; `w` is the window `[W[t], …, W[t+15]]` of the message schedule -/
def round (t : Nat) (w : List Nat) (s : H) : List Nat × H :=
  let wt := w.headD 0
  let tmp := add32 (add32 (add32 (add32 (rotl s.a 5) (f t s.b s.c s.d)) s.e) wt) (k t)
  let nw := rotl (w.getD 13 0 ^^^ w.getD 8 0 ^^^ w.getD 2 0 ^^^ wt) 1
  (w.tail ++ [nw], { a := tmp, b := s.a, c := rotl s.b 30, d := s.c, e := s.d })

/-- rounds `t, t+1, …, t+n-1` -/
def rounds : Nat → Nat → List Nat → H → H
  | 0, _, _, s => s
  | n + 1, t, w, s => let (w', s') := round t w s; rounds n (t + 1) w' s'

/-- the compression function on one 64-byte block -/
def compress (h : H) (blk : Bytes) : H :=
  let s := rounds 80 0 (toWords blk) h
  { a := add32 h.a s.a, b := add32 h.b s.b, c := add32 h.c s.c, d := add32 h.d s.d, e := add32 h.e s.e }

/-- streaming state: chaining value, partial block (most recent byte first), bytes absorbed so far -/
structure St where
  h : H := H0
  buf : Bytes := []
  total : Nat := 0
deriving Repr, DecidableEq, Inhabited

def init : St := {}

def pushByte (s : St) (b : UInt8) : St :=
  let buf := b :: s.buf
  if buf.length = 64 then { h := compress s.h buf.reverse, buf := [], total := s.total + 1 }
  else { s with buf := buf, total := s.total + 1 }

/-- `SHA1_Update` -/
def update (s : St) (d : Bytes) : St := d.foldl pushByte s

def be32 (n : Nat) : Bytes :=
  [UInt8.ofNat (n / 16777216), UInt8.ofNat (n / 65536), UInt8.ofNat (n / 256), UInt8.ofNat n]
def be64 (n : Nat) : Bytes := be32 (n / M32 % M32) ++ be32 (n % M32)

/-- `SHA1_Final`: pad (0x80, zeros, 64-bit bit length), compress the last one or two blocks, output 20 bytes -/
def final (s : St) : Bytes :=
  let m := s.buf.reverse ++ [0x80]
  let padLen := if m.length ≤ 56 then 56 - m.length else 120 - m.length
  let full := m ++ List.replicate padLen 0 ++ be64 (s.total * 8)
  let h := if full.length ≤ 64 then compress s.h full
           else compress (compress s.h (full.take 64)) (full.drop 64)
  be32 h.a ++ be32 h.b ++ be32 h.c ++ be32 h.d ++ be32 h.e

/-- one-shot SHA-1 -/
def sha1 (msg : Bytes) : Bytes := final (update init msg)

def ofString (s : String) : Bytes := s.toUTF8.toList

end TpmVerif.Model.Sha1
