import TpmVerif.Base.Bytes
import TpmVerif.Gen.Consts
import TpmVerif.Gen.Cmds
/-!
  TPM 2 command/response framing (`ExecCommand.c` header checks, `Response.c:BuildResponseHeader`) and the response
  grammar of the commands the harness issues (TCG Part 3 tables, written by hand; handle counts come from the
  generated `Gen.ccTable`).
-/
namespace TpmVerif.Model.Frame
open TpmVerif

/-- an error response: tag NO_SESSIONS, size 10, the code -/
def errHeader (rc : Nat) : Bytes := be16 Gen.TPM_ST_NO_SESSIONS ++ be32 10 ++ be32 rc

def lookup (cc : Nat) : Option (Nat × Nat × Bool × Bool × Nat) := Gen.ccTable.find? (·.1 == cc)

/-- header checks of `ExecuteCommand` that precede any command-specific processing.
    `started` = TPM2_Startup has completed. Returns the error code, or none when the command goes on. -/
def frameCheck (req : Bytes) (started : Bool) : Option Nat :=
  match rdBE req 0 2 with
  | none => some Gen.TPM_RC_INSUFFICIENT
  | some tag =>
    -- TPM_ST_Unmarshal: not a structure tag at all → TPM_RC_VALUE; a structure tag that is not a command tag → BAD_TAG
    if !Gen.stValid.contains tag then some Gen.TPM_RC_VALUE else
    if tag ≠ Gen.TPM_ST_NO_SESSIONS ∧ tag ≠ Gen.TPM_ST_SESSIONS then some Gen.TPM_RC_BAD_TAG else
    match rdBE req 2 4 with
    | none => some Gen.TPM_RC_INSUFFICIENT
    | some size =>
      if size ≠ req.length ∨ size > Gen.MAX_COMMAND_SIZE then some Gen.TPM_RC_COMMAND_SIZE else
      match rdBE req 6 4 with
      | none => some Gen.TPM_RC_INSUFFICIENT
      | some cc =>
        match lookup cc with
        | none => some Gen.TPM_RC_COMMAND_CODE
        | some (_, _, _, impl, _) =>
          if !impl then some Gen.TPM_RC_COMMAND_CODE
          else if (!started && cc != 0x144) || (started && cc == 0x144) then some Gen.TPM_RC_INITIALIZE
          else none

/-- the model's answer when a header check fails -/
def frameResponse (req : Bytes) (started : Bool) : Option Bytes := (frameCheck req started).map errHeader

/-! ### Response grammar -/

abbrev P := Bytes → Option Bytes     -- a parser consumes a prefix and returns the rest

def pN (n : Nat) : P := fun bs => if n ≤ bs.length then some (bs.drop n) else none
def pU8 : P := pN 1
def pU16 : P := pN 2
def pU32 : P := pN 4
def pU64 : P := pN 8
/-- TPM2B -/
def pB2 : P := fun bs => match rdBE bs 0 2 with | some n => pN (2 + n) bs | none => none
def pSeq (ps : List P) : P := fun bs => ps.foldl (fun acc p => acc.bind p) (some bs)
/-- `count` repetitions -/
def pRep (p : P) : Nat → P
  | 0 => fun bs => some bs
  | n + 1 => fun bs => (p bs).bind (pRep p n)
/-- u32 count then that many items (the count is bounded by the bytes left, each item consuming ≥ 1 byte is not
    assumed: the bound below keeps the recursion total even for empty items) -/
def pList32 (p : P) : P := fun bs => match rdBE bs 0 4 with
  | some n => if n ≤ bs.length then pRep p n (bs.drop 4) else none
  | none => none

def digestSize (alg : Nat) : Option Nat :=
  if alg = 0x0004 then some 20 else if alg = 0x000B then some 32 else if alg = 0x000C then some 48
  else if alg = 0x000D then some 64 else if alg = 0x0012 then some 32 else none

/-- TPMT_HA: alg then a digest of that algorithm's size -/
def pHA : P := fun bs => match rdBE bs 0 2 with
  | some alg => match digestSize alg with | some n => pN (2 + n) bs | none => none
  | none => none
/-- TPMS_PCR_SELECTION: hash, sizeofSelect, bytes -/
def pPcrSelection : P := fun bs => match rdBE bs 2 1 with | some n => pN (3 + n) bs | none => none
def pPcrSel : P := pList32 pPcrSelection
def pDigests : P := pList32 pB2
def pDigestValues : P := pList32 pHA
def pTicket : P := pSeq [pU16, pU32, pB2]
def pContext : P := pSeq [pU64, pU32, pU32, pB2]
def pTimeInfo : P := pN 25
/-- TPMT_SIGNATURE -/
def pSignature : P := fun bs => match rdBE bs 0 2 with
  | some alg =>
    if alg = 0x0010 then pN 2 bs
    else if alg = 0x0014 ∨ alg = 0x0016 then pSeq [pU16, pU16, pB2] bs
    else if alg = 0x0018 ∨ alg = 0x001A ∨ alg = 0x001B ∨ alg = 0x001C then pSeq [pU16, pU16, pB2, pB2] bs
    else if alg = 0x0005 then pSeq [pU16, pHA] bs
    else none
  | none => none
/-- TPMS_TAGGED_PCR_SELECT: tag, sizeofSelect, bytes -/
def pTaggedPcr : P := fun bs => match rdBE bs 4 1 with | some n => pN (5 + n) bs | none => none
/-- TPMS_CAPABILITY_DATA -/
def pCapData : P := fun bs => match rdBE bs 0 4 with
  | some cap =>
    let r := bs.drop 4
    if cap = 0 then pList32 (pN 6) r
    else if cap = 1 ∨ cap = 2 ∨ cap = 3 ∨ cap = 4 then pList32 pU32 r
    else if cap = 5 then pPcrSel r
    else if cap = 6 then pList32 (pN 8) r
    else if cap = 7 then pList32 pTaggedPcr r
    else if cap = 8 then pList32 pU16 r
    else if cap = 9 then pList32 (pSeq [pU32, pHA]) r
    else if cap = 10 then pList32 (pN 12) r
    else none
  | none => none

/-- TPMT_KDF_SCHEME: scheme, then a hash unless the scheme is NULL -/
def pKdfScheme : P := fun bs => match rdBE bs 0 2 with
  | some alg => if alg = 0x0010 then pN 2 bs else pN 4 bs
  | none => none
/-- TPMT_ECC_SCHEME: scheme; a hash unless NULL; ECDAA adds a count -/
def pEccScheme : P := fun bs => match rdBE bs 0 2 with
  | some alg => if alg = 0x0010 then pN 2 bs else if alg = 0x001A then pN 6 bs else pN 4 bs
  | none => none
/-- TPMS_ALGORITHM_DETAIL_ECC -/
def pEccDetail : P := pSeq [pU16, pU16, pKdfScheme, pEccScheme, pB2, pB2, pB2, pB2, pB2, pB2, pB2]

/-- commands whose success response has no parameters -/
def noParamCCs : List Nat := [0x11F, 0x120, 0x121, 0x122, 0x124, 0x125, 0x126, 0x127, 0x128, 0x129, 0x12A, 0x12C, 0x12D, 0x12E, 0x130,
    0x132, 0x134, 0x135, 0x136, 0x137, 0x138, 0x139, 0x13A, 0x13B, 0x13D, 0x140, 0x143, 0x144, 0x145, 0x146, 0x149, 0x14F, 0x15C, 0x165,
    0x16A, 0x16B, 0x16C, 0x16D, 0x16E, 0x16F, 0x170, 0x171, 0x172, 0x17F, 0x180, 0x182, 0x183, 0x188, 0x18A, 0x18C, 0x18F, 0x190,
    0x13F, 0x187, 0x192, 0x19B, 0x19C]

/-- the atoms of the response grammar -/
inductive G where
  | b2 | u8 | u16 | u32 | u64 | ticket | context | signature | capData | timeInfo | digestValues | pcrSel | digests | eccDetail | algList
  deriving DecidableEq, Repr

def G.parser : G → P
  | .b2 => pB2 | .u8 => pU8 | .u16 => pU16 | .u32 => pU32 | .u64 => pU64 | .ticket => pTicket | .context => pContext
  | .signature => pSignature | .capData => pCapData | .timeInfo => pTimeInfo | .digestValues => pDigestValues | .pcrSel => pPcrSel
  | .digests => pDigests | .eccDetail => pEccDetail | .algList => pList32 pU16

/-- response parameter grammar per command code; `none` = command not in the table (only the frame is checked) -/
def respGrammar (cc : Nat) : Option (List G) :=
  if noParamCCs.contains cc then some []
  else if cc = 0x17B ∨ cc = 0x155 ∨ cc = 0x14E ∨ cc = 0x189 ∨ cc = 0x15E ∨ cc = 0x174 ∨ cc = 0x159 ∨ cc = 0x154 ∨ cc = 0x150 ∨ cc = 0x147 ∨ cc = 0x19A ∨ cc = 0x156 then some [.b2]
  else if cc = 0x17C then some [.b2, .u32]
  else if cc = 0x17A then some [.u8, .capData]
  else if cc = 0x181 then some [.timeInfo]
  else if cc = 0x17D ∨ cc = 0x13E then some [.b2, .ticket]
  else if cc = 0x176 ∨ cc = 0x157 ∨ cc = 0x167 then some [.b2]           -- (+ response handle)
  else if cc = 0x131 then some [.b2, .b2, .b2, .ticket, .b2]              -- CreatePrimary (+ handle)
  else if cc = 0x153 then some [.b2, .b2, .b2, .b2, .ticket]              -- Create
  else if cc = 0x173 then some [.b2, .b2, .b2]
  else if cc = 0x162 then some [.context]
  else if cc = 0x161 ∨ cc = 0x186 ∨ cc = 0x15B then some []               -- (+ response handle)
  else if cc = 0x185 ∨ cc = 0x13C then some [.digestValues]
  else if cc = 0x17E then some [.u32, .pcrSel, .digests]
  else if cc = 0x12B then some [.u8, .u32, .u32, .u32]
  else if cc = 0x169 ∨ cc = 0x164 ∨ cc = 0x193 ∨ cc = 0x163 ∨ cc = 0x168 ∨ cc = 0x18D ∨ cc = 0x152 then some [.b2, .b2]
  else if cc = 0x199 ∨ cc = 0x14B ∨ cc = 0x191 then some [.b2, .b2, .b2]      -- ECC_Encrypt, Duplicate, CreateLoaded (+ handle)
  else if cc = 0x18E then some [.b2, .u16]                                  -- EC_Ephemeral
  else if cc = 0x18B then some [.b2, .b2, .b2, .u16]                        -- Commit
  else if cc = 0x160 ∨ cc = 0x151 then some [.b2, .ticket]                  -- PolicySigned, PolicySecret
  else if cc = 0x142 then some [.algList]                               -- IncrementalSelfTest
  else if cc = 0x178 then some [.eccDetail]                                 -- ECC_Parameters
  else if cc = 0x197 then some [.b2, .b2, .signature]                       -- CertifyX509
  else if cc = 0x15D then some [.signature]
  else if cc = 0x177 then some [.ticket]
  else if cc = 0x158 ∨ cc = 0x184 ∨ cc = 0x14C ∨ cc = 0x148 ∨ cc = 0x14A ∨ cc = 0x14D ∨ cc = 0x133 then some [.b2, .signature]
  else none

def respParams (cc : Nat) : Option (List P) := (respGrammar cc).map (List.map G.parser)

/-- number of authorization sessions in a request with tag ST_SESSIONS (walks the authorization area) -/
def sessionsIn (req : Bytes) (nHandles : Nat) : Nat :=
  match rdBE req (10 + 4 * nHandles) 4 with
  | none => 0
  | some authSize =>
    let area := (req.drop (14 + 4 * nHandles)).take authSize
    -- each record: handle(4) nonce(2B) attrs(1) hmac(2B); at most 3 sessions
    let rec go (bs : Bytes) (fuel : Nat) : Nat :=
      match fuel with
      | 0 => 0
      | f + 1 =>
        if bs.length < 9 then 0 else
        match pSeq [pU32, pB2, pU8, pB2] bs with
        | some r => 1 + go r f
        | none => 0
    go area 3

/-- model-free well-formedness of a response and exact parse of a success response. Returns a complaint or none. -/
def checkResponse (req rsp : Bytes) (bufSize : Nat) : Option String :=
  if rsp.length < 10 then some s!"response shorter than a header ({rsp.length} bytes)" else
  let tag := (rdBE rsp 0 2).getD 0; let size := (rdBE rsp 2 4).getD 0; let rc := (rdBE rsp 6 4).getD 0
  if size ≠ rsp.length then some s!"size field {size} ≠ returned length {rsp.length}" else
  if rsp.length > bufSize then some s!"response length {rsp.length} exceeds the buffer size {bufSize}" else
  if rc ≠ 0 then
    if rsp.length ≠ 10 ∨ tag ≠ Gen.TPM_ST_NO_SESSIONS then some s!"error {rc} not a bare NO_SESSIONS header (len {rsp.length}, tag {tag})" else none
  else
    let reqTag := (rdBE req 0 2).getD 0; let cc := (rdBE req 6 4).getD 0
    if tag ≠ reqTag then some s!"success response tag {tag} ≠ request tag {reqTag}" else
    match lookup cc, respParams cc with
    | some (_, nh, rh, _, _), some ps =>
      let body := rsp.drop (10 + (if rh then 4 else 0))
      if rsp.length < 10 + (if rh then 4 else 0) then some "missing response handle" else
      if tag = Gen.TPM_ST_SESSIONS then
        match rdBE body 0 4 with
        | none => some "missing parameterSize"
        | some psz =>
          let params := (body.drop 4).take psz; let sess := (body.drop 4).drop psz
          if (body.drop 4).length < psz then some "parameterSize beyond the response" else
          match pSeq ps params with
          | some [] =>
            match pRep (pSeq [pB2, pU8, pB2]) (sessionsIn req nh) sess with
            | some [] => none
            | some _ => some s!"trailing bytes after the session area (cc={cc})"
            | none => some s!"session area does not parse as {sessionsIn req nh} session(s) (cc={cc})"
          | some _ => some s!"trailing bytes in the parameter area (cc={cc})"
          | none => some s!"parameter area does not parse under the schema of cc={cc}"
      else
        match pSeq ps body with
        | some [] => none
        | some _ => some s!"trailing bytes after the parameters (cc={cc})"
        | none => some s!"parameters do not parse under the schema of cc={cc}"
    | _, _ => none

end TpmVerif.Model.Frame
