/-!
  The end-of-command commit protocol of `ExecuteCommand` / `NVReserved.c` / `LibtpmsCallbacks.c`, abstracted over
  the content of the NV image: `ι` is the type of images, `mask : ι → κ` projects an image onto everything except
  the ORDERLY_DATA block (clock, clockSafe, DRBG state, DA timers), which is the part allowed to lag in storage.

  * `NvWrite` (any persistent change) modifies the RAM image `nv` and sets `g_updateNV`.
  * `TimeClockUpdate`'s write modifies the image but restores `g_updateNV` (a clock update alone does not commit).
  * at the end of the command: `g_updateNV ∧ ¬failure ⇒ NvCommit`; a refused commit puts the TPM in failure mode.
  * in failure mode a command does nothing (see Model.FailMode).
-/
namespace TpmVerif.Model.Persist

structure St (ι : Type) where
  nv : ι                    -- s_NV, the RAM image of NV
  disk : Option ι           -- what the storage callback last accepted
  updateNV : Bool := false  -- g_updateNV ≠ UT_NONE
  failure : Bool := false   -- g_inFailureMode
  stores : Nat := 0         -- number of blobs handed to storage and accepted

/-- what one command does to the image before its end: a list of writes, each either a real persistent change or a
    clock-only (ORDERLY_DATA) write -/
inductive Write (ι : Type) where
  | nvWrite (f : ι → ι)       -- NvWrite / NV_SYNC_PERSISTENT
  | clockWrite (f : ι → ι)    -- the NvWrite inside TimeClockUpdate (g_updateNV saved and restored)

def applyWrite {ι} (s : St ι) : Write ι → St ι
  | .nvWrite f => { s with nv := f s.nv, updateNV := true }
  | .clockWrite f => { s with nv := f s.nv }

/-- `ExecuteCommand` from entry to return: `g_updateNV := UT_NONE`, the writes, then the commit decision.
    `storeOk` is the storage callback's answer (consulted only if a commit is due). -/
def body {ι} (s : St ι) (ws : List (Write ι)) : St ι := ws.foldl applyWrite { s with updateNV := false }

def command {ι} (s : St ι) (ws : List (Write ι)) (storeOk : Bool) : St ι :=
  if s.failure then s else
  let s1 := body s ws
  if s1.updateNV then
    if storeOk then { s1 with disk := some s1.nv, updateNV := false, stores := s1.stores + 1 }
    else { s1 with failure := true, updateNV := false }
  else s1

/-- does the command contain a real persistent change? -/
def hasNvWrite {ι} : List (Write ι) → Bool
  | [] => false
  | .nvWrite _ :: _ => true
  | .clockWrite _ :: ws => hasNvWrite ws

/-- a power cut followed by a restart: the image is what storage holds -/
def restart {ι} (s : St ι) : Option (St ι) :=
  match s.disk with
  | some d => some { nv := d, disk := some d }
  | none => none

end TpmVerif.Model.Persist
